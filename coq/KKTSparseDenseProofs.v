(* KKTSparseDenseProofs.v -- the step of the sparse back ends equals the step of the dense model (KKTDense.v) on the same data.
   [to_dense d] is the dense::Data with the same P_utri, AT, GT (as full matrices), the packed bound indices and the box scalings
   (c, b, h, x_lb_n, x_ub are not read by the KKT code: left empty).  Route: both steps satisfy the full un-eliminated Newton
   system (sparse: newton8 of KKTSparseSolveProofs.v; dense: kkt_solve_exact_dense + kkt_multiply_rows of UniqueProofs.v), the
   full system has a unique solution on convex problems (reduction to K_red, which is positive definite: PDProofs.v). *)
From PIQP Require Import Base CSC Data KKTDense LinAlg LLTProofs KKTProofs PDProofs UniqueProofs PrecondSparse
  C14LemmasProofs KKTSparseFull KKTSparseFullProofs KKTSparseSolve KKTSparseSolveProofs.
From PIQP Require PrecondProofs PrecondSparseProofs.
From RecordUpdate Require Import RecordSet.
Import RecordSetNotations.
From Coq Require Import Lia.
Local Open Scope Qc_scope.

(* ================================================================ uniqueness of the full system, on functions *)
Section Unique8.
Variable Y : L2sys.
Hypothesis Hrho : 0 < y_rho Y.
Hypothesis Hdelta : 0 < y_delta Y.
Hypothesis Hs : forall l, (l < y_m Y)%nat -> 0 < y_s Y l /\ 0 < y_zinv Y l.
Hypothesis Hlb : forall k, (k < y_nlb Y)%nat -> 0 < y_slb Y k /\ 0 < y_zli Y k.
Hypothesis Hub : forall k, (k < y_nub Y)%nat -> 0 < y_sub Y k /\ 0 < y_zui Y k.
Hypothesis HP : pos_semidef (y_n Y) (y_Psym Y).

Let N0 : y_delta Y <> 0. Proof. now apply Qclt_neq0. Qed.
Let N1 : forall l, (l < y_m Y)%nat -> y_zinv Y l <> 0. Proof. intros l Hl. apply Qclt_neq0. apply (Hs l Hl). Qed.
Let N2 : forall l, (l < y_m Y)%nat -> y_s Y l * y_zinv Y l + y_delta Y <> 0.
Proof. intros l Hl. destruct (Hs l Hl). apply Qc_den_pos; auto. now apply Qclt_le_weak. Qed.
Let N3 : forall k, (k < y_nlb Y)%nat -> y_zli Y k <> 0. Proof. intros k Hk. apply Qclt_neq0. apply (Hlb k Hk). Qed.
Let N4 : forall k, (k < y_nlb Y)%nat -> y_slb Y k * y_zli Y k + y_delta Y <> 0.
Proof. intros k Hk. destruct (Hlb k Hk). apply Qc_den_pos; auto. now apply Qclt_le_weak. Qed.
Let N5 : forall k, (k < y_nub Y)%nat -> y_zui Y k <> 0. Proof. intros k Hk. apply Qclt_neq0. apply (Hub k Hk). Qed.
Let N6 : forall k, (k < y_nub Y)%nat -> y_sub Y k * y_zui Y k + y_delta Y <> 0.
Proof. intros k Hk. destruct (Hub k Hk). apply Qc_den_pos; auto. now apply Qclt_le_weak. Qed.

Theorem newton8_fun_unique (x1 y1 z1 zl1 zu1 s1 sl1 su1 x2 y2 z2 zl2 zu2 s2 sl2 su2 : nat -> Qc) :
  (forall k, (k < y_nlb Y)%nat -> (y_lbidx Y k < y_n Y)%nat) -> (forall k, (k < y_nub Y)%nat -> (y_ubidx Y k < y_n Y)%nat) ->
  newton8_fun Y x1 y1 z1 zl1 zu1 s1 sl1 su1 -> newton8_fun Y x2 y2 z2 zl2 zu2 s2 sl2 su2 ->
  (forall i, (i < y_n Y)%nat -> x1 i = x2 i) /\ (forall l, (l < y_p Y)%nat -> y1 l = y2 l) /\ (forall l, (l < y_m Y)%nat -> z1 l = z2 l) /\
  (forall k, (k < y_nlb Y)%nat -> zl1 k = zl2 k) /\ (forall k, (k < y_nub Y)%nat -> zu1 k = zu2 k) /\
  (forall l, (l < y_m Y)%nat -> s1 l = s2 l) /\ (forall k, (k < y_nlb Y)%nat -> sl1 k = sl2 k) /\ (forall k, (k < y_nub Y)%nat -> su1 k = su2 k).
Proof.
  intros Ilb Iub (A1 & A2 & A3 & A4 & A5 & A6 & A7 & A8) (B1 & B2 & B3 & B4 & B5 & B6 & B7 & B8).
  assert (R1 : forall i, (i < y_n Y)%nat -> sum (y_n Y) (fun j => a_Kred Y i j * x1 j) = a_rhs Y i).
  { intros i Hi. apply (reduced_from_full Y x1 i Hi).
    exact (rev_row_x Y _ _ _ _ _ _ _ _ N0 N1 N2 N3 N4 N5 N6 A1 A2 A3 A4 A5 A6 A7 A8 i Hi). }
  assert (R2 : forall i, (i < y_n Y)%nat -> sum (y_n Y) (fun j => a_Kred Y i j * x2 j) = a_rhs Y i).
  { intros i Hi. apply (reduced_from_full Y x2 i Hi).
    exact (rev_row_x Y _ _ _ _ _ _ _ _ N0 N1 N2 N3 N4 N5 N6 B1 B2 B3 B4 B5 B6 B7 B8 i Hi). }
  assert (Ex : forall i, (i < y_n Y)%nat -> x1 i = x2 i).
  { apply (pos_def_injective (y_n Y) (a_Kred Y)); [apply a_Kred_pos_def; assumption|].
    intros i Hi. now rewrite R1, R2. }
  split; [exact Ex|]. split; [|split; [|split; [|split; [|split; [|split]]]]].
  - intros l Hl. rewrite (rev_dy Y _ _ N0 A2 l Hl), (rev_dy Y _ _ N0 B2 l Hl). now apply a_dy_ext.
  - intros l Hl. rewrite (rev_dz Y _ _ _ N1 N2 A3 A6 l Hl), (rev_dz Y _ _ _ N1 N2 B3 B6 l Hl). now apply a_dz_ext.
  - intros k Hk. rewrite (rev_dzlb Y _ _ _ N3 N4 A4 A7 k Hk), (rev_dzlb Y _ _ _ N3 N4 B4 B7 k Hk). apply a_dzlb_ext. apply Ex. now apply Ilb.
  - intros k Hk. rewrite (rev_dzub Y _ _ _ N5 N6 A5 A8 k Hk), (rev_dzub Y _ _ _ N5 N6 B5 B8 k Hk). apply a_dzub_ext. apply Ex. now apply Iub.
  - intros l Hl. rewrite (rev_ds Y _ _ _ N1 N2 A3 A6 l Hl), (rev_ds Y _ _ _ N1 N2 B3 B6 l Hl). now apply a_ds_ext.
  - intros k Hk. rewrite (rev_dslb Y _ _ _ N3 N4 A4 A7 k Hk), (rev_dslb Y _ _ _ N3 N4 B4 B7 k Hk). apply a_dslb_ext. apply Ex. now apply Ilb.
  - intros k Hk. rewrite (rev_dsub Y _ _ _ N5 N6 A5 A8 k Hk), (rev_dsub Y _ _ _ N5 N6 B5 B8 k Hk). apply a_dsub_ext. apply Ex. now apply Iub.
Qed.
End Unique8.

(* ================================================================ the dense view of the sparse data and scalings *)
Definition to_dense (d : sdata) : Data :=
  {| d_n := sd_n d; d_p := sd_p d; d_m := sd_m d;
     d_P := csc_to_dense (sd_P d); d_AT := csc_to_dense (sd_AT d); d_GT := csc_to_dense (sd_GT d);
     d_c := []; d_b := []; d_h := [];
     d_lb_idx := head (sd_nlb d) (sd_lbidx d); d_ub_idx := head (sd_nub d) (sd_ubidx d);
     d_lb_scaling := sd_lbs d; d_ub_scaling := sd_ubs d;
     d_lb_n := []; d_ub := [] |}.

(* the dense KKT object before update_kkt: the scalings as the sparse object stores them (z already inverted), AT*A cached *)
Definition dense_kkt0 (d : sdata) (c : scal) : KKT :=
  {| k_rho := sc_rho c; k_delta := sc_delta c; k_s := sc_s c; k_s_lb := sc_s_lb c; k_s_ub := sc_s_ub c;
     k_z_inv := sc_z_inv c; k_z_lb_inv := sc_z_lb_inv c; k_z_ub_inv := sc_z_ub_inv c;
     k_mat := []; k_ATA := compute_ATA (to_dense d); k_fact := None |}.

Definition step_of (v : step8) : Step :=
  {| st_x := t_x v; st_y := t_y v; st_z := t_z v; st_z_lb := t_zlb v; st_z_ub := t_zub v; st_s := t_s v; st_s_lb := t_slb v; st_s_ub := t_sub v |}.

(* positive scalings (what the interior-point iterates provide) *)
Definition pos_scal_s (d : sdata) (c : scal) : Prop :=
  0 < sc_rho c /\ 0 < sc_delta c /\
  (forall l, (l < sd_m d)%nat -> 0 < fv (sc_s c) l /\ 0 < fv (sc_z_inv c) l) /\
  (forall k, (k < sd_nlb d)%nat -> 0 < fv (sc_s_lb c) k /\ 0 < fv (sc_z_lb_inv c) k) /\
  (forall k, (k < sd_nub d)%nat -> 0 < fv (sc_s_ub c) k /\ 0 < fv (sc_z_ub_inv c) k).
(* the Hessian, symmetric from its stored upper triangle, is positive semidefinite *)
Definition P_psd_s (d : sdata) : Prop :=
  pos_semidef (sd_n d) (fun i j => if (i <=? j)%nat then csc_get (sd_P d) i j else csc_get (sd_P d) j i).

Lemma nlb_dense d : (sd_nlb d <= length (sd_lbidx d))%nat -> d_nlb (to_dense d) = sd_nlb d.
Proof. intros H. unfold d_nlb, to_dense. cbn [d_lb_idx]. now apply head_length. Qed.
Lemma nub_dense d : (sd_nub d <= length (sd_ubidx d))%nat -> d_nub (to_dense d) = sd_nub d.
Proof. intros H. unfold d_nub, to_dense. cbn [d_ub_idx]. now apply head_length. Qed.

Lemma wf_data_dense d : wf_sdata d -> upper_only (sd_P d) = true ->
  (sd_nlb d <= length (sd_lbidx d))%nat -> (sd_nlb d <= length (sd_lbs d))%nat ->
  (sd_nub d <= length (sd_ubidx d))%nat -> (sd_nub d <= length (sd_ubs d))%nat -> wf_data (to_dense d).
Proof.
  intros (WP & PR & PC & WA & AR & AC & WG & GR & GC) Hup L1 L2 L3 L4.
  unfold wf_data. rewrite (nlb_dense d L1), (nub_dense d L3). cbn [to_dense d_n d_p d_m d_P d_AT d_GT d_lb_scaling d_ub_scaling].
  unfold csc_to_dense. rewrite PR, PC, AR, AC, GR, GC.
  destruct (PrecondSparseProofs.wf_mat_mbuild (sd_n d) (sd_n d) (csc_get (sd_P d))) as [Q1 Q2].
  destruct (PrecondSparseProofs.wf_mat_mbuild (sd_n d) (sd_p d) (csc_get (sd_AT d))) as [Q3 Q4].
  destruct (PrecondSparseProofs.wf_mat_mbuild (sd_n d) (sd_m d) (csc_get (sd_GT d))) as [Q5 Q6].
  repeat (split; [assumption|]). intros i j Hji Hi. rewrite PrecondSparseProofs.mentry_mbuild by lia.
  apply csc_get_lower; auto. lia.
Qed.

Lemma fPsym_dense d i j : wf_sdata d -> (i < sd_n d)%nat -> (j < sd_n d)%nat ->
  fPsym (to_dense d) i j = if (i <=? j)%nat then csc_get (sd_P d) i j else csc_get (sd_P d) j i.
Proof.
  intros (_ & PR & PC & _) Hi Hj. unfold fPsym, to_dense. cbn [d_P]. unfold csc_to_dense. rewrite PR, PC.
  rewrite !PrecondSparseProofs.mentry_mbuild by lia.
  destruct (Nat.leb_spec j i), (Nat.leb_spec i j); try reflexivity; try lia. assert (i = j) by lia. now subst.
Qed.
Lemma AT_dense d i l : wf_sdata d -> (i < sd_n d)%nat -> (l < sd_p d)%nat -> mentry (d_AT (to_dense d)) i l = csc_get (sd_AT d) i l.
Proof. intros (_ & _ & _ & _ & AR & AC & _) Hi Hl. unfold to_dense. cbn [d_AT]. unfold csc_to_dense. rewrite AR, AC. now apply PrecondSparseProofs.mentry_mbuild. Qed.
Lemma GT_dense d i l : wf_sdata d -> (i < sd_n d)%nat -> (l < sd_m d)%nat -> mentry (d_GT (to_dense d)) i l = csc_get (sd_GT d) i l.
Proof. intros (_ & _ & _ & _ & _ & _ & _ & GR & GC) Hi Hl. unfold to_dense. cbn [d_GT]. unfold csc_to_dense. rewrite GR, GC. now apply PrecondSparseProofs.mentry_mbuild. Qed.

Theorem sparse_step_eq_dense (S : Settings) d c k f v r step :
  wf_sdata d -> upper_only (sd_P d) = true -> solve_ok d c -> pos_scal_s d c -> P_psd_s d ->
  rhs_ok d r -> step_ok d v -> newton8 d c v r ->
  update_kkt (to_dense d) (dense_kkt0 d c) = Ok k -> llt_compute (k_mat k) = Ok (Some f) ->
  KKTDense.kkt_solve S (to_dense d) (k <| k_fact := Some f |>) false (t_x r) (t_y r) (t_z r)
            (head (sd_nlb d) (t_zlb r)) (head (sd_nub d) (t_zub r)) (t_s r) (head (sd_nlb d) (t_slb r)) (head (sd_nub d) (t_sub r)) = Ok step ->
  step = step_of v.
Proof.
  intros Hwf Hup Hso (Prho & Pdelta & Ps & Plb & Pub) HP Hro Hv Hn Hupd Hc Hsolve.
  pose proof Hso as (S1 & S2 & S3 & S4 & S5 & S6 & S7 & S8 & S9 & S10 & I1 & I2 & _).
  pose proof Hro as (R1 & R2 & R3 & R4 & R5 & R6 & R7 & R8).
  set (dd := to_dense d) in *. set (k0 := dense_kkt0 d c) in *.
  assert (Enlb : d_nlb dd = sd_nlb d) by (apply nlb_dense; auto).
  assert (Enub : d_nub dd = sd_nub d) by (apply nub_dense; auto).
  assert (Hd : KKTProofs.wf_data dd) by (apply wf_data_dense; auto).
  assert (Hk0 : wf_scal dd k0) by (unfold wf_scal; rewrite Enlb, Enub; cbn [dd k0 to_dense dense_kkt0 d_m k_s k_z_inv k_s_lb k_z_lb_inv k_s_ub k_z_ub_inv]; repeat split; assumption).
  assert (Hpos : pos_scal dd k0) by (unfold pos_scal; rewrite Enlb, Enub; cbn [dd k0 to_dense dense_kkt0 d_m k_delta k_s k_z_inv k_s_lb k_z_lb_inv k_s_ub k_z_ub_inv]; repeat split; try assumption; try (intros; apply Ps; auto); try (intros; apply Plb; auto); try (intros; apply Pub; auto)).
  assert (HATA : (0 < d_p dd)%nat -> k_ATA k0 = compute_ATA dd) by (intros _; reflexivity).
  assert (Hrhs : wf_rhs dd (t_x r) (t_y r) (t_z r) (head (sd_nlb d) (t_zlb r)) (head (sd_nub d) (t_zub r)) (t_s r) (head (sd_nlb d) (t_slb r)) (head (sd_nub d) (t_sub r))).
  { unfold wf_rhs. rewrite Enlb, Enub, !head_length by assumption. cbn [dd to_dense d_n d_p d_m]. repeat split; assumption. }
  pose proof (kkt_solve_exact_dense S dd k0 k f _ _ _ _ _ _ _ _ step Hd Hk0 Hpos HATA Hupd Hc Hrhs Hsolve) as Hm.
  pose proof (kkt_solve_dense_wf_step S dd k0 k f _ _ _ _ _ _ _ _ step Hd Hk0 HATA Hupd Hc Hrhs Hsolve) as Hws.
  destruct (update_kkt_denotes_Kred dd k0 k Hd Hk0 HATA Hupd) as (Ek & _).
  destruct (set_k_fact_proj k (Some f)) as (F1 & F2 & F3 & F4 & F5 & F6 & F7 & F8 & F9 & F10 & F11).
  destruct (set_k_mat_proj k0 (k_mat k)) as (M1 & M2 & M3 & M4 & M5 & M6 & M7 & M8 & M9 & M10 & M11).
  rewrite <- Ek in M2, M3, M4, M5, M6, M7, M8, M9.
  set (k' := k <| k_fact := Some f |>) in *.
  assert (Hk' : wf_scal dd k').
  { destruct Hk0 as (H1 & H2 & H3 & H4 & H5 & H6). unfold wf_scal. rewrite F4, F5, F6, F7, F8, F9, M4, M5, M6, M7, M8, M9. repeat split; assumption. }
  destruct (kkt_multiply_rows dd k' step _ Hd Hk' Hws Hm) as [Rx Ry Rz Rzlb Rzub Rs Rslb Rsub].
  unfold sys_of_step, sys_of, a_ATdx, a_GTdx in *.
  cbn [y_n y_p y_m y_nlb y_nub y_Psym y_AT y_GT y_rho y_delta y_s y_zinv y_lbidx y_ubidx y_lbs y_ubs y_slb y_sub y_zli y_zui
       y_rx y_ry y_rz y_rzlb y_rzub y_rs y_rslb y_rsub st_x st_y st_z st_z_lb st_z_ub st_s st_s_lb st_s_ub] in *.
  rewrite F2, F3, F4, F5, F6, F7, F8, F9, M2, M3, M4, M5, M6, M7, M8, M9, Enlb, Enub in *.
  cbn [k0 dense_kkt0 k_rho k_delta k_s k_s_lb k_s_ub k_z_inv k_z_lb_inv k_z_ub_inv dd to_dense d_n d_p d_m d_lb_idx d_ub_idx d_lb_scaling d_ub_scaling] in *.
  subst dd.
  assert (EIl : forall kk, (kk < sd_nlb d)%nat -> fidx (head (sd_nlb d) (sd_lbidx d)) kk = fidx (sd_lbidx d) kk) by (intros; unfold fidx; now apply nth_head).
  assert (EIu : forall kk, (kk < sd_nub d)%nat -> fidx (head (sd_nub d) (sd_ubidx d)) kk = fidx (sd_ubidx d) kk) by (intros; unfold fidx; now apply nth_head).
  assert (EH : forall (w : Vec) nb kk, (kk < nb)%nat -> fv (head nb w) kk = fv w kk) by (intros; unfold fv; now apply nth_head).
  (* the dense step satisfies the sparse form of the system *)
  assert (Hdn : newton8_fun (sysr d c r) (fv (st_x step)) (fv (st_y step)) (fv (st_z step)) (fv (st_z_lb step)) (fv (st_z_ub step))
                            (fv (st_s step)) (fv (st_s_lb step)) (fv (st_s_ub step))).
  { unfold newton8_fun.
    cbn [sysr y_n y_p y_m y_nlb y_nub y_Psym y_AT y_GT y_rho y_delta y_s y_zinv y_lbidx y_ubidx y_lbs y_ubs y_slb y_sub y_zli y_zui
         y_rx y_ry y_rz y_rzlb y_rzub y_rs y_rslb y_rsub].
    split; [|split; [|split; [|split; [|split; [|split; [|split]]]]]].
    - intros i Hi. rewrite <- (Rx i Hi).
      f_equal; [f_equal; [f_equal; [f_equal|f_equal]|]|].
      + apply sum_ext. intros j Hj. now rewrite (fPsym_dense d i j Hwf Hi Hj).
      + apply sum_ext. intros l Hl. now rewrite (AT_dense d i l Hwf Hi Hl).
      + apply sum_ext. intros l Hl. now rewrite (GT_dense d i l Hwf Hi Hl).
      + apply sum_ext. intros kk Hk. now rewrite (EIl kk Hk).
      + apply sum_ext. intros kk Hk. now rewrite (EIu kk Hk).
    - intros l Hl. rewrite <- (Ry l Hl). f_equal. apply sum_ext. intros j Hj. now rewrite (AT_dense d j l Hwf Hj Hl).
    - intros l Hl. rewrite <- (Rz l Hl). f_equal. f_equal. apply sum_ext. intros j Hj. now rewrite (GT_dense d j l Hwf Hj Hl).
    - intros kk Hk. rewrite <- (EH (t_zlb r) _ kk Hk), <- (Rzlb kk Hk), (EIl kk Hk). reflexivity.
    - intros kk Hk. rewrite <- (EH (t_zub r) _ kk Hk), <- (Rzub kk Hk), (EIu kk Hk). reflexivity.
    - intros l Hl. exact (Rs l Hl).
    - intros kk Hk. rewrite <- (EH (t_slb r) _ kk Hk). exact (Rslb kk Hk).
    - intros kk Hk. rewrite <- (EH (t_sub r) _ kk Hk). exact (Rsub kk Hk). }
  destruct (newton8_fun_unique (sysr d c r) Prho Pdelta Ps Plb Pub HP _ _ _ _ _ _ _ _ _ _ _ _ _ _ _ _ I1 I2 Hdn Hn)
    as (U1 & U2 & U3 & U4 & U5 & U6 & U7 & U8).
  destruct Hws as (W1 & W2 & W3 & W4 & W5 & W6 & W7 & W8). rewrite Enlb in W4, W7. rewrite Enub in W5, W8.
  destruct Hv as (V1 & V2 & V3 & V4 & V5 & V6 & V7 & V8).
  cbn [to_dense d_n d_p d_m] in W1, W2, W3, W6.
  cbn [sysr y_n y_p y_m y_nlb y_nub] in U1, U2, U3, U4, U5, U6, U7, U8.
  destruct step as [x y z zl zu s sl su]. unfold step_of. cbn [st_x st_y st_z st_z_lb st_z_ub st_s st_s_lb st_s_ub] in *.
  f_equal; (apply vec_ext; [nlia|]).
  - rewrite W1. exact U1.
  - rewrite W2. exact U2.
  - rewrite W3. exact U3.
  - rewrite W4. exact U4.
  - rewrite W5. exact U5.
  - rewrite W6. exact U6.
  - rewrite W7. exact U7.
  - rewrite W8. exact U8.
Qed.
