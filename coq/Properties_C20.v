(* C20 -- Saved problem files load back identically.  Statements only; proofs in MatIOProofs.v.
   V is the (opaque) type of 64-bit value patterns, junk the content of never-read memory: every theorem is
   parametric in both, i.e. about bit-for-bit equality of values. *)
From Coq Require Import String.
From Coq Require Import ZArith List Bool.
From PIQP.gen Require Import MatioFields.
From PIQP Require Import MatIO MatIOProofs.
Import ListNotations.
Open Scope Z_scope.

(* T1: dense matrices (any shape, including 0 rows / 0 columns) and vectors *)
Theorem matio_dense_roundtrip :
  forall (V : Type) (junk : V) (m : DenseMat V),
    wf_dense V m = true -> decode_dense junk (encode_dense junk m) = Some m.
Proof. exact dense_roundtrip. Qed.
Print Assumptions matio_dense_roundtrip.

Theorem matio_vec_roundtrip :
  forall (V : Type) (junk : V) (v : list V),
    wf_vec V v = true -> decode_vec junk (encode_vec junk v) = Some v.
Proof. exact vec_roundtrip. Qed.
Print Assumptions matio_vec_roundtrip.

(* T2: compressed CSC with int indices below 2^31: empty columns, explicit zeros, nnz = 0, 0 rows, 0 columns,
   inner indices sorted or not *)
Theorem matio_sparse_roundtrip :
  forall (V : Type) (junk : V) (m : SpMat V),
    wf_csc V m = true -> decode_sparse junk (encode_sparse junk m) = Some m.
Proof. exact sparse_roundtrip. Qed.
Print Assumptions matio_sparse_roundtrip.

(* ... in particular every matrix satisfying Eigen's own invariant (indices inside, strictly increasing per column) *)
Theorem matio_sparse_roundtrip_eigen :
  forall (V : Type) (junk : V) (m : SpMat V),
    wf_eigen V m = true -> decode_sparse junk (encode_sparse junk m) = Some m.
Proof. exact sparse_roundtrip_eigen. Qed.
Print Assumptions matio_sparse_roundtrip_eigen.

(* un-compressed storage: the matrix comes back as the compressed image that `dst = matrix` builds *)
Theorem matio_sparse_roundtrip_uncompressed :
  forall (V : Type) (junk : V) (m : SpMat V),
    wf_spmat V junk m = true -> decode_sparse junk (encode_sparse junk m) = Some (copy_compress junk cast_i32 m).
Proof. exact sparse_roundtrip_any. Qed.
Print Assumptions matio_sparse_roundtrip_uncompressed.

(* the index conversions int -> uint32 -> Index -> int are exact below 2^31, and the bound is sharp *)
Theorem matio_index_casts_exact :
  forall z : Z, 0 <= z < index_bound -> cast_i32 (cast_u32 (cast_i32 z)) = z.
Proof. exact index_casts_exact. Qed.
Print Assumptions matio_index_casts_exact.

Theorem matio_index_casts_bound_sharp : cast_i32 index_bound = - index_bound.
Proof. exact index_casts_at_bound. Qed.
Print Assumptions matio_index_casts_bound_sharp.

(* T3: the regenerated field lists: the names written are pairwise distinct and are exactly the names read, each
   read ends (through the local variable, the constructor argument position and the member initialiser) in the member
   it was written from, with the kind (dense / vector / sparse) of that member *)
Theorem matio_dense_fields_same_roles :
  exists roles, dense_load_roles = Some roles
    /\ NoDup (map fst save_dense_stmts)
    /\ (forall name member, In (name, member) save_dense_stmts <-> In (name, member) (role_pairs roles))
    /\ (forall r, In r roles -> assoc (lr_member r) dense_members = Some (lr_kind r))
    /\ length roles = length dense_members.
Proof. exact dense_fields_same_roles. Qed.
Print Assumptions matio_dense_fields_same_roles.

Theorem matio_sparse_fields_same_roles :
  exists roles, sparse_load_roles = Some roles
    /\ NoDup (map fst save_sparse_stmts)
    /\ (forall name member, In (name, member) save_sparse_stmts <-> In (name, member) (role_pairs roles))
    /\ (forall r, In r roles -> assoc (lr_member r) sparse_members = Some (lr_kind r))
    /\ length roles = length sparse_members.
Proof. exact sparse_fields_same_roles. Qed.
Print Assumptions matio_sparse_fields_same_roles.

(* T4: save_*_model into any existing file f0, then load_*_model, returns the model *)
Theorem matio_save_load_dense :
  forall (V : Type) (junk : V) (m : Model V) (f0 : File V),
    wf_model V dense_members m = true ->
    exists f, save_dense_model V junk m f0 = Some f /\ load_dense_model V junk f = Some m.
Proof. exact save_load_dense. Qed.
Print Assumptions matio_save_load_dense.

Theorem matio_save_load_sparse :
  forall (V : Type) (junk : V) (m : Model V) (f0 : File V),
    wf_model V sparse_members m = true ->
    exists f, save_sparse_model V junk m f0 = Some f /\ load_sparse_model V junk f = Some m.
Proof. exact save_load_sparse. Qed.
Print Assumptions matio_save_load_sparse.

(* ... and with sparse members in un-compressed storage: the loaded members are their compressed images *)
Theorem matio_save_load_sparse_uncompressed :
  forall (V : Type) (junk : V) (m : Model V) (f0 : File V),
    wf_model_any V junk sparse_members m = true ->
    exists f, save_sparse_model V junk m f0 = Some f /\ load_sparse_model V junk f = Some (compress_model V junk m).
Proof. exact save_load_sparse_any. Qed.
Print Assumptions matio_save_load_sparse_uncompressed.

(* non-vacuity: the hypotheses hold for concrete non-trivial objects (definitions in MatIOProofs.v) *)
Example matio_wf_satisfiable :
  wf_dense Z ex_dense = true /\ wf_dense Z ex_dense_empty = true
  /\ wf_csc Z ex_csc = true /\ wf_csc Z ex_csc_empty = true /\ wf_eigen Z ex_csc_sorted = true
  /\ wf_spmat Z (-1) ex_uncompressed = true
  /\ wf_model Z dense_members ex_model_dense = true /\ wf_model Z sparse_members ex_model_sparse = true.
Proof. repeat split; reflexivity. Qed.

Example matio_roundtrip_instance :
  decode_sparse (-1) (encode_sparse (-1) ex_csc) = Some ex_csc
  /\ (exists f, save_sparse_model Z (-1) ex_model_sparse [] = Some f /\ load_sparse_model Z (-1) f = Some ex_model_sparse).
Proof. split; [reflexivity | eexists; split; reflexivity]. Qed.
