(* Properties_C10_backends.v -- C10 / C13: the step of every sparse KKT mode EQUALS the step of the dense model on the same data.
   to_dense d (KKTSparseDenseProofs.v) is the dense::Data with the same P_utri, AT, GT as full column-major matrices, the packed
   bound indices and the box scalings (c, b, h, x_lb_n, x_ub are not read by the KKT code: empty); dense_kkt0 d c is the dense KKT
   object holding the scalings c the sparse object stores (z inverted) and the cached A^T A; step_of turns the eight sparse blocks
   into a Step of KKTDense.v.
   Statement (every size, every valid ordering, refinement off): on a convex problem (P positive semidefinite, rho > 0) with
   positive scalings, if the dense factorisation (update_kkt + llt_compute) and the sparse one (first factorisation after the
   symbolic phase; the carried-state form follows with C13_sparse_refactor) both succeed, the dense kkt_solve returns `step`, then
   the sparse kkt_solve of mode FULL / EQ / INEQ / ALL returns Ok v with  step_of v = step  -- all eight blocks, as fractions.
   Route: sparse exactness (Properties_C13_solve.v: newton8) + dense exactness (kkt_solve_exact_dense, kkt_multiply_rows) +
   uniqueness of the solution of the full system (reduction to K_red, positive definite: the L2-level form newton8_fun_unique of
   C10_full_system_solution_unique).
   Hypotheses: solve_ok (sizes; its non-zero conditions follow from pos_scal_s), pos_scal_s, P_psd_s, rhs_ok, denotes N o K K_mode
   (the conclusion of the assembly theorems, incl. nodup_cols), ord_ok.
   NOT stated here: C10_step_backend_independent on the level of coq/IPM.v -- the IPM model calls the dense kkt_solve directly
   (it is not parametric in the back end); C13_sparse_solve_eq_dense_* is the statement for each of its KKT solves
   (refinement off); a backend-parametric copy of loop_pass is not written. *)
From PIQP Require Import Base CSC LDLSparse Data KKTDense LinAlg LLTProofs KKTProofs PDProofs UniqueProofs
  KKTSparseFull KKTSparseFullProofs KKTSparseAll KKTSparseAllProofs KKTSparseEq KKTSparseIneq KKTSparseEqProofs KKTSparseIneqProofs
  KKTSparseSolve KKTSparseSolveProofs KKTSparseSolveElimProofs KKTSparseDenseProofs.
From RecordUpdate Require Import RecordSet.
Import RecordSetNotations.
Local Open Scope nat_scope.

(* ===== any exact sparse step is the dense step (mode-independent core) ===== *)
Theorem C13_sparse_solve_eq_dense : forall (S : Settings) (d : sdata) (c : scal) (k : KKT) (f : Fact) (v r : step8) (step : Step),
  wf_sdata d -> upper_only (sd_P d) = true -> solve_ok d c -> pos_scal_s d c -> P_psd_s d ->
  rhs_ok d r -> step_ok d v -> newton8 d c v r ->
  update_kkt (to_dense d) (dense_kkt0 d c) = Ok k -> llt_compute (k_mat k) = Ok (Some f) ->
  KKTDense.kkt_solve S (to_dense d) (k <| k_fact := Some f |>) false (t_x r) (t_y r) (t_z r)
     (head (sd_nlb d) (t_zlb r)) (head (sd_nub d) (t_zub r)) (t_s r) (head (sd_nlb d) (t_slb r)) (head (sd_nub d) (t_sub r)) = Ok step ->
  step = step_of v.
Proof. exact sparse_step_eq_dense. Qed.
Print Assumptions C13_sparse_solve_eq_dense.

(* uniqueness of the solution of the full system on functions (the L2 form of C10_full_system_solution_unique) *)
Theorem C10_newton8_unique : forall (Y : L2sys),
  (0 < y_rho Y)%Qc -> (0 < y_delta Y)%Qc ->
  (forall l, l < y_m Y -> (0 < y_s Y l /\ 0 < y_zinv Y l)%Qc) ->
  (forall k, k < y_nlb Y -> (0 < y_slb Y k /\ 0 < y_zli Y k)%Qc) ->
  (forall k, k < y_nub Y -> (0 < y_sub Y k /\ 0 < y_zui Y k)%Qc) ->
  pos_semidef (y_n Y) (y_Psym Y) ->
  forall x1 y1 z1 zl1 zu1 s1 sl1 su1 x2 y2 z2 zl2 zu2 s2 sl2 su2 : nat -> Qc,
  (forall k, k < y_nlb Y -> y_lbidx Y k < y_n Y) -> (forall k, k < y_nub Y -> y_ubidx Y k < y_n Y) ->
  newton8_fun Y x1 y1 z1 zl1 zu1 s1 sl1 su1 -> newton8_fun Y x2 y2 z2 zl2 zu2 s2 sl2 su2 ->
  (forall i, i < y_n Y -> x1 i = x2 i) /\ (forall l, l < y_p Y -> y1 l = y2 l) /\ (forall l, l < y_m Y -> z1 l = z2 l) /\
  (forall k, k < y_nlb Y -> zl1 k = zl2 k) /\ (forall k, k < y_nub Y -> zu1 k = zu2 k) /\
  (forall l, l < y_m Y -> s1 l = s2 l) /\ (forall k, k < y_nlb Y -> sl1 k = sl2 k) /\ (forall k, k < y_nub Y -> su1 k = su2 k).
Proof. exact newton8_fun_unique. Qed.
Print Assumptions C10_newton8_unique.

(* the dense view of well-formed sparse data is well-formed dense data *)
Theorem C10_to_dense_wf : forall d : sdata, wf_sdata d -> upper_only (sd_P d) = true ->
  sd_nlb d <= length (sd_lbidx d) -> sd_nlb d <= length (sd_lbs d) -> sd_nub d <= length (sd_ubidx d) -> sd_nub d <= length (sd_ubs d) ->
  KKTProofs.wf_data (to_dense d) /\ d_nlb (to_dense d) = sd_nlb d /\ d_nub (to_dense d) = sd_nub d.
Proof. intros d W U L1 L2 L3 L4. split; [now apply wf_data_dense|]. split; [now apply nlb_dense|now apply nub_dense]. Qed.
Print Assumptions C10_to_dense_wf.

(* ===== KKT_FULL ===== *)
Theorem C13_sparse_solve_eq_dense_full : forall (S : Settings) (d : sdata) (c : scal) (o : ordering) (K : csc F) (st0 st : ldl_i * ldl_v)
    (r : step8) (k : KKT) (f : Fact) (step : Step),
  wf_sdata d -> upper_only (sd_P d) = true -> solve_ok d c -> pos_scal_s d c -> P_psd_s d -> rhs_ok d r ->
  ord_ok (sd_n d + sd_p d + sd_m d) o -> denotes (sd_n d + sd_p d + sd_m d) o K (Kfull (sys_sparse d c)) ->
  kkt_symbolic K = Ok st0 -> kkt_factorize K st0 = Ok (true, st) ->
  update_kkt (to_dense d) (dense_kkt0 d c) = Ok k -> llt_compute (k_mat k) = Ok (Some f) ->
  KKTDense.kkt_solve S (to_dense d) (k <| k_fact := Some f |>) false (t_x r) (t_y r) (t_z r)
     (head (sd_nlb d) (t_zlb r)) (head (sd_nub d) (t_zub r)) (t_s r) (head (sd_nlb d) (t_slb r)) (head (sd_nub d) (t_sub r)) = Ok step ->
  exists v, kkt_solve MFull d c o st r = Ok v /\ step_of v = step.
Proof.
  intros S d c o K st0 st r k f step Hwf Hup Hso Hps HP Hro Ho Hden E0 E1 Hupd Hc Hsolve.
  assert (Hf : ldl_factor K = Ok (mode_N MFull d, st)).
  { destruct Hden as (_ & Hr & Hcc & _). cbn [mode_N]. rewrite <- Hr. apply (factor_first K st0 st E0 E1). lia. }
  destruct (full_solve_exact d c o K st r Hso Hro Ho Hden Hf) as (v & Ev & Hv & Hn).
  exists v. split; [exact Ev|]. symmetry.
  apply (sparse_step_eq_dense S d c k f v r step Hwf Hup Hso Hps HP Hro Hv Hn Hupd Hc Hsolve).
Qed.
Print Assumptions C13_sparse_solve_eq_dense_full.

(* ===== KKT_EQ_ELIMINATED ===== *)
Theorem C13_sparse_solve_eq_dense_eq : forall (S : Settings) (d : sdata) (c : scal) (o : ordering) (K : csc F) (st0 st : ldl_i * ldl_v)
    (r : step8) (k : KKT) (f : Fact) (step : Step),
  wf_sdata d -> upper_only (sd_P d) = true -> solve_ok d c -> pos_scal_s d c -> P_psd_s d -> rhs_ok d r ->
  ord_ok (sd_n d + sd_m d) o -> denotes (sd_n d + sd_m d) o K (Keq (sys_sparse d c)) ->
  kkt_symbolic K = Ok st0 -> kkt_factorize K st0 = Ok (true, st) ->
  update_kkt (to_dense d) (dense_kkt0 d c) = Ok k -> llt_compute (k_mat k) = Ok (Some f) ->
  KKTDense.kkt_solve S (to_dense d) (k <| k_fact := Some f |>) false (t_x r) (t_y r) (t_z r)
     (head (sd_nlb d) (t_zlb r)) (head (sd_nub d) (t_zub r)) (t_s r) (head (sd_nlb d) (t_slb r)) (head (sd_nub d) (t_sub r)) = Ok step ->
  exists v, kkt_solve MEq d c o st r = Ok v /\ step_of v = step.
Proof.
  intros S d c o K st0 st r k f step Hwf Hup Hso Hps HP Hro Ho Hden E0 E1 Hupd Hc Hsolve.
  assert (Hf : ldl_factor K = Ok (mode_N MEq d, st)).
  { destruct Hden as (_ & Hr & Hcc & _). cbn [mode_N]. rewrite <- Hr. apply (factor_first K st0 st E0 E1). lia. }
  destruct (eq_solve_exact d c o K st r Hwf Hso (Qclt_neq0 _ (proj1 (proj2 Hps))) Hro Ho Hden Hf) as (v & Ev & Hv & Hn).
  exists v. split; [exact Ev|]. symmetry.
  apply (sparse_step_eq_dense S d c k f v r step Hwf Hup Hso Hps HP Hro Hv Hn Hupd Hc Hsolve).
Qed.
Print Assumptions C13_sparse_solve_eq_dense_eq.

(* ===== KKT_INEQ_ELIMINATED ===== *)
Theorem C13_sparse_solve_eq_dense_ineq : forall (S : Settings) (d : sdata) (c : scal) (o : ordering) (K : csc F) (st0 st : ldl_i * ldl_v)
    (r : step8) (k : KKT) (f : Fact) (step : Step),
  wf_sdata d -> upper_only (sd_P d) = true -> solve_ok d c -> pos_scal_s d c -> P_psd_s d -> rhs_ok d r ->
  ord_ok (sd_n d + sd_p d) o -> denotes (sd_n d + sd_p d) o K (Kineq (sys_sparse d c)) ->
  kkt_symbolic K = Ok st0 -> kkt_factorize K st0 = Ok (true, st) ->
  update_kkt (to_dense d) (dense_kkt0 d c) = Ok k -> llt_compute (k_mat k) = Ok (Some f) ->
  KKTDense.kkt_solve S (to_dense d) (k <| k_fact := Some f |>) false (t_x r) (t_y r) (t_z r)
     (head (sd_nlb d) (t_zlb r)) (head (sd_nub d) (t_zub r)) (t_s r) (head (sd_nlb d) (t_slb r)) (head (sd_nub d) (t_sub r)) = Ok step ->
  exists v, kkt_solve MIneq d c o st r = Ok v /\ step_of v = step.
Proof.
  intros S d c o K st0 st r k f step Hwf Hup Hso Hps HP Hro Ho Hden E0 E1 Hupd Hc Hsolve.
  assert (Hf : ldl_factor K = Ok (mode_N MIneq d, st)).
  { destruct Hden as (_ & Hr & Hcc & _). cbn [mode_N]. rewrite <- Hr. apply (factor_first K st0 st E0 E1). lia. }
  destruct (ineq_solve_exact d c o K st r Hwf Hso Hro Ho Hden Hf) as (v & Ev & Hv & Hn).
  exists v. split; [exact Ev|]. symmetry.
  apply (sparse_step_eq_dense S d c k f v r step Hwf Hup Hso Hps HP Hro Hv Hn Hupd Hc Hsolve).
Qed.
Print Assumptions C13_sparse_solve_eq_dense_ineq.

(* ===== KKT_ALL_ELIMINATED ===== *)
Theorem C13_sparse_solve_eq_dense_all : forall (S : Settings) (d : sdata) (c : scal) (o : ordering) (K : csc F) (st0 st : ldl_i * ldl_v)
    (r : step8) (k : KKT) (f : Fact) (step : Step),
  wf_sdata d -> upper_only (sd_P d) = true -> solve_ok d c -> pos_scal_s d c -> P_psd_s d -> rhs_ok d r ->
  ord_ok (sd_n d) o -> denotes (sd_n d) o K (a_Kred (sys_sparse d c)) ->
  kkt_symbolic K = Ok st0 -> kkt_factorize K st0 = Ok (true, st) ->
  update_kkt (to_dense d) (dense_kkt0 d c) = Ok k -> llt_compute (k_mat k) = Ok (Some f) ->
  KKTDense.kkt_solve S (to_dense d) (k <| k_fact := Some f |>) false (t_x r) (t_y r) (t_z r)
     (head (sd_nlb d) (t_zlb r)) (head (sd_nub d) (t_zub r)) (t_s r) (head (sd_nlb d) (t_slb r)) (head (sd_nub d) (t_sub r)) = Ok step ->
  exists v, kkt_solve MAll d c o st r = Ok v /\ step_of v = step.
Proof.
  intros S d c o K st0 st r k f step Hwf Hup Hso Hps HP Hro Ho Hden E0 E1 Hupd Hc Hsolve.
  assert (Hf : ldl_factor K = Ok (mode_N MAll d, st)).
  { destruct Hden as (_ & Hr & Hcc & _). cbn [mode_N]. rewrite <- Hr. apply (factor_first K st0 st E0 E1). lia. }
  destruct (all_solve_exact d c o K st r Hwf Hso (Qclt_neq0 _ (proj1 (proj2 Hps))) Hro Ho Hden Hf) as (v & Ev & Hv & Hn).
  exists v. split; [exact Ev|]. symmetry.
  apply (sparse_step_eq_dense S d c k f v r step Hwf Hup Hso Hps HP Hro Hv Hn Hupd Hc Hsolve).
Qed.
Print Assumptions C13_sparse_solve_eq_dense_all.

(* ===== non-vacuity: n = 3, p = 1, m = 2, one lower and two upper bounds (the instance of Properties_C13_solve.v) ===== *)
Local Open Scope Qc_scope.
Definition exb_q (a : Z) : F := qofZ a.
Definition exb_d : sdata :=
  mksdata 3 1 2
    (mkcsc 3 3 [0; 1; 3; 5]%nat [0; 0; 1; 1; 2]%nat [exb_q 4; exb_q 1; exb_q 3; exb_q (-1); exb_q 5])
    (mkcsc 3 1 [0; 2]%nat [0; 2]%nat [exb_q 1; exb_q 2])
    (mkcsc 3 2 [0; 1; 3]%nat [1; 0; 2]%nat [exb_q 5; exb_q 1; exb_q 1])
    1 2 [1; 0; 0]%nat [0; 2; 0]%nat [exb_q 2; exb_q 1; exb_q 1] [qmk 1 2; exb_q 3; exb_q 1].
Definition exb_c : scal := mkscal (exb_q 10) (exb_q 7) [exb_q 3; exb_q 2] [exb_q 2; exb_q 0; exb_q 0] [exb_q 5; exb_q 7; exb_q 0]
                                  [qmk 1 4; qmk 1 5] [qmk 1 3; exb_q 0; exb_q 0] [qmk 1 2; qmk 1 6; exb_q 0].
Definition exb_r : step8 := mkstep8 [exb_q 1; exb_q (-2); exb_q 3] [exb_q 4] [exb_q (-1); exb_q 2] [exb_q 5] [exb_q (-3); exb_q 1]
                                    [exb_q 2; exb_q (-4)] [exb_q 6] [exb_q 1; exb_q (-7)].

Example exb_hyps : wf_sdata exb_d /\ upper_only (sd_P exb_d) = true /\ solve_ok exb_d exb_c /\ pos_scal_s exb_d exb_c /\ rhs_ok exb_d exb_r.
Proof.
  split; [repeat split|]. split; [reflexivity|]. split; [|split].
  - unfold solve_ok. cbn [exb_d exb_c sd_n sd_m sd_nlb sd_nub sd_lbidx sd_ubidx sd_lbs sd_ubs sc_s sc_z_inv sc_s_lb sc_z_lb_inv sc_s_ub sc_z_ub_inv sc_delta length].
    repeat match goal with |- _ /\ _ => split end; try lia; try reflexivity;
      intros [|[|k]] Hk; try lia; cbn; repeat split; try lia; try (intro E; discriminate E).
  - unfold pos_scal_s. cbn [exb_d exb_c sd_m sd_nlb sd_nub sc_rho sc_delta sc_s sc_z_inv sc_s_lb sc_z_lb_inv sc_s_ub sc_z_ub_inv].
    repeat match goal with |- _ /\ _ => split end; try reflexivity; intros [|[|k]] Hk; try lia; cbn; split; reflexivity.
  - unfold rhs_ok. cbn. repeat split; lia.
Qed.
(* P = [[4, 1, 0], [1, 3, -1], [0, -1, 5]] is positive definite: certificate = its exact LDL^T *)
Example exb_psd : P_psd_s exb_d.
Proof.
  unfold P_psd_s. apply pos_def_semidef.
  apply (pos_def_ext 3 (Asym [[exb_q 4]; [exb_q 1; exb_q 3]; [exb_q 0; exb_q (-1); exb_q 5]])).
  - intros i j Hi Hj. destruct i as [|[|[|i]]]; destruct j as [|[|[|j]]]; try lia; vm_compute; reflexivity.
  - destruct (llt_compute [[exb_q 4]; [exb_q 1; exb_q 3]; [exb_q 0; exb_q (-1); exb_q 5]]) as [[f|]|] eqn:E; try (vm_compute in E; discriminate).
    apply (llt_success_implies_pd [[exb_q 4]; [exb_q 1; exb_q 3]; [exb_q 0; exb_q (-1); exb_q 5]] f); [|exact E].
    intros i Hi. destruct i as [|[|[|i]]]; [reflexivity | reflexivity | reflexivity | cbn in Hi; lia].
Qed.

(* both sides run on the instance: the dense step, and for each of the four sparse modes init, update_scalings, symbolic phase, first
   factorisation, solve; every sparse step equals the dense step (step_eqb: all eight blocks, entry by entry) *)
Definition exb_sparse (md : kmode) (K : csc F) (sc : scal) (pinv : list nat) : option Step :=
  match kkt_symbolic K with
  | Ok st0 => match kkt_factorize K st0 with
              | Ok (true, st) => match kkt_solve md exb_d sc (mkord (seq 0 (mode_N md exb_d)) pinv) st exb_r with
                                 | Ok v => Some (step_of v) | Err _ => None end
              | _ => None end
  | Err _ => None
  end.
Definition exb_same (a : option Step) (b : Step) : bool := match a with Some s => step_eqb s b | None => false end.
Example exb_run : forall S : Settings,
  match update_kkt (to_dense exb_d) (dense_kkt0 exb_d exb_c) with
  | Ok k => match llt_compute (k_mat k) with
    | Ok (Some f) =>
      match KKTDense.kkt_solve S (to_dense exb_d) (k <| k_fact := Some f |>) false (t_x exb_r) (t_y exb_r) (t_z exb_r)
              (t_zlb exb_r) (t_zub exb_r) (t_s exb_r) (t_slb exb_r) (t_sub exb_r) with
      | Ok step =>
        let sc := ([exb_q 3; exb_q 2], [exb_q 2], [exb_q 5; exb_q 7], [exb_q 4; exb_q 5], [exb_q 3], [exb_q 2; exb_q 6]) in
        let '(s, slb, sub, z, zlb, zub) := sc in
        (match init exb_d (exb_q 1) (exb_q 1) None with
         | Ok k0 => match update_scalings exb_d k0 (exb_q 10) (exb_q 7) s slb sub z zlb zub with
                    | Ok kk => exb_same (exb_sparse MFull (sv_K (full_view exb_d kk)) (scal_of kk) (fk_pinv kk)) step | Err _ => false end
         | Err _ => false end) &&
        (match eq_init exb_d (exb_q 1) (exb_q 1) None with
         | Ok k0 => match eq_update_scalings exb_d k0 (exb_q 10) (exb_q 7) s slb sub z zlb zub with
                    | Ok kk => exb_same (exb_sparse MEq (sv_K (eq_view exb_d kk)) (ek_sc kk) (ek_pinv kk)) step | Err _ => false end
         | Err _ => false end) &&
        (match ineq_init exb_d (exb_q 1) (exb_q 1) None with
         | Ok k0 => match ineq_update_scalings exb_d k0 (exb_q 10) (exb_q 7) s slb sub z zlb zub with
                    | Ok kk => exb_same (exb_sparse MIneq (sv_K (ineq_view exb_d kk)) (ek_sc kk) (ek_pinv kk)) step | Err _ => false end
         | Err _ => false end) &&
        (match all_init exb_d (exb_q 1) (exb_q 1) None with
         | Ok k0 => match all_update_scalings exb_d k0 (exb_q 10) (exb_q 7) s slb sub z zlb zub with
                    | Ok kk => exb_same (exb_sparse MAll (sv_K (all_view exb_d kk)) (ak_sc kk) (ak_pinv kk)) step | Err _ => false end
         | Err _ => false end)
      | Err _ => false end
    | _ => false end
  | Err _ => false
  end = true.
Proof. intros S. vm_compute. reflexivity. Qed.
