(* KKTSparseRefactorFailProofs.v -- the state a FAILED numeric factorisation (sparse/ldlt.hpp: "if (D[k] == 0.0) return k") leaves in
   the LDL object is still reusable (KKTSparseRefactorProofs.v): the zero-pivot test comes AFTER the elimination loop of step k, which
   has cleared every y entry it touched; etree / L_cols are never written; all work arrays keep their sizes.  The first half of
   LDLValuesGenProofs.num_step_val is replayed with the conclusion that does not need the pivot to be non-zero. *)
From PIQP Require Import Base CSC LDLSparse C14LemmasProofs PatternsProofs CSCProofs LDLSolveProofs LDLSparseProofs
  LDLSparseValuesProofs LDLSparseFinalProofs PermuteGenProofs LDLSymbolicGenProofs LDLFillGenProofs LDLNumericGenProofs
  LDLGenFinalProofs LDLValuesGenProofs LDLValuesFinalProofs LinAlg KKTSparseSolve KKTSparseSolveProofs KKTSparseRefactorProofs.
Require Import ZifyBool.
From Coq Require Import Lia.
Local Open Scope nat_scope.

Section Weak.
Variable n : nat.
Variables Ap Ai : list nat.
Variable Ax : list F.
Hypothesis HApl : length Ap = S n.
Hypothesis HApm : forall j, j < n -> nth j Ap 0 <= nth (S j) Ap 0.
Hypothesis HApN : forall j, j < n -> nth (S j) Ap 0 <= length Ai.
Hypothesis HAup : forall j p, j < n -> nth j Ap 0 <= p < nth (S j) Ap 0 -> nth p Ai 0 <= j.
Hypothesis HAx : length Ax = length Ai.
Hypothesis HAnd : forall j p1 p2, j < n -> nth j Ap 0 <= p1 < nth (S j) Ap 0 -> nth j Ap 0 <= p2 < nth (S j) Ap 0 ->
  nth p1 Ai 0 = nth p2 Ai 0 -> p1 = p2.
Variable lp : nat -> nat -> bool.
Hypothesis lp_eq : forall k i, i < k -> k < n ->
  lp k i = has_entry Ap Ai i k || existsb (fun c => lp i c && lp k c) (seq 0 i).
Notation colK := (colK lp).
Notation cntL := (cntL lp).
Variable etree : list (option nat).
Variable Lcols : list nat.
Hypothesis Hetl : length etree = n.
Hypothesis Het : forall i, i < n -> nth i etree None = parK lp n i.
Hypothesis HLcl : length Lcols = S n.
Hypothesis HLcS : forall i, i < n -> nth (S i) Lcols 0 = nth i Lcols 0 + cntL n i.
Notation tot := (nth n Lcols 0).

(* sizes of the work arrays and a cleared y: all the next numeric phase needs besides etree / L_cols *)
Definition W (st : ldl_i * ldl_v) : Prop :=
  length (i_Lnnz (fst st)) = n /\ length (i_flag (fst st)) = n /\ length (i_pattern (fst st)) = n /\ length (i_Lind (fst st)) = tot /\
  length (v_y (snd st)) = n /\ length (v_D (snd st)) = n /\ length (v_Lvals (snd st)) = tot /\
  (forall r, r < n -> nth r (v_y (snd st)) 0%Qc = 0%Qc).

Lemma num_step_weak K li lv : K < n -> VInv n Ap Ai Ax lp Lcols K (li, lv) ->
  exists li' lv', num_step n Ap Ai Ax etree Lcols K (li, lv) = Ok (li', lv', qeqb (Dv lv' K) 0%Qc) /\ W (li', lv').
Proof.
  intros HK (HN & Ly & LD & LV & Hyz & Hnz & HE1 & HE2).
  destruct (num_pattern_ok n Ap Ai HApl HApm HApN HAup lp lp_eq etree Lcols Hetl Het HLcl HLcS K li HK HN)
    as (top & fl & pat & Ep & HS & Lfl & Hfl').
  pose proof HN as (Lz & Lf & Lp & Li & Hfl & Hnzi & Hind).
  (* expose the entries loop of the index run *)
  unfold num_pattern_i in Ep.
  rewrite upd_lset in Ep by lia. cbn [bind] in Ep. rewrite upd_lset in Ep by lia. cbn [bind] in Ep.
  rewrite (get_nth Ap K 0) in Ep by lia. cbn [bind] in Ep. rewrite (get_nth Ap (S K) 0) in Ep by lia. cbn [bind] in Ep.
  destruct (for_range (nth K Ap 0) (nth (S K) Ap 0) _ (n, lset (i_flag li) K (Some K), i_pattern li)) as [[[a b] c]|] eqn:EF;
    cbn [bind] in Ep; [|discriminate]. inversion Ep; subst a b c. clear Ep.
  unfold for_range in EF.
  set (y1 := lset (v_y lv) K 0%Qc).
  destruct (entries_exact n Ap Ai Ax HApl HApm HApN HAup HAx HAnd lp lp_eq etree Lcols Hetl Het HLcl HLcS K _ _ _ _ _ _ _ y1 EF) as (EV & Hrows).
  { rewrite lset_length. auto. } { unfold y1. rewrite lset_length. auto. }
  pose proof (HApm K HK) as Hle. pose proof (HApN K HK) as HhiN.
  set (ys := scat Ai Ax (seq (nth K Ap 0) (nth (S K) Ap 0 - nth K Ap 0)) y1) in *.
  assert (Lys : length ys = n) by (unfold ys; rewrite scat_length; unfold y1; rewrite lset_length; auto).
  assert (Hys : forall r, nth r ys 0%Qc = aent Ap Ai Ax r K).
  { intros r. unfold ys. rewrite scat_spec; [reflexivity| | |].
    - intros p Hp. unfold y1. rewrite lset_length, Ly. apply Hrows. apply in_seq. lia.
    - intros p1 p2 H1 H2. apply (HAnd K); auto; lia.
    - intros r'. unfold y1. destruct (Nat.lt_ge_cases r' n).
      + rewrite nth_lset by lia. destruct (r' =? K); auto.
      + apply nth_overflow. rewrite lset_length. lia. }
  unfold num_step.
  rewrite upd_lset by lia. cbn [bind]. rewrite upd_lset by lia. cbn [bind]. rewrite upd_lset by lia. cbn [bind].
  rewrite (get_nth Ap K 0) by lia. cbn [bind]. rewrite (get_nth Ap (S K) 0) by lia. cbn [bind].
  unfold for_range at 1. fold y1. change Qc with F in *. rewrite EV. cbn [bind].
  rewrite (get_nth (A:=F) ys K 0%Qc) by lia. cbn [bind]. rewrite Hys.
  rewrite upd_lset by lia. cbn [bind]. rewrite upd_lset by lia. cbn [bind].
  set (li0 := mkldli (i_etree li) (i_Lcols li) (lset (i_Lnnz li) K 0) (i_Lind li) fl pat).
  set (lv0 := mkldlv (v_Lvals lv) (lset (v_D lv) K (aent Ap Ai Ax K K)) (v_Dinv lv) (lset ys K 0%Qc)).
  assert (Lz0 : length (i_Lnnz li0) = n) by (simpl; now rewrite lset_length).
  assert (Hnz0 : forall i, i < K -> nth i (i_Lnnz li0) 0 = cntL K i).
  { intros i Hi. simpl. rewrite nth_lset_other by lia. auto. }
  assert (Ly0 : length (v_y lv0) = n) by (simpl; now rewrite lset_length).
  assert (LD0 : length (v_D lv0) = n) by (simpl; now rewrite lset_length).
  assert (Hy0 : forall r, r < n -> nth r (v_y lv0) 0%Qc = if r =? K then 0%Qc else aent Ap Ai Ax r K).
  { intros r Hr. simpl. rewrite nth_lset by lia. destruct (r =? K); auto. }
  assert (HDK0 : nth K (v_D lv0) 0%Qc = aent Ap Ai Ax K K) by (simpl; apply nth_lset_same; lia).
  assert (HDnz0 : forall i, i < K -> nth i (v_D lv0) 0%Qc <> 0%Qc).
  { intros i Hi. simpl. rewrite nth_lset_other by lia. apply Hnz; auto. }
  destruct (velim_loop n Ap Ai Ax HApl HApm HApN HAup HAx HAnd lp lp_eq etree Lcols Hetl Het HLcl HLcS K top li0 lv0 HK HS Lz0 Li Lfl Hnz0 Hind Ly0 LD0 LV Hy0 HDK0 HDnz0) as (li1 & lv1 & EL & HV).
  rewrite EL. cbn [bind].
  pose proof (velim_final n Ap Ai Ax HApl HApm HApN HAup HAx HAnd lp lp_eq etree Lcols Hetl Het HLcl HLcS K top li0 lv0 HK HS Lz0 Li Lfl Hnz0 Hind Ly0 LD0 LV Hy0 HDK0 HDnz0 li1 lv1 HV) as (F5 & F3 & F6 & F7).
  destruct HV as (HE & Ly1 & LD1 & LV1 & Hold & HD & _).
  rewrite (get_nth (A:=F) (v_D lv1) K 0%Qc) by lia. cbn [bind].
  exists li1, lv1. split; [reflexivity|].
  destruct HE as (P1 & P2 & P3 & P4 & P5 & P6 & _). destruct HS as (_ & Lpat & _).
  unfold W. cbn [fst snd]. rewrite P3, P4. simpl. repeat (split; auto).
Qed.

Lemma num_loop_fail len : forall k0 li lv, k0 + len = n -> VInv n Ap Ai Ax lp Lcols k0 (li, lv) ->
  forall r st', num_loop n Ap Ai Ax etree Lcols (seq k0 len) (li, lv) = Ok (r, st') -> r < n -> W st'.
Proof.
  induction len; intros k0 li lv Hlen HV r st' H Hr; cbn [seq num_loop] in H.
  - inversion H. lia.
  - destruct (num_step_weak k0 li lv ltac:(lia) HV) as (li' & lv' & Es & HW).
    destruct (num_step_val n Ap Ai Ax HApl HApm HApN HAup HAx HAnd lp lp_eq etree Lcols Hetl Het HLcl HLcS k0 li lv ltac:(lia) HV) as (li2 & lv2 & Es2 & Hnext).
    rewrite Es in Es2. inversion Es2; subst li2 lv2. clear Es2.
    rewrite Es in H. cbn [bind] in H.
    destruct (qeqb (Dv lv' k0) 0%Qc) eqn:Ez.
    + inversion H; subst. exact HW.
    + assert (Hnz : Dv lv' k0 <> 0%Qc). { intros E. rewrite E in Ez. discriminate. }
      apply (IHlen (S k0) li' lv' ltac:(lia) (Hnext Hnz) r st' H Hr).
Qed.
End Weak.

Theorem refactor_fail_reusable (A : csc F) (st0 st : ldl_i * ldl_v) (r : nat) :
  wf_csc A = true -> ncols A = nrows A -> upper_only A = true -> nodup_cols A ->
  reusable A st0 -> numeric A st0 = Ok (r, st) -> r < nrows A -> reusable A st.
Proof.
  intros Hwf Hsq Hup Hnd Hre Hf Hr. set (n := nrows A) in *.
  destruct Hre as (lis & Es & Eet & ELc & Lz0 & Lf0 & Lp0 & Li0 & Ly0 & LD0 & LV0 & Hy0).
  assert (P1 : length (colptr A) = S n) by (rewrite (wf_cp_len A Hwf); now rewrite Hsq).
  assert (P2 : forall j, j < n -> nth j (colptr A) 0 <= nth (S j) (colptr A) 0).
  { intros j Hj. apply (wf_col_range A Hwf j). now rewrite Hsq. }
  assert (P3 : forall j, j < n -> nth (S j) (colptr A) 0 <= length (rowind A)).
  { intros j Hj. apply (wf_col_range A Hwf j). now rewrite Hsq. }
  assert (P4 : forall j p, j < n -> nth j (colptr A) 0 <= p < nth (S j) (colptr A) 0 -> nth p (rowind A) 0 <= j).
  { intros j p Hj Hp. apply upper_only_le; auto. now rewrite Hsq. }
  set (lpA := lpf (has_entry (colptr A) (rowind A)) n) in *.
  assert (Plp : forall k i, i < k -> k < n ->
            lpA k i = has_entry (colptr A) (rowind A) i k || existsb (fun c => lpA i c && lpA k c) (seq 0 i)).
  { intros. now apply lpf_eq. }
  destruct (symbolic_i_spec n (colptr A) (rowind A) P1 P2 P3 P4 lpA Plp)
    as (lis' & Es' & S1 & S2 & S3 & S4 & S5 & S6 & S7 & S8 & S9 & S10 & S11).
  fold n in Es. rewrite Es in Es'. inversion Es'; subst lis'. clear Es'.
  assert (HAnd : forall j p1 p2, j < n -> nth j (colptr A) 0 <= p1 < nth (S j) (colptr A) 0 ->
            nth j (colptr A) 0 <= p2 < nth (S j) (colptr A) 0 -> nth p1 (rowind A) 0 = nth p2 (rowind A) 0 -> p1 = p2).
  { intros j p1 p2 Hj. apply Hnd. rewrite Hsq. exact Hj. }
  pose proof (wf_vals_len A Hwf) as HAx.
  assert (Ltot : length (i_Lind lis) = nth n (i_Lcols lis) 0) by (rewrite S9; apply repeat_length).
  destruct st0 as [li0 lv0]. cbn [fst snd] in *.
  assert (HV0 : VInv n (colptr A) (rowind A) (vals A) lpA (i_Lcols lis) 0 (li0, lv0)).
  { unfold VInv. split.
    { unfold NumInv. repeat (split; auto); try lia; intros; lia. }
    split; auto. split; auto. split; [lia|]. split; [exact Hy0|]. repeat split; intros; lia. }
  unfold numeric in Hf. cbn [fst] in Hf. fold n in Hf. rewrite Eet, ELc in Hf.
  change Qc with F in *.
  destruct (num_loop n (colptr A) (rowind A) (vals A) (i_etree lis) (i_Lcols lis) (seq 0 n) (li0, lv0)) as [[r' [li2 lv2]]|] eqn:EL;
    cbn [bind] in Hf; [|discriminate].
  destruct (num_loop_fields _ _ _ _ _ _ _ _ _ _ EL) as [Fet FLc]. cbn [fst] in Fet, FLc.
  destruct (Nat.eqb_spec r' n) as [->|Hne].
  - destruct (mapM qinv (v_D lv2)); cbn [bind] in Hf; [|discriminate]. inversion Hf. lia.
  - inversion Hf; subst r st. clear Hf.
    pose proof (num_loop_fail n (colptr A) (rowind A) (vals A) P1 P2 P3 P4 HAx HAnd lpA Plp (i_etree lis) (i_Lcols lis) S1 S5 S4 S8
                  n 0 li0 lv0 eq_refl HV0 r' (li2, lv2) EL Hr) as (W1 & W2 & W3 & W4 & W5 & W6 & W7 & W8).
    cbn [fst snd] in *.
    exists lis. cbn [fst snd]. fold n. split; [exact Es|].
    split; [congruence|]. split; [congruence|]. split; [exact W1|]. split; [exact W2|]. split; [exact W3|].
    split; [lia|]. split; [exact W5|]. split; [exact W6|]. split; [lia|]. exact W8.
Qed.

Lemma num_loop_range n Ap Ai Ax etree Lcols ks : forall st r st', num_loop n Ap Ai Ax etree Lcols ks st = Ok (r, st') -> In r ks \/ r = n.
Proof.
  induction ks; intros st r st' H; cbn [num_loop] in H.
  - inversion H; subst. auto.
  - binv H. match type of H with context [let '(_, _) := ?x in _] => destruct x as [[li1 lv1] z] end.
    destruct z.
    + inversion H; subst. left. now left.
    + destruct (IHks _ _ _ H) as [Hin| ->]; [left; now right|auto].
Qed.

Theorem factorize_fail_reusable (K : csc F) (st0 st : ldl_i * ldl_v) :
  wf_csc K = true -> ncols K = nrows K -> upper_only K = true -> nodup_cols K ->
  reusable K st0 -> kkt_factorize K st0 = Ok (false, st) -> reusable K st.
Proof.
  intros W Hsq U Hnd Hre E. unfold kkt_factorize in E.
  destruct (numeric K st0) as [[r st']|] eqn:En; cbn [bind] in E; [|discriminate].
  inversion E as [[Hr Hst]]. subst st'. apply Nat.eqb_neq in Hr.
  apply (refactor_fail_reusable K st0 st r W Hsq U Hnd Hre En).
  assert (Hrange : r < nrows K \/ r = nrows K).
  { unfold numeric in En.
    destruct (num_loop (nrows K) (colptr K) (rowind K) (vals K) (i_etree (fst st0)) (i_Lcols (fst st0)) (seq 0 (nrows K)) st0) as [[r0 [li2 lv2]]|] eqn:EL;
      cbn [bind] in En; [|discriminate].
    destruct (num_loop_range _ _ _ _ _ _ _ _ _ _ EL) as [Hin|Heq].
    - apply in_seq in Hin. destruct (r0 =? nrows K); [destruct (mapM qinv (v_D lv2)); cbn [bind] in En; [|discriminate]|]; inversion En; subst; lia.
    - subst r0. rewrite Nat.eqb_refl in En. destruct (mapM qinv (v_D lv2)); cbn [bind] in En; [|discriminate]. inversion En; subst; auto. }
  destruct Hrange; [assumption|]. exfalso. apply Hr. lia.
Qed.
