(* ResidLoopProofs.v -- structural analysis of IPM.loop_pass / IPM.main_loop:
   every exit and its status (C09-T1), the SOLVED exit fires only on residuals that are consistent with the
   iterate it returns (invariant of main_loop), hence SOLVED implies the certificate on the user's problem (C01-T4). *)
From PIQP Require Import Base Data Bounds PrecondDense KKTDense IPM API ResidLemmas ResidSpec ResidProofs.
From RecordUpdate Require Import RecordSet.
Import RecordSetNotations.
Local Open Scope Qc_scope.

(* one head step of a monadic computation in hypothesis H, keeping [let]s folded as local definitions *)
Ltac step H :=
  match type of H with
  | (let x := ?v in @?b x) = ?r =>
      let x' := fresh x in pose (x' := v); change (b x' = r) in H; cbv beta in H
  | bind ?e ?f = ?r =>
      let E := fresh "E" in let a := fresh "a" in
      destruct e as [a|?] eqn:E; [ change (f a = r) in H; cbv beta in H | discriminate H ]
  | (let '(a, b) := ?e in _) = _ => destruct e as [? ?]; cbv iota in H
  | (if ?c then _ else _) = _ =>
      let E := fresh "C" in destruct c eqn:E
  end.

Lemma same6_refl a : same6 a a.
Proof. unfold same6; repeat split; reflexivity. Qed.
Lemma same6_trans a b c : same6 a b -> same6 b c -> same6 a c.
Proof. unfold same6. intros (?&?&?&?&?&?) (?&?&?&?&?&?). repeat split; congruence. Qed.
Lemma same6_sym a b : same6 a b -> same6 b a.
Proof. unfold same6. intros (?&?&?&?&?&?). repeat split; congruence. Qed.
Lemma same8_refl a : same8 a a.
Proof. unfold same8; repeat split; reflexivity. Qed.

Lemma solved_test_ext S a b :
  same6 a b -> i_primal_inf a = i_primal_inf b -> i_dual_inf a = i_dual_inf b -> solved_test S a = solved_test S b.
Proof. unfold same6, solved_test. intros (E1&E2&E3&E4&E5&E6) E7 E8. rewrite E1, E2, E5, E6, E7, E8. reflexivity. Qed.

Lemma solved_test_top S pc res a b : same6 a b -> solved_test S (top_info pc res a) = solved_test S (top_info pc res b).
Proof.
  intros H. destruct (top_info_fields pc res a) as (A1 & A2 & A3). destruct (top_info_fields pc res b) as (B1 & B2 & B3).
  apply solved_test_ext; try congruence.
  eapply same6_trans; [apply same6_sym, A3|]. eapply same6_trans; [apply H | apply B3].
Qed.

Ltac s6 := unfold same6; repeat match goal with |- context [if ?c then _ else _] => destruct c end; repeat split; reflexivity.

Section Loop.
Variable K : Consts.
Variable S : Settings.
Variable d : Data.
Variable pc : Precond.
Variable fault : nat -> bool.
Variable cp : F -> F.

Lemma do_update_scalings_inv st st' :
  do_update_scalings d st = Ok st' -> st_it st' = st_it st /\ st_inf st' = st_inf st /\ st_res st' = st_res st.
Proof.
  unfold do_update_scalings. intros H. step H. injection H as <-. destruct st. repeat split; reflexivity.
Qed.
Lemma do_factorize_inv st st' ok :
  do_factorize S d fault st = Ok (st', ok) -> st_it st' = st_it st /\ st_inf st' = st_inf st /\ st_res st' = st_res st.
Proof.
  unfold do_factorize. intros H. step H. step H. injection H as <- <-. destruct st. repeat split; reflexivity.
Qed.
Lemma pre_fact X a0 s0 b :
  do_update_scalings d X = Ok a0 -> do_factorize S d fault a0 = Ok (s0, b) ->
  st_it s0 = st_it X /\ st_inf s0 = st_inf X /\ st_res s0 = st_res X.
Proof.
  intros H1 H2. apply do_update_scalings_inv in H1. apply do_factorize_inv in H2.
  destruct H1 as (?&?&?), H2 as (?&?&?). repeat split; congruence.
Qed.

(* update_nr_residuals writes six fields only *)
Lemma unr_other_fields it inf res inf' :
  update_nr_residuals d pc K it inf = Ok (res, inf') -> i_iter inf' = i_iter inf /\ i_status inf' = i_status inf.
Proof.
  intros H. cbv beta delta [update_nr_residuals] in H. repeat step H.
  injection H as _ <-. destruct inf. split; reflexivity.
Qed.

Lemma mu_upd_inv (c : bool) (e : res F) inf a :
  (if c then do mu <- e ;; Ok (inf <| i_mu := mu |>) else Ok inf) = Ok a -> same6 inf a /\ i_iter a = i_iter inf.
Proof.
  destruct c; intros H.
  - step H. injection H as <-. destruct inf. split; [s6 | reflexivity].
  - injection H as <-. split; [apply same6_refl | reflexivity].
Qed.

Definition head_of (st : St) : res (Resid * Info) :=
  if (i_iter (st_inf st) =? 0)%Z then update_nr_residuals d pc K (st_it st) (st_inf st) else Ok (st_res st, st_inf st).

Lemma head_of_iter st res0 inf0a : head_of st = Ok (res0, inf0a) -> i_iter inf0a = i_iter (st_inf st).
Proof.
  unfold head_of. destruct (i_iter (st_inf st) =? 0)%Z; intros H.
  - apply unr_other_fields in H. apply H.
  - injection H as _ <-. reflexivity.
Qed.

(* -------- every way one pass of the main loop can end -------- *)
Definition pass_outcome (st : St) (res0 : Resid) (inf0a : Info) (o : Outcome) : Prop :=
  let inf1 := top_info pc res0 inf0a in
  match o with
  | Stop st' =>
      (i_iter (st_inf st') <= i_iter (st_inf st) + 1)%Z /\
      ((exists stt, ((stt = SOLVED /\ solved_test S inf1 = true) \/
                     ((stt = PRIMAL_INFEASIBLE \/ stt = DUAL_INFEASIBLE) /\ solved_test S inf1 = false)) /\
                    st_it st' = st_it st /\ st_res st' = res0 /\ st_inf st' = inf1 <| i_status := stt |>)
       \/ (solved_test S inf1 = false /\ i_status (st_inf st') = NUMERICS))
  | Continue st' =>
      (i_iter (st_inf st') <= i_iter (st_inf st) + 1)%Z /\
      solved_test S inf1 = false /\
      ((st_res st' = res0 /\ same6 inf0a (st_inf st')) \/
       nr_consistent d pc K (st_it st') (st_res st') (st_inf st'))
  end.

Lemma loop_pass_cases st o :
  loop_pass K S d pc fault cp st = Ok o ->
  exists res0 inf0a, head_of st = Ok (res0, inf0a) /\ pass_outcome st res0 inf0a o.
Proof.
  intros H. cbv beta delta [loop_pass] in H.
  repeat step H.
  all: injection H as <-.
  all: exists r, i; split; [exact E|].
  all: pose proof (head_of_iter st r i E) as Hit0.
  all: unfold pass_outcome; change (top_info pc r i) with inf1; fold (solved_test S inf1) in C.
  all: assert (Hi1 : i_iter inf1 = i_iter i) by (destruct i; reflexivity).
  (* SOLVED *)
  1:{ split. { change (i_iter inf1 <= i_iter (st_inf st) + 1)%Z. lia. }
      left. exists SOLVED. split; [left; split; [reflexivity | exact C] |]. repeat split; reflexivity. }
  (* PRIMAL_INFEASIBLE *)
  1:{ split. { change (i_iter inf1 <= i_iter (st_inf st) + 1)%Z. lia. }
      left. exists PRIMAL_INFEASIBLE. split; [right; split; [left; reflexivity | exact C] |]. repeat split; reflexivity. }
  (* DUAL_INFEASIBLE *)
  1:{ split. { change (i_iter inf1 <= i_iter (st_inf st) + 1)%Z. lia. }
      left. exists DUAL_INFEASIBLE. split; [right; split; [right; reflexivity | exact C] |]. repeat split; reflexivity. }
  (* common facts of the remaining five exits *)
  all: destruct (mu_upd_inv _ _ _ _ E0) as [Ha6 Hai].
  all: assert (Hi2 : i_iter inf2 = (i_iter inf1 + 1)%Z) by reflexivity.
  all: assert (H12 : same6 i inf2) by (destruct i; s6).
  all: assert (H4 : same6 a inf4 /\ i_iter inf4 = i_iter a) by (unfold inf4; destruct a; split; [s6 | match goal with |- context [if ?c then _ else _] => destruct c end; reflexivity]).
  all: destruct H4 as [H46 H4i].
  all: destruct (pre_fact _ _ _ _ E1 E2) as (Ps_it & Ps_inf & Ps_res).
  all: change (st_inf s = inf4) in Ps_inf; change (st_res s = r) in Ps_res; change (st_it s = it3) in Ps_it.
  all: assert (Hi6 : same6 i inf4) by (eapply same6_trans; [apply H12|]; eapply same6_trans; [apply Ha6 | apply H46]).
  (* factorisation failed, iterative refinement switched on *)
  1:{ split. { change (i_iter (st_inf s) <= i_iter (st_inf st) + 1)%Z. rewrite Ps_inf. lia. }
      split; [exact C|]. left. split.
      - change (st_res s = r). exact Ps_res.
      - change (same6 i (st_inf s)). rewrite Ps_inf. exact Hi6. }
  (* factorisation failed, regularisation bumped *)
  1:{ assert (Hb6 : same6 (st_inf s) inf5 /\ i_iter inf5 = i_iter (st_inf s)) by (unfold inf5, bump_reg; destruct (st_inf s); split; [s6 | reflexivity]).
      destruct Hb6 as [Hb6 Hbi].
      split. { change ((i_iter inf5 - 1) <= i_iter (st_inf st) + 1)%Z. rewrite Hbi, Ps_inf. lia. }
      split; [exact C|]. left. split.
      - change (st_res s = r). exact Ps_res.
      - eapply same6_trans; [apply Hi6|]. rewrite <- Ps_inf. eapply same6_trans; [apply Hb6|].
        destruct inf5; s6. }
  (* NUMERICS *)
  1:{ split. { change (i_iter (st_inf s) <= i_iter (st_inf st) + 1)%Z. rewrite Ps_inf. lia. }
      right. split; [exact C | reflexivity]. }
  (* a full step with inequalities *)
  1:{ destruct (unr_other_fields _ _ _ _ E10) as [Hu _].
      assert (Hfin : same6 i0 (inf10 <| i_rho := cp (i_rho inf10) |> <| i_delta := cp (i_delta inf10) |>)
                     /\ i_iter (inf10 <| i_rho := cp (i_rho inf10) |> <| i_delta := cp (i_delta inf10) |>) = i_iter i0).
      { unfold inf10, inf9. destruct good_p, good_d; destruct i0; split; (s6 || reflexivity). }
      destruct Hfin as [Hf6 Hfi].
      split. { match goal with |- (?a <= _)%Z => replace a with (i_iter i0) by (symmetry; exact Hfi) end.
               rewrite Hu. change (i_iter (st_inf s) <= i_iter (st_inf st) + 1)%Z. rewrite Ps_inf. lia. }
      split; [exact C|]. right.
      exists it4, inf7, i0. split; [exact E10|]. split.
      - change (same8 it4 it6). unfold it6, it5. destruct good_p, good_d; unfold same8; repeat split; reflexivity.
      - exact Hf6. }
  (* a full step without inequalities *)
  1:{ destruct (unr_other_fields _ _ _ _ E4) as [Hu _].
      assert (Hfin : same6 i0 (inf10 <| i_rho := cp (i_rho inf10) |> <| i_delta := cp (i_delta inf10) |>)
                     /\ i_iter (inf10 <| i_rho := cp (i_rho inf10) |> <| i_delta := cp (i_delta inf10) |>) = i_iter i0).
      { unfold inf10, inf9. destruct good_p, good_d; destruct i0; split; (s6 || reflexivity). }
      destruct Hfin as [Hf6 Hfi].
      split. { match goal with |- (?a <= _)%Z => replace a with (i_iter i0) by (symmetry; exact Hfi) end.
               rewrite Hu. change (i_iter (st_inf s) <= i_iter (st_inf st) + 1)%Z. rewrite Ps_inf. lia. }
      split; [exact C|]. right.
      exists it4, inf7, i0. split; [exact E4|]. split.
      - change (same8 it4 it6). unfold it6, it5. destruct good_p, good_d; unfold same8; repeat split; reflexivity.
      - exact Hf6. }
Qed.

Local Notation pass_inv := (ResidSpec.pass_inv K S d pc).

Lemma head_consistent st res0 inf0a :
  pass_inv st -> head_of st = Ok (res0, inf0a) ->
  nr_consistent d pc K (st_it st) res0 inf0a \/ solved_test S (top_info pc res0 inf0a) = false.
Proof.
  unfold head_of. intros Hinv H. destruct (Z.eqb_spec (i_iter (st_inf st)) 0) as [E0 | E0].
  - left. exists (st_it st), (st_inf st), inf0a. split; [exact H|]. split; [apply same8_refl | apply same6_refl].
  - injection H as <- <-. destruct Hinv as [Hi | [Hc | Hf]]; [contradiction | left; exact Hc | right; exact Hf].
Qed.

Lemma pass_inv_next st res0 inf0a st' :
  pass_outcome st res0 inf0a (Continue st') -> pass_inv st'.
Proof.
  intros (_ & Hf & [[Hr H6] | Hc]).
  - right; right. rewrite Hr. rewrite <- (solved_test_top S pc res0 inf0a (st_inf st') H6). exact Hf.
  - right; left. exact Hc.
Qed.

Definition verdict_exit (st' : St) : Prop :=
  exists res0 inf0a stt,
    (nr_consistent d pc K (st_it st') res0 inf0a \/ solved_test S (top_info pc res0 inf0a) = false) /\
    st_res st' = res0 /\ st_inf st' = (top_info pc res0 inf0a) <| i_status := stt |> /\
    ((stt = SOLVED /\ solved_test S (top_info pc res0 inf0a) = true) \/
     ((stt = PRIMAL_INFEASIBLE \/ stt = DUAL_INFEASIBLE) /\ solved_test S (top_info pc res0 inf0a) = false)).

Theorem main_loop_exits fuel : forall st st',
  main_loop K S d pc fault cp fuel st = Ok st' -> pass_inv st ->
  ((i_iter (st_inf st) <= max_iter S)%Z -> (i_iter (st_inf st') <= max_iter S)%Z) /\
  (i_status (st_inf st') = MAX_ITER_REACHED \/ i_status (st_inf st') = NUMERICS \/ verdict_exit st').
Proof.
  induction fuel as [|f IH]; intros st st' H Hinv; [discriminate H|].
  cbn [main_loop] in H. destruct (Z.ltb_spec (i_iter (st_inf st)) (max_iter S)) as [Hlt | Hge].
  - destruct (loop_pass K S d pc fault cp st) as [o|] eqn:Elp; [|discriminate H].
    cbn [bind] in H. destruct (loop_pass_cases st o Elp) as (res0 & inf0a & Eh & Hout).
    destruct o as [st1 | st1].
    + destruct (IH st1 st' H (pass_inv_next _ _ _ _ Hout)) as [Hit Hex].
      split; [|exact Hex]. intros _. apply Hit. destruct Hout as (Hi & _). lia.
    + injection H as <-. destruct Hout as (Hi & Hcases). split; [intros _; lia|].
      destruct Hcases as [(stt & Hstt & Hsit & Hsres & Hsinf) | (Hf & Hnum)].
      * right; right. exists res0, inf0a, stt. rewrite Hsit. split; [apply head_consistent; auto|]. auto.
      * right; left. exact Hnum.
  - injection H as <-. split; [intros Hle; exact Hle|]. left. reflexivity.
Qed.

(* C09-T1 for the loop: the status stored is one of the five the loop can set *)
Corollary main_loop_status fuel st st' :
  main_loop K S d pc fault cp fuel st = Ok st' -> pass_inv st ->
  i_status (st_inf st') = MAX_ITER_REACHED \/ i_status (st_inf st') = NUMERICS \/ i_status (st_inf st') = SOLVED \/
  i_status (st_inf st') = PRIMAL_INFEASIBLE \/ i_status (st_inf st') = DUAL_INFEASIBLE.
Proof.
  intros H Hinv. destruct (main_loop_exits fuel st st' H Hinv) as [_ [Hm | [Hn | (res0 & inf0a & stt & _ & _ & Hinf & Hstt)]]]; auto.
  assert (E : i_status (st_inf st') = stt) by (rewrite Hinf; destruct (top_info pc res0 inf0a); reflexivity).
  rewrite E. destruct Hstt as [[-> _] | [[-> | ->] _]]; auto.
Qed.

Theorem main_loop_solved_consistent fuel st st' :
  main_loop K S d pc fault cp fuel st = Ok st' -> pass_inv st -> i_status (st_inf st') = SOLVED ->
  exists res0 inf0a,
    nr_consistent d pc K (st_it st') res0 inf0a /\ st_res st' = res0 /\
    st_inf st' = (top_info pc res0 inf0a) <| i_status := SOLVED |> /\
    solved_test S (top_info pc res0 inf0a) = true.
Proof.
  intros H Hinv Hs. destruct (main_loop_exits fuel st st' H Hinv) as [_ [Hm | [Hn | (res0 & inf0a & stt & Hc & Hr & Hinf & Hstt)]]];
    try congruence.
  assert (E : i_status (st_inf st') = stt) by (rewrite Hinf; destruct (top_info pc res0 inf0a); reflexivity).
  rewrite Hs in E. subst stt. destruct Hstt as [[_ Ht] | [[Hx | Hx] _]]; try discriminate Hx.
  exists res0, inf0a. destruct Hc as [Hc | Hf]; [|congruence]. auto.
Qed.

(* one pass: exits and diagnostics (C09-T3 for the three verdicts) *)
Theorem loop_pass_verdict st st' :
  loop_pass K S d pc fault cp st = Ok (Stop st') ->
  (i_iter (st_inf st) = 0%Z \/ nr_consistent d pc K (st_it st) (st_res st) (st_inf st)) ->
  i_status (st_inf st') = NUMERICS \/
  exists res0 inf0a stt,
    nr_consistent d pc K (st_it st') res0 inf0a /\ st_res st' = res0 /\
    st_inf st' = (top_info pc res0 inf0a) <| i_status := stt |> /\
    ((stt = SOLVED /\ solved_test S (top_info pc res0 inf0a) = true) \/
     ((stt = PRIMAL_INFEASIBLE \/ stt = DUAL_INFEASIBLE) /\ solved_test S (top_info pc res0 inf0a) = false)).
Proof.
  intros H Hinv. destruct (loop_pass_cases st _ H) as (res0 & inf0a & Eh & (_ & Hcases)).
  destruct Hcases as [(stt & Hstt & Hsit & Hsres & Hsinf) | (Hf & Hnum)]; [right | left; exact Hnum].
  exists res0, inf0a, stt. rewrite Hsit. split; [|auto].
  unfold head_of in Eh. destruct (Z.eqb_spec (i_iter (st_inf st)) 0) as [E0 | E0].
  - exists (st_it st), (st_inf st), inf0a. split; [exact Eh|]. split; [apply same8_refl | apply same6_refl].
  - injection Eh as <- <-. destruct Hinv as [Hi | Hc]; [contradiction | exact Hc].
Qed.

(* C09-T1: a pass that stops has set one of four statuses *)
Corollary loop_pass_stop_status st st' :
  loop_pass K S d pc fault cp st = Ok (Stop st') ->
  i_status (st_inf st') = SOLVED \/ i_status (st_inf st') = PRIMAL_INFEASIBLE \/
  i_status (st_inf st') = DUAL_INFEASIBLE \/ i_status (st_inf st') = NUMERICS.
Proof.
  intros H. destruct (loop_pass_cases st _ H) as (res0 & inf0a & _ & (_ & Hc)).
  destruct Hc as [(stt & Hstt & _ & _ & Hinf) | (_ & Hn)]; [|auto].
  assert (E : i_status (st_inf st') = stt) by (rewrite Hinf; destruct (top_info pc res0 inf0a); reflexivity).
  rewrite E. destruct Hstt as [[-> _] | [[-> | ->] _]]; auto.
Qed.
(* C09-T1: iter never exceeds max_iter *)
Corollary main_loop_iter_bound fuel st st' :
  main_loop K S d pc fault cp fuel st = Ok st' -> pass_inv st ->
  (i_iter (st_inf st) <= max_iter S)%Z -> (i_iter (st_inf st') <= max_iter S)%Z.
Proof. intros H Hinv. apply (main_loop_exits fuel st st' H Hinv). Qed.

End Loop.

(* ================================================================== *)
(* certificates                                                         *)
(* ================================================================== *)
Lemma diag_of_top U d pc half it res0 inf0a stt :
  nr_true U d pc half it res0 inf0a ->
  diagnostics_true U d pc half it ((top_info pc res0 inf0a) <| i_status := stt |>).
Proof.
  intros []. destruct inf0a. split; try assumption.
Qed.

Theorem consistent_solved_certificate U d pc K S it res0 inf0a :
  scaled_problem U d pc -> it_shape d it ->
  nr_consistent d pc K it res0 inf0a ->
  nr_true U d pc (k_half K) it res0 inf0a /\
  (solved_test S (top_info pc res0 inf0a) = true -> certificate U d S (k_half K) (unscale_point pc it)).
Proof.
  intros [Hds Hps Hpi Hpp Hsc Hlz] Hit (it0 & inf0 & inf1 & Hrun & H8 & H6).
  assert (Hnt : nr_true U d pc (k_half K) it res0 inf0a).
  { eapply nr_true_same6; [|exact H6]. eapply nr_true_same8; [exact H8|].
    eapply nr_residuals_are_true_residuals_proof; eauto. apply (pp_c _ _ Hpp). eapply it_shape_same8; eauto. }
  split; [exact Hnt|]. intros Ht. eapply solved_test_certificate_proof; eauto.
Qed.

(* C01-T4 for one pass *)
Theorem solved_certificate_pass U d pc K S fault cp st st' :
  scaled_problem U d pc ->
  loop_pass K S d pc fault cp st = Ok (Stop st') ->
  i_status (st_inf st') = SOLVED ->
  (i_iter (st_inf st) = 0%Z \/ nr_consistent d pc K (st_it st) (st_res st) (st_inf st)) ->
  it_shape d (st_it st) ->
  st_it st' = st_it st /\
  certificate U d S (k_half K) (unscale_point pc (st_it st')) /\
  diagnostics_true U d pc (k_half K) (st_it st') (st_inf st').
Proof.
  intros Hsp H Hs Hinv Hit.
  destruct (loop_pass_cases K S d pc fault cp st _ H) as (r0 & i0 & _ & (_ & Hc)).
  assert (Eit : st_it st' = st_it st).
  { destruct Hc as [(stt & _ & Hsit & _) | (_ & Hn)]; [exact Hsit | congruence]. }
  split; [exact Eit|]. rewrite <- Eit in Hit.
  destruct (loop_pass_verdict K S d pc fault cp st st' H Hinv) as [Hn | (res0 & inf0a & stt & Hc' & Hr & Hinf & Hstt)]; [congruence|].
  assert (E : i_status (st_inf st') = stt) by (rewrite Hinf; destruct (top_info pc res0 inf0a); reflexivity).
  rewrite Hs in E. subst stt. destruct Hstt as [[_ Ht] | [[Hx | Hx] _]]; try discriminate Hx.
  destruct (consistent_solved_certificate U d pc K S _ _ _ Hsp Hit Hc') as [Hnt Hcert].
  split; [apply Hcert, Ht|]. rewrite Hinf. apply diag_of_top, Hnt.
Qed.

(* C09-T3 for one pass: the three verdict exits store the true diagnostics of the iterate they return *)
Theorem verdict_diagnostics_pass U d pc K S fault cp st st' :
  scaled_problem U d pc ->
  loop_pass K S d pc fault cp st = Ok (Stop st') ->
  (i_iter (st_inf st) = 0%Z \/ nr_consistent d pc K (st_it st) (st_res st) (st_inf st)) ->
  it_shape d (st_it st') ->
  i_status (st_inf st') = NUMERICS \/ diagnostics_true U d pc (k_half K) (st_it st') (st_inf st').
Proof.
  intros Hsp H Hinv Hit.
  destruct (loop_pass_verdict K S d pc fault cp st st' H Hinv) as [Hn | (res0 & inf0a & stt & Hc' & Hr & Hinf & Hstt)]; [left; exact Hn|].
  right. destruct (consistent_solved_certificate U d pc K S _ _ _ Hsp Hit Hc') as [Hnt _].
  rewrite Hinf. apply diag_of_top, Hnt.
Qed.

(* C01-T4 for the whole loop, independent of how the iterates are produced *)
Theorem solved_certificate_main_loop U d pc K S fault cp fuel st st' :
  scaled_problem U d pc ->
  main_loop K S d pc fault cp fuel st = Ok st' ->
  ResidSpec.pass_inv K S d pc st ->
  i_status (st_inf st') = SOLVED ->
  it_shape d (st_it st') ->
  certificate U d S (k_half K) (unscale_point pc (st_it st')) /\
  diagnostics_true U d pc (k_half K) (st_it st') (st_inf st').
Proof.
  intros Hsp H Hinv Hs Hit.
  destruct (main_loop_solved_consistent K S d pc fault cp fuel st st' H Hinv Hs) as (res0 & inf0a & Hc & Hr & Hinf & Ht).
  destruct (consistent_solved_certificate U d pc K S _ _ _ Hsp Hit Hc) as [Hnt Hcert].
  split; [apply Hcert, Ht|]. rewrite Hinf. apply diag_of_top, Hnt.
Qed.

(* ================================================================== *)
(* the solve() entry point                                              *)
(* ================================================================== *)
Section Solve.
Variable K : Consts.
Variable S : Settings.
Variable d : Data.
Variable fault : nat -> bool.
Variable cp : F -> F.

Lemma init_factor_inv fuel : forall st st' ok,
  init_factor K S d fault fuel st = Ok (st', ok) ->
  i_iter (st_inf st') = i_iter (st_inf st) /\ (ok = false -> i_status (st_inf st') = NUMERICS).
Proof.
  induction fuel as [|f IH]; intros st st' ok H; [discriminate H|].
  cbn [init_factor] in H. step H. step H. step H; [|step H; [|step H]].
  - injection H as <- <-. apply do_factorize_inv in E. destruct E as (_ & E & _). rewrite E. split; [reflexivity | discriminate].
  - apply IH in H. apply do_factorize_inv in E. destruct E as (_ & E & _). destruct H as [H1 H2]. split; [|exact H2].
    rewrite H1. rewrite <- E. destruct s; reflexivity.
  - step H. apply IH in H. apply do_factorize_inv in E. destruct E as (_ & E & _).
    apply do_update_scalings_inv in E0. destruct E0 as (_ & E0 & _). destruct H as [H1 H2]. split; [|exact H2].
    rewrite H1, E0, <- E. unfold bump_reg. destruct s as [? si ? ? ? ?]. destruct si. reflexivity.
  - injection H as <- <-. apply do_factorize_inv in E. destruct E as (_ & E & _). split; [|reflexivity].
    rewrite <- E. destruct s as [? si ? ? ? ?]. destruct si. reflexivity.
Qed.

Lemma initial_point_iter st st' :
  initial_point K S d cp st = Ok st' -> i_iter (st_inf st') = i_iter (st_inf st).
Proof.
  intros H. cbv beta delta [initial_point] in H. repeat step H.
  injection H as <-. change (i_iter i0 = i_iter (st_inf st)).
  repeat step E0.
  - injection E0 as _ <-. destruct (st_inf st); reflexivity.
  - injection E0 as _ <-. reflexivity.
Qed.

End Solve.

Section Api.
Variable K : Consts.
Variable junk : F.
Variable cp_bits : Z.

(* C09-T1: the status returned by solve() is the status stored in the info record *)
Theorem solve_status_proof fault sv sv' status :
  solve K junk cp_bits fault sv = Ok (sv', status) -> i_status (sv_info sv') = status.
Proof.
  intros H. cbv beta delta [solve] in H. repeat step H.
  - unfold fin in H. cbv beta in H. step H. injection H as <- <-. reflexivity.
  - unfold fin in H. cbv beta in H. step H. injection H as <- <-. reflexivity.
Qed.

(* where a SOLVED answer of solve() comes from *)
Theorem solve_solved_origin fault sv sv' :
  solve K junk cp_bits fault sv = Ok (sv', SOLVED) ->
  exists st4 out res0 inf0a,
    unscale_and_restore junk sv (st_it st4) = Ok out /\ sv_out sv' = out /\ sv_info sv' = st_inf st4 /\
    nr_consistent (sv_data sv) (sv_pc sv) K (st_it st4) res0 inf0a /\
    st_inf st4 = (top_info (sv_pc sv) res0 inf0a) <| i_status := SOLVED |> /\
    solved_test (sv_set sv) (top_info (sv_pc sv) res0 inf0a) = true.
Proof.
  intros H. cbv beta delta [solve] in H. repeat step H.
  - (* initial factorisation failed: the status is NUMERICS *)
    exfalso. unfold fin in H. cbv beta in H. step H. injection H as _ Hst.
    apply init_factor_inv in E0. destruct E0 as [_ E0]. destruct b; [discriminate C|].
    rewrite (E0 eq_refl) in Hst. discriminate Hst.
  - unfold fin in H. cbv beta in H. step H. injection H as <- Hst.
    assert (Hiter : i_iter (st_inf a0) = 0%Z).
    { apply initial_point_iter in E1. rewrite E1.
      apply init_factor_inv in E0. destruct E0 as [E0 _].
      change (i_iter (st_inf s) = 0%Z). rewrite E0.
      assert (Hst0 : st_inf a = inf0).
      { destruct (sv_kkt_init_state sv).
        - injection E as <-. reflexivity.
        - apply do_update_scalings_inv in E. destruct E as (_ & E & _). exact E. }
      rewrite Hst0. unfold inf0. destruct (sv_info sv). reflexivity. }
    destruct (main_loop_solved_consistent K S d pc fault (round_cp cp_bits) (loop_fuel S) a0 a1 E2 (or_introl Hiter) Hst)
      as (res0 & inf0a & Hc & Hr & Hinf & Ht).
    exists a1, a2, res0, inf0a. split; [exact E3|]. split; [reflexivity|]. split; [reflexivity|]. auto.
Qed.

(* C01-T4 at the API: SOLVED implies the certificate on the user's problem for the vectors handed to unscale_and_restore *)
Theorem solve_solved_certificate U fault sv sv' :
  scaled_problem U (sv_data sv) (sv_pc sv) ->
  solve K junk cp_bits fault sv = Ok (sv', SOLVED) ->
  exists it out,
    unscale_and_restore junk sv it = Ok out /\ sv_out sv' = out /\
    o_x out = p_x (unscale_point (sv_pc sv) it) /\ o_y out = p_y (unscale_point (sv_pc sv) it) /\
    o_z out = p_z (unscale_point (sv_pc sv) it) /\ o_s out = p_s (unscale_point (sv_pc sv) it) /\
    (it_shape (sv_data sv) it ->
     certificate U (sv_data sv) (sv_set sv) (k_half K) (unscale_point (sv_pc sv) it) /\
     diagnostics_true U (sv_data sv) (sv_pc sv) (k_half K) it (sv_info sv')).
Proof.
  intros Hsp H. destruct (solve_solved_origin fault sv sv' H) as (st4 & out & res0 & inf0a & Hur & Hout & Hinfo & Hc & Hinf & Ht).
  exists (st_it st4), out. split; [exact Hur|]. split; [exact Hout|].
  assert (Hflds : o_x out = p_x (unscale_point (sv_pc sv) (st_it st4)) /\ o_y out = p_y (unscale_point (sv_pc sv) (st_it st4)) /\
                  o_z out = p_z (unscale_point (sv_pc sv) (st_it st4)) /\ o_s out = p_s (unscale_point (sv_pc sv) (st_it st4))).
  { clear - Hur. cbv beta delta [unscale_and_restore] in Hur. repeat step Hur. injection Hur as <-. repeat split; reflexivity. }
  destruct Hflds as (Fx & Fy & Fz & Fs). repeat (split; [assumption|]).
  intros Hit. destruct (consistent_solved_certificate U _ _ K (sv_set sv) _ _ _ Hsp Hit Hc) as [Hnt Hcert].
  split; [apply Hcert, Ht|]. rewrite Hinfo, Hinf. apply diag_of_top, Hnt.
Qed.

End Api.
