(* Properties_C08_outputs.v -- C08 end to end: the output record `sv_out` of the model's API.solve is well-formed at
   EVERY stopping point (SOLVED, MAX_ITER_REACHED, the two infeasibility verdicts, in-loop NUMERICS and the early NUMERICS
   exit), for every n, every one of the 4^n bound patterns, every fault oracle, every checkpoint precision cp_bits and
   every content `junk` of never-written memory.  Proofs: WellFormedProofs.v (on top of InteriorProofs, BoundsProofs,
   PrecondProofs, LLTProofs).

   Predicates:
     ConstsOK K S     1 < k_shift, 0 < k_half, k_sinit, k_eps, k_retry_mul, k_reglim_mul, 0 <= k_snorm;
                      0 < tau < 1, 0 < reg_finetune_lower_limit, eps_abs, rho_init, delta_init, reg_lower_limit
     SolverWF sv      wf_data (shapes; bound index lists strictly increasing and < n), wf_pc, pc_inverse (all stored
                      scalings positive with their inverses; PrecondProofs.v), pc_nlb/pc_nub = n_lb/n_ub, and -- only
                      while sv_kkt_init_state = true -- the KKT object as kkt_init leaves it (KShape, KSign, KMatShape)
     OutShape d o     all thirteen vectors of the output record have the problem's lengths (x: n, y: p, z, s: m, box: n)
     init_gave_up K fault sv = true   iff the initial factorisation loop ends without a factor (early NUMERICS exit)
     Restored dflt n idx packed r     length r = n, r[idx_j] = packed_j for every j, r[k] = dflt for every k < n not in idx
     BoxPattern P dflt n idx r        length r = n, r[k] = dflt exactly for k < n not in idx, r[idx_j] satisfies P
     ext_pos e        e = Fin q with 0 < q
     InputWF n p m B  the user's blocks have consistent dimensions (P n x n, c n, A/G with n columns, b p, h m, bounds n) *)
From PIQP Require Import Base Data Bounds PrecondDense KKTDense IPM API.
From PIQP Require Import BoundsProofs PrecondProofs InteriorProofs WellFormedProofs.
From PIQP.gen Require Import Consts.
Local Open Scope Qc_scope.

(* ---------- the main statement ---------- *)

Theorem C08_solve_outputs_wellformed :
  forall (K : Consts) (junk : F) (cp_bits : Z) (fault : nat -> bool) (sv : Solver),
  ConstsOK K (sv_set sv) -> SolverWF sv ->
  forall (sv' : Solver) (status : Status),
  solve K junk cp_bits fault sv = Ok (sv', status) ->
  init_gave_up K fault sv = false \/ OutShape (sv_data sv) (sv_out sv) ->
  let o := sv_out sv' in
  (* a: sizes *)
  OutShape (sv_data sv) o /\
  (* c: multipliers and slacks of the inequality rows *)
  vpos (o_z o) /\ vpos (o_s o) /\
  (* b: box multipliers / slacks per variable: exactly 0 / +inf without a bound, > 0 with one *)
  BoxPattern (fun q : F => 0 < q) 0 (d_n (sv_data sv)) (d_lb_idx (sv_data sv)) (o_z_lb o) /\
  BoxPattern (fun q : F => 0 < q) 0 (d_n (sv_data sv)) (d_ub_idx (sv_data sv)) (o_z_ub o) /\
  BoxPattern ext_pos PInf (d_n (sv_data sv)) (d_lb_idx (sv_data sv)) (o_s_lb o) /\
  BoxPattern ext_pos PInf (d_n (sv_data sv)) (d_ub_idx (sv_data sv)) (o_s_ub o) /\
  (* they are the unscaled entries of a strictly positive scaled iterate, packed value j at variable idx_j *)
  (exists it : Iterate,
     ItPos it /\ SZShape (sv_data sv) it /\
     o_z o = unscale_dual_ineq (sv_pc sv) (z it) /\ o_s o = unscale_slack_ineq (sv_pc sv) (s it) /\
     Restored 0 (d_n (sv_data sv)) (d_lb_idx (sv_data sv)) (unscale_dual_lb (sv_pc sv) (z_lb it)) (o_z_lb o) /\
     Restored 0 (d_n (sv_data sv)) (d_ub_idx (sv_data sv)) (unscale_dual_ub (sv_pc sv) (z_ub it)) (o_z_ub o) /\
     Restored PInf (d_n (sv_data sv)) (d_lb_idx (sv_data sv)) (ext_of (unscale_slack_lb (sv_pc sv) (s_lb it))) (o_s_lb o) /\
     Restored PInf (d_n (sv_data sv)) (d_ub_idx (sv_data sv)) (ext_of (unscale_slack_ub (sv_pc sv) (s_ub it))) (o_s_ub o)) /\
  (* e: the result does not depend on junk *)
  (forall junk' : F, solve K junk' cp_bits fault sv = Ok (sv', status)) /\
  (* the hypotheses hold again for the next call *)
  SolverWF sv' /\ sv_data sv' = sv_data sv /\ sv_pc sv' = sv_pc sv /\ sv_set sv' = sv_set sv.
Proof. exact solve_outputs_wellformed. Qed.
Print Assumptions C08_solve_outputs_wellformed.

(* the same without auxiliary predicates in the conclusion *)
Theorem C08_solve_outputs_elementary :
  forall (K : Consts) (junk : F) (cp_bits : Z) (fault : nat -> bool) (sv sv' : Solver) (status : Status),
  ConstsOK K (sv_set sv) -> SolverWF sv ->
  solve K junk cp_bits fault sv = Ok (sv', status) ->
  init_gave_up K fault sv = false \/ OutShape (sv_data sv) (sv_out sv) ->
  let d := sv_data sv in let o := sv_out sv' in
  (length (o_x o) = d_n d /\ length (o_y o) = d_p d /\ length (o_z o) = d_m d /\ length (o_s o) = d_m d /\
   length (o_z_lb o) = d_n d /\ length (o_z_ub o) = d_n d /\ length (o_s_lb o) = d_n d /\ length (o_s_ub o) = d_n d) /\
  (forall q, In q (o_z o) \/ In q (o_s o) -> 0 < q) /\
  (forall i, (i < d_n d)%nat ->
     (~ In i (d_lb_idx d) -> nth_error (o_z_lb o) i = Some 0 /\ nth_error (o_s_lb o) i = Some PInf) /\
     (In i (d_lb_idx d) -> exists q r, nth_error (o_z_lb o) i = Some q /\ 0 < q /\
                                       nth_error (o_s_lb o) i = Some (Fin r) /\ 0 < r) /\
     (~ In i (d_ub_idx d) -> nth_error (o_z_ub o) i = Some 0 /\ nth_error (o_s_ub o) i = Some PInf) /\
     (In i (d_ub_idx d) -> exists q r, nth_error (o_z_ub o) i = Some q /\ 0 < q /\
                                       nth_error (o_s_ub o) i = Some (Fin r) /\ 0 < r)).
Proof. exact solve_outputs_elementary. Qed.
Print Assumptions C08_solve_outputs_elementary.

(* ---------- the pieces ---------- *)

(* solve() = interior point part, then unscale + restore *)
Theorem C08_solve_decomp :
  forall (K : Consts) (junk : F) (cp_bits : Z) (fault : nat -> bool) (sv : Solver),
  solve K junk cp_bits fault sv = (do '(st, it) <- solve_core K cp_bits fault sv ;; solve_finish junk sv st it).
Proof. exact solve_decomp. Qed.
Print Assumptions C08_solve_decomp.

(* the iterate handed to unscale_and_restore: positive, of the right lengths; on the early exit it is the entry iterate *)
Theorem C08_solve_core_spec :
  forall (K : Consts) (cp_bits : Z) (fault : nat -> bool) (sv : Solver),
  ConstsOK K (sv_set sv) -> SolverWF sv ->
  forall (st : St) (it : Iterate),
  solve_core K cp_bits fault sv = Ok (st, it) ->
  ItPos it /\ SZShape (sv_data sv) it /\
  (init_gave_up K fault sv = true ->
     it = entry_iterate (sv_data sv) (sv_out sv) /\ i_status (st_inf st) = NUMERICS) /\
  (init_gave_up K fault sv = false \/ OutShape (sv_data sv) (sv_out sv) ->
     ItShape (sv_data sv) it /\ XYShape (sv_data sv) it).
Proof. exact solve_core_spec. Qed.
Print Assumptions C08_solve_core_spec.

(* d: unscale_and_restore never returns Err once the interior point part has returned *)
Theorem C08_solve_finish_total :
  forall (K : Consts) (junk : F) (cp_bits : Z) (fault : nat -> bool) (sv : Solver),
  ConstsOK K (sv_set sv) -> SolverWF sv ->
  forall (st : St) (it : Iterate),
  solve_core K cp_bits fault sv = Ok (st, it) ->
  init_gave_up K fault sv = false \/ OutShape (sv_data sv) (sv_out sv) ->
  exists (sv' : Solver) (status : Status),
    solve K junk cp_bits fault sv = Ok (sv', status) /\
    (forall junk' : F, solve K junk' cp_bits fault sv = Ok (sv', status)).
Proof. exact solve_finish_total. Qed.
Print Assumptions C08_solve_finish_total.

Theorem C08_unscale_and_restore_spec :
  forall (junk : F) (sv : Solver) (it : Iterate),
  wf_data (sv_data sv) -> wf_pc (sv_pc sv) (sv_data sv) -> pc_inverse (sv_pc sv) ->
  pc_nlb (sv_pc sv) = d_nlb (sv_data sv) -> pc_nub (sv_pc sv) = d_nub (sv_data sv) ->
  BoxShape (sv_data sv) it ->
  let d := sv_data sv in let pc := sv_pc sv in let n := d_n d in
  exists out : ResultOut,
    unscale_and_restore junk sv it = Ok out /\
    (forall junk' : F, unscale_and_restore junk' sv it = Ok out) /\
    o_x out = unscale_primal pc (x it) /\ o_y out = unscale_dual_eq pc (y it) /\
    o_z out = unscale_dual_ineq pc (z it) /\ o_s out = unscale_slack_ineq pc (s it) /\
    o_zeta out = unscale_primal pc (zeta it) /\ o_lambda out = unscale_dual_eq pc (lambda it) /\
    o_nu out = unscale_dual_ineq pc (nu it) /\
    Restored 0 n (d_lb_idx d) (unscale_dual_lb pc (z_lb it)) (o_z_lb out) /\
    Restored 0 n (d_ub_idx d) (unscale_dual_ub pc (z_ub it)) (o_z_ub out) /\
    Restored PInf n (d_lb_idx d) (ext_of (unscale_slack_lb pc (s_lb it))) (o_s_lb out) /\
    Restored PInf n (d_ub_idx d) (ext_of (unscale_slack_ub pc (s_ub it))) (o_s_ub out) /\
    Restored 0 n (d_lb_idx d) (unscale_dual_lb pc (nu_lb it)) (o_nu_lb out) /\
    Restored 0 n (d_ub_idx d) (unscale_dual_ub pc (nu_ub it)) (o_nu_ub out).
Proof. exact unscale_and_restore_spec. Qed.
Print Assumptions C08_unscale_and_restore_spec.

(* T3: unscaling keeps positivity (positive scalings) *)
Theorem C08_unscale_keeps_positive :
  forall (d : Data) (pc : Precond),
  wf_data d -> wf_pc pc d -> pc_inverse pc -> pc_nlb pc = d_nlb d -> pc_nub pc = d_nub d ->
  forall it : Iterate, ItPos it -> SZShape d it ->
  vpos (unscale_dual_ineq pc (z it)) /\ vpos (unscale_slack_ineq pc (s it)) /\
  vpos (unscale_dual_lb pc (z_lb it)) /\ vpos (unscale_slack_lb pc (s_lb it)) /\
  vpos (unscale_dual_ub pc (z_ub it)) /\ vpos (unscale_slack_ub pc (s_ub it)).
Proof. exact unscale_keeps_positive. Qed.
Print Assumptions C08_unscale_keeps_positive.

(* lengths of x and y through the whole loop (the KKT solves return vectors of length n and p) *)
Theorem C08_main_loop_xy :
  forall (K : Consts) (S : Settings) (d : Data) (pc : Precond) (fault : nat -> bool) (cp : F -> F),
  wf_data d ->
  forall (fuel : nat) (st st' : St),
  XYInv d st -> main_loop K S d pc fault cp fuel st = Ok st' -> XYShape d (st_it st').
Proof. exact main_loop_xy. Qed.
Print Assumptions C08_main_loop_xy.

(* ---------- the early NUMERICS exit ---------- *)

Theorem C08_solve_early_numerics_exit :
  forall (K : Consts) (junk : F) (cp_bits : Z) (fault : nat -> bool) (sv : Solver),
  ConstsOK K (sv_set sv) -> SolverWF sv ->
  forall (sv' : Solver) (status : Status),
  solve K junk cp_bits fault sv = Ok (sv', status) ->
  init_gave_up K fault sv = true ->
  let o := sv_out sv' in
  status = NUMERICS /\
  o_z o = unscale_dual_ineq (sv_pc sv) (vconst (d_m (sv_data sv)) 1) /\
  o_s o = unscale_slack_ineq (sv_pc sv) (vconst (d_m (sv_data sv)) 1) /\
  o_x o = unscale_primal (sv_pc sv) (o_x (sv_out sv)) /\
  o_y o = unscale_dual_eq (sv_pc sv) (o_y (sv_out sv)) /\ vpos (o_z o) /\ vpos (o_s o).
Proof. exact solve_early_numerics_exit. Qed.
Print Assumptions C08_solve_early_numerics_exit.

(* ---------- setup() establishes the hypotheses ---------- *)

Theorem C08_setup_gives_wellformed :
  forall (K : Consts) (ident sparse_pc : bool) (junk : F) (S : Settings) (n p m : nat) (B : Blocks) (sv : Solver),
  sane_consts K -> InputWF n p m B ->
  setup K ident sparse_pc junk S n p m B = Ok sv ->
  SolverWF sv /\ OutShape (sv_data sv) (sv_out sv) /\ sv_set sv = S /\
  d_n (sv_data sv) = n /\ d_p (sv_data sv) = p /\ d_m (sv_data sv) = m /\
  d_lb_idx (sv_data sv) = match b_lb B with Some l => snd (pack_lb (k_inf K) 0 l) | None => [] end /\
  d_ub_idx (sv_data sv) = match b_ub B with Some l => snd (pack_ub (k_inf K) 0 l) | None => [] end.
Proof. exact setup_gives_wellformed. Qed.
Print Assumptions C08_setup_gives_wellformed.

Theorem C08_setup_lb_pattern :
  forall (K : Consts) (ident sparse_pc : bool) (junk : F) (S : Settings) (n p m : nat) (B : Blocks) (sv : Solver) (l : list ext),
  sane_consts K -> InputWF n p m B -> setup K ident sparse_pc junk S n p m B = Ok sv -> b_lb B = Some l ->
  forall k : nat, In k (d_lb_idx (sv_data sv)) <-> (k < n)%nat /\ ext_gt_neg_inf (k_inf K) (nth k l NInf) = true.
Proof. exact setup_lb_pattern. Qed.
Print Assumptions C08_setup_lb_pattern.

Theorem C08_setup_ub_pattern :
  forall (K : Consts) (ident sparse_pc : bool) (junk : F) (S : Settings) (n p m : nat) (B : Blocks) (sv : Solver) (l : list ext),
  sane_consts K -> InputWF n p m B -> setup K ident sparse_pc junk S n p m B = Ok sv -> b_ub B = Some l ->
  forall k : nat, In k (d_ub_idx (sv_data sv)) <-> (k < n)%nat /\ ext_lt_inf (k_inf K) (nth k l PInf) = true.
Proof. exact setup_ub_pattern. Qed.
Print Assumptions C08_setup_ub_pattern.

(* ---------- non-vacuity: n = 3, one inequality row, bound pattern (lower, free, upper); Ruiz preconditioner,
   constants of gen/Consts.v, short dyadic settings accepted by verify_settings ---------- *)

Example C08_wx_inputs_ok :
  sane_consts consts /\ ConstsOK consts wx_settings /\ InputWF 3 0 1 wx_blocks /\ verify_settings wx_settings = true.
Proof. exact wx_inputs_ok. Qed.

Example C08_wx_setup : setup consts false false 0 wx_settings 3 0 1 wx_blocks = Ok wx_sv.
Proof. exact wx_setup_eq. Qed.

Example C08_wx_solver_wf :
  SolverWF wx_sv /\ OutShape (sv_data wx_sv) (sv_out wx_sv) /\
  d_lb_idx (sv_data wx_sv) = [0%nat] /\ d_ub_idx (sv_data wx_sv) = [2%nat].
Proof. exact wx_solver_wf. Qed.

(* status and the pattern (is 0 ? / is +inf ?) of z_lb, s_lb, z_ub, s_ub, positivity of z and s, length of x *)
Example C08_wx_main_summary :
  wx_summary (solve consts 0 16 wx_nofault wx_sv) =
  Some (MAX_ITER_REACHED, [false; true; true], [false; true; true], [true; true; false], [true; true; false],
        [true], [true], 3%nat) /\
  init_gave_up consts wx_nofault wx_sv = false.
Proof. exact wx_main_summary. Qed.

Example C08_wx_solve_main :
  exists sv', solve consts 0 16 wx_nofault wx_sv = Ok (sv', MAX_ITER_REACHED) /\
    let o := sv_out sv' in
    OutShape (sv_data wx_sv) o /\
    BoxPattern (fun q : F => 0 < q) 0 3 [0%nat] (o_z_lb o) /\ BoxPattern ext_pos PInf 3 [0%nat] (o_s_lb o) /\
    BoxPattern (fun q : F => 0 < q) 0 3 [2%nat] (o_z_ub o) /\ BoxPattern ext_pos PInf 3 [2%nat] (o_s_ub o) /\
    vpos (o_z o) /\ vpos (o_s o) /\
    (forall junk', solve consts junk' 16 wx_nofault wx_sv = Ok (sv', MAX_ITER_REACHED)) /\ SolverWF sv'.
Proof. exact wx_solve_main. Qed.

(* every factorisation reports failure: early NUMERICS exit, same pattern *)
Example C08_wx_early_summary :
  wx_summary (solve consts 0 16 wx_allfault wx_sv) =
  Some (NUMERICS, [false; true; true], [false; true; true], [true; true; false], [true; true; false],
        [true], [true], 3%nat) /\
  init_gave_up consts wx_allfault wx_sv = true.
Proof. exact wx_early_summary. Qed.
