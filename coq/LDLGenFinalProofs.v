(* LDLGenFinalProofs.v -- C14 T1 for ALL sizes, assembled on a CSC matrix: the symbolic phase computes the elimination
   tree / column counts of the fill pattern [fill] and allocates exactly enough, the numeric phase (index part) stays in
   range and produces exactly that pattern, the factorisation is total for all values.
   Also: the fill pattern is the elimination-tree reach of the column pattern (Liu's characterisation). *)
From PIQP Require Import Base CSC LDLSparse C14LemmasProofs PatternsProofs CSCProofs TransposeProofs CountSortProofs LDLSolveProofs LDLSparseProofs
  LDLSparseValuesProofs LDLSparseFinalProofs PermuteGenProofs LDLSymbolicGenProofs LDLFillGenProofs LDLNumericGenProofs.
Require Import ZifyBool.
Local Open Scope nat_scope.

(* ancestors in the elimination tree *)
Inductive anc (par : nat -> option nat) : nat -> nat -> Prop :=
| anc_refl i : anc par i i
| anc_step i p j : par i = Some p -> anc par p j -> anc par i j.

Section Assembled.
Context {V : Type}.
Variable A : csc V.
Hypothesis Hwf : wf_csc A = true.
Hypothesis Hsq : ncols A = nrows A.
Hypothesis Hup : upper_only A = true.

Notation n := (nrows A).
Notation Ap := (colptr A).
Notation Ai := (rowind A).
Notation has := (has_entry (colptr A) (rowind A)).
Notation rows := (fill (nrows A) (has_entry (colptr A) (rowind A))).
Notation lpA := (lpf (has_entry (colptr A) (rowind A)) (nrows A)).

Lemma PA1 : length Ap = S n.
Proof. rewrite (wf_cp_len A Hwf). now rewrite Hsq. Qed.
Lemma PA2 : forall j, j < n -> nth j Ap 0 <= nth (S j) Ap 0.
Proof. intros j Hj. apply (wf_col_range A Hwf j). now rewrite Hsq. Qed.
Lemma PA3 : forall j, j < n -> nth (S j) Ap 0 <= length Ai.
Proof. intros j Hj. apply (wf_col_range A Hwf j). now rewrite Hsq. Qed.
Lemma PA4 : forall j p, j < n -> nth j Ap 0 <= p < nth (S j) Ap 0 -> nth p Ai 0 <= j.
Proof. intros j p Hj Hp. apply upper_only_le; auto. now rewrite Hsq. Qed.
Lemma lpA_eq : forall k i, i < k -> k < n -> lpA k i = has i k || existsb (fun c => lpA i c && lpA k c) (seq 0 i).
Proof. intros. now apply lpf_eq. Qed.

Lemma colK_fill i : colK lpA n i = fill_col n rows i.
Proof. reflexivity. Qed.

Definition sym_post (li : ldl_i) : Prop :=
  length (i_etree li) = n /\ length (i_Lnnz li) = n /\ length (i_flag li) = n /\ length (i_Lcols li) = S n /\
  (forall i, i < n -> nth i (i_etree li) None = hd_error (fill_col n rows i)) /\
  (forall i, i < n -> nth i (i_Lnnz li) 0 = length (fill_col n rows i)) /\
  nth 0 (i_Lcols li) 0 = 0 /\
  (forall i, i < n -> nth (S i) (i_Lcols li) 0 = nth i (i_Lcols li) 0 + length (fill_col n rows i)) /\
  i_Lind li = repeat 0 (nth n (i_Lcols li) 0) /\ i_pattern li = repeat 0 n.

Theorem symbolic_general : exists li, symbolic_i n Ap Ai = Ok li /\ sym_post li.
Proof.
  destruct (symbolic_i_spec n Ap Ai PA1 PA2 PA3 PA4 lpA lpA_eq) as (li & E & H1 & H2 & H3 & H4 & H5 & H6 & H7 & H8 & H9 & H10 & H11).
  exists li. split; auto. unfold sym_post. repeat (split; auto).
Qed.

Definition num_post (li li' : ldl_i) : Prop :=
  i_etree li' = i_etree li /\ i_Lcols li' = i_Lcols li /\
  length (i_Lnnz li') = n /\ length (i_Lind li') = nth n (i_Lcols li) 0 /\
  (forall i, i < n -> nth i (i_Lnnz li') 0 = length (fill_col n rows i)) /\
  (forall i u, i < n -> u < length (fill_col n rows i) ->
     nth (nth i (i_Lcols li) 0 + u) (i_Lind li') 0 = nth u (fill_col n rows i) 0).

Theorem index_general : exists li li', symbolic_i n Ap Ai = Ok li /\ numeric_i n Ap Ai li = Ok li' /\ sym_post li /\ num_post li li'.
Proof.
  destruct (symbolic_i_spec n Ap Ai PA1 PA2 PA3 PA4 lpA lpA_eq) as (li & E & H1 & H2 & H3 & H4 & H5 & H6 & H7 & H8 & H9 & H10 & H11).
  assert (HI0 : NumInv n lpA (i_Lcols li) 0 li).
  { unfold NumInv. rewrite H9, H10, !repeat_length. repeat (split; auto); intros; lia. }
  destruct (num_loop_ok n Ap Ai PA1 PA2 PA3 PA4 lpA lpA_eq (i_etree li) (i_Lcols li) H1 H5 H4 H8 n 0 li eq_refl HI0)
    as (li' & E' & (N1 & N2 & N3 & N4 & N5 & N6 & N7) & R1 & R2).
  exists li, li'. split; auto. split; auto. split.
  - unfold sym_post. repeat (split; auto).
  - unfold num_post. repeat (split; auto).
Qed.

Lemma Lcols_mono li : sym_post li -> forall i j, i <= j -> j <= n -> nth i (i_Lcols li) 0 <= nth j (i_Lcols li) 0.
Proof.
  intros (_ & _ & _ & _ & _ & _ & _ & HS & _) i j Hij Hj. induction Hij; auto.
  specialize (IHHij ltac:(lia)). rewrite HS by lia. lia.
Qed.

Lemma unit_lower_general li li' (vs : list F) : sym_post li -> num_post li li' -> length vs = length (i_Lind li') ->
  unit_lower_ok n (i_Lcols li') (i_Lind li') vs = true.
Proof.
  intros HS (R1 & R2 & N1 & N2 & N3 & N4) Lv. pose proof (Lcols_mono li HS) as Hmono.
  destruct HS as (_ & _ & _ & S4 & _ & _ & S7 & S8 & _). rewrite R2.
  unfold unit_lower_ok. rewrite !andb_true_iff. split; [split|].
  - apply Nat.eqb_eq. auto.
  - apply Nat.eqb_eq. auto.
  - apply forallb_forall. intros j Hj. apply in_seq in Hj. apply andb_true_iff. split.
    + apply Nat.leb_le. apply Hmono; lia.
    + apply forallb_forall. intros p Hp. apply in_seq in Hp. rewrite S8 in Hp by lia.
      assert (Hu : p - nth j (i_Lcols li) 0 < length (fill_col n rows j)) by lia.
      assert (Hlast : nth (S j) (i_Lcols li) 0 <= nth n (i_Lcols li) 0) by (apply Hmono; lia). rewrite S8 in Hlast by lia.
      replace p with (nth j (i_Lcols li) 0 + (p - nth j (i_Lcols li) 0)) at 2 3 by lia.
      rewrite N4 by (auto; lia).
      assert (Hin : In (nth (p - nth j (i_Lcols li) 0) (fill_col n rows j) 0) (fill_col n rows j)) by (apply nth_In; auto).
      unfold fill_col at 2 in Hin. apply filter_In in Hin. destruct Hin as [Hin _]. apply in_seq in Hin.
      rewrite !andb_true_iff. repeat split; apply Nat.ltb_lt; lia.
Qed.

(* ---------- Liu: row k of the pattern of L = nodes below k on the etree paths from the entries of column k ---------- *)
Definition parA (i : nat) : option nat := hd_error (fill_col n rows i).

Lemma parA_row k j : j < k -> k < n -> lpA k j = true -> exists p, parA j = Some p /\ j < p <= k /\ (p < k -> lpA k p = true).
Proof.
  intros Hj Hk Hl. destruct (par_in_row n Ap Ai PA1 PA2 PA3 PA4 lpA lpA_eq k j Hj Hk Hl) as (p & Ep & Hp & Hr).
  exists p. split; auto. unfold parA. rewrite <- colK_fill.
  apply (parK_mono lpA (S k) n j p); [lia|auto].
Qed.

Lemma anc_of_lp : forall d c j, j - c <= d -> c < j -> j < n -> lpA j c = true -> anc parA c j.
Proof.
  induction d; intros c j Hd Hc Hj Hl; [lia|].
  destruct (parA_row j c Hc Hj Hl) as (p & Ep & Hp & Hr).
  destruct (Nat.eq_dec p j) as [->|Hne].
  - apply (anc_step _ c j j Ep). constructor.
  - apply (anc_step _ c p j Ep). apply IHd; [lia|lia|lia|apply Hr; lia].
Qed.

Lemma anc_trans par a b c : anc par a b -> anc par b c -> anc par a c.
Proof. induction 1; auto. intros. eapply anc_step; eauto. Qed.

Theorem pattern_is_etree_reach k i : i < k -> k < n ->
  (lpA k i = true <-> exists i0, i0 <= i /\ has i0 k = true /\ anc parA i0 i).
Proof.
  intros Hi Hk. split.
  - revert Hi. induction i as [i IH] using lt_wf_ind. intros Hi Hl.
    rewrite lpA_eq in Hl by auto. apply orb_true_iff in Hl. destruct Hl as [Hl|Hl].
    + exists i. split; auto. split; auto. constructor.
    + apply existsb_exists in Hl. destruct Hl as (c & Hc & Hcc). apply in_seq in Hc. apply andb_true_iff in Hcc.
      destruct Hcc as [H1 H2]. destruct (IH c ltac:(lia) ltac:(lia) H2) as (i0 & Hi0 & Hh & Ha).
      exists i0. split; [lia|]. split; auto. eapply anc_trans; eauto. apply (anc_of_lp (i - c)); auto; lia.
  - intros (i0 & Hi0 & Hh & Ha).
    assert (Hl0 : lpA k i0 = true) by (rewrite lpA_eq by lia; now rewrite Hh).
    clear Hh. revert Hi Hl0. induction Ha as [i|i p j Ep Ha IH]; intros Hi Hl0; auto.
    assert (Hpj : p <= j).
    { clear - Ha. induction Ha; auto. unfold parA, fill_col in H. apply hd_filter_seq in H. lia. }
    destruct (parA_row k i ltac:(lia) Hk Hl0) as (p' & Ep' & Hp' & Hr). rewrite Ep in Ep'. inversion Ep'; subst p'.
    apply IH; [exact Hpj|exact Hi|apply Hr; lia].
Qed.
End Assembled.

(* ================= totality of the factorisation, all sizes, all values ================= *)
Theorem ldl_factor_total_general (A : csc F) :
  wf_csc A = true -> ncols A = nrows A -> upper_only A = true ->
  let n := nrows A in let rows := fill n (has_entry (colptr A) (rowind A)) in
  exists r li2 lv2,
    ldl_factor A = Ok (r, (li2, lv2)) /\ r <= n /\
    (forall i, i < r -> nth i (v_D lv2) 0%Qc <> 0%Qc) /\
    (r < n -> nth r (v_D lv2) 0%Qc = 0%Qc) /\
    (r = n ->
       unit_lower_ok n (i_Lcols li2) (i_Lind li2) (v_Lvals lv2) = true /\
       nth 0 (i_Lcols li2) 0 = 0 /\
       (forall i, i < n -> nth (S i) (i_Lcols li2) 0 = nth i (i_Lcols li2) 0 + length (fill_col n rows i)) /\
       (forall i u, i < n -> u < length (fill_col n rows i) ->
          nth (nth i (i_Lcols li2) 0 + u) (i_Lind li2) 0 = nth u (fill_col n rows i) 0) /\
       length (v_D lv2) = n /\ length (v_Dinv lv2) = n /\
       forall i, i < n -> (nth i (v_D lv2) 0 * nth i (v_Dinv lv2) 0)%Qc = 1%Qc).
Proof.
  intros Hwf Hsq Hup n rows.
  destruct (index_general A Hwf Hsq Hup) as (li & li' & Es & En & HS & HN).
  pose proof (wf_vals_len A Hwf) as Hv.
  destruct (numeric_erase A li li' Hv Es En) as (r & li2 & lv2 & E & Hr & Hnz & Hz & Hfull).
  exists r, li2, lv2. split; auto. split; auto. split; auto. split; auto.
  intros Hrn. destruct (Hfull Hrn) as (-> & LDi & LD & HD).
  assert (Lvals : length (v_Lvals lv2) = length (i_Lind li')).
  { eapply (factor_sizes A); eauto. }
  split. { apply (unit_lower_general A Hwf Hsq Hup li li'); auto. }
  destruct HS as (_ & _ & _ & _ & _ & _ & S7 & S8 & _). destruct HN as (R1 & R2 & _ & _ & _ & N4). rewrite R2.
  repeat (split; auto).
Qed.

(* ================= full statements (for Properties_C14_general.v) ================= *)
Theorem symbolic_correct_full {V} (A : csc V) :
  wf_csc A = true -> ncols A = nrows A -> upper_only A = true ->
  let n := nrows A in let has := has_entry (colptr A) (rowind A) in let rows := fill n has in
  exists li, symbolic_i n (colptr A) (rowind A) = Ok li /\
    length (i_etree li) = n /\ length (i_Lnnz li) = n /\ length (i_flag li) = n /\ length (i_Lcols li) = S n /\
    (forall i, i < n -> nth i (i_etree li) None = hd_error (fill_col n rows i)) /\
    (forall i p, i < n -> nth i (i_etree li) None = Some p ->
        i < p < n /\ lpf has n p i = true /\ forall k, i < k < p -> lpf has n k i = false) /\
    (forall i, i < n -> nth i (i_Lnnz li) 0 = length (fill_col n rows i)) /\
    nth 0 (i_Lcols li) 0 = 0 /\
    (forall i, i < n -> nth (S i) (i_Lcols li) 0 = nth i (i_Lcols li) 0 + length (fill_col n rows i)) /\
    i_Lind li = repeat 0 (nth n (i_Lcols li) 0) /\ i_pattern li = repeat 0 n.
Proof.
  intros Hwf Hsq Hup n has rows.
  destruct (symbolic_general A Hwf Hsq Hup) as (li & E & H1 & H2 & H3 & H4 & H5 & H6 & H7 & H8 & H9 & H10).
  exists li. split; auto. repeat (split; auto).
  all: rewrite H5 in H0 by auto; apply (parK_some (lpf has n) n i p) in H0; destruct H0 as (P1 & P2 & P3); auto; lia.
Qed.

Theorem index_general_full {V} (A : csc V) :
  wf_csc A = true -> ncols A = nrows A -> upper_only A = true ->
  let n := nrows A in let rows := fill n (has_entry (colptr A) (rowind A)) in
  exists li li', symbolic_i n (colptr A) (rowind A) = Ok li /\ numeric_i n (colptr A) (rowind A) li = Ok li' /\
    i_etree li' = i_etree li /\ i_Lcols li' = i_Lcols li /\ i_Lnnz li' = i_Lnnz li /\
    length (i_Lind li') = nth n (i_Lcols li) 0 /\ length (i_Lind li) = nth n (i_Lcols li) 0 /\
    (forall i, i < n -> nth i (i_Lnnz li) 0 = length (fill_col n rows i)) /\
    nth 0 (i_Lcols li) 0 = 0 /\
    (forall i, i < n -> nth (S i) (i_Lcols li) 0 = nth i (i_Lcols li) 0 + length (fill_col n rows i)) /\
    (forall i u, i < n -> u < length (fill_col n rows i) ->
       nth (nth i (i_Lcols li) 0 + u) (i_Lind li') 0 = nth u (fill_col n rows i) 0) /\
    (forall vs : list F, length vs = length (i_Lind li') -> unit_lower_ok n (i_Lcols li') (i_Lind li') vs = true).
Proof.
  intros Hwf Hsq Hup n rows.
  destruct (index_general A Hwf Hsq Hup) as (li & li' & Es & En & HS & HN).
  exists li, li'. split; auto. split; auto.
  pose proof (unit_lower_general A Hwf Hsq Hup li li') as HU.
  destruct HS as (S1 & S2 & S3 & S4 & S5 & S6 & S7 & S8 & S9 & S10). destruct HN as (N1 & N2 & N3 & N4 & N5 & N6).
  split; auto. split; auto. split.
  { apply (nth_ext _ _ 0 0). lia. intros i Hi. rewrite N5, S6 by lia. reflexivity. }
  split; auto. split. { rewrite S9. apply repeat_length. }
  repeat (split; auto).
  intros vs Hvs. apply HU; auto; unfold sym_post, num_post; repeat (split; auto).
Qed.

(* ================= the boolean check of the bounded development holds for every size ================= *)
Lemma list_eqb_refl l : list_eqb l l = true.
Proof. induction l; simpl; auto. now rewrite Nat.eqb_refl. Qed.
Lemma oeq_refl a : oeq a a = true.
Proof. destruct a; simpl; auto. apply Nat.eqb_refl. Qed.
Lemma nth_map_seq {B} (f : nat -> B) m i d : i < m -> nth i (map f (seq 0 m)) d = f i.
Proof.
  intros H. rewrite (nth_indep _ d (f 0)) by (rewrite map_length, seq_length; auto).
  rewrite (map_nth f (seq 0 m) 0 i). now rewrite seq_nth.
Qed.
Lemma cumsum_shift l : forall acc i, i <= length l -> nth i (cumsum acc l) 0 = acc + nth i (cumsum 0 l) 0.
Proof.
  induction l; intros acc i Hi; simpl in *.
  - destruct i; simpl; lia.
  - destruct i; simpl. lia. rewrite (IHl (acc + a)) by lia. rewrite (IHl a) by lia. lia.
Qed.
Lemma length_concat_nsum (ls : list (list nat)) : length (concat ls) = TransposeProofs.nsum (map (@length nat) ls).
Proof. induction ls; simpl; auto. rewrite app_length, IHls. reflexivity. Qed.
Lemma nth_concat_cumsum (ls : list (list nat)) : forall i u, i < length ls -> u < length (nth i ls []) ->
  nth (nth i (cumsum 0 (map (@length nat) ls)) 0 + u) (concat ls) 0 = nth u (nth i ls []) 0.
Proof.
  induction ls as [|c0 cs IH]; intros i u Hi Hu; simpl in Hi; [lia|].
  destruct i; simpl.
  - simpl in Hu. apply app_nth1. exact Hu.
  - rewrite cumsum_shift by (rewrite map_length; simpl in Hi; lia).
    rewrite app_nth2 by lia.
    replace (length c0 + nth i (cumsum 0 (map (@length nat) cs)) 0 + u - length c0)
      with (nth i (cumsum 0 (map (@length nat) cs)) 0 + u) by lia.
    apply IH. lia. exact Hu.
Qed.

Theorem ldl_index_check_general {V} (A : csc V) :
  wf_csc A = true -> ncols A = nrows A -> upper_only A = true ->
  ldl_index_check (nrows A) (colptr A) (rowind A) = true.
Proof.
  intros Hwf Hsq Hup.
  destruct (index_general A Hwf Hsq Hup) as (li & li' & Es & En & HS & HN).
  destruct HS as (S1 & S2 & S3 & S4 & S5 & S6 & S7 & S8 & S9 & S10). destruct HN as (N1 & N2 & N3 & N4 & N5 & N6).
  assert (Hmono : forall i j, i <= j -> j <= nrows A -> nth i (i_Lcols li) 0 <= nth j (i_Lcols li) 0).
  { intros i j Hij Hj. induction Hij; auto. specialize (IHHij ltac:(lia)). rewrite S8 by lia. lia. }
  unfold ldl_index_check. rewrite Es, En.
  set (n := nrows A) in *. set (rows := fill n (has_entry (colptr A) (rowind A))) in *.
  set (cols := map (fill_col n rows) (seq 0 n)).
  assert (Lcols' : length cols = n) by (unfold cols; now rewrite map_length, seq_length).
  assert (Hcol : forall i, i < n -> nth i cols [] = fill_col n rows i) by (intros; unfold cols; now apply nth_map_seq).
  assert (Hlen : forall i, i < n -> nth i (map (@length nat) cols) 0 = length (fill_col n rows i)).
  { intros i Hi. rewrite (nth_indep _ 0 (length (@nil nat))) by (rewrite map_length; lia).
    rewrite (map_nth (@length nat)). now rewrite Hcol. }
  assert (E1 : i_Lnnz li = map (@length nat) cols).
  { apply (nth_ext _ _ 0 0). rewrite map_length. lia. intros i Hi. rewrite S6, Hlen by lia. reflexivity. }
  assert (Hcum : forall i, i <= n -> nth i (i_Lcols li) 0 = nth i (cumsum 0 (map (@length nat) cols)) 0).
  { induction i; intros Hi. rewrite S7, TransposeProofs.cumsum_0. reflexivity.
    rewrite S8 by lia. rewrite TransposeProofs.cumsum_S by (rewrite map_length; lia). rewrite IHi by lia. rewrite Hlen by lia. reflexivity. }
  assert (E2 : i_Lcols li = cumsum 0 (map (@length nat) cols)).
  { apply (nth_ext _ _ 0 0). rewrite TransposeProofs.cumsum_length, map_length. lia.
    intros i Hi. apply Hcum. lia. }
  assert (E4 : i_Lnnz li' = i_Lnnz li).
  { apply (nth_ext _ _ 0 0). lia. intros i Hi. rewrite N5, S6 by lia. reflexivity. }
  assert (Htot : nth n (i_Lcols li) 0 = length (concat cols)).
  { rewrite Hcum by lia. rewrite length_concat_nsum. rewrite <- Lcols' at 1.
    rewrite <- (map_length (@length nat) cols). rewrite TransposeProofs.cumsum_last. lia. }
  assert (E6 : i_Lind li' = concat cols).
  { apply (nth_ext _ _ 0 0). lia. intros p Hp. rewrite N4 in Hp.
    destruct (CountSortProofs.col_exists (i_Lcols li) n (fun j Hj => Hmono j (S j) ltac:(lia) ltac:(lia)) p) as (i & Hi & Hr).
    { rewrite S7. lia. }
    rewrite S8 in Hr by auto.
    set (u := p - nth i (i_Lcols li) 0).
    assert (Hu : u < length (fill_col n rows i)) by (unfold u; lia).
    replace p with (nth i (i_Lcols li) 0 + u) by (unfold u; lia).
    rewrite N6 by auto. rewrite Hcum by lia.
    rewrite nth_concat_cumsum.
    - rewrite Hcol by auto. reflexivity.
    - lia.
    - rewrite Hcol by auto. exact Hu. }
  fold cols. rewrite E4, N2, E6, <- E2, <- E1. rewrite !list_eqb_refl. rewrite !andb_true_r. simpl.
  apply forallb_forall. intros i Hi. apply in_seq in Hi. rewrite S5, Hcol by lia. apply oeq_refl.
Qed.
