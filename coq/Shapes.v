(* Shapes.v -- C11: the shape (length of every solver-owned array) of the solver object of API.v.

   shape_of collects the length of every array the solver owns: all Data fields, the preconditioner vectors, the KKT
   vectors / matrix rows / factorisation, and the result vectors.  Matrices are lists of columns (or of rows): their
   shape is the list of the lengths of these.

   Packed arrays.  In the C++ code x_lb_idx, x_ub_idx, x_lb_n, x_ub are allocated once with n entries and only the first
   n_lb / n_ub are meaningful; the model stores exactly that packed prefix (Data.v), so the MODEL length of these four
   lists is n_lb / n_ub and does change when the set of finite bounds changes.  Their shape is therefore DEFINED here as
   the constant n (what the C++ array has), and the side condition that makes this sound -- the packed prefix fits:
   n_lb <= n, n_ub <= n, |lb_n| = |lb_idx| = n_lb, |ub| = |ub_idx| = n_ub -- is part of [fits] and proved invariant.
   Likewise Eigen::LLT owns an n x n matrix from setup on, whereas the model's k_fact is None until the first successful
   factorisation: its shape is defined as n, and [fits] says that a present factor has exactly n rows (row i of length i)
   and n pivots.
   Definitions only. *)
From PIQP Require Import Base Data Bounds PrecondDense KKTDense IPM API.

Definition mshape (M : list Vec) : list nat := map (@length F) M.

Record Shape := mkShape {
  (* dense::Data *)
  sh_P : list nat; sh_AT : list nat; sh_GT : list nat;
  sh_c : nat; sh_b : nat; sh_h : nat;
  sh_lb_idx : nat; sh_ub_idx : nat; sh_lb_n : nat; sh_ub : nat;        (* C++: fixed length n (see above) *)
  sh_lb_scaling : nat; sh_ub_scaling : nat;
  (* RuizEquilibration *)
  sh_delta : nat; sh_delta_lb : nat; sh_delta_ub : nat; sh_delta_inv : nat; sh_delta_lb_inv : nat; sh_delta_ub_inv : nat;
  (* dense::KKT *)
  sh_k_s : nat; sh_k_s_lb : nat; sh_k_s_ub : nat; sh_k_z_inv : nat; sh_k_z_lb_inv : nat; sh_k_z_ub_inv : nat;
  sh_k_mat : list nat; sh_k_ATA : list nat;
  sh_llt : nat;                                                          (* C++: n x n from setup on (see above) *)
  (* Result *)
  sh_x : nat; sh_y : nat; sh_z : nat; sh_z_lb : nat; sh_z_ub : nat; sh_s : nat; sh_s_lb : nat; sh_s_ub : nat;
  sh_zeta : nat; sh_lambda : nat; sh_nu : nat; sh_nu_lb : nat; sh_nu_ub : nat
}.

Definition shape_of (sv : Solver) : Shape :=
  let d := sv_data sv in let pc := sv_pc sv in let k := sv_kkt sv in let o := sv_out sv in
  {| sh_P := mshape (d_P d); sh_AT := mshape (d_AT d); sh_GT := mshape (d_GT d);
     sh_c := length (d_c d); sh_b := length (d_b d); sh_h := length (d_h d);
     sh_lb_idx := d_n d; sh_ub_idx := d_n d; sh_lb_n := d_n d; sh_ub := d_n d;
     sh_lb_scaling := length (d_lb_scaling d); sh_ub_scaling := length (d_ub_scaling d);
     sh_delta := length (pc_delta pc); sh_delta_lb := length (pc_delta_lb pc); sh_delta_ub := length (pc_delta_ub pc);
     sh_delta_inv := length (pc_delta_inv pc); sh_delta_lb_inv := length (pc_delta_lb_inv pc);
     sh_delta_ub_inv := length (pc_delta_ub_inv pc);
     sh_k_s := length (k_s k); sh_k_s_lb := length (k_s_lb k); sh_k_s_ub := length (k_s_ub k);
     sh_k_z_inv := length (k_z_inv k); sh_k_z_lb_inv := length (k_z_lb_inv k); sh_k_z_ub_inv := length (k_z_ub_inv k);
     sh_k_mat := mshape (k_mat k); sh_k_ATA := mshape (k_ATA k);
     sh_llt := d_n d;
     sh_x := length (o_x o); sh_y := length (o_y o); sh_z := length (o_z o); sh_z_lb := length (o_z_lb o);
     sh_z_ub := length (o_z_ub o); sh_s := length (o_s o); sh_s_lb := length (o_s_lb o); sh_s_ub := length (o_s_ub o);
     sh_zeta := length (o_zeta o); sh_lambda := length (o_lambda o); sh_nu := length (o_nu o);
     sh_nu_lb := length (o_nu_lb o); sh_nu_ub := length (o_nu_ub o) |}.

(* the shape a solver for an (n, p, m) problem must have: what init_workspace / KKT::init / preconditioner init allocate *)
Definition canon_shape (n p m : nat) : Shape :=
  {| sh_P := repeat n n; sh_AT := repeat n p; sh_GT := repeat n m;
     sh_c := n; sh_b := p; sh_h := m;
     sh_lb_idx := n; sh_ub_idx := n; sh_lb_n := n; sh_ub := n; sh_lb_scaling := n; sh_ub_scaling := n;
     sh_delta := n + p + m; sh_delta_lb := n; sh_delta_ub := n; sh_delta_inv := n + p + m; sh_delta_lb_inv := n; sh_delta_ub_inv := n;
     sh_k_s := m; sh_k_s_lb := n; sh_k_s_ub := n; sh_k_z_inv := m; sh_k_z_lb_inv := n; sh_k_z_ub_inv := n;
     sh_k_mat := map S (seq 0 n); sh_k_ATA := if Nat.ltb 0 p then map S (seq 0 n) else [];
     sh_llt := n;
     sh_x := n; sh_y := p; sh_z := m; sh_z_lb := n; sh_z_ub := n; sh_s := m; sh_s_lb := n; sh_s_ub := n;
     sh_zeta := n; sh_lambda := p; sh_nu := m; sh_nu_lb := n; sh_nu_ub := n |}.

(* a present factorisation has the n x n triangular shape *)
Definition fact_fits (n : nat) (f : option Fact) : Prop :=
  match f with
  | None => True
  | Some f => length (f_L f) = n /\ length (f_D f) = n /\ forall i, (i < n)%nat -> length (nth i (f_L f) []) = i
  end.

(* the packed prefixes fit into the fixed-size C++ arrays *)
Definition fits (sv : Solver) : Prop :=
  let d := sv_data sv in
  (d_nlb d <= d_n d)%nat /\ (d_nub d <= d_n d)%nat /\
  length (d_lb_n d) = d_nlb d /\ length (d_ub d) = d_nub d /\
  pc_nlb (sv_pc sv) = d_nlb d /\ pc_nub (sv_pc sv) = d_nub d /\
  fact_fits (d_n d) (k_fact (sv_kkt sv)).

(* dimension-correct arguments (the calls setup_impl / update accept) *)
Definition is_mat (r c : nat) (M : Mat) : Prop := length M = c /\ Forall (fun col : Vec => length col = r) M.
Definition opt_ok {A} (P : A -> Prop) (o : option A) : Prop := match o with Some a => P a | None => True end.

Definition blocks_ok (n p m : nat) (B : Blocks) : Prop :=
  opt_ok (is_mat n n) (b_P B) /\ opt_ok (fun v : Vec => length v = n) (b_c B) /\
  opt_ok (is_mat p n) (b_A B) /\ opt_ok (fun v : Vec => length v = p) (b_b B) /\
  opt_ok (is_mat m n) (b_G B) /\ opt_ok (fun v : list ext => length v = m) (b_h B) /\
  opt_ok (fun v : list ext => length v = n) (b_lb B) /\ opt_ok (fun v : list ext => length v = n) (b_ub B).

(* setup additionally needs: A, b absent only if p = 0; G, h absent only if m = 0 *)
Definition setup_blocks_ok (n p m : nat) (B : Blocks) : Prop :=
  blocks_ok n p m B /\
  (b_A B = None -> p = 0%nat) /\ (b_b B = None -> p = 0%nat) /\ (b_G B = None -> m = 0%nat) /\ (b_h B = None -> m = 0%nat).

(* histories after setup *)
Inductive SOp := SUpdate (B : Blocks) (reuse : bool) | SSolve (fault : nat -> bool).

Section Run.
Variable K : Consts.
Variable sparse_pc : bool.      (* API.v: the Ruiz preconditioner of the sparse backend *)
Variable junk : F.
Variable cp_bits : Z.

Definition sop_step (sv : Solver) (o : SOp) : res Solver :=
  match o with
  | SUpdate B reuse => update K sparse_pc sv B reuse
  | SSolve fault => do '(sv', _) <- solve K junk cp_bits fault sv ;; Ok sv'
  end.

Fixpoint run_sops (sv : Solver) (h : list SOp) : res Solver :=
  match h with
  | [] => Ok sv
  | o :: t => do sv' <- sop_step sv o ;; run_sops sv' t
  end.

Definition sop_ok (n p m : nat) (o : SOp) : Prop :=
  match o with SUpdate B _ => blocks_ok n p m B | SSolve _ => True end.
End Run.
