(* KKTSparseAll.v -- sparse/kkt_all_eliminated.hpp (KKTImpl<.., KKT_ALL_ELIMINATED>) with the parts of sparse/kkt.hpp that drive it
   (init, update_scalings, update_kkt_box_scalings): the reduced n x n matrix
        P + rho I + box + (1/delta) A^T A + G^T (S Z^-1 + delta)^-1 G        (upper triangle, permuted).

   PIQP's own loops are transcribed one by one over the CSC type of CSC.v with checked accesses (Err Index) and fuel for the
   `while` scans of the map construction (Err Fuel): the merge walk that builds P_utri_to_Ki / AT_A_to_Ki / GT_G_to_Ki,
   update_AT_A, update_GT_W_delta_inv_G (scatter through tmp_scatter), update_kkt_cost/equality/inequality scalings, update_data
   with transpose_no_allocation of the cached A and G.

   Eigen's sparse kernels used at init are NOT transcribed but modelled by what they return on compressed, sorted operands:
     X.transpose()                          = transpose_no_alloc into a freshly allocated pattern (C14_transpose_after_alloc);
     (XT * X).triangularView<Upper>()       = structural pattern { (i,j), i <= j : X stores (k,j) and XT stores (i,k) for some k }, rows
                                              ascending, values = the exact sums (computed here by the scatter loop of update_AT_A);
     P_utri + D + c * AT_A + GT_W_G         = union of the patterns, rows ascending, explicit zeros kept, values added.
   Whether pattern and values agree with Eigen's result is decided by the exact correspondence (tools/kktelim_stage.py compares
   the raw stored matrix). *)
From PIQP Require Import Base CSC KKTSparseFull.
Local Open Scope Qc_scope.

(* ---------- Eigen kernels, by their results ---------- *)
Definition csc_transpose (A : csc F) : res (csc F) :=
  let nz := length (rowind A) in
  transpose_no_alloc A (mkcsc (ncols A) (nrows A) (transpose_colptr A) (repeat 0%nat nz) (repeat 0 nz)).

Definition csc_set_vals {V} (A : csc V) (vx : list V) : csc V := mkcsc (nrows A) (ncols A) (colptr A) (rowind A) vx.

Definition col_rows {V} (M : csc V) (j : nat) : list nat :=
  let lo := nth j (colptr M) 0%nat in let hi := nth (S j) (colptr M) 0%nat in firstn (hi - lo) (skipn lo (rowind M)).
Definition memb (i : nat) (l : list nat) : bool := existsb (Nat.eqb i) l.

(* compressed matrix with the given sorted columns and values *)
Definition csc_of_cols (n : nat) (cols : nat -> list nat) (val : nat -> nat -> F) : csc F :=
  mkcsc n n (cumsum 0 (map (fun j => length (cols j)) (seq 0 n)))
        (concat (map cols (seq 0 n)))
        (concat (map (fun j => map (fun i => val i j) (cols j)) (seq 0 n))).

(* pattern of (XT * X).triangularView<Upper>(): column j of the product collects the columns k of XT for the rows k stored in
   column j of X (structural: no pruning of numerical zeros), restricted to rows <= j, ascending *)
Definition prod_has (X XT : csc F) (i j : nat) : bool :=
  existsb (fun k => memb i (col_rows XT k)) (col_rows X j).
Definition prod_col (X XT : csc F) (j : nat) : list nat := filter (fun i => prod_has X XT i j) (seq 0 (S j)).
Definition prod_upper_pattern (X XT : csc F) : csc F := csc_of_cols (nrows XT) (prod_col X XT) (fun _ _ => 0).

(* P_utri + diagonal_rho + delta_inv * AT_A + GT_W_delta_inv_G *)
Definition sum_col (n : nat) (P ATA GTG : csc F) (j : nat) : list nat :=
  filter (fun i => memb i (col_rows P j) || (i =? j)%nat || memb i (col_rows ATA j) || memb i (col_rows GTG j)) (seq 0 n).
Definition kkt_sum (n : nat) (P ATA GTG : csc F) (rho delta_inv : F) : csc F :=
  csc_of_cols n (sum_col n P ATA GTG)
    (fun i j => csc_get P i j + (if (i =? j)%nat then rho else 0) + delta_inv * csc_get ATA i j + csc_get GTG i j).

(* ---------- the scatter product of update_AT_A / update_GT_W_delta_inv_G ---------- *)
(* X: cached transpose (r x n), XT: data (n x r), C: the product pattern whose values are overwritten;
   [wt]: None for update_AT_A, Some (s, z_inv, delta) for the weighted product *)
Definition scatter_product (X XT C : csc F) (wt : option (Vec * Vec * F)) (tmp : Vec) : res (csc F * Vec) :=
  do '(cx, tmp) <- for_range 0 (ncols X) (fun j '(cx, tmp) =>
      do lo <- get (colptr X) j ;; do hi <- get (colptr X) (S j) ;;
      do tmp <- for_range lo hi (fun q tmp =>
          do k <- get (rowind X) q ;; do xv <- get (vals X) q ;;
          do lo2 <- get (colptr XT) k ;; do hi2 <- get (colptr XT) (S k) ;;
          for_range lo2 hi2 (fun e tmp =>
            do i <- get (rowind XT) e ;;
            if (j <? i)%nat then Ok tmp else
            do xtv <- get (vals XT) e ;;
            do term <- match wt with
                       | None => Ok (xv * xtv)
                       | Some (s, zinv, delta) =>
                           do sk <- get s k ;; do zk <- get zinv k ;;
                           do w <- qdiv 1 (sk * zk + delta) ;; Ok (w * xv * xtv)
                       end ;;
            do old <- get tmp i ;; upd tmp i (old + term)) tmp) tmp ;;
      do clo <- get (colptr C) j ;; do chi <- get (colptr C) (S j) ;;
      for_range clo chi (fun q '(cx, tmp) =>
        do i <- get (rowind C) q ;;
        do v <- get tmp i ;;
        do cx <- upd cx q v ;;
        do tmp <- upd tmp i 0 ;;
        Ok (cx, tmp)) (cx, tmp)) (vals C, tmp) ;;
  Ok (csc_set_vals C cx, tmp).

(* ---------- the merge walk of create_kkt_matrix ---------- *)
(* while (k != kend && idx[k] < i) k++ *)
Fixpoint advance (fuel : nat) (idx : list nat) (k kend i : nat) : res nat :=
  match fuel with
  | O => Err Fuel
  | S f => if (k =? kend)%nat then Ok k else
           do r <- get idx k ;; if (r <? i)%nat then advance f idx (S k) kend i else Ok k
  end.
(* if (k != kend && idx[k] == i) map(k) = kkt_k *)
Definition mark (idx : list nat) (k kend i kkt_k : nat) (map : list nat) : res (list nat) :=
  if (k =? kend)%nat then Ok map else do r <- get idx k ;; if (r =? i)%nat then upd map k kkt_k else Ok map.

Definition compute_maps (K P ATA GTG : csc F) (maps : list nat * list nat * list nat) : res (list nat * list nat * list nat) :=
  for_range 0 (ncols K) (fun j maps =>
    do pk <- get (colptr P) j ;; do ak <- get (colptr ATA) j ;; do gk <- get (colptr GTG) j ;;
    do pend <- get (colptr P) (S j) ;; do aend <- get (colptr ATA) (S j) ;; do gend <- get (colptr GTG) (S j) ;;
    do klo <- get (colptr K) j ;; do kkk <- get (colptr K) (S j) ;;
    do '(_, _, _, maps) <- for_range klo kkk (fun kk '(pk, ak, gk, (p2k, a2k, g2k)) =>
        do i <- get (rowind K) kk ;;
        do pk <- advance (S (pend - pk)) (rowind P) pk pend i ;;
        do ak <- advance (S (aend - ak)) (rowind ATA) ak aend i ;;
        do gk <- advance (S (gend - gk)) (rowind GTG) gk gend i ;;
        do p2k <- mark (rowind P) pk pend i kk p2k ;;
        do a2k <- mark (rowind ATA) ak aend i kk a2k ;;
        do g2k <- mark (rowind GTG) gk gend i kk g2k ;;
        Ok (pk, ak, gk, (p2k, a2k, g2k))) (pk, ak, gk, maps) ;;
    Ok maps) maps.

(* ---------- the state ---------- *)
Record akkt := mkakkt {
  ak_sc : scal;                       (* m_rho, m_delta, m_s, .., m_z_ub_inv *)
  ak_pinv : list nat;
  ak_kp : list nat; ak_ki : list nat; ak_kx : Vec;        (* PKPt *)
  ak_PKi : list nat;
  ak_P2K : list nat; ak_A2K : list nat; ak_G2K : list nat;  (* P_utri_to_Ki, AT_A_to_Ki, GT_G_to_Ki *)
  ak_A : csc F; ak_G : csc F;         (* cached transposes *)
  ak_ATA : csc F; ak_GTG : csc F;     (* AT_A, GT_W_delta_inv_G *)
  ak_tmp : Vec                        (* tmp_scatter *)
}.
Definition ak_set_kx (k : akkt) (kx : Vec) : akkt :=
  mkakkt (ak_sc k) (ak_pinv k) (ak_kp k) (ak_ki k) kx (ak_PKi k) (ak_P2K k) (ak_A2K k) (ak_G2K k) (ak_A k) (ak_G k) (ak_ATA k) (ak_GTG k) (ak_tmp k).
Definition ak_set_sc (k : akkt) (c : scal) : akkt :=
  mkakkt c (ak_pinv k) (ak_kp k) (ak_ki k) (ak_kx k) (ak_PKi k) (ak_P2K k) (ak_A2K k) (ak_G2K k) (ak_A k) (ak_G k) (ak_ATA k) (ak_GTG k) (ak_tmp k).
Definition ak_set_A (k : akkt) (A ATA : csc F) (tmp : Vec) : akkt :=
  mkakkt (ak_sc k) (ak_pinv k) (ak_kp k) (ak_ki k) (ak_kx k) (ak_PKi k) (ak_P2K k) (ak_A2K k) (ak_G2K k) A (ak_G k) ATA (ak_GTG k) tmp.
Definition ak_set_G (k : akkt) (G : csc F) : akkt :=
  mkakkt (ak_sc k) (ak_pinv k) (ak_kp k) (ak_ki k) (ak_kx k) (ak_PKi k) (ak_P2K k) (ak_A2K k) (ak_G2K k) (ak_A k) G (ak_ATA k) (ak_GTG k) (ak_tmp k).
Definition ak_set_GTG (k : akkt) (kx : Vec) (GTG : csc F) (tmp : Vec) : akkt :=
  mkakkt (ak_sc k) (ak_pinv k) (ak_kp k) (ak_ki k) kx (ak_PKi k) (ak_P2K k) (ak_A2K k) (ak_G2K k) (ak_A k) (ak_G k) (ak_ATA k) GTG tmp.

(* PKPt.valuePtr()[PKi(map(k))] += c * src[k], k = 0 .. cnt-1 *)
Definition add_vals (m2k pki : list nat) (c : option F) (src : Vec) (cnt : nat) (kx : Vec) : res Vec :=
  for_range 0 cnt (fun k kx =>
    do q0 <- get m2k k ;; do q <- get pki q0 ;; do v <- get src k ;; do old <- get kx q ;;
    upd kx q (old + match c with None => v | Some c => c * v end)) kx.

(* update_kkt_cost_scalings *)
Definition all_cost_scalings (d : sdata) (k : akkt) : res Vec :=
  let P := sd_P d in
  let kx := repeat 0 (length (ak_kx k)) in
  do kx <- for_range 0 (ncols P) (fun j kx =>
      do lo <- get (colptr P) j ;; do hi <- get (colptr P) (S j) ;;
      for_range lo hi (fun q kx =>
        do q0 <- get (ak_P2K k) q ;; do qq <- get (ak_PKi k) q0 ;; do v <- get (vals P) q ;; do old <- get kx qq ;;
        upd kx qq (old + v)) kx) kx ;;
  for_range 0 (sd_n d) (fun col kx =>
    do q <- dpos (ak_pinv k) (ak_kp k) col ;; do old <- get kx q ;; upd kx q (old + sc_rho (ak_sc k))) kx.

(* update_kkt_equality_scalings *)
Definition all_equality_scalings (k : akkt) (kx : Vec) : res Vec :=
  do dinv <- qdiv 1 (sc_delta (ak_sc k)) ;;
  add_vals (ak_A2K k) (ak_PKi k) (Some dinv) (vals (ak_ATA k)) (nnz (ak_ATA k)) kx.

(* update_kkt_inequality_scaling *)
Definition all_inequality_scaling (d : sdata) (k : akkt) (kx : Vec) : res (Vec * csc F * Vec) :=
  do '(GTG, tmp) <- scatter_product (ak_G k) (sd_GT d) (ak_GTG k) (Some (sc_s (ak_sc k), sc_z_inv (ak_sc k), sc_delta (ak_sc k))) (ak_tmp k) ;;
  do kx <- add_vals (ak_G2K k) (ak_PKi k) None (vals GTG) (nnz GTG) kx ;;
  Ok (kx, GTG, tmp).

Definition all_box_scalings (d : sdata) (k : akkt) (kx : Vec) : res Vec :=
  let c := ak_sc k in
  do kx <- box_scalings (ak_pinv k) (ak_kp k) (sd_nlb d) (sd_lbidx d) (sd_lbs d) (sc_z_lb_inv c) (sc_s_lb c) (sc_delta c) kx ;;
  box_scalings (ak_pinv k) (ak_kp k) (sd_nub d) (sd_ubidx d) (sd_ubs d) (sc_z_ub_inv c) (sc_s_ub c) (sc_delta c) kx.

(* the four calls shared by update_scalings and update_data *)
Definition all_refresh (d : sdata) (k : akkt) : res akkt :=
  do kx <- all_cost_scalings d k ;;
  do kx <- all_equality_scalings k kx ;;
  do '(kx, GTG, tmp) <- all_inequality_scaling d k kx ;;
  do kx <- all_box_scalings d k kx ;;
  Ok (ak_set_GTG k kx GTG tmp).

Definition all_apply_scalings (d : sdata) (k : akkt) (c : scal) : res akkt := all_refresh d (ak_set_sc k c).

Definition all_update_scalings (d : sdata) (k : akkt) (rho delta : F) (s s_lb s_ub z z_lb z_ub : Vec) : res akkt :=
  do _ <- chk_len (sd_nlb d) s_lb ;; do _ <- chk_len (sd_nlb d) z_lb ;;
  do _ <- chk_len (sd_nub d) s_ub ;; do _ <- chk_len (sd_nub d) z_ub ;;
  do zi <- vinv z ;; do zlbi <- vinv (head (sd_nlb d) z_lb) ;; do zubi <- vinv (head (sd_nub d) z_ub) ;;
  let c0 := ak_sc k in
  all_apply_scalings d k (mkscal rho delta s
                            (set_head (head (sd_nlb d) s_lb) (sc_s_lb c0)) (set_head (head (sd_nub d) s_ub) (sc_s_ub c0))
                            zi (set_head zlbi (sc_z_lb_inv c0)) (set_head zubi (sc_z_ub_inv c0))).

(* init_workspace + create_kkt_matrix *)
Record allmat := mkallmat {
  am_K : csc F; am_P2K : list nat; am_A2K : list nat; am_G2K : list nat;
  am_A : csc F; am_G : csc F; am_ATA : csc F; am_GTG : csc F; am_tmp : Vec
}.
(* init_workspace: cached transposes, the two products, tmp_scatter *)
Definition all_workspace (d : sdata) (delta : F) : res (csc F * csc F * csc F * csc F * Vec) :=
  do A <- csc_transpose (sd_AT d) ;;
  do G <- csc_transpose (sd_GT d) ;;
  let tmp := repeat 0 (Nat.max (ncols A) (ncols G)) in
  do '(ATA, tmp) <- scatter_product A (sd_AT d) (prod_upper_pattern A (sd_AT d)) None tmp ;;
  do '(GTG, tmp) <- scatter_product G (sd_GT d) (prod_upper_pattern G (sd_GT d)) None tmp ;;
  do w <- qdiv 1 (1 + delta) ;;
  Ok (A, G, ATA, csc_set_vals GTG (map (fun v => v * w) (vals GTG)), tmp).

(* create_kkt_matrix: the sum and the three maps *)
Definition all_kkt (d : sdata) (rho delta : F) (ATA GTG : csc F) : res (csc F * list nat * list nat * list nat) :=
  do dinv <- qdiv 1 delta ;;
  let K := kkt_sum (sd_n d) (sd_P d) ATA GTG rho dinv in
  do '(p2k, a2k, g2k) <- compute_maps K (sd_P d) ATA GTG
                            (repeat 0%nat (nnz (sd_P d)), repeat 0%nat (nnz ATA), repeat 0%nat (nnz GTG)) ;;
  Ok (K, p2k, a2k, g2k).

Definition all_create (d : sdata) (rho delta : F) : res allmat :=
  do '(A, G, ATA, GTG, tmp) <- all_workspace d delta ;;
  do '(K, p2k, a2k, g2k) <- all_kkt d rho delta ATA GTG ;;
  Ok (mkallmat K p2k a2k g2k A G ATA GTG tmp).

Definition all_init (d : sdata) (rho delta : F) (ord : option (list nat)) : res akkt :=
  let n := sd_n d in
  let c := unit_scal d rho delta in
  do am <- all_create d rho delta ;;
  do '(pinv, C, pki) <-
    match ord with
    | None => Ok (seq 0 n, am_K am, seq 0 (nnz (am_K am)))
    | Some perm => do o <- ordering_init perm ;;
                   do '(C, a2c) <- permute_sym 0 (am_K am) (oPinv o) ;;
                   Ok (oPinv o, C, a2c)
    end ;;
  let k := mkakkt c pinv (colptr C) (rowind C) (vals C) pki (am_P2K am) (am_A2K am) (am_G2K am)
                  (am_A am) (am_G am) (am_ATA am) (am_GTG am) (am_tmp am) in
  do kx <- all_box_scalings d k (ak_kx k) ;;
  Ok (ak_set_kx k kx).

(* update_data(options) *)
Definition all_update_data (d : sdata) (k : akkt) (options : nat) : res akkt :=
  do k <- (if Nat.testbit options 1 then
             do A <- transpose_no_alloc (sd_AT d) (ak_A k) ;;
             do '(ATA, tmp) <- scatter_product A (sd_AT d) (ak_ATA k) None (ak_tmp k) ;;
             Ok (ak_set_A k A ATA tmp)
           else Ok k) ;;
  do k <- (if Nat.testbit options 2 then
             do G <- transpose_no_alloc (sd_GT d) (ak_G k) ;; Ok (ak_set_G k G)
           else Ok k) ;;
  if (options =? 0)%nat then Ok k else all_refresh d k.
