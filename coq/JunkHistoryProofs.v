(* JunkHistoryProofs.v -- C07, parts F-G: call histories, and interleavings of independent solver instances. *)
From PIQP Require Import Base Data Bounds PrecondDense KKTDense IPM API InteriorProofs IPMControlProofs PrecondProofs
                         JunkProofs JunkShapeProofs JunkAPIProofs JunkWFProofs JunkFrameProofs JunkDeltaProofs.
From Coq Require Import Lia.
From RecordUpdate Require Import RecordSet.
Import RecordSetNotations.
Local Open Scope Qc_scope.

(* ================================================================================================ *)
(** * F. Call histories *)

Inductive Op :=
| OSetup (S0 : Settings) (n p m : nat) (B : Blocks)
| OUpdate (B : Blocks) (reuse : bool)
| OSolve.

(* what a caller can observe after a call: the returned status (solve only), the result vectors, the info struct *)
Definition Obs := (option Status * ResultOut * Info)%type.
Definition obs_of (sv : Solver) (st : option Status) : Obs := (st, sv_out sv, sv_info sv).

Section Hist.
Variable K : Consts.
Variable ident : bool.
Variable sparse_pc : bool.
Variable cp_bits : Z.
Variable fault : nat -> bool.

(* one call on a solver object that may not have been set up yet (update / solve before setup are rejected: C05) *)
Definition step (j : F) (st : option Solver) (op : Op) : res (option Solver * Obs) :=
  match op, st with
  | OSetup S0 n p m B, _ => do sv <- setup K ident sparse_pc j S0 n p m B ;; Ok (Some sv, obs_of sv None)
  | OUpdate B r, Some sv => do sv' <- update K sparse_pc sv B r ;; Ok (Some sv', obs_of sv' None)
  | OSolve, Some sv => do '(sv', stt) <- solve K j cp_bits fault sv ;; Ok (Some sv', obs_of sv' (Some stt))
  | _, None => Err Shape
  end.

(* a history: the observations of the calls that returned, and the model error that stopped the run (None = the
   model stayed inside its domain for the whole history) *)
Fixpoint run (j : F) (st : option Solver) (ops : list Op) : list Obs * option err :=
  match ops with
  | [] => ([], None)
  | op :: t =>
      match step j st op with
      | Ok (st', o) => let (os, e) := run j st' t in (o :: os, e)
      | Err e => ([], Some e)
      end
  end.

(* dimension-correct arguments, relative to the dimensions of the last setup() *)
Fixpoint ops_ok (dims : option (nat * nat * nat)) (ops : list Op) : Prop :=
  match ops with
  | [] => True
  | OSetup S0 n p m B :: t => setup_blocks_ok n p m B /\ ops_ok (Some (n, p, m)) t
  | OUpdate B r :: t =>
      match dims with Some (n, p, m) => update_blocks_ok n p m B | None => True end /\ ops_ok dims t
  | OSolve :: t => ops_ok dims t
  end.

Definition st_inv (dims : option (nat * nat * nat)) (st : option Solver) : Prop :=
  match st, dims with
  | Some sv, Some (n, p, m) => WFd n p m sv
  | None, _ => True
  | Some _, None => False
  end.

Definition opt_agree (a b : option Solver) : Prop :=
  match a, b with Some x, Some y => sv_agree x y | None, None => True | _, _ => False end.

Definition dims_after (dims : option (nat * nat * nat)) (op : Op) : option (nat * nat * nat) :=
  match op with OSetup _ n p m _ => Some (n, p, m) | _ => dims end.

Hypothesis SK : sane_consts K.

(* the invariant is kept by every call that returns *)
Lemma step_inv j dims st op st' o :
  st_inv dims st -> ops_ok dims [op] -> step j st op = Ok (st', o) -> st_inv (dims_after dims op) st'.
Proof.
  intros HI HO E. destruct op as [S0 n p m B|B r|]; cbn in HO, E |- *.
  - destruct (setup K ident sparse_pc j S0 n p m B) as [sv|] eqn:Es; cbn [bind] in E; [|destruct st; discriminate].
    assert (E' : Ok (Some sv, obs_of sv None) = Ok (st', o)) by (destruct st; exact E).
    injection E' as <- _. cbn. eapply setup_wf; eauto. apply HO.
  - destruct st as [sv|]; [|discriminate]. destruct dims as [[[n p] m]|]; [|contradiction].
    destruct (update K sparse_pc sv B r) as [sv'|] eqn:Eu; cbn [bind] in E; [|discriminate]. injection E as <- _. cbn.
    eapply update_wf; eauto. apply HO.
  - destruct st as [sv|]; [|discriminate]. destruct dims as [[[n p] m]|]; [|contradiction].
    destruct (solve K j cp_bits fault sv) as [[sv' stt]|] eqn:Eu; cbn [bind] in E; [|discriminate]. injection E as <- _. cbn.
    eapply solve_wf; eauto.
Qed.

(* one call, two junk values *)
Definition step_rel (x y : option Solver * Obs) : Prop := opt_agree (fst x) (fst y) /\ snd x = snd y.

Lemma obs_of_agree a b stt : sv_agree a b -> obs_of a stt = obs_of b stt.
Proof. intros [(O1 & O2 & O3 & O4 & O5 & O6 & O7 & O8 & O9) _]. unfold obs_of. congruence. Qed.

Lemma step_setup_solve j1 j2 dims st1 st2 op :
  opt_agree st1 st2 -> st_inv dims st1 -> (forall B r, op <> OUpdate B r) ->
  RR step_rel (step j1 st1 op) (step j2 st2 op).
Proof.
  intros HA HI Hop. destruct op as [S0 n p m B|B r|]; cbn.
  - assert (H : RR step_rel (do sv <- setup K ident sparse_pc j1 S0 n p m B ;; Ok (Some sv, obs_of sv None))
                            (do sv <- setup K ident sparse_pc j2 S0 n p m B ;; Ok (Some sv, obs_of sv None))).
    { eapply RR_bind; [apply setup_junk_indep|]. intros a b H. apply sv_agree_strong_agree in H.
      cbn. split; [exact H|apply obs_of_agree; exact H]. }
    destruct st1, st2; exact H.
  - exfalso. eapply Hop; reflexivity.
  - destruct st1 as [a|], st2 as [b|]; cbn in HA; try contradiction; [|reflexivity].
    destruct dims as [[[n p] m]|]; [|contradiction].
    eapply RR_bind; [apply solve_junk_indep; [exact HA|apply WFsv_SolveShape, HI]|].
    intros [a' s1] [b' s2] [H E]. cbn [fst snd] in H, E. subst s2. apply sv_agree_strong_agree in H.
    cbn. split; [exact H|apply obs_of_agree; exact H].
Qed.

Lemma step_update_ok j1 j2 st1 st2 B r x y :
  opt_agree st1 st2 -> step j1 st1 (OUpdate B r) = Ok x -> step j2 st2 (OUpdate B r) = Ok y -> step_rel x y.
Proof.
  intros HA E1 E2. cbn in E1, E2. destruct st1 as [a|], st2 as [b|]; cbn in HA; try contradiction; try discriminate.
  destruct (update K sparse_pc a B r) as [a'|] eqn:Ea; cbn [bind] in E1; [|discriminate].
  destruct (update K sparse_pc b B r) as [b'|] eqn:Eb; cbn [bind] in E2; [|discriminate].
  injection E1 as <-. injection E2 as <-.
  pose proof (update_agree_ok K sparse_pc a b B r a' b' HA Ea Eb) as H.
  split; [exact H|apply obs_of_agree; exact H].
Qed.

(* the two observation lists agree as far as both go *)
Definition prefix_compat {A} (o1 o2 : list A) : Prop :=
  firstn (Nat.min (length o1) (length o2)) o1 = firstn (Nat.min (length o1) (length o2)) o2.

Lemma prefix_compat_nil_l {A} (o : list A) : prefix_compat [] o.
Proof. reflexivity. Qed.
Lemma prefix_compat_nil_r {A} (o : list A) : prefix_compat o [].
Proof. unfold prefix_compat. cbn. rewrite Nat.min_0_r. reflexivity. Qed.
Lemma prefix_compat_cons {A} (a : A) o1 o2 : prefix_compat o1 o2 -> prefix_compat (a :: o1) (a :: o2).
Proof. unfold prefix_compat. cbn. intros ->. reflexivity. Qed.

(* T1 without any hypothesis on the regularisation: the runs with two junk values give the same observations as far
   as both go, and the same observations (all of them) whenever the model stays inside its domain in both *)
Theorem junk_independence_partial j1 j2 ops : forall dims st1 st2,
  opt_agree st1 st2 -> st_inv dims st1 -> st_inv dims st2 -> ops_ok dims ops ->
  prefix_compat (fst (run j1 st1 ops)) (fst (run j2 st2 ops)) /\
  (snd (run j1 st1 ops) = None -> snd (run j2 st2 ops) = None -> fst (run j1 st1 ops) = fst (run j2 st2 ops)).
Proof.
  induction ops as [|op t IH]; intros dims st1 st2 HA HI1 HI2 HO; cbn [run]; [split; reflexivity|].
  assert (HO1 : ops_ok dims [op] /\ ops_ok (dims_after dims op) t).
  { destruct op; cbn in HO |- *; tauto. }
  destruct HO1 as [HO1 HOt].
  assert (Hstep : match step j1 st1 op, step j2 st2 op with
                  | Ok x, Ok y => step_rel x y
                  | _, _ => True end).
  { destruct op as [S0 n p m B|B r|].
    - pose proof (step_setup_solve j1 j2 dims st1 st2 (OSetup S0 n p m B) HA HI1 ltac:(discriminate)) as H.
      destruct (step j1 st1 _), (step j2 st2 _); cbn in H; auto.
    - destruct (step j1 st1 _) eqn:E1; [|exact I]. destruct (step j2 st2 _) eqn:E2; [|exact I].
      eapply step_update_ok; eauto.
    - pose proof (step_setup_solve j1 j2 dims st1 st2 OSolve HA HI1 ltac:(discriminate)) as H.
      destruct (step j1 st1 _), (step j2 st2 _); cbn in H; auto. }
  destruct (step j1 st1 op) as [[s1 o1]|e1] eqn:E1; destruct (step j2 st2 op) as [[s2 o2]|e2] eqn:E2.
  - destruct Hstep as [HA' Ho]. cbn [fst snd] in HA', Ho. subst o2.
    specialize (IH _ s1 s2 HA' (step_inv _ _ _ _ _ _ HI1 HO1 E1) (step_inv _ _ _ _ _ _ HI2 HO1 E2) HOt).
    destruct (run j1 s1 t) as [os1 e1']. destruct (run j2 s2 t) as [os2 e2']. cbn [fst snd] in *.
    destruct IH as [IH1 IH2]. split; [apply prefix_compat_cons; exact IH1|].
    intros H1 H2. f_equal. auto.
  - destruct (run j1 s1 t). cbn. split; [apply prefix_compat_nil_r|discriminate].
  - destruct (run j2 s2 t). cbn. split; [apply prefix_compat_nil_l|discriminate].
  - cbn. split; [reflexivity|discriminate].
Qed.

(* ---- the full statement ---- *)
(* the regularisation stored in the KKT object is positive whenever update() is called (evaluated on one run; it is
   the same in the other).  verify_settings demands delta_init > 0 and solve() only ever stores positive values
   under accepted settings; the hypothesis is stated on the trace so that the theorem needs no assumption on the
   settings. *)
Fixpoint delta_ok (j : F) (st : option Solver) (ops : list Op) : Prop :=
  match ops with
  | [] => True
  | op :: t =>
      match op, st with OUpdate _ _, Some sv => 0 < k_delta (sv_kkt sv) | _, _ => True end /\
      match step j st op with Ok (st', _) => delta_ok j st' t | Err _ => True end
  end.

Definition opt_agreeJ (j1 j2 : F) (a b : option Solver) : Prop :=
  match a, b with Some x, Some y => sv_agreeJ j1 j2 x y | None, None => True | _, _ => False end.

Definition step_relJ (j1 j2 : F) (x y : option Solver * Obs) : Prop := opt_agreeJ j1 j2 (fst x) (fst y) /\ snd x = snd y.

Lemma step_agreeJ j1 j2 dims st1 st2 op :
  opt_agreeJ j1 j2 st1 st2 -> st_inv dims st1 -> ops_ok dims [op] ->
  match op, st1 with OUpdate _ _, Some sv => 0 < k_delta (sv_kkt sv) | _, _ => True end ->
  RR (step_relJ j1 j2) (step j1 st1 op) (step j2 st2 op).
Proof.
  intros HA HI HO Hd. destruct op as [S0 n p m B|B r|]; cbn.
  - assert (H : RR (step_relJ j1 j2) (do sv <- setup K ident sparse_pc j1 S0 n p m B ;; Ok (Some sv, obs_of sv None))
                                     (do sv <- setup K ident sparse_pc j2 S0 n p m B ;; Ok (Some sv, obs_of sv None))).
    { eapply RR_bind; [apply (setup_agreeJ K sparse_pc SK); apply HO|]. intros a b H.
      split; [exact H|apply obs_of_agree; apply H]. }
    destruct st1, st2; exact H.
  - destruct st1 as [a|], st2 as [b|]; cbn in HA; try contradiction; [|reflexivity].
    destruct dims as [[[n p] m]|]; [|contradiction].
    eapply RR_bind; [apply (update_agreeJ K sparse_pc SK j1 j2 n p m); [exact HA|exact HI|apply HO|exact Hd]|].
    intros a' b' H. split; [exact H|apply obs_of_agree; apply H].
  - destruct st1 as [a|], st2 as [b|]; cbn in HA; try contradiction; [|reflexivity].
    destruct dims as [[[n p] m]|]; [|contradiction].
    eapply RR_bind; [apply (solve_agreeJ K cp_bits fault j1 j2 n p m); [exact HA|exact HI]|].
    intros [a' s1] [b' s2] [H E]. cbn [fst snd] in H, E. subst s2.
    split; [exact H|apply obs_of_agree; apply H].
Qed.

(* T1: the whole run -- every observation and the point where the model leaves its domain, if it does -- is the same
   for the two junk values *)
Theorem junk_independence j1 j2 ops : forall dims st1 st2,
  opt_agreeJ j1 j2 st1 st2 -> st_inv dims st1 -> ops_ok dims ops -> delta_ok j1 st1 ops ->
  run j1 st1 ops = run j2 st2 ops.
Proof.
  induction ops as [|op t IH]; intros dims st1 st2 HA HI HO HD; cbn [run]; [reflexivity|].
  assert (HO1 : ops_ok dims [op] /\ ops_ok (dims_after dims op) t).
  { destruct op; cbn in HO |- *; tauto. }
  destruct HO1 as [HO1 HOt]. cbn [delta_ok] in HD. destruct HD as [Hd HD].
  pose proof (step_agreeJ j1 j2 dims st1 st2 op HA HI HO1 Hd) as H.
  destruct (step j1 st1 op) as [[s1 o1]|e1] eqn:E1; destruct (step j2 st2 op) as [[s2 o2]|e2] eqn:E2;
    cbn in H; try contradiction.
  - destruct H as [HA' Ho]. cbn [fst snd] in HA', Ho. subst o2.
    rewrite (IH _ s1 s2 HA' (step_inv _ _ _ _ _ _ HI HO1 E1) HOt HD). reflexivity.
  - subst e2. reflexivity.
Qed.

(* from a solver object that has not been set up, no hypothesis on the initial state is needed *)
Corollary junk_independence_fresh j1 j2 ops :
  ops_ok None ops -> delta_ok j1 None ops -> run j1 None ops = run j2 None ops.
Proof. intros HO HD. apply (junk_independence j1 j2 ops None None None); auto; exact I. Qed.

End Hist.

(* ================================================================================================ *)
(** * G. Independent instances: any interleaving is a product of sequential runs *)

Section Inter.
Variables State Op' Out : Type.
(* the step function of instance [i] (its own junk, oracle, settings ...): a pure function of the instance's state *)
Variable stepf : nat -> State -> Op' -> State * Out.

Fixpoint run_seq (i : nat) (s : State) (ops : list Op') : list Out :=
  match ops with
  | [] => []
  | op :: t => let (s', o) := stepf i s op in o :: run_seq i s' t
  end.

Definition pool_set (P : nat -> State) (i : nat) (s : State) : nat -> State :=
  fun k => if Nat.eqb k i then s else P k.

(* a schedule: which instance executes which call next *)
Fixpoint run_inter (P : nat -> State) (l : list (nat * Op')) : list (nat * Out) :=
  match l with
  | [] => []
  | (i, op) :: t => let (s', o) := stepf i (P i) op in (i, o) :: run_inter (pool_set P i s') t
  end.

Definition calls_of (i : nat) (l : list (nat * Op')) : list Op' :=
  map snd (filter (fun x => Nat.eqb (fst x) i) l).
Definition outs_of (i : nat) (l : list (nat * Out)) : list Out :=
  map snd (filter (fun x => Nat.eqb (fst x) i) l).

Lemma run_inter_ext l : forall P Q, (forall k, P k = Q k) -> run_inter P l = run_inter Q l.
Proof.
  induction l as [|[i op] t IH]; intros P Q H; cbn [run_inter]; [reflexivity|].
  rewrite <- (H i). destruct (stepf i (P i) op) as [s' o]. f_equal. apply IH.
  intros k. unfold pool_set. destruct (Nat.eqb k i); [reflexivity|apply H].
Qed.

Theorem no_shared_state (l : list (nat * Op')) : forall (P : nat -> State) (i : nat),
  outs_of i (run_inter P l) = run_seq i (P i) (calls_of i l).
Proof.
  induction l as [|[i0 op] t IH]; intros P i; [reflexivity|].
  cbn [run_inter]. destruct (stepf i0 (P i0) op) as [s' o] eqn:E.
  unfold outs_of, calls_of in *. cbn [filter fst snd map].
  destruct (Nat.eqb i0 i) eqn:Ei.
  - apply Nat.eqb_eq in Ei. subst i0. cbn [map snd run_seq]. rewrite E. f_equal.
    rewrite IH. unfold pool_set. rewrite Nat.eqb_refl. reflexivity.
  - rewrite IH. unfold pool_set. rewrite Nat.eqb_sym, Ei. reflexivity.
Qed.
End Inter.

(* the instance for the solver model: a call that leaves the model's domain is logged and leaves the object as it was *)
Definition step_tot (K : Consts) (identf sparsef : nat -> bool) (junkf : nat -> F) (cpf : nat -> Z) (faultf : nat -> nat -> bool)
    (i : nat) (st : option Solver) (op : Op) : option Solver * res Obs :=
  match step K (identf i) (sparsef i) (cpf i) (faultf i) (junkf i) st op with
  | Ok (st', o) => (st', Ok o)
  | Err e => (st, Err e)
  end.

Theorem no_shared_state_solver K identf sparsef junkf cpf faultf (l : list (nat * Op)) (P : nat -> option Solver) (i : nat) :
  outs_of _ i (run_inter _ _ _ (step_tot K identf sparsef junkf cpf faultf) P l) =
  run_seq _ _ _ (step_tot K identf sparsef junkf cpf faultf) i (P i) (calls_of _ i l).
Proof. apply no_shared_state. Qed.
