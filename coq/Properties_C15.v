(* Properties_C15.v -- C15 "Preconditioning is an exact change of variables" (dense Ruiz equilibration).
   Statements only; proofs are in PrecondProofs.v.  Model: PrecondDense.v (exact arithmetic over Qc, sqrtF = the
   power-of-two square root of Base.v).  Definitions used in the statements (all in PrecondProofs.v):
     wf_data d        shapes: P n x n, AT n x p, GT n x m (column lists), |c| = n, |b| = p, |h| = m,
                      lb_idx / ub_idx strictly increasing and < n, |lb_scaling| = |ub_scaling| = n,
                      |lb_n| = n_lb, |ub| = n_ub
     wf_pc_len pc     |delta| = |delta_inv| = n+p+m, the four box vectors have length n, pc_nlb, pc_nub <= n
     wf_pc pc d       wf_pc_len pc and pc_n/pc_p/pc_m agree with d;   dims_agree pc d : only the latter
     pc_inverse pc    c * c_inv = 1, delta_i * delta_inv_i = 1 (i < n+p+m), delta_lb_i * delta_lb_inv_i = 1 and
                      delta_ub_i * delta_ub_inv_i = 1 for ALL i < n, and c, delta, delta_lb, delta_ub positive
     sane_consts K    0 < k_min_scaling <= 1 <= k_max_scaling
     is_transform c dl dlb dub d0 d     entrywise: P(i,j) = c dl_i dl_j P0(i,j) (i <= j), P(i,j) = c P0(i,j) (i > j:
                      the strict lower triangle is multiplied by c only), c_i = c dl_i c0_i,
                      AT(i,j) = dl_i dl_(n+j) AT0(i,j), GT(i,j) = dl_i dl_(n+p+j) GT0(i,j),
                      lb_scaling(k) = dlb_k dl_(lb_idx k) lb_scaling0(k) for k < n_lb and unchanged beyond, same for ub;
                      dimensions and index lists unchanged
     bounds_transform dl dlb dub d0 d   b_j = dl_(n+j) b0_j, h_j = dl_(n+p+j) h0_j, lb_n(k) = dlb_k lb_n0(k), ub(k) = dub_k ub0(k)
     all_pairs_inverse pc               the 14 scale_X / unscale_X pairs are mutual inverses on vectors of the active lengths
     pc_reach K pc    pc is reachable from init() by any sequence of scale_data calls (fresh or reuse, any scale_cost,
                      any iteration count) on arbitrary well-formed data of the same dimensions
   Every statement about ruiz_scale_data / scale_data is quantified over sq = the [sparse_quirk] flag of PrecondDense.v
   (false: dense/preconditioner.hpp; true: the two deviations of sparse/preconditioner.hpp -- delta_iter_lb/ub not zeroed
   before the loop, delta_lb_inv reused as cost-scaling scratch and then read by the next loop guard).
   History note: the model of the code BEFORE the fix "Ruiz preconditioners must invert the whole bound-scaling vectors"
   refuted C15_history_preserves_inverse (preconditioner_iter = 0, n_lb grows 1 -> 2, reuse = true: the new slot of
   delta_lb_inv is 0, unscale_slack_lb multiplies by 0).  Example C15_ex_growth_after_zero_iterations replays exactly
   that history on the current model. *)
From PIQP Require Import Base Data PrecondDense PrecondProofs.
From PIQP.gen Require Import Consts.
From RecordUpdate Require Import RecordSet.
Import RecordSetNotations.
Local Open Scope Qc_scope.

(* T4: every scale_X / unscale_X pair are mutual inverses under the invariant *)
Theorem C15_scale_unscale_pairs :
  forall pc : Precond, wf_pc_len pc -> pc_inverse pc -> all_pairs_inverse pc.
Proof. exact scale_unscale_pairs. Qed.
Print Assumptions C15_scale_unscale_pairs.

(* T1: a fresh scale_data (any data, sizes, bound pattern, iteration count, scale_cost; ANY previous preconditioner
   state of the right dimensions) establishes the invariant on all slots and well-formed outputs *)
Theorem C15_scale_establishes_inverse :
  forall (K : Consts) (sq : bool), sane_consts K ->
  forall (pc0 : Precond) (d0 : Data) (sc : bool) (it : Z) (pc' : Precond) (d' : Data),
  wf_data d0 -> dims_agree pc0 d0 ->
  ruiz_scale_data K sq pc0 d0 false sc it = Ok (pc', d') ->
  pc_inverse pc' /\ wf_data d' /\ wf_pc pc' d' /\
  pc_nlb pc' = d_nlb d' /\ pc_nub pc' = d_nub d' /\
  d_lb_idx d' = d_lb_idx d0 /\ d_ub_idx d' = d_ub_idx d0.
Proof. exact scale_establishes_inverse. Qed.
Print Assumptions C15_scale_establishes_inverse.

(* T1 (progress): it returns Ok -- no division by zero, no index or shape error -- when n >= 1 or the cost is not scaled
   (for n = 0 and scale_cost = true the code divides by T(n) = 0) *)
Theorem C15_scale_fresh_ok :
  forall (K : Consts) (sq : bool), sane_consts K ->
  forall (pc0 : Precond) (d0 : Data) (sc : bool) (it : Z),
  wf_data d0 -> dims_agree pc0 d0 -> (sc = false \/ (1 <= d_n d0)%nat) ->
  exists pc' d', ruiz_scale_data K sq pc0 d0 false sc it = Ok (pc', d').
Proof. exact scale_fresh_ok. Qed.
Print Assumptions C15_scale_fresh_ok.

(* T2: unscale_data then scale_data(reuse) restores preconditioner state and data -- every field, including the strict
   lower triangle of P and the full box-scaling vectors *)
Theorem C15_unscale_scale_id :
  forall (K : Consts) (sq : bool) (pc : Precond) (d : Data) (sc : bool) (it : Z),
  wf_data d -> wf_pc pc d -> pc_inverse pc -> pc_nlb pc = d_nlb d -> pc_nub pc = d_nub d ->
  exists d0, ruiz_unscale_data pc d = Ok d0 /\ wf_data d0 /\
             ruiz_scale_data K sq pc d0 true sc it = Ok (pc, d).
Proof. exact unscale_scale_id. Qed.
Print Assumptions C15_unscale_scale_id.

(* T2, other direction: scale_data(reuse) on any well-formed data (any bound pattern) then unscale_data *)
Theorem C15_scale_unscale_id :
  forall (K : Consts) (sq : bool) (pc : Precond) (d : Data) (sc : bool) (it : Z),
  wf_data d -> wf_pc pc d -> pc_inverse pc ->
  exists d', ruiz_scale_data K sq pc d true sc it = Ok (pc <| pc_nlb := d_nlb d |> <| pc_nub := d_nub d |>, d') /\
             wf_data d' /\
             ruiz_unscale_data (pc <| pc_nlb := d_nlb d |> <| pc_nub := d_nub d |>) d' = Ok d.
Proof. exact scale_unscale_id. Qed.
Print Assumptions C15_scale_unscale_id.

(* T3: freshly scaled data = original data transformed by the scalings the preconditioner reports *)
Theorem C15_scaled_data_is_transform :
  forall (K : Consts) (sq : bool), sane_consts K ->
  forall (pc0 : Precond) (d0 : Data) (sc : bool) (it : Z) (pc' : Precond) (d' : Data),
  wf_data d0 -> dims_agree pc0 d0 ->
  ruiz_scale_data K sq pc0 d0 false sc it = Ok (pc', d') ->
  is_transform (pc_c pc') (pc_delta pc') (pc_delta_lb pc') (pc_delta_ub pc') d0 d' /\
  bounds_transform (pc_delta pc') (pc_delta_lb pc') (pc_delta_ub pc') d0 d'.
Proof. exact scaled_data_is_transform. Qed.
Print Assumptions C15_scaled_data_is_transform.

(* T3 for the reuse branch *)
Theorem C15_scale_reuse_is_transform :
  forall (K : Consts) (sq : bool) (pc : Precond) (d : Data) (sc : bool) (it : Z) (pc' : Precond) (d' : Data),
  wf_data d -> wf_pc pc d ->
  ruiz_scale_data K sq pc d true sc it = Ok (pc', d') ->
  is_transform (pc_c pc') (pc_delta pc') (pc_delta_lb pc') (pc_delta_ub pc') d d' /\
  bounds_transform (pc_delta pc') (pc_delta_lb pc') (pc_delta_ub pc') d d'.
Proof. exact scale_reuse_is_transform. Qed.
Print Assumptions C15_scale_reuse_is_transform.

(* T5: the invariant survives any history of re-scalings in which the set of finite bounds changes *)
Theorem C15_history_preserves_inverse :
  forall (K : Consts), sane_consts K ->
  forall pc : Precond, pc_reach K pc -> pc_inverse pc /\ wf_pc_len pc.
Proof. exact history_preserves_inverse. Qed.
Print Assumptions C15_history_preserves_inverse.

Theorem C15_history_pairs_inverse :
  forall (K : Consts) (pc : Precond), sane_consts K -> pc_reach K pc -> all_pairs_inverse pc.
Proof. exact history_pairs_inverse. Qed.
Print Assumptions C15_history_pairs_inverse.

(* T5 at the level of the data: one (unscale; replace the data / bound pattern by anything well-formed; scale) step *)
Theorem C15_rescale_step :
  forall (K : Consts) (pc : Precond) (d : Data),
  sane_consts K ->
  wf_data d -> wf_pc pc d -> pc_inverse pc -> pc_nlb pc = d_nlb d -> pc_nub pc = d_nub d ->
  exists d0, ruiz_unscale_data pc d = Ok d0 /\ wf_data d0 /\
   (forall sq sc it, ruiz_scale_data K sq pc d0 true sc it = Ok (pc, d)) /\
   forall d1 sq reuse sc it, wf_data d1 -> dims_agree pc d1 ->
     (reuse = true \/ sc = false \/ (1 <= d_n d1)%nat) ->
     exists pc' d', ruiz_scale_data K sq pc d1 reuse sc it = Ok (pc', d') /\
       pc_inverse pc' /\ wf_data d' /\ wf_pc pc' d' /\ pc_nlb pc' = d_nlb d' /\ pc_nub pc' = d_nub d' /\
       is_transform (pc_c pc') (pc_delta pc') (pc_delta_lb pc') (pc_delta_ub pc') d1 d' /\
       bounds_transform (pc_delta pc') (pc_delta_lb pc') (pc_delta_ub pc') d1 d'.
Proof. exact rescale_step. Qed.
Print Assumptions C15_rescale_step.

(* the sparse quirk only changes the number of iterations: for either value of the flag the result of a fresh scale_data
   is the DENSE iteration (ruiz_iter with flag false) applied exactly k <= max_it times to the initial state, followed by
   the common final part ruiz_finish (inversion of the accumulated scalings, scaling of the bounds) *)
Theorem C15_sparse_quirk_only_changes_iteration_count :
  forall (K : Consts) (sq : bool) (pc0 : Precond) (d : Data) (sc : bool) (it : Z) (pc' : Precond) (d' : Data),
  sane_consts K -> wf_data d -> dims_agree pc0 d ->
  ruiz_scale_data K sq pc0 d false sc it = Ok (pc', d') ->
  exists k st, (k <= Z.to_nat it)%nat /\
               ruiz_iterate K sc k (st_fresh false pc0 d) = Ok st /\ ruiz_finish st = Ok (pc', d').
Proof. exact sparse_quirk_only_changes_iteration_count. Qed.
Print Assumptions C15_sparse_quirk_only_changes_iteration_count.

(* init() satisfies the invariant *)
Theorem C15_init_inverse :
  forall (ident : bool) (d : Data), wf_data d ->
  pc_inverse (precond_init ident d) /\ wf_pc (precond_init ident d) d.
Proof. exact pc_inverse_init. Qed.
Print Assumptions C15_init_inverse.

(* IdentityPreconditioner: the data are untouched (the model only records n_lb / n_ub in the state) *)
Theorem C15_identity_precond_roundtrip :
  forall (K : Consts) (sq : bool) (pc : Precond) (d : Data) (reuse sc : bool) (it : Z),
  pc_ident pc = true ->
  scale_data K sq pc d reuse sc it = Ok (pc <| pc_nlb := d_nlb d |> <| pc_nub := d_nub d |>, d) /\ unscale_data pc d = Ok d.
Proof. exact identity_precond_roundtrip. Qed.
Print Assumptions C15_identity_precond_roundtrip.

(* ------------------------------------------------------------------ *)
(* non-vacuity: the hypotheses are satisfiable by concrete, non-trivial instances *)

(* the constants translated from the sources are sane *)
Example C15_ex_sane_consts : sane_consts consts.
Proof. repeat split; vm_compute; congruence. Qed.

(* n = 2, p = 1, m = 1; lower bound on x0, upper bound on x1; 7 is junk in the strict lower triangle of P *)
Definition C15_ex_d : Data :=
  mkData 2 1 1 [[qmk 64 1; qmk 7 1]; [qmk 1 1; qmk 1 16]] [[qmk 1 1; qmk 1 1]] [[qmk 1 1; qmk (-3) 1]]
         [qmk 1 1; qmk (-20) 1] [qmk 1 1] [qmk 5 1] [0%nat] [1%nat]
         [qmk 1 1; qmk 1 1] [qmk 1 1; qmk 1 1] [qmk 3 1] [qmk 100 1].

Example C15_ex_wf : wf_data C15_ex_d /\ dims_agree (precond_init false C15_ex_d) C15_ex_d.
Proof.
  split; [constructor|repeat split]; cbn; try reflexivity; try (split; [reflexivity|repeat constructor]);
    repeat split; auto with arith.
Qed.

(* three iterations with cost scaling: Ok, and the result is not the identity scaling
   (c = 1/20, delta = (1/2,1,1,1), delta_lb = (4,1)) *)
Example C15_ex_scale_nontrivial :
  match ruiz_scale_data consts false (precond_init false C15_ex_d) C15_ex_d false true 3 with
  | Ok (pc, d) => qeqb (pc_c pc) (qmk 1 20) && qeqb (nth 0 (pc_delta pc) 0) (qmk 1 2)
                  && qeqb (nth 0 (pc_delta_lb pc) 0) (qmk 4 1) && qeqb (mentry (d_P d) 0 0) (qmk 4 5)
                  && qeqb (mentry (d_P d) 1 0) (qmk 7 20)
  | Err _ => false
  end = true.
Proof. vm_compute. reflexivity. Qed.

(* the history that refuted the pre-fix model: setup with one finite lower bound and preconditioner_iter = 0,
   unscale_data, the bound pattern grows to two finite lower bounds, scale_data with reuse = true;
   on the current model the state is reachable, and scale_slack_lb / unscale_slack_lb round-trip on BOTH slots *)
Definition C15_ex_d2 (d : Data) : Data :=
  d <| d_lb_idx := [0%nat; 1%nat] |> <| d_lb_n := [qmk 3 1; qmk 4 1] |>.

Example C15_ex_growth_after_zero_iterations :
  match ruiz_scale_data consts false (precond_init false C15_ex_d) C15_ex_d false false 0 with
  | Ok (pc1, d1) =>
    match ruiz_unscale_data pc1 d1 with
    | Ok d1u =>
      match ruiz_scale_data consts false pc1 (C15_ex_d2 d1u) true false 0 with
      | Ok (pc2, d2) =>
          Nat.eqb (pc_nlb pc1) 1 && Nat.eqb (pc_nlb pc2) 2 &&
          match unscale_slack_lb pc2 (scale_slack_lb pc2 [qmk 5 1; qmk 7 1]) with
          | [a; b] => qeqb a (qmk 5 1) && qeqb b (qmk 7 1)
          | _ => false
          end
      | Err _ => false
      end
    | Err _ => false
    end
  | Err _ => false
  end = true.
Proof. vm_compute. reflexivity. Qed.

(* same history after a non-trivial equilibration (3 iterations, cost scaled: delta_lb = (4,1)) *)
Example C15_ex_growth_after_three_iterations :
  match ruiz_scale_data consts false (precond_init false C15_ex_d) C15_ex_d false true 3 with
  | Ok (pc1, d1) =>
    match ruiz_unscale_data pc1 d1 with
    | Ok d1u =>
      match ruiz_scale_data consts false pc1 (C15_ex_d2 d1u) true true 3 with
      | Ok (pc2, d2) =>
          Nat.eqb (pc_nlb pc2) 2 &&
          match unscale_slack_lb pc2 (scale_slack_lb pc2 [qmk 5 1; qmk 7 1]), scale_slack_lb pc2 [qmk 5 1; qmk 7 1] with
          | [a; b], [a'; b'] => qeqb a (qmk 5 1) && qeqb b (qmk 7 1) && qeqb a' (qmk 20 1) && qeqb b' (qmk 7 1)
          | _, _ => false
          end
      | Err _ => false
      end
    | Err _ => false
    end
  | Err _ => false
  end = true.
Proof. vm_compute. reflexivity. Qed.

(* a reachable, non-initial preconditioner state exists *)
Example C15_ex_reach :
  exists pc' d', ruiz_scale_data consts false (precond_init false C15_ex_d) C15_ex_d false true 3 = Ok (pc', d') /\
                 pc_reach consts pc'.
Proof.
  destruct (scale_fresh_ok consts false C15_ex_sane_consts (precond_init false C15_ex_d) C15_ex_d true 3%Z
              (proj1 C15_ex_wf) (proj2 C15_ex_wf) (or_intror (le_S _ _ (le_n _)))) as (pc' & d' & E).
  exists pc', d'. split; [exact E|].
  eapply reach_scale; [apply (reach_init consts false C15_ex_d), C15_ex_wf|apply C15_ex_wf|apply C15_ex_wf|exact E].
Qed.

(* the sparse quirk is observable: P = 2 I, c = (16,0), lower bound on x0, scale_cost = true, max_iter = 10.
   The dense guard stops after 1 iteration (c = 1/16, delta = (1,1)); with the quirk the guard reads the cost scratch
   (2,..) and the loop goes on (c = 1/17, delta = (1,4)) -- which is exactly the dense iteration applied twice. *)
Definition C15_ex_dq : Data :=
  mkData 2 0 0 [[qmk 2 1; qmk 0 1]; [qmk 0 1; qmk 2 1]] [] [] [qmk 16 1; qmk 0 1] [] [] [0%nat] []
         [qmk 1 1; qmk 1 1] [qmk 1 1; qmk 1 1] [qmk 3 1] [].

Example C15_ex_dq_wf : wf_data C15_ex_dq /\ dims_agree (precond_init false C15_ex_dq) C15_ex_dq.
Proof.
  split; [constructor|repeat split]; cbn; try reflexivity; try (split; [reflexivity|repeat constructor]);
    repeat split; auto with arith.
Qed.

Example C15_ex_sparse_quirk_differs :
  match ruiz_scale_data consts false (precond_init false C15_ex_dq) C15_ex_dq false true 10,
        ruiz_scale_data consts true (precond_init false C15_ex_dq) C15_ex_dq false true 10,
        (do st <- ruiz_iterate consts true 2 (st_fresh false (precond_init false C15_ex_dq) C15_ex_dq) ;; ruiz_finish st) with
  | Ok (pcd, _), Ok (pcs, ds), Ok (pc2, d2) =>
      qeqb (pc_c pcd) (qmk 1 16) && qeqb (nth 1 (pc_delta pcd) 0) (qmk 1 1) &&
      qeqb (pc_c pcs) (qmk 1 17) && qeqb (nth 1 (pc_delta pcs) 0) (qmk 4 1) &&
      qeqb (pc_c pc2) (pc_c pcs) && qeqb (nth 1 (pc_delta pc2) 0) (nth 1 (pc_delta pcs) 0) &&
      qeqb (mentry (d_P d2) 1 1) (mentry (d_P ds) 1 1)
  | _, _, _ => false
  end = true.
Proof. vm_compute. reflexivity. Qed.

(* the growth history with the sparse quirk switched on (setup with scale_cost, 3 iterations; then n_lb grows, reuse) *)
Example C15_ex_growth_sparse_quirk :
  match ruiz_scale_data consts true (precond_init false C15_ex_d) C15_ex_d false true 3 with
  | Ok (pc1, d1) =>
    match ruiz_unscale_data pc1 d1 with
    | Ok d1u =>
      match ruiz_scale_data consts true pc1 (C15_ex_d2 d1u) true true 3 with
      | Ok (pc2, d2) =>
          Nat.eqb (pc_nlb pc2) 2 &&
          match unscale_slack_lb pc2 (scale_slack_lb pc2 [qmk 5 1; qmk 7 1]) with
          | [a; b] => qeqb a (qmk 5 1) && qeqb b (qmk 7 1)
          | _ => false
          end
      | Err _ => false
      end
    | Err _ => false
    end
  | Err _ => false
  end = true.
Proof. vm_compute. reflexivity. Qed.
