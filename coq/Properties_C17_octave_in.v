(** C17, Octave struct -> Settings direction (copy_ov_struct_to_settings), in its own file: while finding F8
    (reg_finetune_primal_update_threshold read from "check_duality_gap") is present in
    interfaces/octave/piqp_oct.cpp this file does not compile, and only this file. *)
From Coq Require Import String List ZArith.
From PIQP Require Import TablesDef TablesCheck TablesCheckProofs.
From PIQP.gen Require Import Tables.
Import ListNotations.
Open Scope string_scope.

(** every core Settings field is assigned exactly once in copy_ov_struct_to_settings, from the struct field of
    the same name, with the accessor matching its type (double_value / int_value / bool_value) *)
Theorem c17_octave_settings_in :
  WiredDiag (names (core_settings gen_tables)) (oct_settings_in gen_tables) /\
  ConvAllowed oct_in_conv (core_settings gen_tables) (oct_settings_in gen_tables).
Proof. apply chk_oct_settings_in_sound. vm_compute. reflexivity. Qed.
Print Assumptions c17_octave_settings_in.

(** T1 of C17: the whole checker accepts the regenerated tables *)
Theorem c17_tables_consistent : tables_consistent gen_tables = true.
Proof. vm_compute. reflexivity. Qed.
Print Assumptions c17_tables_consistent.

Example c17_octave_in_nonempty :
  length (oct_settings_in gen_tables) = length (core_settings gen_tables) /\ oct_settings_in gen_tables <> [].
Proof. vm_compute. split; [reflexivity | discriminate]. Qed.
