(* KKTSparseAllProofs.v -- C13 / T1b, T2 for the sparse KKT_ALL_ELIMINATED back end (model KKTSparseAll.v), identity ordering. *)
From PIQP Require Import Base CSC C14LemmasProofs CSCProofs TransposeProofs LinAlg KKTProofs KKTSparseFull KKTSparseFullProofs KKTSparseAll.
Local Open Scope nat_scope.

(* ================================================================ strictly increasing lists; filter of a range *)
Definition inc (l : list nat) : Prop := forall a b, a < b -> b < length l -> nth a l 0 < nth b l 0.

Lemma inc_cons x l : (forall y, In y l -> x < y) -> inc l -> inc (x :: l).
Proof.
  intros Hx Hl a b Hab Hb. destruct b as [|b]; [lia|]. cbn [nth]. cbn [length] in Hb.
  destruct a as [|a]; cbn [nth].
  - apply Hx. apply nth_In. lia.
  - apply Hl; lia.
Qed.
Lemma inc_filter_seq f m : forall lo, inc (filter f (seq lo m)).
Proof.
  induction m; intros lo; cbn [seq filter]; [intros a b; cbn; lia|].
  destruct (f lo); [|apply IHm]. apply inc_cons; [|apply IHm].
  intros y Hy. apply filter_In in Hy as [Hy _]. apply in_seq in Hy. lia.
Qed.
Lemma inc_inj l a b : inc l -> a < length l -> b < length l -> nth a l 0 = nth b l 0 -> a = b.
Proof.
  intros H Ha Hb E. destruct (Nat.lt_trichotomy a b) as [L|[Eq|L]]; auto.
  - specialize (H a b L Hb). lia.
  - specialize (H b a L Ha). lia.
Qed.
Lemma inc_last l j : inc l -> In j l -> (forall y, In y l -> y <= j) -> nth (length l - 1) l 0 = j /\ 0 < length l.
Proof.
  intros H Hj Hle. apply (In_nth _ _ 0) in Hj as (a & Ha & Ea). split; [|lia].
  destruct (Nat.eq_dec a (length l - 1)) as [->|Ne]; auto.
  assert (nth a l 0 < nth (length l - 1) l 0) by (apply H; lia).
  assert (nth (length l - 1) l 0 <= j) by (apply Hle, nth_In; lia). lia.
Qed.
Lemma memb_In i l : memb i l = true <-> In i l.
Proof.
  unfold memb. rewrite existsb_exists. split.
  - intros (x & Hx & E). apply Nat.eqb_eq in E. now subst.
  - intros H. exists i. split; auto. apply Nat.eqb_refl.
Qed.

(* ================================================================ compressed storage built from column lists *)
Section OfCols.
Variables (n : nat) (cols : nat -> list nat) (val : nat -> nat -> F).
Fixpoint coff (j : nat) : nat := match j with O => 0 | S j' => coff j' + length (cols j') end.
Let M := csc_of_cols n cols val.

Lemma cumsum_spec acc l : length (cumsum acc l) = S (length l) /\
  forall j, j <= length l -> nth j (cumsum acc l) 0 = acc + fold_right Nat.add 0 (firstn j l).
Proof.
  revert acc. induction l as [|a l IH]; intros acc; cbn [cumsum length].
  - split; auto. intros j Hj. replace j with 0 by lia. cbn. lia.
  - destruct (IH (acc + a)) as [L H]. split; [cbn; lia|].
    intros [|j] Hj; cbn [nth firstn fold_right]; [lia|]. rewrite H by lia. lia.
Qed.
Lemma firstn_S_nth {A} (l : list A) j d0 : j < length l -> firstn (S j) l = firstn j l ++ [nth j l d0].
Proof.
  revert j. induction l as [|a l IH]; intros j Hj; [cbn in Hj; lia|].
  destruct j; [reflexivity|]. cbn [firstn nth app]. f_equal. apply IH. cbn in Hj. lia.
Qed.
Lemma fold_add_app l1 l2 : fold_right Nat.add 0 (l1 ++ l2) = fold_right Nat.add 0 l1 + fold_right Nat.add 0 l2.
Proof. induction l1; cbn; lia. Qed.
Lemma coff_firstn j : j <= n -> fold_right Nat.add 0 (firstn j (map (fun j => length (cols j)) (seq 0 n))) = coff j.
Proof.
  induction j; intros Hj; [reflexivity|].
  rewrite (firstn_S_nth _ j 0) by (rewrite map_length, seq_length; lia).
  rewrite fold_add_app, IHj by lia. cbn [coff fold_right].
  rewrite (nth_indep _ 0 ((fun j => length (cols j)) 0)) by (rewrite map_length, seq_length; lia).
  rewrite (map_nth (fun j => length (cols j))). rewrite seq_nth by lia. cbn. lia.
Qed.

Lemma ofcols_cp j : j <= n -> cp M j = coff j.
Proof.
  intros Hj. unfold cp, M, csc_of_cols. cbn [colptr].
  destruct (cumsum_spec 0 (map (fun j => length (cols j)) (seq 0 n))) as [_ H].
  rewrite H by (rewrite map_length, seq_length; lia). now rewrite coff_firstn.
Qed.
Lemma ofcols_cp_len : length (colptr M) = S n.
Proof.
  unfold M, csc_of_cols. cbn [colptr]. destruct (cumsum_spec 0 (map (fun j => length (cols j)) (seq 0 n))) as [L _].
  now rewrite L, map_length, seq_length.
Qed.
Lemma coff_S j : coff (S j) = coff j + length (cols j). Proof. reflexivity. Qed.

Lemma coff_mono a b : a <= b -> coff a <= coff b.
Proof. induction 1; auto. cbn [coff]. lia. Qed.

Lemma concat_off {A} (g : nat -> list A) (d0 : A) m : forall lo j i, j < m -> i < length (g (lo + j)) ->
  (forall j', j' < m -> length (g (lo + j')) = length (cols (lo + j'))) ->
  nth (coff (lo + j) - coff lo + i) (concat (map g (seq lo m))) d0 = nth i (g (lo + j)) d0.
Proof.
  induction m; intros lo j i Hj Hi HL; [lia|]. cbn [seq map concat].
  destruct j as [|j].
  - rewrite Nat.add_0_r in *. replace (coff lo - coff lo + i) with i by lia. now rewrite app_nth1.
  - assert (L0 : length (g lo) = length (cols lo)) by (specialize (HL 0 ltac:(lia)); now rewrite Nat.add_0_r in HL).
    assert (Hmono : coff (S lo) <= coff (S lo + j)) by (apply coff_mono; lia).
    rewrite app_nth2 by (rewrite L0; replace (lo + S j) with (S lo + j) by lia; rewrite coff_S in Hmono; lia).
    replace (lo + S j) with (S lo + j) in * by lia.
    replace (coff (S lo + j) - coff lo + i - length (g lo)) with (coff (S lo + j) - coff (S lo) + i) by (rewrite coff_S in *; lia).
    apply IHm; auto; try lia. intros j' Hj'. specialize (HL (S j') ltac:(lia)). now replace (lo + S j') with (S lo + j') in HL by lia.
Qed.

Lemma ofcols_row j i : j < n -> i < length (cols j) -> nth (coff j + i) (rowind M) 0 = nth i (cols j) 0.
Proof.
  intros Hj Hi. unfold M, csc_of_cols. cbn [rowind].
  pose proof (concat_off cols 0 n 0 j i Hj Hi (fun _ _ => eq_refl)) as H. cbn [Nat.add coff] in H. now rewrite Nat.sub_0_r in H.
Qed.
Lemma ofcols_val j i : j < n -> i < length (cols j) -> nth (coff j + i) (vals M) 0%Qc = val (nth i (cols j) 0) j.
Proof.
  intros Hj Hi. unfold M, csc_of_cols. cbn [vals].
  pose proof (concat_off (fun j => map (fun i => val i j) (cols j)) 0%Qc n 0 j i Hj) as H. cbn [Nat.add coff] in H. rewrite Nat.sub_0_r in H.
  rewrite H by (rewrite ?map_length; auto; intros; now rewrite map_length).
  rewrite (nth_indep _ 0%Qc (val 0 j)) by (now rewrite map_length). now rewrite (map_nth (fun i => val i j)).
Qed.
Lemma concat_len {A} (g : nat -> list A) m : forall lo, (forall j', j' < m -> length (g (lo + j')) = length (cols (lo + j'))) ->
  length (concat (map g (seq lo m))) = coff (lo + m) - coff lo.
Proof.
  induction m; intros lo HL; cbn [seq map concat]; [rewrite Nat.add_0_r; cbn; lia|].
  rewrite app_length, IHm.
  - specialize (HL 0 ltac:(lia)). rewrite Nat.add_0_r in HL. rewrite HL. replace (lo + S m) with (S lo + m) by lia.
    assert (coff (S lo) <= coff (S lo + m)) by (apply coff_mono; lia).
    rewrite coff_S in *. lia.
  - intros j' Hj'. specialize (HL (S j') ltac:(lia)). now replace (lo + S j') with (S lo + j') in HL by lia.
Qed.
Lemma ofcols_nnz : length (rowind M) = coff n /\ length (vals M) = coff n.
Proof.
  unfold M, csc_of_cols. cbn [rowind vals]. split.
  - rewrite (concat_len cols n 0) by auto. cbn. lia.
  - rewrite (concat_len (fun j => map (fun i => val i j) (cols j)) n 0) by (intros; now rewrite map_length). cbn. lia.
Qed.
End OfCols.

(* ================================================================ columns of a compressed matrix *)
Lemma nth_skipn' {A} (l : list A) lo i d0 : nth i (skipn lo l) d0 = nth (lo + i) l d0.
Proof. revert l. induction lo; intros l; [reflexivity|]. destruct l; [destruct i; reflexivity|]. cbn [skipn Nat.add nth]. apply IHlo. Qed.

Section ColRows.
Context {V : Type}.
Variable M : csc V.
Hypothesis Hwf : wf_csc M = true.

Lemma col_rows_len j : j < ncols M -> length (col_rows M j) = clen M j.
Proof.
  intros Hj. unfold col_rows. cbv zeta. fold (cp M j) (cp M (S j)). fold (clen M j).
  rewrite firstn_length, skipn_length. pose proof (cp_le_nnz M Hwf (S j) ltac:(lia)). pose proof (cp_S M Hwf j Hj). unfold nnz in *. lia.
Qed.
Lemma col_rows_nth j i : i < clen M j -> nth i (col_rows M j) 0 = nth (cp M j + i) (rowind M) 0.
Proof.
  intros Hi. unfold col_rows. cbv zeta. fold (cp M j) (cp M (S j)). fold (clen M j).
  rewrite (nth_head (clen M j)) by auto. apply nth_skipn'.
Qed.
Lemma col_rows_In j r : j < ncols M -> In r (col_rows M j) <-> exists i, i < clen M j /\ nth (cp M j + i) (rowind M) 0 = r.
Proof.
  intros Hj. split.
  - intros H. apply (In_nth _ _ 0) in H as (i & Hi & E). rewrite col_rows_len in Hi by auto. exists i. split; auto. now rewrite <- col_rows_nth.
  - intros (i & Hi & <-). rewrite <- col_rows_nth by auto. apply nth_In. now rewrite col_rows_len.
Qed.
End ColRows.

Lemma qsum_delta (g : nat -> F) n i0 : i0 < n -> (forall i, i < n -> i <> i0 -> g i = 0%Qc) -> qsum (map g (seq 0 n)) = g i0.
Proof.
  induction n; intros Hi H; [lia|]. rewrite qsum_map_seq_S. cbn [Nat.add].
  destruct (Nat.eq_dec i0 n) as [->|Ne].
  - rewrite qsum_map_zero; [fring|]. intros p Hp. apply in_seq in Hp. apply H; lia.
  - rewrite IHn by (try lia; intros; apply H; lia). rewrite (H n) by lia. fring.
Qed.

(* entries of a column with pairwise different row indices *)
Lemma csc_get_at (A : csc F) r j i0 : i0 < clen A j -> nth (cp A j + i0) (rowind A) 0 = r ->
  (forall i, i < clen A j -> i <> i0 -> nth (cp A j + i) (rowind A) 0 <> r) ->
  csc_get A r j = nth (cp A j + i0) (vals A) 0%Qc.
Proof.
  intros Hi Er Hu. rewrite csc_get_local. rewrite (qsum_delta _ (clen A j) i0 Hi).
  - rewrite Er, Nat.eqb_refl. reflexivity.
  - intros i Hi' Ne. destruct (Nat.eqb_spec (nth (cp A j + i) (rowind A) 0) r) as [E|]; [|reflexivity]. exfalso. now apply (Hu i).
Qed.

(* a matrix given by strictly increasing columns *)
Section OfColsInc.
Variables (n : nat) (cols : nat -> list nat) (val : nat -> nat -> F).
Hypothesis Hinc : forall j, j < n -> inc (cols j).
Hypothesis Hrow : forall j r, j < n -> In r (cols j) -> r < n.
Let M := csc_of_cols n cols val.
Local Notation off := (coff cols).

Lemma oc_cp j : j <= n -> cp M j = off j. Proof. apply ofcols_cp. Qed.
Lemma oc_clen j : j < n -> clen M j = length (cols j).
Proof. intros Hj. unfold clen. rewrite !oc_cp by lia. cbn [coff]. lia. Qed.

Lemma oc_wf : wf_csc M = true.
Proof.
  unfold wf_csc. pose proof (ofcols_cp_len n cols val) as L. pose proof (ofcols_nnz n cols val) as [L1 L2]. fold M in L, L1, L2.
  assert (En : ncols M = n) by reflexivity. assert (Er : nrows M = n) by reflexivity. rewrite En, Er.
  rewrite !andb_true_iff. repeat split.
  - now apply Nat.eqb_eq.
  - apply Nat.eqb_eq. rewrite (nth_indep _ 1 0) by lia. apply (oc_cp 0). lia.
  - apply nondecb_of_steps. intros i Hi. rewrite L in Hi. fold (cp M i) (cp M (S i)). rewrite !oc_cp by lia. apply coff_mono. lia.
  - apply Nat.eqb_eq. fold (cp M n). rewrite oc_cp by lia. now rewrite L1.
  - apply Nat.eqb_eq. now rewrite L1, L2.
  - apply forallb_forall. intros r Hr. apply (In_nth _ _ 0) in Hr as (q & Hq & <-). rewrite L1 in Hq.
    destruct (off_decomp off (fun j => length (cols j)) n (fun c _ => eq_refl) q ltac:(cbn; lia)) as (j & i & Hj & Hi & ->).
    unfold M. rewrite ofcols_row by auto. apply Nat.ltb_lt. apply (Hrow j); auto. now apply nth_In.
Qed.

Lemma oc_col_rows j : j < n -> col_rows M j = cols j.
Proof.
  intros Hj. apply (nth_ext _ _ 0 0).
  - rewrite (col_rows_len M oc_wf) by auto. now apply oc_clen.
  - intros i Hi. rewrite (col_rows_len M oc_wf) in Hi by auto. rewrite (col_rows_nth M) by auto.
    rewrite oc_cp by lia. rewrite oc_clen in Hi by auto. unfold M. now apply ofcols_row.
Qed.

(* the position of row r in column j *)
Lemma oc_get_in j i : j < n -> i < length (cols j) -> csc_get M (nth i (cols j) 0) j = val (nth i (cols j) 0) j.
Proof.
  intros Hj Hi. rewrite (csc_get_at M _ j i).
  - rewrite oc_cp by lia. unfold M. now apply ofcols_val.
  - now rewrite oc_clen.
  - rewrite oc_cp by lia. unfold M. now apply ofcols_row.
  - intros i' Hi' Ne E. rewrite oc_clen in Hi' by auto. rewrite oc_cp in E by lia. unfold M in E. rewrite ofcols_row in E by auto.
    apply inc_inj in E; auto.
Qed.
Lemma oc_get_out j r : j < n -> ~ In r (cols j) -> csc_get M r j = 0%Qc.
Proof.
  intros Hj Hn. apply csc_get_zero. intros i Hi E. rewrite oc_clen in Hi by auto. rewrite oc_cp in E by lia.
  unfold M in E. rewrite ofcols_row in E by auto. apply Hn. rewrite <- E. now apply nth_In.
Qed.
End OfColsInc.

(* ================================================================ the merge walk of create_kkt_matrix *)
Lemma advance_ok idx pend i : forall fuel pk, pk <= pend -> pend <= length idx -> pend - pk < fuel ->
  exists pk', advance fuel idx pk pend i = Ok pk' /\ pk <= pk' <= pend /\
    (forall u, pk <= u < pk' -> nth u idx 0 < i) /\ (pk' < pend -> i <= nth pk' idx 0).
Proof.
  induction fuel; intros pk H1 H2 H3; [lia|]. cbn [advance].
  destruct (Nat.eqb_spec pk pend) as [->|Ne].
  - exists pend. split; auto. split; [lia|]. split; intros; lia.
  - rewrite (get_nth idx pk 0) by lia. cbn [bind]. destruct (Nat.ltb_spec (nth pk idx 0) i) as [Lt|Ge].
    + destruct (IHfuel (S pk)) as (pk' & E & B & Hlt & Hge); try lia. exists pk'. split; auto. split; [lia|]. split; auto.
      intros u Hu. destruct (Nat.eq_dec u pk) as [->|]; auto. apply Hlt. lia.
    + exists pk. split; auto. split; [lia|]. split; [intros; lia|auto].
Qed.

Section Walk.
Variables (idx : list nat) (lo pend : nat) (kr : list nat) (koffj Lm : nat) (map0 : list nat).
Hypothesis Hlo : lo <= pend.
Hypothesis Hpend : pend <= length idx.
Hypothesis HLm : pend <= Lm.
Hypothesis Hkr : inc kr.
Hypothesis Hsrc : forall u v, lo <= u -> u < v -> v < pend -> nth u idx 0 < nth v idx 0.
Hypothesis Hsub : forall u, lo <= u < pend -> In (nth u idx 0) kr.

Definition winv (t : nat) (pk : nat) (map : list nat) : Prop :=
  lo <= pk <= pend /\
  (t < length kr -> forall u, lo <= u < pk -> nth u idx 0 < nth t kr 0) /\
  (forall u t', lo <= u < pend -> t' < t -> nth u idx 0 = nth t' kr 0 -> nth u map 0 = koffj + t') /\
  length map = Lm /\ (forall u, u < lo \/ pend <= u -> nth u map 0 = nth u map0 0).

Lemma walk_step t pk map : t < length kr -> winv t pk map ->
  exists pk' map', advance (S (pend - pk)) idx pk pend (nth t kr 0) = Ok pk' /\
                   mark idx pk' pend (nth t kr 0) (koffj + t) map = Ok map' /\ winv (S t) pk' map'.
Proof.
  intros Ht (B & H1 & H2 & L & Hfr).
  destruct (advance_ok idx pend (nth t kr 0) (S (pend - pk)) pk) as (pk' & E & B' & Hlt & Hge); try lia.
  exists pk'. unfold mark.
  assert (Hbefore : forall u, lo <= u < pk' -> nth u idx 0 < nth t kr 0).
  { intros u Hu. destruct (Nat.lt_ge_cases u pk); [apply H1; auto; lia|apply Hlt; lia]. }
  assert (Hnext : S t < length kr -> forall u, lo <= u < pk' -> nth u idx 0 < nth (S t) kr 0).
  { intros HS u Hu. specialize (Hbefore u Hu). specialize (Hkr t (S t) ltac:(lia) HS). lia. }
  destruct (Nat.eqb_spec pk' pend) as [Epe|Npe].
  - exists map. split; auto. split; auto. split; [lia|]. split; [intros HS u Hu; apply Hnext; auto|]. split; [|auto].
    intros u t' Hu Ht' Eu. destruct (Nat.eq_dec t' t) as [->|]; [|apply H2; auto; lia].
    specialize (Hbefore u ltac:(lia)). lia.
  - rewrite (get_nth idx pk' 0) by lia. cbn [bind]. specialize (Hge ltac:(lia)).
    destruct (Nat.eqb_spec (nth pk' idx 0) (nth t kr 0)) as [Eq|Neq].
    + rewrite upd_lset by lia. eexists. split; auto. split; auto. split; [lia|]. split.
      * intros HS u Hu. apply Hnext; auto.
      * split; [|split; [now rewrite lset_length|]].
        -- intros u t' Hu Ht' Eu. rewrite nth_lset by lia. destruct (Nat.eqb_spec u pk') as [->|Nu].
           ++ rewrite Eq in Eu. apply inc_inj in Eu; auto; lia.
           ++ destruct (Nat.eq_dec t' t) as [->|]; [|apply H2; auto; lia]. exfalso.
              destruct (Nat.lt_ge_cases u pk'); [specialize (Hbefore u ltac:(lia)); lia|].
              specialize (Hsrc pk' u ltac:(lia) ltac:(lia) ltac:(lia)). lia.
        -- intros u Hu. rewrite nth_lset by lia. destruct (Nat.eqb_spec u pk'); [lia|]. now apply Hfr.
    + exists map. split; auto. split; auto. split; [lia|]. split; [intros HS u Hu; apply Hnext; auto|]. split; [|auto].
      intros u t' Hu Ht' Eu. destruct (Nat.eq_dec t' t) as [->|]; [|apply H2; auto; lia]. exfalso.
      destruct (Nat.lt_ge_cases u pk'); [specialize (Hbefore u ltac:(lia)); lia|].
      destruct (Nat.eq_dec u pk') as [->|]; [congruence|].
      specialize (Hsrc pk' u ltac:(lia) ltac:(lia) ltac:(lia)). lia.
Qed.

Lemma winv_init : length map0 = Lm -> winv 0 lo map0.
Proof. intros L. split; [lia|]. split; [intros; lia|]. split; [intros; lia|]. auto. Qed.

Lemma winv_final pk map : winv (length kr) pk map ->
  length map = Lm /\ (forall u, u < lo \/ pend <= u -> nth u map 0 = nth u map0 0) /\
  forall u, lo <= u < pend -> exists t', t' < length kr /\ nth t' kr 0 = nth u idx 0 /\ nth u map 0 = koffj + t'.
Proof.
  intros (_ & _ & H2 & L & Hfr). split; auto. split; auto. intros u Hu.
  destruct (In_nth _ _ 0 (Hsub u Hu)) as (t' & Ht' & E). exists t'. split; [exact Ht'|]. split; [exact E|]. apply H2; auto.
Qed.
End Walk.

(* a source of the sum: compressed, same number of columns, columns strictly increasing and contained in the columns of K *)
Definition src_ok (n : nat) (kcols : nat -> list nat) (S : csc F) : Prop :=
  wf_csc S = true /\ ncols S = n /\
  (forall j u v, j < n -> cp S j <= u -> u < v -> v < cp S (Datatypes.S j) -> nth u (rowind S) 0 < nth v (rowind S) 0) /\
  (forall j u, j < n -> cp S j <= u < cp S (Datatypes.S j) -> In (nth u (rowind S) 0) (kcols j)).
(* the map sends every stored entry of S to the position of its row index in the same column of K *)
Definition map_ok (n : nat) (kcols : nat -> list nat) (S : csc F) (map : list nat) : Prop :=
  length map = nnz S /\
  forall j u, j < n -> cp S j <= u < cp S (Datatypes.S j) ->
    exists t, t < length (kcols j) /\ nth t (kcols j) 0 = nth u (rowind S) 0 /\ nth u map 0 = coff kcols j + t.

Section Maps.
Variables (n : nat) (kcols : nat -> list nat) (kval : nat -> nat -> F).
Hypothesis Hinc : forall j, j < n -> inc (kcols j).
Hypothesis Hrow : forall j r, j < n -> In r (kcols j) -> r < n.
Let K := csc_of_cols n kcols kval.
Variables P A G : csc F.
Hypothesis HP : src_ok n kcols P.
Hypothesis HA : src_ok n kcols A.
Hypothesis HG : src_ok n kcols G.

Definition part_ok (S : csc F) (j : nat) (map : list nat) : Prop :=
  length map = nnz S /\
  forall j' u, j' < j -> cp S j' <= u < cp S (Datatypes.S j') ->
    exists t, t < length (kcols j') /\ nth t (kcols j') 0 = nth u (rowind S) 0 /\ nth u map 0 = coff kcols j' + t.

Lemma src_bounds S j : src_ok n kcols S -> j < n -> cp S j <= cp S (Datatypes.S j) /\ cp S (Datatypes.S j) <= length (rowind S).
Proof. intros (Hw & Hc & _) Hj. apply (wf_col_range S Hw j). lia. Qed.

Lemma part_ok_next S j map map' : src_ok n kcols S -> j < n -> part_ok S j map ->
  length map' = nnz S ->
  (forall u, u < cp S j \/ cp S (Datatypes.S j) <= u -> nth u map' 0 = nth u map 0) ->
  (forall u, cp S j <= u < cp S (Datatypes.S j) ->
     exists t, t < length (kcols j) /\ nth t (kcols j) 0 = nth u (rowind S) 0 /\ nth u map' 0 = coff kcols j + t) ->
  part_ok S (Datatypes.S j) map'.
Proof.
  intros HS Hj [L H] L' Hfr Hnew. split; auto. intros j' u Hj' Hu.
  destruct (Nat.eq_dec j' j) as [->|Ne]; [now apply Hnew|].
  rewrite Hfr; [apply H; auto; lia|]. left.
  destruct HS as (Hw & Hc & _).
  assert (cp S (Datatypes.S j') <= cp S j).
  { apply (off_mono (cp S) (clen S) (ncols S)); try lia. intros; now apply cp_S. }
  lia.
Qed.

Theorem compute_maps_ok p0 a0 g0 : length p0 = nnz P -> length a0 = nnz A -> length g0 = nnz G ->
  exists p2k a2k g2k, compute_maps K P A G (p0, a0, g0) = Ok (p2k, a2k, g2k) /\
    map_ok n kcols P p2k /\ map_ok n kcols A a2k /\ map_ok n kcols G g2k.
Proof.
  intros Lp La Lg. unfold compute_maps.
  assert (EnK : ncols K = n) by reflexivity. rewrite EnK.
  pose proof HP as (HwP & HcP & HsP & HuP). pose proof HA as (HwA & HcA & HsA & HuA). pose proof HG as (HwG & HcG & HsG & HuG).
  destruct (for_range_ind (fun j (st : list nat * list nat * list nat) =>
              let '(p2k, a2k, g2k) := st in part_ok P j p2k /\ part_ok A j a2k /\ part_ok G j g2k)
    0 n (fun j maps =>
      do pk <- get (colptr P) j ;; do ak <- get (colptr A) j ;; do gk <- get (colptr G) j ;;
      do pend <- get (colptr P) (S j) ;; do aend <- get (colptr A) (S j) ;; do gend <- get (colptr G) (S j) ;;
      do klo <- get (colptr K) j ;; do kkk <- get (colptr K) (S j) ;;
      do '(_, _, _, maps) <- for_range klo kkk (fun kk '(pk, ak, gk, (p2k, a2k, g2k)) =>
          do i <- get (rowind K) kk ;;
          do pk <- advance (S (pend - pk)) (rowind P) pk pend i ;;
          do ak <- advance (S (aend - ak)) (rowind A) ak aend i ;;
          do gk <- advance (S (gend - gk)) (rowind G) gk gend i ;;
          do p2k <- mark (rowind P) pk pend i kk p2k ;;
          do a2k <- mark (rowind A) ak aend i kk a2k ;;
          do g2k <- mark (rowind G) gk gend i kk g2k ;;
          Ok (pk, ak, gk, (p2k, a2k, g2k))) (pk, ak, gk, maps) ;;
      Ok maps) (p0, a0, g0)) as ([[p2k a2k] g2k] & E & H1 & H2 & H3); try lia.
  - repeat split; auto; intros; lia.
  - intros j [[p1 a1] g1] [_ Hj] (I1 & I2 & I3).
    rewrite (get_cp P HwP j), (get_cp A HwA j), (get_cp G HwG j) by lia. cbn [bind].
    rewrite (get_cp P HwP (S j)), (get_cp A HwA (S j)), (get_cp G HwG (S j)) by lia. cbn [bind].
    rewrite (get_nth (colptr K) j 0), (get_nth (colptr K) (S j) 0) by (unfold K; rewrite ofcols_cp_len; lia). cbn [bind].
    fold (cp K j) (cp K (S j)). unfold K. rewrite !ofcols_cp by lia. cbn [coff]. fold K.
    destruct (src_bounds P j HP Hj) as [BP1 BP2]. destruct (src_bounds A j HA Hj) as [BA1 BA2]. destruct (src_bounds G j HG Hj) as [BG1 BG2].
    pose proof I1 as [L1 _]. pose proof I2 as [L2 _]. pose proof I3 as [L3 _].
    set (WP := winv (rowind P) (cp P j) (cp P (S j)) (kcols j) (coff kcols j) (nnz P) p1).
    set (WA := winv (rowind A) (cp A j) (cp A (S j)) (kcols j) (coff kcols j) (nnz A) a1).
    set (WG := winv (rowind G) (cp G j) (cp G (S j)) (kcols j) (coff kcols j) (nnz G) g1).
    destruct (for_range_ind (fun kk (st : nat * nat * nat * (list nat * list nat * list nat)) =>
                let '(pk, ak, gk, (p2k, a2k, g2k)) := st in
                WP (kk - coff kcols j) pk p2k /\ WA (kk - coff kcols j) ak a2k /\ WG (kk - coff kcols j) gk g2k)
      (coff kcols j) (coff kcols j + length (kcols j)) (fun kk '(pk, ak, gk, (p2k, a2k, g2k)) =>
          do i <- get (rowind K) kk ;;
          do pk <- advance (S (cp P (S j) - pk)) (rowind P) pk (cp P (S j)) i ;;
          do ak <- advance (S (cp A (S j) - ak)) (rowind A) ak (cp A (S j)) i ;;
          do gk <- advance (S (cp G (S j) - gk)) (rowind G) gk (cp G (S j)) i ;;
          do p2k <- mark (rowind P) pk (cp P (S j)) i kk p2k ;;
          do a2k <- mark (rowind A) ak (cp A (S j)) i kk a2k ;;
          do g2k <- mark (rowind G) gk (cp G (S j)) i kk g2k ;;
          Ok (pk, ak, gk, (p2k, a2k, g2k))) (cp P j, cp A j, cp G j, (p1, a1, g1)))
      as ([[[pk ak] gk] [[p2 a2] g2]] & E' & W1 & W2 & W3); try lia.
    + rewrite Nat.sub_diag. unfold WP, WA, WG. split; [|split]; apply winv_init; auto; unfold nnz; lia.
    + intros kk [[[pk ak] gk] [[p2 a2] g2]] Hkk (W1 & W2 & W3).
      set (t := kk - coff kcols j) in *. assert (Ht : t < length (kcols j)) by (unfold t; lia).
      assert (Ekk : kk = coff kcols j + t) by (unfold t; lia).
      rewrite (get_nth (rowind K) kk 0).
      2:{ destruct (ofcols_nnz n kcols kval) as [Ln _]. fold K in Ln. rewrite Ln.
          assert (coff kcols (S j) <= coff kcols n) by (apply coff_mono; lia). cbn [coff] in H. lia. }
      cbn [bind]. replace (nth kk (rowind K) 0) with (nth t (kcols j) 0) by (rewrite Ekk; unfold K; symmetry; now apply ofcols_row).
      destruct (walk_step (rowind P) (cp P j) (cp P (S j)) (kcols j) (coff kcols j) (nnz P) p1 BP1 BP2 ltac:(unfold nnz; lia) (Hinc j Hj)
                 (fun u v H1 H2 H3 => HsP j u v Hj H1 H2 H3) t pk p2 Ht W1) as (pk' & p2' & EP1 & EP2 & WP').
      destruct (walk_step (rowind A) (cp A j) (cp A (S j)) (kcols j) (coff kcols j) (nnz A) a1 BA1 BA2 ltac:(unfold nnz; lia) (Hinc j Hj)
                 (fun u v H1 H2 H3 => HsA j u v Hj H1 H2 H3) t ak a2 Ht W2) as (ak' & a2' & EA1 & EA2 & WA').
      destruct (walk_step (rowind G) (cp G j) (cp G (S j)) (kcols j) (coff kcols j) (nnz G) g1 BG1 BG2 ltac:(unfold nnz; lia) (Hinc j Hj)
                 (fun u v H1 H2 H3 => HsG j u v Hj H1 H2 H3) t gk g2 Ht W3) as (gk' & g2' & EG1 & EG2 & WG').
      rewrite EP1, EA1, EG1. cbn [bind]. rewrite <- Ekk in EP2, EA2, EG2. rewrite EP2, EA2, EG2. cbn [bind].
      eexists; split; [reflexivity|]. replace (S kk - coff kcols j) with (S t) by (unfold t; lia). auto.
    + rewrite E'. cbn [bind]. eexists; split; [reflexivity|].
      replace (coff kcols j + length (kcols j) - coff kcols j) with (length (kcols j)) in * by lia.
      destruct (winv_final _ _ _ _ _ _ _ (fun u H => HuP j u Hj H) _ _ W1) as (F1 & F2 & F3).
      destruct (winv_final _ _ _ _ _ _ _ (fun u H => HuA j u Hj H) _ _ W2) as (F4 & F5 & F6).
      destruct (winv_final _ _ _ _ _ _ _ (fun u H => HuG j u Hj H) _ _ W3) as (F7 & F8 & F9).
      split; [|split]; eapply part_ok_next; eauto.
  - exists p2k, a2k, g2k. split; [exact E|]. split; [exact H1|]. split; [exact H2|exact H3].
Qed.
End Maps.

(* ================================================================ the scatter product (update_AT_A / update_GT_W_delta_inv_G) *)
Lemma sum_n_sum n f : sum_n n f = sum n f.
Proof. induction n; [reflexivity|]. cbn [sum_n sum]. now rewrite IHn. Qed.

(* a sum over the stored entries of a column as a sum over all rows *)
Lemma col_sum_rows (X : csc F) (f : nat -> F) r j : wf_csc X = true -> nrows X = r -> j < ncols X ->
  qsum (map (fun q => (f (nth q (rowind X) 0%nat) * nth q (vals X) 0)%Qc) (seq (cp X j) (clen X j))) =
  sum_n r (fun l => (f l * csc_get X l j)%Qc).
Proof.
  intros Hw Hr Hj. unfold csc_get. cbv zeta. fold (cp X j) (cp X (S j)). fold (clen X j).
  rewrite (sum_n_ext r _ (fun l => qsum (map (fun q => (if (nth q (rowind X) 0 =? l)%nat then f l * nth q (vals X) 0 else 0)%Qc) (seq (cp X j) (clen X j))))).
  2:{ intros l Hl. rewrite (Qcmult_comm (f l)). rewrite <- qsum_map_scale_r.
      apply qsum_map_ext. intros q Hq. destruct (_ =? l); fring. }
  rewrite <- (qsum_sum_n_swap (fun q l => (if (nth q (rowind X) 0 =? l)%nat then f l * nth q (vals X) 0 else 0)%Qc)).
  apply qsum_map_ext. intros q Hq. apply in_seq in Hq.
  assert (Hq' : q < nnz X) by (pose proof (cp_pos_lt X Hw j (q - cp X j) Hj ltac:(lia)); replace (cp X j + (q - cp X j)) with q in H by lia; exact H).
  assert (Hrow : nth q (rowind X) 0 < r) by (rewrite <- Hr; apply wf_rows; auto).
  rewrite (sum_n_delta r (nth q (rowind X) 0%nat)); auto.
  - now rewrite Nat.eqb_refl.
  - intros l Hl Ne. destruct (Nat.eqb_spec (nth q (rowind X) 0%nat) l); [congruence|reflexivity].
Qed.

Definition wt_ok (r : nat) (wt : option (Vec * Vec * F)) : Prop :=
  match wt with
  | None => True
  | Some (s, zinv, delta) => r <= length s /\ r <= length zinv /\ forall l, l < r -> (nth l s 0 * nth l zinv 0 + delta)%Qc <> 0%Qc
  end.
Definition wt_val (wt : option (Vec * Vec * F)) (l : nat) : F :=
  match wt with None => 1%Qc | Some (s, zinv, delta) => (1 / (nth l s 0 * nth l zinv 0 + delta))%Qc end.

Section Scatter.
Variables (X XT C : csc F) (n r : nat) (wt : option (Vec * Vec * F)).
Hypothesis HwX : wf_csc X = true.
Hypothesis HwT : wf_csc XT = true.
Hypothesis HwC : wf_csc C = true.
Hypothesis HnX : ncols X = n.  Hypothesis HrX : nrows X = r.
Hypothesis HnT : ncols XT = r. Hypothesis HrT : nrows XT = n.
Hypothesis HnC : ncols C = n.  Hypothesis HrC : nrows C = n.
Hypothesis Hwt : wt_ok r wt.
(* every index the accumulation touches is a stored row of the same column of C *)
Hypothesis Htouch : forall j q e, j < n -> cp X j <= q < cp X (S j) ->
  cp XT (nth q (rowind X) 0%nat) <= e < cp XT (S (nth q (rowind X) 0%nat)) -> nth e (rowind XT) 0 <= j ->
  exists qc, cp C j <= qc < cp C (S j) /\ nth qc (rowind C) 0 = nth e (rowind XT) 0.
Hypothesis HCdist : forall j q q', j < n -> cp C j <= q < cp C (S j) -> cp C j <= q' < cp C (S j) ->
  nth q (rowind C) 0 = nth q' (rowind C) 0 -> q = q'.

Definition prodval (i j : nat) : F :=
  sum_n r (fun l => (wt_val wt l * csc_get XT i l * csc_get X l j)%Qc).

Lemma term_ok k xv xtv : k < r ->
  match wt with
  | None => Ok (xv * xtv)%Qc
  | Some (s, zinv, delta) => do sk <- get s k ;; do zk <- get zinv k ;; do w <- qdiv 1%Qc (sk * zk + delta)%Qc ;; Ok (w * xv * xtv)%Qc
  end = Ok (wt_val wt k * xtv * xv)%Qc.
Proof.
  intros Hk. unfold wt_val. destruct wt as [[[s zinv] delta]|].
  - destruct Hwt as (L1 & L2 & Hnz). rewrite (get_nth s k 0%Qc), (get_nth zinv k 0%Qc) by lia. cbn [bind].
    rewrite qdiv_nz by auto. cbn [bind]. f_equal. fring.
  - f_equal. fring.
Qed.

Theorem scatter_product_ok (tmp : Vec) : n <= length tmp -> (forall i, nth i tmp 0%Qc = 0%Qc) ->
  exists cx, scatter_product X XT C wt tmp = Ok (mkcsc (nrows C) (ncols C) (colptr C) (rowind C) cx, tmp) /\
    length cx = nnz C /\
    forall j q, j < n -> cp C j <= q < cp C (S j) -> nth q (rowind C) 0 <= j -> nth q cx 0%Qc = prodval (nth q (rowind C) 0%nat) j.
Proof.
  intros Lt Hz. unfold scatter_product. rewrite HnX.
  set (Itmp := fun (t : Vec) => length t = length tmp /\ forall i, nth i t 0%Qc = 0%Qc).
  destruct (for_range_ind (fun j (st : Vec * Vec) => length (fst st) = nnz C /\ snd st = tmp /\
      forall j' q, j' < j -> cp C j' <= q < cp C (S j') -> nth q (rowind C) 0 <= j' -> nth q (fst st) 0%Qc = prodval (nth q (rowind C) 0%nat) j')
    0 n (fun j '(cx, tmp) =>
      do lo <- get (colptr X) j ;; do hi <- get (colptr X) (S j) ;;
      do tmp <- for_range lo hi (fun q tmp =>
          do k <- get (rowind X) q ;; do xv <- get (vals X) q ;;
          do lo2 <- get (colptr XT) k ;; do hi2 <- get (colptr XT) (S k) ;;
          for_range lo2 hi2 (fun e tmp =>
            do i <- get (rowind XT) e ;;
            if (j <? i)%nat then Ok tmp else
            do xtv <- get (vals XT) e ;;
            do term <- match wt with
                       | None => Ok (xv * xtv)%Qc
                       | Some (s, zinv, delta) =>
                           do sk <- get s k ;; do zk <- get zinv k ;;
                           do w <- qdiv 1%Qc (sk * zk + delta)%Qc ;; Ok (w * xv * xtv)%Qc
                       end ;;
            do old <- get tmp i ;; upd tmp i (old + term)%Qc) tmp) tmp ;;
      do clo <- get (colptr C) j ;; do chi <- get (colptr C) (S j) ;;
      for_range clo chi (fun q '(cx, tmp) =>
        do i <- get (rowind C) q ;;
        do v <- get tmp i ;;
        do cx <- upd cx q v ;;
        do tmp <- upd tmp i 0%Qc ;;
        Ok (cx, tmp)) (cx, tmp)) (vals C, tmp)) as ([cx tmp'] & E & L & Et & Hv); try lia.
  - cbn [fst snd]. split; [apply (vals_len C HwC)|]. split; auto. intros; lia.
  - intros j [cx t0] [_ Hj] (Lcx & Et0 & Hprev). cbn [fst snd] in *. subst t0.
    rewrite (get_cp X HwX j), (get_cp X HwX (S j)) by lia. cbn [bind].
    assert (EXS : cp X (S j) = cp X j + clen X j) by (apply cp_S; auto; lia).
    (* accumulation over the entries of column j of X *)
    set (acc := fun (qq : nat) (i : nat) =>
           if (i <=? j)%nat then qsum (map (fun q => (wt_val wt (nth q (rowind X) 0%nat) * csc_get XT i (nth q (rowind X) 0%nat) * nth q (vals X) 0)%Qc)
                                     (seq (cp X j) (qq - cp X j))) else 0%Qc).
    destruct (for_range_ind (fun qq (t : Vec) => length t = length tmp /\ forall i, nth i t 0%Qc = acc qq i)
      (cp X j) (cp X (S j)) (fun q tmp =>
          do k <- get (rowind X) q ;; do xv <- get (vals X) q ;;
          do lo2 <- get (colptr XT) k ;; do hi2 <- get (colptr XT) (S k) ;;
          for_range lo2 hi2 (fun e tmp =>
            do i <- get (rowind XT) e ;;
            if (j <? i)%nat then Ok tmp else
            do xtv <- get (vals XT) e ;;
            do term <- match wt with
                       | None => Ok (xv * xtv)%Qc
                       | Some (s, zinv, delta) =>
                           do sk <- get s k ;; do zk <- get zinv k ;;
                           do w <- qdiv 1%Qc (sk * zk + delta)%Qc ;; Ok (w * xv * xtv)%Qc
                       end ;;
            do old <- get tmp i ;; upd tmp i (old + term)%Qc) tmp) tmp) as (t1 & E1 & L1 & H1); try lia.
    + split; auto. intros i. unfold acc. rewrite Nat.sub_diag. rewrite Hz. destruct (i <=? j); reflexivity.
    + intros q t [Hq1 Hq2] (Lt0 & Ht0).
      assert (Hqn : q < nnz X) by (pose proof (cp_pos_lt X HwX j (q - cp X j) ltac:(lia) ltac:(lia)); replace (cp X j + (q - cp X j)) with q in H by lia; exact H).
      assert (Hk : nth q (rowind X) 0 < r) by (rewrite <- HrX; apply wf_rows; auto).
      set (k := nth q (rowind X) 0%nat) in *. set (xv := nth q (vals X) 0%Qc).
      rewrite (get_nth (rowind X) q 0) by (unfold nnz in Hqn; auto). cbn [bind]. fold k.
      rewrite (get_nth (vals X) q 0%Qc) by (rewrite (vals_len X HwX); auto). cbn [bind]. fold xv.
      rewrite (get_cp XT HwT k), (get_cp XT HwT (S k)) by lia. cbn [bind].
      assert (ETS : cp XT (S k) = cp XT k + clen XT k) by (apply cp_S; auto; lia).
      destruct (for_range_ind (fun e (t' : Vec) => length t' = length tmp /\
          forall i, nth i t' 0%Qc = (nth i t 0 + (if (i <=? j)%nat then wt_val wt k * qsum (map (fun e' => if (nth e' (rowind XT) 0 =? i)%nat then nth e' (vals XT) 0%Qc else 0%Qc) (seq (cp XT k) (e - cp XT k))) * xv else 0))%Qc)
        (cp XT k) (cp XT (S k)) (fun e tmp =>
            do i <- get (rowind XT) e ;;
            if (j <? i)%nat then Ok tmp else
            do xtv <- get (vals XT) e ;;
            do term <- match wt with
                       | None => Ok (xv * xtv)%Qc
                       | Some (s, zinv, delta) =>
                           do sk <- get s k ;; do zk <- get zinv k ;;
                           do w <- qdiv 1%Qc (sk * zk + delta)%Qc ;; Ok (w * xv * xtv)%Qc
                       end ;;
            do old <- get tmp i ;; upd tmp i (old + term)%Qc) t) as (t2 & E2 & L2 & H2); try lia.
      * split; auto. intros i. rewrite Nat.sub_diag. cbn [seq map]. destruct (i <=? j); unfold qsum; cbn; fring.
      * intros e t' [He1 He2] (Lt' & Ht').
        assert (Hen : e < nnz XT) by (pose proof (cp_pos_lt XT HwT k (e - cp XT k) ltac:(lia) ltac:(lia)); replace (cp XT k + (e - cp XT k)) with e in H by lia; exact H).
        assert (Hi : nth e (rowind XT) 0 < n) by (rewrite <- HrT; apply wf_rows; auto).
        rewrite (get_nth (rowind XT) e 0) by (unfold nnz in Hen; auto). cbn [bind].
        replace (S e - cp XT k) with (S (e - cp XT k)) by lia.
        destruct (Nat.ltb_spec j (nth e (rowind XT) 0%nat)) as [Hgt|Hle].
        -- eexists; split; [reflexivity|]. split; auto. intros i. rewrite Ht'. f_equal.
           destruct (Nat.leb_spec i j) as [?Hy|?Hn]; [|reflexivity].
           rewrite qsum_map_seq_S. replace (cp XT k + (e - cp XT k)) with e by lia.
           destruct (Nat.eqb_spec (nth e (rowind XT) 0%nat) i) as [?Hy|?Hn]; [lia|]. fring.
        -- rewrite (get_nth (vals XT) e 0%Qc) by (rewrite (vals_len XT HwT); auto). cbn [bind].
           rewrite term_ok by auto. cbn [bind].
           rewrite (get_nth t' _ 0%Qc) by lia. cbn [bind]. rewrite upd_lset by lia.
           eexists; split; [reflexivity|]. split; [now rewrite lset_length|]. intros i. rewrite nth_lset by lia.
           rewrite qsum_map_seq_S. replace (cp XT k + (e - cp XT k)) with e by lia.
           destruct (Nat.eqb_spec i (nth e (rowind XT) 0%nat)) as [->|Ne].
           ++ rewrite Ht'. destruct (Nat.leb_spec (nth e (rowind XT) 0%nat) j) as [?Hy|?Hn]; [|lia]. rewrite Nat.eqb_refl. fring.
           ++ rewrite Ht'. f_equal. destruct (Nat.leb_spec i j) as [?Hy|?Hn]; [|reflexivity].
              destruct (Nat.eqb_spec (nth e (rowind XT) 0%nat) i) as [?Hy|?Hn]; [congruence|]. fring.
      * unfold Vec, F in *. rewrite E2. eexists; split; [reflexivity|]. split; auto. intros i. rewrite H2, Ht0. unfold acc.
        replace (S q - cp X j) with (S (q - cp X j)) by lia.
        destruct (Nat.leb_spec i j) as [?Hy|?Hn]; [|fring].
        rewrite qsum_map_seq_S. replace (cp X j + (q - cp X j)) with q by lia. fold k xv.
        replace (cp XT (S k) - cp XT k) with (clen XT k) by lia.
        unfold csc_get at 2. cbv zeta. fold (cp XT k) (cp XT (S k)). replace (cp XT (S k) - cp XT k) with (clen XT k) by lia. reflexivity.
    + unfold Vec, F in *. rewrite E1. cbn [bind].
      rewrite (get_cp C HwC j), (get_cp C HwC (S j)) by lia. cbn [bind].
      assert (ECS : cp C (S j) = cp C j + clen C j) by (apply cp_S; auto; lia).
      assert (Hacc : forall i, i <= j -> acc (cp X (S j)) i = prodval i j).
      { intros i Hi. unfold acc, prodval. destruct (Nat.leb_spec i j) as [?Hy|?Hn]; [|lia].
        replace (cp X (S j) - cp X j) with (clen X j) by lia.
        assert (Hjx : j < ncols X) by (rewrite HnX; exact Hj).
        exact (col_sum_rows X (fun l => (wt_val wt l * csc_get XT i l)%Qc) r j HwX HrX Hjx). }
      (* gather and reset *)
      destruct (for_range_ind (fun qq (st : Vec * Vec) => length (fst st) = nnz C /\ length (snd st) = length tmp /\
          (forall q, cp C j <= q < qq -> nth q (fst st) 0%Qc = acc (cp X (S j)) (nth q (rowind C) 0%nat)) /\
          (forall q, q < cp C j \/ qq <= q -> nth q (fst st) 0%Qc = nth q cx 0%Qc) /\
          (forall i, nth i (snd st) 0%Qc = if existsb (fun q => nth q (rowind C) 0 =? i) (seq (cp C j) (qq - cp C j)) then 0%Qc else nth i t1 0%Qc))
        (cp C j) (cp C (S j)) (fun q '(cx, tmp) =>
          do i <- get (rowind C) q ;;
          do v <- get tmp i ;;
          do cx <- upd cx q v ;;
          do tmp <- upd tmp i 0%Qc ;;
          Ok (cx, tmp)) (cx, t1)) as ([cx' t3] & E3 & L3 & L3' & G1 & G2 & G3); try lia.
      * cbn [fst snd]. rewrite Nat.sub_diag. cbn [seq existsb]. repeat split; auto. intros; lia.
      * intros q [cx0 t0] [Hq1 Hq2] (La & Lb & Ga & Gb & Gc). cbn [fst snd] in *.
        assert (Hqn : q < nnz C) by (pose proof (cp_pos_lt C HwC j (q - cp C j) ltac:(lia) ltac:(lia)); replace (cp C j + (q - cp C j)) with q in H by lia; exact H).
        assert (Hi : nth q (rowind C) 0 < n) by (rewrite <- HrC; apply wf_rows; auto).
        rewrite (get_nth (rowind C) q 0) by (unfold nnz in Hqn; auto). cbn [bind].
        rewrite (get_nth t0 _ 0%Qc) by lia. cbn [bind]. rewrite upd_lset by lia. cbn [bind]. rewrite upd_lset by lia. cbn [bind].
        eexists; split; [reflexivity|]. cbn [fst snd]. split; [now rewrite lset_length|]. split; [now rewrite lset_length|].
        assert (Hfresh : existsb (fun q0 => nth q0 (rowind C) 0 =? nth q (rowind C) 0%nat) (seq (cp C j) (q - cp C j)) = false).
        { apply not_true_is_false. intros Hex. apply existsb_exists in Hex as (q0 & Hq0 & Eq0). apply in_seq in Hq0. apply Nat.eqb_eq in Eq0.
          apply HCdist with (j := j) in Eq0; auto; lia. }
        split; [|split].
        -- intros q0 Hq0. rewrite nth_lset by lia. destruct (Nat.eqb_spec q0 q) as [->|Ne]; [|apply Ga; lia].
           rewrite Gc, Hfresh. apply H1.
        -- intros q0 Hq0. rewrite nth_lset by lia. destruct (Nat.eqb_spec q0 q); [lia|]. apply Gb. lia.
        -- intros i. rewrite nth_lset by lia. replace (S q - cp C j) with (S (q - cp C j)) by lia.
           rewrite seq_S, existsb_app. cbn [existsb]. replace (cp C j + (q - cp C j)) with q by lia. rewrite orb_false_r.
           destruct (Nat.eqb_spec i (nth q (rowind C) 0%nat)) as [->|Ne].
           ++ rewrite Nat.eqb_refl. now rewrite orb_true_r.
           ++ rewrite Gc. destruct (Nat.eqb_spec (nth q (rowind C) 0%nat) i); [congruence|]. now rewrite orb_false_r.
      * unfold Vec, F in *. rewrite E3. eexists; split; [reflexivity|]. cbn [fst snd] in *. split; auto. split.
        -- (* tmp is all zero again *)
           apply (nth_ext _ _ (0%Qc : F) (0%Qc : F)); [exact L3'|]. intros i Hi. rewrite G3, Hz.
           destruct (existsb _ _) eqn:Ex; [reflexivity|]. rewrite H1. unfold acc.
           destruct (Nat.leb_spec i j) as [?Hy|?Hn]; [|reflexivity].
           apply qsum_map_zero. intros q Hq. apply in_seq in Hq.
           assert (csc_get XT i (nth q (rowind X) 0%nat) = 0%Qc); [|rewrite H; fring].
           apply csc_get_zero. intros e He Ee.
           destruct (Htouch j q (cp XT (nth q (rowind X) 0%nat) + e) Hj ltac:(lia)) as (qc & Hqc & Eqc).
           { assert (Hqn : q < nnz X) by (pose proof (cp_pos_lt X HwX j (q - cp X j) ltac:(lia) ltac:(lia)) as Z0; replace (cp X j + (q - cp X j)) with q in Z0 by lia; exact Z0).
             assert (Hk : nth q (rowind X) 0 < ncols XT) by (rewrite HnT, <- HrX; apply wf_rows; auto).
             pose proof (cp_S XT HwT (nth q (rowind X) 0%nat) Hk) as Z. unfold Vec, F in *. lia. } { unfold Vec, F in *. lia. }
           apply not_true_iff_false in Ex. apply Ex. apply existsb_exists. exists qc. split; [apply in_seq; unfold Vec, F in *; lia|]. apply Nat.eqb_eq. unfold Vec, F in *. congruence.
        -- intros j' q Hj' Hq Hup. destruct (Nat.eq_dec j' j) as [->|Ne].
           ++ rewrite G1 by lia. now apply Hacc.
           ++ rewrite G2; [apply Hprev; auto; lia|]. left.
              assert (cp C (S j') <= cp C j) by (apply (off_mono (cp C) (clen C) (ncols C)); try lia; intros; now apply cp_S). lia.
  - unfold Vec, F in *. rewrite E. cbn [bind]. cbn [fst snd] in *. subst tmp'. exists cx. auto.
Qed.
End Scatter.

(* ================================================================ matrices on the pattern of csc_of_cols with other values *)
Section OfColsVals.
Variables (n : nat) (cols : nat -> list nat).
Hypothesis Hinc : forall j, j < n -> inc (cols j).
Hypothesis Hrow : forall j r, j < n -> In r (cols j) -> r < n.
Variable cx : Vec.
Let M0 := csc_of_cols n cols (fun _ _ => 0%Qc).
Let M := set_vals M0 cx.
Hypothesis Lcx : length cx = coff cols n.

Lemma ocv_wf : wf_csc M = true.
Proof. apply wf_set_vals; [apply oc_wf; auto|]. unfold nnz, M0. now rewrite (proj1 (ofcols_nnz n cols (fun _ _ => 0%Qc))). Qed.
Lemma ocv_get_in j i : j < n -> i < length (cols j) -> csc_get M (nth i (cols j) 0) j = nth (coff cols j + i) cx 0%Qc.
Proof.
  intros Hj Hi. rewrite (csc_get_at M _ j i).
  - change (cp M j) with (cp M0 j). unfold M0. rewrite oc_cp by lia. reflexivity.
  - change (clen M j) with (clen M0 j). unfold M0. now rewrite oc_clen.
  - change (cp M j) with (cp M0 j). change (rowind M) with (rowind M0). unfold M0. rewrite oc_cp by lia. now apply ofcols_row.
  - intros i' Hi' Ne E. change (clen M j) with (clen M0 j) in Hi'. change (cp M j) with (cp M0 j) in E. change (rowind M) with (rowind M0) in E.
    unfold M0 in *. rewrite oc_clen in Hi' by auto. rewrite oc_cp in E by lia. rewrite ofcols_row in E by auto.
    apply inc_inj in E; auto.
Qed.
Lemma ocv_get_out j r : j < n -> ~ In r (cols j) -> csc_get M r j = 0%Qc.
Proof.
  intros Hj Hn. apply csc_get_zero. intros i Hi E.
  change (clen M j) with (clen M0 j) in Hi. change (cp M j) with (cp M0 j) in E. change (rowind M) with (rowind M0) in E.
  unfold M0 in *. rewrite oc_clen in Hi by auto. rewrite oc_cp in E by lia. rewrite ofcols_row in E by auto.
  apply Hn. rewrite <- E. now apply nth_In.
Qed.
Lemma ocv_src_ok (kcols : nat -> list nat) : (forall j r, j < n -> In r (cols j) -> In r (kcols j)) -> src_ok n kcols M.
Proof.
  intros Hsub. split; [apply ocv_wf|]. split; [reflexivity|]. split.
  - intros j u v Hj Hu Huv Hv. change (cp M j) with (cp M0 j) in Hu. change (cp M (S j)) with (cp M0 (S j)) in Hv. change (rowind M) with (rowind M0).
    unfold M0 in *. rewrite oc_cp in Hu, Hv by lia. cbn [coff] in Hv.
    replace u with (coff cols j + (u - coff cols j)) by lia. replace v with (coff cols j + (v - coff cols j)) by lia.
    rewrite !ofcols_row by (auto; lia). apply Hinc; auto; lia.
  - intros j u Hj [Hu Hv]. change (cp M j) with (cp M0 j) in Hu. change (cp M (S j)) with (cp M0 (S j)) in Hv. change (rowind M) with (rowind M0).
    unfold M0 in *. rewrite oc_cp in Hu, Hv by lia. cbn [coff] in Hv.
    replace u with (coff cols j + (u - coff cols j)) by lia. rewrite ofcols_row by (auto; lia).
    apply Hsub; auto. apply nth_In. lia.
Qed.
End OfColsVals.

(* ================================================================ init_workspace + create_kkt_matrix *)
Lemma prod_col_inc X XT j : inc (prod_col X XT j).
Proof. apply inc_filter_seq. Qed.
Lemma prod_col_le X XT j r : In r (prod_col X XT j) -> r <= j.
Proof. intros H. apply filter_In in H as [H _]. apply in_seq in H. lia. Qed.
Lemma sum_col_inc n P A G j : inc (sum_col n P A G j).
Proof. apply inc_filter_seq. Qed.

(* a stored entry of a strictly increasing column, by position *)
Lemma In_pos (cols : nat -> list nat) j r : In r (cols j) -> exists t, t < length (cols j) /\ nth t (cols j) 0 = r.
Proof. intros H. apply (In_nth _ _ 0) in H as (t & Ht & E). eauto. Qed.

Section ProdPattern.
Variables (X XT : csc F) (n r : nat).
Hypothesis HwX : wf_csc X = true.
Hypothesis HwT : wf_csc XT = true.
Hypothesis HnX : ncols X = n.  Hypothesis HrX : nrows X = r.
Hypothesis HnT : ncols XT = r. Hypothesis HrT : nrows XT = n.
Let C := prod_upper_pattern X XT.

Lemma pp_rows j i : j < n -> In i (prod_col X XT j) -> i < n.
Proof. intros Hj H. apply prod_col_le in H. lia. Qed.

Lemma pp_wf : wf_csc C = true.
Proof. unfold C, prod_upper_pattern. rewrite HrT. apply oc_wf. intros j i Hj H. now apply (pp_rows j). Qed.

Lemma pp_touch j q e : j < n -> cp X j <= q < cp X (S j) ->
  cp XT (nth q (rowind X) 0) <= e < cp XT (S (nth q (rowind X) 0)) -> nth e (rowind XT) 0 <= j ->
  exists qc, cp C j <= qc < cp C (S j) /\ nth qc (rowind C) 0 = nth e (rowind XT) 0.
Proof.
  intros Hj Hq He Hle.
  assert (EXS : cp X (S j) = cp X j + clen X j) by (apply cp_S; auto; lia).
  assert (Hqn : q < nnz X) by (pose proof (cp_pos_lt X HwX j (q - cp X j) ltac:(lia) ltac:(lia)) as Z; replace (cp X j + (q - cp X j)) with q in Z by lia; exact Z).
  assert (Hk : nth q (rowind X) 0 < ncols XT) by (rewrite HnT, <- HrX; apply wf_rows; auto).
  set (k := nth q (rowind X) 0) in *.
  assert (ETS : cp XT (S k) = cp XT k + clen XT k) by (apply cp_S; auto).
  assert (Hin : In (nth e (rowind XT) 0) (prod_col X XT j)).
  { apply filter_In. split; [apply in_seq; lia|]. unfold prod_has. apply existsb_exists. exists k. split.
    - apply (col_rows_In X HwX j k); [lia|]. exists (q - cp X j). split; [lia|]. unfold k. f_equal. lia.
    - apply memb_In. apply (col_rows_In XT HwT k _ Hk). exists (e - cp XT k). split; [lia|]. f_equal. lia. }
  destruct (In_pos (prod_col X XT) j _ Hin) as (t & Ht & Et).
  exists (coff (prod_col X XT) j + t). unfold C, prod_upper_pattern. rewrite HrT. rewrite !ofcols_cp by lia. cbn [coff].
  split; [lia|]. rewrite ofcols_row by auto. exact Et.
Qed.

Lemma pp_dist j q q' : j < n -> cp C j <= q < cp C (S j) -> cp C j <= q' < cp C (S j) ->
  nth q (rowind C) 0 = nth q' (rowind C) 0 -> q = q'.
Proof.
  unfold C, prod_upper_pattern. rewrite HrT. intros Hj. rewrite !ofcols_cp by lia. cbn [coff]. intros Hq Hq' E.
  replace q with (coff (prod_col X XT) j + (q - coff (prod_col X XT) j)) in E by lia.
  replace q' with (coff (prod_col X XT) j + (q' - coff (prod_col X XT) j)) in E by lia.
  rewrite !ofcols_row in E by (auto; lia). apply inc_inj in E; try apply prod_col_inc; lia.
Qed.

(* outside the pattern the product vanishes *)
Lemma prodval_out wt i j : j < n -> i <= j -> ~ In i (prod_col X XT j) -> prodval X XT r wt i j = 0%Qc.
Proof.
  intros Hj Hij Hn. unfold prodval. apply sum_n_zero. intros l Hl.
  destruct (in_dec Nat.eq_dec l (col_rows X j)) as [Hin|Hout].
  - assert (csc_get XT i l = 0%Qc); [|rewrite H; fring].
    apply csc_get_zero. intros e He Ee. apply Hn. apply filter_In. split; [apply in_seq; lia|].
    unfold prod_has. apply existsb_exists. exists l. split; auto. apply memb_In.
    apply (col_rows_In XT HwT l i ltac:(lia)). eauto.
  - assert (csc_get X l j = 0%Qc); [|rewrite H; fring].
    apply csc_get_zero. intros q Hq Eq. apply Hout. apply (col_rows_In X HwX j l ltac:(lia)). eauto.
Qed.
End ProdPattern.
