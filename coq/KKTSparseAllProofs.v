(* KKTSparseAllProofs.v -- C13 / T1b, T2 for the sparse KKT_ALL_ELIMINATED back end (model KKTSparseAll.v), identity ordering. *)
From PIQP Require Import Base CSC C14LemmasProofs CSCProofs TransposeProofs LinAlg KKTProofs KKTSparseFull KKTSparseFullProofs KKTSparseFullPermProofs KKTSparseAll KKTSparseAllTrProofs.
Local Open Scope nat_scope.

(* ================================================================ strictly increasing lists; filter of a range *)
Definition inc (l : list nat) : Prop := forall a b, a < b -> b < length l -> nth a l 0 < nth b l 0.

Lemma inc_cons x l : (forall y, In y l -> x < y) -> inc l -> inc (x :: l).
Proof.
  intros Hx Hl a b Hab Hb. destruct b as [|b]; [lia|]. cbn [nth]. cbn [length] in Hb.
  destruct a as [|a]; cbn [nth].
  - apply Hx. apply nth_In. lia.
  - apply Hl; lia.
Qed.
Lemma inc_filter_seq f m : forall lo, inc (filter f (seq lo m)).
Proof.
  induction m; intros lo; cbn [seq filter]; [intros a b; cbn; lia|].
  destruct (f lo); [|apply IHm]. apply inc_cons; [|apply IHm].
  intros y Hy. apply filter_In in Hy as [Hy _]. apply in_seq in Hy. lia.
Qed.
Lemma inc_inj l a b : inc l -> a < length l -> b < length l -> nth a l 0 = nth b l 0 -> a = b.
Proof.
  intros H Ha Hb E. destruct (Nat.lt_trichotomy a b) as [L|[Eq|L]]; auto.
  - specialize (H a b L Hb). lia.
  - specialize (H b a L Ha). lia.
Qed.
Lemma inc_last l j : inc l -> In j l -> (forall y, In y l -> y <= j) -> nth (length l - 1) l 0 = j /\ 0 < length l.
Proof.
  intros H Hj Hle. apply (In_nth _ _ 0) in Hj as (a & Ha & Ea). split; [|lia].
  destruct (Nat.eq_dec a (length l - 1)) as [->|Ne]; auto.
  assert (nth a l 0 < nth (length l - 1) l 0) by (apply H; lia).
  assert (nth (length l - 1) l 0 <= j) by (apply Hle, nth_In; lia). lia.
Qed.
Lemma memb_In i l : memb i l = true <-> In i l.
Proof.
  unfold memb. rewrite existsb_exists. split.
  - intros (x & Hx & E). apply Nat.eqb_eq in E. now subst.
  - intros H. exists i. split; auto. apply Nat.eqb_refl.
Qed.

(* ================================================================ compressed storage built from column lists *)
Section OfCols.
Variables (n : nat) (cols : nat -> list nat) (val : nat -> nat -> F).
Fixpoint coff (j : nat) : nat := match j with O => 0 | S j' => coff j' + length (cols j') end.
Let M := csc_of_cols n cols val.

Lemma cumsum_spec acc l : length (cumsum acc l) = S (length l) /\
  forall j, j <= length l -> nth j (cumsum acc l) 0 = acc + fold_right Nat.add 0 (firstn j l).
Proof.
  revert acc. induction l as [|a l IH]; intros acc; cbn [cumsum length].
  - split; auto. intros j Hj. replace j with 0 by lia. cbn. lia.
  - destruct (IH (acc + a)) as [L H]. split; [cbn; lia|].
    intros [|j] Hj; cbn [nth firstn fold_right]; [lia|]. rewrite H by lia. lia.
Qed.
Lemma firstn_S_nth {A} (l : list A) j d0 : j < length l -> firstn (S j) l = firstn j l ++ [nth j l d0].
Proof.
  revert j. induction l as [|a l IH]; intros j Hj; [cbn in Hj; lia|].
  destruct j; [reflexivity|]. cbn [firstn nth app]. f_equal. apply IH. cbn in Hj. lia.
Qed.
Lemma fold_add_app l1 l2 : fold_right Nat.add 0 (l1 ++ l2) = fold_right Nat.add 0 l1 + fold_right Nat.add 0 l2.
Proof. induction l1; cbn; lia. Qed.
Lemma coff_firstn j : j <= n -> fold_right Nat.add 0 (firstn j (map (fun j => length (cols j)) (seq 0 n))) = coff j.
Proof.
  induction j; intros Hj; [reflexivity|].
  rewrite (firstn_S_nth _ j 0) by (rewrite map_length, seq_length; lia).
  rewrite fold_add_app, IHj by lia. cbn [coff fold_right].
  rewrite (nth_indep _ 0 ((fun j => length (cols j)) 0)) by (rewrite map_length, seq_length; lia).
  rewrite (map_nth (fun j => length (cols j))). rewrite seq_nth by lia. cbn. lia.
Qed.

Lemma ofcols_cp j : j <= n -> cp M j = coff j.
Proof.
  intros Hj. unfold cp, M, csc_of_cols. cbn [colptr].
  destruct (cumsum_spec 0 (map (fun j => length (cols j)) (seq 0 n))) as [_ H].
  rewrite H by (rewrite map_length, seq_length; lia). now rewrite coff_firstn.
Qed.
Lemma ofcols_cp_len : length (colptr M) = S n.
Proof.
  unfold M, csc_of_cols. cbn [colptr]. destruct (cumsum_spec 0 (map (fun j => length (cols j)) (seq 0 n))) as [L _].
  now rewrite L, map_length, seq_length.
Qed.
Lemma coff_S j : coff (S j) = coff j + length (cols j). Proof. reflexivity. Qed.

Lemma coff_mono a b : a <= b -> coff a <= coff b.
Proof. induction 1; auto. cbn [coff]. lia. Qed.

Lemma concat_off {A} (g : nat -> list A) (d0 : A) m : forall lo j i, j < m -> i < length (g (lo + j)) ->
  (forall j', j' < m -> length (g (lo + j')) = length (cols (lo + j'))) ->
  nth (coff (lo + j) - coff lo + i) (concat (map g (seq lo m))) d0 = nth i (g (lo + j)) d0.
Proof.
  induction m; intros lo j i Hj Hi HL; [lia|]. cbn [seq map concat].
  destruct j as [|j].
  - rewrite Nat.add_0_r in *. replace (coff lo - coff lo + i) with i by lia. now rewrite app_nth1.
  - assert (L0 : length (g lo) = length (cols lo)) by (specialize (HL 0 ltac:(lia)); now rewrite Nat.add_0_r in HL).
    assert (Hmono : coff (S lo) <= coff (S lo + j)) by (apply coff_mono; lia).
    rewrite app_nth2 by (rewrite L0; replace (lo + S j) with (S lo + j) by lia; rewrite coff_S in Hmono; lia).
    replace (lo + S j) with (S lo + j) in * by lia.
    replace (coff (S lo + j) - coff lo + i - length (g lo)) with (coff (S lo + j) - coff (S lo) + i) by (rewrite coff_S in *; lia).
    apply IHm; auto; try lia. intros j' Hj'. specialize (HL (S j') ltac:(lia)). now replace (lo + S j') with (S lo + j') in HL by lia.
Qed.

Lemma ofcols_row j i : j < n -> i < length (cols j) -> nth (coff j + i) (rowind M) 0 = nth i (cols j) 0.
Proof.
  intros Hj Hi. unfold M, csc_of_cols. cbn [rowind].
  pose proof (concat_off cols 0 n 0 j i Hj Hi (fun _ _ => eq_refl)) as H. cbn [Nat.add coff] in H. now rewrite Nat.sub_0_r in H.
Qed.
Lemma ofcols_val j i : j < n -> i < length (cols j) -> nth (coff j + i) (vals M) 0%Qc = val (nth i (cols j) 0) j.
Proof.
  intros Hj Hi. unfold M, csc_of_cols. cbn [vals].
  pose proof (concat_off (fun j => map (fun i => val i j) (cols j)) 0%Qc n 0 j i Hj) as H. cbn [Nat.add coff] in H. rewrite Nat.sub_0_r in H.
  rewrite H by (rewrite ?map_length; auto; intros; now rewrite map_length).
  rewrite (nth_indep _ 0%Qc (val 0 j)) by (now rewrite map_length). now rewrite (map_nth (fun i => val i j)).
Qed.
Lemma concat_len {A} (g : nat -> list A) m : forall lo, (forall j', j' < m -> length (g (lo + j')) = length (cols (lo + j'))) ->
  length (concat (map g (seq lo m))) = coff (lo + m) - coff lo.
Proof.
  induction m; intros lo HL; cbn [seq map concat]; [rewrite Nat.add_0_r; cbn; lia|].
  rewrite app_length, IHm.
  - specialize (HL 0 ltac:(lia)). rewrite Nat.add_0_r in HL. rewrite HL. replace (lo + S m) with (S lo + m) by lia.
    assert (coff (S lo) <= coff (S lo + m)) by (apply coff_mono; lia).
    rewrite coff_S in *. lia.
  - intros j' Hj'. specialize (HL (S j') ltac:(lia)). now replace (lo + S j') with (S lo + j') in HL by lia.
Qed.
Lemma ofcols_nnz : length (rowind M) = coff n /\ length (vals M) = coff n.
Proof.
  unfold M, csc_of_cols. cbn [rowind vals]. split.
  - rewrite (concat_len cols n 0) by auto. cbn. lia.
  - rewrite (concat_len (fun j => map (fun i => val i j) (cols j)) n 0) by (intros; now rewrite map_length). cbn. lia.
Qed.
End OfCols.

(* ================================================================ columns of a compressed matrix *)
Lemma nth_skipn' {A} (l : list A) lo i d0 : nth i (skipn lo l) d0 = nth (lo + i) l d0.
Proof. revert l. induction lo; intros l; [reflexivity|]. destruct l; [destruct i; reflexivity|]. cbn [skipn Nat.add nth]. apply IHlo. Qed.

Section ColRows.
Context {V : Type}.
Variable M : csc V.
Hypothesis Hwf : wf_csc M = true.

Lemma col_rows_len j : j < ncols M -> length (col_rows M j) = clen M j.
Proof.
  intros Hj. unfold col_rows. cbv zeta. fold (cp M j) (cp M (S j)). fold (clen M j).
  rewrite firstn_length, skipn_length. pose proof (cp_le_nnz M Hwf (S j) ltac:(lia)). pose proof (cp_S M Hwf j Hj). unfold nnz in *. lia.
Qed.
Lemma col_rows_nth j i : i < clen M j -> nth i (col_rows M j) 0 = nth (cp M j + i) (rowind M) 0.
Proof.
  intros Hi. unfold col_rows. cbv zeta. fold (cp M j) (cp M (S j)). fold (clen M j).
  rewrite (nth_head (clen M j)) by auto. apply nth_skipn'.
Qed.
Lemma col_rows_In j r : j < ncols M -> In r (col_rows M j) <-> exists i, i < clen M j /\ nth (cp M j + i) (rowind M) 0 = r.
Proof.
  intros Hj. split.
  - intros H. apply (In_nth _ _ 0) in H as (i & Hi & E). rewrite col_rows_len in Hi by auto. exists i. split; auto. now rewrite <- col_rows_nth.
  - intros (i & Hi & <-). rewrite <- col_rows_nth by auto. apply nth_In. now rewrite col_rows_len.
Qed.
End ColRows.

Lemma qsum_delta (g : nat -> F) n i0 : i0 < n -> (forall i, i < n -> i <> i0 -> g i = 0%Qc) -> qsum (map g (seq 0 n)) = g i0.
Proof.
  induction n; intros Hi H; [lia|]. rewrite qsum_map_seq_S. cbn [Nat.add].
  destruct (Nat.eq_dec i0 n) as [->|Ne].
  - rewrite qsum_map_zero; [fring|]. intros p Hp. apply in_seq in Hp. apply H; lia.
  - rewrite IHn by (try lia; intros; apply H; lia). rewrite (H n) by lia. fring.
Qed.

(* entries of a column with pairwise different row indices *)
Lemma csc_get_at (A : csc F) r j i0 : i0 < clen A j -> nth (cp A j + i0) (rowind A) 0 = r ->
  (forall i, i < clen A j -> i <> i0 -> nth (cp A j + i) (rowind A) 0 <> r) ->
  csc_get A r j = nth (cp A j + i0) (vals A) 0%Qc.
Proof.
  intros Hi Er Hu. rewrite csc_get_local. rewrite (qsum_delta _ (clen A j) i0 Hi).
  - rewrite Er, Nat.eqb_refl. reflexivity.
  - intros i Hi' Ne. destruct (Nat.eqb_spec (nth (cp A j + i) (rowind A) 0) r) as [E|]; [|reflexivity]. exfalso. now apply (Hu i).
Qed.

(* a matrix given by strictly increasing columns *)
Section OfColsInc.
Variables (n : nat) (cols : nat -> list nat) (val : nat -> nat -> F).
Hypothesis Hinc : forall j, j < n -> inc (cols j).
Hypothesis Hrow : forall j r, j < n -> In r (cols j) -> r < n.
Let M := csc_of_cols n cols val.
Local Notation off := (coff cols).

Lemma oc_cp j : j <= n -> cp M j = off j. Proof. apply ofcols_cp. Qed.
Lemma oc_clen j : j < n -> clen M j = length (cols j).
Proof. intros Hj. unfold clen. rewrite !oc_cp by lia. cbn [coff]. lia. Qed.

Lemma oc_wf : wf_csc M = true.
Proof.
  unfold wf_csc. pose proof (ofcols_cp_len n cols val) as L. pose proof (ofcols_nnz n cols val) as [L1 L2]. fold M in L, L1, L2.
  assert (En : ncols M = n) by reflexivity. assert (Er : nrows M = n) by reflexivity. rewrite En, Er.
  rewrite !andb_true_iff. repeat split.
  - now apply Nat.eqb_eq.
  - apply Nat.eqb_eq. rewrite (nth_indep _ 1 0) by lia. apply (oc_cp 0). lia.
  - apply nondecb_of_steps. intros i Hi. rewrite L in Hi. fold (cp M i) (cp M (S i)). rewrite !oc_cp by lia. apply coff_mono. lia.
  - apply Nat.eqb_eq. fold (cp M n). rewrite oc_cp by lia. now rewrite L1.
  - apply Nat.eqb_eq. now rewrite L1, L2.
  - apply forallb_forall. intros r Hr. apply (In_nth _ _ 0) in Hr as (q & Hq & <-). rewrite L1 in Hq.
    destruct (off_decomp off (fun j => length (cols j)) n (fun c _ => eq_refl) q ltac:(cbn; lia)) as (j & i & Hj & Hi & ->).
    unfold M. rewrite ofcols_row by auto. apply Nat.ltb_lt. apply (Hrow j); auto. now apply nth_In.
Qed.

Lemma oc_col_rows j : j < n -> col_rows M j = cols j.
Proof.
  intros Hj. apply (nth_ext _ _ 0 0).
  - rewrite (col_rows_len M oc_wf) by auto. now apply oc_clen.
  - intros i Hi. rewrite (col_rows_len M oc_wf) in Hi by auto. rewrite (col_rows_nth M) by auto.
    rewrite oc_cp by lia. rewrite oc_clen in Hi by auto. unfold M. now apply ofcols_row.
Qed.

(* the position of row r in column j *)
Lemma oc_get_in j i : j < n -> i < length (cols j) -> csc_get M (nth i (cols j) 0) j = val (nth i (cols j) 0) j.
Proof.
  intros Hj Hi. rewrite (csc_get_at M _ j i).
  - rewrite oc_cp by lia. unfold M. now apply ofcols_val.
  - now rewrite oc_clen.
  - rewrite oc_cp by lia. unfold M. now apply ofcols_row.
  - intros i' Hi' Ne E. rewrite oc_clen in Hi' by auto. rewrite oc_cp in E by lia. unfold M in E. rewrite ofcols_row in E by auto.
    apply inc_inj in E; auto.
Qed.
Lemma oc_get_out j r : j < n -> ~ In r (cols j) -> csc_get M r j = 0%Qc.
Proof.
  intros Hj Hn. apply csc_get_zero. intros i Hi E. rewrite oc_clen in Hi by auto. rewrite oc_cp in E by lia.
  unfold M in E. rewrite ofcols_row in E by auto. apply Hn. rewrite <- E. now apply nth_In.
Qed.
End OfColsInc.

(* ================================================================ the merge walk of create_kkt_matrix *)
Lemma advance_ok idx pend i : forall fuel pk, pk <= pend -> pend <= length idx -> pend - pk < fuel ->
  exists pk', advance fuel idx pk pend i = Ok pk' /\ pk <= pk' <= pend /\
    (forall u, pk <= u < pk' -> nth u idx 0 < i) /\ (pk' < pend -> i <= nth pk' idx 0).
Proof.
  induction fuel; intros pk H1 H2 H3; [lia|]. cbn [advance].
  destruct (Nat.eqb_spec pk pend) as [->|Ne].
  - exists pend. split; auto. split; [lia|]. split; intros; lia.
  - rewrite (get_nth idx pk 0) by lia. cbn [bind]. destruct (Nat.ltb_spec (nth pk idx 0) i) as [Lt|Ge].
    + destruct (IHfuel (S pk)) as (pk' & E & B & Hlt & Hge); try lia. exists pk'. split; auto. split; [lia|]. split; auto.
      intros u Hu. destruct (Nat.eq_dec u pk) as [->|]; auto. apply Hlt. lia.
    + exists pk. split; auto. split; [lia|]. split; [intros; lia|auto].
Qed.

Section Walk.
Variables (idx : list nat) (lo pend : nat) (kr : list nat) (koffj Lm : nat) (map0 : list nat).
Hypothesis Hlo : lo <= pend.
Hypothesis Hpend : pend <= length idx.
Hypothesis HLm : pend <= Lm.
Hypothesis Hkr : inc kr.
Hypothesis Hsrc : forall u v, lo <= u -> u < v -> v < pend -> nth u idx 0 < nth v idx 0.
Hypothesis Hsub : forall u, lo <= u < pend -> In (nth u idx 0) kr.

Definition winv (t : nat) (pk : nat) (map : list nat) : Prop :=
  lo <= pk <= pend /\
  (t < length kr -> forall u, lo <= u < pk -> nth u idx 0 < nth t kr 0) /\
  (forall u t', lo <= u < pend -> t' < t -> nth u idx 0 = nth t' kr 0 -> nth u map 0 = koffj + t') /\
  length map = Lm /\ (forall u, u < lo \/ pend <= u -> nth u map 0 = nth u map0 0).

Lemma walk_step t pk map : t < length kr -> winv t pk map ->
  exists pk' map', advance (S (pend - pk)) idx pk pend (nth t kr 0) = Ok pk' /\
                   mark idx pk' pend (nth t kr 0) (koffj + t) map = Ok map' /\ winv (S t) pk' map'.
Proof.
  intros Ht (B & H1 & H2 & L & Hfr).
  destruct (advance_ok idx pend (nth t kr 0) (S (pend - pk)) pk) as (pk' & E & B' & Hlt & Hge); try lia.
  exists pk'. unfold mark.
  assert (Hbefore : forall u, lo <= u < pk' -> nth u idx 0 < nth t kr 0).
  { intros u Hu. destruct (Nat.lt_ge_cases u pk); [apply H1; auto; lia|apply Hlt; lia]. }
  assert (Hnext : S t < length kr -> forall u, lo <= u < pk' -> nth u idx 0 < nth (S t) kr 0).
  { intros HS u Hu. specialize (Hbefore u Hu). specialize (Hkr t (S t) ltac:(lia) HS). lia. }
  destruct (Nat.eqb_spec pk' pend) as [Epe|Npe].
  - exists map. split; auto. split; auto. split; [lia|]. split; [intros HS u Hu; apply Hnext; auto|]. split; [|auto].
    intros u t' Hu Ht' Eu. destruct (Nat.eq_dec t' t) as [->|]; [|apply H2; auto; lia].
    specialize (Hbefore u ltac:(lia)). lia.
  - rewrite (get_nth idx pk' 0) by lia. cbn [bind]. specialize (Hge ltac:(lia)).
    destruct (Nat.eqb_spec (nth pk' idx 0) (nth t kr 0)) as [Eq|Neq].
    + rewrite upd_lset by lia. eexists. split; auto. split; auto. split; [lia|]. split.
      * intros HS u Hu. apply Hnext; auto.
      * split; [|split; [now rewrite lset_length|]].
        -- intros u t' Hu Ht' Eu. rewrite nth_lset by lia. destruct (Nat.eqb_spec u pk') as [->|Nu].
           ++ rewrite Eq in Eu. apply inc_inj in Eu; auto; lia.
           ++ destruct (Nat.eq_dec t' t) as [->|]; [|apply H2; auto; lia]. exfalso.
              destruct (Nat.lt_ge_cases u pk'); [specialize (Hbefore u ltac:(lia)); lia|].
              specialize (Hsrc pk' u ltac:(lia) ltac:(lia) ltac:(lia)). lia.
        -- intros u Hu. rewrite nth_lset by lia. destruct (Nat.eqb_spec u pk'); [lia|]. now apply Hfr.
    + exists map. split; auto. split; auto. split; [lia|]. split; [intros HS u Hu; apply Hnext; auto|]. split; [|auto].
      intros u t' Hu Ht' Eu. destruct (Nat.eq_dec t' t) as [->|]; [|apply H2; auto; lia]. exfalso.
      destruct (Nat.lt_ge_cases u pk'); [specialize (Hbefore u ltac:(lia)); lia|].
      destruct (Nat.eq_dec u pk') as [->|]; [congruence|].
      specialize (Hsrc pk' u ltac:(lia) ltac:(lia) ltac:(lia)). lia.
Qed.

Lemma winv_init : length map0 = Lm -> winv 0 lo map0.
Proof. intros L. split; [lia|]. split; [intros; lia|]. split; [intros; lia|]. auto. Qed.

Lemma winv_final pk map : winv (length kr) pk map ->
  length map = Lm /\ (forall u, u < lo \/ pend <= u -> nth u map 0 = nth u map0 0) /\
  forall u, lo <= u < pend -> exists t', t' < length kr /\ nth t' kr 0 = nth u idx 0 /\ nth u map 0 = koffj + t'.
Proof.
  intros (_ & _ & H2 & L & Hfr). split; auto. split; auto. intros u Hu.
  destruct (In_nth _ _ 0 (Hsub u Hu)) as (t' & Ht' & E). exists t'. split; [exact Ht'|]. split; [exact E|]. apply H2; auto.
Qed.
End Walk.

(* a source of the sum: compressed, same number of columns, columns strictly increasing and contained in the columns of K *)
Definition src_ok (n : nat) (kcols : nat -> list nat) (S : csc F) : Prop :=
  wf_csc S = true /\ ncols S = n /\
  (forall j u v, j < n -> cp S j <= u -> u < v -> v < cp S (Datatypes.S j) -> nth u (rowind S) 0 < nth v (rowind S) 0) /\
  (forall j u, j < n -> cp S j <= u < cp S (Datatypes.S j) -> In (nth u (rowind S) 0) (kcols j)).
(* the map sends every stored entry of S to the position of its row index in the same column of K *)
Definition map_ok (n : nat) (kcols : nat -> list nat) (S : csc F) (map : list nat) : Prop :=
  length map = nnz S /\
  forall j u, j < n -> cp S j <= u < cp S (Datatypes.S j) ->
    exists t, t < length (kcols j) /\ nth t (kcols j) 0 = nth u (rowind S) 0 /\ nth u map 0 = coff kcols j + t.

Section Maps.
Variables (n : nat) (kcols : nat -> list nat) (kval : nat -> nat -> F).
Hypothesis Hinc : forall j, j < n -> inc (kcols j).
Hypothesis Hrow : forall j r, j < n -> In r (kcols j) -> r < n.
Let K := csc_of_cols n kcols kval.
Variables P A G : csc F.
Hypothesis HP : src_ok n kcols P.
Hypothesis HA : src_ok n kcols A.
Hypothesis HG : src_ok n kcols G.

Definition part_ok (S : csc F) (j : nat) (map : list nat) : Prop :=
  length map = nnz S /\
  forall j' u, j' < j -> cp S j' <= u < cp S (Datatypes.S j') ->
    exists t, t < length (kcols j') /\ nth t (kcols j') 0 = nth u (rowind S) 0 /\ nth u map 0 = coff kcols j' + t.

Lemma src_bounds S j : src_ok n kcols S -> j < n -> cp S j <= cp S (Datatypes.S j) /\ cp S (Datatypes.S j) <= length (rowind S).
Proof. intros (Hw & Hc & _) Hj. apply (wf_col_range S Hw j). lia. Qed.

Lemma part_ok_next S j map map' : src_ok n kcols S -> j < n -> part_ok S j map ->
  length map' = nnz S ->
  (forall u, u < cp S j \/ cp S (Datatypes.S j) <= u -> nth u map' 0 = nth u map 0) ->
  (forall u, cp S j <= u < cp S (Datatypes.S j) ->
     exists t, t < length (kcols j) /\ nth t (kcols j) 0 = nth u (rowind S) 0 /\ nth u map' 0 = coff kcols j + t) ->
  part_ok S (Datatypes.S j) map'.
Proof.
  intros HS Hj [L H] L' Hfr Hnew. split; auto. intros j' u Hj' Hu.
  destruct (Nat.eq_dec j' j) as [->|Ne]; [now apply Hnew|].
  rewrite Hfr; [apply H; auto; lia|]. left.
  destruct HS as (Hw & Hc & _).
  assert (cp S (Datatypes.S j') <= cp S j).
  { apply (off_mono (cp S) (clen S) (ncols S)); try lia. intros; now apply cp_S. }
  lia.
Qed.

Theorem compute_maps_ok p0 a0 g0 : length p0 = nnz P -> length a0 = nnz A -> length g0 = nnz G ->
  exists p2k a2k g2k, compute_maps K P A G (p0, a0, g0) = Ok (p2k, a2k, g2k) /\
    map_ok n kcols P p2k /\ map_ok n kcols A a2k /\ map_ok n kcols G g2k.
Proof.
  intros Lp La Lg. unfold compute_maps.
  assert (EnK : ncols K = n) by reflexivity. rewrite EnK.
  pose proof HP as (HwP & HcP & HsP & HuP). pose proof HA as (HwA & HcA & HsA & HuA). pose proof HG as (HwG & HcG & HsG & HuG).
  destruct (for_range_ind (fun j (st : list nat * list nat * list nat) =>
              let '(p2k, a2k, g2k) := st in part_ok P j p2k /\ part_ok A j a2k /\ part_ok G j g2k)
    0 n (fun j maps =>
      do pk <- get (colptr P) j ;; do ak <- get (colptr A) j ;; do gk <- get (colptr G) j ;;
      do pend <- get (colptr P) (S j) ;; do aend <- get (colptr A) (S j) ;; do gend <- get (colptr G) (S j) ;;
      do klo <- get (colptr K) j ;; do kkk <- get (colptr K) (S j) ;;
      do '(_, _, _, maps) <- for_range klo kkk (fun kk '(pk, ak, gk, (p2k, a2k, g2k)) =>
          do i <- get (rowind K) kk ;;
          do pk <- advance (S (pend - pk)) (rowind P) pk pend i ;;
          do ak <- advance (S (aend - ak)) (rowind A) ak aend i ;;
          do gk <- advance (S (gend - gk)) (rowind G) gk gend i ;;
          do p2k <- mark (rowind P) pk pend i kk p2k ;;
          do a2k <- mark (rowind A) ak aend i kk a2k ;;
          do g2k <- mark (rowind G) gk gend i kk g2k ;;
          Ok (pk, ak, gk, (p2k, a2k, g2k))) (pk, ak, gk, maps) ;;
      Ok maps) (p0, a0, g0)) as ([[p2k a2k] g2k] & E & H1 & H2 & H3); try lia.
  - repeat split; auto; intros; lia.
  - intros j [[p1 a1] g1] [_ Hj] (I1 & I2 & I3).
    rewrite (get_cp P HwP j), (get_cp A HwA j), (get_cp G HwG j) by lia. cbn [bind].
    rewrite (get_cp P HwP (S j)), (get_cp A HwA (S j)), (get_cp G HwG (S j)) by lia. cbn [bind].
    rewrite (get_nth (colptr K) j 0), (get_nth (colptr K) (S j) 0) by (unfold K; rewrite ofcols_cp_len; lia). cbn [bind].
    fold (cp K j) (cp K (S j)). unfold K. rewrite !ofcols_cp by lia. cbn [coff]. fold K.
    destruct (src_bounds P j HP Hj) as [BP1 BP2]. destruct (src_bounds A j HA Hj) as [BA1 BA2]. destruct (src_bounds G j HG Hj) as [BG1 BG2].
    pose proof I1 as [L1 _]. pose proof I2 as [L2 _]. pose proof I3 as [L3 _].
    set (WP := winv (rowind P) (cp P j) (cp P (S j)) (kcols j) (coff kcols j) (nnz P) p1).
    set (WA := winv (rowind A) (cp A j) (cp A (S j)) (kcols j) (coff kcols j) (nnz A) a1).
    set (WG := winv (rowind G) (cp G j) (cp G (S j)) (kcols j) (coff kcols j) (nnz G) g1).
    destruct (for_range_ind (fun kk (st : nat * nat * nat * (list nat * list nat * list nat)) =>
                let '(pk, ak, gk, (p2k, a2k, g2k)) := st in
                WP (kk - coff kcols j) pk p2k /\ WA (kk - coff kcols j) ak a2k /\ WG (kk - coff kcols j) gk g2k)
      (coff kcols j) (coff kcols j + length (kcols j)) (fun kk '(pk, ak, gk, (p2k, a2k, g2k)) =>
          do i <- get (rowind K) kk ;;
          do pk <- advance (S (cp P (S j) - pk)) (rowind P) pk (cp P (S j)) i ;;
          do ak <- advance (S (cp A (S j) - ak)) (rowind A) ak (cp A (S j)) i ;;
          do gk <- advance (S (cp G (S j) - gk)) (rowind G) gk (cp G (S j)) i ;;
          do p2k <- mark (rowind P) pk (cp P (S j)) i kk p2k ;;
          do a2k <- mark (rowind A) ak (cp A (S j)) i kk a2k ;;
          do g2k <- mark (rowind G) gk (cp G (S j)) i kk g2k ;;
          Ok (pk, ak, gk, (p2k, a2k, g2k))) (cp P j, cp A j, cp G j, (p1, a1, g1)))
      as ([[[pk ak] gk] [[p2 a2] g2]] & E' & W1 & W2 & W3); try lia.
    + rewrite Nat.sub_diag. unfold WP, WA, WG. split; [|split]; apply winv_init; auto; unfold nnz; lia.
    + intros kk [[[pk ak] gk] [[p2 a2] g2]] Hkk (W1 & W2 & W3).
      set (t := kk - coff kcols j) in *. assert (Ht : t < length (kcols j)) by (unfold t; lia).
      assert (Ekk : kk = coff kcols j + t) by (unfold t; lia).
      rewrite (get_nth (rowind K) kk 0).
      2:{ destruct (ofcols_nnz n kcols kval) as [Ln _]. fold K in Ln. rewrite Ln.
          assert (coff kcols (S j) <= coff kcols n) by (apply coff_mono; lia). cbn [coff] in H. lia. }
      cbn [bind]. replace (nth kk (rowind K) 0) with (nth t (kcols j) 0) by (rewrite Ekk; unfold K; symmetry; now apply ofcols_row).
      destruct (walk_step (rowind P) (cp P j) (cp P (S j)) (kcols j) (coff kcols j) (nnz P) p1 BP1 BP2 ltac:(unfold nnz; lia) (Hinc j Hj)
                 (fun u v H1 H2 H3 => HsP j u v Hj H1 H2 H3) t pk p2 Ht W1) as (pk' & p2' & EP1 & EP2 & WP').
      destruct (walk_step (rowind A) (cp A j) (cp A (S j)) (kcols j) (coff kcols j) (nnz A) a1 BA1 BA2 ltac:(unfold nnz; lia) (Hinc j Hj)
                 (fun u v H1 H2 H3 => HsA j u v Hj H1 H2 H3) t ak a2 Ht W2) as (ak' & a2' & EA1 & EA2 & WA').
      destruct (walk_step (rowind G) (cp G j) (cp G (S j)) (kcols j) (coff kcols j) (nnz G) g1 BG1 BG2 ltac:(unfold nnz; lia) (Hinc j Hj)
                 (fun u v H1 H2 H3 => HsG j u v Hj H1 H2 H3) t gk g2 Ht W3) as (gk' & g2' & EG1 & EG2 & WG').
      rewrite EP1, EA1, EG1. cbn [bind]. rewrite <- Ekk in EP2, EA2, EG2. rewrite EP2, EA2, EG2. cbn [bind].
      eexists; split; [reflexivity|]. replace (S kk - coff kcols j) with (S t) by (unfold t; lia). auto.
    + rewrite E'. cbn [bind]. eexists; split; [reflexivity|].
      replace (coff kcols j + length (kcols j) - coff kcols j) with (length (kcols j)) in * by lia.
      destruct (winv_final _ _ _ _ _ _ _ (fun u H => HuP j u Hj H) _ _ W1) as (F1 & F2 & F3).
      destruct (winv_final _ _ _ _ _ _ _ (fun u H => HuA j u Hj H) _ _ W2) as (F4 & F5 & F6).
      destruct (winv_final _ _ _ _ _ _ _ (fun u H => HuG j u Hj H) _ _ W3) as (F7 & F8 & F9).
      split; [|split]; eapply part_ok_next; eauto.
  - exists p2k, a2k, g2k. split; [exact E|]. split; [exact H1|]. split; [exact H2|exact H3].
Qed.
End Maps.

(* ================================================================ the scatter product (update_AT_A / update_GT_W_delta_inv_G) *)
Lemma sum_n_sum n f : sum_n n f = sum n f.
Proof. induction n; [reflexivity|]. cbn [sum_n sum]. now rewrite IHn. Qed.

(* a sum over the stored entries of a column as a sum over all rows *)
Lemma col_sum_rows (X : csc F) (f : nat -> F) r j : wf_csc X = true -> nrows X = r -> j < ncols X ->
  qsum (map (fun q => (f (nth q (rowind X) 0%nat) * nth q (vals X) 0)%Qc) (seq (cp X j) (clen X j))) =
  sum_n r (fun l => (f l * csc_get X l j)%Qc).
Proof.
  intros Hw Hr Hj. unfold csc_get. cbv zeta. fold (cp X j) (cp X (S j)). fold (clen X j).
  rewrite (sum_n_ext r _ (fun l => qsum (map (fun q => (if (nth q (rowind X) 0 =? l)%nat then f l * nth q (vals X) 0 else 0)%Qc) (seq (cp X j) (clen X j))))).
  2:{ intros l Hl. rewrite (Qcmult_comm (f l)). rewrite <- qsum_map_scale_r.
      apply qsum_map_ext. intros q Hq. destruct (_ =? l); fring. }
  rewrite <- (qsum_sum_n_swap (fun q l => (if (nth q (rowind X) 0 =? l)%nat then f l * nth q (vals X) 0 else 0)%Qc)).
  apply qsum_map_ext. intros q Hq. apply in_seq in Hq.
  assert (Hq' : q < nnz X) by (pose proof (cp_pos_lt X Hw j (q - cp X j) Hj ltac:(lia)); replace (cp X j + (q - cp X j)) with q in H by lia; exact H).
  assert (Hrow : nth q (rowind X) 0 < r) by (rewrite <- Hr; apply wf_rows; auto).
  rewrite (sum_n_delta r (nth q (rowind X) 0%nat)); auto.
  - now rewrite Nat.eqb_refl.
  - intros l Hl Ne. destruct (Nat.eqb_spec (nth q (rowind X) 0%nat) l); [congruence|reflexivity].
Qed.

Definition wt_ok (r : nat) (wt : option (Vec * Vec * F)) : Prop :=
  match wt with
  | None => True
  | Some (s, zinv, delta) => r <= length s /\ r <= length zinv /\ forall l, l < r -> (nth l s 0 * nth l zinv 0 + delta)%Qc <> 0%Qc
  end.
Definition wt_val (wt : option (Vec * Vec * F)) (l : nat) : F :=
  match wt with None => 1%Qc | Some (s, zinv, delta) => (1 / (nth l s 0 * nth l zinv 0 + delta))%Qc end.

Section Scatter.
Variables (X XT C : csc F) (n r : nat) (wt : option (Vec * Vec * F)).
Hypothesis HwX : wf_csc X = true.
Hypothesis HwT : wf_csc XT = true.
Hypothesis HwC : wf_csc C = true.
Hypothesis HnX : ncols X = n.  Hypothesis HrX : nrows X = r.
Hypothesis HnT : ncols XT = r. Hypothesis HrT : nrows XT = n.
Hypothesis HnC : ncols C = n.  Hypothesis HrC : nrows C = n.
Hypothesis Hwt : wt_ok r wt.
(* every index the accumulation touches is a stored row of the same column of C *)
Hypothesis Htouch : forall j q e, j < n -> cp X j <= q < cp X (S j) ->
  cp XT (nth q (rowind X) 0%nat) <= e < cp XT (S (nth q (rowind X) 0%nat)) -> nth e (rowind XT) 0 <= j ->
  exists qc, cp C j <= qc < cp C (S j) /\ nth qc (rowind C) 0 = nth e (rowind XT) 0.
Hypothesis HCdist : forall j q q', j < n -> cp C j <= q < cp C (S j) -> cp C j <= q' < cp C (S j) ->
  nth q (rowind C) 0 = nth q' (rowind C) 0 -> q = q'.

Definition prodval (i j : nat) : F :=
  sum_n r (fun l => (wt_val wt l * csc_get XT i l * csc_get X l j)%Qc).

Lemma term_ok k xv xtv : k < r ->
  match wt with
  | None => Ok (xv * xtv)%Qc
  | Some (s, zinv, delta) => do sk <- get s k ;; do zk <- get zinv k ;; do w <- qdiv 1%Qc (sk * zk + delta)%Qc ;; Ok (w * xv * xtv)%Qc
  end = Ok (wt_val wt k * xtv * xv)%Qc.
Proof.
  intros Hk. unfold wt_val. destruct wt as [[[s zinv] delta]|].
  - destruct Hwt as (L1 & L2 & Hnz). rewrite (get_nth s k 0%Qc), (get_nth zinv k 0%Qc) by lia. cbn [bind].
    rewrite qdiv_nz by auto. cbn [bind]. f_equal. fring.
  - f_equal. fring.
Qed.

Theorem scatter_product_ok (tmp : Vec) : n <= length tmp -> (forall i, nth i tmp 0%Qc = 0%Qc) ->
  exists cx, scatter_product X XT C wt tmp = Ok (csc_set_vals C cx, tmp) /\
    length cx = nnz C /\
    forall j q, j < n -> cp C j <= q < cp C (S j) -> nth q (rowind C) 0 <= j -> nth q cx 0%Qc = prodval (nth q (rowind C) 0%nat) j.
Proof.
  intros Lt Hz. unfold scatter_product. rewrite HnX.
  set (Itmp := fun (t : Vec) => length t = length tmp /\ forall i, nth i t 0%Qc = 0%Qc).
  destruct (for_range_ind (fun j (st : Vec * Vec) => length (fst st) = nnz C /\ snd st = tmp /\
      forall j' q, j' < j -> cp C j' <= q < cp C (S j') -> nth q (rowind C) 0 <= j' -> nth q (fst st) 0%Qc = prodval (nth q (rowind C) 0%nat) j')
    0 n (fun j '(cx, tmp) =>
      do lo <- get (colptr X) j ;; do hi <- get (colptr X) (S j) ;;
      do tmp <- for_range lo hi (fun q tmp =>
          do k <- get (rowind X) q ;; do xv <- get (vals X) q ;;
          do lo2 <- get (colptr XT) k ;; do hi2 <- get (colptr XT) (S k) ;;
          for_range lo2 hi2 (fun e tmp =>
            do i <- get (rowind XT) e ;;
            if (j <? i)%nat then Ok tmp else
            do xtv <- get (vals XT) e ;;
            do term <- match wt with
                       | None => Ok (xv * xtv)%Qc
                       | Some (s, zinv, delta) =>
                           do sk <- get s k ;; do zk <- get zinv k ;;
                           do w <- qdiv 1%Qc (sk * zk + delta)%Qc ;; Ok (w * xv * xtv)%Qc
                       end ;;
            do old <- get tmp i ;; upd tmp i (old + term)%Qc) tmp) tmp ;;
      do clo <- get (colptr C) j ;; do chi <- get (colptr C) (S j) ;;
      for_range clo chi (fun q '(cx, tmp) =>
        do i <- get (rowind C) q ;;
        do v <- get tmp i ;;
        do cx <- upd cx q v ;;
        do tmp <- upd tmp i 0%Qc ;;
        Ok (cx, tmp)) (cx, tmp)) (vals C, tmp)) as ([cx tmp'] & E & L & Et & Hv); try lia.
  - cbn [fst snd]. split; [apply (vals_len C HwC)|]. split; auto. intros; lia.
  - intros j [cx t0] [_ Hj] (Lcx & Et0 & Hprev). cbn [fst snd] in *. subst t0.
    rewrite (get_cp X HwX j), (get_cp X HwX (S j)) by lia. cbn [bind].
    assert (EXS : cp X (S j) = cp X j + clen X j) by (apply cp_S; auto; lia).
    (* accumulation over the entries of column j of X *)
    set (acc := fun (qq : nat) (i : nat) =>
           if (i <=? j)%nat then qsum (map (fun q => (wt_val wt (nth q (rowind X) 0%nat) * csc_get XT i (nth q (rowind X) 0%nat) * nth q (vals X) 0)%Qc)
                                     (seq (cp X j) (qq - cp X j))) else 0%Qc).
    destruct (for_range_ind (fun qq (t : Vec) => length t = length tmp /\ forall i, nth i t 0%Qc = acc qq i)
      (cp X j) (cp X (S j)) (fun q tmp =>
          do k <- get (rowind X) q ;; do xv <- get (vals X) q ;;
          do lo2 <- get (colptr XT) k ;; do hi2 <- get (colptr XT) (S k) ;;
          for_range lo2 hi2 (fun e tmp =>
            do i <- get (rowind XT) e ;;
            if (j <? i)%nat then Ok tmp else
            do xtv <- get (vals XT) e ;;
            do term <- match wt with
                       | None => Ok (xv * xtv)%Qc
                       | Some (s, zinv, delta) =>
                           do sk <- get s k ;; do zk <- get zinv k ;;
                           do w <- qdiv 1%Qc (sk * zk + delta)%Qc ;; Ok (w * xv * xtv)%Qc
                       end ;;
            do old <- get tmp i ;; upd tmp i (old + term)%Qc) tmp) tmp) as (t1 & E1 & L1 & H1); try lia.
    + split; auto. intros i. unfold acc. rewrite Nat.sub_diag. rewrite Hz. destruct (i <=? j); reflexivity.
    + intros q t [Hq1 Hq2] (Lt0 & Ht0).
      assert (Hqn : q < nnz X) by (pose proof (cp_pos_lt X HwX j (q - cp X j) ltac:(lia) ltac:(lia)); replace (cp X j + (q - cp X j)) with q in H by lia; exact H).
      assert (Hk : nth q (rowind X) 0 < r) by (rewrite <- HrX; apply wf_rows; auto).
      set (k := nth q (rowind X) 0%nat) in *. set (xv := nth q (vals X) 0%Qc).
      rewrite (get_nth (rowind X) q 0) by (unfold nnz in Hqn; auto). cbn [bind]. fold k.
      rewrite (get_nth (vals X) q 0%Qc) by (rewrite (vals_len X HwX); auto). cbn [bind]. fold xv.
      rewrite (get_cp XT HwT k), (get_cp XT HwT (S k)) by lia. cbn [bind].
      assert (ETS : cp XT (S k) = cp XT k + clen XT k) by (apply cp_S; auto; lia).
      destruct (for_range_ind (fun e (t' : Vec) => length t' = length tmp /\
          forall i, nth i t' 0%Qc = (nth i t 0 + (if (i <=? j)%nat then wt_val wt k * qsum (map (fun e' => if (nth e' (rowind XT) 0 =? i)%nat then nth e' (vals XT) 0%Qc else 0%Qc) (seq (cp XT k) (e - cp XT k))) * xv else 0))%Qc)
        (cp XT k) (cp XT (S k)) (fun e tmp =>
            do i <- get (rowind XT) e ;;
            if (j <? i)%nat then Ok tmp else
            do xtv <- get (vals XT) e ;;
            do term <- match wt with
                       | None => Ok (xv * xtv)%Qc
                       | Some (s, zinv, delta) =>
                           do sk <- get s k ;; do zk <- get zinv k ;;
                           do w <- qdiv 1%Qc (sk * zk + delta)%Qc ;; Ok (w * xv * xtv)%Qc
                       end ;;
            do old <- get tmp i ;; upd tmp i (old + term)%Qc) t) as (t2 & E2 & L2 & H2); try lia.
      * split; auto. intros i. rewrite Nat.sub_diag. cbn [seq map]. destruct (i <=? j); unfold qsum; cbn; fring.
      * intros e t' [He1 He2] (Lt' & Ht').
        assert (Hen : e < nnz XT) by (pose proof (cp_pos_lt XT HwT k (e - cp XT k) ltac:(lia) ltac:(lia)); replace (cp XT k + (e - cp XT k)) with e in H by lia; exact H).
        assert (Hi : nth e (rowind XT) 0 < n) by (rewrite <- HrT; apply wf_rows; auto).
        rewrite (get_nth (rowind XT) e 0) by (unfold nnz in Hen; auto). cbn [bind].
        replace (S e - cp XT k) with (S (e - cp XT k)) by lia.
        destruct (Nat.ltb_spec j (nth e (rowind XT) 0%nat)) as [Hgt|Hle].
        -- eexists; split; [reflexivity|]. split; auto. intros i. rewrite Ht'. f_equal.
           destruct (Nat.leb_spec i j) as [?Hy|?Hn]; [|reflexivity].
           rewrite qsum_map_seq_S. replace (cp XT k + (e - cp XT k)) with e by lia.
           destruct (Nat.eqb_spec (nth e (rowind XT) 0%nat) i) as [?Hy|?Hn]; [lia|]. fring.
        -- rewrite (get_nth (vals XT) e 0%Qc) by (rewrite (vals_len XT HwT); auto). cbn [bind].
           rewrite term_ok by auto. cbn [bind].
           rewrite (get_nth t' _ 0%Qc) by lia. cbn [bind]. rewrite upd_lset by lia.
           eexists; split; [reflexivity|]. split; [now rewrite lset_length|]. intros i. rewrite nth_lset by lia.
           rewrite qsum_map_seq_S. replace (cp XT k + (e - cp XT k)) with e by lia.
           destruct (Nat.eqb_spec i (nth e (rowind XT) 0%nat)) as [->|Ne].
           ++ rewrite Ht'. destruct (Nat.leb_spec (nth e (rowind XT) 0%nat) j) as [?Hy|?Hn]; [|lia]. rewrite Nat.eqb_refl. fring.
           ++ rewrite Ht'. f_equal. destruct (Nat.leb_spec i j) as [?Hy|?Hn]; [|reflexivity].
              destruct (Nat.eqb_spec (nth e (rowind XT) 0%nat) i) as [?Hy|?Hn]; [congruence|]. fring.
      * unfold Vec, F in *. rewrite E2. eexists; split; [reflexivity|]. split; auto. intros i. rewrite H2, Ht0. unfold acc.
        replace (S q - cp X j) with (S (q - cp X j)) by lia.
        destruct (Nat.leb_spec i j) as [?Hy|?Hn]; [|fring].
        rewrite qsum_map_seq_S. replace (cp X j + (q - cp X j)) with q by lia. fold k xv.
        replace (cp XT (S k) - cp XT k) with (clen XT k) by lia.
        unfold csc_get at 2. cbv zeta. fold (cp XT k) (cp XT (S k)). replace (cp XT (S k) - cp XT k) with (clen XT k) by lia. reflexivity.
    + unfold Vec, F in *. rewrite E1. cbn [bind].
      rewrite (get_cp C HwC j), (get_cp C HwC (S j)) by lia. cbn [bind].
      assert (ECS : cp C (S j) = cp C j + clen C j) by (apply cp_S; auto; lia).
      assert (Hacc : forall i, i <= j -> acc (cp X (S j)) i = prodval i j).
      { intros i Hi. unfold acc, prodval. destruct (Nat.leb_spec i j) as [?Hy|?Hn]; [|lia].
        replace (cp X (S j) - cp X j) with (clen X j) by lia.
        assert (Hjx : j < ncols X) by (rewrite HnX; exact Hj).
        exact (col_sum_rows X (fun l => (wt_val wt l * csc_get XT i l)%Qc) r j HwX HrX Hjx). }
      (* gather and reset *)
      destruct (for_range_ind (fun qq (st : Vec * Vec) => length (fst st) = nnz C /\ length (snd st) = length tmp /\
          (forall q, cp C j <= q < qq -> nth q (fst st) 0%Qc = acc (cp X (S j)) (nth q (rowind C) 0%nat)) /\
          (forall q, q < cp C j \/ qq <= q -> nth q (fst st) 0%Qc = nth q cx 0%Qc) /\
          (forall i, nth i (snd st) 0%Qc = if existsb (fun q => nth q (rowind C) 0 =? i) (seq (cp C j) (qq - cp C j)) then 0%Qc else nth i t1 0%Qc))
        (cp C j) (cp C (S j)) (fun q '(cx, tmp) =>
          do i <- get (rowind C) q ;;
          do v <- get tmp i ;;
          do cx <- upd cx q v ;;
          do tmp <- upd tmp i 0%Qc ;;
          Ok (cx, tmp)) (cx, t1)) as ([cx' t3] & E3 & L3 & L3' & G1 & G2 & G3); try lia.
      * cbn [fst snd]. rewrite Nat.sub_diag. cbn [seq existsb]. repeat split; auto. intros; lia.
      * intros q [cx0 t0] [Hq1 Hq2] (La & Lb & Ga & Gb & Gc). cbn [fst snd] in *.
        assert (Hqn : q < nnz C) by (pose proof (cp_pos_lt C HwC j (q - cp C j) ltac:(lia) ltac:(lia)); replace (cp C j + (q - cp C j)) with q in H by lia; exact H).
        assert (Hi : nth q (rowind C) 0 < n) by (rewrite <- HrC; apply wf_rows; auto).
        rewrite (get_nth (rowind C) q 0) by (unfold nnz in Hqn; auto). cbn [bind].
        rewrite (get_nth t0 _ 0%Qc) by lia. cbn [bind]. rewrite upd_lset by lia. cbn [bind]. rewrite upd_lset by lia. cbn [bind].
        eexists; split; [reflexivity|]. cbn [fst snd]. split; [now rewrite lset_length|]. split; [now rewrite lset_length|].
        assert (Hfresh : existsb (fun q0 => nth q0 (rowind C) 0 =? nth q (rowind C) 0%nat) (seq (cp C j) (q - cp C j)) = false).
        { apply not_true_is_false. intros Hex. apply existsb_exists in Hex as (q0 & Hq0 & Eq0). apply in_seq in Hq0. apply Nat.eqb_eq in Eq0.
          apply HCdist with (j := j) in Eq0; auto; lia. }
        split; [|split].
        -- intros q0 Hq0. rewrite nth_lset by lia. destruct (Nat.eqb_spec q0 q) as [->|Ne]; [|apply Ga; lia].
           rewrite Gc, Hfresh. apply H1.
        -- intros q0 Hq0. rewrite nth_lset by lia. destruct (Nat.eqb_spec q0 q); [lia|]. apply Gb. lia.
        -- intros i. rewrite nth_lset by lia. replace (S q - cp C j) with (S (q - cp C j)) by lia.
           rewrite seq_S, existsb_app. cbn [existsb]. replace (cp C j + (q - cp C j)) with q by lia. rewrite orb_false_r.
           destruct (Nat.eqb_spec i (nth q (rowind C) 0%nat)) as [->|Ne].
           ++ rewrite Nat.eqb_refl. now rewrite orb_true_r.
           ++ rewrite Gc. destruct (Nat.eqb_spec (nth q (rowind C) 0%nat) i); [congruence|]. now rewrite orb_false_r.
      * unfold Vec, F in *. rewrite E3. eexists; split; [reflexivity|]. cbn [fst snd] in *. split; auto. split.
        -- (* tmp is all zero again *)
           apply (nth_ext _ _ (0%Qc : F) (0%Qc : F)); [exact L3'|]. intros i Hi. rewrite G3, Hz.
           destruct (existsb _ _) eqn:Ex; [reflexivity|]. rewrite H1. unfold acc.
           destruct (Nat.leb_spec i j) as [?Hy|?Hn]; [|reflexivity].
           apply qsum_map_zero. intros q Hq. apply in_seq in Hq.
           assert (csc_get XT i (nth q (rowind X) 0%nat) = 0%Qc); [|rewrite H; fring].
           apply csc_get_zero. intros e He Ee.
           destruct (Htouch j q (cp XT (nth q (rowind X) 0%nat) + e) Hj ltac:(lia)) as (qc & Hqc & Eqc).
           { assert (Hqn : q < nnz X) by (pose proof (cp_pos_lt X HwX j (q - cp X j) ltac:(lia) ltac:(lia)) as Z0; replace (cp X j + (q - cp X j)) with q in Z0 by lia; exact Z0).
             assert (Hk : nth q (rowind X) 0 < ncols XT) by (rewrite HnT, <- HrX; apply wf_rows; auto).
             pose proof (cp_S XT HwT (nth q (rowind X) 0%nat) Hk) as Z. unfold Vec, F in *. lia. } { unfold Vec, F in *. lia. }
           apply not_true_iff_false in Ex. apply Ex. apply existsb_exists. exists qc. split; [apply in_seq; unfold Vec, F in *; lia|]. apply Nat.eqb_eq. unfold Vec, F in *. congruence.
        -- intros j' q Hj' Hq Hup. destruct (Nat.eq_dec j' j) as [->|Ne].
           ++ rewrite G1 by lia. now apply Hacc.
           ++ rewrite G2; [apply Hprev; auto; lia|]. left.
              assert (cp C (S j') <= cp C j) by (apply (off_mono (cp C) (clen C) (ncols C)); try lia; intros; now apply cp_S). lia.
  - unfold Vec, F in *. rewrite E. cbn [bind]. cbn [fst snd] in *. subst tmp'. exists cx. auto.
Qed.
End Scatter.

(* ================================================================ matrices on the pattern of csc_of_cols with other values *)
Section OfColsVals.
Variables (n : nat) (cols : nat -> list nat).
Hypothesis Hinc : forall j, j < n -> inc (cols j).
Hypothesis Hrow : forall j r, j < n -> In r (cols j) -> r < n.
Variable cx : Vec.
Let M0 := csc_of_cols n cols (fun _ _ => 0%Qc).
Let M := csc_set_vals M0 cx.
Hypothesis Lcx : length cx = coff cols n.

Lemma ocv_wf : wf_csc M = true.
Proof. apply (wf_set_vals M0 cx); [apply oc_wf; auto|]. unfold nnz, M0. now rewrite (proj1 (ofcols_nnz n cols (fun _ _ => 0%Qc))). Qed.
Lemma ocv_get_in j i : j < n -> i < length (cols j) -> csc_get M (nth i (cols j) 0) j = nth (coff cols j + i) cx 0%Qc.
Proof.
  intros Hj Hi. rewrite (csc_get_at M _ j i).
  - change (cp M j) with (cp M0 j). unfold M0. rewrite oc_cp by lia. reflexivity.
  - change (clen M j) with (clen M0 j). unfold M0. now rewrite oc_clen.
  - change (cp M j) with (cp M0 j). change (rowind M) with (rowind M0). unfold M0. rewrite oc_cp by lia. now apply ofcols_row.
  - intros i' Hi' Ne E. change (clen M j) with (clen M0 j) in Hi'. change (cp M j) with (cp M0 j) in E. change (rowind M) with (rowind M0) in E.
    unfold M0 in *. rewrite oc_clen in Hi' by auto. rewrite oc_cp in E by lia. rewrite ofcols_row in E by auto.
    apply inc_inj in E; auto.
Qed.
Lemma ocv_get_out j r : j < n -> ~ In r (cols j) -> csc_get M r j = 0%Qc.
Proof.
  intros Hj Hn. apply csc_get_zero. intros i Hi E.
  change (clen M j) with (clen M0 j) in Hi. change (cp M j) with (cp M0 j) in E. change (rowind M) with (rowind M0) in E.
  unfold M0 in *. rewrite oc_clen in Hi by auto. rewrite oc_cp in E by lia. rewrite ofcols_row in E by auto.
  apply Hn. rewrite <- E. now apply nth_In.
Qed.
Lemma ocv_src_ok (kcols : nat -> list nat) : (forall j r, j < n -> In r (cols j) -> In r (kcols j)) -> src_ok n kcols M.
Proof.
  intros Hsub. split; [apply ocv_wf|]. split; [reflexivity|]. split.
  - intros j u v Hj Hu Huv Hv. change (cp M j) with (cp M0 j) in Hu. change (cp M (S j)) with (cp M0 (S j)) in Hv. change (rowind M) with (rowind M0).
    unfold M0 in *. rewrite oc_cp in Hu, Hv by lia. cbn [coff] in Hv.
    replace u with (coff cols j + (u - coff cols j)) by lia. replace v with (coff cols j + (v - coff cols j)) by lia.
    rewrite !ofcols_row by (auto; lia). apply Hinc; auto; lia.
  - intros j u Hj [Hu Hv]. change (cp M j) with (cp M0 j) in Hu. change (cp M (S j)) with (cp M0 (S j)) in Hv. change (rowind M) with (rowind M0).
    unfold M0 in *. rewrite oc_cp in Hu, Hv by lia. cbn [coff] in Hv.
    replace u with (coff cols j + (u - coff cols j)) by lia. rewrite ofcols_row by (auto; lia).
    apply Hsub; auto. apply nth_In. lia.
Qed.
End OfColsVals.

(* ================================================================ init_workspace + create_kkt_matrix *)
Lemma prod_col_inc X XT j : inc (prod_col X XT j).
Proof. apply inc_filter_seq. Qed.
Lemma prod_col_le X XT j r : In r (prod_col X XT j) -> r <= j.
Proof. intros H. apply filter_In in H as [H _]. apply in_seq in H. lia. Qed.
Lemma sum_col_inc n P A G j : inc (sum_col n P A G j).
Proof. apply inc_filter_seq. Qed.

(* a stored entry of a strictly increasing column, by position *)
Lemma In_pos (cols : nat -> list nat) j r : In r (cols j) -> exists t, t < length (cols j) /\ nth t (cols j) 0 = r.
Proof. intros H. apply (In_nth _ _ 0) in H as (t & Ht & E). eauto. Qed.

Section ProdPattern.
Variables (X XT : csc F) (n r : nat).
Hypothesis HwX : wf_csc X = true.
Hypothesis HwT : wf_csc XT = true.
Hypothesis HnX : ncols X = n.  Hypothesis HrX : nrows X = r.
Hypothesis HnT : ncols XT = r. Hypothesis HrT : nrows XT = n.
Let C := prod_upper_pattern X XT.

Lemma pp_rows j i : j < n -> In i (prod_col X XT j) -> i < n.
Proof. intros Hj H. apply prod_col_le in H. lia. Qed.

Lemma pp_wf : wf_csc C = true.
Proof. unfold C, prod_upper_pattern. rewrite HrT. apply oc_wf. intros j i Hj H. now apply (pp_rows j). Qed.

Lemma pp_touch j q e : j < n -> cp X j <= q < cp X (S j) ->
  cp XT (nth q (rowind X) 0) <= e < cp XT (S (nth q (rowind X) 0)) -> nth e (rowind XT) 0 <= j ->
  exists qc, cp C j <= qc < cp C (S j) /\ nth qc (rowind C) 0 = nth e (rowind XT) 0.
Proof.
  intros Hj Hq He Hle.
  assert (EXS : cp X (S j) = cp X j + clen X j) by (apply cp_S; auto; lia).
  assert (Hqn : q < nnz X) by (pose proof (cp_pos_lt X HwX j (q - cp X j) ltac:(lia) ltac:(lia)) as Z; replace (cp X j + (q - cp X j)) with q in Z by lia; exact Z).
  assert (Hk : nth q (rowind X) 0 < ncols XT) by (rewrite HnT, <- HrX; apply wf_rows; auto).
  set (k := nth q (rowind X) 0) in *.
  assert (ETS : cp XT (S k) = cp XT k + clen XT k) by (apply cp_S; auto).
  assert (Hin : In (nth e (rowind XT) 0) (prod_col X XT j)).
  { apply filter_In. split; [apply in_seq; lia|]. unfold prod_has. apply existsb_exists. exists k. split.
    - apply (col_rows_In X HwX j k); [lia|]. exists (q - cp X j). split; [lia|]. unfold k. f_equal. lia.
    - apply memb_In. apply (col_rows_In XT HwT k _ Hk). exists (e - cp XT k). split; [lia|]. f_equal. lia. }
  destruct (In_pos (prod_col X XT) j _ Hin) as (t & Ht & Et).
  exists (coff (prod_col X XT) j + t). unfold C, prod_upper_pattern. rewrite HrT. rewrite !ofcols_cp by lia. cbn [coff].
  split; [lia|]. rewrite ofcols_row by auto. exact Et.
Qed.

Lemma pp_dist j q q' : j < n -> cp C j <= q < cp C (S j) -> cp C j <= q' < cp C (S j) ->
  nth q (rowind C) 0 = nth q' (rowind C) 0 -> q = q'.
Proof.
  unfold C, prod_upper_pattern. rewrite HrT. intros Hj. rewrite !ofcols_cp by lia. cbn [coff]. intros Hq Hq' E.
  replace q with (coff (prod_col X XT) j + (q - coff (prod_col X XT) j)) in E by lia.
  replace q' with (coff (prod_col X XT) j + (q' - coff (prod_col X XT) j)) in E by lia.
  rewrite !ofcols_row in E by (auto; lia). apply inc_inj in E; try apply prod_col_inc; lia.
Qed.

(* outside the pattern the product vanishes *)
Lemma prodval_out wt i j : j < n -> i <= j -> ~ In i (prod_col X XT j) -> prodval X XT r wt i j = 0%Qc.
Proof.
  intros Hj Hij Hn. unfold prodval. apply sum_n_zero. intros l Hl.
  destruct (in_dec Nat.eq_dec l (col_rows X j)) as [Hin|Hout].
  - assert (csc_get XT i l = 0%Qc); [|rewrite H; fring].
    apply csc_get_zero. intros e He Ee. apply Hn. apply filter_In. split; [apply in_seq; lia|].
    unfold prod_has. apply existsb_exists. exists l. split; auto. apply memb_In.
    apply (col_rows_In XT HwT l i ltac:(lia)). eauto.
  - assert (csc_get X l j = 0%Qc); [|rewrite H; fring].
    apply csc_get_zero. intros q Hq Eq. apply Hout. apply (col_rows_In X HwX j l ltac:(lia)). eauto.
Qed.
End ProdPattern.

(* ================================================================ the cached transposes *)
(* X is a valid cache of the transpose of XT (n x r): well formed, the right outer index, the transposed values, and it was
   produced by transpose_no_alloc from a matrix with the pattern of XT (so that re-transposing keeps its inner indices) *)
Definition same_pat (A B : csc F) : Prop :=
  colptr A = colptr B /\ rowind A = rowind B /\ ncols A = ncols B /\ nrows A = nrows B /\ length (vals A) = length (vals B).
Definition cache_ok (n r : nat) (XT X : csc F) : Prop :=
  wf_csc X = true /\ ncols X = n /\ nrows X = r /\ colptr X = transpose_colptr XT /\
  (forall l j, j < n -> csc_get X l j = csc_get XT j l) /\
  exists A0 C0, same_pat A0 XT /\ transpose_no_alloc A0 C0 = Ok X /\ colptr X = colptr C0.

Lemma same_pat_refl A : same_pat A A. Proof. repeat split. Qed.

Lemma csc_transpose_ok XT n r : wf_csc XT = true -> nrows XT = n -> ncols XT = r ->
  exists X, csc_transpose XT = Ok X /\ cache_ok n r XT X.
Proof.
  intros Hw Hn Hr. unfold csc_transpose. cbv zeta.
  destruct (transpose_after_alloc XT (repeat 0 (length (rowind XT))) (repeat (0%Qc : F) (length (rowind XT))) Hw) as (X & E & R1 & R2 & R3 & R4); try apply repeat_length.
  exists X. split; [exact E|]. split.
  - apply (tr_wf XT _ X E); auto. apply tr_buffer_wf; auto.
  - split; [congruence|]. split; [congruence|]. split; [exact R3|]. split; [intros l j Hj; apply R4; lia|].
    eexists XT, _. split; [apply same_pat_refl|]. split; [exact E|exact R3].
Qed.

Lemma transpose_colptr_pat (A B : csc F) : rowind A = rowind B -> nrows A = nrows B -> transpose_colptr A = transpose_colptr B.
Proof. unfold transpose_colptr. now intros -> ->. Qed.

Lemma retranspose_ok XT0 XT1 X n r : cache_ok n r XT0 X -> same_pat XT1 XT0 -> wf_csc XT1 = true -> nrows XT1 = n -> ncols XT1 = r ->
  exists X', transpose_no_alloc XT1 X = Ok X' /\ cache_ok n r XT1 X' /\ rowind X' = rowind X /\ colptr X' = colptr X.
Proof.
  intros (HwX & HnX & HrX & Hcp & _ & (A0 & C0 & SP0 & E0 & Ecp0)) SP Hw1 Hn1 Hr1.
  pose proof SP as (P1 & P2 & P3 & P4 & P5).
  assert (Hlen : length (count_rows (nrows XT1) (rowind XT1)) = nrows XT1) by (unfold count_rows; now rewrite map_length, seq_length).
  assert (Ecp1 : colptr X = transpose_colptr XT1) by (rewrite Hcp; symmetry; apply transpose_colptr_pat; auto).
  destruct (transpose_no_alloc_spec XT1 X Hw1) as (X' & E & R1 & R2 & R3 & R4).
  - rewrite Ecp1. unfold transpose_colptr. now rewrite cumsum_length, Hlen.
  - apply (wf_cp0 X HwX).
  - intros i Hi. rewrite Ecp1. unfold transpose_colptr. rewrite cumsum_S by lia. f_equal.
    unfold count_rows, cnt. rewrite (nth_indep _ 0 (length (filter (Nat.eqb 0) (rowind XT1)))) by (rewrite map_length, seq_length; lia).
    rewrite (map_nth (fun i => length (filter (Nat.eqb i) (rowind XT1)))). rewrite seq_nth by lia. reflexivity.
  - rewrite Hn1, <- HnX. rewrite (wf_cp_last X HwX). lia.
  - apply (wf_vals_len X HwX).
  - exists X'. split; [exact E|].
    assert (Erow : rowind X' = rowind X).
    { destruct SP0 as (Q1 & Q2 & Q3 & Q4 & Q5).
      apply (retranspose_rows A0 XT1 (rowind X)) with (C0 := C0); auto; congruence. }
    split; [|auto]. split.
    + apply (tr_wf XT1 X X' E); auto. congruence.
    + split; [congruence|]. split; [congruence|]. split; [congruence|]. split; [intros l j Hj; apply R4; lia|].
      exists XT1, X. split; [apply same_pat_refl|]. split; [exact E|exact R3].
Qed.

Lemma pp_eq X XT n : nrows XT = n -> prod_upper_pattern X XT = csc_of_cols n (prod_col X XT) (fun _ _ => 0%Qc).
Proof. intros <-. reflexivity. Qed.

(* col_rows only depends on the pattern *)
Lemma col_rows_pat {V W} (A : csc V) (B : csc W) j : colptr A = colptr B -> rowind A = rowind B -> col_rows A j = col_rows B j.
Proof. unfold col_rows. now intros -> ->. Qed.

(* ================================================================ init_workspace *)
Definition pvals (n : nat) (X XT : csc F) (r : nat) (wt : option (Vec * Vec * F)) (cx : Vec) : Prop :=
  let C := prod_upper_pattern X XT in
  length cx = nnz C /\
  forall j q, j < n -> cp C j <= q < cp C (S j) -> nth q (rowind C) 0 <= j -> nth q cx 0%Qc = prodval X XT r wt (nth q (rowind C) 0) j.

Lemma scatter_cache_ok (n r : nat) XT X wt (cx0 : Vec) : wf_csc XT = true -> nrows XT = n -> ncols XT = r -> cache_ok n r XT X -> wt_ok r wt ->
  length cx0 = nnz (prod_upper_pattern X XT) ->
  exists cx, scatter_product X XT (csc_set_vals (prod_upper_pattern X XT) cx0) wt (repeat 0%Qc n) = Ok (csc_set_vals (prod_upper_pattern X XT) cx, repeat 0%Qc n) /\
             pvals n X XT r wt cx.
Proof.
  intros HwT HnT HrT (HwX & HnX & HrX & _) Hwt L0.
  assert (HwC : wf_csc (csc_set_vals (prod_upper_pattern X XT) cx0) = true) by (apply (wf_set_vals (prod_upper_pattern X XT)); auto; apply (pp_wf X XT n r); auto).
  destruct (scatter_product_ok X XT (csc_set_vals (prod_upper_pattern X XT) cx0) n r wt HwX HwT HwC HnX HrX HrT HnT) with (tmp := repeat 0%Qc n)
    as (cx & E & L & Hv); auto.
  - apply (pp_touch X XT n r); auto.
  - apply (pp_dist X XT n r); auto.
  - rewrite repeat_length. lia.
  - intros. apply nth_repeat.
  - exists cx. split; [exact E|]. split; [exact L|exact Hv].
Qed.

Section Workspace.
Variable d : sdata.
Hypothesis Hwf : wf_sdata d.
Local Notation n := (sd_n d). Local Notation p := (sd_p d). Local Notation m := (sd_m d).
Local Notation AT := (sd_AT d). Local Notation GT := (sd_GT d).

Theorem all_workspace_ok delta : (1 + delta)%Qc <> 0%Qc ->
  exists A G ax gx,
    all_workspace d delta = Ok (A, G, csc_set_vals (prod_upper_pattern A AT) ax,
                                csc_set_vals (prod_upper_pattern G GT) (map (fun v => (v * (1 / (1 + delta)))%Qc) gx), repeat 0%Qc n) /\
    cache_ok n p AT A /\ cache_ok n m GT G /\ pvals n A AT p None ax /\ pvals n G GT m None gx.
Proof.
  intros Hd1. pose proof Hwf as (_ & _ & _ & HwAT & HrAT & HcAT & HwGT & HrGT & HcGT).
  destruct (csc_transpose_ok AT n p HwAT HrAT HcAT) as (A & EA & CA).
  destruct (csc_transpose_ok GT n m HwGT HrGT HcGT) as (G & EG & CG).
  unfold all_workspace. rewrite EA, EG. cbn [bind]. cbv zeta.
  pose proof CA as (_ & HnA & _). pose proof CG as (_ & HnG & _). rewrite HnA, HnG, Nat.max_id.
  destruct (scatter_cache_ok n p AT A None (vals (prod_upper_pattern A AT)) HwAT HrAT HcAT CA I) as (ax & E1 & V1).
  { apply (vals_len _ (pp_wf A AT n p HnA (proj1 (proj2 (proj2 CA))) HcAT HrAT)). }
  destruct (scatter_cache_ok n m GT G None (vals (prod_upper_pattern G GT)) HwGT HrGT HcGT CG I) as (gx & E2 & V2).
  { apply (vals_len _ (pp_wf G GT n m HnG (proj1 (proj2 (proj2 CG))) HcGT HrGT)). }
  change (csc_set_vals (prod_upper_pattern A AT) (vals (prod_upper_pattern A AT))) with (prod_upper_pattern A AT) in E1.
  change (csc_set_vals (prod_upper_pattern G GT) (vals (prod_upper_pattern G GT))) with (prod_upper_pattern G GT) in E2.
  unfold Vec, F in *. rewrite E1. cbn [bind]. rewrite E2. cbn [bind]. rewrite qdiv_nz by auto. cbn [bind].
  exists A, G, ax, gx. split; [reflexivity|]. auto.
Qed.
End Workspace.

(* ================================================================ create_kkt_matrix *)
Section Kkt.
Variable d : sdata.
Hypothesis Hwf : wf_sdata d.
Local Notation n := (sd_n d).
Local Notation P := (sd_P d).
Hypothesis Hup : upper_only P = true.
Hypothesis Hsorted : sorted_colsb P = true.
Variables (ca cg : nat -> list nat) (ax gx : Vec).
Hypothesis Hinca : forall j, j < n -> inc (ca j).
Hypothesis Hincg : forall j, j < n -> inc (cg j).
Hypothesis Hlea : forall j r, j < n -> In r (ca j) -> r <= j.
Hypothesis Hleg : forall j r, j < n -> In r (cg j) -> r <= j.
Hypothesis Lax : length ax = coff ca n.
Hypothesis Lgx : length gx = coff cg n.
Let ATA := csc_set_vals (csc_of_cols n ca (fun _ _ => 0%Qc)) ax.
Let GTG := csc_set_vals (csc_of_cols n cg (fun _ _ => 0%Qc)) gx.
Definition kcols_of : nat -> list nat := sum_col n P ATA GTG.
Local Notation kcols := kcols_of.

Lemma P_sorted j u v : j < n -> cp P j <= u -> u < v -> v < cp P (S j) -> nth u (rowind P) 0 < nth v (rowind P) 0.
Proof.
  intros Hj Hu Huv Hv. destruct Hwf as (HwP & _ & HcP & _).
  assert (Hstep : forall k, cp P j <= k -> S k < cp P (S j) -> nth k (rowind P) 0 < nth (S k) (rowind P) 0).
  { intros k Hk1 Hk2. unfold sorted_colsb in Hsorted. rewrite forallb_forall in Hsorted. specialize (Hsorted j ltac:(apply in_seq; lia)).
    rewrite forallb_forall in Hsorted. specialize (Hsorted k ltac:(apply in_seq; unfold clen; lia)).
    apply orb_true_iff in Hsorted as [H|H]; [apply Nat.eqb_eq in H; lia|now apply Nat.ltb_lt in H]. }
  induction Huv as [|v' Huv IH]; [apply Hstep; lia|]. specialize (IH ltac:(lia)). specialize (Hstep v' ltac:(lia) Hv). lia.
Qed.

Lemma Hrowa j r : j < n -> In r (ca j) -> r < n. Proof. intros Hj H. apply Hlea in H; auto. lia. Qed.
Lemma Hrowg j r : j < n -> In r (cg j) -> r < n. Proof. intros Hj H. apply Hleg in H; auto. lia. Qed.

Lemma ATA_cols j : j < n -> col_rows ATA j = ca j.
Proof. intros Hj. change (col_rows ATA j) with (col_rows (csc_of_cols n ca (fun _ _ => 0%Qc)) j). apply oc_col_rows; auto. apply Hrowa. Qed.
Lemma GTG_cols j : j < n -> col_rows GTG j = cg j.
Proof. intros Hj. change (col_rows GTG j) with (col_rows (csc_of_cols n cg (fun _ _ => 0%Qc)) j). apply oc_col_rows; auto. apply Hrowg. Qed.

Lemma kcols_in j r : j < n -> In r (kcols j) <-> r < n /\ (In r (col_rows P j) \/ r = j \/ In r (ca j) \/ In r (cg j)).
Proof.
  intros Hj. unfold kcols_of, sum_col. rewrite filter_In, in_seq, !orb_true_iff, !memb_In, Nat.eqb_eq, ATA_cols, GTG_cols by auto. intuition lia.
Qed.
Lemma kcols_inc j : inc (kcols j). Proof. apply inc_filter_seq. Qed.
Lemma kcols_row j r : j < n -> In r (kcols j) -> r < n. Proof. intros Hj H. apply kcols_in in H; tauto. Qed.
Lemma kcols_diag j : j < n -> In j (kcols j). Proof. intros Hj. apply kcols_in; auto. Qed.
Lemma kcols_le j r : j < n -> In r (kcols j) -> r <= j.
Proof.
  intros Hj H. destruct Hwf as (HwP & _ & HcP & _). apply kcols_in in H as [_ [H|[H|[H|H]]]]; auto; try lia.
  apply (col_rows_In P HwP j _ ltac:(lia)) in H as (i0 & Hi0 & <-).
  unfold upper_only in Hup. rewrite forallb_forall in Hup. specialize (Hup j ltac:(apply in_seq; lia)). rewrite forallb_forall in Hup.
  apply Nat.leb_le. apply Hup. apply in_seq. fold (cp P j) (cp P (S j)). unfold clen in Hi0. lia.
Qed.

Lemma srcP_ok : src_ok n kcols P.
Proof.
  pose proof Hwf as (HwP & HrP & HcP & _). split; auto. split; auto. split; [intros; now apply (P_sorted j)|].
  intros j u Hj Hu. apply kcols_in; auto. split.
  - rewrite <- HrP. apply wf_rows; auto. pose proof (cp_le_nnz P HwP (S j) ltac:(lia)). unfold nnz in *. lia.
  - left. apply (col_rows_In P HwP j _ ltac:(lia)). exists (u - cp P j). split; [unfold clen; lia|]. f_equal. lia.
Qed.
Lemma srcA_ok : src_ok n kcols ATA.
Proof. apply ocv_src_ok; auto. apply Hrowa. intros j r Hj H. apply kcols_in; auto. split; [now apply (Hrowa j)|tauto]. Qed.
Lemma srcG_ok : src_ok n kcols GTG.
Proof. apply ocv_src_ok; auto. apply Hrowg. intros j r Hj H. apply kcols_in; auto. split; [now apply (Hrowg j)|tauto]. Qed.

Definition kval_of (rho dinv : F) (i j : nat) : F :=
  (csc_get P i j + (if i =? j then rho else 0) + dinv * csc_get ATA i j + csc_get GTG i j)%Qc.

Theorem all_kkt_ok rho delta : delta <> 0%Qc ->
  exists p2k a2k g2k,
    all_kkt d rho delta ATA GTG = Ok (csc_of_cols n kcols (kval_of rho (1 / delta)%Qc), p2k, a2k, g2k) /\
    map_ok n kcols P p2k /\ map_ok n kcols ATA a2k /\ map_ok n kcols GTG g2k.
Proof.
  intros Hd. unfold all_kkt. rewrite qdiv_nz by auto. cbn [bind]. cbv zeta.
  change (kkt_sum n P ATA GTG rho (1 / delta)%Qc) with (csc_of_cols n kcols (kval_of rho (1 / delta)%Qc)).
  destruct (compute_maps_ok n kcols (kval_of rho (1 / delta)%Qc) (fun j _ => kcols_inc j) P ATA GTG srcP_ok srcA_ok srcG_ok
              (repeat 0 (nnz P)) (repeat 0 (nnz ATA)) (repeat 0 (nnz GTG))) as (p2k & a2k & g2k & E & M1 & M2 & M3); try apply repeat_length.
  rewrite E. cbn [bind]. exists p2k, a2k, g2k. auto.
Qed.

(* the assembled sum: well formed, upper triangular, diagonal last, and its entries *)
Let K (rho dinv : F) := csc_of_cols n kcols (kval_of rho dinv).

Lemma K_wf rho dinv : wf_csc (K rho dinv) = true.
Proof. apply oc_wf. apply kcols_row. Qed.
Lemma K_upper rho dinv : upper_only (K rho dinv) = true.
Proof.
  unfold upper_only. change (ncols (K rho dinv)) with n. apply forallb_forall. intros j Hj. apply in_seq in Hj.
  apply forallb_forall. intros q Hq. apply in_seq in Hq.
  change (nth j (colptr (K rho dinv)) 0) with (cp (K rho dinv) j) in Hq. change (nth (S j) (colptr (K rho dinv)) 0) with (cp (K rho dinv) (S j)) in Hq.
  unfold K in *. rewrite !ofcols_cp in Hq by lia. cbn [coff] in Hq.
  apply Nat.leb_le. replace q with (coff kcols j + (q - coff kcols j)) by lia. rewrite ofcols_row by lia.
  apply kcols_le; [lia|]. apply nth_In. lia.
Qed.
Lemma K_diag_last rho dinv : diag_is_last (K rho dinv).
Proof.
  intros j Hj. unfold K in *. cbn [ncols csc_of_cols] in Hj. rewrite !ofcols_cp by lia. cbn [coff].
  destruct (inc_last (kcols j) j (kcols_inc j) (kcols_diag j Hj) (fun y Hy => kcols_le j y Hj Hy)) as [El Hpos].
  split; [lia|]. replace (coff kcols j + length (kcols j) - 1) with (coff kcols j + (length (kcols j) - 1)) by lia.
  rewrite ofcols_row by lia. exact El.
Qed.
Lemma K_get rho dinv i j : j < n -> i <> j \/ True -> csc_get (K rho dinv) i j = kval_of rho dinv i j.
Proof.
  intros Hj _. pose proof Hwf as (HwP & _ & HcP & _).
  destruct (in_dec Nat.eq_dec i (kcols j)) as [Hin|Hout].
  - destruct (In_pos _ j i Hin) as (t & Ht & <-). unfold K. rewrite (oc_get_in n kcols _ (fun j _ => kcols_inc j)) by auto. reflexivity.
  - unfold K. rewrite (oc_get_out n kcols) by auto.
    assert (Hne : i <> j) by (intros ->; apply Hout; now apply kcols_diag).
    destruct (Nat.lt_ge_cases i n) as [Hi|Hi].
    + assert (Z1 : csc_get P i j = 0%Qc).
      { apply csc_get_zero. intros i0 Hi0 E. apply Hout. apply kcols_in; auto. split; [lia|]. left. apply (col_rows_In P HwP j _ ltac:(lia)). eauto. }
      assert (Z2 : csc_get ATA i j = 0%Qc).
      { unfold ATA. apply ocv_get_out; auto. intros H. apply Hout. apply (proj2 (kcols_in j i Hj)). split; [lia|tauto]. }
      assert (Z3 : csc_get GTG i j = 0%Qc).
      { unfold GTG. apply ocv_get_out; auto. intros H. apply Hout. apply (proj2 (kcols_in j i Hj)). split; [lia|tauto]. }
      unfold kval_of. rewrite Z1, Z2, Z3. destruct (Nat.eqb_spec i j); [contradiction|]. fring.
    + assert (Z1 : csc_get P i j = 0%Qc).
      { apply csc_get_zero. intros i0 Hi0 E. pose proof Hwf as (_ & HrP & _).
        assert (nth (cp P j + i0) (rowind P) 0 < nrows P) by (apply wf_rows; auto; apply cp_pos_lt; auto; lia). lia. }
      assert (Z2 : csc_get ATA i j = 0%Qc).
      { unfold ATA. apply ocv_get_out; auto. intros H. apply Hrowa in H; auto; lia. }
      assert (Z3 : csc_get GTG i j = 0%Qc).
      { unfold GTG. apply ocv_get_out; auto. intros H. apply Hrowg in H; auto; lia. }
      unfold kval_of. rewrite Z1, Z2, Z3. destruct (Nat.eqb_spec i j); [contradiction|]. fring.
Qed.
End Kkt.

(* ================================================================ init_workspace + create_kkt_matrix together *)
Lemma pvals_len n X XT r wt cx : nrows XT = n -> pvals n X XT r wt cx -> length cx = coff (prod_col X XT) n.
Proof. intros Hn [L _]. rewrite L. unfold nnz. rewrite (pp_eq X XT n Hn). apply (ofcols_nnz n (prod_col X XT) (fun _ _ => 0%Qc)). Qed.

(* entries of a cached product: the exact sums on and off the pattern *)
Lemma pvals_get n r X XT wt cx i j : wf_csc X = true -> wf_csc XT = true -> ncols X = n -> nrows X = r -> ncols XT = r -> nrows XT = n ->
  pvals n X XT r wt cx -> i <= j -> j < n ->
  csc_get (csc_set_vals (csc_of_cols n (prod_col X XT) (fun _ _ => 0%Qc)) cx) i j = prodval X XT r wt i j.
Proof.
  intros HwX HwT HnX HrX HnT HrT Hp Hij Hj. pose proof (pvals_len n X XT r wt cx HrT Hp) as L. destruct Hp as [_ Hv].
  rewrite (pp_eq X XT n HrT) in Hv.
  destruct (in_dec Nat.eq_dec i (prod_col X XT j)) as [Hin|Hout].
  - destruct (In_pos _ j i Hin) as (t & Ht & <-).
    rewrite ocv_get_in; auto; try (intros; apply prod_col_inc).
    rewrite (Hv j (coff (prod_col X XT) j + t)); auto.
    + rewrite ofcols_row by auto. reflexivity.
    + rewrite !ofcols_cp by lia. cbn [coff]. lia.
    + rewrite ofcols_row by auto. exact Hij.
  - rewrite ocv_get_out; auto. symmetry. apply (prodval_out X XT n r); auto.
Qed.

Section CreateAll.
Variable d : sdata.
Hypothesis Hwf : wf_sdata d.
Local Notation n := (sd_n d). Local Notation p := (sd_p d). Local Notation m := (sd_m d).
Local Notation P := (sd_P d). Local Notation AT := (sd_AT d). Local Notation GT := (sd_GT d).
Hypothesis Hup : upper_only P = true.
Hypothesis Hsorted : sorted_colsb P = true.

(* the cached products of a state, by their column functions and values *)
Definition ATA_of (A : csc F) (ax : Vec) : csc F := csc_set_vals (csc_of_cols n (prod_col A AT) (fun _ _ => 0%Qc)) ax.
Definition GTG_of (G : csc F) (gx : Vec) : csc F := csc_set_vals (csc_of_cols n (prod_col G GT) (fun _ _ => 0%Qc)) gx.
Definition kcols_all (A G : csc F) : nat -> list nat := kcols_of d (prod_col A AT) (prod_col G GT) [] [].

Lemma kcols_all_eq A G ax gx : kcols_all A G = sum_col n P (ATA_of A ax) (GTG_of G gx).
Proof. reflexivity. Qed.

Theorem all_create_ok rho delta : delta <> 0%Qc -> (1 + delta)%Qc <> 0%Qc ->
  exists A G ax gx p2k a2k g2k,
    let gx' := map (fun v => (v * (1 / (1 + delta)))%Qc) gx in
    let kcols := kcols_all A G in
    all_create d rho delta =
      Ok (mkallmat (csc_of_cols n kcols (kval_of d (prod_col A AT) (prod_col G GT) ax gx' rho (1 / delta)%Qc))
                   p2k a2k g2k A G (ATA_of A ax) (GTG_of G gx') (repeat 0%Qc n)) /\
    cache_ok n p AT A /\ cache_ok n m GT G /\ pvals n A AT p None ax /\ pvals n G GT m None gx /\
    map_ok n kcols P p2k /\ map_ok n kcols (ATA_of A ax) a2k /\ map_ok n kcols (GTG_of G gx') g2k.
Proof.
  intros Hd Hd1. pose proof Hwf as (_ & _ & _ & HwAT & HrAT & HcAT & HwGT & HrGT & HcGT).
  destruct (all_workspace_ok d Hwf delta Hd1) as (A & G & ax & gx & EW & CA & CG & VA & VG).
  set (gx' := map (fun v => (v * (1 / (1 + delta)))%Qc) gx).
  assert (LA : length ax = coff (prod_col A AT) n) by (apply (pvals_len n A AT p None); auto).
  assert (LG : length gx' = coff (prod_col G GT) n) by (unfold gx'; rewrite map_length; apply (pvals_len n G GT m None); auto).
  destruct (all_kkt_ok d Hwf Hsorted (prod_col A AT) (prod_col G GT) ax gx') with (rho := rho) (delta := delta)
    as (p2k & a2k & g2k & EK & M1 & M2 & M3); auto; try (intros; apply prod_col_inc); try (intros j r0 Hj H; now apply prod_col_le in H).
  exists A, G, ax, gx, p2k, a2k, g2k. cbv zeta. fold gx'. split; [|auto 10].
  unfold all_create. rewrite EW. cbn [bind].
  rewrite (pp_eq A AT n HrAT), (pp_eq G GT n HrGT). fold gx'. fold (ATA_of A ax). fold (GTG_of G gx').
  unfold ATA_of, GTG_of in *. rewrite EK. cbn [bind]. reflexivity.
Qed.
End CreateAll.

(* ================================================================ the accumulation loops of update_kkt_*_scalings *)
Lemma for_range_split {S} lo mid hi (f : nat -> S -> res S) s : lo <= mid -> mid <= hi ->
  for_range lo hi f s = (do s' <- for_range lo mid f s ;; for_range mid hi f s').
Proof.
  intros H1 H2. unfold for_range. replace (hi - lo) with ((mid - lo) + (hi - mid)) by lia.
  rewrite seq_app, foldM_app. replace (lo + (mid - lo)) with mid by lia. reflexivity.
Qed.

(* a loop over the columns whose body ignores the column index is a loop over all stored entries *)
Lemma for_cols_flat {V S} (M : csc V) (body : nat -> S -> res S) : wf_csc M = true -> forall s,
  for_range 0 (ncols M) (fun j s => do lo <- get (colptr M) j ;; do hi <- get (colptr M) (Datatypes.S j) ;; for_range lo hi body s) s
  = for_range 0 (nnz M) body s.
Proof.
  intros Hw. rewrite <- (cp_last M Hw).
  assert (H : forall c, c <= ncols M -> forall s,
             for_range 0 c (fun j s => do lo <- get (colptr M) j ;; do hi <- get (colptr M) (Datatypes.S j) ;; for_range lo hi body s) s
             = for_range 0 (cp M c) body s).
  { induction c; intros Hc s.
    - rewrite (cp_0 M Hw). reflexivity.
    - rewrite (for_range_split 0 c (Datatypes.S c)) by lia. rewrite IHc by lia.
      rewrite (for_range_split 0 (cp M c) (cp M (Datatypes.S c))); try lia.
      2:{ rewrite (cp_S M Hw c) by lia. lia. }
      destruct (for_range 0 (cp M c) body s) as [s1|]; cbn [bind]; [|reflexivity].
      unfold for_range at 1. replace (Datatypes.S c - c) with 1 by lia. cbn [seq foldM].
      rewrite (get_cp M Hw c), (get_cp M Hw (Datatypes.S c)) by lia. cbn [bind].
      destruct (for_range (cp M c) (cp M (Datatypes.S c)) body s1); reflexivity. }
  intros s. apply H. lia.
Qed.

Lemma add_vals_ok (m2k pki : list nat) (c : option F) (src : Vec) cnt (kx0 : Vec) L (tgt : nat -> nat) :
  (forall k, k < cnt -> k < length m2k /\ nth k m2k 0 < length pki /\ nth (nth k m2k 0) pki 0 = tgt k /\ tgt k < L) ->
  cnt <= length src -> length kx0 = L ->
  exists kx, add_vals m2k pki c src cnt kx0 = Ok kx /\ length kx = L /\
    forall q, nth q kx 0%Qc = (nth q kx0 0 + qsum (map (fun k => if tgt k =? q then match c with None => nth k src 0 | Some c => c * nth k src 0 end else 0) (seq 0 cnt)))%Qc.
Proof.
  intros Ht Ls L0. unfold add_vals.
  destruct (for_range_ind (fun j (kx : Vec) => length kx = L /\
      forall q, nth q kx 0%Qc = (nth q kx0 0 + qsum (map (fun k => if tgt k =? q then match c with None => nth k src 0 | Some c => c * nth k src 0 end else 0) (seq 0 j)))%Qc)
    0 cnt (fun k kx => do q0 <- get m2k k ;; do q <- get pki q0 ;; do v <- get src k ;; do old <- get kx q ;;
                       upd kx q (old + match c with None => v | Some c => c * v end)%Qc) kx0) as (kx & E & L1 & H1); try lia.
  - split; auto. intros q. cbn [seq map]. unfold qsum; cbn. fring.
  - intros k kx [_ Hk] (Lk & Hq). destruct (Ht k Hk) as (T1 & T2 & T3 & T4).
    rewrite (get_nth m2k k 0) by auto. cbn [bind]. rewrite (get_nth pki _ 0) by auto. cbn [bind]. rewrite T3.
    rewrite (get_nth src k 0%Qc) by lia. cbn [bind]. rewrite (get_nth kx _ 0%Qc) by lia. cbn [bind].
    rewrite upd_lset by lia. eexists; split; [reflexivity|]. split; [now rewrite lset_length|].
    intros q. rewrite nth_lset by lia. rewrite qsum_map_seq_S. cbn [Nat.add]. rewrite (Nat.eqb_sym q).
    destruct (Nat.eqb_spec (tgt k) q) as [<-|Ne]; rewrite Hq; fring.
  - exists kx. auto.
Qed.

(* the contributions of a source of the sum to one stored entry of K add up to its entry *)
Section SrcSum.
Variables (n : nat) (kcols : nat -> list nat) (Src : csc F) (mp : list nat).
Hypothesis Hinc : forall j, j < n -> inc (kcols j).
Hypothesis HS : src_ok n kcols Src.
Hypothesis HM : map_ok n kcols Src mp.

Lemma src_sum (c : F) j t : j < n -> t < length (kcols j) ->
  qsum (map (fun k => if nth k mp 0 =? coff kcols j + t then (c * nth k (vals Src) 0)%Qc else 0%Qc) (seq 0 (nnz Src)))
  = (c * csc_get Src (nth t (kcols j) 0%nat) j)%Qc.
Proof.
  intros Hj Ht. destruct HS as (Hw & Hc & Hs & Hu). destruct HM as [Lm Hm].
  unfold csc_get. cbv zeta. fold (cp Src j) (cp Src (S j)).
  assert (B1 : cp Src j <= cp Src (S j)) by (rewrite (cp_S Src Hw j) by lia; lia).
  assert (B2 : cp Src (S j) <= nnz Src) by (apply cp_le_nnz; auto; lia).
  rewrite (qsum_range_extend _ (cp Src j) (cp Src (S j)) (nnz Src)) by auto.
  rewrite (Qcmult_comm c). rewrite <- qsum_map_scale_r.
  apply qsum_map_ext. intros k Hk. apply in_seq in Hk.
  destruct (pos_decomp Src Hw k ltac:(lia)) as (j' & u & Hj' & Hu' & ->). rewrite Hc in Hj'.
  assert (EcS : cp Src (S j') = cp Src j' + clen Src j') by (apply cp_S; auto; lia).
  destruct (Hm j' (cp Src j' + u) Hj' ltac:(lia)) as (t' & Ht' & Er & Em). rewrite Em.
  destruct (Nat.eq_dec j' j) as [->|Nj].
  - destruct (Nat.leb_spec (cp Src j) (cp Src j + u)) as [?Hy|?Hn]; [|lia].
    destruct (Nat.ltb_spec (cp Src j + u) (cp Src (S j))) as [?Hy|?Hn]; [|lia]. cbn [andb].
    destruct (Nat.eqb_spec (coff kcols j + t') (coff kcols j + t)) as [Eq|Ne].
    + assert (t' = t) by lia. subst t'. rewrite <- Er, Nat.eqb_refl. fring.
    + destruct (Nat.eqb_spec (nth (cp Src j + u) (rowind Src) 0) (nth t (kcols j) 0)) as [Eq|?Hn]; [|fring].
      exfalso. rewrite <- Er in Eq. apply inc_inj in Eq; auto; lia.
  - assert (Hout : (cp Src j <=? cp Src j' + u) && (cp Src j' + u <? cp Src (S j)) = false).
    { destruct (Nat.lt_ge_cases j' j).
      - assert (cp Src (S j') <= cp Src j) by (apply (off_mono (cp Src) (clen Src) (ncols Src)); try lia; intros; now apply cp_S).
        destruct (Nat.leb_spec (cp Src j) (cp Src j' + u)); [lia|reflexivity].
      - assert (cp Src (S j) <= cp Src j') by (apply (off_mono (cp Src) (clen Src) (ncols Src)); try lia; intros; now apply cp_S).
        destruct (Nat.ltb_spec (cp Src j' + u) (cp Src (S j))); [lia|]. now rewrite andb_false_r. }
    rewrite Hout.
    destruct (Nat.eqb_spec (coff kcols j' + t') (coff kcols j + t)) as [Eq|Ne]; [|fring].
    exfalso. apply (off_unique (coff kcols) (fun j => length (kcols j)) n) in Eq; auto. destruct Eq; contradiction.
Qed.
End SrcSum.

(* ================================================================ the state invariant and the refresh *)
Lemma diag_add_ok (pinv kp : list nat) (N L : nat) (dp : nat -> nat) (rho : F) (kx0 : Vec) :
  (forall col, col < N -> dpos pinv kp col = Ok (dp col)) -> (forall col, col < N -> dp col < L) ->
  (forall c c', c < N -> c' < N -> dp c = dp c' -> c = c') -> length kx0 = L ->
  exists kx, for_range 0 N (fun col kx => do q <- dpos pinv kp col ;; do old <- get kx q ;; upd kx q (old + rho)%Qc) kx0 = Ok kx /\
    length kx = L /\ (forall col, col < N -> nth (dp col) kx 0%Qc = (nth (dp col) kx0 0 + rho)%Qc) /\
    (forall q, (forall col, col < N -> dp col <> q) -> nth q kx 0%Qc = nth q kx0 0%Qc).
Proof.
  intros Hdp Hlt Hinj L0.
  destruct (for_range_ind (fun j (kx : Vec) => length kx = L /\
      (forall col, col < j -> nth (dp col) kx 0%Qc = (nth (dp col) kx0 0 + rho)%Qc) /\
      (forall col, j <= col < N -> nth (dp col) kx 0%Qc = nth (dp col) kx0 0%Qc) /\
      (forall q, (forall col, col < N -> dp col <> q) -> nth q kx 0%Qc = nth q kx0 0%Qc))
    0 N (fun col kx => do q <- dpos pinv kp col ;; do old <- get kx q ;; upd kx q (old + rho)%Qc) kx0) as (kx & E & L1 & H1 & _ & H3); try lia.
  - split; auto. split; [intros; lia|]. split; auto.
  - intros col kx [_ Hc] (Lk & A1 & A2 & A3). rewrite Hdp by auto. cbn [bind].
    assert (dp col < length kx) by (rewrite Lk; auto). rewrite (get_nth kx _ 0%Qc) by auto. cbn [bind]. rewrite upd_lset by auto.
    eexists; split; [reflexivity|]. split; [now rewrite lset_length|]. split; [|split].
    + intros c' Hc'. rewrite nth_lset by auto. destruct (Nat.eqb_spec (dp c') (dp col)) as [Eq|Ne].
      * apply Hinj in Eq; try lia. subst. rewrite A2 by lia. reflexivity.
      * apply A1. destruct (Nat.eq_dec c' col); [subst; congruence|lia].
    + intros c' Hc'. rewrite nth_lset by auto. destruct (Nat.eqb_spec (dp c') (dp col)) as [Eq|Ne]; [apply Hinj in Eq; lia|]. apply A2. lia.
    + intros q Hq. rewrite nth_lset by auto. destruct (Nat.eqb_spec q (dp col)) as [Eq|Ne]; [exfalso; apply (Hq col); auto|]. now apply A3.
  - exists kx. auto.
Qed.

(* data-only forms of the two products *)
Definition SAd (d : sdata) (i j : nat) : F := sum_n (sd_p d) (fun l => (csc_get (sd_AT d) i l * csc_get (sd_AT d) j l)%Qc).
Definition SGd (d : sdata) (c : scal) (i j : nat) : F :=
  sum_n (sd_m d) (fun l => (1 / (nth l (sc_s c) 0 * nth l (sc_z_inv c) 0 + sc_delta c) * csc_get (sd_GT d) i l * csc_get (sd_GT d) j l)%Qc).

Lemma prodval_cache n r XT X wt i j : cache_ok n r XT X -> j < n -> prodval X XT r wt i j = sum_n r (fun l => (wt_val wt l * csc_get XT i l * csc_get XT j l)%Qc).
Proof. intros (_ & _ & _ & _ & Hg & _) Hj. unfold prodval. apply sum_n_ext. intros l Hl. now rewrite Hg. Qed.

(* the entry of the reduced operator the code assembles at (i, j), i <= j *)
Definition Kall (d : sdata) (c : scal) (i j : nat) : F :=
  (csc_get (sd_P d) i j + (if i =? j then sc_rho c + a_bdiag (sys_sparse d c) i else 0)
   + 1 / sc_delta c * SAd d i j + SGd d c i j)%Qc.

Definition all_scal_ok (d : sdata) (c : scal) : Prop :=
  scal_ok d c /\ sc_delta c <> 0%Qc /\ forall l, l < sd_m d -> (nth l (sc_s c) 0 * nth l (sc_z_inv c) 0 + sc_delta c)%Qc <> 0%Qc.

Section StateAll.
Variable d : sdata.
Hypothesis Hwf : wf_sdata d.
Local Notation n := (sd_n d). Local Notation p := (sd_p d). Local Notation m := (sd_m d).
Local Notation P := (sd_P d). Local Notation AT := (sd_AT d). Local Notation GT := (sd_GT d).
Hypothesis Hup : upper_only P = true.
Hypothesis Hsorted : sorted_colsb P = true.

(* everything of the state except the scalings and the values of PKPt / GT_W_delta_inv_G (identity ordering) *)
Definition all_static (k : akkt) : Prop :=
  exists ax gx,
    let A := ak_A k in let G := ak_G k in let kcols := kcols_all d A G in
    cache_ok n p AT A /\ cache_ok n m GT G /\
    ak_ATA k = ATA_of d A ax /\ ak_GTG k = GTG_of d G gx /\
    pvals n A AT p None ax /\ length gx = coff (prod_col G GT) n /\
    ak_pinv k = seq 0 n /\ ak_PKi k = seq 0 (coff kcols n) /\
    ak_kp k = colptr (csc_of_cols n kcols (fun _ _ => 0%Qc)) /\ ak_ki k = rowind (csc_of_cols n kcols (fun _ _ => 0%Qc)) /\
    map_ok n kcols P (ak_P2K k) /\ map_ok n kcols (ATA_of d A ax) (ak_A2K k) /\ map_ok n kcols (GTG_of d G gx) (ak_G2K k) /\
    ak_tmp k = repeat 0%Qc n /\ length (ak_kx k) = coff kcols n.

(* canonical values: the entry (i, j) of K_red(data, scalings) at the position of (i, j) *)
Definition all_form (c : scal) (k : akkt) : Prop :=
  all_static k /\ ak_sc k = c /\
  let kcols := kcols_all d (ak_A k) (ak_G k) in
  forall j t, j < n -> t < length (kcols j) -> nth (coff kcols j + t) (ak_kx k) 0%Qc = Kall d c (nth t (kcols j) 0) j.

Section WithCaches.
Variables (A G : csc F).
Hypothesis CA : cache_ok n p AT A.
Hypothesis CG : cache_ok n m GT G.
Local Notation ca := (prod_col A AT). Local Notation cg := (prod_col G GT).
Local Notation kcols := (kcols_all d A G).
Let Hlea : forall j r, j < n -> In r (ca j) -> r <= j. Proof. intros j r _ H. now apply prod_col_le in H. Qed.
Let Hleg : forall j r, j < n -> In r (cg j) -> r <= j. Proof. intros j r _ H. now apply prod_col_le in H. Qed.

Let ax0 : Vec := repeat 0%Qc (coff ca n).
Let gx0 : Vec := repeat 0%Qc (coff cg n).
Let L1 : length ax0 = coff ca n. Proof. apply repeat_length. Qed.
Let L2 : length gx0 = coff cg n. Proof. apply repeat_length. Qed.
Lemma kc_in j r : j < n -> In r (kcols j) <-> r < n /\ (In r (col_rows P j) \/ r = j \/ In r (ca j) \/ In r (cg j)).
Proof. exact (kcols_in d ca cg ax0 gx0 Hlea Hleg L1 L2 j r). Qed.
Lemma kc_inc j : inc (kcols j). Proof. apply inc_filter_seq. Qed.
Lemma kc_diag j : j < n -> In j (kcols j). Proof. exact (kcols_diag d ca cg ax0 gx0 Hlea Hleg L1 L2 j). Qed.
Lemma kc_le j r : j < n -> In r (kcols j) -> r <= j. Proof. exact (kcols_le d Hwf Hup ca cg ax0 gx0 Hlea Hleg L1 L2 j r). Qed.
Lemma kc_row j r : j < n -> In r (kcols j) -> r < n. Proof. intros Hj H. apply kc_le in H; auto. lia. Qed.

Definition dpA (col : nat) : nat := coff kcols (S col) - 1.
Lemma kc_pos j : j < n -> 0 < length (kcols j).
Proof. intros Hj. pose proof (kc_diag j Hj) as H. destruct (kcols j); [inversion H|cbn; lia]. Qed.
Lemma dpA_eq col : col < n -> dpA col = coff kcols col + (length (kcols col) - 1).
Proof. intros Hc. unfold dpA. cbn [coff]. pose proof (kc_pos col Hc). lia. Qed.
Lemma dpA_lt col : col < n -> dpA col < coff kcols n.
Proof. intros Hc. rewrite dpA_eq by auto. pose proof (kc_pos col Hc). apply (off_lt (coff kcols) (fun j => length (kcols j)) n); auto; lia. Qed.
Lemma dpA_inj c c' : c < n -> c' < n -> dpA c = dpA c' -> c = c'.
Proof.
  intros Hc Hc'. rewrite !dpA_eq by auto. intros E. pose proof (kc_pos c Hc). pose proof (kc_pos c' Hc').
  apply (off_unique (coff kcols) (fun j => length (kcols j)) n) in E; auto; try lia; tauto.
Qed.
Lemma dpos_all col : col < n -> dpos (seq 0 n) (colptr (csc_of_cols n kcols (fun _ _ => 0%Qc))) col = Ok (dpA col).
Proof.
  intros Hc. unfold dpos. rewrite (get_nth (seq 0 n) col 0) by (rewrite seq_length; auto). rewrite seq_nth by auto. cbn [bind Nat.add].
  rewrite (get_nth _ (S col) 0) by (rewrite ofcols_cp_len; lia). cbn [bind].
  change (nth (S col) (colptr (csc_of_cols n kcols (fun _ _ => 0%Qc))) 0) with (cp (csc_of_cols n kcols (fun _ _ => 0%Qc)) (S col)).
  rewrite ofcols_cp by lia. apply pred_chk_pos. cbn [coff]. pose proof (kc_pos col Hc). lia.
Qed.
(* the last entry of a column is its diagonal, and only it *)
Lemma kc_diag_iff j t : j < n -> t < length (kcols j) -> (nth t (kcols j) 0 = j <-> S t = length (kcols j)).
Proof.
  intros Hj Ht.
  destruct (inc_last (kcols j) j (kc_inc j) (kc_diag j Hj) (fun y Hy => kc_le j y Hj Hy)) as [El _].
  split.
  - intros E. assert (E' : nth t (kcols j) 0 = nth (length (kcols j) - 1) (kcols j) 0) by congruence.
    apply inc_inj in E'; auto; try lia. apply kc_inc.
  - intros E. replace t with (length (kcols j) - 1) by lia. exact El.
Qed.

(* maps of the three sources address positions below the number of stored entries *)
Lemma map_lt (S0 : csc F) mp : src_ok n kcols S0 -> map_ok n kcols S0 mp -> forall k, k < nnz S0 -> nth k mp 0 < coff kcols n.
Proof.
  intros (Hw & Hc & _) [_ Hm] k Hk. destruct (pos_decomp S0 Hw k Hk) as (j & u & Hj & Hu & ->). rewrite Hc in Hj.
  destruct (Hm j (cp S0 j + u) Hj) as (t & Ht & _ & ->). { rewrite (cp_S S0 Hw j) by lia. lia. }
  apply (off_lt (coff kcols) (fun j => length (kcols j)) n); auto; lia.
Qed.

(* one accumulation pass through a map, at a stored entry of K *)
Lemma add_pass (S0 : csc F) mp (c : option F) (kx0 : Vec) : src_ok n kcols S0 -> map_ok n kcols S0 mp -> length kx0 = coff kcols n ->
  exists kx, add_vals mp (seq 0 (coff kcols n)) c (vals S0) (nnz S0) kx0 = Ok kx /\ length kx = coff kcols n /\
    forall j t, j < n -> t < length (kcols j) ->
      nth (coff kcols j + t) kx 0%Qc = (nth (coff kcols j + t) kx0 0 + match c with None => 1 | Some c => c end * csc_get S0 (nth t (kcols j) 0%nat) j)%Qc.
Proof.
  intros HS HM L0. pose proof HS as (Hw & _). pose proof HM as [Lm _].
  destruct (add_vals_ok mp (seq 0 (coff kcols n)) c (vals S0) (nnz S0) kx0 (coff kcols n) (fun k => nth k mp 0)) as (kx & E & L & Hq); auto.
  - intros k Hk. pose proof (map_lt S0 mp HS HM k Hk). rewrite seq_length. split; [lia|]. split; auto. split; [now rewrite seq_nth|auto].
  - rewrite (vals_len S0 Hw). lia.
  - exists kx. split; auto. split; auto. intros j t Hj Ht. rewrite Hq. f_equal.
    rewrite <- (src_sum n kcols S0 mp (fun j _ => kc_inc j) HS HM _ j t Hj Ht).
    apply qsum_map_ext. intros k Hk. destruct (_ =? _); [|reflexivity]. destruct c; fring.
Qed.

Lemma map_ok_pat (S0 S1 : csc F) mp : colptr S1 = colptr S0 -> rowind S1 = rowind S0 -> map_ok n kcols S0 mp -> map_ok n kcols S1 mp.
Proof. intros E1 E2 [L H]. unfold map_ok, nnz, cp in *. rewrite E1, E2. auto. Qed.

Lemma LaxA ax : pvals n A AT p None ax -> length ax = coff ca n.
Proof. destruct Hwf as (_ & _ & _ & _ & HrAT & _). apply pvals_len; auto. Qed.
Lemma LgxG wt gx : pvals n G GT m wt gx -> length gx = coff cg n.
Proof. destruct Hwf as (_ & _ & _ & _ & _ & _ & _ & HrGT & _). apply pvals_len; auto. Qed.

Lemma ATA_get ax i j : pvals n A AT p None ax -> i <= j -> j < n -> csc_get (ATA_of d A ax) i j = SAd d i j.
Proof.
  intros Hp Hij Hj. pose proof Hwf as (_ & _ & _ & HwAT & HrAT & HcAT & _). pose proof CA as (HwA & HnA & HrA & _).
  unfold ATA_of. rewrite (pvals_get n p A AT None ax i j) by auto. rewrite (prodval_cache n p AT A None i j CA Hj).
  unfold SAd. apply sum_n_ext. intros l Hl. cbn [wt_val]. fring.
Qed.
Lemma GTG_get c gx i j : pvals n G GT m (Some (sc_s c, sc_z_inv c, sc_delta c)) gx -> i <= j -> j < n -> csc_get (GTG_of d G gx) i j = SGd d c i j.
Proof.
  intros Hp Hij Hj. pose proof Hwf as (_ & _ & _ & _ & _ & _ & HwGT & HrGT & HcGT). pose proof CG as (HwG & HnG & HrG & _).
  unfold GTG_of. rewrite (pvals_get n m G GT (Some (sc_s c, sc_z_inv c, sc_delta c)) gx i j) by auto. rewrite (prodval_cache n m GT G _ i j CG Hj).
  unfold SGd. apply sum_n_ext. intros l Hl. cbn [wt_val]. reflexivity.
Qed.

Theorem all_refresh_core k ax gx c :
  ak_A k = A -> ak_G k = G -> ak_sc k = c -> all_scal_ok d c ->
  ak_ATA k = ATA_of d A ax -> ak_GTG k = GTG_of d G gx -> pvals n A AT p None ax -> length gx = coff cg n ->
  ak_pinv k = seq 0 n -> ak_PKi k = seq 0 (coff kcols n) -> ak_kp k = colptr (csc_of_cols n kcols (fun _ _ => 0%Qc)) ->
  map_ok n kcols P (ak_P2K k) -> map_ok n kcols (ATA_of d A ax) (ak_A2K k) -> map_ok n kcols (GTG_of d G gx) (ak_G2K k) ->
  ak_tmp k = repeat 0%Qc n -> length (ak_kx k) = coff kcols n ->
  exists kx gx', all_refresh d k = Ok (ak_set_GTG k kx (GTG_of d G gx') (repeat 0%Qc n)) /\ length kx = coff kcols n /\
    pvals n G GT m (Some (sc_s c, sc_z_inv c, sc_delta c)) gx' /\
    forall j t, j < n -> t < length (kcols j) -> nth (coff kcols j + t) kx 0%Qc = Kall d c (nth t (kcols j) 0) j.
Proof.
  intros EA EG Ec (Hsc & Hdnz & Hwnz) EATA EGTG VA Lgx Epinv Epki Ekp MP MA MG Etmp Lkx.
  pose proof Hwf as (HwP & HrP & HcP & HwAT & HrAT & HcAT & HwGT & HrGT & HcGT).
  pose proof (LaxA ax VA) as Lax.
  assert (SP : src_ok n kcols P) by (exact (srcP_ok d Hwf Hsorted ca cg ax0 gx0 Hlea Hleg L1 L2)).
  assert (SA : src_ok n kcols (ATA_of d A ax)) by (exact (srcA_ok d ca cg ax gx (fun j _ => prod_col_inc A AT j) Hlea Hleg Lax Lgx)).
  destruct Hsc as (S1 & S2 & B1 & B2 & B3 & B4 & B5 & B6 & B7 & B8 & I1 & I2 & Z1 & Z2).
  unfold all_refresh.
  (* cost: zero, add P, add rho on the diagonal *)
  unfold all_cost_scalings. rewrite Lkx, Epki, Epinv, Ekp, Ec.
  rewrite (for_cols_flat P _ HwP).
  change (for_range 0 (nnz P) (fun q kx => do q0 <- get (ak_P2K k) q ;; do qq <- get (seq 0 (coff kcols n)) q0 ;; do v <- get (vals P) q ;; do old <- get kx qq ;; upd kx qq (old + v)%Qc) (repeat 0%Qc (coff kcols n)))
    with (add_vals (ak_P2K k) (seq 0 (coff kcols n)) None (vals P) (nnz P) (repeat 0%Qc (coff kcols n))).
  destruct (add_pass P (ak_P2K k) None (repeat 0%Qc (coff kcols n)) SP MP (repeat_length _ _)) as (kx1 & E1 & Lk1 & H1).
  rewrite E1. cbn [bind].
  destruct (diag_add_ok (seq 0 n) (colptr (csc_of_cols n kcols (fun _ _ => 0%Qc))) n (coff kcols n) dpA (sc_rho c) kx1 dpos_all dpA_lt dpA_inj Lk1)
    as (kx2 & E2 & Lk2 & H2 & H2').
  rewrite E2. cbn [bind].
  (* equality *)
  unfold all_equality_scalings. rewrite Ec, Epki, EATA. rewrite qdiv_nz by auto. cbn [bind].
  destruct (add_pass (ATA_of d A ax) (ak_A2K k) (Some (1 / sc_delta c)%Qc) kx2 SA MA Lk2) as (kx3 & E3 & Lk3 & H3).
  change (vals (ATA_of d A ax)) with ax in *. unfold Vec, F in *. rewrite E3. cbn [bind].
  (* inequality *)
  unfold all_inequality_scaling. rewrite EG, EGTG, Ec, Etmp, Epki.
  assert (Hwt : wt_ok m (Some (sc_s c, sc_z_inv c, sc_delta c))) by (unfold wt_ok; unfold Vec, F in *; split; [lia|split; [lia|exact Hwnz]]).
  destruct (scatter_cache_ok n m GT G (Some (sc_s c, sc_z_inv c, sc_delta c)) gx HwGT HrGT HcGT CG Hwt) as (gx' & E4 & V4).
  { transitivity (coff cg n); [exact Lgx|]. symmetry. unfold nnz. rewrite (pp_eq G GT n HrGT). apply (ofcols_nnz n cg (fun _ _ => 0%Qc)). }
  rewrite (pp_eq G GT n HrGT) in E4. fold (GTG_of d G gx) in E4. fold (GTG_of d G gx') in E4.
  unfold Vec, F in *. rewrite E4. cbn [bind].
  pose proof (LgxG _ gx' V4) as Lgx'.
  assert (SG : src_ok n kcols (GTG_of d G gx')) by (exact (srcG_ok d ca cg ax gx' (fun j _ => prod_col_inc G GT j) Hlea Hleg Lax Lgx')).
  assert (MG' : map_ok n kcols (GTG_of d G gx') (ak_G2K k)) by (apply (map_ok_pat (GTG_of d G gx)); auto).
  destruct (add_pass (GTG_of d G gx') (ak_G2K k) None kx3 SG MG' Lk3) as (kx4 & E5 & Lk4 & H4).
  change (vals (GTG_of d G gx')) with gx' in *. change (nnz (GTG_of d G gx')) with (nnz (GTG_of d G gx)) in *.
  unfold Vec, F in *. rewrite E5. cbn [bind].
  (* box *)
  unfold all_box_scalings. rewrite Epinv, Ekp, Ec.
  destruct (box_scalings_ok (seq 0 n) (colptr (csc_of_cols n kcols (fun _ _ => 0%Qc))) n (coff kcols n) dpA dpos_all dpA_lt dpA_inj
              n (sd_nlb d) (sd_lbidx d) (sd_lbs d) (sc_z_lb_inv c) (sc_s_lb c) (sc_delta c) kx4) as (kx5 & E6 & Lk5 & H5 & H5'); auto.
  unfold Vec, F in *. rewrite E6. cbn [bind].
  destruct (box_scalings_ok (seq 0 n) (colptr (csc_of_cols n kcols (fun _ _ => 0%Qc))) n (coff kcols n) dpA dpos_all dpA_lt dpA_inj
              n (sd_nub d) (sd_ubidx d) (sd_ubs d) (sc_z_ub_inv c) (sc_s_ub c) (sc_delta c) kx5) as (kx6 & E7 & Lk6 & H6 & H6'); auto.
  unfold Vec, F in *. rewrite E7. cbn [bind].
  exists kx6, gx'. split; [reflexivity|]. split; [exact Lk6|]. split; [exact V4|].
  (* the values *)
  intros j t Hj Ht. set (i := nth t (kcols j) 0). assert (Hij : i <= j) by (apply kc_le; auto; apply nth_In; auto).
  unfold Kall. rewrite <- (ATA_get ax i j VA Hij Hj), <- (GTG_get c gx' i j V4 Hij Hj).
  destruct (Nat.eq_dec (S t) (length (kcols j))) as [Ed|Nd].
  - (* the diagonal entry *)
    assert (Ei : i = j) by (apply (kc_diag_iff j t); auto).
    assert (Eq : coff kcols j + t = dpA j) by (rewrite dpA_eq by auto; lia).
    rewrite Eq. rewrite H6, H5 by auto. rewrite <- Eq. rewrite H4, H3 by auto. rewrite Eq, H2 by auto. rewrite <- Eq, H1 by auto.
    rewrite nth_repeat. fold i. rewrite Ei, Nat.eqb_refl.
    rewrite <- (box_sum_a_bdiag d c j). unfold box_sum. fring.
  - assert (Ni : i <> j) by (intros E; apply (kc_diag_iff j t) in E; auto).
    assert (Hnd : forall col, col < n -> dpA col <> coff kcols j + t).
    { intros col Hc E. rewrite dpA_eq in E by auto. pose proof (kc_pos col Hc).
      apply (off_unique (coff kcols) (fun j => length (kcols j)) n) in E; auto; try lia. destruct E as [-> E]. lia. }
    rewrite H6', H5' by auto. rewrite H4, H3 by auto. rewrite H2' by auto. rewrite H1 by auto.
    rewrite nth_repeat. fold i. destruct (Nat.eqb_spec i j); [contradiction|]. fring.
Qed.
End WithCaches.
End StateAll.

(* ================================================================ top level (identity ordering) *)
Section TopAll.
Variable d : sdata.
Hypothesis Hwf : wf_sdata d.
Local Notation n := (sd_n d). Local Notation p := (sd_p d). Local Notation m := (sd_m d).
Local Notation P := (sd_P d). Local Notation AT := (sd_AT d). Local Notation GT := (sd_GT d).
Hypothesis Hup : upper_only P = true.
Hypothesis Hsorted : sorted_colsb P = true.

Lemma ak_set_sc_fields k c : ak_A (ak_set_sc k c) = ak_A k /\ ak_G (ak_set_sc k c) = ak_G k /\ ak_sc (ak_set_sc k c) = c /\
  ak_ATA (ak_set_sc k c) = ak_ATA k /\ ak_GTG (ak_set_sc k c) = ak_GTG k /\ ak_pinv (ak_set_sc k c) = ak_pinv k /\
  ak_PKi (ak_set_sc k c) = ak_PKi k /\ ak_kp (ak_set_sc k c) = ak_kp k /\ ak_ki (ak_set_sc k c) = ak_ki k /\
  ak_P2K (ak_set_sc k c) = ak_P2K k /\ ak_A2K (ak_set_sc k c) = ak_A2K k /\ ak_G2K (ak_set_sc k c) = ak_G2K k /\
  ak_tmp (ak_set_sc k c) = ak_tmp k /\ ak_kx (ak_set_sc k c) = ak_kx k.
Proof. destruct k. cbn. repeat split. Qed.

(* the four refresh calls bring any state with the static invariant into canonical form for its scalings *)
Theorem all_refresh_form k : all_static d k -> all_scal_ok d (ak_sc k) ->
  exists k', all_refresh d k = Ok k' /\ all_form d (ak_sc k) k'.
Proof.
  intros (ax & gx & CA & CG & EATA & EGTG & VA & Lgx & Epinv & Epki & Ekp & Eki & MP & MA & MG & Etmp & Lkx) Hsc. cbv zeta in *.
  destruct (all_refresh_core d Hwf Hup Hsorted (ak_A k) (ak_G k) CA CG k ax gx (ak_sc k)) as (kx & gx' & E & Lk & V & Hv); auto.
  eexists. split; [exact E|].
  assert (F : forall k0 kx0 G0 t0, ak_A (ak_set_GTG k0 kx0 G0 t0) = ak_A k0 /\ ak_G (ak_set_GTG k0 kx0 G0 t0) = ak_G k0 /\
            ak_sc (ak_set_GTG k0 kx0 G0 t0) = ak_sc k0 /\ ak_ATA (ak_set_GTG k0 kx0 G0 t0) = ak_ATA k0 /\ ak_GTG (ak_set_GTG k0 kx0 G0 t0) = G0 /\
            ak_pinv (ak_set_GTG k0 kx0 G0 t0) = ak_pinv k0 /\ ak_PKi (ak_set_GTG k0 kx0 G0 t0) = ak_PKi k0 /\ ak_kp (ak_set_GTG k0 kx0 G0 t0) = ak_kp k0 /\
            ak_ki (ak_set_GTG k0 kx0 G0 t0) = ak_ki k0 /\ ak_P2K (ak_set_GTG k0 kx0 G0 t0) = ak_P2K k0 /\ ak_A2K (ak_set_GTG k0 kx0 G0 t0) = ak_A2K k0 /\
            ak_G2K (ak_set_GTG k0 kx0 G0 t0) = ak_G2K k0 /\ ak_tmp (ak_set_GTG k0 kx0 G0 t0) = t0 /\ ak_kx (ak_set_GTG k0 kx0 G0 t0) = kx0)
    by (intros [] ? ? ?; cbn; repeat split).
  destruct (F k kx (GTG_of d (ak_G k) gx') (repeat 0%Qc n)) as (F1 & F2 & F3 & F4 & F5 & F6 & F7 & F8 & F9 & F10 & F11 & F12 & F13 & F14).
  split; [|split].
  - exists ax, gx'. cbv zeta. rewrite F1, F2, F4, F5, F6, F7, F8, F9, F10, F11, F12, F13, F14.
    assert (Lgx' : length gx' = coff (prod_col (ak_G k) GT) n) by (destruct Hwf as (_ & _ & _ & _ & _ & _ & _ & HrGT & _); apply (pvals_len n _ GT m _ gx' HrGT V)).
    split; [exact CA|]. split; [exact CG|]. split; [exact EATA|]. split; [reflexivity|]. split; [exact VA|]. split; [exact Lgx'|].
    split; [exact Epinv|]. split; [exact Epki|]. split; [exact Ekp|]. split; [exact Eki|]. split; [exact MP|]. split; [exact MA|].
    split; [apply (map_ok_pat d (ak_A k) (ak_G k) (GTG_of d (ak_G k) gx)); auto|]. split; [reflexivity|exact Lk].
  - exact F3.
  - cbv zeta. rewrite F1, F2, F14. exact Hv.
Qed.

Lemma all_static_set_sc k c : all_static d k -> all_static d (ak_set_sc k c).
Proof.
  intros H. destruct (ak_set_sc_fields k c) as (F1 & F2 & F3 & F4 & F5 & F6 & F7 & F8 & F9 & F10 & F11 & F12 & F13 & F14).
  unfold all_static in *. rewrite F1, F2, F4, F5, F6, F7, F8, F9, F10, F11, F12, F13, F14. exact H.
Qed.

(* (c) update_scalings from ANY state with the static invariant (init, or any history): canonical form of the new scalings *)
Theorem all_update_scalings_form k rho delta s s_lb s_ub z z_lb z_ub zi zlbi zubi :
  all_static d k ->
  sd_nlb d <= length s_lb -> sd_nlb d <= length z_lb -> sd_nub d <= length s_ub -> sd_nub d <= length z_ub ->
  vinv z = Ok zi -> vinv (head (sd_nlb d) z_lb) = Ok zlbi -> vinv (head (sd_nub d) z_ub) = Ok zubi ->
  all_scal_ok d (new_scal d (ak_sc k) rho delta s s_lb s_ub zi zlbi zubi) ->
  exists k', all_update_scalings d k rho delta s s_lb s_ub z z_lb z_ub = Ok k' /\
             all_form d (new_scal d (ak_sc k) rho delta s s_lb s_ub zi zlbi zubi) k'.
Proof.
  intros Hst L1 L2 L3 L4 E1 E2 E3 Hsc. unfold all_update_scalings, chk_len.
  destruct (Nat.ltb_spec (length s_lb) (sd_nlb d)) as [?Hy|?Hn]; [lia|]. cbn [bind].
  destruct (Nat.ltb_spec (length z_lb) (sd_nlb d)) as [?Hy|?Hn]; [lia|]. cbn [bind].
  destruct (Nat.ltb_spec (length s_ub) (sd_nub d)) as [?Hy|?Hn]; [lia|]. cbn [bind].
  destruct (Nat.ltb_spec (length z_ub) (sd_nub d)) as [?Hy|?Hn]; [lia|]. cbn [bind].
  rewrite E1, E2, E3. cbn [bind]. cbv zeta. unfold all_apply_scalings.
  fold (new_scal d (ak_sc k) rho delta s s_lb s_ub zi zlbi zubi).
  set (c' := new_scal d (ak_sc k) rho delta s s_lb s_ub zi zlbi zubi) in *.
  destruct (all_refresh_form (ak_set_sc k c')) as (k' & E & Hf).
  - now apply all_static_set_sc.
  - destruct (ak_set_sc_fields k c') as (_ & _ & -> & _). exact Hsc.
  - exists k'. split; [exact E|]. destruct (ak_set_sc_fields k c') as (_ & _ & F3 & _). now rewrite F3 in Hf.
Qed.

(* what the canonical form denotes: the reduced operator K_red of KKTProofs.v over the L2 system of data and scalings *)
Lemma SGd_aSG c i j : SGd d c i j = a_SG (sys_sparse d c) i j.
Proof.
  unfold SGd, a_SG, a_w. rewrite sum_n_sum. cbn [sys_sparse sys_sparse_gen y_m y_GT y_s y_zinv y_delta]. unfold fv.
  apply sum_ext. intros l Hl. fring.
Qed.
Lemma SAd_aSA c i j : SAd d i j = a_SA (sys_sparse d c) i j.
Proof. unfold SAd, a_SA. rewrite sum_n_sum. cbn [sys_sparse sys_sparse_gen y_p y_AT]. reflexivity. Qed.
Lemma Kall_Kred c i j : i <= j -> Kall d c i j = a_Kred (sys_sparse d c) i j.
Proof.
  intros Hij. unfold Kall, a_Kred, a_dinv. rewrite (SGd_aSG c), (SAd_aSA c).
  cbn [sys_sparse sys_sparse_gen y_Psym y_rho y_delta].
  destruct (Nat.leb_spec i j) as [?Hy|?Hn]; [|lia]. fring.
Qed.

Theorem all_form_denotes c k : all_form d c k ->
  let K := mkcsc n n (ak_kp k) (ak_ki k) (ak_kx k) in
  wf_csc K = true /\ upper_only K = true /\ diag_is_last K /\
  forall i j, i <= j -> j < n -> csc_get K i j = a_Kred (sys_sparse d c) i j.
Proof.
  intros ((ax & gx & CA & CG & EATA & EGTG & VA & Lgx & Epinv & Epki & Ekp & Eki & MP & MA & MG & Etmp & Lkx) & Ec & Hv). cbv zeta in *.
  set (A := ak_A k) in *. set (G := ak_G k) in *.
  assert (EK : mkcsc n n (ak_kp k) (ak_ki k) (ak_kx k) = csc_set_vals (csc_of_cols n (kcols_all d A G) (fun _ _ => 0%Qc)) (ak_kx k)) by (rewrite Ekp, Eki; reflexivity).
  rewrite EK.
  pose proof (kc_inc d A G) as Hinc. pose proof (kc_row d Hwf Hup A G) as Hrow.
  split; [apply (ocv_wf n (kcols_all d A G)); auto|].
  split.
  { unfold upper_only. change (ncols (csc_set_vals (csc_of_cols n (kcols_all d A G) (fun _ _ => 0%Qc)) (ak_kx k))) with n.
    apply forallb_forall. intros j Hj. apply in_seq in Hj. apply forallb_forall. intros q Hq. apply in_seq in Hq.
    change (nth j (colptr (csc_set_vals (csc_of_cols n (kcols_all d A G) (fun _ _ => 0%Qc)) (ak_kx k))) 0) with (cp (csc_of_cols n (kcols_all d A G) (fun _ _ => 0%Qc)) j) in Hq.
    change (nth (S j) (colptr (csc_set_vals (csc_of_cols n (kcols_all d A G) (fun _ _ => 0%Qc)) (ak_kx k))) 0) with (cp (csc_of_cols n (kcols_all d A G) (fun _ _ => 0%Qc)) (S j)) in Hq.
    rewrite !ofcols_cp in Hq by lia. cbn [coff] in Hq. apply Nat.leb_le.
    change (rowind (csc_set_vals (csc_of_cols n (kcols_all d A G) (fun _ _ => 0%Qc)) (ak_kx k))) with (rowind (csc_of_cols n (kcols_all d A G) (fun _ _ => 0%Qc))).
    replace q with (coff (kcols_all d A G) j + (q - coff (kcols_all d A G) j)) by lia. rewrite ofcols_row by lia.
    apply (kc_le d Hwf Hup A G); [lia|]. apply nth_In. lia. }
  split.
  { intros j Hj. change (ncols (csc_set_vals (csc_of_cols n (kcols_all d A G) (fun _ _ => 0%Qc)) (ak_kx k))) with n in Hj.
    change (cp (csc_set_vals (csc_of_cols n (kcols_all d A G) (fun _ _ => 0%Qc)) (ak_kx k))) with (cp (csc_of_cols n (kcols_all d A G) (fun _ _ => 0%Qc))).
    change (rowind (csc_set_vals (csc_of_cols n (kcols_all d A G) (fun _ _ => 0%Qc)) (ak_kx k))) with (rowind (csc_of_cols n (kcols_all d A G) (fun _ _ => 0%Qc))).
    rewrite !ofcols_cp by lia. cbn [coff]. pose proof (kc_pos d A G j Hj). split; [lia|].
    replace (coff (kcols_all d A G) j + length ((kcols_all d A G) j) - 1) with (coff (kcols_all d A G) j + (length ((kcols_all d A G) j) - 1)) by lia. rewrite ofcols_row by lia.
    apply (kc_diag_iff d Hwf Hup A G); auto; lia. }
  intros i j Hij Hj. rewrite <- Kall_Kred by auto.
  destruct (in_dec Nat.eq_dec i ((kcols_all d A G) j)) as [Hin|Hout].
  - destruct (In_pos _ j i Hin) as (t & Ht & <-). rewrite ocv_get_in by auto. apply Hv; auto.
  - rewrite ocv_get_out by auto. symmetry.
    assert (Hne : i <> j) by (intros ->; apply Hout; apply (kc_diag d A G); auto).
    pose proof Hwf as (HwP & _ & HcP & HwAT & HrAT & HcAT & HwGT & HrGT & HcGT).
    pose proof CA as (HwA & HnA & HrA & _). pose proof CG as (HwG & HnG & HrG & _).
    assert (Z1 : csc_get P i j = 0%Qc).
    { apply csc_get_zero. intros i0 Hi0 E. apply Hout. apply (kc_in d A G); auto. split; [lia|]. left. apply (col_rows_In P HwP j _ ltac:(lia)). eauto. }
    assert (Z2 : SAd d i j = 0%Qc).
    { transitivity (prodval A AT p None i j).
      - rewrite (prodval_cache n p AT A None i j CA Hj). unfold SAd. apply sum_n_ext. intros l Hl. cbn [wt_val]. fring.
      - apply (prodval_out A AT n p); auto. intros H. apply Hout. apply (kc_in d A G); auto. split; [lia|tauto]. }
    assert (Z3 : SGd d c i j = 0%Qc).
    { transitivity (prodval G GT m (Some (sc_s c, sc_z_inv c, sc_delta c)) i j).
      - rewrite (prodval_cache n m GT G _ i j CG Hj). unfold SGd. apply sum_n_ext. intros l Hl. cbn [wt_val]. reflexivity.
      - apply (prodval_out G GT n m); auto. intros H. apply Hout. apply (kc_in d A G); auto. split; [lia|tauto]. }
    unfold Kall. rewrite Z1, Z2, Z3. destruct (Nat.eqb_spec i j); [contradiction|]. fring.
Qed.

(* init (identity ordering) succeeds and establishes the static invariant: every later update_scalings is covered by (c) *)
Theorem all_init_static rho delta : delta <> 0%Qc -> (1 + delta)%Qc <> 0%Qc -> scal_ok d (unit_scal d rho delta) ->
  exists k, all_init d rho delta None = Ok k /\ all_static d k /\ ak_sc k = unit_scal d rho delta.
Proof.
  intros Hd Hd1 (S1 & S2 & B1 & B2 & B3 & B4 & B5 & B6 & B7 & B8 & I1 & I2 & Z1 & Z2).
  destruct (all_create_ok d Hwf Hsorted rho delta Hd Hd1) as (A & G & ax & gx & p2k & a2k & g2k & EC & CA & CG & VA & VG & MP & MA & MG).
  cbv zeta in *. set (gx' := map (fun v => (v * (1 / (1 + delta)))%Qc) gx) in *.
  set (kcols := kcols_all d A G) in *.
  unfold all_init. rewrite EC. cbn [bind]. cbv zeta. cbn [am_K am_P2K am_A2K am_G2K am_A am_G am_ATA am_GTG am_tmp].
  set (K := csc_of_cols n kcols (kval_of d (prod_col A AT) (prod_col G GT) ax gx' rho (1 / delta)%Qc)).
  assert (LK : length (vals K) = coff kcols n) by (unfold K; apply ofcols_nnz).
  assert (NK : nnz K = coff kcols n) by (unfold K, nnz; apply ofcols_nnz).
  unfold all_box_scalings. cbn [ak_pinv ak_kp ak_sc ak_kx unit_scal sc_z_lb_inv sc_s_lb sc_delta sc_z_ub_inv sc_s_ub].
  destruct (box_scalings_ok (seq 0 n) (colptr K) n (coff kcols n) (dpA d A G) (dpos_all d A G) (dpA_lt d A G) (dpA_inj d A G)
              n (sd_nlb d) (sd_lbidx d) (sd_lbs d) (vconst (sd_nlb d) 1 ++ vconst (n - sd_nlb d) 0)%Qc (vconst (sd_nlb d) 1 ++ vconst (n - sd_nlb d) 0)%Qc delta (vals K))
    as (kx1 & E1 & L1 & _ & _); auto.
  unfold Vec, F in *. rewrite E1. cbn [bind].
  destruct (box_scalings_ok (seq 0 n) (colptr K) n (coff kcols n) (dpA d A G) (dpos_all d A G) (dpA_lt d A G) (dpA_inj d A G)
              n (sd_nub d) (sd_ubidx d) (sd_ubs d) (vconst (sd_nub d) 1 ++ vconst (n - sd_nub d) 0)%Qc (vconst (sd_nub d) 1 ++ vconst (n - sd_nub d) 0)%Qc delta kx1)
    as (kx2 & E2 & L2 & _ & _); auto.
  unfold Vec, F in *. rewrite E2. cbn [bind]. eexists. split; [reflexivity|]. split; [|reflexivity].
  exists ax, gx'. cbn [ak_set_kx ak_A ak_G ak_ATA ak_GTG ak_pinv ak_PKi ak_kp ak_ki ak_P2K ak_A2K ak_G2K ak_tmp ak_kx]. cbv zeta.
  fold kcols. rewrite NK.
  split; [exact CA|]. split; [exact CG|]. split; [reflexivity|]. split; [reflexivity|]. split; [exact VA|].
  split; [unfold gx'; rewrite map_length; apply (LgxG d Hwf G None gx VG)|].
  split; [reflexivity|]. split; [reflexivity|]. split; [reflexivity|]. split; [reflexivity|].
  split; [exact MP|]. split; [exact MA|]. split; [exact MG|]. split; [reflexivity|exact L2].
Qed.

(* (a) + (b) for init_workspace / create_kkt_matrix, headline form *)
Theorem all_create_thm rho delta : delta <> 0%Qc -> (1 + delta)%Qc <> 0%Qc ->
  exists am, all_create d rho delta = Ok am /\
    let K := am_K am in
    let kcols := kcols_all d (am_A am) (am_G am) in
    nrows K = n /\ ncols K = n /\ wf_csc K = true /\ upper_only K = true /\ diag_is_last K /\
    colptr K = colptr (csc_of_cols n kcols (fun _ _ => 0%Qc)) /\ rowind K = rowind (csc_of_cols n kcols (fun _ _ => 0%Qc)) /\
    map_ok n kcols P (am_P2K am) /\ map_ok n kcols (am_ATA am) (am_A2K am) /\ map_ok n kcols (am_GTG am) (am_G2K am) /\
    forall i j, i <= j -> j < n ->
      csc_get K i j = (csc_get P i j + (if i =? j then rho else 0) + 1 / delta * SAd d i j
                       + sum_n m (fun l => (csc_get GT i l * csc_get GT j l)%Qc) * (1 / (1 + delta)))%Qc.
Proof.
  intros Hd Hd1.
  destruct (all_create_ok d Hwf Hsorted rho delta Hd Hd1) as (A & G & ax & gx & p2k & a2k & g2k & EC & CA & CG & VA & VG & MP & MA & MG).
  cbv zeta in *. set (gx' := map (fun v => (v * (1 / (1 + delta)))%Qc) gx) in *.
  eexists. split; [exact EC|]. cbn [am_K am_P2K am_A2K am_G2K am_A am_G am_ATA am_GTG]. cbv zeta.
  assert (Hlea : forall j r, j < n -> In r (prod_col A AT j) -> r <= j) by (intros j r _ H; now apply prod_col_le in H).
  assert (Hleg : forall j r, j < n -> In r (prod_col G GT j) -> r <= j) by (intros j r _ H; now apply prod_col_le in H).
  pose proof (LaxA d Hwf A ax VA) as Lax.
  assert (Lgx' : length gx' = coff (prod_col G GT) n) by (unfold gx'; rewrite map_length; apply (LgxG d Hwf G None gx VG)).
  split; [reflexivity|]. split; [reflexivity|].
  split; [exact (K_wf d _ _ ax gx' Hlea Hleg Lax Lgx' rho (1 / delta)%Qc)|].
  split; [exact (K_upper d Hwf Hup _ _ ax gx' Hlea Hleg Lax Lgx' rho (1 / delta)%Qc)|].
  split; [exact (K_diag_last d Hwf Hup _ _ ax gx' Hlea Hleg Lax Lgx' rho (1 / delta)%Qc)|].
  split; [reflexivity|]. split; [reflexivity|]. split; [exact MP|]. split; [exact MA|]. split; [exact MG|].
  intros i j Hij Hj.
  change (csc_of_cols n (kcols_all d A G) (kval_of d (prod_col A AT) (prod_col G GT) ax gx' rho (1 / delta)%Qc))
    with (csc_of_cols n (kcols_of d (prod_col A AT) (prod_col G GT) ax gx') (kval_of d (prod_col A AT) (prod_col G GT) ax gx' rho (1 / delta)%Qc)).
  rewrite (K_get d Hwf _ _ ax gx' Hlea Hleg Lax Lgx' rho (1 / delta)%Qc i j Hj (or_intror I)).
  unfold kval_of. fold (ATA_of d A ax). rewrite (ATA_get d Hwf A CA ax i j VA Hij Hj). f_equal.
  (* the scaled G^T G *)
  pose proof Hwf as (_ & _ & _ & _ & _ & _ & HwGT & HrGT & HcGT). pose proof CG as (HwG & HnG & HrG & _).
  destruct (in_dec Nat.eq_dec i (prod_col G GT j)) as [Hin|Hout].
  - destruct (In_pos _ j i Hin) as (t & Ht & <-). rewrite ocv_get_in; auto; try (intros; apply prod_col_inc).
    unfold gx'. rewrite (nth_indep _ 0%Qc ((fun v => (v * (1 / (1 + delta)))%Qc) 0%Qc)).
    2:{ fold gx'. rewrite Lgx'. apply (off_lt (coff (prod_col G GT)) (fun j => length (prod_col G GT j)) n); auto. }
    rewrite (map_nth (fun v => (v * (1 / (1 + delta)))%Qc)). cbv beta. f_equal.
    etransitivity; [symmetry; exact (ocv_get_in n (prod_col G GT) (fun j _ => prod_col_inc G GT j) gx (LgxG d Hwf G None gx VG) j t Hj Ht)|].
    rewrite (pvals_get n m G GT None gx _ j) by auto. rewrite (prodval_cache n m GT G None _ j CG Hj).
    apply sum_n_ext. intros l Hl. cbn [wt_val]. fring.
  - rewrite ocv_get_out; auto.
    assert (Z : prodval G GT m None i j = 0%Qc) by (apply (prodval_out G GT n m); auto).
    rewrite (prodval_cache n m GT G None i j CG Hj) in Z.
    rewrite (sum_n_ext m _ (fun l => (wt_val None l * csc_get GT i l * csc_get GT j l)%Qc)) by (intros; cbn [wt_val]; fring).
    rewrite Z. fring.
Qed.
End TopAll.
