(* Certs.v -- exact certificate checkers: the "exact rational ground truth" of property C03.
   Definitions only (executable, structural recursion).  Soundness: CertsProofs.v.

   Problem (docs/_common/problem_formulation.md):
       min 1/2 x'Px + c'x   s.t.  Ax = b,  Gx <= h,  lb <= x <= ub,
   P = symmetric completion of the UPPER triangle of the stored matrix (the library reads only that),
   bounds that are absent (beyond +-1e30 for the library) are [None].

   Representation: matrices are lists of ROWS, read by [ent M i j = nth j (nth i M []) 0]; vectors are read by
   [el v i = nth i v 0]; the dimensions n, p, m are explicit fields.  Every list is therefore read as if it were
   padded with zeros / absent bounds: no shape side conditions are needed anywhere, and the semantics of a
   problem is the one of the functions [nat -> F] obtained this way (level L2 of LinAlg.v: finite sums). *)
From PIQP Require Import Base LinAlg.
Local Open Scope Qc_scope.

Definition half : F := Q2Qc (1 # 2).

Definition el (v : Vec) (i : nat) : F := nth i v 0.
Definition ent (M : list Vec) (i j : nat) : F := nth j (nth i M []) 0.
Definition oel (v : list (option F)) (i : nat) : option F := nth i v None.

Fixpoint allb (n : nat) (f : nat -> bool) : bool :=
  match n with O => true | S k => allb k f && f k end.

(* max_{i<n} |f i|  (0 for n = 0) *)
Fixpoint fmax (n : nat) (f : nat -> F) : F :=
  match n with O => 0 | S k => qmax (fmax k f) (qabs (f k)) end.
(* sum_{i<n} |f i| *)
Definition fsum1 (n : nat) (f : nat -> F) : F := sum n (fun i => qabs (f i)).

Record QP := mkQP {
  q_n : nat; q_p : nat; q_m : nat;
  q_P : list Vec;               (* n x n rows; only entries i <= j are read *)
  q_c : Vec;
  q_A : list Vec; q_b : Vec;    (* p rows *)
  q_G : list Vec; q_h : Vec;    (* m rows, h finite *)
  q_lb : list (option F); q_ub : list (option F)
}.

Section Problem.
Variable pb : QP.
Let n := q_n pb. Let p := q_p pb. Let m := q_m pb.

(* symmetric completion of the upper triangle *)
Definition symc (f : nat -> nat -> F) (i j : nat) : F := if Nat.leb i j then f i j else f j i.
Definition Ps (i j : nat) : F := symc (ent (q_P pb)) i j.
Definition Ae := ent (q_A pb).
Definition Ge := ent (q_G pb).
Definition ce := el (q_c pb).
Definition be := el (q_b pb).
Definition he := el (q_h pb).
Definition lbe := oel (q_lb pb).
Definition ube := oel (q_ub pb).

(* products with a point given as a function *)
Definition Pmul (x : nat -> F) (i : nat) : F := sum n (fun j => Ps i j * x j).
Definition Amul (x : nat -> F) (k : nat) : F := sum n (fun j => Ae k j * x j).
Definition Gmul (x : nat -> F) (k : nat) : F := sum n (fun j => Ge k j * x j).
Definition ATmul (y : nat -> F) (j : nat) : F := sum p (fun k => Ae k j * y k).
Definition GTmul (z : nat -> F) (j : nat) : F := sum m (fun k => Ge k j * z k).

Definition objective (x : nat -> F) : F :=
  half * sum n (fun i => x i * Pmul x i) + sum n (fun i => ce i * x i).

Definition lb_ok (x : nat -> F) (j : nat) : Prop := match lbe j with Some l => l <= x j | None => True end.
Definition ub_ok (x : nat -> F) (j : nat) : Prop := match ube j with Some u => x j <= u | None => True end.

Definition feasible (x : nat -> F) : Prop :=
  (forall k, (k < p)%nat -> Amul x k = be k) /\
  (forall k, (k < m)%nat -> Gmul x k <= he k) /\
  (forall j, (j < n)%nat -> lb_ok x j) /\
  (forall j, (j < n)%nat -> ub_ok x j).

Definition feasibleb (x : nat -> F) : bool :=
  allb p (fun k => qeqb (Amul x k) (be k)) &&
  allb m (fun k => qleb (Gmul x k) (he k)) &&
  allb n (fun j => match lbe j with Some l => qleb l (x j) | None => true end) &&
  allb n (fun j => match ube j with Some u => qleb (x j) u | None => true end).

(* multipliers of the bounds: >= 0, and exactly 0 where the bound is absent *)
Definition lbmult_ok (zl : nat -> F) (j : nat) : bool :=
  match lbe j with Some _ => qleb 0 (zl j) | None => qeqb (zl j) 0 end.
Definition ubmult_ok (zu : nat -> F) (j : nat) : bool :=
  match ube j with Some _ => qleb 0 (zu j) | None => qeqb (zu j) 0 end.
Definition mult_ok (z zl zu : nat -> F) : bool :=
  allb m (fun k => qleb 0 (z k)) && allb n (lbmult_ok zl) && allb n (ubmult_ok zu).

(* A'y + G'z - E_lb' z_lb + E_ub' z_ub  (vectors indexed by the variable) *)
Definition lin (y z zl zu : nat -> F) (j : nat) : F := ATmul y j + GTmul z j - zl j + zu j.
(* the stationarity / dual residual  Px + c + A'y + G'z - z_lb + z_ub *)
Definition stat (x y z zl zu : nat -> F) (j : nat) : F := Pmul x j + ce j + lin y z zl zu j.

(* ------------------------------------------------------------ exact KKT point *)
Definition kkt_at (x y z zl zu : nat -> F) : bool :=
  feasibleb x && mult_ok z zl zu &&
  allb n (fun j => qeqb (stat x y z zl zu j) 0) &&
  allb m (fun k => qeqb (z k * (he k - Gmul x k)) 0) &&
  allb n (fun j => match lbe j with Some l => qeqb (zl j * (x j - l)) 0 | None => true end) &&
  allb n (fun j => match ube j with Some u => qeqb (zu j * (u - x j)) 0 | None => true end).

(* ------------------------------------------------------------ Farkas certificate of primal infeasibility *)
Definition lbval (j : nat) : F := match lbe j with Some l => l | None => 0 end.
Definition ubval (j : nat) : F := match ube j with Some u => u | None => 0 end.
(* b'y + h'z - lb'z_lb + ub'z_ub  (absent bounds carry a zero multiplier) *)
Definition farkas_value (y z zl zu : nat -> F) : F :=
  sum p (fun k => be k * y k) + sum m (fun k => he k * z k) - sum n (fun j => lbval j * zl j) + sum n (fun j => ubval j * zu j).
Definition farkas_at (y z zl zu : nat -> F) : bool :=
  mult_ok z zl zu &&
  allb n (fun j => qeqb (lin y z zl zu j) 0) &&
  qltb (farkas_value y z zl zu) 0.
(* ||(y, z, z_lb, z_ub)||_1 *)
Definition cert_norm1 (y z zl zu : nat -> F) : F := fsum1 p y + fsum1 m z + fsum1 n zl + fsum1 n zu.

(* ------------------------------------------------------------ recession direction (dual infeasibility) *)
Definition recession_at (d : nat -> F) : bool :=
  allb n (fun i => qeqb (Pmul d i) 0) &&
  allb p (fun k => qeqb (Amul d k) 0) &&
  allb m (fun k => qleb (Gmul d k) 0) &&
  allb n (fun j => match lbe j with Some _ => qleb 0 (d j) | None => true end) &&
  allb n (fun j => match ube j with Some _ => qleb (d j) 0 | None => true end) &&
  qltb (sum n (fun j => ce j * d j)) 0.

(* ------------------------------------------------------------ residuals of an arbitrary point with slacks *)
Definition r_eq (x : nat -> F) (k : nat) : F := Amul x k - be k.
Definition r_ineq (x s : nat -> F) (k : nat) : F := Gmul x k + s k - he k.
Definition r_lb (x sl : nat -> F) (j : nat) : F := match lbe j with Some l => l - x j + sl j | None => 0 end.
Definition r_ub (x su : nat -> F) (j : nat) : F := match ube j with Some u => x j + su j - u | None => 0 end.
(* the solver's primal_inf: the maximum of the four residual max-norms (C01-T2 / ResidSpec.t_primal_inf) *)
Definition primal_resid_max (x s sl su : nat -> F) : F :=
  qmax (qmax (qmax (fmax p (r_eq x)) (fmax m (r_ineq x s))) (fmax n (r_lb x sl))) (fmax n (r_ub x su)).
(* the solver's dual_inf *)
Definition dual_resid_max (x y z zl zu : nat -> F) : F := fmax n (stat x y z zl zu).

End Problem.

(* ------------------------------------------------------------ exact PSD test *)
(* rows x cols table of a function *)
Definition tabm (k : nat) (f : nat -> nat -> F) : list Vec :=
  map (fun i => map (fun j => f i j) (seq 0 k)) (seq 0 k).

(* LDL^T-style elimination on the upper triangle: reads f i j for i <= j < k only.
   pivot < 0: reject; pivot = 0: the rest of the row must be 0, continue with the trailing block;
   pivot > 0: continue with the Schur complement (materialised as a table). *)
Fixpoint psd_fn (k : nat) (f : nat -> nat -> F) : bool :=
  match k with
  | O => true
  | S k' =>
    let a := f O O in
    if qltb a 0 then false
    else if qeqb a 0 then
      allb k' (fun j => qeqb (f O (S j)) 0) && psd_fn k' (ent (tabm k' (fun i j => f (S i) (S j))))
    else
      psd_fn k' (ent (tabm k' (fun i j => f (S i) (S j) - f O (S i) * f O (S j) / a)))
  end.

(* quadratic form of the symmetric completion *)
Definition qf (k : nat) (f : nat -> nat -> F) (x : nat -> F) : F :=
  sum k (fun i => sum k (fun j => symc f i j * x i * x j)).

(* ------------------------------------------------------------ the checkers on lists (what is extracted) *)
Definition is_psd (pb : QP) : bool := psd_fn (q_n pb) (ent (q_P pb)).
Definition is_feasible (pb : QP) (x : Vec) : bool := feasibleb pb (el x).
Definition is_kkt_point (pb : QP) (x y z zl zu : Vec) : bool := kkt_at pb (el x) (el y) (el z) (el zl) (el zu).
Definition is_farkas (pb : QP) (y z zl zu : Vec) : bool := farkas_at pb (el y) (el z) (el zl) (el zu).
Definition is_recession (pb : QP) (d : Vec) : bool := recession_at pb (el d).
(* margin data reported next to the labels *)
Definition farkas_val (pb : QP) (y z zl zu : Vec) : F := farkas_value pb (el y) (el z) (el zl) (el zu).
Definition farkas_norm1 (pb : QP) (y z zl zu : Vec) : F := cert_norm1 pb (el y) (el z) (el zl) (el zu).
Definition recession_val (pb : QP) (d : Vec) : F := sum (q_n pb) (fun j => ce pb j * el d j).
Definition recession_norm1 (pb : QP) (d : Vec) : F := fsum1 (q_n pb) (el d).
