(* UpdateFreshSolveProofs.v -- C04-T5, part 3: the first solve() after update(all blocks, reuse = false) and the first
   solve() after a fresh setup() of the same blocks run identically.

   The two solver objects differ in
     - sv_kkt_init_state (false after update, true after setup): the first solve() of the updated object starts with
       kkt.update_scalings(rho_init, delta_init, s = z = 1), which rebuilds exactly what kkt.init() built;
     - the tails of the packed box arrays of the KKT object beyond n_lb / n_ub (never read: JunkProofs.kkt_agree);
     - the state of the LLT object (k_fact): it is read only after a successful factorisation of the same solve() has
       overwritten it -- relation [kkt_agree0] below ignores it;
     - the result / info storage of a previous solve(): x, y and the proximal centres are overwritten by the initial
       point, eight info fields by the first pass of the main loop -- UNLESS the initial factorisation gives up
       (early NUMERICS return) or max_iter <= 0 (no pass): then the stale values are returned ([frame] lemmas, and
       the refuting witnesses in UpdateFreshProofs.v). *)
From PIQP Require Import Base Data Bounds PrecondDense KKTDense IPM API InteriorProofs IPMControlProofs
                         JunkProofs JunkShapeProofs JunkAPIProofs.
From PIQP Require ResidLoopProofs.
From Coq Require Import Lia.
From RecordUpdate Require Import RecordSet.
Import RecordSetNotations.
Local Open Scope Qc_scope.

(* ================================================================================================ *)
(** * A. the state of the LLT object is dead between solves *)

Definition setf (f : option Fact) (k : KKT) : KKT :=
  mkKKT (k_rho k) (k_delta k) (k_s k) (k_s_lb k) (k_s_ub k) (k_z_inv k) (k_z_lb_inv k) (k_z_ub_inv k) (k_mat k) (k_ATA k) f.
Definition nofact : KKT -> KKT := setf None.

Definition rmap {A B} (f : A -> B) (r : res A) : res B := match r with Ok a => Ok (f a) | Err e => Err e end.

Lemma update_kkt_setf d f k : update_kkt d (setf f k) = rmap (setf f) (update_kkt d k).
Proof.
  unfold update_kkt. cbn [setf k_rho k_delta k_s k_s_lb k_s_ub k_z_inv k_z_lb_inv k_z_ub_inv k_mat k_ATA k_fact].
  destruct (if Nat.ltb 0 (d_m d) then _ else _) as [w|]; cbn [bind rmap]; [|reflexivity].
  destruct (if Nat.ltb 0 (d_p d) then _ else _) as [dinv|]; cbn [bind rmap]; [|reflexivity].
  destruct (box_diag _ _ (d_lb_idx d) _ _ _) as [bd0|]; cbn [bind rmap]; [|reflexivity].
  destruct (box_diag _ _ (d_ub_idx d) _ _ _) as [bd|]; cbn [bind rmap]; [|reflexivity].
  destruct k; reflexivity.
Qed.

Lemma kkt_update_scalings_setf d f k rho delta s s_lb s_ub z z_lb z_ub :
  kkt_update_scalings d (setf f k) rho delta s s_lb s_ub z z_lb z_ub =
  rmap (setf f) (kkt_update_scalings d k rho delta s s_lb s_ub z z_lb z_ub).
Proof.
  unfold kkt_update_scalings.
  destruct (vinv z) as [zi|]; cbn [bind rmap]; [|reflexivity].
  destruct (vinv (head (d_nlb d) z_lb)) as [zlbi|]; cbn [bind rmap]; [|reflexivity].
  destruct (vinv (head (d_nub d) z_ub)) as [zubi|]; cbn [bind rmap]; [|reflexivity].
  rewrite <- update_kkt_setf. reflexivity.
Qed.

Lemma kkt_update_data_setf d f k oP oA oG :
  kkt_update_data d (setf f k) oP oA oG = rmap (setf f) (kkt_update_data d k oP oA oG).
Proof.
  unfold kkt_update_data. destruct (oA && Nat.ltb 0 (d_p d))%bool.
  - destruct (oP || oA || oG)%bool.
    + rewrite <- update_kkt_setf. reflexivity.
    + reflexivity.
  - destruct (oP || oA || oG)%bool; [apply update_kkt_setf|reflexivity].
Qed.

Lemma regularize_and_factorize_setf S d f k rf :
  regularize_and_factorize S d (setf f k) rf false = regularize_and_factorize S d k rf false.
Proof.
  unfold regularize_and_factorize. cbn [setf k_rho k_delta k_s k_s_lb k_s_ub k_z_inv k_z_lb_inv k_z_ub_inv k_mat k_ATA k_fact].
  destruct (llt_compute _) as [[ff|]|]; cbn [bind]; try reflexivity; destruct k; reflexivity.
Qed.

(* agreement of two KKT objects up to the tails of the box arrays AND the state of the LLT object *)
Definition kkt_agree0 (d : Data) (k1 k2 : KKT) : Prop := kkt_agree d (nofact k1) (nofact k2).

Lemma kkt_agree_agree0 d k1 k2 : kkt_agree d k1 k2 -> kkt_agree0 d k1 k2.
Proof.
  intros [(H1 & H2 & H3 & H4 & H5 & H6 & B1 & B2 & B3 & B4) HM]. unfold kkt_agree0, kkt_agree, kkt_pre, nofact, setf. cbn.
  repeat split; try assumption; apply B1 || apply B2 || apply B3 || apply B4.
Qed.

Lemma kkt_agree0_refl d k : kkt_agree0 d k k.
Proof. apply kkt_agree_refl. Qed.

Lemma RR_rmap {A B} (R : B -> B -> Prop) (f : A -> B) x y :
  RR R (rmap f x) (rmap f y) -> RR (fun a b => R (f a) (f b)) x y.
Proof. destruct x, y; cbn; auto. Qed.

Definition st_agree0 (d : Data) (a b : St) : Prop :=
  st_it a = st_it b /\ st_inf a = st_inf b /\ st_refine a = st_refine b /\ st_res a = st_res b /\
  st_calls a = st_calls b /\ kkt_agree0 d (st_kkt a) (st_kkt b).

Lemma st_agree_agree0 d a b : st_agree d a b -> st_agree0 d a b.
Proof. intros (A1 & A2 & A3 & A4 & A5 & A6). do 5 (split; [assumption|]). apply kkt_agree_agree0, A6. Qed.

Section Lift0.
Variable K : Consts.
Variable S : Settings.
Variable d : Data.
Variable fault : nat -> bool.

Lemma do_update_scalings_agree0 a b :
  st_agree0 d a b -> RR (st_agree0 d) (do_update_scalings d a) (do_update_scalings d b).
Proof.
  intros (A1 & A2 & A3 & A4 & A5 & A6).
  destruct a as [it inf k rf rs c], b as [it' inf' k' rf' rs' c']. cbn in A1, A2, A3, A4, A5, A6. subst it' inf' rf' rs' c'.
  unfold do_update_scalings. cbn [st_it st_inf st_kkt].
  pose proof (kkt_update_scalings_agree d (nofact k) (nofact k') (i_rho inf) (i_delta inf) (s it) (s_lb it) (s_ub it)
                (z it) (z_lb it) (z_ub it) (proj1 A6)) as H.
  unfold nofact in H. rewrite !kkt_update_scalings_setf in H. apply RR_rmap in H.
  eapply RR_bind; [exact H|]. intros k1 k2 Hk. do 5 (split; [reflexivity|]). exact Hk.
Qed.

(* after a factorisation call: either it succeeded (the LLT state is fresh in both runs) or it is still dead *)
Definition fact_rel (x y : St * bool) : Prop :=
  snd x = snd y /\ (if snd x then st_agree d (fst x) (fst y) else st_agree0 d (fst x) (fst y)).

Lemma do_factorize_agree0 a b :
  st_agree0 d a b -> RR fact_rel (do_factorize S d fault a) (do_factorize S d fault b).
Proof.
  intros (A1 & A2 & A3 & A4 & A5 & A6).
  destruct a as [it inf k rf rs c], b as [it' inf' k' rf' rs' c']. cbn in A1, A2, A3, A4, A5, A6. subst it' inf' rf' rs' c'.
  unfold do_factorize. cbn [st_kkt st_refine st_calls].
  destruct (fault c) eqn:Ef.
  - cbn. split; [reflexivity|]. cbn. do 5 (split; [reflexivity|]). exact A6.
  - rewrite <- (regularize_and_factorize_setf S d None k rf), <- (regularize_and_factorize_setf S d None k' rf).
    eapply RR_bind; [apply regularize_and_factorize_agree; exact A6|].
    intros [k1 ok1] [k2 ok2] [Hk E]. cbn in Hk, E. subst ok2. cbn. split; [reflexivity|]. cbn.
    destruct ok1; [repeat split; apply Hk|]. apply st_agree_agree0. repeat split; apply Hk.
Qed.

Lemma init_factor_agree0 fuel : forall a b,
  st_agree0 d a b -> RR fact_rel (init_factor K S d fault fuel a) (init_factor K S d fault fuel b).
Proof.
  induction fuel as [|f IH]; intros a b H; cbn [init_factor]; [reflexivity|].
  eapply RR_bind; [apply do_factorize_agree0; exact H|].
  intros [a1 ok1] [b1 ok2] [E H1]. cbn [fst snd] in H1, E. subst ok2.
  destruct ok1.
  - cbn. split; [reflexivity|exact H1].
  - destruct H1 as (A1 & A2 & A3 & A4 & A5 & A6).
    destruct a1 as [it inf k rf rs c], b1 as [it' inf' k' rf' rs' c']. cbn in A1, A2, A3, A4, A5, A6. subst it' inf' rf' rs' c'.
    cbn [st_refine st_inf].
    destruct (negb rf).
    { apply IH. do 5 (split; [reflexivity|]). exact A6. }
    destruct (i_factor_retires inf <? max_factor_retires S)%Z.
    + eapply RR_bind.
      * apply do_update_scalings_agree0. do 5 (split; [reflexivity|]). exact A6.
      * intros a2 b2 H2. apply IH. exact H2.
    + cbn. split; [reflexivity|]. cbn. do 5 (split; [reflexivity|]). exact A6.
Qed.

End Lift0.

(* ================================================================================================ *)
(** * B. what a solve() reads of the results of the previous solve() *)

(* the eight info fields that solve() does not reset on entry *)
Definition wipe (i : Info) : Info :=
  mkInfo (i_status i) (i_iter i) (i_rho i) (i_delta i) (i_mu i) (i_sigma i) (i_primal_step i) (i_dual_step i)
         0 0 0 0 0 0 0 0 (i_factor_retires i) (i_reg_limit i) (i_no_primal_update i) (i_no_dual_update i).
(* the seven result arrays that solve() does not reset on entry *)
Definition blank (it : Iterate) : Iterate :=
  mkIt [] [] (z it) (z_lb it) (z_ub it) (s it) (s_lb it) (s_ub it) [] [] [] [] [].
(* the iterate without the proximal centres *)
Definition core (it : Iterate) : Iterate :=
  mkIt (x it) (y it) (z it) (z_lb it) (z_ub it) (s it) (s_lb it) (s_ub it) [] [] [] [] [].

(* before the initial point *)
Definition st_frame (a b : St) : Prop :=
  blank (st_it a) = blank (st_it b) /\ wipe (st_inf a) = wipe (st_inf b) /\ st_kkt a = st_kkt b /\
  st_refine a = st_refine b /\ st_res a = st_res b /\ st_calls a = st_calls b.
(* after the initial point *)
Definition st_frame1 (a b : St) : Prop :=
  st_it a = st_it b /\ wipe (st_inf a) = wipe (st_inf b) /\ st_kkt a = st_kkt b /\
  st_refine a = st_refine b /\ st_res a = st_res b /\ st_calls a = st_calls b.

Lemma wipe_eq_proj a b : wipe a = wipe b ->
  i_status a = i_status b /\ i_iter a = i_iter b /\ i_rho a = i_rho b /\ i_delta a = i_delta b /\ i_mu a = i_mu b /\
  i_sigma a = i_sigma b /\ i_primal_step a = i_primal_step b /\ i_dual_step a = i_dual_step b /\
  i_factor_retires a = i_factor_retires b /\ i_reg_limit a = i_reg_limit b /\
  i_no_primal_update a = i_no_primal_update b /\ i_no_dual_update a = i_no_dual_update b.
Proof.
  intros H.
  pose proof (f_equal i_status H). pose proof (f_equal i_iter H). pose proof (f_equal i_rho H).
  pose proof (f_equal i_delta H). pose proof (f_equal i_mu H). pose proof (f_equal i_sigma H).
  pose proof (f_equal i_primal_step H). pose proof (f_equal i_dual_step H). pose proof (f_equal i_factor_retires H).
  pose proof (f_equal i_reg_limit H). pose proof (f_equal i_no_primal_update H). pose proof (f_equal i_no_dual_update H).
  cbn in *. auto 20.
Qed.

Lemma blank_eq_proj a b : blank a = blank b ->
  z a = z b /\ z_lb a = z_lb b /\ z_ub a = z_ub b /\ s a = s b /\ s_lb a = s_lb b /\ s_ub a = s_ub b.
Proof.
  intros H.
  pose proof (f_equal z H). pose proof (f_equal z_lb H). pose proof (f_equal z_ub H).
  pose proof (f_equal s H). pose proof (f_equal s_lb H). pose proof (f_equal s_ub H).
  cbn in *. auto 10.
Qed.

Lemma core_eq_proj a b : core a = core b ->
  x a = x b /\ y a = y b /\ z a = z b /\ z_lb a = z_lb b /\ z_ub a = z_ub b /\ s a = s b /\ s_lb a = s_lb b /\ s_ub a = s_ub b.
Proof.
  intros H.
  pose proof (f_equal x H). pose proof (f_equal y H).
  pose proof (f_equal z H). pose proof (f_equal z_lb H). pose proof (f_equal z_ub H).
  pose proof (f_equal s H). pose proof (f_equal s_lb H). pose proof (f_equal s_ub H).
  cbn in *. auto 10.
Qed.

(* an info update that does not read the eight fields commutes with wipe *)
Lemma wipe_congr (f : Info -> Info) a b : (forall i, wipe (f i) = f (wipe i)) -> wipe a = wipe b -> wipe (f a) = wipe (f b).
Proof. intros Hf H. rewrite !Hf, H. reflexivity. Qed.

Lemma wipe_all8 a b : wipe a = wipe b -> forall v1 v2 v3 v4 v5 v6 v7 v8,
  a <| i_dual_rel_inf := v1 |> <| i_primal_obj := v2 |> <| i_dual_obj := v3 |> <| i_duality_gap_rel := v4 |>
    <| i_duality_gap := v5 |> <| i_primal_rel_inf := v6 |> <| i_primal_inf := v7 |> <| i_dual_inf := v8 |> =
  b <| i_dual_rel_inf := v1 |> <| i_primal_obj := v2 |> <| i_dual_obj := v3 |> <| i_duality_gap_rel := v4 |>
    <| i_duality_gap := v5 |> <| i_primal_rel_inf := v6 |> <| i_primal_inf := v7 |> <| i_dual_inf := v8 |>.
Proof.
  intros H. destruct (wipe_eq_proj a b H) as (E1 & E2 & E3 & E4 & E5 & E6 & E7 & E8 & E9 & E10 & E11 & E12).
  destruct a, b. cbn in *. subst. reflexivity.
Qed.

Ltac rr_zeta :=
  lazymatch goal with
  | |- RR ?R (let x := ?v1 in @?b1 x) (let x' := ?v2 in @?b2 x') => change (RR R (b1 v1) (b2 v2)); cbv beta
  end.
Ltac norm := cbv beta iota delta [set cp_iterate x y z z_lb z_ub s s_lb s_ub zeta lambda nu nu_lb nu_ub st_it st_inf st_kkt st_refine].

Ltac norm2 := cbv beta iota delta [set cp_iterate x y z z_lb z_ub s s_lb s_ub zeta lambda nu nu_lb nu_ub st_it st_inf st_kkt st_refine mu_of].
Ltac wipe_mu_tac H :=
  let E1 := fresh in let E2 := fresh in let E3 := fresh in let E4 := fresh in let E5 := fresh in let E6 := fresh in
  let E7 := fresh in let E8 := fresh in let E9 := fresh in let E10 := fresh in let E11 := fresh in let E12 := fresh in
  destruct (wipe_eq_proj _ _ H) as (E1 & E2 & E3 & E4 & E5 & E6 & E7 & E8 & E9 & E10 & E11 & E12);
  cbv beta iota delta [wipe i_status i_iter i_rho i_delta i_mu i_sigma i_primal_step i_dual_step
    i_factor_retires i_reg_limit i_no_primal_update i_no_dual_update] in E1, E2, E3, E4, E5, E6, E7, E8, E9, E10, E11, E12 |- *;
  rewrite ?E1, ?E2, ?E3, ?E4, ?E5, ?E6, ?E7, ?E8, ?E9, ?E10, ?E11, ?E12; reflexivity.

Section Frame.
Variable K : Consts.
Variable S : Settings.
Variable d : Data.
Variable pc : Precond.
Variable fault : nat -> bool.
Variable cp : F -> F.

Lemma do_update_scalings_frame a b :
  st_frame a b -> RR st_frame (do_update_scalings d a) (do_update_scalings d b).
Proof.
  intros (Hit & Hinf & Hk & Hr & Hs & Hc).
  destruct (blank_eq_proj _ _ Hit) as (B1 & B2 & B3 & B4 & B5 & B6).
  destruct (wipe_eq_proj _ _ Hinf) as (E1 & E2 & E3 & E4 & _).
  unfold do_update_scalings. rewrite Hk, B1, B2, B3, B4, B5, B6, E3, E4.
  destruct (kkt_update_scalings _ _ _ _ _ _ _ _ _ _) as [k|]; cbn; [|reflexivity].
  repeat split; assumption.
Qed.

Lemma do_factorize_frame a b :
  st_frame a b -> RR (fun x y => st_frame (fst x) (fst y) /\ snd x = snd y) (do_factorize S d fault a) (do_factorize S d fault b).
Proof.
  intros (Hit & Hinf & Hk & Hr & Hs & Hc).
  unfold do_factorize. rewrite Hk, Hr, Hc.
  destruct (regularize_and_factorize _ _ _ _ _) as [[k ok]|]; cbn; [|reflexivity].
  split; [|reflexivity]. repeat split; cbn; congruence.
Qed.

Lemma wipe_bump i : wipe (bump_reg K S i) = bump_reg K S (wipe i).
Proof. reflexivity. Qed.
Lemma wipe_status st i : wipe (i <| i_status := st |>) = (wipe i) <| i_status := st |>.
Proof. reflexivity. Qed.
Lemma wipe_retires v i : wipe (i <| i_factor_retires := v |>) = (wipe i) <| i_factor_retires := v |>.
Proof. reflexivity. Qed.
Lemma wipe_mu v i : wipe (i <| i_mu := v |>) = (wipe i) <| i_mu := v |>.
Proof. reflexivity. Qed.

Lemma init_factor_frame fuel : forall a b,
  st_frame a b ->
  RR (fun x y => st_frame (fst x) (fst y) /\ snd x = snd y) (init_factor K S d fault fuel a) (init_factor K S d fault fuel b).
Proof.
  induction fuel as [|f IH]; intros a b H; cbn [init_factor]; [reflexivity|].
  eapply RR_bind; [apply do_factorize_frame; exact H|].
  intros [a1 ok1] [b1 ok2] [H1 E]. cbn [fst snd] in H1, E. subst ok2.
  destruct ok1; [cbn; auto|].
  pose proof H1 as (Hit & Hinf & Hk & Hr & Hs & Hc).
  destruct (wipe_eq_proj _ _ Hinf) as (_ & _ & _ & _ & _ & _ & _ & _ & E9 & _).
  rewrite Hr, E9.
  destruct (negb (st_refine b1)).
  { apply IH. repeat split; cbn; assumption. }
  destruct (i_factor_retires (st_inf b1) <? max_factor_retires S)%Z.
  - eapply RR_bind.
    + apply do_update_scalings_frame. repeat split; cbn; try assumption.
      apply (wipe_congr (bump_reg K S)); [apply wipe_bump|exact Hinf].
    + intros a2 b2 H2. apply IH. exact H2.
  - cbn. split; [|reflexivity]. repeat split; cbn; try assumption.
    apply (wipe_congr (fun i => i <| i_status := NUMERICS |>)); [intros; apply wipe_status|exact Hinf].
Qed.


Lemma initial_point_frame a b :
  st_frame a b -> RR st_frame1 (initial_point K S d cp a) (initial_point K S d cp b).
Proof.
  intros (Hit & Hinf & Hk & Hr & Hs & Hc).
  destruct a as [ita ia ka rfa rsa ca], b as [itb ib kb rfb rsb cb]. cbn in Hit, Hinf, Hk, Hr, Hs, Hc. subst kb rfb rsb cb.
  destruct ita as [xa ya za zla zua sa sla sua zea laa nua nla nuua], itb as [xb yb zb zlb zub sb slb sub zeb lab nub nlb nuub].
  cbn in Hit. injection Hit as -> -> -> -> -> ->.
  cbv delta [initial_point]. cbv beta. norm.
  rr_step. rr_step. rr_zeta. norm.
  eapply RR_bind with (Q := fun u v => core (fst u) = core (fst v) /\ wipe (snd u) = wipe (snd v)).
  - rr_step.
    + (* there are inequalities *)
      rr_step.
      destruct (qleb s_norm (k_snorm K)).
      * rr_zeta. norm. rr_step. rr_step. rr_step. rr_step. rr_step. rr_step. rr_step. rr_step. rr_zeta. norm2. rr_step.
        cbn [RR fst snd]. (split; [reflexivity|]). wipe_mu_tac Hinf.
      * (rr_zeta; norm; do 8 rr_step; rr_zeta; norm2; rr_step).
        (cbn [RR fst snd]; split; [reflexivity|]). wipe_mu_tac Hinf.
    + (cbn [RR fst snd]). (split; [reflexivity|exact Hinf]).
  - intros [it1a i1a] [it1b i1b] [Hc' Hw]. cbn [fst snd] in Hc', Hw. cbn [RR].
    destruct (core_eq_proj _ _ Hc') as (C1 & C2 & C3 & C4 & C5 & C6 & C7 & C8).
    (split; [|split; [exact Hw|repeat split]]).
    (destruct it1a, it1b). (cbn in * ). subst. reflexivity.
Qed.

(* the first pass of the main loop overwrites the eight info fields before reading them *)
Lemma update_nr_residuals_wipe it ia ib : wipe ia = wipe ib ->
  RR (fun u v => fst u = fst v /\ forall v7 v8, (snd u) <| i_primal_inf := v7 |> <| i_dual_inf := v8 |> = (snd v) <| i_primal_inf := v7 |> <| i_dual_inf := v8 |>)
     (update_nr_residuals d pc K it ia) (update_nr_residuals d pc K it ib).
Proof.
  intros H. unfold update_nr_residuals.
  repeat rr_step.
  cbn [RR fst snd]. split; [reflexivity|]. intros v7 v8. apply (wipe_all8 _ _ H).
Qed.

Lemma loop_pass_frame1 a b :
  st_frame1 a b -> i_iter (st_inf a) = 0%Z -> loop_pass K S d pc fault cp a = loop_pass K S d pc fault cp b.
Proof.
  intros (Hit & Hinf & Hk & Hr & Hs & Hc) H0. apply RR_eq_iff.
  destruct a as [ita ia ka rfa rsa ca], b as [itb ib kb rfb rsb cb]. cbn in Hit, Hinf, Hk, Hr, Hs, Hc, H0. subst itb kb rfb rsb cb.
  assert (H0b : i_iter ib = 0%Z) by (destruct (wipe_eq_proj _ _ Hinf) as (_ & E & _); congruence).
  cbv delta [loop_pass]. cbv beta.
  cbv beta iota delta [st_inf st_it st_res].
  rr_zeta.
  rewrite H0, H0b. change (0 =? 0)%Z with true. cbv iota.
  eapply RR_bind; [apply update_nr_residuals_wipe; exact Hinf|].
  intros [r ia'] [r' ib'] [E Hq]. cbn [fst snd] in E, Hq. subst r'.
  cbv beta iota.
  rewrite (Hq (primal_inf_nr pc r) (dual_inf_nr pc r)).
  rr_step.
  rr_step.
  (apply RR_refl; reflexivity).
Qed.

Lemma main_loop_frame1 fuel a b :
  st_frame1 a b -> i_iter (st_inf a) = 0%Z -> (0 < max_iter S)%Z ->
  main_loop K S d pc fault cp fuel a = main_loop K S d pc fault cp fuel b.
Proof.
  intros H H0 Hm. destruct fuel as [|f]; [reflexivity|]. cbn [main_loop].
  pose proof H as (_ & Hinf & _). destruct (wipe_eq_proj _ _ Hinf) as (_ & E & _).
  rewrite <- E, H0. apply Z.ltb_lt in Hm. rewrite Hm.
  rewrite (loop_pass_frame1 a b H H0). reflexivity.
Qed.

End Frame.

(* ================================================================================================ *)
(** * C. solve() = entry step ; tail *)

Definition kkt_pend0 (k1 k2 : KKT) : Prop := kkt_pend (nofact k1) (nofact k2).

(* OBSERVATIONAL EQUALITY of two solver objects for every later call: all fields are equal except the KKT object, whose
   box arrays, matrix, scalings and LLT state are rebuilt by the next solve() before they are read (both objects are
   past their first solve(): kkt_init_state = false) *)
Definition later_eq (a b : Solver) : Prop :=
  sv_obs_eq a b /\ sv_kkt_init_state a = false /\ kkt_pend0 (sv_kkt a) (sv_kkt b).

Definition solve_rel0 (u v : Solver * Status) : Prop := later_eq (fst u) (fst v) /\ snd u = snd v.

(* the fields solve() never writes *)
Definition sv_static_eq (a b : Solver) : Prop :=
  sv_set a = sv_set b /\ sv_data a = sv_data b /\ sv_pc a = sv_pc b /\ sv_setup_done a = sv_setup_done b.

Section Rest.
Variable K : Consts.
Variable junk : F.
Variable cp_bits : Z.
Variable fault : nat -> bool.

Definition solve_inf0 (S : Settings) (i : Info) : Info :=
  i <| i_status := UNSOLVED |> <| i_iter := 0%Z |> <| i_reg_limit := reg_lower_limit S |>
    <| i_factor_retires := 0%Z |> <| i_no_primal_update := 0%Z |> <| i_no_dual_update := 0%Z |>
    <| i_mu := 0 |> <| i_sigma := 0 |> <| i_primal_step := 0 |> <| i_dual_step := 0 |>
    <| i_rho := rho_init S |> <| i_delta := delta_init S |>.

Definition solve_st0 (sv : Solver) : St :=
  {| st_it := entry_iterate (sv_data sv) (sv_out sv); st_inf := solve_inf0 (sv_set sv) (sv_info sv);
     st_kkt := sv_kkt sv; st_refine := sv_refine sv;
     st_res := {| rx_nr := []; ry_nr := []; rz_nr := []; rz_lb_nr := []; rz_ub_nr := [] |};
     st_calls := sv_calls sv |}.

Definition solve_fin (sv : Solver) (st : St) (it : Iterate) : res (Solver * Status) :=
  do out <- unscale_and_restore junk sv it ;;
  Ok (sv <| sv_kkt := st_kkt st |> <| sv_kkt_init_state := false |> <| sv_refine := st_refine st |>
         <| sv_info := st_inf st |> <| sv_out := out |> <| sv_calls := st_calls st |>, i_status (st_inf st)).

(* the initial factorisation of solve(), from the state after the entry step *)
Definition solve_init (sv : Solver) (st1 : St) : res (St * bool) :=
  init_factor K (sv_set sv) (sv_data sv) fault (init_fuel (sv_set sv)) st1.

Definition solve_rest (sv : Solver) (st1 : St) : res (Solver * Status) :=
  let S := sv_set sv in let d := sv_data sv in let pc := sv_pc sv in
  do '(st2, ok) <- solve_init sv st1 ;;
  if negb ok then solve_fin sv st2 (st_it st2)
  else
    do st3 <- initial_point K S d (round_cp cp_bits) (st2 <| st_inf := (st_inf st2) <| i_factor_retires := 0%Z |> |>) ;;
    do st4 <- main_loop K S d pc fault (round_cp cp_bits) (loop_fuel S) st3 ;;
    solve_fin sv st4 (st_it st4).

Lemma solve_unfold sv :
  solve K junk cp_bits fault sv =
  do st1 <- (if sv_kkt_init_state sv then Ok (solve_st0 sv) else do_update_scalings (sv_data sv) (solve_st0 sv)) ;;
  solve_rest sv st1.
Proof. reflexivity. Qed.

Lemma solve_fin_agree0 a b st st' :
  sv_static_eq a b -> st_agree0 (sv_data a) st st' -> PcBox (sv_data a) (sv_pc a) -> ItShape (sv_data a) (st_it st) ->
  RR solve_rel0 (solve_fin a st (st_it st)) (solve_fin b st' (st_it st')).
Proof.
  intros (S1 & S2 & S3 & S4) (A1 & A2 & A3 & A4 & A5 & A6) HP HI. unfold solve_fin. rewrite <- A1, <- A2, <- A3, <- A5.
  rewrite (unscale_and_restore_junk_indep junk junk a b (st_it st) S2 S3 (restore_ready_of_shape _ _ _ HP HI)).
  apply RR_bind_same. intros out. cbn.
  split; [|reflexivity]. split; [repeat split; assumption|]. split; [reflexivity|].
  cbn. apply (kkt_agree_pend (sv_data a)). exact A6.
Qed.

(* the tail of solve() from two states that agree up to the dead parts of the KKT object *)
Lemma solve_rest_agree0 a b sta stb :
  sv_static_eq a b -> DataShape (sv_data a) -> PcBox (sv_data a) (sv_pc a) ->
  st_agree0 (sv_data a) sta stb -> ItShape (sv_data a) (st_it sta) -> KShape (sv_data a) (st_kkt sta) ->
  i_iter (st_inf sta) = 0%Z ->
  RR solve_rel0 (solve_rest a sta) (solve_rest b stb).
Proof.
  intros Hs HD HP H HI0 HK0 V3. pose proof Hs as (S1 & S2 & S3 & S4).
  unfold solve_rest, solve_init. rewrite <- S1, <- S2, <- S3.
  set (S := sv_set a) in *. set (d := sv_data a) in *. set (pc := sv_pc a) in *. cbv zeta.
  eapply RR_bind_eqn; [apply init_factor_agree0; exact H|].
  intros [st2 ok] [st2' ok'] Est2 _ [Eok Hst2]. cbn [fst snd] in Hst2, Eok. subst ok'.
  destruct (init_factor_shape K S d fault _ _ _ _ Est2 HI0 HK0) as (W1 & W2 & W3).
  destruct ok; cbn [negb]; cbv iota.
  - eapply RR_bind_eqn.
    { apply initial_point_agree. destruct Hst2 as (A1 & A2 & A3 & A4 & A5 & A6).
      repeat split; cbn; try assumption; try apply A6. rewrite A2. reflexivity. }
    intros st3 st3' Est3 _ Hst3.
    pose proof (initial_point_shape K S d (round_cp cp_bits) HD _ _ Est3 W2) as X1.
    pose proof (initial_point_iter K S d (round_cp cp_bits) _ _ Est3) as X2. cbn in X2.
    eapply RR_bind_eqn; [apply main_loop_agree; exact Hst3|].
    intros st4 st4' Est4 _ Hst4.
    assert (X4 : ItShape d (st_it st4)).
    { eapply (main_loop_shape K S d pc fault (round_cp cp_bits) HD); [|exact Est4].
      split; [exact X1|left]. rewrite X2, W3. exact V3. }
    apply solve_fin_agree0; try assumption. apply st_agree_agree0, Hst4.
  - apply solve_fin_agree0; try assumption. rewrite W1. exact HI0.
Qed.

(* the tail of solve() reads the previous results only on the early-NUMERICS path and, the eight info fields, when the
   main loop makes no pass at all *)
Lemma solve_rest_frame sv a b :
  st_frame a b -> i_iter (st_inf a) = 0%Z ->
  ((st_it a = st_it b /\ st_inf a = st_inf b) \/
   ((0 < max_iter (sv_set sv))%Z /\ forall st2, solve_init sv b <> Ok (st2, false))) ->
  solve_rest sv a = solve_rest sv b.
Proof.
  intros H V3 [[Ei Ef]|[Hm Hno]].
  { destruct H as (_ & _ & Hk & Hr & Hs & Hc). destruct a, b. cbn in *. subst. reflexivity. }
  apply RR_eq_iff. unfold solve_rest. unfold solve_init in *.
  set (S := sv_set sv) in *. set (d := sv_data sv) in *. set (pc := sv_pc sv) in *. cbv zeta.
  eapply RR_bind_eqn; [apply init_factor_frame; exact H|].
  intros [a2 ok] [b2 ok'] Ea Eb [Hf E]. cbn [fst snd] in Hf, E. subst ok'.
  destruct ok; [|exfalso; eapply Hno; exact Eb]. cbn [negb]. cbv iota.
  destruct (ResidLoopProofs.init_factor_inv K S d fault _ _ _ _ Ea) as [Wa _].
  pose proof Hf as (Hit & Hinf & Hk & Hr & Hs & Hc).
  eapply RR_bind_eqn.
  { apply initial_point_frame. repeat split; cbn; try assumption.
    apply (wipe_congr (fun i => i <| i_factor_retires := 0%Z |>)); [intros; reflexivity|exact Hinf]. }
  intros a3 b3 Ea3 Eb3 H3.
  pose proof (ResidLoopProofs.initial_point_iter K S d (round_cp cp_bits) _ _ Ea3) as X2. cbn in X2.
  assert (V3' : i_iter (st_inf a3) = 0%Z) by (rewrite X2, Wa; exact V3).
  rewrite (main_loop_frame1 K S d pc fault (round_cp cp_bits) (loop_fuel S) a3 b3 H3 V3' Hm).
  apply RR_refl. reflexivity.
Qed.

End Rest.

(* ================================================================================================ *)
(** * D. the first solve() after update(all, reuse = false) vs after setup() *)

Lemma vinv_ones n : vinv (vconst n 1) = Ok (vconst n 1).
Proof.
  unfold vinv, vconst. induction n as [|n IH]; [reflexivity|]. cbn [repeat mapM]. rewrite IH.
  assert (E : qinv 1 = Ok 1) by (unfold qinv, qdiv; cbn; f_equal; apply Qc_is_canon; reflexivity).
  rewrite E. reflexivity.
Qed.

Lemma head_vconst n (k : F) : head n (vconst n k) = vconst n k.
Proof. unfold head, vconst. rewrite <- (repeat_length k n) at 1. apply firstn_all. Qed.

(* the eight info fields solve() does not reset *)
Definition carry_info (i : Info) : F * F * F * F * F * F * F * F :=
  (i_primal_inf i, i_primal_rel_inf i, i_dual_inf i, i_dual_rel_inf i, i_primal_obj i, i_dual_obj i,
   i_duality_gap i, i_duality_gap_rel i).

Lemma solve_inf0_carry S i1 i2 : carry_info i1 = carry_info i2 -> solve_inf0 S i1 = solve_inf0 S i2.
Proof.
  destruct i1, i2. unfold carry_info. cbn. intros [= -> -> -> -> -> -> -> ->]. reflexivity.
Qed.

Section First.
Variable K : Consts.
Variable junk : F.
Variable cp_bits : Z.
Variable fault : nat -> bool.

(* "the initial factorisation gives up": solve() of [sv] returns NUMERICS before the initial point is computed *)
Definition init_gives_up (sv : Solver) : Prop :=
  exists st1 st2, (if sv_kkt_init_state sv then Ok (solve_st0 sv) else do_update_scalings (sv_data sv) (solve_st0 sv)) = Ok st1 /\
                  solve_init K fault sv st1 = Ok (st2, false).

Lemma init_gives_up_numerics sv sv' stt :
  init_gives_up sv -> solve K junk cp_bits fault sv = Ok (sv', stt) -> stt = NUMERICS.
Proof.
  intros (st1 & st2 & E1 & E2) H. rewrite solve_unfold, E1 in H. cbn [bind] in H.
  unfold solve_rest in H. rewrite E2 in H. cbn [bind negb] in H. cbv iota in H.
  unfold solve_init in E2. destruct (ResidLoopProofs.init_factor_inv K _ _ fault _ _ _ _ E2) as [_ HN].
  unfold solve_fin in H. destruct (unscale_and_restore junk sv (st_it st2)); cbn [bind] in H; [|discriminate].
  injection H as _ <-. apply HN. reflexivity.
Qed.

(* the two solver objects: [sv1] after update(all eight blocks, reuse = false), [sv2] after setup() of the same blocks *)
Record fresh_pair (sv1 sv2 : Solver) : Prop := mk_fresh_pair {
  fp_static : sv_static_eq sv1 sv2;
  fp_init1 : sv_kkt_init_state sv1 = false;
  fp_init2 : sv_kkt_init_state sv2 = true;
  fp_ATA : k_ATA (sv_kkt sv1) = k_ATA (sv_kkt sv2);
  fp_kkt2 : kkt_init (sv_data sv2) (rho_init (sv_set sv2)) (delta_init (sv_set sv2)) junk = Ok (sv_kkt sv2);
  fp_len1 : length (k_s_lb (sv_kkt sv1)) = d_n (sv_data sv1) /\ length (k_z_lb_inv (sv_kkt sv1)) = d_n (sv_data sv1) /\
            length (k_s_ub (sv_kkt sv1)) = d_n (sv_data sv1) /\ length (k_z_ub_inv (sv_kkt sv1)) = d_n (sv_data sv1);
  fp_nlb : (d_nlb (sv_data sv1) <= d_n (sv_data sv1))%nat;
  fp_nub : (d_nub (sv_data sv1) <= d_n (sv_data sv1))%nat;
  fp_DS : DataShape (sv_data sv1);
  fp_PB : PcBox (sv_data sv1) (sv_pc sv1);
  fp_O1 : OutShape (sv_data sv1) (sv_out sv1)
}.

(* entry step: update_scalings(rho_init, delta_init, s = z = 1) on the KKT object update() left rebuilds what kkt_init built *)
Lemma entry_step_rebuilds sv1 sv2 :
  fresh_pair sv1 sv2 -> sv_refine sv1 = sv_refine sv2 -> sv_calls sv1 = sv_calls sv2 ->
  exists st1, do_update_scalings (sv_data sv1) (solve_st0 sv1) = Ok st1 /\
    st_agree0 (sv_data sv1) st1
      (mkSt (st_it (solve_st0 sv1)) (st_inf (solve_st0 sv1)) (sv_kkt sv2) (sv_refine sv2)
            (st_res (solve_st0 sv2)) (sv_calls sv2)).
Proof.
  intros [(S1 & S2 & S3 & S4) I1 I2 HA Hk2 (L1 & L2 & L3 & L4) Nlb Nub HD HP HO] Hr Hc.
  set (d := sv_data sv1) in *. set (S := sv_set sv1) in *. rewrite <- S1, <- S2 in Hk2. fold d S in Hk2.
  unfold do_update_scalings. cbn [st_kkt st_inf st_it solve_st0]. fold d S.
  change (i_rho (solve_inf0 S (sv_info sv1))) with (rho_init S).
  change (i_delta (solve_inf0 S (sv_info sv1))) with (delta_init S).
  unfold entry_iterate. cbn [s s_lb s_ub z z_lb z_ub]. fold d.
  unfold kkt_update_scalings. rewrite !head_vconst, !vinv_ones. cbn [bind].
  set (k1 := sv_kkt sv1) in *.
  match goal with |- context [update_kkt d ?k] => set (kA := k) end.
  unfold kkt_init in Hk2.
  match type of Hk2 with update_kkt d ?k = _ => set (k0 := k) in * end.
  assert (Hpre : kkt_pre d (nofact kA) (nofact k0)).
  { apply update_kkt_keeps in Hk2. destruct Hk2 as [rows Ek2].
    assert (EA : k_ATA k1 = k_ATA k0) by (rewrite HA, Ek2; reflexivity).
    unfold kkt_pre, kA, k0, nofact, setf. cbn.
    do 4 (split; [reflexivity|]). split; [exact EA|]. split; [reflexivity|].
    unfold box_agree, vconst. rewrite !set_head_length', !app_length, !repeat_length, L1, L2, L3, L4.
    rewrite !firstn_set_head_full by (rewrite repeat_length; lia).
    rewrite !firstn_app, !repeat_length, !Nat.sub_diag. cbn [firstn]. rewrite !app_nil_r.
    repeat split; try lia; reflexivity. }
  pose proof (update_kkt_agree d _ _ Hpre) as HR.
  unfold nofact in HR. rewrite !update_kkt_setf in HR. apply RR_rmap in HR. rewrite Hk2 in HR.
  destruct (update_kkt d kA) as [kA'|]; cbn in HR; [|contradiction]. cbn [bind].
  eexists; split; [reflexivity|]. cbn.
  split; [reflexivity|]. split; [reflexivity|]. split; [exact Hr|]. split; [reflexivity|]. split; [exact Hc|]. exact HR.
Qed.

Lemma solve_st0_frame sv1 sv2 :
  sv_data sv1 = sv_data sv2 -> sv_set sv1 = sv_set sv2 ->
  st_frame (mkSt (st_it (solve_st0 sv1)) (st_inf (solve_st0 sv1)) (sv_kkt sv2) (sv_refine sv2) (st_res (solve_st0 sv2)) (sv_calls sv2))
           (solve_st0 sv2).
Proof.
  intros Ed Es. unfold st_frame, solve_st0. cbn [st_it st_inf st_kkt st_refine st_res st_calls]. rewrite Ed, Es.
  repeat split; reflexivity.
Qed.

(** ** the theorem *)
Theorem first_solve_eq sv1 sv2 :
  fresh_pair sv1 sv2 -> sv_refine sv1 = sv_refine sv2 -> sv_calls sv1 = sv_calls sv2 ->
  ((sv_out sv1 = sv_out sv2 /\ carry_info (sv_info sv1) = carry_info (sv_info sv2)) \/
   ((0 < max_iter (sv_set sv2))%Z /\ ~ init_gives_up sv2)) ->
  RR solve_rel0 (solve K junk cp_bits fault sv1) (solve K junk cp_bits fault sv2).
Proof.
  intros FP Hr Hc Hcarry.
  destruct (entry_step_rebuilds sv1 sv2 FP Hr Hc) as (st1 & E1 & A1).
  pose proof FP as [Hs I1 I2 HA Hk2 HL Nlb Nub HD HP HO]. pose proof Hs as (S1 & S2 & S3 & S4).
  rewrite !solve_unfold, I1, I2, E1. cbn [bind].
  set (mid := mkSt (st_it (solve_st0 sv1)) (st_inf (solve_st0 sv1)) (sv_kkt sv2) (sv_refine sv2) (st_res (solve_st0 sv2)) (sv_calls sv2)) in *.
  assert (Efr : solve_rest K junk cp_bits fault sv2 mid = solve_rest K junk cp_bits fault sv2 (solve_st0 sv2)).
  { apply solve_rest_frame; [apply solve_st0_frame; assumption|reflexivity|].
    destruct Hcarry as [[Eo Ei]|[Hm Hno]]; [left|right].
    - unfold mid, solve_st0. cbn [st_it st_inf]. rewrite S1, S2, Eo. split; [reflexivity|]. apply solve_inf0_carry, Ei.
    - split; [exact Hm|]. intros st2 E2. apply Hno. exists (solve_st0 sv2), st2. rewrite I2. auto. }
  rewrite <- Efr.
  assert (HI0 : ItShape (sv_data sv1) (st_it st1) /\ KShape (sv_data sv1) (st_kkt st1) /\ i_iter (st_inf st1) = 0%Z).
  { pose proof (entry_iterate_shape _ _ HO) as HI.
    apply do_update_scalings_keeps in E1. cbn [st_it st_inf st_res solve_st0] in E1. destruct E1 as (B1 & B2 & _ & B4).
    rewrite B1, B2. split; [exact HI|]. split; [apply B4, HI|reflexivity]. }
  destruct HI0 as (HI0 & HK0 & V3).
  apply solve_rest_agree0; assumption.
Qed.

(** ** every later call *)
Lemma do_update_scalings_pend0 d it inf k1 k2 rf rs c :
  kkt_pend0 k1 k2 -> ItShape d it ->
  RR (st_agree0 d) (do_update_scalings d (mkSt it inf k1 rf rs c)) (do_update_scalings d (mkSt it inf k2 rf rs c)).
Proof.
  intros Hk (I1 & I2 & I3 & I4 & I5 & I6 & I7 & I8 & I9). unfold do_update_scalings. cbn [st_it st_inf st_kkt].
  pose proof (kkt_update_scalings_pend d (nofact k1) (nofact k2) (i_rho inf) (i_delta inf) (s it) (s_lb it) (s_ub it)
                (z it) (z_lb it) (z_ub it) Hk ltac:(lia) ltac:(lia) ltac:(lia) ltac:(lia)) as H.
  unfold nofact in H. rewrite !kkt_update_scalings_setf in H. apply RR_rmap in H.
  eapply RR_bind; [exact H|]. intros k1' k2' Hk'. do 5 (split; [reflexivity|]). exact Hk'.
Qed.

Theorem later_eq_solve a b :
  later_eq a b -> SolveShape a ->
  RR solve_rel0 (solve K junk cp_bits fault a) (solve K junk cp_bits fault b).
Proof.
  intros (Hobs & I1 & Hk) (HD & HP & HO & _).
  pose proof Hobs as (O1 & O2 & O3 & O4 & O5 & O6 & O7 & O8 & O9).
  assert (I2 : sv_kkt_init_state b = false) by congruence.
  rewrite !solve_unfold, I1, I2.
  pose proof (entry_iterate_shape _ _ HO) as HI.
  assert (H1 : RR (st_agree0 (sv_data a)) (do_update_scalings (sv_data a) (solve_st0 a)) (do_update_scalings (sv_data b) (solve_st0 b))).
  { unfold solve_st0. rewrite <- O1, <- O2, <- O6, <- O7, <- O8, <- O9. apply do_update_scalings_pend0; assumption. }
  eapply RR_bind_eqn; [exact H1|]. intros st1 st1' E1 _ A1.
  apply do_update_scalings_keeps in E1. cbn [st_it st_inf st_res solve_st0] in E1. destruct E1 as (B1 & B2 & _ & B4).
  apply solve_rest_agree0; try assumption.
  - repeat split; assumption.
  - rewrite B1. exact HI.
  - apply B4, HI.
  - rewrite B2. reflexivity.
Qed.

End First.

Theorem later_eq_update_ok K sq a b B reuse a' b' :
  later_eq a b -> update K sq a B reuse = Ok a' -> update K sq b B reuse = Ok b' -> later_eq a' b'.
Proof.
  intros (Hobs & I1 & Hp).
  rewrite !update_split, <- (update_data_obs K sq a b B reuse Hobs).
  destruct (update_data K sq a B reuse) as [[pc d]|]; cbn [bind]; [|discriminate].
  destruct (kkt_update_data d (sv_kkt a) _ _ _) as [k1|] eqn:E1; cbn [bind]; [|discriminate].
  destruct (kkt_update_data d (sv_kkt b) _ _ _) as [k2|] eqn:E2; cbn [bind]; [|discriminate].
  intros [= <-] [= <-].
  destruct Hobs as (O1 & O2 & O3 & O4 & O5 & O6 & O7 & O8 & O9).
  split; [repeat split; cbn; assumption|]. split; [reflexivity|]. cbn.
  unfold kkt_pend0, nofact.
  eapply (kkt_update_data_pend d (nofact (sv_kkt a)) (nofact (sv_kkt b))); [exact Hp| |];
    unfold nofact; rewrite kkt_update_data_setf; [rewrite E1|rewrite E2]; reflexivity.
Qed.

(* what an observer can see of two later_eq objects is equal *)
Lemma later_eq_obs a b : later_eq a b ->
  sv_set a = sv_set b /\ sv_data a = sv_data b /\ sv_pc a = sv_pc b /\ sv_info a = sv_info b /\ sv_out a = sv_out b /\
  sv_refine a = sv_refine b /\ sv_calls a = sv_calls b /\ k_ATA (sv_kkt a) = k_ATA (sv_kkt b).
Proof.
  intros ((O1 & O2 & O3 & O4 & O5 & O6 & O7 & O8 & O9) & _ & (_ & _ & _ & _ & HA & _)). cbn in HA. auto 10.
Qed.
