(* InteriorProofs.v -- C08-T1: the iterates of the interior point loop stay strictly interior.
   Proofs about the executable model IPM.v (exact rationals) of solver.hpp `solve_impl`: all sizes, all data,
   any step direction.  Stdlib only, no axioms.
     1-2  Qc order bridge (qltb/qleb/qeqb/qmax/qmin <-> Qclt/Qcle, tactic qlra/qnra via Q and lra/nra), vectors
     3    F  ratio_min_spec, fraction_to_boundary(_strict,_tau_one), block_step_pos
     4    C  round_cp_pos / round_cp_neg / round_cp_zero; predicates cp_pos, cp_sign
     5    invariants ItPos / InfPos / Positive; B boundary_shift_keeps_positive; step_lengths_spec,
          step_update_keeps_positive (the update it4 of loop_pass for ANY direction)
     6    shape predicates and the shape lemmas of kkt_solve, update_scalings, update_nr_residuals
     7    L  loop_pass_inv (one symbolic walk through loop_pass, let-bound names kept as context variables),
          loop_pass_positive, loop_invariant, main_loop_positive, main_loop_interior
     8    E  shift lemmas, mehrotra_core, mehrotra_shift_exact (exact success condition), opp_block (s = -w z),
          initial_point_twp (initial_point cannot fail after the KKT solve and returns an interior point)
     9    kkt_init_ok, do_update_scalings_ok, init_factor_ok: the hypotheses of E hold on the path of solve()
     10   initial_point_interior, iterates_interior(_elementary), solve_path_interior *)
From Coq Require Import Lqa Lia.
From PIQP Require Import Base Data Bounds PrecondDense KKTDense IPM.
From RecordUpdate Require Import RecordSet.
Import RecordSetNotations.
Local Open Scope Qc_scope.

(* ================================================================================================ *)
(** * 1. Scalars: bridge between the boolean tests of Base.v, the order of [Qc], and [Q] *)

Lemma this_plus (x y : Qc) : (this (x + y) == this x + this y)%Q.
Proof. unfold Qcplus. cbn [this Q2Qc]. apply Qred_correct. Qed.
Lemma this_minus (x y : Qc) : (this (x - y) == this x - this y)%Q.
Proof. unfold Qcminus, Qcplus, Qcopp. cbn [this Q2Qc]. rewrite !Qred_correct. reflexivity. Qed.
Lemma this_mult (x y : Qc) : (this (x * y) == this x * this y)%Q.
Proof. unfold Qcmult. cbn [this Q2Qc]. apply Qred_correct. Qed.
Lemma this_opp (x : Qc) : (this (- x) == - this x)%Q.
Proof. unfold Qcopp. cbn [this Q2Qc]. apply Qred_correct. Qed.
Lemma this_0 : (this 0 == 0)%Q. Proof. reflexivity. Qed.
Lemma this_1 : (this 1 == 1)%Q. Proof. reflexivity. Qed.
Lemma Qc_eq_this (x y : Qc) : x = y <-> (this x == this y)%Q.
Proof. split; [intros ->; reflexivity | apply Qc_is_canon]. Qed.

Lemma Qc_neq_this (x y : Qc) : x <> y <-> ~ (this x == this y)%Q.
Proof. now rewrite Qc_eq_this. Qed.

(* turn a goal/hypotheses about Qc (+,-,*,opp, <, <=, =) into Q and call a micromega tactic *)
Ltac qc2q :=
  unfold Qcle, Qclt in *;
  repeat match goal with
  | H : _ = _ |- _ => apply Qc_eq_this in H
  | |- _ = _ => apply Qc_eq_this
  | |- _ <> _ => apply Qc_neq_this
  end;
  repeat match goal with
  | H : context [this (_ + _)] |- _ => rewrite this_plus in H
  | H : context [this (_ - _)] |- _ => rewrite this_minus in H
  | H : context [this (_ * _)] |- _ => rewrite this_mult in H
  | H : context [this (- _)] |- _ => rewrite this_opp in H
  | H : context [this 0] |- _ => rewrite this_0 in H
  | H : context [this 1] |- _ => rewrite this_1 in H
  | |- context [this (_ + _)] => rewrite this_plus
  | |- context [this (_ - _)] => rewrite this_minus
  | |- context [this (_ * _)] => rewrite this_mult
  | |- context [this (- _)] => rewrite this_opp
  | |- context [this 0] => rewrite this_0
  | |- context [this 1] => rewrite this_1
  end.
(* negated equalities are never needed and confuse the reification in some contexts *)
Ltac drop_neq := repeat match goal with H : _ <> _ |- _ => clear H | H : ~ (_ == _)%Q |- _ => clear H end.
Ltac qlra := drop_neq; qc2q; lra.
Ltac qnra := drop_neq; qc2q; nra.

Lemma qltb_lt a b : qltb a b = true <-> a < b.
Proof.
  unfold qltb, Qclt. rewrite negb_true_iff. split.
  - intros H. apply Qnot_le_lt. intros C. apply Qle_bool_iff in C. congruence.
  - intros H. destruct (Qle_bool (this b) (this a)) eqn:E; [|reflexivity].
    apply Qle_bool_iff in E. exfalso. apply (Qlt_not_le _ _ H E).
Qed.
Lemma qltb_ge a b : qltb a b = false <-> b <= a.
Proof.
  unfold qltb, Qcle. rewrite negb_false_iff. apply Qle_bool_iff.
Qed.
Lemma qleb_le a b : qleb a b = true <-> a <= b.
Proof. unfold qleb, Qcle. apply Qle_bool_iff. Qed.
Lemma qleb_gt a b : qleb a b = false <-> b < a.
Proof.
  unfold qleb, Qclt. split.
  - intros H. apply Qnot_le_lt. intros C. apply Qle_bool_iff in C. congruence.
  - intros H. destruct (Qle_bool (this a) (this b)) eqn:E; [|reflexivity].
    apply Qle_bool_iff in E. exfalso. apply (Qlt_not_le _ _ H E).
Qed.
Lemma qeqb_eq a b : qeqb a b = true <-> a = b.
Proof. unfold qeqb. rewrite Qeq_bool_iff. symmetry. apply Qc_eq_this. Qed.
Lemma qeqb_neq a b : qeqb a b = false <-> a <> b.
Proof.
  rewrite <- qeqb_eq. destruct (qeqb a b); split; congruence.
Qed.

Lemma qmax_spec a b : (a < b /\ qmax a b = b) \/ (b <= a /\ qmax a b = a).
Proof.
  unfold qmax. destruct (qltb a b) eqn:E; [left|right]; split; auto.
  - now apply qltb_lt. - now apply qltb_ge.
Qed.
Lemma qmin_spec a b : (b < a /\ qmin a b = b) \/ (a <= b /\ qmin a b = a).
Proof.
  unfold qmin. destruct (qltb b a) eqn:E; [left|right]; split; auto.
  - now apply qltb_lt. - now apply qltb_ge.
Qed.
Lemma qmax_ge_l a b : a <= qmax a b.
Proof. destruct (qmax_spec a b) as [[H ->]|[H ->]]; qlra. Qed.
Lemma qmax_ge_r a b : b <= qmax a b.
Proof. destruct (qmax_spec a b) as [[H ->]|[H ->]]; qlra. Qed.
Lemma qmin_le_l a b : qmin a b <= a.
Proof. destruct (qmin_spec a b) as [[H ->]|[H ->]]; qlra. Qed.
Lemma qmin_le_r a b : qmin a b <= b.
Proof. destruct (qmin_spec a b) as [[H ->]|[H ->]]; qlra. Qed.
Lemma qmin_pos a b : 0 < a -> 0 < b -> 0 < qmin a b.
Proof. intros. destruct (qmin_spec a b) as [[_ ->]|[_ ->]]; auto. Qed.
Lemma qmax_pos_l a b : 0 < a -> 0 < qmax a b.
Proof. intros. pose proof (qmax_ge_l a b). qlra. Qed.
Lemma qabs_nonneg a : 0 <= qabs a.
Proof.
  unfold qabs. destruct (qltb a 0) eqn:E.
  - apply qltb_lt in E. qlra. - apply qltb_ge in E. exact E.
Qed.
Lemma qabs_zero a : qabs a = 0 -> a = 0.
Proof.
  unfold qabs. destruct (qltb a 0) eqn:E; intros H.
  - apply qltb_lt in E. qlra. - exact H.
Qed.

(* division *)
Lemma qdiv_ok a b : b <> 0 -> qdiv a b = Ok (a / b).
Proof. intros H. unfold qdiv. apply qeqb_neq in H. now rewrite H. Qed.
Lemma qdiv_inv a b r : qdiv a b = Ok r -> b <> 0 /\ r * b = a.
Proof.
  unfold qdiv. destruct (qeqb b 0) eqn:E; [discriminate|]. intros [= <-].
  apply qeqb_neq in E. split; [exact E|]. field. exact E.
Qed.
Lemma qdiv_err a b e : qdiv a b = Err e -> b = 0.
Proof. unfold qdiv. destruct (qeqb b 0) eqn:E; [|discriminate]. intros _. now apply qeqb_eq. Qed.

(* r * b = a with b > 0:  sign r = sign a *)
Lemma quot_pos a b r : r * b = a -> 0 < b -> 0 < a -> 0 < r.
Proof. intros. qnra. Qed.
Lemma quot_nonneg a b r : r * b = a -> 0 < b -> 0 <= a -> 0 <= r.
Proof. intros. qnra. Qed.

Lemma qofnat_pos n : (0 < n)%nat -> 0 < qofnat n.
Proof.
  intros H. unfold qofnat, qofZ, Qclt. cbn [this Q2Qc]. rewrite !Qred_correct.
  unfold Qlt, inject_Z. cbn [Qnum Qden]. lia.
Qed.
Lemma qofnat_S n : qofnat (S n) = qofnat n + 1.
Proof.
  apply Qc_eq_this. rewrite this_plus. unfold qofnat, qofZ. cbn [this Q2Qc]. rewrite !Qred_correct.
  rewrite Nat2Z.inj_succ. unfold Z.succ. rewrite inject_Z_plus. reflexivity.
Qed.
Lemma qofnat_0 : qofnat 0 = 0.
Proof. apply Qc_eq_this. reflexivity. Qed.

(* ================================================================================================ *)
(** * 2. Vectors *)

Definition vpos (v : Vec) : Prop := Forall (fun x : F => 0 < x) v.
Definition vnonneg (v : Vec) : Prop := Forall (fun x : F => 0 <= x) v.

Lemma vpos_nth v i : vpos v -> (i < length v)%nat -> 0 < nth i v 0.
Proof. intros H Hi. unfold vpos in H. rewrite Forall_forall in H. apply H, nth_In, Hi. Qed.
Lemma vpos_of_nth v : (forall i, (i < length v)%nat -> 0 < nth i v 0) -> vpos v.
Proof.
  intros H. apply Forall_forall. intros x Hx. destruct (In_nth _ _ 0 Hx) as (i & Hi & <-). auto.
Qed.
Lemma vpos_map (f : F -> F) v : (forall q, 0 < q -> 0 < f q) -> vpos v -> vpos (map f v).
Proof. intros Hf H. induction H; constructor; auto. Qed.
Lemma vpos_vconst n k : 0 < k -> vpos (vconst n k).
Proof. intros. unfold vconst. induction n; constructor; auto. Qed.
Lemma vpos_vaddc k v : 0 <= k -> vpos v -> vpos (vaddc k v).
Proof. intros Hk H. unfold vaddc. induction H; constructor; auto. qlra. Qed.
Lemma vpos_firstn n v : vpos v -> vpos (firstn n v).
Proof.
  intros H. revert n. induction H; intros [|n]; cbn; constructor; auto. apply IHForall.
Qed.

Lemma vaddc_length k v : length (vaddc k v) = length v.
Proof. apply map_length. Qed.
Lemma vconst_length n k : length (vconst n k) = n.
Proof. apply repeat_length. Qed.
Lemma vmap2_length f a b : length (vmap2 f a b) = Nat.min (length a) (length b).
Proof. unfold vmap2. now rewrite map_length, combine_length. Qed.
Lemma vscale_length k v : length (vscale k v) = length v.
Proof. apply map_length. Qed.
Lemma vneg_length v : length (vneg v) = length v.
Proof. apply map_length. Qed.

Lemma nth_vmap2 f a b i d : (i < length a)%nat -> (i < length b)%nat ->
  nth i (vmap2 f a b) d = f (nth i a d) (nth i b d).
Proof.
  revert b i. induction a as [|x a IH]; intros [|y b] [|i] Ha Hb; cbn in *; try lia; auto.
  apply IH; lia.
Qed.

Lemma combine_nth_lt {A B} (a : list A) (b : list B) i da db :
  (i < length a)%nat -> (i < length b)%nat -> nth i (combine a b) (da, db) = (nth i a da, nth i b db).
Proof.
  revert b i. induction a as [|x a IH]; intros [|y b] [|i] Ha Hb; cbn in *; try lia; auto.
  apply IH; lia.
Qed.

(* v + k*dv entrywise, as a map over the paired lists *)
Lemma vadd_vscale_combine k v dv :
  vadd v (vscale k dv) = map (fun p => fst p + k * snd p) (combine v dv).
Proof.
  unfold vadd, vmap2, vscale. revert dv. induction v as [|x v IH]; intros [|y dv]; cbn; auto.
  now rewrite IH.
Qed.

(* sums of non-negative / positive entries *)
Lemma fold_plus_acc (l : list Qc) (a : Qc) : fold_left Qcplus l a = a + fold_left Qcplus l 0.
Proof.
  revert a. induction l as [|x l IH]; intros a; cbn.
  - ring.
  - rewrite IH, (IH (0 + x)). ring.
Qed.
Lemma vsum_cons x l : vsum (x :: l) = x + vsum l.
Proof. unfold vsum. cbn. rewrite fold_plus_acc. unfold Vec, F in *. ring. Qed.
Lemma vsum_nil : vsum [] = 0.
Proof. reflexivity. Qed.
Lemma vsum_nonneg l : vnonneg l -> 0 <= vsum l.
Proof.
  intros H. induction H.
  - rewrite vsum_nil. qlra.
  - rewrite vsum_cons. qlra.
Qed.
Lemma vsum_pos l : vpos l -> l <> [] -> 0 < vsum l.
Proof.
  intros H Hn. destruct H as [|x l Hx Hl]; [congruence|].
  rewrite vsum_cons. assert (0 <= vsum l).
  { apply vsum_nonneg. eapply Forall_impl; [|exact Hl]. cbn. intros. qlra. }
  qlra.
Qed.
(* a non-negative sum with one positive term is positive *)
Lemma vsum_pos_exists l : vnonneg l -> Exists (fun x => 0 < x) l -> 0 < vsum l.
Proof.
  intros H E. induction H as [|x l Hx Hl IH].
  - inversion E.
  - rewrite vsum_cons. pose proof (vsum_nonneg l Hl).
    inversion E; subst.
    + qlra.
    + specialize (IH H1). qlra.
Qed.
Lemma vsum_zero_all l : vnonneg l -> vsum l = 0 -> Forall (fun x => x = 0) l.
Proof.
  intros H. induction H as [|x l Hx Hl IH]; intros E; constructor.
  - rewrite vsum_cons in E. pose proof (vsum_nonneg l Hl). qlra.
  - apply IH. rewrite vsum_cons in E. pose proof (vsum_nonneg l Hl). qlra.
Qed.

Lemma dot_cons x a y b : dot (x :: a) (y :: b) = x * y + dot a b.
Proof. unfold dot, vmul, vmap2. cbn [combine map fst snd]. apply vsum_cons. Qed.
Lemma dot_nil_l b : dot [] b = 0.
Proof. reflexivity. Qed.
Lemma dot_nil_r a : dot a [] = 0.
Proof. destruct a; reflexivity. Qed.
Lemma dot_nonneg a b : vnonneg a -> vnonneg b -> 0 <= dot a b.
Proof.
  intros Ha. revert b. induction Ha as [|x a Hx Ha IH]; intros b Hb.
  - rewrite dot_nil_l. qlra.
  - destruct Hb as [|y b Hy Hb]; [rewrite dot_nil_r; qlra|].
    rewrite dot_cons. specialize (IH b Hb). qnra.
Qed.
Lemma vpos_nonneg v : vpos v -> vnonneg v.
Proof. intros H. eapply Forall_impl; [|exact H]. cbn. intros. qlra. Qed.
Lemma dot_pos a b : vpos a -> vpos b -> length a = length b -> a <> [] -> 0 < dot a b.
Proof.
  intros Ha Hb Hl Hn. destruct Ha as [|x a Hx Ha]; [congruence|].
  destruct Hb as [|y b Hy Hb]; [discriminate|].
  rewrite dot_cons. pose proof (dot_nonneg a b (vpos_nonneg _ Ha) (vpos_nonneg _ Hb)). qnra.
Qed.

(* mapM / gather lengths *)
Lemma mapM_length {A B} (f : A -> res B) l r : mapM f l = Ok r -> length r = length l.
Proof.
  revert r. induction l as [|a l IH]; intros r; cbn.
  - now intros [= <-].
  - destruct (f a); cbn; [|discriminate]. destruct (mapM f l); cbn; [|discriminate].
    intros [= <-]. cbn. f_equal. now apply IH.
Qed.

(* ================================================================================================ *)
(** * 3. F -- fraction to the boundary *)

Lemma ratio_min_nil_l a dv : ratio_min a [] dv = Ok a.
Proof. reflexivity. Qed.
Lemma ratio_min_nil_r a v : ratio_min a v [] = Ok a.
Proof. destruct v; reflexivity. Qed.
Lemma ratio_min_cons a x v y dv :
  ratio_min a (x :: v) (y :: dv) =
  (do a' <- (if qltb y 0 then do r <- qdiv (- x) y ;; Ok (qmin a r) else Ok a) ;; ratio_min a' v dv).
Proof. reflexivity. Qed.

(* one entry: staying below the ratio keeps the entry non-negative *)
Lemma frac_entry x y a a' : 0 < x -> 0 <= a' -> a' <= a -> 0 <= x + a * y -> 0 <= x + a' * y.
Proof.
  intros Hx H0 Hle H. destruct (Qclt_le_dec y 0) as [Hy|Hy]; qnra.
Qed.

Lemma frac_entry_tau x y a tau : 0 <= tau -> 0 <= x + a * y -> (1 - tau) * x <= x + (a * tau) * y.
Proof. intros H1 H2. qnra. Qed.

(* [ratio_min] never fails on a positive vector, its result is in (0, alpha0], and every step of
   length at most the result keeps every entry non-negative.  Nothing is assumed about [dv]
   (not even its length: the model, like the code's loop, pairs entries up to the shorter one). *)
Lemma ratio_min_spec v : forall dv a0, vpos v -> 0 < a0 ->
  exists a, ratio_min a0 v dv = Ok a /\ 0 < a /\ a <= a0 /\
            Forall (fun p => 0 <= fst p + a * snd p) (combine v dv).
Proof.
  induction v as [|x v IH]; intros dv a0 Hv Ha0.
  - exists a0. rewrite ratio_min_nil_l. repeat split; auto. qlra. constructor.
  - destruct dv as [|y dv].
    + exists a0. rewrite ratio_min_nil_r. repeat split; auto. qlra. constructor.
    + inversion Hv as [|? ? Hx Hv']; subst. rewrite ratio_min_cons.
      destruct (qltb y 0) eqn:Ey.
      * apply qltb_lt in Ey.
        assert (Hy : y <> 0) by (intros ->; qlra).
        rewrite (qdiv_ok _ _ Hy). cbn [bind].
        assert (Hr : (- x / y) * y = - x) by (field; exact Hy).
        set (r := - x / y) in *.
        assert (Hrpos : 0 < r) by qnra.
        destruct (IH dv (qmin a0 r) Hv' (qmin_pos _ _ Ha0 Hrpos)) as (a & E & Ha & Hle & Hall).
        exists a. pose proof (qmin_le_l a0 r). pose proof (qmin_le_r a0 r).
        repeat split; auto. qlra.
        cbn [combine]. constructor; auto. cbn [fst snd]. qnra.
      * apply qltb_ge in Ey. cbn [bind].
        destruct (IH dv a0 Hv' Ha0) as (a & E & Ha & Hle & Hall).
        exists a. repeat split; auto.
        cbn [combine]. constructor; auto. cbn [fst snd]. qnra.
Qed.

Theorem ratio_min_never_fails v dv a0 : vpos v -> 0 < a0 -> exists a, ratio_min a0 v dv = Ok a.
Proof. intros Hv Ha. destruct (ratio_min_spec v dv a0 Hv Ha) as (a & E & _). eauto. Qed.

(* F, entrywise form.  [tau <= 1] gives  v_i + (a tau) dv_i >= (1 - tau) v_i >= 0. *)
Theorem fraction_to_boundary v dv a0 a tau :
  vpos v -> 0 < a0 -> a0 <= 1 -> 0 < tau -> tau <= 1 -> ratio_min a0 v dv = Ok a ->
  0 < a /\ a <= a0 /\ a <= 1 /\
  forall i, (i < length v)%nat -> (i < length dv)%nat ->
            (1 - tau) * nth i v 0 <= nth i v 0 + (a * tau) * nth i dv 0.
Proof.
  intros Hv Ha0 Ha1 Ht0 Ht1 E.
  destruct (ratio_min_spec v dv a0 Hv Ha0) as (a' & E' & Ha & Hle & Hall).
  rewrite E in E'. injection E' as <-.
  repeat split; auto. qlra.
  intros i Hi Hj.
  rewrite Forall_forall in Hall.
  assert (Hin : In (nth i v 0, nth i dv 0) (combine v dv)).
  { rewrite <- (combine_nth_lt v dv i 0 0) by assumption. apply nth_In. rewrite combine_length. lia. }
  specialize (Hall _ Hin). cbn [fst snd] in Hall.
  apply frac_entry_tau; [qlra | exact Hall].
Qed.

Corollary fraction_to_boundary_strict v dv a0 a tau :
  vpos v -> 0 < a0 -> a0 <= 1 -> 0 < tau -> tau < 1 -> ratio_min a0 v dv = Ok a ->
  forall i, (i < length v)%nat -> (i < length dv)%nat -> 0 < nth i v 0 + (a * tau) * nth i dv 0.
Proof.
  intros Hv Ha0 Ha1 Ht0 Ht1 E i Hi Hj.
  assert (Ht : tau <= 1) by qlra.
  destruct (fraction_to_boundary v dv a0 a tau Hv Ha0 Ha1 Ht0 Ht E) as (_ & _ & _ & H).
  specialize (H i Hi Hj). pose proof (vpos_nth v i Hv Hi). qnra.
Qed.

Corollary fraction_to_boundary_tau_one v dv a0 a :
  vpos v -> 0 < a0 -> a0 <= 1 -> ratio_min a0 v dv = Ok a ->
  forall i, (i < length v)%nat -> (i < length dv)%nat -> 0 <= nth i v 0 + (a * 1) * nth i dv 0.
Proof.
  intros Hv Ha0 Ha1 E i Hi Hj.
  assert (H0 : 0 < 1) by qlra. assert (H1 : 1 <= 1) by qlra.
  destruct (fraction_to_boundary v dv a0 a 1 Hv Ha0 Ha1 H0 H1 E) as (_ & _ & _ & H).
  specialize (H i Hi Hj). qlra.
Qed.

(* the update of one block with ANY step length a' in (0, a] damped by tau < 1 stays positive *)
Lemma block_step_pos v dv a0 a a' tau :
  vpos v -> 0 < a0 -> ratio_min a0 v dv = Ok a -> 0 <= a' -> a' <= a -> 0 <= tau -> tau < 1 ->
  vpos (vadd v (vscale (a' * tau) dv)).
Proof.
  intros Hv Ha0 E Ha' Hle Ht0 Ht1.
  destruct (ratio_min_spec v dv a0 Hv Ha0) as (a1 & E' & Ha & _ & Hall).
  rewrite E in E'. injection E' as <-.
  rewrite vadd_vscale_combine. unfold vpos. rewrite Forall_map.
  assert (Hpos : Forall (fun p => 0 < fst p) (combine v dv)).
  { clear -Hv. revert dv. induction Hv; intros [|y dv]; cbn; constructor; auto. }
  rewrite Forall_forall in *. intros p Hp. specialize (Hall p Hp). specialize (Hpos p Hp).
  destruct p as [x y]. cbn [fst snd] in *.
  assert (0 <= x + a' * y) by (apply (frac_entry x y a a'); auto).
  qnra.
Qed.

(* ================================================================================================ *)
(** * 4. C -- the checkpoint rounding [round_cp] preserves the sign *)

Lemma Qc_pos_num (q : Qc) : 0 < q <-> (0 < Qnum (this q))%Z.
Proof. unfold Qclt, Qlt. cbn. lia. Qed.
Lemma Qc_neg_num (q : Qc) : q < 0 <-> (Qnum (this q) < 0)%Z.
Proof. unfold Qclt, Qlt. cbn. lia. Qed.
Lemma Qc_zero_num (q : Qc) : q = 0 <-> Qnum (this q) = 0%Z.
Proof. rewrite Qc_eq_this. unfold Qeq. cbn. lia. Qed.

Lemma qofZ_pos z : 0 < qofZ z <-> (0 < z)%Z.
Proof.
  unfold qofZ, Qclt. cbn [this Q2Qc]. rewrite !Qred_correct. unfold Qlt, inject_Z. cbn [Qnum Qden]. lia.
Qed.
Lemma qofZ_neg z : qofZ z < 0 <-> (z < 0)%Z.
Proof.
  unfold qofZ, Qclt. cbn [this Q2Qc]. rewrite !Qred_correct. unfold Qlt, inject_Z. cbn [Qnum Qden]. lia.
Qed.
Lemma pow2Z_pos k : 0 < pow2Z k.
Proof.
  destruct k as [|p|p]; cbn [pow2Z].
  - qlra.
  - apply qofZ_pos. apply Z.pow_pos_nonneg; lia.
  - unfold Qclt. cbn [this Q2Qc]. rewrite !Qred_correct. unfold Qlt. cbn. lia.
Qed.

Lemma mul_pos_sign a b : 0 < b -> (0 < a * b <-> 0 < a) /\ (a * b < 0 <-> a < 0).
Proof. intros Hb. split; split; intros H; qnra. Qed.

(* the integer mantissa of round_cp has the sign of the numerator *)
Lemma round_mantissa_sign (k n : Z) (d : positive) :
  (0 < k)%Z -> n <> 0%Z ->
  let e := (k - (Z.log2 (Z.abs n) - Z.log2 (Zpos d)))%Z in
  let r := if (0 <=? e)%Z then Z.div (Z.shiftl n e) (Zpos d) else Z.div n (Z.shiftl (Zpos d) (- e)) in
  ((0 < n -> 0 < r) /\ (n < 0 -> r < 0))%Z.
Proof.
  intros Hk Hn. cbv zeta.
  assert (Hd : (0 < Zpos d)%Z) by lia.
  pose proof (Z.log2_nonneg (Zpos d)) as Hld0.
  destruct (Z.log2_spec (Zpos d) Hd) as [Hd1 Hd2].
  split; intros Hs.
  - (* n > 0 : the quotient is at least 1 *)
    rewrite (Z.abs_eq n) by lia.
    pose proof (Z.log2_nonneg n) as Hln0.
    destruct (Z.log2_spec n Hs) as [Hn1 Hn2].
    set (e := (k - (Z.log2 n - Z.log2 (Z.pos d)))%Z).
    destruct (0 <=? e)%Z eqn:Ee.
    + apply Z.leb_le in Ee. rewrite Z.shiftl_mul_pow2 by lia.
      apply Z.lt_le_trans with 1%Z; [lia|]. apply Z.div_le_lower_bound; [lia|].
      assert (2 ^ Z.succ (Z.log2 (Zpos d)) <= 2 ^ Z.log2 n * 2 ^ e)%Z.
      { rewrite <- Z.pow_add_r by lia. apply Z.pow_le_mono_r; lia. }
      assert (0 < 2 ^ e)%Z by (apply Z.pow_pos_nonneg; lia).
      nia.
    + apply Z.leb_gt in Ee. rewrite Z.shiftl_mul_pow2 by lia.
      assert (0 < 2 ^ (- e))%Z by (apply Z.pow_pos_nonneg; lia).
      apply Z.lt_le_trans with 1%Z; [lia|]. apply Z.div_le_lower_bound; [nia|].
      assert (2 ^ Z.succ (Z.log2 (Zpos d)) * 2 ^ (- e) <= 2 ^ Z.log2 n)%Z.
      { rewrite <- Z.pow_add_r by lia. apply Z.pow_le_mono_r; lia. }
      nia.
  - (* n < 0 : floor division of a negative number by a positive one is negative *)
    set (e := (k - (Z.log2 (Z.abs n) - Z.log2 (Z.pos d)))%Z).
    destruct (0 <=? e)%Z eqn:Ee.
    + apply Z.leb_le in Ee. rewrite Z.shiftl_mul_pow2 by lia.
      assert (0 < 2 ^ e)%Z by (apply Z.pow_pos_nonneg; lia).
      apply Z.div_lt_upper_bound; [lia|]. nia.
    + apply Z.leb_gt in Ee. rewrite Z.shiftl_mul_pow2 by lia.
      assert (0 < 2 ^ (- e))%Z by (apply Z.pow_pos_nonneg; lia).
      apply Z.div_lt_upper_bound; [nia|]. lia.
Qed.

Theorem round_cp_zero k : round_cp k 0 = 0.
Proof. unfold round_cp. destruct (k <=? 0)%Z; reflexivity. Qed.

Theorem round_cp_pos k q : 0 < round_cp k q <-> 0 < q.
Proof.
  unfold round_cp. destruct (k <=? 0)%Z eqn:Ek; [reflexivity|]. apply Z.leb_gt in Ek.
  destruct (Qnum (this q) =? 0)%Z eqn:En; [reflexivity|]. apply Z.eqb_neq in En.
  cbv zeta.
  destruct (round_mantissa_sign k (Qnum (this q)) (Qden (this q)) Ek En) as [Hp Hn].
  cbv zeta in Hp, Hn.
  match goal with |- 0 < qofZ ?r * pow2Z ?e <-> _ =>
    destruct (mul_pos_sign (qofZ r) (pow2Z e) (pow2Z_pos e)) as [-> _]; rewrite qofZ_pos end.
  rewrite Qc_pos_num. split; [|exact Hp].
  intros Hr. destruct (Z.lt_trichotomy (Qnum (this q)) 0) as [H|[H|H]]; [|congruence|exact H].
  specialize (Hn H). lia.
Qed.

Theorem round_cp_neg k q : round_cp k q < 0 <-> q < 0.
Proof.
  unfold round_cp. destruct (k <=? 0)%Z eqn:Ek; [reflexivity|]. apply Z.leb_gt in Ek.
  destruct (Qnum (this q) =? 0)%Z eqn:En; [reflexivity|]. apply Z.eqb_neq in En.
  cbv zeta.
  destruct (round_mantissa_sign k (Qnum (this q)) (Qden (this q)) Ek En) as [Hp Hn].
  cbv zeta in Hp, Hn.
  match goal with |- qofZ ?r * pow2Z ?e < 0 <-> _ =>
    destruct (mul_pos_sign (qofZ r) (pow2Z e) (pow2Z_pos e)) as [_ ->]; rewrite qofZ_neg end.
  rewrite Qc_neg_num. split; [|exact Hn].
  intros Hr. destruct (Z.lt_trichotomy (Qnum (this q)) 0) as [H|[H|H]]; [exact H|congruence|].
  specialize (Hp H). lia.
Qed.

(* what the loop theorems need of a checkpoint function *)
Definition cp_pos (cp : F -> F) : Prop := forall q, 0 < q -> 0 < cp q.
(* what the initial point needs in addition: no sign is lost *)
Definition cp_sign (cp : F -> F) : Prop := forall q, (0 < cp q <-> 0 < q) /\ (cp q < 0 <-> q < 0).

Lemma cp_sign_pos cp : cp_sign cp -> cp_pos cp.
Proof. intros H q. apply (H q). Qed.
Lemma cp_sign_zero cp : cp_sign cp -> cp 0 = 0.
Proof.
  intros H. destruct (H 0) as [H1 H2].
  destruct (Qclt_le_dec 0 (cp 0)) as [A|A]; [apply H1 in A; qlra|].
  destruct (Qclt_le_dec (cp 0) 0) as [B|B]; [apply H2 in B; qlra|]. qlra.
Qed.
Theorem round_cp_sign k : cp_sign (round_cp k).
Proof. intros q. split; [apply round_cp_pos | apply round_cp_neg]. Qed.
Theorem round_cp_cp_pos k : cp_pos (round_cp k).
Proof. apply cp_sign_pos, round_cp_sign. Qed.
Lemma id_cp_sign : cp_sign (fun q => q).
Proof. intros q. split; reflexivity. Qed.

(* ================================================================================================ *)
(** * 5. Invariants *)

Definition ItPos (it : Iterate) : Prop :=
  vpos (s it) /\ vpos (s_lb it) /\ vpos (s_ub it) /\ vpos (z it) /\ vpos (z_lb it) /\ vpos (z_ub it).
Definition InfPos (inf : Info) : Prop := 0 < i_rho inf /\ 0 < i_delta inf /\ 0 < i_reg_limit inf.
(* the length-free part of the invariant: it is preserved whatever the shapes are *)
Definition Positive (st : St) : Prop := ItPos (st_it st) /\ InfPos (st_inf st).

Definition outcome_state (o : Outcome) : St := match o with Continue st => st | Stop st => st end.

(** ** B -- boundary control *)
Definition lt_eps (K : Consts) (v : Vec) : bool :=
  match v with [] => false | h :: t => qltb (fold_left qmin t h) (k_eps K) end.
Definition boundary_shift (K : Consts) (it : Iterate) : Iterate :=
  it <| z := if lt_eps K (z it) then vaddc (k_eps K) (z it) else z it |>
     <| z_lb := if lt_eps K (z_lb it) then vaddc (k_eps K) (z_lb it) else z_lb it |>
     <| z_ub := if lt_eps K (z_ub it) then vaddc (k_eps K) (z_ub it) else z_ub it |>.

Definition vle (a b : Vec) : Prop := Forall2 (fun x y : F => x <= y) a b.
Lemma vle_refl a : vle a a.
Proof. induction a; constructor; auto. qlra. Qed.
Lemma vle_vaddc k a : 0 <= k -> vle a (vaddc k a).
Proof. intros Hk. induction a; cbn; constructor; auto. qlra. Qed.
Lemma vle_length a b : vle a b -> length a = length b.
Proof. intros H. induction H; cbn; auto. Qed.

Lemma shift_block_pos (b : bool) k v : 0 <= k -> vpos v -> vpos (if b then vaddc k v else v).
Proof. intros. destruct b; auto using vpos_vaddc. Qed.
Lemma shift_block_le (b : bool) k v : 0 <= k -> vle v (if b then vaddc k v else v).
Proof. intros. destruct b; auto using vle_vaddc, vle_refl. Qed.
Lemma shift_block_length (b : bool) k v : length (if b then vaddc k v else v) = length v.
Proof. destruct b; auto using vaddc_length. Qed.

Theorem boundary_shift_keeps_positive K it :
  0 < k_eps K -> ItPos it ->
  ItPos (boundary_shift K it)
  /\ vle (z it) (z (boundary_shift K it)) /\ vle (z_lb it) (z_lb (boundary_shift K it))
  /\ vle (z_ub it) (z_ub (boundary_shift K it))
  /\ s (boundary_shift K it) = s it /\ s_lb (boundary_shift K it) = s_lb it /\ s_ub (boundary_shift K it) = s_ub it.
Proof.
  intros He (H1 & H2 & H3 & H4 & H5 & H6). assert (He' : 0 <= k_eps K) by qlra.
  unfold boundary_shift, ItPos. cbn.
  repeat split; auto using shift_block_pos, shift_block_le.
Qed.

(** ** F lifted to the three blocks *)
Lemma step_lengths_spec it stp : ItPos it ->
  exists a_s a_z, step_lengths it stp = Ok (a_s, a_z) /\ 0 < a_s /\ a_s <= 1 /\ 0 < a_z /\ a_z <= 1 /\
    forall tau, 0 <= tau -> tau < 1 ->
      vpos (vadd (s it) (vscale (a_s * tau) (st_s stp))) /\
      vpos (vadd (s_lb it) (vscale (a_s * tau) (st_s_lb stp))) /\
      vpos (vadd (s_ub it) (vscale (a_s * tau) (st_s_ub stp))) /\
      vpos (vadd (z it) (vscale (a_z * tau) (st_z stp))) /\
      vpos (vadd (z_lb it) (vscale (a_z * tau) (st_z_lb stp))) /\
      vpos (vadd (z_ub it) (vscale (a_z * tau) (st_z_ub stp))).
Proof.
  intros (H1 & H2 & H3 & H4 & H5 & H6).
  assert (H01 : 0 < 1) by qlra.
  destruct (ratio_min_spec (s it) (st_s stp) 1 H1 H01) as (a1 & E1 & P1 & L1 & _).
  destruct (ratio_min_spec (s_lb it) (st_s_lb stp) a1 H2 P1) as (a2 & E2 & P2 & L2 & _).
  destruct (ratio_min_spec (s_ub it) (st_s_ub stp) a2 H3 P2) as (a3 & E3 & P3 & L3 & _).
  destruct (ratio_min_spec (z it) (st_z stp) 1 H4 H01) as (b1 & F1 & Q1 & M1 & _).
  destruct (ratio_min_spec (z_lb it) (st_z_lb stp) b1 H5 Q1) as (b2 & F2 & Q2 & M2 & _).
  destruct (ratio_min_spec (z_ub it) (st_z_ub stp) b2 H6 Q2) as (b3 & F3 & Q3 & M3 & _).
  exists a3, b3. unfold step_lengths. rewrite E1; cbn [bind]. rewrite E2; cbn [bind]. rewrite E3; cbn [bind].
  rewrite F1; cbn [bind]. rewrite F2; cbn [bind]. rewrite F3; cbn [bind].
  split; [reflexivity|]. split; [auto|]. split; [qlra|]. split; [auto|]. split; [qlra|].
  intros tau T0 T1.
  assert (0 <= a3) by qlra. assert (0 <= b3) by qlra.
  repeat split.
  - apply (block_step_pos _ _ 1 a1); auto. qlra.
  - apply (block_step_pos _ _ a1 a2); auto.
  - apply (block_step_pos _ _ a2 a3); auto. qlra.
  - apply (block_step_pos _ _ 1 b1); auto. qlra.
  - apply (block_step_pos _ _ b1 b2); auto.
  - apply (block_step_pos _ _ b2 b3); auto. qlra.
Qed.

(* the corrector update of loop_pass, for an arbitrary direction [c] and the step lengths [b_s0], [b_z0] *)
Definition step_update (cp : F -> F) (it3 : Iterate) (c : Step) (ps ds_ : F) : Iterate :=
  cp_iterate cp (it3 <| x := vadd (x it3) (vscale ps (st_x c)) |> <| y := vadd (y it3) (vscale ds_ (st_y c)) |>
                   <| z := vadd (z it3) (vscale ds_ (st_z c)) |> <| z_lb := vadd (z_lb it3) (vscale ds_ (st_z_lb c)) |>
                   <| z_ub := vadd (z_ub it3) (vscale ds_ (st_z_ub c)) |>
                   <| s := vadd (s it3) (vscale ps (st_s c)) |> <| s_lb := vadd (s_lb it3) (vscale ps (st_s_lb c)) |>
                   <| s_ub := vadd (s_ub it3) (vscale ps (st_s_ub c)) |>).

(* F for the update [it4] of loop_pass: ANY direction c; only positivity of the current point is used *)
Theorem step_update_keeps_positive cp tau it3 c b_s0 b_z0 :
  cp_pos cp -> 0 <= tau -> tau < 1 -> ItPos it3 -> step_lengths it3 c = Ok (b_s0, b_z0) ->
  0 < b_s0 /\ b_s0 <= 1 /\ 0 < b_z0 /\ b_z0 <= 1 /\
  ItPos (step_update cp it3 c (b_s0 * tau) (b_z0 * tau)).
Proof.
  intros Hcp T0 T1 Hp E.
  destruct (step_lengths_spec it3 c Hp) as (a_s & a_z & E' & A1 & A2 & A3 & A4 & Hall).
  rewrite E in E'. injection E' as <- <-.
  repeat (split; [assumption|]).
  destruct (Hall tau T0 T1) as (P1 & P2 & P3 & P4 & P5 & P6).
  unfold step_update, cp_iterate, ItPos. cbn.
  repeat split; apply vpos_map; auto.
Qed.

(* ================================================================================================ *)
(** * 6. Shapes *)

Record DataShape (d : Data) : Prop := mkDataShape {
  ds_GT : length (d_GT d) = d_m d;
  ds_h : length (d_h d) = d_m d;
  ds_lbn : length (d_lb_n d) = d_nlb d;
  ds_ubv : length (d_ub d) = d_nub d;
  ds_lbs : (d_nlb d <= length (d_lb_scaling d))%nat;
  ds_ubs : (d_nub d <= length (d_ub_scaling d))%nat }.

Definition ItShape (d : Data) (it : Iterate) : Prop :=
  length (s it) = d_m d /\ length (z it) = d_m d /\ length (nu it) = d_m d /\
  length (s_lb it) = d_nlb d /\ length (z_lb it) = d_nlb d /\ length (nu_lb it) = d_nlb d /\
  length (s_ub it) = d_nub d /\ length (z_ub it) = d_nub d /\ length (nu_ub it) = d_nub d.
Definition SZShape (d : Data) (it : Iterate) : Prop :=
  length (s it) = d_m d /\ length (z it) = d_m d /\ length (s_lb it) = d_nlb d /\ length (z_lb it) = d_nlb d /\
  length (s_ub it) = d_nub d /\ length (z_ub it) = d_nub d.
Definition ResShape (d : Data) (r : Resid) : Prop :=
  length (rz_nr r) = d_m d /\ length (rz_lb_nr r) = d_nlb d /\ length (rz_ub_nr r) = d_nub d.
Definition StepShape (d : Data) (c : Step) : Prop :=
  length (st_s c) = d_m d /\ length (st_z c) = d_m d /\
  length (st_s_lb c) = d_nlb d /\ length (st_z_lb c) = d_nlb d /\
  length (st_s_ub c) = d_nub d /\ length (st_z_ub c) = d_nub d.
Definition KShape (d : Data) (k : KKT) : Prop :=
  length (k_s k) = d_m d /\ length (k_z_inv k) = d_m d /\
  (d_nlb d <= length (k_s_lb k))%nat /\ (d_nlb d <= length (k_z_lb_inv k))%nat /\
  (d_nub d <= length (k_s_ub k))%nat /\ (d_nub d <= length (k_z_ub_inv k))%nat.

Lemma vinv_length v r : vinv v = Ok r -> length r = length v.
Proof. apply mapM_length. Qed.
Lemma gather_length {A} (v : list A) idx r : gather v idx = Ok r -> length r = length idx.
Proof. apply mapM_length. Qed.
Lemma matT_vec_length M x : length (matT_vec M x) = length M.
Proof. apply map_length. Qed.
Lemma set_head_length {A} (w v : list A) : length (set_head w v) = Nat.max (length w) (length v).
Proof. unfold set_head. rewrite app_length, skipn_length. lia. Qed.

Ltac len_norm :=
  unfold vadd, vsub, vmul, head in *;
  repeat rewrite ?vmap2_length, ?vscale_length, ?vneg_length, ?vaddc_length, ?vconst_length,
                 ?matT_vec_length, ?firstn_length, ?map_length, ?set_head_length in *.

Ltac bind_step H :=
  match type of H with
  | bind ?e _ = _ => let E := fresh "E" in destruct e eqn:E; cbn [bind] in H; [|discriminate H]
  end.
Ltac destr_pairs := repeat match goal with p : (_ * _)%type |- _ => destruct p end.

Lemma kkt_solve_inv S d k refine rx ry rz rzlb rzub rs rslb rsub stp :
  kkt_solve S d k refine rx ry rz rzlb rzub rs rslb rsub = Ok stp ->
  exists w wlb wub dx xlb xub,
    vinv (vaddc (k_delta k) (vmul (k_s k) (k_z_inv k))) = Ok w /\
    vinv (vaddc (k_delta k) (vmul (head (d_nlb d) (k_s_lb k)) (head (d_nlb d) (k_z_lb_inv k)))) = Ok wlb /\
    vinv (vaddc (k_delta k) (vmul (head (d_nub d) (k_s_ub k)) (head (d_nub d) (k_z_ub_inv k)))) = Ok wub /\
    gather dx (d_lb_idx d) = Ok xlb /\ gather dx (d_ub_idx d) = Ok xub /\
    st_z stp = vsub (vmul (matT_vec (d_GT d) dx) w) (vmul (vsub rz (vmul (k_z_inv k) rs)) w) /\
    st_z_lb stp = vmul (vadd (vsub (vneg (vmul (head (d_nlb d) (d_lb_scaling d)) xlb)) rzlb)
                             (vmul (head (d_nlb d) (k_z_lb_inv k)) rslb)) wlb /\
    st_z_ub stp = vmul (vadd (vsub (vmul (head (d_nub d) (d_ub_scaling d)) xub) rzub)
                             (vmul (head (d_nub d) (k_z_ub_inv k)) rsub)) wub /\
    st_s stp = vmul (k_z_inv k) (vsub rs (vmul (k_s k) (st_z stp))) /\
    st_s_lb stp = vmul (head (d_nlb d) (k_z_lb_inv k)) (vsub rslb (vmul (head (d_nlb d) (k_s_lb k)) (st_z_lb stp))) /\
    st_s_ub stp = vmul (head (d_nub d) (k_z_ub_inv k)) (vsub rsub (vmul (head (d_nub d) (k_s_ub k)) (st_z_ub stp))).
Proof.
  unfold kkt_solve. intros H. repeat bind_step H. injection H as <-. cbn [st_z st_z_lb st_z_ub st_s st_s_lb st_s_ub].
  do 6 eexists. repeat split; eassumption.
Qed.

(* solve a length goal: normalise, substitute the known lengths, collapse the minima *)
Ltac len_solve :=
  len_norm;
  repeat match goal with
  | H : length ?x = _ |- context [length ?x] => rewrite H
  | H : (?n <= length ?x)%nat |- context [Nat.min ?n (length ?x)] => rewrite (Nat.min_l _ _ H)
  end;
  repeat rewrite ?Nat.min_id, ?Nat.max_id; try reflexivity; try lia.

Lemma kkt_solve_shape S d k refine rx ry rz rzlb rzub rs rslb rsub stp :
  kkt_solve S d k refine rx ry rz rzlb rzub rs rslb rsub = Ok stp ->
  DataShape d -> KShape d k ->
  length rz = d_m d -> length rs = d_m d -> length rzlb = d_nlb d -> length rslb = d_nlb d ->
  length rzub = d_nub d -> length rsub = d_nub d ->
  StepShape d stp.
Proof.
  intros H [D1 D2 D3 D4 D5 D6] (K1 & K2 & K3 & K4 & K5 & K6) L1 L2 L3 L4 L5 L6.
  destruct (kkt_solve_inv _ _ _ _ _ _ _ _ _ _ _ _ _ H)
    as (w & wlb & wub & dx & xlb & xub & Ew & Ewlb & Ewub & Exlb & Exub & Hz & Hzlb & Hzub & Hs & Hslb & Hsub).
  clear H.
  apply vinv_length in Ew, Ewlb, Ewub. apply gather_length in Exlb, Exub.
  fold (d_nlb d) in Exlb. fold (d_nub d) in Exub.
  assert (Lw : length w = d_m d) by (rewrite Ew; len_solve).
  assert (Lwlb : length wlb = d_nlb d) by (rewrite Ewlb; len_solve).
  assert (Lwub : length wub = d_nub d) by (rewrite Ewub; len_solve).
  clear Ew Ewlb Ewub.
  assert (Lz : length (st_z stp) = d_m d) by (rewrite Hz; len_solve).
  assert (Lzlb : length (st_z_lb stp) = d_nlb d) by (rewrite Hzlb; len_solve).
  assert (Lzub : length (st_z_ub stp) = d_nub d) by (rewrite Hzub; len_solve).
  clear Hz Hzlb Hzub.
  unfold StepShape. repeat split; auto.
  - rewrite Hs; len_solve.
  - rewrite Hslb; len_solve.
  - rewrite Hsub; len_solve.
Qed.

Lemma update_kkt_fields d k k' : update_kkt d k = Ok k' ->
  k_s k' = k_s k /\ k_z_inv k' = k_z_inv k /\ k_s_lb k' = k_s_lb k /\ k_z_lb_inv k' = k_z_lb_inv k /\
  k_s_ub k' = k_s_ub k /\ k_z_ub_inv k' = k_z_ub_inv k /\ k_rho k' = k_rho k /\ k_delta k' = k_delta k.
Proof.
  unfold update_kkt. intros H. repeat bind_step H. injection H as <-. cbn. repeat split.
Qed.

Lemma kkt_update_scalings_shape d k rho delta s s_lb s_ub z z_lb z_ub k' :
  kkt_update_scalings d k rho delta s s_lb s_ub z z_lb z_ub = Ok k' ->
  length s = d_m d -> length z = d_m d -> length s_lb = d_nlb d -> length z_lb = d_nlb d ->
  length s_ub = d_nub d -> length z_ub = d_nub d -> KShape d k'.
Proof.
  unfold kkt_update_scalings. intros H L1 L2 L3 L4 L5 L6. repeat bind_step H.
  apply update_kkt_fields in H. unfold KShape. destruct H as (-> & -> & -> & -> & -> & -> & _). cbn.
  apply vinv_length in E, E0, E1.
  repeat split.
  - exact L1.
  - rewrite E. exact L2.
  - len_solve.
  - rewrite set_head_length, E0. len_solve.
  - len_solve.
  - rewrite set_head_length, E1. len_solve.
Qed.

Lemma regularize_and_factorize_shape S d k refine flt k' ok :
  regularize_and_factorize S d k refine flt = Ok (k', ok) -> KShape d k -> KShape d k'.
Proof.
  unfold regularize_and_factorize. intros H HK. destruct flt.
  - injection H as <- <-. exact HK.
  - bind_step H. match type of H with match ?o with _ => _ end = _ => destruct o end; injection H as <- <-; exact HK.
Qed.

Lemma unr_keeps d pc K it inf r inf' :
  update_nr_residuals d pc K it inf = Ok (r, inf') ->
  i_rho inf' = i_rho inf /\ i_delta inf' = i_delta inf /\ i_reg_limit inf' = i_reg_limit inf /\ i_mu inf' = i_mu inf.
Proof.
  unfold update_nr_residuals. intros H. repeat bind_step H.
  injection H as <- <-. cbn. auto.
Qed.

Lemma unr_shape d pc K it inf r inf' :
  update_nr_residuals d pc K it inf = Ok (r, inf') -> DataShape d -> ItShape d it -> ResShape d r.
Proof.
  unfold update_nr_residuals. intros H [D1 D2 D3 D4 D5 D6] (I1 & I2 & I3 & I4 & I5 & I6 & I7 & I8 & I9).
  repeat bind_step H. injection H as <- <-.
  apply gather_length in E1, E2. fold (d_nlb d) in E1. fold (d_nub d) in E2.
  unfold ResShape. cbn [rz_nr rz_lb_nr rz_ub_nr]. repeat split; len_solve.
Qed.

(* ================================================================================================ *)
(** * 7. The main loop *)

Definition wp {A} (r : res A) (Q : A -> Prop) : Prop := match r with Ok a => Q a | Err _ => True end.
Lemma wp_bind {A B} (e : res A) (f : A -> res B) Q : wp e (fun a => wp (f a) Q) -> wp (bind e f) Q.
Proof. destruct e; cbn; auto. Qed.
Lemma wp_elim {A} (r : res A) Q a : wp r Q -> r = Ok a -> Q a.
Proof. intros H ->. exact H. Qed.

Ltac wp_let y :=
  lazymatch goal with |- wp (let x := ?e in @?b x) ?Q => pose (y := e); change (wp (b y) Q); cbv beta end.
Lemma wp_ok_intro {A} (a : A) (Q : A -> Prop) : Q a -> wp (Ok a) Q.
Proof. exact (fun H => H). Qed.
(* none of these tactics zeta-reduces: the let-bound names of the program become context variables *)
Ltac wp_bind_as v E :=
  apply wp_bind;
  lazymatch goal with |- wp ?e _ => destruct e as [v|] eqn:E; [apply wp_ok_intro; cbv beta|exact I] end.
Ltac wp_pair v a b := destruct v as [a b]; cbv beta iota.
Ltac wp_ret := apply wp_ok_intro; cbv beta.
Ltac wp_if E :=
  lazymatch goal with |- wp (if ?c then _ else _) _ => destruct c eqn:E end.

Definition InfView (inf : Info) := (i_rho inf, i_delta inf, i_reg_limit inf, i_mu inf).
Definition InfOK (P : Prop) (inf : Info) : Prop := InfPos inf /\ (P -> 0 < i_mu inf).
Lemma InfOK_view P a b : InfView b = InfView a -> InfOK P a -> InfOK P b.
Proof. unfold InfView, InfOK, InfPos. intros [= -> -> -> ->]. auto. Qed.
Lemma InfView_trans a b c : InfView b = InfView a -> InfView c = InfView b -> InfView c = InfView a.
Proof. congruence. Qed.

(* iterate updates that do not touch the six positive vectors *)
Lemma it_zeta_facts d (b : bool) it v :
  let it' := if b then it <| zeta := v |> else it in
  (ItPos it -> ItPos it') /\ (ItShape d it -> ItShape d it') /\ z it' = z it /\ z_lb it' = z_lb it /\ z_ub it' = z_ub it.
Proof. destruct b; cbn; auto. Qed.
Lemma it_nu_facts d (b : bool) it l :
  let it' := if b then it <| lambda := l |> <| nu := z it |> <| nu_lb := z_lb it |> <| nu_ub := z_ub it |> else it in
  (ItPos it -> ItPos it') /\ (ItShape d it -> ItShape d it').
Proof.
  destruct b; cbn; auto. split; auto.
  unfold ItShape. cbn. intros (I1 & I2 & I3 & I4 & I5 & I6 & I7 & I8 & I9). repeat split; auto.
Qed.
Lemma it_lambda_facts d (b : bool) it l :
  let it' := if b then it <| lambda := l |> else it in
  (ItPos it -> ItPos it') /\ (ItShape d it -> ItShape d it').
Proof. destruct b; cbn; auto. Qed.

Lemma shift3_facts d (b1 b2 b3 : bool) e it :
  0 <= e ->
  let it3 := it <| z := if b1 then vaddc e (z it) else z it |>
                <| z_lb := if b2 then vaddc e (z_lb it) else z_lb it |>
                <| z_ub := if b3 then vaddc e (z_ub it) else z_ub it |> in
  (ItPos it -> ItPos it3) /\ (ItShape d it -> ItShape d it3) /\
  nu it3 = nu it /\ nu_lb it3 = nu_lb it /\ nu_ub it3 = nu_ub it.
Proof.
  intros He. cbn. split; [|split]; auto.
  - unfold ItPos. cbn. intros (H1 & H2 & H3 & H4 & H5 & H6). repeat split; auto using shift_block_pos.
  - unfold ItShape. cbn. intros (I1 & I2 & I3 & I4 & I5 & I6 & I7 & I8 & I9).
    rewrite !shift_block_length. repeat split; auto.
Qed.

Lemma step_update_shape d cp it3 c ps ds_ :
  ItShape d it3 -> StepShape d c -> ItShape d (step_update cp it3 c ps ds_).
Proof.
  intros (I1 & I2 & I3 & I4 & I5 & I6 & I7 & I8 & I9) (C1 & C2 & C3 & C4 & C5 & C6).
  unfold ItShape, step_update, cp_iterate. cbn. repeat split; auto; len_solve.
Qed.

Lemma cp_xy_facts d cp it vx vy :
  cp_pos cp ->
  let it' := cp_iterate cp (it <| x := vx |> <| y := vy |>) in
  (ItPos it -> ItPos it') /\ (ItShape d it -> ItShape d it').
Proof.
  intros Hcp. cbv zeta. split.
  - unfold ItPos, cp_iterate. cbn. intros (H1 & H2 & H3 & H4 & H5 & H6). repeat split; apply vpos_map; auto.
  - unfold ItShape, cp_iterate. cbn. rewrite !map_length. auto.
Qed.

Section Loop.
Variable K : Consts.
Variable S : Settings.
Variable d : Data.
Variable pc : Precond.
Variable fault : nat -> bool.
Variable cp : F -> F.

Hypothesis Hcp : cp_pos cp.
Hypothesis Htau0 : 0 < tau S.
Hypothesis Htau1 : tau S < 1.
Hypothesis Hfine : 0 < reg_finetune_lower_limit S.
Hypothesis Hepsabs : 0 < eps_abs S.
Hypothesis Hkeps : 0 < k_eps K.
Hypothesis Hretry : 0 < k_retry_mul K.
Hypothesis Hreglim : 0 < k_reglim_mul K.

(* shape part of the invariant: lengths, mu > 0 if there are inequalities, residual shapes once computed *)
Definition Shaped (st : St) : Prop :=
  ItShape d (st_it st) /\ ((0 < nineq d)%nat -> 0 < i_mu (st_inf st)) /\
  (i_iter (st_inf st) = 0%Z \/ ResShape d (st_res st)).
Definition Interior (st : St) : Prop := Positive st /\ Shaped st.

Lemma qofnat_plus a b : qofnat (a + b) = qofnat a + qofnat b.
Proof.
  induction a as [|a IH]; cbn [Nat.add].
  - rewrite qofnat_0. qlra.
  - rewrite !qofnat_S, IH. qlra.
Qed.

Lemma mu_of_pos6 it mu :
  mu_of d it = Ok mu -> ItPos it -> SZShape d it -> (0 < nineq d)%nat -> 0 < mu.
Proof.
  unfold mu_of. intros H (H1 & H2 & H3 & H4 & H5 & H6) (I1 & I2 & I4 & I5 & I7 & I8) HN.
  apply qdiv_inv in H. destruct H as [_ H].
  pose proof (qofnat_pos _ HN) as HNp.
  pose proof (dot_nonneg _ _ (vpos_nonneg _ H1) (vpos_nonneg _ H4)) as N1.
  pose proof (dot_nonneg _ _ (vpos_nonneg _ H2) (vpos_nonneg _ H5)) as N2.
  pose proof (dot_nonneg _ _ (vpos_nonneg _ H3) (vpos_nonneg _ H6)) as N3.
  assert (0 < dot (s it) (z it) + dot (s_lb it) (z_lb it) + dot (s_ub it) (z_ub it)).
  { unfold nineq in HN.
    destruct (s it) as [|x1 l1] eqn:Es.
    - destruct (s_lb it) as [|x2 l2] eqn:Eslb.
      + destruct (s_ub it) as [|x3 l3] eqn:Esub.
        * cbn in I1, I4, I7. lia.
        * assert (0 < dot (x3 :: l3) (z_ub it)) by (apply dot_pos; auto; [congruence|discriminate]). qlra.
      + assert (0 < dot (x2 :: l2) (z_lb it)) by (apply dot_pos; auto; [congruence|discriminate]). qlra.
    - assert (0 < dot (x1 :: l1) (z it)) by (apply dot_pos; auto; [congruence|discriminate]). qlra. }
  eapply quot_pos; eauto.
Qed.
Lemma mu_of_pos it mu :
  mu_of d it = Ok mu -> ItPos it -> ItShape d it -> (0 < nineq d)%nat -> 0 < mu.
Proof.
  intros H HP (I1 & I2 & _ & I4 & I5 & _ & I7 & I8 & _) HN.
  apply (mu_of_pos6 it mu H HP); [repeat split; assumption | exact HN].
Qed.

Lemma bump_reg_view inf : InfPos inf ->
  InfPos (bump_reg K S inf) /\ i_mu (bump_reg K S inf) = i_mu inf.
Proof.
  intros (H1 & H2 & H3). unfold bump_reg, InfPos. cbn. repeat split.
  - qnra. - qnra.
  - apply qmin_pos; auto. qnra.
Qed.

Lemma do_update_scalings_keeps st st' : do_update_scalings d st = Ok st' ->
  st_it st' = st_it st /\ st_inf st' = st_inf st /\ st_res st' = st_res st /\
  (ItShape d (st_it st) -> KShape d (st_kkt st')).
Proof.
  unfold do_update_scalings. intros H. bind_step H. injection H as <-. cbn. do 3 (split; [reflexivity|]).
  intros (I1 & I2 & I3 & I4 & I5 & I6 & I7 & I8 & I9).
  eapply kkt_update_scalings_shape; eauto.
Qed.

Lemma do_factorize_keeps st st' ok : do_factorize S d fault st = Ok (st', ok) ->
  st_it st' = st_it st /\ st_inf st' = st_inf st /\ st_res st' = st_res st /\
  (KShape d (st_kkt st) -> KShape d (st_kkt st')).
Proof.
  unfold do_factorize. intros H. bind_step H. destr_pairs. injection H as <- <-. cbn. do 3 (split; [reflexivity|]).
  intros HK. eapply regularize_and_factorize_shape; eauto.
Qed.

Lemma leaf (P : Prop) (X : St) it inf res :
  st_it X = it -> st_inf X = inf -> st_res X = res ->
  ItPos it -> InfOK (P /\ (0 < nineq d)%nat) inf -> (P -> ItShape d it) -> (P -> ResShape d res) ->
  Positive X /\ (P -> Shaped X).
Proof.
  intros <- <- <- H1 [H2 H2'] H3 H4. split; [split; auto|].
  intros HP. unfold Shaped. split; [auto|]. split; [intros HN; apply H2'; auto|right; auto].
Qed.

Lemma loop_pass_inv st :
  Positive st ->
  wp (loop_pass K S d pc fault cp st)
     (fun o => Positive (outcome_state o) /\ (DataShape d /\ Shaped st -> Shaped (outcome_state o))).
Proof.
  intros [HP HI]. cbv delta [loop_pass]. cbv beta.
  pose (Sh := DataShape d /\ Shaped st). change (DataShape d /\ Shaped st) with Sh.
  wp_let inf0.
  wp_bind_as v0 E0. wp_pair v0 res0 inf0a.
  assert (V0 : InfView inf0a = InfView (st_inf st)).
  { subst inf0. destruct (i_iter (st_inf st) =? 0)%Z.
    - apply unr_keeps in E0. unfold InfView. destruct E0 as (-> & -> & -> & ->). reflexivity.
    - injection E0 as <- <-. reflexivity. }
  assert (R0 : Sh -> ResShape d res0).
  { intros [HD (HS1 & HS2 & HS3)]. subst inf0. destruct (i_iter (st_inf st) =? 0)%Z eqn:Ei.
    - eapply unr_shape; eauto.
    - injection E0 as <- <-. destruct HS3 as [HS3|HS3]; [|exact HS3]. apply Z.eqb_neq in Ei. contradiction. }
  clear E0.
  assert (OK0 : InfOK (Sh /\ (0 < nineq d)%nat) inf0a).
  { apply (InfOK_view _ (st_inf st)); auto. split; auto. intros [[_ (_ & Hmu & _)] HN]. auto. }
  wp_let inf1.
  assert (V1 : InfView inf1 = InfView inf0a) by reflexivity.
  assert (OK1 : InfOK (Sh /\ (0 < nineq d)%nat) inf1) by (eapply InfOK_view; eauto).
  clearbody inf1. clear V1 V0 OK0.
  wp_let st1.
  assert (S1it : st_it st1 = st_it st) by reflexivity.
  assert (S1inf : st_inf st1 = inf1) by reflexivity.
  assert (S1res : st_res st1 = res0) by reflexivity.
  clearbody st1.
  assert (Ish : Sh -> ItShape d (st_it st)) by (intros [_ (H & _)]; exact H).
  wp_if C1.
  { wp_ret. apply (leaf Sh _ (st_it st) (inf1 <| i_status := SOLVED |>) res0); auto. }
  wp_let it. assert (Eit : it = st_it st) by exact S1it. clearbody it. subst it.
  wp_let rx. clearbody rx.
  wp_let ry. clearbody ry.
  wp_let rz. assert (Lrz : Sh -> length rz = d_m d).
  { intros HS. destruct (R0 HS) as (R1 & R2 & R3). destruct (Ish HS) as (I1 & I2 & I3 & I4 & I5 & I6 & I7 & I8 & I9).
    subst rz. len_solve. }
  clearbody rz.
  wp_let rz_lb. assert (Lrzlb : Sh -> length rz_lb = d_nlb d).
  { intros HS. destruct (R0 HS) as (R1 & R2 & R3). destruct (Ish HS) as (I1 & I2 & I3 & I4 & I5 & I6 & I7 & I8 & I9).
    subst rz_lb. len_solve. }
  clearbody rz_lb.
  wp_let rz_ub. assert (Lrzub : Sh -> length rz_ub = d_nub d).
  { intros HS. destruct (R0 HS) as (R1 & R2 & R3). destruct (Ish HS) as (I1 & I2 & I3 & I4 & I5 & I6 & I7 & I8 & I9).
    subst rz_ub. len_solve. }
  clearbody rz_ub.
  wp_if C2.
  { wp_ret. apply (leaf Sh _ (st_it st) (inf1 <| i_status := PRIMAL_INFEASIBLE |>) res0); auto. }
  wp_if C3.
  { wp_ret. apply (leaf Sh _ (st_it st) (inf1 <| i_status := DUAL_INFEASIBLE |>) res0); auto. }
  clear C1 C2 C3.
  wp_let inf2.
  assert (OK2 : InfOK (Sh /\ (0 < nineq d)%nat) inf2) by (eapply InfOK_view; [|exact OK1]; reflexivity).
  clearbody inf2.
  wp_let lt_eps'. wp_let sh_z. wp_let sh_lb. wp_let sh_ub.
  wp_let it3.
  (* the boundary-control code of loop_pass is [boundary_shift] (checked by conversion) *)
  assert (Eb : it3 = boundary_shift K (st_it st)) by reflexivity. clear Eb.
  clearbody sh_z sh_lb sh_ub. clear lt_eps'.
  assert (Hke : 0 <= k_eps K) by qlra.
  destruct (shift3_facts d sh_z sh_lb sh_ub (k_eps K) (st_it st) Hke) as (P3 & I3 & _).
  cbv zeta in P3, I3. fold it3 in P3, I3. specialize (P3 HP).
  assert (I3' : Sh -> ItShape d it3) by auto. clear I3.
  clearbody it3.
  wp_bind_as inf3 E3.
  assert (OK3 : InfOK (Sh /\ (0 < nineq d)%nat) inf3).
  { destruct (sh_z || sh_lb || sh_ub).
    - bind_step E3. injection E3 as <-. destruct OK2 as [OK2 _]. split; [exact OK2|].
      cbn. intros [HS HN]. eapply mu_of_pos; eauto.
    - injection E3 as <-. exact OK2. }
  clear E3 OK2.
  wp_let inf4.
  assert (OK4 : InfOK (Sh /\ (0 < nineq d)%nat) inf4).
  { subst inf4. match goal with |- InfOK _ (if ?c then _ else _) => destruct c end; [|exact OK3].
    destruct OK3 as [(A1 & A2 & A3) A4]. split; [split; [|split]|]; cbn; auto. }
  clearbody inf4. clear OK3.
  wp_bind_as st4 E4.
  apply do_update_scalings_keeps in E4. cbn [st_it st_inf st_res] in E4.
  destruct E4 as (S4it & S4inf & S4res & S4k).
  change (st_it (st1 <| st_it := it3 |> <| st_inf := inf4 |>)) with it3 in *.
  change (st_inf (st1 <| st_it := it3 |> <| st_inf := inf4 |>)) with inf4 in *.
  change (st_res (st1 <| st_it := it3 |> <| st_inf := inf4 |>)) with (st_res st1) in *.
  rewrite S1res in S4res.
  wp_bind_as v5 E5. wp_pair v5 st5 ok.
  apply do_factorize_keeps in E5. destruct E5 as (S5it & S5inf & S5res & S5k).
  rewrite S4it in S5it. rewrite S4inf in S5inf. rewrite S4res in S5res.
  assert (K5 : Sh -> KShape d (st_kkt st5)) by auto.
  clear S4it S4inf S4res S4k S5k st4.
  wp_if Cok.
  { wp_if Cref.
    { wp_ret. apply (leaf Sh _ it3 inf4 res0); auto. }
    wp_if Cret.
    { wp_let inf5. wp_ret.
      apply (leaf Sh _ it3 (inf5 <| i_iter := (i_iter inf5 - 1)%Z |>) res0); auto.
      subst inf5. rewrite S5inf. destruct OK4 as [A B]. destruct (bump_reg_view inf4 A) as [A' B'].
      split; [exact A'|]. cbn [i_mu]. change (i_mu (bump_reg K S inf4 <| i_iter := (i_iter (bump_reg K S inf4) - 1)%Z |>)) with (i_mu (bump_reg K S inf4)).
      rewrite B'. exact B. }
    wp_ret. apply (leaf Sh _ it3 (st_inf st5 <| i_status := NUMERICS |>) res0); auto.
    rewrite S5inf. exact OK4. }
  wp_let inf6.
  assert (OK6 : InfOK (Sh /\ (0 < nineq d)%nat) inf6) by (subst inf6; rewrite S5inf; exact OK4).
  clearbody inf6. clear OK4.
  wp_let kk. assert (Kkk : Sh -> KShape d kk) by exact K5. clearbody kk.
  wp_if CN.
  - (* there are inequality rows: predictor-corrector step *)
    apply Nat.ltb_lt in CN.
    wp_let rs. assert (Lrs : Sh -> length rs = d_m d).
    { intros HS. destruct (I3' HS) as (I1 & I2 & I3 & I4 & I5 & I6 & I7 & I8 & I9). subst rs. len_solve. }
    wp_let rs_lb. assert (Lrslb : Sh -> length rs_lb = d_nlb d).
    { intros HS. destruct (I3' HS) as (I1 & I2 & I3 & I4 & I5 & I6 & I7 & I8 & I9). subst rs_lb. len_solve. }
    wp_let rs_ub. assert (Lrsub : Sh -> length rs_ub = d_nub d).
    { intros HS. destruct (I3' HS) as (I1 & I2 & I3 & I4 & I5 & I6 & I7 & I8 & I9). subst rs_ub. len_solve. }
    clearbody rs rs_lb rs_ub.
    wp_bind_as p Ep.
    assert (Shp : Sh -> StepShape d p).
    { intros HS. eapply kkt_solve_shape; eauto. destruct HS; auto. }
    clear Ep.
    wp_bind_as v1 Esl1. wp_pair v1 a_s0 a_z0. clear Esl1.
    wp_let a_s. wp_let a_z. wp_let sig0. clearbody sig0. clearbody a_s a_z.
    wp_bind_as sig1 Esig. clear Esig.
    wp_let sg2. wp_let sigma. wp_let sm. clearbody sm. clearbody sigma. clearbody sg2.
    wp_let rs'. assert (Lrs' : Sh -> length rs' = d_m d).
    { intros HS. destruct (Shp HS) as (C1 & C2 & C3 & C4 & C5 & C6). specialize (Lrs HS). subst rs'. len_solve. }
    wp_let rs_lb'. assert (Lrslb' : Sh -> length rs_lb' = d_nlb d).
    { intros HS. destruct (Shp HS) as (C1 & C2 & C3 & C4 & C5 & C6). specialize (Lrslb HS). subst rs_lb'. len_solve. }
    wp_let rs_ub'. assert (Lrsub' : Sh -> length rs_ub' = d_nub d).
    { intros HS. destruct (Shp HS) as (C1 & C2 & C3 & C4 & C5 & C6). specialize (Lrsub HS). subst rs_ub'. len_solve. }
    clearbody rs' rs_lb' rs_ub'. clear Lrs Lrslb Lrsub Shp.
    wp_bind_as c Ec.
    assert (Shc : Sh -> StepShape d c).
    { intros HS. eapply kkt_solve_shape; eauto. destruct HS; auto. }
    clear Ec.
    wp_bind_as v2 Esl2. wp_pair v2 b_s0 b_z0.
    wp_let ps. wp_let ds_. wp_let it4.
    assert (Htau0' : 0 <= tau S) by qlra.
    destruct (step_update_keeps_positive cp (tau S) it3 c b_s0 b_z0 Hcp Htau0' Htau1 P3 Esl2) as (_ & _ & _ & _ & P4).
    change (ItPos it4) in P4.
    assert (I4 : Sh -> ItShape d it4) by (intros HS; exact (step_update_shape d cp it3 c ps ds_ (I3' HS) (Shc HS))).
    clearbody it4.
    wp_let mu_prev.
    wp_bind_as mu Emu.
    assert (Hmu : Sh /\ (0 < nineq d)%nat -> 0 < mu) by (intros [HS HN]; eapply mu_of_pos; eauto).
    clear Emu.
    wp_bind_as rate0 Erate. clear Erate.
    wp_let mu_rate. clearbody mu_rate.
    wp_let inf7.
    assert (OK7 : InfOK (Sh /\ (0 < nineq d)%nat) inf7) by (destruct OK6 as [A B]; split; [exact A|exact Hmu]).
    clearbody inf7.
    wp_bind_as v3 Eunr. wp_pair v3 res1 inf8.
    assert (R1 : Sh -> ResShape d res1) by (intros HS; eapply unr_shape; eauto; destruct HS; auto).
    assert (OK8 : InfOK (Sh /\ (0 < nineq d)%nat) inf8).
    { apply (InfOK_view _ inf7); auto. apply unr_keeps in Eunr. unfold InfView.
      destruct Eunr as (-> & -> & -> & ->). reflexivity. }
    clear Eunr.
    wp_let good_d. clearbody good_d.
    wp_let it5.
    destruct (it_zeta_facts d good_d it4 (x it4)) as (P5 & I5 & _). cbv zeta in P5, I5. fold it5 in P5, I5.
    specialize (P5 P4). assert (I5' : Sh -> ItShape d it5) by auto. clear I5. clearbody it5.
    wp_let inf9.
    assert (OK9 : InfOK (Sh /\ (0 < nineq d)%nat) inf9).
    { destruct OK8 as [(A1 & A2 & A3) A4]. subst inf9.
      destruct good_d; (split; [split; [|split]|]); cbn; auto using qmax_pos_l. }
    clearbody inf9.
    wp_let good_p. clearbody good_p.
    wp_let it6.
    destruct (it_nu_facts d good_p it5 (y it5)) as (P6 & I6). cbv zeta in P6, I6. fold it6 in P6, I6.
    specialize (P6 P5). assert (I6' : Sh -> ItShape d it6) by auto. clear I6. clearbody it6.
    wp_let inf10.
    assert (OK10 : InfOK (Sh /\ (0 < nineq d)%nat) inf10).
    { destruct OK9 as [(A1 & A2 & A3) A4]. subst inf10.
      destruct good_p; (split; [split; [|split]|]); cbn; auto using qmax_pos_l. }
    clearbody inf10.
    wp_ret.
    apply (leaf Sh _ it6 (inf10 <| i_rho := cp (i_rho inf10) |> <| i_delta := cp (i_delta inf10) |>) res1); auto.
    destruct OK10 as [(A1 & A2 & A3) A4]. split; [split; [|split]|]; cbn; auto.
  - (* no inequality rows: full Newton step on x, y *)
    wp_bind_as c Ec. clear Ec.
    wp_let it4.
    destruct (cp_xy_facts d cp it3 (vadd (x it3) (st_x c)) (vadd (y it3) (st_y c)) Hcp) as (P4 & I4).
    cbv zeta in P4, I4. fold it4 in P4, I4. specialize (P4 P3).
    assert (I4' : Sh -> ItShape d it4) by auto. clear I4. clearbody it4.
    wp_let inf7.
    assert (OK7 : InfOK (Sh /\ (0 < nineq d)%nat) inf7) by exact OK6.
    clearbody inf7.
    wp_bind_as v3 Eunr. wp_pair v3 res1 inf8.
    assert (R1 : Sh -> ResShape d res1) by (intros HS; eapply unr_shape; eauto; destruct HS; auto).
    assert (OK8 : InfOK (Sh /\ (0 < nineq d)%nat) inf8).
    { apply (InfOK_view _ inf7); auto. apply unr_keeps in Eunr. unfold InfView.
      destruct Eunr as (-> & -> & -> & ->). reflexivity. }
    clear Eunr.
    wp_let good_d. clearbody good_d.
    wp_let it5.
    destruct (it_zeta_facts d good_d it4 (x it4)) as (P5 & I5 & _). cbv zeta in P5, I5. fold it5 in P5, I5.
    specialize (P5 P4). assert (I5' : Sh -> ItShape d it5) by auto. clear I5. clearbody it5.
    wp_let inf9.
    assert (OK9 : InfOK (Sh /\ (0 < nineq d)%nat) inf9).
    { destruct OK8 as [(A1 & A2 & A3) A4]. subst inf9.
      destruct good_d; (split; [split; [|split]|]); cbn; auto using qmax_pos_l. }
    clearbody inf9.
    wp_let good_p. clearbody good_p.
    wp_let it6.
    destruct (it_lambda_facts d good_p it5 (y it5)) as (P6 & I6). cbv zeta in P6, I6. fold it6 in P6, I6.
    specialize (P6 P5). assert (I6' : Sh -> ItShape d it6) by auto. clear I6. clearbody it6.
    wp_let inf10.
    assert (OK10 : InfOK (Sh /\ (0 < nineq d)%nat) inf10).
    { destruct OK9 as [(A1 & A2 & A3) A4]. subst inf10.
      destruct good_p; (split; [split; [|split]|]); cbn; auto using qmax_pos_l. }
    clearbody inf10.
    wp_ret.
    apply (leaf Sh _ it6 (inf10 <| i_rho := cp (i_rho inf10) |> <| i_delta := cp (i_delta inf10) |>) res1); auto.
    destruct OK10 as [(A1 & A2 & A3) A4]. split; [split; [|split]|]; cbn; auto.
Qed.

(* L, one pass *)
Theorem loop_pass_positive st o :
  Positive st -> loop_pass K S d pc fault cp st = Ok o -> Positive (outcome_state o).
Proof.
  intros HP E. exact (proj1 (wp_elim _ _ _ (loop_pass_inv st HP) E)).
Qed.

Theorem loop_invariant st o :
  DataShape d -> Interior st -> loop_pass K S d pc fault cp st = Ok o -> Interior (outcome_state o).
Proof.
  intros HD [HP HS] E. destruct (wp_elim _ _ _ (loop_pass_inv st HP) E) as [A B].
  split; auto.
Qed.

(* L, the whole loop, any fuel *)
Theorem main_loop_positive fuel : forall st st',
  Positive st -> main_loop K S d pc fault cp fuel st = Ok st' -> Positive st'.
Proof.
  induction fuel as [|f IH]; intros st st' HP E; cbn [main_loop] in E; [discriminate|].
  destruct (i_iter (st_inf st) <? max_iter S)%Z.
  - destruct (loop_pass K S d pc fault cp st) as [o|] eqn:E0; cbn [bind] in E; [|discriminate].
    pose proof (loop_pass_positive st o HP E0) as HP'.
    destruct o as [st1|st1]; cbn [outcome_state] in HP'.
    + eapply IH; eauto.
    + injection E as <-. exact HP'.
  - injection E as <-. exact HP.
Qed.

Theorem main_loop_interior fuel : forall st st',
  DataShape d -> Interior st -> main_loop K S d pc fault cp fuel st = Ok st' ->
  Positive st' /\ ItShape d (st_it st') /\ ((0 < nineq d)%nat -> 0 < i_mu (st_inf st')).
Proof.
  induction fuel as [|f IH]; intros st st' HD HI E; cbn [main_loop] in E; [discriminate|].
  destruct (i_iter (st_inf st) <? max_iter S)%Z.
  - destruct (loop_pass K S d pc fault cp st) as [o|] eqn:E0; cbn [bind] in E; [|discriminate].
    pose proof (loop_invariant st o HD HI E0) as HI'.
    destruct o as [st1|st1]; cbn [outcome_state] in HI'.
    + eapply IH; eauto.
    + injection E as <-. destruct HI' as [A (B & C & _)]. auto.
  - injection E as <-. destruct HI as [A (B & C & _)]. cbn. auto.
Qed.

End Loop.

(* ================================================================================================ *)
(** * 8. E -- the initial point (Mehrotra shift) *)

(* the local function [shift] of initial_point *)
Definition shiftK (ksh a : F) (v : Vec) : F :=
  match v with [] => a | h :: t => qmax a (- ksh * fold_left qmin t h) end.

Lemma fold_qmin_le_acc t : forall h, fold_left qmin t h <= h.
Proof.
  induction t as [|a t IH]; intros h; cbn.
  - qlra.
  - eapply Qcle_trans; [apply IH | apply qmin_le_l].
Qed.
Lemma fold_qmin_le_in t : forall h x, In x t -> fold_left qmin t h <= x.
Proof.
  induction t as [|a t IH]; intros h x Hin; cbn; [inversion Hin|].
  destruct Hin as [->|Hin].
  - eapply Qcle_trans; [apply fold_qmin_le_acc | apply qmin_le_r].
  - apply IH; auto.
Qed.
Lemma vmin_le h t x : In x (h :: t) -> fold_left qmin t h <= x.
Proof. intros [->|Hin]; [apply fold_qmin_le_acc | now apply fold_qmin_le_in]. Qed.

Lemma shift_ge ksh a v : a <= shiftK ksh a v.
Proof. destruct v; cbn [shiftK]; [qlra | apply qmax_ge_l]. Qed.

Lemma shift_cover ksh a v x D : 1 < ksh -> In x v -> shiftK ksh a v <= D -> 0 <= D -> 0 <= x + D.
Proof.
  intros Hk Hin HD H0. destruct v as [|h t]; [inversion Hin|]. cbn [shiftK] in HD.
  pose proof (vmin_le h t x Hin) as Hm. set (m := fold_left qmin t h) in *.
  pose proof (qmax_ge_r a (- ksh * m)) as H1.
  destruct (Qclt_le_dec m 0) as [Hneg|Hpos]; qnra.
Qed.
Lemma shift_cover_strict ksh a v x D : 1 < ksh -> In x v -> shiftK ksh a v <= D -> 0 < D -> 0 < x + D.
Proof.
  intros Hk Hin HD H0. destruct v as [|h t]; [inversion Hin|]. cbn [shiftK] in HD.
  pose proof (vmin_le h t x Hin) as Hm. set (m := fold_left qmin t h) in *.
  pose proof (qmax_ge_r a (- ksh * m)) as H1.
  destruct (Qclt_le_dec m 0) as [Hneg|Hpos]; qnra.
Qed.
Lemma shift_neg_pos ksh a v y : 1 < ksh -> In y v -> y < 0 -> 0 < shiftK ksh a v.
Proof.
  intros Hk Hin Hy. destruct v as [|h t]; [inversion Hin|]. cbn [shiftK].
  pose proof (vmin_le h t y Hin) as Hm. set (m := fold_left qmin t h) in *.
  pose proof (qmax_ge_r a (- ksh * m)) as H1. qnra.
Qed.

(* what the shift delta = max(0, -k_shift * min) achieves on a family of entries V *)
Definition DeltaSpec (V : Vec) (D : F) : Prop :=
  0 <= D /\ (forall x, In x V -> 0 <= x + D) /\
  ((exists y, In y V /\ y < 0) -> forall x, In x V -> 0 < x + D).

Definition delta3 (ksh : F) (a b c : Vec) : F := shiftK ksh (shiftK ksh (shiftK ksh 0 a) b) c.

Lemma delta3_spec ksh a b c : 1 < ksh -> DeltaSpec (a ++ b ++ c) (delta3 ksh a b c).
Proof.
  intros Hk. unfold delta3.
  set (D1 := shiftK ksh 0 a). set (D2 := shiftK ksh D1 b). set (D3 := shiftK ksh D2 c).
  assert (H1 : 0 <= D1) by apply shift_ge.
  assert (H2 : D1 <= D2) by apply shift_ge.
  assert (H3 : D2 <= D3) by apply shift_ge.
  assert (H03 : 0 <= D3) by qlra.
  assert (L1 : D1 <= D3) by qlra.
  assert (L3 : D3 <= D3) by qlra.
  split; [exact H03|]. split.
  - intros x Hin. rewrite !in_app_iff in Hin. destruct Hin as [Hin|[Hin|Hin]].
    + exact (shift_cover ksh 0 a x D3 Hk Hin L1 H03).
    + exact (shift_cover ksh D1 b x D3 Hk Hin H3 H03).
    + exact (shift_cover ksh D2 c x D3 Hk Hin L3 H03).
  - intros (y & Hy & Hneg).
    assert (Hpos : 0 < D3).
    { rewrite !in_app_iff in Hy. destruct Hy as [Hy|[Hy|Hy]].
      - pose proof (shift_neg_pos ksh 0 a y Hk Hy Hneg). fold D1 in H. qlra.
      - pose proof (shift_neg_pos ksh D1 b y Hk Hy Hneg). fold D2 in H. qlra.
      - exact (shift_neg_pos ksh D2 c y Hk Hy Hneg). }
    intros x Hin. rewrite !in_app_iff in Hin. destruct Hin as [Hin|[Hin|Hin]].
    + exact (shift_cover_strict ksh 0 a x D3 Hk Hin L1 Hpos).
    + exact (shift_cover_strict ksh D1 b x D3 Hk Hin H3 Hpos).
    + exact (shift_cover_strict ksh D2 c x D3 Hk Hin L3 Hpos).
Qed.

(* the condition under which the Mehrotra shift succeeds: one slot is strictly inside after the first shift *)
Definition Witness (SS ZZ : Vec) : Prop :=
  forall ds dz, DeltaSpec SS ds -> DeltaSpec ZZ dz ->
    Exists (fun p : F * F => 0 < fst p + ds /\ 0 < snd p + dz) (combine SS ZZ).

Definition OppSign (a b : F) : Prop := (0 < a <-> b < 0) /\ (a < 0 <-> 0 < b).

Lemma Forall2_In_l {A B} (R : A -> B -> Prop) l l' x :
  Forall2 R l l' -> In x l -> exists y, In (x, y) (combine l l') /\ R x y.
Proof.
  intros H. induction H as [|a b l l' Hab H IH]; intros Hin; [inversion Hin|].
  destruct Hin as [->|Hin].
  - exists b. split; [left; reflexivity|exact Hab].
  - destruct (IH Hin) as (y & Hy & HR). exists y. split; [right; exact Hy|exact HR].
Qed.

(* slots have opposite signs (s = -w z, w > 0) and not all are zero *)
Lemma witness_opp SS ZZ : Forall2 OppSign SS ZZ -> Exists (fun x : F => x <> 0) SS -> Witness SS ZZ.
Proof.
  intros HF HE ds dz (Hs0 & Hs1 & Hs2) (Hz0 & Hz1 & Hz2).
  apply Exists_exists in HE. destruct HE as (x & Hx & Hnz).
  destruct (Forall2_In_l _ _ _ _ HF Hx) as (y & Hxy & [O1 O2]).
  pose proof (in_combine_r _ _ _ _ Hxy) as Hy.
  apply Exists_exists. exists (x, y). split; [exact Hxy|]. cbn [fst snd].
  destruct (Qclt_le_dec 0 x) as [Hpos|Hle].
  - (* x > 0, so y < 0 and the z-shift is strict everywhere *)
    assert (Hyneg : y < 0) by (apply O1; exact Hpos). clear O1 O2.
    split; [qlra|]. apply Hz2; [exists y; auto|exact Hy].
  - assert (Hxneg : x < 0).
    { destruct (Qclt_le_dec x 0) as [H|H]; [exact H|]. exfalso. apply Hnz. clear O1 O2. qlra. }
    assert (Hypos : 0 < y) by (apply O2; exact Hxneg). clear O1 O2.
    split; [|qlra]. apply Hs2; [exists x; auto|exact Hx].
Qed.

(* all entries positive already (the reset to 0.1) *)
Lemma witness_pos SS ZZ : vpos SS -> vpos ZZ -> length SS = length ZZ -> SS <> [] -> Witness SS ZZ.
Proof.
  intros HS HZ HL HN ds dz (Hs0 & _) (Hz0 & _).
  destruct SS as [|x SS]; [congruence|]. destruct ZZ as [|y ZZ]; [discriminate|].
  inversion HS; subst. inversion HZ; subst.
  cbn [combine]. apply Exists_cons_hd. cbn [fst snd]. split; qlra.
Qed.

Lemma vsum_app a b : vsum (a ++ b) = vsum a + vsum b.
Proof.
  induction a as [|x a IH]; cbn [app].
  - rewrite vsum_nil. qlra.
  - rewrite !vsum_cons, IH. qlra.
Qed.
Lemma vaddc_app k a b : vaddc k (a ++ b) = vaddc k a ++ vaddc k b.
Proof. apply map_app. Qed.
Lemma vsum_vaddc k v : vsum (vaddc k v) = vsum v + qofnat (length v) * k.
Proof.
  induction v as [|x v IH]; cbn [vaddc map length].
  - unfold vsum. cbn [fold_left]. rewrite qofnat_0. qnra.
  - fold (vaddc k v). rewrite !vsum_cons, IH, qofnat_S. qnra.
Qed.
Lemma dot_app a a' b b' : length a = length a' -> dot (a ++ b) (a' ++ b') = dot a a' + dot b b'.
Proof.
  revert a'. induction a as [|x a IH]; intros [|y a'] HL; try discriminate; cbn [app].
  - rewrite dot_nil_l. qlra.
  - rewrite !dot_cons, IH by (cbn in HL; lia). qlra.
Qed.
Lemma dot_vaddc ds dz SS ZZ :
  dot (vaddc ds SS) (vaddc dz ZZ) = vsum (map (fun p : F * F => (fst p + ds) * (snd p + dz)) (combine SS ZZ)).
Proof.
  revert ZZ. induction SS as [|x SS IH]; intros [|y ZZ]; try reflexivity. cbn [vaddc map combine].
  fold (vaddc ds SS). fold (vaddc dz ZZ). rewrite dot_cons, vsum_cons, IH. reflexivity.
Qed.

(* the arithmetic heart of appendix E *)
Lemma mehrotra_core_slot half SS ZZ ds dz :
  0 < half -> DeltaSpec SS ds -> DeltaSpec ZZ dz ->
  Exists (fun p : F * F => 0 < fst p + ds /\ 0 < snd p + dz) (combine SS ZZ) ->
  let tp := dot (vaddc ds SS) (vaddc dz ZZ) in
  0 < tp /\ 0 < vsum (vaddc dz ZZ) /\ 0 < vsum (vaddc ds SS) /\
  forall qs qz, qs * vsum (vaddc dz ZZ) = half * tp -> qz * vsum (vaddc ds SS) = half * tp ->
    0 < qs /\ 0 < qz /\ (forall x, In x SS -> 0 < x + (ds + qs)) /\ (forall y, In y ZZ -> 0 < y + (dz + qz)).
Proof.
  intros Hh HS HZ HE.
  destruct HS as (Hs0 & Hs1 & _). destruct HZ as (Hz0 & Hz1 & _).
  cbv zeta.
  assert (Htp : 0 < dot (vaddc ds SS) (vaddc dz ZZ)).
  { rewrite dot_vaddc. apply vsum_pos_exists.
    - apply Forall_map. apply Forall_forall. intros [x y] Hin. cbn [fst snd].
      pose proof (Hs1 x (in_combine_l _ _ _ _ Hin)). pose proof (Hz1 y (in_combine_r _ _ _ _ Hin)). qnra.
    - apply Exists_map. eapply Exists_impl; [|exact HE]. intros [x y]. cbn [fst snd]. intros [A B]. qnra. }
  apply Exists_exists in HE. destruct HE as ([x y] & Hin & A & B). cbn [fst snd] in A, B.
  assert (HsZ : 0 < vsum (vaddc dz ZZ)).
  { apply vsum_pos_exists.
    - apply Forall_map. apply Forall_forall. intros y' Hy'. apply Hz1, Hy'.
    - apply Exists_map. apply Exists_exists. exists y. split; [exact (in_combine_r _ _ _ _ Hin)|exact B]. }
  assert (HsS : 0 < vsum (vaddc ds SS)).
  { apply vsum_pos_exists.
    - apply Forall_map. apply Forall_forall. intros x' Hx'. apply Hs1, Hx'.
    - apply Exists_map. apply Exists_exists. exists x. split; [exact (in_combine_l _ _ _ _ Hin)|exact A]. }
  repeat (split; [assumption|]).
  intros qs qz Eqs Eqz.
  assert (Hqs : 0 < qs) by (eapply quot_pos; [exact Eqs|exact HsZ|qnra]).
  assert (Hqz : 0 < qz) by (eapply quot_pos; [exact Eqz|exact HsS|qnra]).
  repeat split; auto.
  - intros x' Hx'. pose proof (Hs1 x' Hx'). qlra.
  - intros y' Hy'. pose proof (Hz1 y' Hy'). qlra.
Qed.

Lemma mehrotra_core half SS ZZ ds dz :
  0 < half -> DeltaSpec SS ds -> DeltaSpec ZZ dz -> Witness SS ZZ ->
  let tp := dot (vaddc ds SS) (vaddc dz ZZ) in
  0 < tp /\ 0 < vsum (vaddc dz ZZ) /\ 0 < vsum (vaddc ds SS) /\
  forall qs qz, qs * vsum (vaddc dz ZZ) = half * tp -> qz * vsum (vaddc ds SS) = half * tp ->
    0 < qs /\ 0 < qz /\ (forall x, In x SS -> 0 < x + (ds + qs)) /\ (forall y, In y ZZ -> 0 < y + (dz + qz)).
Proof. intros Hh HS HZ HW. exact (mehrotra_core_slot half SS ZZ ds dz Hh HS HZ (HW ds dz HS HZ)). Qed.

Lemma vpos_vaddc_in k v : (forall x, In x v -> 0 < x + k) -> vpos (vaddc k v).
Proof. intros H. unfold vpos, vaddc. apply Forall_map. apply Forall_forall. exact H. Qed.

Lemma div_mul (a b : Qc) : b <> 0 -> (a / b) * b = a.
Proof. intros H. field. exact H. Qed.

(* the Mehrotra shift on the three blocks, in the very expressions of initial_point *)
Lemma mehrotra3 ksh half (a b c a' b' c' : Vec) (N : nat) :
  1 < ksh -> 0 < half ->
  length a = length a' -> length b = length b' -> length c = length c' ->
  N = (length a + length b + length c)%nat ->
  Witness (a ++ b ++ c) (a' ++ b' ++ c') ->
  let ds := delta3 ksh a b c in
  let dz := delta3 ksh a' b' c' in
  let tp := dot (vaddc ds a) (vaddc dz a') + dot (vaddc ds b) (vaddc dz b') + dot (vaddc ds c) (vaddc dz c') in
  let den_s := vsum a' + vsum b' + vsum c' + qofnat N * dz in
  let den_z := vsum a + vsum b + vsum c + qofnat N * ds in
  0 < tp /\ 0 < den_s /\ 0 < den_z /\
  forall qs qz, qs * den_s = half * tp -> qz * den_z = half * tp ->
    0 < qs /\ 0 < qz /\
    vpos (vaddc (ds + qs) a) /\ vpos (vaddc (ds + qs) b) /\ vpos (vaddc (ds + qs) c) /\
    vpos (vaddc (dz + qz) a') /\ vpos (vaddc (dz + qz) b') /\ vpos (vaddc (dz + qz) c').
Proof.
  intros Hk Hh La Lb Lc HN HW. intros ds dz tp den_s den_z.
  pose proof (delta3_spec ksh a b c Hk) as HS. fold ds in HS.
  pose proof (delta3_spec ksh a' b' c' Hk) as HZ. fold dz in HZ.
  destruct (mehrotra_core half _ _ ds dz Hh HS HZ HW) as (T1 & T2 & T3 & T4). cbv zeta in T1, T4.
  assert (Etp : dot (vaddc ds (a ++ b ++ c)) (vaddc dz (a' ++ b' ++ c')) = tp).
  { subst tp. rewrite !vaddc_app. rewrite !dot_app by (rewrite !vaddc_length; assumption). qlra. }
  assert (Eds : vsum (vaddc dz (a' ++ b' ++ c')) = den_s).
  { subst den_s. rewrite vsum_vaddc, !vsum_app, !app_length, HN, <- La, <- Lb, <- Lc, !qofnat_plus. qnra. }
  assert (Edz : vsum (vaddc ds (a ++ b ++ c)) = den_z).
  { subst den_z. rewrite vsum_vaddc, !vsum_app, !app_length, HN, !qofnat_plus. qnra. }
  rewrite Etp in *. rewrite Eds in *. rewrite Edz in *.
  repeat (split; [assumption|]).
  intros qs qz E1 E2. destruct (T4 qs qz E1 E2) as (Q1 & Q2 & Q3 & Q4).
  repeat (split; [assumption|]).
  split; [apply vpos_vaddc_in; intros x Hx; apply Q3; rewrite !in_app_iff; auto|].
  split; [apply vpos_vaddc_in; intros x Hx; apply Q3; rewrite !in_app_iff; auto|].
  split; [apply vpos_vaddc_in; intros x Hx; apply Q3; rewrite !in_app_iff; auto|].
  split; [apply vpos_vaddc_in; intros x Hx; apply Q4; rewrite !in_app_iff; auto|].
  split; [apply vpos_vaddc_in; intros x Hx; apply Q4; rewrite !in_app_iff; auto|].
  apply vpos_vaddc_in; intros x Hx; apply Q4; rewrite !in_app_iff; auto.
Qed.

Lemma Forall2_of_nth {A B} (R : A -> B -> Prop) (a : list A) (b : list B) da db :
  length a = length b -> (forall i, (i < length a)%nat -> R (nth i a da) (nth i b db)) -> Forall2 R a b.
Proof.
  revert b. induction a as [|x a IH]; intros [|y b] HL H; try discriminate; constructor.
  - apply (H 0%nat). cbn. lia.
  - apply IH; [cbn in HL; lia|]. intros i Hi. apply (H (S i)). cbn. lia.
Qed.
Lemma Forall2_nth_elim {A B} (R : A -> B -> Prop) (a : list A) (b : list B) da db :
  Forall2 R a b -> forall i, (i < length a)%nat -> R (nth i a da) (nth i b db).
Proof.
  intros H. induction H as [|x y a b Hxy H IH]; intros i Hi; [cbn in Hi; lia|].
  destruct i; cbn; [exact Hxy|]. apply IH. cbn in Hi. lia.
Qed.
Lemma Forall2_len {A B} (R : A -> B -> Prop) a b : Forall2 R a b -> length a = length b.
Proof. intros H. induction H; cbn; auto. Qed.
Lemma Forall2_app' {A B} (R : A -> B -> Prop) a a' b b' :
  Forall2 R a a' -> Forall2 R b b' -> Forall2 R (a ++ b) (a' ++ b').
Proof. intros H. induction H; cbn; auto. Qed.

Lemma nth_map_cp cp v i : cp 0 = 0 -> nth i (map cp v) 0 = cp (nth i v 0).
Proof. intros H. rewrite <- H at 1. apply map_nth. Qed.
Lemma nth_vconst n (k : F) i : nth i (vconst n k) k = k.
Proof. unfold vconst. revert i. induction n; intros [|i]; cbn; auto. Qed.

Lemma opp_entry cp (a b zi : Qc) : cp_sign cp -> 0 < a * b -> OppSign (cp (a * (0 - b * zi))) (cp zi).
Proof.
  intros Hcp Hw.
  assert (E : a * (0 - b * zi) = - ((a * b) * zi)) by qnra.
  rewrite E. clear E. set (w := a * b) in *. clearbody w.
  destruct (Hcp (- (w * zi))) as [C1 C2]. destruct (Hcp zi) as [C3 C4].
  assert (P1 : 0 < - (w * zi) <-> zi < 0) by (split; intros H; qnra).
  assert (P2 : - (w * zi) < 0 <-> 0 < zi) by (split; intros H; qnra).
  unfold OppSign. clear -C1 C2 C3 C4 P1 P2. tauto.
Qed.

(* slack recovery with rhs_s = 0: s_i = zinv_i * (0 - ks_i * z_i), so s and z have opposite signs slot by slot *)
Lemma opp_block cp (kzi ks dz : Vec) n :
  cp_sign cp -> Forall2 (fun a b : F => 0 < a * b) kzi ks -> length kzi = n -> length dz = n ->
  Forall2 OppSign (map cp (vmul kzi (vsub (vconst n 0) (vmul ks dz)))) (map cp dz).
Proof.
  intros Hcp HF L1 L3.
  pose proof (Forall2_len _ _ _ HF) as L2. rewrite L1 in L2. symmetry in L2.
  pose proof (cp_sign_zero cp Hcp) as Hc0.
  assert (LL : length (vmul kzi (vsub (vconst n 0) (vmul ks dz))) = n) by len_solve.
  apply (Forall2_of_nth _ _ _ 0 0).
  - rewrite !map_length. congruence.
  - rewrite map_length, LL. intros i Hi.
    rewrite !nth_map_cp by exact Hc0.
    unfold vmul, vsub. rewrite nth_vmap2; [|lia|len_solve].
    rewrite nth_vmap2; [|len_solve|len_solve].
    rewrite nth_vmap2; [|lia|lia].
    rewrite nth_vconst.
    assert (Hw : 0 < nth i kzi 0 * nth i ks 0).
    { apply (Forall2_nth_elim _ _ _ 0 0 HF i). unfold Vec, F in *. lia. }
    apply opp_entry; assumption.
Qed.

Lemma all_zero_dec (v : Vec) : Forall (fun x : F => x = 0) v \/ Exists (fun x : F => x <> 0) v.
Proof.
  induction v as [|x v IH].
  - left. constructor.
  - destruct (Qc_eq_dec x 0) as [E|E].
    + destruct IH as [IH|IH]; [left; constructor; auto | right; apply Exists_cons_tl; exact IH].
    + right. apply Exists_cons_hd. exact E.
Qed.
Lemma norm_inf_zero (v : Vec) : Forall (fun x : F => x = 0) v -> norm_inf v = 0.
Proof.
  unfold norm_inf. intros H. induction H as [|x v Hx H IH]; [reflexivity|].
  cbn [fold_left]. rewrite Hx. exact IH.
Qed.
Lemma snorm_nonzero (a b c : Vec) k :
  0 <= k -> qleb (qmax (qmax (qmax 0 (norm_inf a)) (norm_inf b)) (norm_inf c)) k = false ->
  Exists (fun x : F => x <> 0) (a ++ b ++ c).
Proof.
  intros Hk H. destruct (all_zero_dec (a ++ b ++ c)) as [Z|E]; [|exact E]. exfalso.
  rewrite !Forall_app in Z. destruct Z as (Za & Zb & Zc).
  rewrite (norm_inf_zero a Za), (norm_inf_zero b Zb), (norm_inf_zero c Zc) in H.
  change (qmax (qmax (qmax 0 0) 0) 0) with (Q2Qc 0) in H.
  apply qleb_gt in H. qlra.
Qed.

(** ** The exact success condition of the Mehrotra shift (block level, arbitrary vectors) *)

(* tmp_prod > 0  iff  one slot is strictly positive in both s and z after the first shift *)
Lemma tp_pos_iff_slot SS ZZ ds dz :
  DeltaSpec SS ds -> DeltaSpec ZZ dz ->
  (0 < dot (vaddc ds SS) (vaddc dz ZZ) <->
   Exists (fun p : F * F => 0 < fst p + ds /\ 0 < snd p + dz) (combine SS ZZ)).
Proof.
  intros (Hs0 & Hs1 & _) (Hz0 & Hz1 & _). rewrite dot_vaddc.
  assert (NN : Forall (fun p : F * F => 0 <= fst p + ds /\ 0 <= snd p + dz) (combine SS ZZ)).
  { apply Forall_forall. intros [x y] Hin. cbn [fst snd].
    split; [apply Hs1; exact (in_combine_l _ _ _ _ Hin) | apply Hz1; exact (in_combine_r _ _ _ _ Hin)]. }
  induction (combine SS ZZ) as [|[x y] l IH]; cbn [map].
  - unfold vsum. cbn [fold_left]. split; [intros H; exfalso; qlra | intros H; inversion H].
  - inversion NN as [|? ? [N1 N2] NN']; subst. cbn [fst snd] in N1, N2. specialize (IH NN').
    rewrite vsum_cons. cbn [fst snd].
    assert (Hl : 0 <= vsum (map (fun p : F * F => (fst p + ds) * (snd p + dz)) l)).
    { apply vsum_nonneg. apply Forall_map. eapply Forall_impl; [|exact NN']. intros [u v]. cbn [fst snd]. intros [A B]. qnra. }
    split.
    + intros H. destruct (Qclt_le_dec 0 ((x + ds) * (y + dz))) as [P|P].
      * apply Exists_cons_hd. cbn [fst snd]. split.
        -- destruct (Qclt_le_dec 0 (x + ds)) as [Q|Q]; [exact Q|exfalso; qnra].
        -- destruct (Qclt_le_dec 0 (y + dz)) as [Q|Q]; [exact Q|exfalso; qnra].
      * apply Exists_cons_tl. apply IH. qlra.
    + intros H. inversion H as [? ? [A B]|? ? H']; subst.
      * cbn [fst snd] in A, B. qnra.
      * apply IH in H'. assert (0 <= (x + ds) * (y + dz)) by qnra. qlra.
Qed.

Theorem mehrotra_shift_exact ksh half (a b c a' b' c' : Vec) (N : nat) :
  1 < ksh -> 0 < half ->
  length a = length a' -> length b = length b' -> length c = length c' ->
  N = (length a + length b + length c)%nat -> (0 < N)%nat ->
  let ds := delta3 ksh a b c in
  let dz := delta3 ksh a' b' c' in
  let tp := dot (vaddc ds a) (vaddc dz a') + dot (vaddc ds b) (vaddc dz b') + dot (vaddc ds c) (vaddc dz c') in
  let den_s := vsum a' + vsum b' + vsum c' + qofnat N * dz in
  let den_z := vsum a + vsum b + vsum c + qofnat N * ds in
  (* the two divisions succeed and all six shifted vectors are strictly positive ... *)
  ((exists qs qz, qdiv (half * tp) den_s = Ok qs /\ qdiv (half * tp) den_z = Ok qz /\
      vpos (vaddc (ds + qs) a) /\ vpos (vaddc (ds + qs) b) /\ vpos (vaddc (ds + qs) c) /\
      vpos (vaddc (dz + qz) a') /\ vpos (vaddc (dz + qz) b') /\ vpos (vaddc (dz + qz) c'))
   (* ... exactly when tmp_prod > 0 ... *)
   <-> 0 < tp)
  (* ... i.e. when some slot is strictly inside after the first shift; otherwise tmp_prod = 0 *)
  /\ (0 < tp <-> Exists (fun p : F * F => 0 < fst p + ds /\ 0 < snd p + dz) (combine (a ++ b ++ c) (a' ++ b' ++ c')))
  /\ 0 <= tp.
Proof.
  intros Hk Hh La Lb Lc HN HN0. intros ds dz tp den_s den_z.
  pose proof (delta3_spec ksh a b c Hk) as HS. fold ds in HS.
  pose proof (delta3_spec ksh a' b' c' Hk) as HZ. fold dz in HZ.
  assert (Etp : dot (vaddc ds (a ++ b ++ c)) (vaddc dz (a' ++ b' ++ c')) = tp).
  { subst tp. rewrite !vaddc_app. rewrite !dot_app by (rewrite !vaddc_length; assumption). qlra. }
  pose proof (tp_pos_iff_slot _ _ ds dz HS HZ) as Hslot. rewrite Etp in Hslot.
  assert (Htp0 : 0 <= tp).
  { rewrite <- Etp. destruct HS as (_ & Hs1 & _). destruct HZ as (_ & Hz1 & _).
    apply dot_nonneg; apply Forall_map; apply Forall_forall; auto. }
  split; [|split; [exact Hslot|exact Htp0]].
  split.
  - intros (qs & qz & E1 & E2 & P1 & P2 & P3 & P4 & P5 & P6).
    destruct (Qclt_le_dec 0 tp) as [Hpos|Hle]; [exact Hpos|exfalso].
    assert (Ez : tp = 0) by qlra.
    apply qdiv_inv in E1, E2. destruct E1 as [D1 E1]. destruct E2 as [D2 E2].
    rewrite Ez in E1, E2.
    assert (Hqs : qs = 0).
    { destruct (Qc_eq_dec qs 0) as [e|n]; [exact e|]. exfalso. apply D1.
      apply (Qcmult_integral_l qs den_s n). rewrite E1. qnra. }
    assert (Hqz : qz = 0).
    { destruct (Qc_eq_dec qz 0) as [e|n]; [exact e|]. exfalso. apply D2.
      apply (Qcmult_integral_l qz den_z n). rewrite E2. qnra. }
    subst qs qz.
    (* every shifted entry is > 0, and there is at least one slot: tmp_prod > 0, contradiction *)
    assert (Hall : Forall (fun x : F => 0 < x + ds) (a ++ b ++ c)).
    { rewrite !Forall_app. unfold vpos, vaddc in P1, P2, P3. rewrite Forall_map in P1, P2, P3.
      repeat split; (eapply Forall_impl; [|eassumption]); cbv beta; intros; qlra. }
    assert (Hall' : Forall (fun x : F => 0 < x + dz) (a' ++ b' ++ c')).
    { rewrite !Forall_app. unfold vpos, vaddc in P4, P5, P6. rewrite Forall_map in P4, P5, P6.
      repeat split; (eapply Forall_impl; [|eassumption]); cbv beta; intros; qlra. }
    assert (HL : length (a ++ b ++ c) = length (a' ++ b' ++ c')) by (rewrite !app_length; lia).
    assert (HNN : (0 < length (a ++ b ++ c))%nat) by (rewrite !app_length; lia).
    assert (0 < tp); [|qlra]. apply Hslot.
    destruct (a ++ b ++ c) as [|x SS]; [cbn in HNN; lia|].
    destruct (a' ++ b' ++ c') as [|y ZZ]; [discriminate|].
    inversion Hall; subst. inversion Hall'; subst.
    cbn [combine]. apply Exists_cons_hd. cbn [fst snd]. split; assumption.
  - intros Hpos.
    destruct (mehrotra_core_slot half _ _ ds dz Hh HS HZ (proj1 Hslot Hpos)) as (T1 & T2 & T3 & T4).
    cbv zeta in T1, T4.
    assert (Eds : vsum (vaddc dz (a' ++ b' ++ c')) = den_s).
    { subst den_s. rewrite vsum_vaddc, !vsum_app, !app_length, HN, <- La, <- Lb, <- Lc, !qofnat_plus. qnra. }
    assert (Edz : vsum (vaddc ds (a ++ b ++ c)) = den_z).
    { subst den_z. rewrite vsum_vaddc, !vsum_app, !app_length, HN, !qofnat_plus. qnra. }
    rewrite Etp in *. rewrite Eds in *. rewrite Edz in *.
    assert (D1 : den_s <> 0) by (intros E; rewrite E in T2; qlra).
    assert (D2 : den_z <> 0) by (intros E; rewrite E in T3; qlra).
    exists (half * tp / den_s), (half * tp / den_z).
    split; [apply qdiv_ok; exact D1|]. split; [apply qdiv_ok; exact D2|].
    destruct (T4 _ _ (div_mul _ _ D1) (div_mul _ _ D2)) as (_ & _ & Q3 & Q4).
    split; [apply vpos_vaddc_in; intros x Hx; apply Q3; rewrite !in_app_iff; auto|].
    split; [apply vpos_vaddc_in; intros x Hx; apply Q3; rewrite !in_app_iff; auto|].
    split; [apply vpos_vaddc_in; intros x Hx; apply Q3; rewrite !in_app_iff; auto|].
    split; [apply vpos_vaddc_in; intros x Hx; apply Q4; rewrite !in_app_iff; auto|].
    split; [apply vpos_vaddc_in; intros x Hx; apply Q4; rewrite !in_app_iff; auto|].
    apply vpos_vaddc_in; intros x Hx; apply Q4; rewrite !in_app_iff; auto.
Qed.

Lemma vpos_len0 (v : Vec) : length v = 0%nat -> vpos v.
Proof. destruct v; [constructor|discriminate]. Qed.

Definition twp {A} (r : res A) (Q : A -> Prop) : Prop := match r with Ok a => Q a | Err _ => False end.
Lemma twp_bind {A B} (e : res A) (f : A -> res B) Q : twp e (fun a => twp (f a) Q) -> twp (bind e f) Q.
Proof. destruct e; cbn; auto. Qed.
Lemma twp_elim {A} (r : res A) Q : twp r Q -> exists a, r = Ok a /\ Q a.
Proof. destruct r; cbn; [eauto|tauto]. Qed.
Lemma twp_ok_intro {A} (a : A) (Q : A -> Prop) : Q a -> twp (Ok a) Q.
Proof. exact (fun H => H). Qed.
Ltac twp_let y :=
  lazymatch goal with |- twp (let x := ?e in @?b x) ?Q => pose (y := e); change (twp (b y) Q); cbv beta end.
Ltac twp_ret := apply twp_ok_intro; cbv beta.
Ltac twp_if E :=
  lazymatch goal with |- twp (if ?c then _ else _) _ => destruct c eqn:E end.

(* sign condition on the scalings held by the KKT object: z_inv_i * s_i > 0 in every slot
   (kkt_init and the scaling reset of solve() put 1 in every slot; the retry path puts junk * (1/junk) = 1) *)
Definition KSign (d : Data) (k : KKT) : Prop :=
  Forall2 (fun a b : F => 0 < a * b) (k_z_inv k) (k_s k) /\
  Forall2 (fun a b : F => 0 < a * b) (head (d_nlb d) (k_z_lb_inv k)) (head (d_nlb d) (k_s_lb k)) /\
  Forall2 (fun a b : F => 0 < a * b) (head (d_nub d) (k_z_ub_inv k)) (head (d_nub d) (k_s_ub k)).

Section Init.
Variable K : Consts.
Variable S : Settings.
Variable d : Data.
Variable cp : F -> F.

Hypothesis Hcp : cp_sign cp.
Hypothesis Hksh : 1 < k_shift K.
Hypothesis Hhalf : 0 < k_half K.
Hypothesis Hsinit : 0 < k_sinit K.
Hypothesis Hsnorm : 0 <= k_snorm K.

(* the right-hand side of the initial KKT solve *)
Definition init_solve (st : St) : res Step :=
  kkt_solve S d (st_kkt st) (st_refine st) (vneg (d_c d)) (d_b d) (d_h d) (d_lb_n d) (d_ub d)
            (vconst (d_m d) 0) (vconst (d_nlb d) 0) (vconst (d_nub d) 0).

Lemma initial_point_twp st stp :
  DataShape d -> KShape d (st_kkt st) -> KSign d (st_kkt st) ->
  InfPos (st_inf st) -> i_iter (st_inf st) = 0%Z ->
  init_solve st = Ok stp ->
  twp (initial_point K S d cp st) (fun st' => Interior d st').
Proof.
  intros HD HK (KS1 & KS2 & KS3) HI Hiter Hsolve. unfold init_solve in Hsolve.
  pose proof (cp_sign_pos cp Hcp) as Hcpp.
  (* shapes and signs of the solved step *)
  assert (Shp : StepShape d stp).
  { eapply kkt_solve_shape; [exact Hsolve|exact HD|exact HK| | | | | | ]; first [apply vconst_length | destruct HD; assumption]. }
  destruct (kkt_solve_inv _ _ _ _ _ _ _ _ _ _ _ _ _ Hsolve)
    as (w & wlb & wub & dx & xlb & xub & _ & _ & _ & _ & _ & _ & _ & _ & Hs & Hslb & Hsub).
  destruct Shp as (C1 & C2 & C3 & C4 & C5 & C6).
  destruct HK as (K1 & K2 & K3 & K4 & K5 & K6).
  assert (O1 : Forall2 OppSign (map cp (st_s stp)) (map cp (st_z stp))).
  { rewrite Hs. apply opp_block; auto. }
  assert (O2 : Forall2 OppSign (map cp (st_s_lb stp)) (map cp (st_z_lb stp))).
  { rewrite Hslb. apply opp_block; auto. len_solve. }
  assert (O3 : Forall2 OppSign (map cp (st_s_ub stp)) (map cp (st_z_ub stp))).
  { rewrite Hsub. apply opp_block; auto. len_solve. }
  clear Hs Hslb Hsub w wlb wub dx xlb xub KS1 KS2 KS3.
  cbv delta [initial_point]. cbv beta.
  twp_let kk. subst kk.
  apply twp_bind. rewrite Hsolve. twp_ret.
  twp_let it0.
  assert (E0 : s it0 = map cp (st_s stp) /\ s_lb it0 = map cp (st_s_lb stp) /\ s_ub it0 = map cp (st_s_ub stp) /\
               z it0 = map cp (st_z stp) /\ z_lb it0 = map cp (st_z_lb stp) /\ z_ub it0 = map cp (st_z_ub stp))
    by (repeat split).
  destruct E0 as (E1 & E2 & E3 & E4 & E5 & E6).
  rewrite <- E1, <- E4 in O1. rewrite <- E2, <- E5 in O2. rewrite <- E3, <- E6 in O3.
  assert (SZ0 : SZShape d it0).
  { unfold SZShape. rewrite E1, E2, E3, E4, E5, E6, !map_length. repeat split; assumption. }
  clear E1 E2 E3 E4 E5 E6. clearbody it0. clear Hsolve C1 C2 C3 C4 C5 C6.
  apply twp_bind.
  twp_if CN.
  - apply Nat.ltb_lt in CN.
    twp_let s_norm.
    twp_let it_a.
    assert (Fa : SZShape d it_a /\ Witness (s it_a ++ s_lb it_a ++ s_ub it_a) (z it_a ++ z_lb it_a ++ z_ub it_a)).
    { subst it_a. destruct (qleb s_norm (k_snorm K)) eqn:Cs.
      - (* reset: every entry is k_sinit *)
        split.
        + unfold SZShape. cbn. rewrite !vconst_length. repeat split.
        + cbn. apply witness_pos.
          * unfold vpos. rewrite !Forall_app. repeat split; apply vpos_vconst; exact Hsinit.
          * unfold vpos. rewrite !Forall_app. repeat split; apply vpos_vconst; exact Hsinit.
          * rewrite !app_length, !vconst_length. reflexivity.
          * intros E. apply (f_equal (@length F)) in E. rewrite !app_length, !vconst_length in E.
            unfold nineq in CN. cbn in E. lia.
      - split; [exact SZ0|]. apply witness_opp.
        + apply Forall2_app'; [exact O1|]. apply Forall2_app'; [exact O2|exact O3].
        + subst s_norm. eapply snorm_nonzero; eauto. }
    destruct Fa as (SZa & Wa). clearbody it_a. clear s_norm O1 O2 O3 SZ0.
    destruct SZa as (A1 & A2 & A3 & A4 & A5 & A6).
    twp_let shift'.
    twp_let delta_s. twp_let delta_z. twp_let tmp_prod.
    assert (HN : nineq d = (length (s it_a) + length (s_lb it_a) + length (s_ub it_a))%nat).
    { unfold nineq. rewrite A1, A3, A5. reflexivity. }
    destruct (mehrotra3 (k_shift K) (k_half K) (s it_a) (s_lb it_a) (s_ub it_a) (z it_a) (z_lb it_a) (z_ub it_a)
                (nineq d) Hksh Hhalf) as (T1 & T2 & T3 & T4); try congruence; try assumption.
    cbv zeta in T1, T2, T3, T4.
    change (delta3 (k_shift K) (s it_a) (s_lb it_a) (s_ub it_a)) with delta_s in T1, T2, T3, T4.
    change (delta3 (k_shift K) (z it_a) (z_lb it_a) (z_ub it_a)) with delta_z in T1, T2, T3, T4.
    change (dot (vaddc delta_s (s it_a)) (vaddc delta_z (z it_a)) +
            dot (vaddc delta_s (s_lb it_a)) (vaddc delta_z (z_lb it_a)) +
            dot (vaddc delta_s (s_ub it_a)) (vaddc delta_z (z_ub it_a))) with tmp_prod in T1, T2, T3, T4.
    clearbody tmp_prod. clearbody delta_s delta_z. clear shift'.
    apply twp_bind. rewrite qdiv_ok by (intros E; rewrite E in T2; qlra). twp_ret.
    apply twp_bind. rewrite qdiv_ok by (intros E; rewrite E in T3; qlra). twp_ret.
    match goal with |- twp (let dsb := delta_s + ?q in _) _ => set (q_s := q) end.
    match goal with |- twp (let dsb := _ in let dzb := delta_z + ?q in _) _ => set (q_z := q) end.
    assert (Eqs : q_s * (vsum (z it_a) + vsum (z_lb it_a) + vsum (z_ub it_a) + qofnat (nineq d) * delta_z)
                  = k_half K * tmp_prod) by (apply div_mul; intros E; rewrite E in T2; qlra).
    assert (Eqz : q_z * (vsum (s it_a) + vsum (s_lb it_a) + vsum (s_ub it_a) + qofnat (nineq d) * delta_s)
                  = k_half K * tmp_prod) by (apply div_mul; intros E; rewrite E in T3; qlra).
    destruct (T4 q_s q_z Eqs Eqz) as (_ & _ & P1 & P2 & P3 & P4 & P5 & P6).
    clearbody q_s q_z. clear T1 T2 T3 T4 Eqs Eqz Wa.
    twp_let dsb. twp_let dzb. fold dsb in P1, P2, P3. fold dzb in P4, P5, P6. clearbody dsb dzb.
    twp_let it_b.
    assert (Pb : ItPos it_b) by (unfold ItPos; subst it_b; cbn; repeat split; assumption).
    assert (SZb : SZShape d it_b).
    { unfold SZShape; subst it_b; cbn. rewrite !vaddc_length. repeat split; assumption. }
    clearbody it_b.
    apply twp_bind. unfold mu_of at 1.
    assert (HNp : 0 < qofnat (nineq d)) by (apply qofnat_pos; exact CN).
    rewrite qdiv_ok by (intros E; rewrite E in HNp; qlra).
    match goal with |- twp (Ok ?m) _ => set (mu := m) end.
    assert (Hmu : 0 < mu).
    { apply (mu_of_pos6 d it_b mu); auto. unfold mu_of. apply qdiv_ok. intros E; rewrite E in HNp; qlra. }
    clearbody mu. twp_ret. twp_ret.
    first [twp_let it2; subst it2 | idtac]. twp_ret.
    split; [split|].
    + (* ItPos *) unfold ItPos. cbn. exact Pb.
    + destruct HI as (I1 & I2 & I3). unfold InfPos. cbn. auto.
    + unfold Shaped. cbn. split; [|split].
      * destruct SZb as (B1 & B2 & B3 & B4 & B5 & B6). unfold ItShape. cbn. repeat split; assumption.
      * intros _. exact Hmu.
      * left. exact Hiter.
  - (* no inequality rows: all six vectors are empty *)
    apply Nat.ltb_ge in CN. unfold nineq in CN.
    destruct SZ0 as (A1 & A2 & A3 & A4 & A5 & A6).
    twp_ret. twp_let it2. twp_ret.
    split; [split|].
    + unfold ItPos. cbn. repeat split; apply vpos_len0; lia.
    + exact HI.
    + unfold Shaped. cbn. split; [|split].
      * unfold ItShape. cbn. repeat split; assumption.
      * unfold nineq. intros HN. lia.
      * left. exact Hiter.
Qed.
End Init.

(* ================================================================================================ *)
(** * 9. The hypotheses of E hold where solve() calls initial_point:
      kkt_init, the scaling reset, and the initial factorisation loop establish / keep KShape and KSign *)

Lemma mapM_Forall2 {A B} (f : A -> res B) l r : mapM f l = Ok r -> Forall2 (fun a b => f a = Ok b) l r.
Proof.
  revert r. induction l as [|a l IH]; intros r; cbn.
  - intros [= <-]. constructor.
  - destruct (f a) eqn:Ea; cbn; [|discriminate]. destruct (mapM f l); cbn; [|discriminate].
    intros [= <-]. constructor; auto.
Qed.

Lemma firstn_set_head {A} (w v : list A) n : length w = n -> firstn n (set_head w v) = w.
Proof.
  intros <-. unfold set_head. rewrite firstn_app, Nat.sub_diag, firstn_all. cbn. apply app_nil_r.
Qed.

(* scalings computed from positive s, z have z_inv_i * s_i > 0 *)
Lemma vinv_sign (z zi sv : Vec) :
  vinv z = Ok zi -> vpos z -> vpos sv -> length sv = length z -> Forall2 (fun a b : F => 0 < a * b) zi sv.
Proof.
  intros E Hz Hs HL. pose proof (vinv_length _ _ E) as HLi. apply mapM_Forall2 in E.
  apply (Forall2_of_nth _ _ _ 0 0); [unfold Vec, F in *; lia|].
  intros i Hi0. assert (Hi : (i < length z)%nat) by (unfold Vec, F in *; lia).
  pose proof (Forall2_nth_elim _ _ _ 0 0 E i Hi) as Hq. cbv beta in Hq.
  unfold qinv in Hq. apply qdiv_inv in Hq. destruct Hq as [_ Hq].
  pose proof (vpos_nth z i Hz Hi) as Pz.
  assert (Hi' : (i < length sv)%nat) by (unfold Vec, F in *; lia).
  pose proof (vpos_nth sv i Hs Hi') as Ps.
  assert (Pzi : 0 < nth i zi 0) by (eapply quot_pos; [exact Hq|exact Pz|qlra]).
  clear - Pzi Ps. unfold Vec, F in *. qnra.
Qed.

Lemma kkt_update_scalings_sign d k rho delta sv s_lb s_ub zv z_lb z_ub k' :
  kkt_update_scalings d k rho delta sv s_lb s_ub zv z_lb z_ub = Ok k' ->
  vpos sv -> vpos s_lb -> vpos s_ub -> vpos zv -> vpos z_lb -> vpos z_ub ->
  length sv = d_m d -> length zv = d_m d -> length s_lb = d_nlb d -> length z_lb = d_nlb d ->
  length s_ub = d_nub d -> length z_ub = d_nub d -> KSign d k'.
Proof.
  unfold kkt_update_scalings. intros H P1 P2 P3 P4 P5 P6 L1 L2 L3 L4 L5 L6. repeat bind_step H.
  apply update_kkt_fields in H. unfold KSign. destruct H as (-> & -> & -> & -> & -> & -> & _). cbn.
  pose proof (vinv_length _ _ E0) as LE0. pose proof (vinv_length _ _ E1) as LE1.
  unfold head in *.
  assert (F1 : firstn (d_nlb d) z_lb = z_lb) by (rewrite <- L4; apply firstn_all).
  assert (F2 : firstn (d_nub d) z_ub = z_ub) by (rewrite <- L6; apply firstn_all).
  assert (F3 : firstn (d_nlb d) s_lb = s_lb) by (rewrite <- L3; apply firstn_all).
  assert (F4 : firstn (d_nub d) s_ub = s_ub) by (rewrite <- L5; apply firstn_all).
  rewrite F1 in *. rewrite F2 in *. rewrite F3, F4.
  rewrite !firstn_set_head by congruence.
  repeat split; eapply vinv_sign; eauto; congruence.
Qed.

Lemma Forall2_vconst {A B} (R : A -> B -> Prop) n a b : R a b -> Forall2 R (repeat a n) (repeat b n).
Proof. intros H. induction n; cbn; constructor; auto. Qed.

Lemma firstn_repeat_app {A} n (a : A) l : firstn n (repeat a n ++ l) = repeat a n.
Proof. induction n; cbn; [reflexivity|now rewrite IHn]. Qed.

Theorem kkt_init_ok d rho delta junk k :
  kkt_init d rho delta junk = Ok k -> KShape d k /\ KSign d k.
Proof.
  unfold kkt_init. intros H. apply update_kkt_fields in H.
  unfold KShape, KSign. destruct H as (-> & -> & -> & -> & -> & -> & _). cbn.
  unfold head, vconst. rewrite !app_length, !repeat_length, !firstn_repeat_app.
  assert (H11 : (0 : Qc) < 1 * 1) by qlra.
  repeat split; try lia; apply Forall2_vconst; exact H11.
Qed.

Section Reach.
Variable K : Consts.
Variable S : Settings.
Variable d : Data.
Variable fault : nat -> bool.
Hypothesis Hretry : 0 < k_retry_mul K.
Hypothesis Hreglim : 0 < k_reglim_mul K.
Hypothesis Hepsabs : 0 < eps_abs S.

Lemma do_update_scalings_ok st st' :
  do_update_scalings d st = Ok st' -> ItPos (st_it st) -> SZShape d (st_it st) ->
  KShape d (st_kkt st') /\ KSign d (st_kkt st') /\
  st_it st' = st_it st /\ st_inf st' = st_inf st /\ st_refine st' = st_refine st.
Proof.
  unfold do_update_scalings. intros H (P1 & P2 & P3 & P4 & P5 & P6) (L1 & L2 & L3 & L4 & L5 & L6).
  bind_step H. injection H as <-. cbn.
  split; [eapply kkt_update_scalings_shape; eauto|].
  split; [eapply kkt_update_scalings_sign; eauto|]. auto.
Qed.

Lemma do_factorize_ok st st' ok :
  do_factorize S d fault st = Ok (st', ok) ->
  (KShape d (st_kkt st) -> KShape d (st_kkt st')) /\ (KSign d (st_kkt st) -> KSign d (st_kkt st')) /\
  st_it st' = st_it st /\ st_inf st' = st_inf st /\ st_refine st' = st_refine st.
Proof.
  unfold do_factorize. intros H. bind_step H. destr_pairs. injection H as <- <-. cbn.
  unfold regularize_and_factorize in E. destruct (fault (st_calls st)).
  - injection E as <- <-. auto.
  - bind_step E. match type of E with match ?o with _ => _ end = _ => destruct o end; injection E as <- <-; auto.
Qed.

(* the initial factorisation loop (refinement switch, regularisation bumps, NUMERICS) keeps everything E needs *)
Theorem init_factor_ok fuel : forall st st' ok,
  init_factor K S d fault fuel st = Ok (st', ok) ->
  ItPos (st_it st) -> SZShape d (st_it st) -> KShape d (st_kkt st) -> KSign d (st_kkt st) -> InfPos (st_inf st) ->
  KShape d (st_kkt st') /\ KSign d (st_kkt st') /\ InfPos (st_inf st') /\
  st_it st' = st_it st /\ i_iter (st_inf st') = i_iter (st_inf st).
Proof.
  induction fuel as [|f IH]; intros st st' ok H HP HZ HK HS HI; cbn [init_factor] in H; [discriminate|].
  destruct (do_factorize S d fault st) as [[st1 ok1]|] eqn:E; cbn [bind] in H; [|discriminate].
  apply do_factorize_ok in E. destruct E as (A1 & A2 & A3 & A4 & A5).
  destruct ok1.
  - injection H as <- <-. rewrite A4. auto.
  - destruct (negb (st_refine st1)).
    + apply IH in H; cbn; try rewrite A3; try rewrite A4; auto.
      cbn in H. rewrite A3, A4 in H. exact H.
    + destruct (i_factor_retires (st_inf st1) <? max_factor_retires S)%Z.
      * destruct (do_update_scalings d (st1 <| st_inf := bump_reg K S (st_inf st1) |>)) as [st2|] eqn:E2;
          cbn [bind] in H; [|discriminate].
        apply do_update_scalings_ok in E2; cbn; try rewrite A3; auto.
        destruct E2 as (B1 & B2 & B3 & B4 & B5). cbn in B3, B4.
        destruct (bump_reg_view K S Hepsabs Hretry Hreglim (st_inf st1)) as [C1 C2]; [rewrite A4; exact HI|].
        apply IH in H; try rewrite B3; try rewrite B4; try rewrite A3; auto.
        rewrite B3, B4, A3 in H. destruct H as (D1 & D2 & D3 & D4 & D5).
        split; [exact D1|]. split; [exact D2|]. split; [exact D3|]. split; [exact D4|].
        rewrite D5. unfold bump_reg. cbn. rewrite A4. reflexivity.
      * injection H as <- <-. cbn. rewrite A4. auto.
Qed.
End Reach.

(* ================================================================================================ *)
(** * 10. C08-T1 assembled *)
Section C08.
Variable K : Consts.
Variable S : Settings.
Variable d : Data.
Variable pc : Precond.
Variable fault : nat -> bool.
Variable cp : F -> F.

Hypothesis Hcp : cp_sign cp.
Hypothesis Hksh : 1 < k_shift K.
Hypothesis Hhalf : 0 < k_half K.
Hypothesis Hsinit : 0 < k_sinit K.
Hypothesis Hsnorm : 0 <= k_snorm K.
Hypothesis Hkeps : 0 < k_eps K.
Hypothesis Hretry : 0 < k_retry_mul K.
Hypothesis Hreglim : 0 < k_reglim_mul K.
Hypothesis Htau0 : 0 < tau S.
Hypothesis Htau1 : tau S < 1.
Hypothesis Hfine : 0 < reg_finetune_lower_limit S.
Hypothesis Hepsabs : 0 < eps_abs S.
Hypothesis HD : DataShape d.

(* E: if the initial KKT solve returns, the Mehrotra shift cannot fail (no division by zero) and yields an
   interior point with mu > 0 *)
Theorem initial_point_interior st stp :
  KShape d (st_kkt st) -> KSign d (st_kkt st) -> InfPos (st_inf st) -> i_iter (st_inf st) = 0%Z ->
  init_solve S d st = Ok stp ->
  exists st', initial_point K S d cp st = Ok st' /\ Interior d st'.
Proof.
  intros HK HKS HI Hit Hs. apply twp_elim.
  exact (initial_point_twp K S d cp Hcp Hksh Hhalf Hsinit Hsnorm st stp HD HK HKS HI Hit Hs).
Qed.

Theorem initial_point_ok_interior st st' :
  KShape d (st_kkt st) -> KSign d (st_kkt st) -> InfPos (st_inf st) -> i_iter (st_inf st) = 0%Z ->
  initial_point K S d cp st = Ok st' -> Interior d st'.
Proof.
  intros HK HKS HI Hit E.
  destruct (init_solve S d st) as [stp|e] eqn:Es.
  - destruct (initial_point_interior st stp HK HKS HI Hit Es) as (st'' & E' & H).
    rewrite E in E'. injection E' as <-. exact H.
  - exfalso. unfold init_solve in Es. revert E. cbv delta [initial_point]. cbv beta.
    intros E. cbv zeta in E. rewrite Es in E. discriminate E.
Qed.

(* L: every state returned by the main loop started at an interior state is interior *)
Theorem iterates_interior fuel st st1 st2 :
  KShape d (st_kkt st) -> KSign d (st_kkt st) -> InfPos (st_inf st) -> i_iter (st_inf st) = 0%Z ->
  initial_point K S d cp st = Ok st1 ->
  main_loop K S d pc fault cp fuel st1 = Ok st2 ->
  Interior d st1 /\
  Positive st2 /\ ItShape d (st_it st2) /\ ((0 < nineq d)%nat -> 0 < i_mu (st_inf st2)).
Proof.
  intros HK HKS HI Hit E1 E2.
  pose proof (initial_point_ok_interior st st1 HK HKS HI Hit E1) as H1. split; [exact H1|].
  exact (main_loop_interior K S d pc fault cp (cp_sign_pos cp Hcp) Htau0 Htau1 Hfine Hepsabs Hkeps Hretry Hreglim
           fuel st1 st2 HD H1 E2).
Qed.

(* the same in elementary terms: every entry of the six vectors of the initial point and of the returned
   iterate is > 0, and the vectors have the problem's dimensions *)
Lemma ItPos_elementary it : ItPos it ->
  forall x, In x (s it) \/ In x (s_lb it) \/ In x (s_ub it) \/ In x (z it) \/ In x (z_lb it) \/ In x (z_ub it) -> 0 < x.
Proof.
  unfold ItPos, vpos. rewrite !Forall_forall. intros (H1 & H2 & H3 & H4 & H5 & H6) x [H|[H|[H|[H|[H|H]]]]]; auto.
Qed.

Theorem iterates_interior_elementary fuel st st1 st2 :
  KShape d (st_kkt st) -> KSign d (st_kkt st) -> InfPos (st_inf st) -> i_iter (st_inf st) = 0%Z ->
  initial_point K S d cp st = Ok st1 ->
  main_loop K S d pc fault cp fuel st1 = Ok st2 ->
  forall it, it = st_it st1 \/ it = st_it st2 ->
    (forall x, In x (s it) \/ In x (s_lb it) \/ In x (s_ub it) \/ In x (z it) \/ In x (z_lb it) \/ In x (z_ub it) -> 0 < x) /\
    length (s it) = d_m d /\ length (z it) = d_m d /\ length (s_lb it) = d_nlb d /\ length (z_lb it) = d_nlb d /\
    length (s_ub it) = d_nub d /\ length (z_ub it) = d_nub d.
Proof.
  intros HK HKS HI Hit E1 E2 it Hor.
  destruct (iterates_interior fuel st st1 st2 HK HKS HI Hit E1 E2) as ([[P1 _] (Sh1 & _)] & [P2 _] & Sh2 & _).
  destruct Hor as [-> | ->].
  - split; [exact (ItPos_elementary _ P1)|]. destruct Sh1 as (I1 & I2 & _ & I4 & I5 & _ & I7 & I8 & _). repeat split; assumption.
  - split; [exact (ItPos_elementary _ P2)|]. destruct Sh2 as (I1 & I2 & _ & I4 & I5 & _ & I7 & I8 & _). repeat split; assumption.
Qed.

(* the path of solve(): initial factorisation loop, initial point, main loop.  [st] is the state at the entry of the
   factorisation loop (entry iterate with s = z = 1, KKT object as left by kkt_init or by the scaling reset). *)
Theorem solve_path_interior fuel0 fuel st st2 st3 st4 :
  ItPos (st_it st) -> SZShape d (st_it st) -> KShape d (st_kkt st) -> KSign d (st_kkt st) ->
  InfPos (st_inf st) -> i_iter (st_inf st) = 0%Z ->
  init_factor K S d fault fuel0 st = Ok (st2, true) ->
  initial_point K S d cp (st2 <| st_inf := (st_inf st2) <| i_factor_retires := 0%Z |> |>) = Ok st3 ->
  main_loop K S d pc fault cp fuel st3 = Ok st4 ->
  Interior d st3 /\
  Positive st4 /\ ItShape d (st_it st4) /\ ((0 < nineq d)%nat -> 0 < i_mu (st_inf st4)).
Proof.
  intros HP HZ HK HS HI Hit E0 E1 E2.
  destruct (init_factor_ok K S d fault Hretry Hreglim Hepsabs fuel0 st st2 true E0 HP HZ HK HS HI)
    as (A1 & A2 & A3 & A4 & A5).
  apply (iterates_interior fuel (st2 <| st_inf := (st_inf st2) <| i_factor_retires := 0%Z |> |>) st3 st4); auto.
  cbn. rewrite A5. exact Hit.
Qed.

(* when the factorisation loop gives up (NUMERICS) the returned iterate is the entry iterate *)
Theorem solve_path_numerics_exit fuel0 st st2 :
  ItPos (st_it st) -> SZShape d (st_it st) -> KShape d (st_kkt st) -> KSign d (st_kkt st) -> InfPos (st_inf st) ->
  init_factor K S d fault fuel0 st = Ok (st2, false) -> st_it st2 = st_it st /\ ItPos (st_it st2).
Proof.
  intros HP HZ HK HS HI E0.
  destruct (init_factor_ok K S d fault Hretry Hreglim Hepsabs fuel0 st st2 false E0 HP HZ HK HS HI)
    as (_ & _ & _ & A4 & _).
  rewrite A4. auto.
Qed.
End C08.
