(* JunkAPIProofs.v -- C07, parts E-H: setup / update / solve and whole call histories do not depend on [junk]. *)
From PIQP Require Import Base Data Bounds PrecondDense KKTDense IPM API InteriorProofs IPMControlProofs
                         JunkProofs JunkShapeProofs.
From Coq Require Import Lia.
From RecordUpdate Require Import RecordSet.
Import RecordSetNotations.
Local Open Scope Qc_scope.

(* ================================================================================================ *)
(** * E. The solver object *)

(* RR_bind that keeps the equations of the two runs *)
Lemma RR_bind_eqn {A1 A2 B C} (Q : A1 -> A2 -> Prop) (R : B -> C -> Prop) e1 e2 f1 f2 :
  RR Q e1 e2 -> (forall a1 a2, e1 = Ok a1 -> e2 = Ok a2 -> Q a1 a2 -> RR R (f1 a1) (f2 a2)) ->
  RR R (bind e1 f1) (bind e2 f2).
Proof. destruct e1, e2; cbn; intros H1 H2; auto; contradiction. Qed.

(* the observable part of the solver object (everything but the KKT object) *)
Definition sv_obs_eq (a b : Solver) : Prop :=
  sv_set a = sv_set b /\ sv_data a = sv_data b /\ sv_pc a = sv_pc b /\
  sv_kkt_init_state a = sv_kkt_init_state b /\ sv_setup_done a = sv_setup_done b /\ sv_refine a = sv_refine b /\
  sv_info a = sv_info b /\ sv_out a = sv_out b /\ sv_calls a = sv_calls b.

(* all observable parts are equal and the KKT objects agree on everything but the tails of the box arrays *)
Definition sv_agree_strong (a b : Solver) : Prop :=
  sv_obs_eq a b /\ kkt_agree (sv_data a) (sv_kkt a) (sv_kkt b).

(* the invariant of call histories: between an update() and the next solve() the KKT matrix and the contents of the
   box arrays are not constrained (update_kkt inside update() may have read never-written slots); this is sound
   because update() clears kkt_init_state, so the next solve() starts with update_scalings *)
Definition sv_agree (a b : Solver) : Prop :=
  sv_obs_eq a b /\
  (if sv_kkt_init_state a then kkt_agree (sv_data a) (sv_kkt a) (sv_kkt b) else kkt_pend (sv_kkt a) (sv_kkt b)).

Lemma sv_agree_strong_agree a b : sv_agree_strong a b -> sv_agree a b.
Proof.
  intros [H1 H2]. split; [exact H1|]. destruct (sv_kkt_init_state a); [exact H2|]. eapply kkt_agree_pend; eauto.
Qed.

Lemma sv_agree_refl a : sv_agree a a.
Proof.
  split; [repeat split|]. destruct (sv_kkt_init_state a); [apply kkt_agree_refl|]. apply (kkt_agree_pend (sv_data a)), kkt_agree_refl.
Qed.

(* ---- setup ---- *)
Theorem setup_junk_indep K ident sq j1 j2 S n p m B :
  RR sv_agree_strong (setup K ident sq j1 S n p m B) (setup K ident sq j2 S n p m B).
Proof.
  unfold setup. destruct (b_P B) as [P|]; [|reflexivity]. destruct (b_c B) as [c|]; [|reflexivity].
  repeat rr_step.
  eapply RR_bind; [apply kkt_init_agree|].
  intros k1 k2 Hk. cbn. split; [repeat split|exact Hk].
Qed.

(* ---- restore_box_dual reads only the first n_lb / n_ub entries of its argument ---- *)
Lemma restore_one_prefix {A} (dflt : A) n (v1 v2 : list A) idx :
  length v1 = length v2 -> firstn (length idx) v1 = firstn (length idx) v2 ->
  restore_one dflt n v1 idx = restore_one dflt n v2 idx.
Proof. intros L E. unfold restore_one. rewrite L, E. reflexivity. Qed.

Definition pad (n : nat) (j : F) (v : Vec) : Vec := v ++ vconst (n - length v) j.

Lemma pad_length n j1 j2 v : length (pad n j1 v) = length (pad n j2 v).
Proof. unfold pad, vconst. rewrite !app_length, !repeat_length. reflexivity. Qed.
Lemma pad_firstn n j k v : (k <= length v)%nat -> firstn k (pad n j v) = firstn k v.
Proof.
  intros H. unfold pad. rewrite firstn_app. replace (k - length v)%nat with 0%nat by lia. cbn. apply app_nil_r.
Qed.

Lemma restore_pad {A} (f : Vec -> list A) (dflt : A) n j1 j2 v idx :
  (forall l, length (f l) = length l) -> (forall k l, firstn k (f l) = f (firstn k l)) ->
  (length idx <= length v)%nat ->
  restore_one dflt n (f (pad n j1 v)) idx = restore_one dflt n (f (pad n j2 v)) idx.
Proof.
  intros Hl Hf H. apply restore_one_prefix.
  - rewrite !Hl. apply pad_length.
  - rewrite !Hf, !pad_firstn by exact H. reflexivity.
Qed.

(* the six packed vectors handed to restore_box_dual cover the active prefix *)
Definition restore_ready (d : Data) (pc : Precond) (it : Iterate) : Prop :=
  (d_nlb d <= length (unscale_dual_lb pc (z_lb it)))%nat /\ (d_nub d <= length (unscale_dual_ub pc (z_ub it)))%nat /\
  (d_nlb d <= length (unscale_slack_lb pc (s_lb it)))%nat /\ (d_nub d <= length (unscale_slack_ub pc (s_ub it)))%nat /\
  (d_nlb d <= length (unscale_dual_lb pc (nu_lb it)))%nat /\ (d_nub d <= length (unscale_dual_ub pc (nu_ub it)))%nat.

Theorem unscale_and_restore_junk_indep j1 j2 sv1 sv2 it :
  sv_data sv1 = sv_data sv2 -> sv_pc sv1 = sv_pc sv2 -> restore_ready (sv_data sv1) (sv_pc sv1) it ->
  unscale_and_restore j1 sv1 it = unscale_and_restore j2 sv2 it.
Proof.
  intros Ed Ep (R1 & R2 & R3 & R4 & R5 & R6). unfold unscale_and_restore. rewrite <- Ed, <- Ep.
  cbv beta zeta. unfold d_nlb, d_nub in *.
  pose proof (fun v idx => restore_pad (fun l : Vec => l) 0 (d_n (sv_data sv1)) j1 j2 v idx
                             (fun l => eq_refl) (fun k l => eq_refl)) as P0.
  pose proof (fun v idx => restore_pad ext_of PInf (d_n (sv_data sv1)) j1 j2 v idx
                             (fun l => map_length Fin l) (fun k l => firstn_map Fin k l)) as P1.
  unfold pad in P0, P1. unfold Vec, F in *.
  cbv beta in P0.
  rewrite (P0 _ _ R1), (P0 _ _ R2), (P1 _ _ R3), (P1 _ _ R4), (P0 _ _ R5), (P0 _ _ R6).
  reflexivity.
Qed.

(* ---- shapes of the solver object that solve() relies on ---- *)
Definition PcBox (d : Data) (pc : Precond) : Prop :=
  (d_nlb d <= pc_nlb pc)%nat /\ (d_nlb d <= length (pc_delta_lb pc))%nat /\ (d_nlb d <= length (pc_delta_lb_inv pc))%nat /\
  (d_nub d <= pc_nub pc)%nat /\ (d_nub d <= length (pc_delta_ub pc))%nat /\ (d_nub d <= length (pc_delta_ub_inv pc))%nat.

Definition OutShape (d : Data) (o : ResultOut) : Prop :=
  length (o_nu o) = d_m d /\ (d_nlb d <= length (o_nu_lb o))%nat /\ (d_nub d <= length (o_nu_ub o))%nat.

Definition SolveShape (sv : Solver) : Prop :=
  DataShape (sv_data sv) /\ PcBox (sv_data sv) (sv_pc sv) /\ OutShape (sv_data sv) (sv_out sv) /\
  (sv_kkt_init_state sv = true -> KShape (sv_data sv) (sv_kkt sv)).

Lemma entry_iterate_shape d o : OutShape d o -> ItShape d (entry_iterate d o).
Proof.
  intros (O1 & O2 & O3). unfold ItShape, entry_iterate. cbn. unfold head. rewrite !vconst_length, !firstn_length_le by assumption.
  repeat split; auto.
Qed.

Lemma restore_ready_of_shape d pc it : PcBox d pc -> ItShape d it -> restore_ready d pc it.
Proof.
  intros (P1 & P2 & P3 & P4 & P5 & P6) (I1 & I2 & I3 & I4 & I5 & I6 & I7 & I8 & I9).
  unfold restore_ready, unscale_dual_lb, unscale_dual_ub, unscale_slack_lb, unscale_slack_ub, head, vmul.
  rewrite !vmap2_length, !vscale_length, !firstn_length. lia.
Qed.

(* ---- solve ---- *)
Section SolveIndep.
Variable K : Consts.
Variable cp_bits : Z.
Variable fault : nat -> bool.

Lemma do_update_scalings_pend d it inf k1 k2 rf rs c :
  kkt_pend k1 k2 -> ItShape d it ->
  RR (st_agree d) (do_update_scalings d (mkSt it inf k1 rf rs c)) (do_update_scalings d (mkSt it inf k2 rf rs c)).
Proof.
  intros Hk (I1 & I2 & I3 & I4 & I5 & I6 & I7 & I8 & I9). unfold do_update_scalings. cbn [st_it st_inf st_kkt].
  eapply RR_bind.
  - apply kkt_update_scalings_pend; [exact Hk|lia|lia|lia|lia].
  - intros k1' k2' Hk'. cbn. repeat split; apply Hk'.
Qed.

Definition solve_rel (x y : Solver * Status) : Prop := sv_agree_strong (fst x) (fst y) /\ snd x = snd y.

(* the last step of solve(): unscale, restore, store *)
Lemma fin_agree j1 j2 (a b : Solver) (st st' : St) :
  sv_obs_eq a b -> st_agree (sv_data a) st st' -> PcBox (sv_data a) (sv_pc a) -> ItShape (sv_data a) (st_it st) ->
  RR solve_rel
     (do out <- unscale_and_restore j1 a (st_it st) ;;
      Ok (a <| sv_kkt := st_kkt st |> <| sv_kkt_init_state := false |> <| sv_refine := st_refine st |>
            <| sv_info := st_inf st |> <| sv_out := out |> <| sv_calls := st_calls st |>, i_status (st_inf st)))
     (do out <- unscale_and_restore j2 b (st_it st') ;;
      Ok (b <| sv_kkt := st_kkt st' |> <| sv_kkt_init_state := false |> <| sv_refine := st_refine st' |>
            <| sv_info := st_inf st' |> <| sv_out := out |> <| sv_calls := st_calls st' |>, i_status (st_inf st'))).
Proof.
  intros (O1 & O2 & O3 & O4 & O5 & O6 & O7 & O8 & O9) H HP HI.
  destruct H as (A1 & A2 & A3 & A4 & A5 & A6). rewrite <- A1, <- A2, <- A3, <- A5.
  rewrite (unscale_and_restore_junk_indep j1 j2 a b (st_it st) O2 O3 (restore_ready_of_shape _ _ _ HP HI)).
  apply RR_bind_same. intros out. cbn.
  split; [|reflexivity]. split; [repeat split; assumption|exact A6].
Qed.

Theorem solve_junk_indep j1 j2 a b :
  sv_agree a b -> SolveShape a ->
  RR solve_rel (solve K j1 cp_bits fault a) (solve K j2 cp_bits fault b).
Proof.
  intros [Hobs Hk] (HD & HP & HO & HKs).
  pose proof Hobs as (O1 & O2 & O3 & O4 & O5 & O6 & O7 & O8 & O9).
  cbv delta [solve]. cbv beta. rewrite <- O1, <- O2, <- O3, <- O4, <- O6, <- O7, <- O8, <- O9.
  set (S := sv_set a) in *. set (d := sv_data a) in *. set (pc := sv_pc a) in *.
  cbv zeta.
  match goal with |- RR _ (bind ?e1 _) (bind ?e2 _) => set (E1 := e1); set (E2 := e2) end.
  pose proof (entry_iterate_shape d (sv_out a) HO) as HI0.
  assert (H1 : RR (st_agree d) E1 E2).
  { subst E1 E2. destruct (sv_kkt_init_state a).
    - cbn. repeat split; apply Hk.
    - apply do_update_scalings_pend; assumption. }
  assert (U1 : forall st1, E1 = Ok st1 ->
            st_it st1 = entry_iterate d (sv_out a) /\ KShape d (st_kkt st1) /\ i_iter (st_inf st1) = 0%Z).
  { subst E1. intros st1 E. destruct (sv_kkt_init_state a).
    - injection E as <-. cbn. auto.
    - apply do_update_scalings_keeps in E. cbn in E. destruct E as (B1 & B2 & _ & B4).
      rewrite B1, B2. cbn. auto. }
  clearbody E1 E2.
  eapply RR_bind_eqn; [exact H1|]. intros st1 st1' Est1 _ Hst1. destruct (U1 st1 Est1) as (V1 & V2 & V3).
  eapply RR_bind_eqn; [apply init_factor_agree; exact Hst1|].
  intros [st2 ok] [st2' ok'] Est2 _ [Hst2 Eok]. cbn [fst snd] in Hst2, Eok. subst ok'.
  destruct (init_factor_shape K S d fault _ _ _ _ Est2 ltac:(rewrite V1; exact HI0) V2) as (W1 & W2 & W3).
  destruct ok; cbn [negb]; cbv iota.
  - eapply RR_bind_eqn.
    { apply initial_point_agree. destruct Hst2 as (A1 & A2 & A3 & A4 & A5 & A6).
      repeat split; cbn; try assumption; try apply A6. rewrite A2. reflexivity. }
    intros st3 st3' Est3 _ Hst3.
    pose proof (initial_point_shape K S d (round_cp cp_bits) HD _ _ Est3 W2) as X1.
    pose proof (initial_point_iter K S d (round_cp cp_bits) _ _ Est3) as X2. cbn in X2.
    eapply RR_bind_eqn; [apply main_loop_agree; exact Hst3|].
    intros st4 st4' Est4 _ Hst4.
    assert (X4 : ItShape d (st_it st4)).
    { eapply (main_loop_shape K S d pc fault (round_cp cp_bits) HD); [|exact Est4].
      split; [exact X1|left]. rewrite X2, W3. exact V3. }
    apply fin_agree; assumption.
  - apply fin_agree; try assumption. rewrite W1, V1. exact HI0.
Qed.

End SolveIndep.

(* ---- update ---- *)
Section UpdateIndep.
Variable K : Consts.
Variable sq : bool.          (* sparse_pc of API.v *)

(* the block replacement of DenseSolver::update (on unscaled data) *)
Definition replace_blocks (d0 : Data) (B : Blocks) : Data :=
  let d1 := match b_P B with Some P => (d0 <| d_P := upper_tri P |>) | None => d0 end in
  let d2 := match b_A B with Some A => (d1 <| d_AT := mtranspose (d_p d0) A |>) | None => d1 end in
  let d3 := match b_G B with Some G => (d2 <| d_GT := mtranspose (d_m d0) G |>) | None => d2 end in
  let d4 := match b_c B with Some c => (d3 <| d_c := c |>) | None => d3 end in
  let d5 := match b_b B with Some b => (d4 <| d_b := b |>) | None => d4 end in
  let d6 := match b_h B with
            | Some h => let '(GT, hv) := disable_inf (k_inf K) (d_GT d5) h in (d5 <| d_GT := GT |> <| d_h := hv |>)
            | None => d5 end in
  let d7 := match b_lb B with
            | Some l => let '(v, ix) := pack_lb (k_inf K) 0 l in (d6 <| d_lb_n := v |> <| d_lb_idx := ix |>)
            | None => d6 end in
  match b_ub B with
  | Some l => let '(v, ix) := pack_ub (k_inf K) 0 l in (d7 <| d_ub := v |> <| d_ub_idx := ix |>)
  | None => d7 end.

(* the part of DenseSolver::update before the KKT object is touched: unscale, replace blocks, rescale *)
Definition update_data (sv : Solver) (B : Blocks) (reuse : bool) : res (Precond * Data) :=
  let S := sv_set sv in
  do d0 <- unscale_data (sv_pc sv) (sv_data sv) ;;
  scale_data K sq (sv_pc sv) (replace_blocks d0 B) reuse (preconditioner_scale_cost S) (preconditioner_iter S).

Definition opt_flag {A} (o : option A) (reuse : bool) : bool := (match o with Some _ => true | None => false end) || negb reuse.

Lemma update_split sv B reuse :
  update K sq sv B reuse =
  do '(pc, d) <- update_data sv B reuse ;;
  do k <- kkt_update_data d (sv_kkt sv) (opt_flag (b_P B) reuse) (opt_flag (b_A B) reuse) (opt_flag (b_G B) reuse) ;;
  Ok (sv <| sv_data := d |> <| sv_pc := pc |> <| sv_kkt := k |> <| sv_kkt_init_state := false |>).
Proof.
  unfold update, update_data, replace_blocks. destruct (unscale_data (sv_pc sv) (sv_data sv)); reflexivity.
Qed.

Lemma update_data_obs a b B reuse : sv_obs_eq a b -> update_data a B reuse = update_data b B reuse.
Proof. intros (O1 & O2 & O3 & _). unfold update_data. rewrite O1, O2, O3. reflexivity. Qed.

Lemma kkt_update_data_pend d k1 k2 oP oA oG k1' k2' :
  kkt_pend k1 k2 -> kkt_update_data d k1 oP oA oG = Ok k1' -> kkt_update_data d k2 oP oA oG = Ok k2' ->
  kkt_pend k1' k2'.
Proof.
  unfold kkt_update_data. intros H E1 E2.
  set (c := (oA && Nat.ltb 0 (d_p d))%bool) in *.
  assert (H' : kkt_pend (if c then k1 <| k_ATA := compute_ATA d |> else k1)
                        (if c then k2 <| k_ATA := compute_ATA d |> else k2)).
  { destruct c; [|exact H]. destruct H as (H1 & H2 & H3 & H4 & H5 & H6 & B1 & B2 & B3 & B4).
    unfold kkt_pend. cbn. repeat split; assumption. }
  destruct (oP || oA || oG).
  - apply update_kkt_keeps in E1, E2. destruct E1 as [r1 ->]. destruct E2 as [r2 ->].
    destruct H' as (H1 & H2 & H3 & H4 & H5 & H6 & B1 & B2 & B3 & B4). unfold kkt_pend. cbn. repeat split; assumption.
  - injection E1 as <-. injection E2 as <-. exact H'.
Qed.

Lemma sv_agree_pend a b : sv_agree a b -> kkt_pend (sv_kkt a) (sv_kkt b).
Proof. intros [_ H]. destruct (sv_kkt_init_state a); [eapply kkt_agree_pend; eauto|exact H]. Qed.

(* whenever update() returns in both runs, the results agree *)
Theorem update_agree_ok a b B reuse a' b' :
  sv_agree a b -> update K sq a B reuse = Ok a' -> update K sq b B reuse = Ok b' -> sv_agree a' b'.
Proof.
  intros H. pose proof (sv_agree_pend _ _ H) as Hp. destruct H as [Hobs _].
  rewrite !update_split, <- (update_data_obs a b B reuse Hobs).
  destruct (update_data a B reuse) as [[pc d]|]; cbn [bind]; [|discriminate].
  destruct (kkt_update_data d (sv_kkt a) _ _ _) as [k1|] eqn:E1; cbn [bind]; [|discriminate].
  destruct (kkt_update_data d (sv_kkt b) _ _ _) as [k2|] eqn:E2; cbn [bind]; [|discriminate].
  intros [= <-] [= <-].
  destruct Hobs as (O1 & O2 & O3 & O4 & O5 & O6 & O7 & O8 & O9).
  split; [repeat split; cbn; assumption|]. cbn.
  eapply kkt_update_data_pend; eauto.
Qed.

(* the two runs of update() can differ only in whether the KKT rebuild (update_kkt on the NEW bound pattern) fails *)
Theorem update_junk_indep_cond a b B reuse :
  sv_agree a b ->
  (forall pc d, update_data a B reuse = Ok (pc, d) ->
     RR (fun _ _ => True)
        (kkt_update_data d (sv_kkt a) (opt_flag (b_P B) reuse) (opt_flag (b_A B) reuse) (opt_flag (b_G B) reuse))
        (kkt_update_data d (sv_kkt b) (opt_flag (b_P B) reuse) (opt_flag (b_A B) reuse) (opt_flag (b_G B) reuse))) ->
  RR sv_agree (update K sq a B reuse) (update K sq b B reuse).
Proof.
  intros H Hc. pose proof (sv_agree_pend _ _ H) as Hp. pose proof H as [Hobs _].
  rewrite !update_split, <- (update_data_obs a b B reuse Hobs).
  destruct (update_data a B reuse) as [[pc d]|]; cbn [bind]; [|reflexivity].
  specialize (Hc pc d eq_refl).
  destruct (kkt_update_data d (sv_kkt a) _ _ _) as [k1|] eqn:E1;
    destruct (kkt_update_data d (sv_kkt b) _ _ _) as [k2|] eqn:E2; cbn in Hc; try contradiction; cbn [bind].
  - cbn. destruct Hobs as (O1 & O2 & O3 & O4 & O5 & O6 & O7 & O8 & O9).
    split; [repeat split; cbn; assumption|]. cbn. eapply kkt_update_data_pend; eauto.
  - exact Hc.
Qed.

(* a sufficient condition: the update comes right after setup() or solve() (the KKT objects agree on the active
   prefix of the OLD pattern) and the new pattern is not larger than the old one *)
Lemma box_agree_le {A} n n' (a b : list A) : (n' <= n)%nat -> box_agree n a b -> box_agree n' a b.
Proof.
  intros H [L E]. split; [exact L|].
  replace (firstn n' a) with (firstn n' (firstn n a)) by (rewrite firstn_firstn; f_equal; lia).
  replace (firstn n' b) with (firstn n' (firstn n b)) by (rewrite firstn_firstn; f_equal; lia).
  rewrite E. reflexivity.
Qed.

Theorem update_junk_indep_no_growth a b B reuse :
  sv_agree_strong a b ->
  (forall pc d, update_data a B reuse = Ok (pc, d) ->
     (d_nlb d <= d_nlb (sv_data a))%nat /\ (d_nub d <= d_nub (sv_data a))%nat) ->
  RR sv_agree (update K sq a B reuse) (update K sq b B reuse).
Proof.
  intros H Hn. apply update_junk_indep_cond; [apply sv_agree_strong_agree; exact H|].
  intros pc d E. destruct (Hn pc d E) as [N1 N2]. destruct H as [_ [H _]].
  eapply RR_weaken; [|apply kkt_update_data_agree]; [auto|].
  destruct H as (H1 & H2 & H3 & H4 & H5 & H6 & B1 & B2 & B3 & B4).
  repeat split; try assumption; try (eapply box_agree_le; [|eassumption]; assumption);
    apply B1 || apply B2 || apply B3 || apply B4.
Qed.

End UpdateIndep.
