(* Properties_C10.v -- the answer does not depend on the storage of P (dense model); backend agreement rests on C13 *)
From PIQP Require Import Base Data API StorageProofs.
From PIQP.gen Require Import Consts.
Local Open Scope Qc_scope.

(* setup() reads only the upper triangle of P: any two P with equal upper triangles (arbitrary lower triangles) give the
   same solver object, hence the same results for every later call history *)
Theorem C10_setup_reads_upper_only : forall K ident spc junk S n p m B P Q,
  same_upper P Q -> setup K ident spc junk S n p m (with_P B P) = setup K ident spc junk S n p m (with_P B Q).
Proof. exact setup_reads_upper_only. Qed.
Print Assumptions C10_setup_reads_upper_only.

Theorem C10_update_reads_upper_only : forall K spc sv B P Q reuse,
  same_upper P Q -> update K spc sv (with_P B P) reuse = update K spc sv (with_P B Q) reuse.
Proof. exact update_reads_upper_only. Qed.
Print Assumptions C10_update_reads_upper_only.

(* non-vacuity: a full symmetric P and "upper + garbage in the lower triangle" are same_upper and differ *)
Example C10_ex_same_upper :
  let P := [[qmk 2 1; qmk 1 1]; [qmk 1 1; qmk 3 1]] in
  let Q := [[qmk 2 1; qmk 77 1]; [qmk 1 1; qmk 3 1]] in
  same_upper P Q /\ P <> Q.
Proof.
  cbv zeta. split.
  - split; [split; [reflexivity|]|].
    + intros j Hj. destruct j as [|[|j]]; cbn in *; try reflexivity; lia.
    + intros i j Hj Hi Hij. destruct j as [|[|j]]; cbn in Hj; try lia; destruct i as [|[|i]]; cbn in *; try reflexivity; lia.
  - intro H. discriminate H.
Qed.
