(* Properties_C02.v -- C02 "Well-posed problems are solved by every backend", part T1 `convex_never_numerics` for the
   DENSE back end (model KKTDense.v / IPM.v), exact arithmetic (Qc), all sizes:
   on a convex problem (P positive semidefinite) with rho, delta > 0 and positive slack / multiplier scalings the
   reduced KKT matrix is positive definite, the exact LLT factorisation succeeds, regularize_and_factorize reports
   success (with or without the static regularisation of the refinement mode), so with a never-failing fault oracle
   the refinement flag is not switched on and PIQP_NUMERICS is not produced by init_factor / by a pass of the main loop.
   Statements only; proofs in PDProofs.v (which builds on LinAlg.v, LLTProofs.v, KKTProofs.v).
   Definitions used in the statements (PDProofs.v unless noted):
     quad_form n K x     sum_{i<n} sum_{j<n} K i j * x i * x j            (x : nat -> Qc, `sum` of LinAlg.v)
     pos_def n K         forall x, (exists i < n, x i <> 0) -> 0 < quad_form n K x
     pos_def_vec n K     the same for lists x of length n;  pos_semidef n K : forall x, 0 <= quad_form n K x
     Asym rows i j       entry of the symmetric matrix given by a lower-triangular row list (LLTProofs.v)
     P_psd d             pos_semidef (d_n d) (fPsym d), fPsym = symmetric completion of the upper triangle of d_P
     Kred_of d k         P + rho I + box diagonal + G^T W G + (1/delta) A^T A as a function (KKTProofs.v)
     wf_data, wf_scal, pos_scal   as in Properties_C13.v (KKTProofs.v)
     kkt_pd k            wf_lower (k_mat k) and pos_def (length (k_mat k)) (Asym (k_mat k))
     kkt_shape d kk      the four box vectors of the KKT state have length >= n_lb / n_ub, k_ATA = compute_ATA d if p > 0
     iter_pos d s s_lb s_ub z z_lb z_ub   |s| = |z| = m, entries > 0; box blocks: length >= n_lb / n_ub, active prefix > 0

   NOT PROVED (and no axiom is introduced for it):  `solves_W_partial` -- the convergence claim of C02, "for every
   problem of the well-posed class W (P >= mu I, mu >= 1e-2, Slater point with margin, rank A = p, entries O(1),
   n <= 60, m <= 80) solve() returns PIQP_SOLVED within max_iter = 250 iterations, in every back end and setting".
   No proof is known for Mehrotra's predictor-corrector with this proximal regularisation schedule; that part of C02
   is decided by exploration (class-W generator x back ends x settings on the real code), not by a theorem.
   Also not stated here: the whole-loop version of "refinement is never switched on" needs the interior-point
   invariant (s, z, rho, delta > 0 preserved by a pass; C02-T3 / C08), which is the subject of InteriorProofs.v;
   the pass-level theorems below take that invariant (iter_pos, 0 < rho, 0 < delta) as hypothesis. *)
From PIQP Require Import Base Data Bounds PrecondDense KKTDense IPM LinAlg LLTProofs KKTProofs PDProofs.
From RecordUpdate Require Import RecordSet.
Import RecordSetNotations.
Local Open Scope Qc_scope.

(* ---------------------------------------------------------------- (1) positive definite <=> the LLT oracle succeeds *)
Theorem C02_pd_implies_llt_success : forall rows : list Vec,
  wf_lower rows -> pos_def (length rows) (Asym rows) -> exists f, llt_compute rows = Ok (Some f).
Proof. exact pd_implies_llt_success. Qed.
Print Assumptions C02_pd_implies_llt_success.

Theorem C02_pd_vec_implies_llt_success : forall rows : list Vec,
  wf_lower rows ->
  (forall x : Vec, length x = length rows -> (exists i, nth i x 0 <> 0) ->
     0 < sum (length rows) (fun i => sum (length rows) (fun j => Asym rows i j * nth i x 0 * nth j x 0))) ->
  exists f, llt_compute rows = Ok (Some f).
Proof. exact pd_vec_implies_llt_success. Qed.
Print Assumptions C02_pd_vec_implies_llt_success.

Theorem C02_llt_success_implies_pd : forall (rows : list Vec) (f : Fact),
  wf_lower rows -> llt_compute rows = Ok (Some f) -> pos_def (length rows) (Asym rows).
Proof. exact llt_success_implies_pd. Qed.
Print Assumptions C02_llt_success_implies_pd.

(* ---------------------------------------------------------------- (2) K_red is positive definite on convex problems *)
Theorem C02_a_Kred_pos_def : forall Y : L2sys,
  0 < y_rho Y -> 0 < y_delta Y ->
  (forall l, (l < y_m Y)%nat -> 0 < y_s Y l /\ 0 < y_zinv Y l) ->
  (forall k, (k < y_nlb Y)%nat -> 0 < y_slb Y k /\ 0 < y_zli Y k) ->
  (forall k, (k < y_nub Y)%nat -> 0 < y_sub Y k /\ 0 < y_zui Y k) ->
  pos_semidef (y_n Y) (y_Psym Y) ->
  pos_def (y_n Y) (a_Kred Y).
Proof. exact a_Kred_pos_def. Qed.
Print Assumptions C02_a_Kred_pos_def.

Theorem C02_Kred_pd_when_convex : forall (d : Data) (k0 : KKT),
  0 < k_rho k0 -> pos_scal d k0 -> P_psd d -> pos_def (d_n d) (Kred_of d k0).
Proof. exact Kred_pd_when_convex. Qed.
Print Assumptions C02_Kred_pd_when_convex.

Theorem C02_kmat_pd_when_convex : forall (d : Data) (k0 k : KKT),
  wf_data d -> wf_scal d k0 -> ((0 < d_p d)%nat -> k_ATA k0 = compute_ATA d) ->
  0 < k_rho k0 -> pos_scal d k0 -> P_psd d ->
  update_kkt d k0 = Ok k ->
  length (k_mat k) = d_n d /\ wf_lower (k_mat k) /\ pos_def (d_n d) (Asym (k_mat k)).
Proof. exact kmat_pd_when_convex. Qed.
Print Assumptions C02_kmat_pd_when_convex.

(* ---------------------------------------------------------------- (3) the factorisation never fails *)
Theorem C02_convex_never_numerics_dense : forall (SS : Settings) (d : Data) (k0 k : KKT) (refine : bool),
  wf_data d -> wf_scal d k0 -> ((0 < d_p d)%nat -> k_ATA k0 = compute_ATA d) ->
  0 < k_rho k0 -> pos_scal d k0 -> P_psd d ->
  update_kkt d k0 = Ok k ->
  exists f, regularize_and_factorize SS d k refine false = Ok (k <| k_fact := Some f |>, true).
Proof. exact convex_never_numerics_dense. Qed.
Print Assumptions C02_convex_never_numerics_dense.

Theorem C02_regularize_and_factorize_pd : forall (SS : Settings) (d : Data) (k : KKT) (refine : bool),
  kkt_pd k -> exists f, regularize_and_factorize SS d k refine false = Ok (k <| k_fact := Some f |>, true).
Proof. exact regularize_and_factorize_pd. Qed.
Print Assumptions C02_regularize_and_factorize_pd.

(* refreshing the scalings of an interior iterate yields a positive definite matrix again *)
Theorem C02_kkt_update_scalings_pd : forall (d : Data) (kk : KKT) (rho delta : F) (s s_lb s_ub z z_lb z_ub : Vec) (k : KKT),
  wf_data d -> P_psd d -> kkt_shape d kk -> 0 < rho -> 0 < delta ->
  iter_pos d s s_lb s_ub z z_lb z_ub ->
  kkt_update_scalings d kk rho delta s s_lb s_ub z z_lb z_ub = Ok k ->
  kkt_pd k /\ kkt_shape d k.
Proof. exact kkt_update_scalings_pd. Qed.
Print Assumptions C02_kkt_update_scalings_pd.

(* initial factorisation (fault oracle never fails): success at the first attempt; refinement flag, Info (hence
   status and factor_retires) and iterate untouched *)
Theorem C02_init_factor_convex : forall (K : Consts) (SS : Settings) (d : Data) (fuel : nat) (st : St),
  kkt_pd (st_kkt st) ->
  exists st1, init_factor K SS d (fun _ => false) (Datatypes.S fuel) st = Ok (st1, true) /\
              st_refine st1 = st_refine st /\ st_inf st1 = st_inf st /\ st_it st1 = st_it st.
Proof. exact init_factor_convex. Qed.
Print Assumptions C02_init_factor_convex.

(* update_scalings; factorize -- the pair executed by every pass of the main loop *)
Theorem C02_update_then_factorize_convex : forall (SS : Settings) (d : Data) (st st4 : St),
  wf_data d -> P_psd d -> kkt_shape d (st_kkt st) ->
  0 < i_rho (st_inf st) -> 0 < i_delta (st_inf st) ->
  iter_pos d (s (st_it st)) (s_lb (st_it st)) (s_ub (st_it st)) (z (st_it st)) (z_lb (st_it st)) (z_ub (st_it st)) ->
  do_update_scalings d st = Ok st4 ->
  kkt_pd (st_kkt st4) /\ kkt_shape d (st_kkt st4) /\
  exists st5, do_factorize SS d (fun _ => false) st4 = Ok (st5, true) /\
              st_refine st5 = st_refine st /\ st_inf st5 = st_inf st /\ st_it st5 = st_it st /\
              kkt_shape d (st_kkt st5).
Proof. exact update_then_factorize_convex. Qed.
Print Assumptions C02_update_then_factorize_convex.

(* one pass of the main loop from an interior state of a convex problem: NUMERICS is not produced and the
   refinement flag is not changed *)
Theorem C02_loop_pass_never_numerics : forall (K : Consts) (SS : Settings) (d : Data) (pc : Precond) (cp : F -> F)
    (st : St) (o : Outcome),
  wf_data d -> P_psd d -> 0 <= k_eps K -> kkt_shape d (st_kkt st) ->
  0 < i_rho (st_inf st) -> 0 < i_delta (st_inf st) ->
  iter_pos d (s (st_it st)) (s_lb (st_it st)) (s_ub (st_it st)) (z (st_it st)) (z_lb (st_it st)) (z_ub (st_it st)) ->
  loop_pass K SS d pc (fun _ => false) cp st = Ok o ->
  match o with
  | Stop st' => i_status (st_inf st') <> NUMERICS
  | Continue st' => st_refine st' = st_refine st
  end.
Proof. exact loop_pass_never_numerics. Qed.
Print Assumptions C02_loop_pass_never_numerics.

(* ---------------------------------------------------------------- non-vacuity *)
Example C02_ex_convex_factorizes : forall (SS : Settings) (refine : bool),
  wf_data ex_d /\ wf_scal ex_d ex_k0 /\ pos_scal ex_d ex_k0 /\ 0 < k_rho ex_k0 /\ P_psd ex_d /\
  exists k f, update_kkt ex_d ex_k0 = Ok k /\
              regularize_and_factorize SS ex_d k refine false = Ok (k <| k_fact := Some f |>, true).
Proof. exact ex_convex_factorizes. Qed.
Print Assumptions C02_ex_convex_factorizes.

Example C02_ex_convex_factorizes_eval :
  match update_kkt ex_d ex_k0 with
  | Ok k => match llt_compute (k_mat k) with Ok (Some _) => true | _ => false end
  | Err _ => false
  end = true.
Proof. exact ex_convex_factorizes_eval. Qed.
Print Assumptions C02_ex_convex_factorizes_eval.

(* P = [[-1]], rho = 1/2: every other hypothesis holds, P is not psd, and the factorisation reports failure *)
Example C02_ex_nonconvex_fails :
  ~ P_psd ex_d_nc /\
  wf_data ex_d_nc /\ wf_scal ex_d_nc ex_k0_nc /\ pos_scal ex_d_nc ex_k0_nc /\ 0 < k_rho ex_k0_nc /\
  exists k, update_kkt ex_d_nc ex_k0_nc = Ok k /\ llt_compute (k_mat k) = Ok None.
Proof. exact ex_nonconvex_fails. Qed.
Print Assumptions C02_ex_nonconvex_fails.
