(* Properties_C13_refine_total.v -- C13, iterative refinement in the sparse back end (model KKTSparseRefine.v, tied to
   include/piqp/sparse/kkt.hpp by tools/kktrefine_stage.py), second part (first part: Properties_C13_refine.v):
   (1) TOTALITY.  On the states the assembly code reaches (the conclusions of the assembly theorems: PKPt well formed, square,
       upper triangular, every column stores its diagonal entry LAST; the ordering object a permutation with its inverse) and with
       an LDL^T object that the symbolic phase or an earlier factorisation left (reusable), regularize_kkt, the regularisation
       parameter, regularize_and_factorize(refine) and -- after a reported success -- solve(.., refine') return Ok: no index
       error, no shape error, no division by zero.  This makes the "if the run returns Ok" theorems of Properties_C13_refine.v
       unconditional.  Four modes with the identity ordering (C13_refine_total_full / _eq / _ineq / _all), KKT_FULL also under any
       fill-reducing ordering (C13_refine_total_full_perm, through C13_perm_addr_ok).
   (2) COMPOSITION with the exact sparse LDL^T (C13_sparse_refactor): the first candidate solves the REGULARISED system exactly,
       hence its residual in the unregularised permuted system is the diagonal perturbation applied to it
       (C13_refine_first_residual); with reg <= rho and reg <= delta it is zero and refinement returns the first candidate for every
       non-negative tolerance (C13_refine_noop_when_reg_small); end to end for a mode (C13_refine_end_to_end_partial) and on a
       KKT_FULL fresh_form state (C13_refine_full_end_to_end_partial).
   Vocabulary: kkt_addr_ok N o K = wf_csc K, nrows K = ncols K = N, diag_is_last K, ord_ok N o;  delta_ok md c = (sc_delta c <> 0 in
   the modes that eliminate the equality block, which divide by delta);  reusable K st (KKTSparseRefactorProofs.v);  ldl_solves
   (KKTSparseSolveProofs.v);  kkt_rhs_perm / kkt_recover (KKTSparseRefineProofs.v);  the rest as in Properties_C13_refine.v and
   Properties_C13_solve.v.
   _partial / NOT proved: the end-to-end statements bound the residual of the PERMUTED REDUCED system (kres_norm K rp sol), not the
   residual of the un-eliminated 8-block system after recovery (for KKT_FULL the two differ by the un-permutation and the exact
   recovery of the five bound / slack blocks, which is not stated); nodup_cols of the stored matrix stays a hypothesis as in
   Properties_C13_solve.v; permuted orderings for the three eliminated modes are covered by the generic C13_refine_total only
   (kkt_addr_ok as hypothesis), not instantiated. *)
From PIQP Require Import Base CSC CSCProofs LDLSparse LinAlg LDLValuesFinalProofs KKTSparseFull KKTSparseFullProofs KKTSparseFullPerm KKTSparseFullPermProofs
  KKTSparseAll KKTSparseAllProofs KKTSparseEq KKTSparseIneq KKTSparseEqProofs KKTSparseIneqProofs
  KKTSparseSolve KKTSparseSolveProofs KKTSparseRefactorProofs
  KKTSparseRefine KKTSparseRefineProofs KKTSparseRefineTotalProofs KKTSparseRefineModesProofs.
Local Open Scope Qc_scope.

(* ===== totality of the regularisation ===== *)
Theorem C13_refine_regularize_total : forall (N : nat) (o : ordering) (K : csc F), kkt_addr_ok N o K ->
  forall (n : nat) (rho delta reg : F) (kd0 : Vec), (n <= N)%nat -> length kd0 = N ->
  exists Kr kd, kkt_regularize n N (oPinv o) rho delta reg K kd0 = Ok (Kr, kd) /\
    nrows Kr = nrows K /\ ncols Kr = ncols K /\ colptr Kr = colptr K /\ rowind Kr = rowind K /\ length (vals Kr) = length (vals K) /\
    (forall col, (col < N)%nat ->
       nth (dq (colptr K) (nth col (oPinv o) 0%nat)) (vals Kr) 0 =
       (nth (dq (colptr K) (nth col (oPinv o) 0%nat)) (vals K) 0 + (if (col <? n)%nat then qmax 0 (reg - rho) else - qmax 0 (reg - delta)))) /\
    (forall j, (forall c, (c < N)%nat -> j <> dq (colptr K) c) -> nth j (vals Kr) 0 = nth j (vals K) 0).
Proof. exact regularize_total. Qed.
Print Assumptions C13_refine_regularize_total.

Theorem C13_refine_reg_total : forall (rs : rset) (d : sdata) (c : scal), wf_sdata d -> solve_ok d c -> exists reg, kkt_reg rs d c = Ok reg.
Proof. exact kkt_reg_total. Qed.
Print Assumptions C13_refine_reg_total.

(* the numeric phase started from a reusable LDL^T object returns Ok whether or not it meets a zero pivot *)
Theorem C13_refine_numeric_total : forall (A : csc F) (st0 : ldl_i * ldl_v),
  wf_csc A = true -> ncols A = nrows A -> upper_only A = true -> nodup_cols A -> reusable A st0 ->
  exists r st, numeric A st0 = Ok (r, st).
Proof. exact numeric_total. Qed.
Print Assumptions C13_refine_numeric_total.

Theorem C13_refine_factorize_total : forall (rs : rset) (refine : bool) (md : kmode) (d : sdata) (c : scal) (o : ordering) (K : csc F) (st : ldl_i * ldl_v),
  wf_sdata d -> solve_ok d c -> kkt_addr_ok (mode_N md d) o K -> upper_only K = true -> nodup_cols K -> reusable K st ->
  exists ok st' Kr,
    kkt_factorize_r rs refine md d c o K st = Ok (ok, st', K) /\
    (if refine then exists reg kd, kkt_reg rs d c = Ok reg /\
                     kkt_regularize (sd_n d) (mode_N md d) (oPinv o) (sc_rho c) (sc_delta c) reg K (repeat 0 (mode_N md d)) = Ok (Kr, kd)
     else Kr = K) /\
    (ok = true -> ldl_solves Kr st' /\ reusable K st').
Proof. exact factorize_r_total. Qed.
Print Assumptions C13_refine_factorize_total.

(* solve with refinement returns Ok whenever the LDL^T object solves SOME matrix of the right size *)
Theorem C13_refine_solve_total : forall (rs : rset) (refine : bool) (md : kmode) (d : sdata) (c : scal) (o : ordering) (K Kf : csc F)
    (st : ldl_i * ldl_v) (r : step8),
  wf_sdata d -> solve_ok d c -> rhs_ok d r -> ord_ok (mode_N md d) o -> delta_ok md c ->
  nrows K = mode_N md d -> ncols K = mode_N md d ->
  ldl_solves Kf st -> nrows Kf = mode_N md d ->
  exists v, kkt_solve_r rs refine md d c o K st r = Ok v /\ step_ok d v.
Proof. exact solve_r_total. Qed.
Print Assumptions C13_refine_solve_total.

(* the two together, any mode, any ordering *)
Theorem C13_refine_total : forall (rs : rset) (refine : bool) (md : kmode) (d : sdata) (c : scal) (o : ordering) (K : csc F)
    (st : ldl_i * ldl_v) (r : step8),
  wf_sdata d -> solve_ok d c -> rhs_ok d r -> delta_ok md c ->
  kkt_addr_ok (mode_N md d) o K -> upper_only K = true -> nodup_cols K -> reusable K st ->
  exists ok st',
    kkt_factorize_r rs refine md d c o K st = Ok (ok, st', K) /\
    (ok = true -> reusable K st' /\ forall refine', exists v, kkt_solve_r rs refine' md d c o K st' r = Ok v /\ step_ok d v).
Proof. exact refine_total. Qed.
Print Assumptions C13_refine_total.

(* ===== ... on the states of the four assembly models ===== *)
Theorem C13_refine_total_full : forall (rs : rset) (refine : bool) (d : sdata) (c : scal) (k : skkt) (st : ldl_i * ldl_v) (r : step8),
  wf_sdata d -> upper_only (sd_P d) = true -> fresh_form d c k -> nodup_cols (fk_PKPt d k) ->
  solve_ok d c -> rhs_ok d r -> reusable (fk_PKPt d k) st ->
  let o := mkord (seq 0 (sd_n d + sd_p d + sd_m d)%nat) (fk_pinv k) in
  exists ok st',
    kkt_factorize_r rs refine MFull d (sv_sc (full_view d k)) o (sv_K (full_view d k)) st = Ok (ok, st', fk_PKPt d k) /\
    (ok = true -> reusable (fk_PKPt d k) st' /\
       forall refine', exists v, kkt_solve_r rs refine' MFull d (sv_sc (full_view d k)) o (sv_K (full_view d k)) st' r = Ok v /\ step_ok d v).
Proof. exact refine_total_full. Qed.
Print Assumptions C13_refine_total_full.

Theorem C13_refine_total_full_perm : forall (rs : rset) (refine : bool) (d : sdata) (c : scal) (perm : list nat) (kid kp : skkt)
    (st : ldl_i * ldl_v) (r : step8),
  wf_sdata d -> upper_only (sd_P d) = true -> fresh_form d c kid -> perm_img d perm kid kp ->
  perm_wf perm -> length perm = (sd_n d + sd_p d + sd_m d)%nat -> nodup_cols (fk_PKPt d kid) ->
  solve_ok d c -> rhs_ok d r -> reusable (fk_PKPt d kp) st ->
  exists o ok st', ordering_init perm = Ok o /\ oPinv o = fk_pinv kp /\
    kkt_factorize_r rs refine MFull d (sv_sc (full_view d kp)) o (sv_K (full_view d kp)) st = Ok (ok, st', fk_PKPt d kp) /\
    (ok = true -> reusable (fk_PKPt d kp) st' /\
       forall refine', exists v, kkt_solve_r rs refine' MFull d (sv_sc (full_view d kp)) o (sv_K (full_view d kp)) st' r = Ok v /\ step_ok d v).
Proof. exact refine_total_full_perm. Qed.
Print Assumptions C13_refine_total_full_perm.

Theorem C13_refine_total_eq : forall (rs : rset) (refine : bool) (d : sdata) (X : csc F) (c : scal) (k : ekkt) (st : ldl_i * ldl_v) (r : step8),
  elim_data_ok d (sd_GT d) -> eqF d X c k -> nodup_cols (sv_K (eq_view d k)) ->
  solve_ok d c -> sc_delta c <> 0 -> rhs_ok d r -> reusable (sv_K (eq_view d k)) st ->
  let o := mkord (seq 0 (sd_n d + sd_m d)%nat) (ek_pinv k) in
  exists ok st',
    kkt_factorize_r rs refine MEq d (sv_sc (eq_view d k)) o (sv_K (eq_view d k)) st = Ok (ok, st', sv_K (eq_view d k)) /\
    (ok = true -> reusable (sv_K (eq_view d k)) st' /\
       forall refine', exists v, kkt_solve_r rs refine' MEq d (sv_sc (eq_view d k)) o (sv_K (eq_view d k)) st' r = Ok v /\ step_ok d v).
Proof. exact refine_total_eq. Qed.
Print Assumptions C13_refine_total_eq.

Theorem C13_refine_total_ineq : forall (rs : rset) (refine : bool) (d : sdata) (X : csc F) (c : scal) (k : ekkt) (st : ldl_i * ldl_v) (r : step8),
  elim_data_ok d (sd_AT d) -> ineqF d X c k -> nodup_cols (sv_K (ineq_view d k)) ->
  solve_ok d c -> rhs_ok d r -> reusable (sv_K (ineq_view d k)) st ->
  let o := mkord (seq 0 (sd_n d + sd_p d)%nat) (ek_pinv k) in
  exists ok st',
    kkt_factorize_r rs refine MIneq d (sv_sc (ineq_view d k)) o (sv_K (ineq_view d k)) st = Ok (ok, st', sv_K (ineq_view d k)) /\
    (ok = true -> reusable (sv_K (ineq_view d k)) st' /\
       forall refine', exists v, kkt_solve_r rs refine' MIneq d (sv_sc (ineq_view d k)) o (sv_K (ineq_view d k)) st' r = Ok v /\ step_ok d v).
Proof. exact refine_total_ineq. Qed.
Print Assumptions C13_refine_total_ineq.

Theorem C13_refine_total_all : forall (rs : rset) (refine : bool) (d : sdata) (c : scal) (k : akkt) (st : ldl_i * ldl_v) (r : step8),
  wf_sdata d /\ upper_only (sd_P d) = true -> all_form d c k -> nodup_cols (sv_K (all_view d k)) ->
  solve_ok d c -> sc_delta c <> 0 -> rhs_ok d r -> reusable (sv_K (all_view d k)) st ->
  let o := mkord (seq 0 (sd_n d)) (ak_pinv k) in
  exists ok st',
    kkt_factorize_r rs refine MAll d (sv_sc (all_view d k)) o (sv_K (all_view d k)) st = Ok (ok, st', sv_K (all_view d k)) /\
    (ok = true -> reusable (sv_K (all_view d k)) st' /\
       forall refine', exists v, kkt_solve_r rs refine' MAll d (sv_sc (all_view d k)) o (sv_K (all_view d k)) st' r = Ok v /\ step_ok d v).
Proof. exact refine_total_all. Qed.
Print Assumptions C13_refine_total_all.

(* ===== composition with the exact factorisation ===== *)
(* the first candidate: exact solution of the regularised system; residual in the unregularised one = perturbation x candidate
   (row i of the permuted system belongs to the un-permuted column P[i]: + rho_reg when P[i] < n, - delta_reg otherwise) *)
Theorem C13_refine_first_residual : forall (N : nat) (o : ordering) (K : csc F) (n : nat) (rho delta reg : F) (kd0 : Vec) (Kr : csc F) (kd : Vec)
    (st : ldl_i * ldl_v) (rhs : Vec),
  kkt_addr_ok N o K -> (n <= N)%nat ->
  kkt_regularize n N (oPinv o) rho delta reg K kd0 = Ok (Kr, kd) ->
  ldl_solves Kr st -> length rhs = N ->
  exists x0, ldl_solve st rhs = Ok x0 /\ length x0 = N /\
    forall i, (i < N)%nat ->
      nth i (kresid K rhs x0) 0 = ((if (nth i (oP o) 0 <? n)%nat then qmax 0 (reg - rho) else - qmax 0 (reg - delta)) * nth i x0 0).
Proof. exact first_residual. Qed.
Print Assumptions C13_refine_first_residual.

Theorem C13_refine_noop_when_reg_small : forall (rs : rset) (refine : bool) (N : nat) (o : ordering) (K : csc F) (n : nat) (rho delta reg : F)
    (kd0 : Vec) (Kr : csc F) (kd : Vec) (st : ldl_i * ldl_v) (rhs : Vec),
  kkt_addr_ok N o K -> (n <= N)%nat ->
  kkt_regularize n N (oPinv o) rho delta reg K kd0 = Ok (Kr, kd) ->
  (reg <= rho) -> (reg <= delta) ->
  ldl_solves Kr st -> length rhs = N ->
  (0 <= rs_eps_abs rs + rs_eps_rel rs * norm_inf rhs) ->
  exists x0, ldl_solve st rhs = Ok x0 /\ kres_norm K rhs x0 = 0 /\ refined_solve rs refine K st rhs = Ok x0.
Proof. exact noop_when_reg_small. Qed.
Print Assumptions C13_refine_noop_when_reg_small.

(* end to end, any mode (permuted reduced system): after regularize_and_factorize(true) reported success *)
Theorem C13_refine_end_to_end_partial : forall (rs : rset) (md : kmode) (d : sdata) (c : scal) (o : ordering) (K : csc F)
    (st st' : ldl_i * ldl_v) (r : step8),
  wf_sdata d -> solve_ok d c -> rhs_ok d r -> delta_ok md c ->
  kkt_addr_ok (mode_N md d) o K -> upper_only K = true -> nodup_cols K -> reusable K st ->
  kkt_factorize_r rs true md d c o K st = Ok (true, st', K) ->
  exists reg dinv zbar rhs rp sol0 sol v,
    kkt_reg rs d c = Ok reg /\
    kkt_rhs_perm md d c o r = Ok (dinv, zbar, rhs, rp) /\ length rp = mode_N md d /\
    ldl_solve st' rp = Ok sol0 /\
    (forall i, (i < mode_N md d)%nat ->
       nth i (kresid K rp sol0) 0 =
       ((if (nth i (oP o) 0 <? sd_n d)%nat then qmax 0 (reg - sc_rho c) else - qmax 0 (reg - sc_delta c)) * nth i sol0 0)) /\
    refined_solve rs true K st' rp = Ok sol /\
    kkt_recover md d c o r dinv zbar rhs sol = Ok v /\
    kkt_solve_r rs true md d c o K st' r = Ok v /\ step_ok d v /\
    ((1 <= rs_min_rate rs) -> (kres_norm K rp sol <= kres_norm K rp sol0)) /\
    ((0 < rs_max_iter rs)%Z ->
     refine_stop rs K st' rp (norm_inf rp) (Z.to_nat (rs_max_iter rs)) sol0 (kresid K rp sol0) (norm_inf (kresid K rp sol0)) = Ok StopTol ->
     (kres_norm K rp sol <= rs_eps_abs rs + rs_eps_rel rs * norm_inf rp)) /\
    ((reg <= sc_rho c) -> (reg <= sc_delta c) -> (0 <= rs_eps_abs rs + rs_eps_rel rs * norm_inf rp) ->
     sol = sol0 /\ kres_norm K rp sol = 0).
Proof. exact refine_end_to_end. Qed.
Print Assumptions C13_refine_end_to_end_partial.

(* ... on a KKT_FULL fresh_form state (identity ordering: rows 0 .. n-1 get + rho_reg, the others - delta_reg) *)
Theorem C13_refine_full_end_to_end_partial : forall (rs : rset) (d : sdata) (c : scal) (k : skkt) (st st' : ldl_i * ldl_v) (r : step8),
  wf_sdata d -> upper_only (sd_P d) = true -> fresh_form d c k -> nodup_cols (fk_PKPt d k) ->
  solve_ok d c -> rhs_ok d r -> reusable (fk_PKPt d k) st ->
  let o := mkord (seq 0 (sd_n d + sd_p d + sd_m d)%nat) (fk_pinv k) in
  let K := fk_PKPt d k in
  kkt_factorize_r rs true MFull d c o K st = Ok (true, st', K) ->
  exists reg dinv zbar rhs rp sol0 sol v,
    kkt_reg rs d c = Ok reg /\
    kkt_rhs_perm MFull d c o r = Ok (dinv, zbar, rhs, rp) /\ length rp = (sd_n d + sd_p d + sd_m d)%nat /\
    ldl_solve st' rp = Ok sol0 /\
    (forall i, (i < sd_n d + sd_p d + sd_m d)%nat ->
       nth i (kresid K rp sol0) 0 =
       ((if (i <? sd_n d)%nat then qmax 0 (reg - sc_rho c) else - qmax 0 (reg - sc_delta c)) * nth i sol0 0)) /\
    refined_solve rs true K st' rp = Ok sol /\
    kkt_recover MFull d c o r dinv zbar rhs sol = Ok v /\
    kkt_solve_r rs true MFull d c o K st' r = Ok v /\ step_ok d v /\
    ((1 <= rs_min_rate rs) -> (kres_norm K rp sol <= kres_norm K rp sol0)) /\
    ((0 < rs_max_iter rs)%Z ->
     refine_stop rs K st' rp (norm_inf rp) (Z.to_nat (rs_max_iter rs)) sol0 (kresid K rp sol0) (norm_inf (kresid K rp sol0)) = Ok StopTol ->
     (kres_norm K rp sol <= rs_eps_abs rs + rs_eps_rel rs * norm_inf rp)) /\
    ((reg <= sc_rho c) -> (reg <= sc_delta c) -> (0 <= rs_eps_abs rs + rs_eps_rel rs * norm_inf rp) ->
     sol = sol0 /\ kres_norm K rp sol = 0).
Proof. exact refine_end_to_end_full. Qed.
Print Assumptions C13_refine_full_end_to_end_partial.

(* ===== non-vacuity: all hypotheses of C13_refine_total / C13_refine_end_to_end_partial hold on the evaluated instance of
   Properties_C13_refine.v, the regularised factorisation reports success there, and the conclusions are inhabited ===== *)
Example C13_refine_ex_total_hyps :
  wf_sdata ex_d /\ solve_ok ex_d ex_c /\ rhs_ok ex_d ex_r /\ delta_ok MFull ex_c /\
  kkt_addr_ok (mode_N MFull ex_d) ex_o ex_K /\ upper_only ex_K = true /\ nodup_cols ex_K /\
  exists st0 st, kkt_symbolic ex_K = Ok st0 /\ reusable ex_K st0 /\
    kkt_factorize_r (ex_rs (exq 1 4) (exq 5 1) 10) true MFull ex_d ex_c ex_o ex_K st0 = Ok (true, st, ex_K).
Proof. exact ex_total_hyps. Qed.
Print Assumptions C13_refine_ex_total_hyps.

Example C13_refine_ex_end_to_end : exists st' reg rp sol0 sol v,
  kkt_reg (ex_rs (exq 1 4) (exq 5 1) 10) ex_d ex_c = Ok reg /\ length rp = 2%nat /\
  ldl_solve st' rp = Ok sol0 /\
  refined_solve (ex_rs (exq 1 4) (exq 5 1) 10) true ex_K st' rp = Ok sol /\
  kkt_solve_r (ex_rs (exq 1 4) (exq 5 1) 10) true MFull ex_d ex_c ex_o ex_K st' ex_r = Ok v /\ step_ok ex_d v /\
  (kres_norm ex_K rp sol <= kres_norm ex_K rp sol0).
Proof. exact ex_end_to_end. Qed.
Print Assumptions C13_refine_ex_end_to_end.
