(* KKTDense.v -- dense/kkt.hpp : dense::KKT<T>, with Eigen::LLT as an oracle implemented exactly
   (harness/exact_llt.hpp runs the same algorithm on the implementation side). *)
From PIQP Require Import Base Data.
From RecordUpdate Require Import RecordSet.
Import RecordSetNotations.
Local Open Scope Qc_scope.

(* ---------- exact LLT oracle: unpivoted LDL^T of the lower triangle, success iff all pivots > 0 ---------- *)
(* L is stored as list of rows (row i = strict lower part, i entries), D as a list.
   A lower-triangular matrix is given as list of rows, row i = [A(i,0); ...; A(i,i)]. *)
Record Fact := mkFact { f_L : list Vec; f_D : Vec }.

Definition dot3 (a b c : Vec) : F := vsum (vmul (vmul a b) c).

(* row i:  L(i,j) = (A(i,j) - sum_{k<j} L(i,k) D(k) L(j,k)) / D(j)  for j = 0..i-1 *)
Fixpoint ldl_row (Ai : Vec) (Ls : list Vec) (D Dall li : Vec) : res Vec :=
  match Ls, D, Ai with
  | Lj :: Lrest, dj :: Dt, aij :: At =>
      do lij <- qdiv (aij - dot3 li Dall Lj) dj ;;
      ldl_row At Lrest Dt Dall (li ++ [lij])
  | _, _, _ => Ok li
  end.

Fixpoint ldl_rows (rows : list Vec) (Ls : list Vec) (D : Vec) : res (option Fact) :=
  match rows with
  | [] => Ok (Some (mkFact Ls D))
  | Ai :: rt =>
      do li <- ldl_row Ai Ls D D [] ;;
      do aii <- get Ai (length Ls) ;;
      let d := aii - dot3 li D li in
      if qltb 0 d then ldl_rows rt (Ls ++ [li]) (D ++ [d]) else Ok None
  end.
Definition llt_compute (rows : list Vec) : res (option Fact) := ldl_rows rows [] [].

Fixpoint fwd (Ls : list Vec) (b acc : Vec) : Vec :=
  match Ls, b with
  | Li :: Lrest, bi :: bt => fwd Lrest bt (acc ++ [bi - dot Li acc])
  | _, _ => acc
  end.
Fixpoint bwd (rLs : list Vec) (ry : Vec) : Vec :=
  match rLs, ry with
  | Lk :: Lrest, yk :: yt => bwd Lrest (vsub yt (vscale yk (rev Lk))) ++ [yk]
  | _, _ => []
  end.
Definition llt_solve (f : Fact) (b : Vec) : res Vec :=
  let y := fwd (f_L f) b [] in
  do y' <- vdiv y (f_D f) ;;
  Ok (bwd (rev (f_L f)) (rev y')).

(* symmetric product with a lower-triangular row list: (K x)_i = sum_{j<=i} K(i,j) x_j + sum_{j>i} K(j,i) x_j *)
Definition lower_sym_mul (rows : list Vec) (x : Vec) : Vec :=
  let n := length rows in
  map (fun i => fold_left (fun acc j =>
                  acc + (if Nat.leb j i then nth j (nth i rows []) 0 else nth i (nth j rows []) 0) * nth j x 0)
                (seq 0 n) 0) (seq 0 n).

(* ---------- dense::KKT ---------- *)
Record KKT := mkKKT {
  k_rho : F; k_delta : F;
  k_s : Vec; k_s_lb : Vec; k_s_ub : Vec;            (* m_s_lb, m_s_ub : length n, head(n_lb) meaningful *)
  k_z_inv : Vec; k_z_lb_inv : Vec; k_z_ub_inv : Vec;
  k_mat : list Vec;                                   (* lower triangle of kkt_mat, by rows *)
  k_ATA : list Vec;                                   (* lower triangle of AT*AT^T, by rows (only if p>0) *)
  k_fact : option Fact                                (* state of llt; None = last compute failed / never computed *)
}.
#[export] Instance etaKKT : Settable _ := settable! mkKKT
  <k_rho; k_delta; k_s; k_s_lb; k_s_ub; k_z_inv; k_z_lb_inv; k_z_ub_inv; k_mat; k_ATA; k_fact>.

Definition lower_rows (n : nat) (f : nat -> nat -> F) : list Vec :=
  map (fun i => map (fun j => f i j) (seq 0 (S i))) (seq 0 n).

Definition compute_ATA (d : Data) : list Vec :=
  lower_rows (d_n d) (fun i j => dot (mrow (d_AT d) i) (mrow (d_AT d) j)).

(* box contributions to the diagonal: for i<n_lb: diag(idx i) += sc(i)^2 / (zinv(i)*s(i)+delta) *)
Definition box_diag (delta : F) (diag : Vec) (idx : list nat) (sc zinv s : Vec) : res Vec :=
  do terms <- mapM (fun t => qdiv (fst (fst t) * fst (fst t)) (snd (fst t) * snd t + delta))
                (combine (combine sc zinv) s) ;;
  scatter_with Qcplus diag idx terms.

Definition update_kkt (d : Data) (k : KKT) : res KKT :=
  let n := d_n d in
  do w <- (if Nat.ltb 0 (d_m d) then vinv (vaddc (k_delta k) (vmul (k_z_inv k) (k_s k))) else Ok []) ;;
  do dinv <- (if Nat.ltb 0 (d_p d) then qinv (k_delta k) else Ok 0) ;;
  do bd0 <- box_diag (k_delta k) (vconst n 0) (d_lb_idx d) (head (d_nlb d) (d_lb_scaling d)) (k_z_lb_inv k) (k_s_lb k) ;;
  do bd <- box_diag (k_delta k) bd0 (d_ub_idx d) (head (d_nub d) (d_ub_scaling d)) (k_z_ub_inv k) (k_s_ub k) ;;
  let rows := lower_rows n (fun i j =>
      mentry (d_P d) j i
      + (if Nat.eqb i j then k_rho k + nth i bd 0 else 0)
      + (if Nat.ltb 0 (d_m d) then dot3 (mrow (d_GT d) i) w (mrow (d_GT d) j) else 0)
      + (if Nat.ltb 0 (d_p d) then dinv * nth j (nth i (k_ATA k) []) 0 else 0)) in
  Ok (k <| k_mat := rows |>).

Definition kkt_init (d : Data) (rho delta : F) (junk : F) : res KKT :=
  let n := d_n d in
  let k0 := {| k_rho := rho; k_delta := delta;
               k_s := vconst (d_m d) 1;
               k_s_lb := vconst (d_nlb d) 1 ++ vconst (n - d_nlb d) junk;
               k_s_ub := vconst (d_nub d) 1 ++ vconst (n - d_nub d) junk;
               k_z_inv := vconst (d_m d) 1;
               k_z_lb_inv := vconst (d_nlb d) 1 ++ vconst (n - d_nlb d) junk;
               k_z_ub_inv := vconst (d_nub d) 1 ++ vconst (n - d_nub d) junk;
               k_mat := []; k_ATA := (if Nat.ltb 0 (d_p d) then compute_ATA d else []); k_fact := None |} in
  update_kkt d k0.

Definition kkt_update_scalings (d : Data) (k : KKT) (rho delta : F) (s s_lb s_ub z z_lb z_ub : Vec) : res KKT :=
  do zi <- vinv z ;; do zlbi <- vinv (head (d_nlb d) z_lb) ;; do zubi <- vinv (head (d_nub d) z_ub) ;;
  update_kkt d (k <| k_rho := rho |> <| k_delta := delta |> <| k_s := s |>
                  <| k_s_lb := set_head (head (d_nlb d) s_lb) (k_s_lb k) |>
                  <| k_s_ub := set_head (head (d_nub d) s_ub) (k_s_ub k) |>
                  <| k_z_inv := zi |>
                  <| k_z_lb_inv := set_head zlbi (k_z_lb_inv k) |>
                  <| k_z_ub_inv := set_head zubi (k_z_ub_inv k) |>).

(* options: bit0 P, bit1 A, bit2 G *)
Definition kkt_update_data (d : Data) (k : KKT) (optP optA optG : bool) : res KKT :=
  let k1 := if optA && Nat.ltb 0 (d_p d) then k <| k_ATA := compute_ATA d |> else k in
  if optP || optA || optG then update_kkt d k1 else Ok k1.

Section Solve.
Variable S : Settings.

(* regularize_and_factorize; [fault] = hook H1 says "report failure" (nothing is touched then) *)
Definition regularize_and_factorize (d : Data) (k : KKT) (refine fault : bool) : res (KKT * bool) :=
  if fault then Ok (k, false) else
  let nlb := d_nlb d in let nub := d_nub d in
  let rho_reg :=
    if refine then
      let diagP := map (fun i => mentry (d_P d) i i) (seq 0 (d_n d)) in
      let md0 := norm_inf diagP in
      let md1 := fold_left qmax (vmul (k_z_inv k) (k_s k)) md0 in
      let md2 := fold_left qmax (vmul (head nlb (k_z_lb_inv k)) (head nlb (k_s_lb k))) md1 in
      let md3 := fold_left qmax (vmul (head nub (k_z_ub_inv k)) (head nub (k_s_ub k))) md2 in
      let reg := iterative_refinement_static_regularization_eps S + iterative_refinement_static_regularization_rel S * md3 in
      qmax 0 (reg - k_rho k)
    else 0 in
  let rows := map (fun ir => let i := fst ir in
                     map (fun jv => if Nat.eqb (fst jv) i then snd jv + rho_reg else snd jv)
                         (combine (seq 0 (length (snd ir))) (snd ir)))
                  (combine (seq 0 (length (k_mat k))) (k_mat k)) in
  do f <- llt_compute rows ;;
  match f with
  | Some _ => Ok (k <| k_fact := f |>, true)
  | None => Ok (k <| k_fact := None |>, false)
  end.

Definition solve_ldlt (k : KKT) (b : Vec) : res Vec :=
  match k_fact k with Some f => llt_solve f b | None => Err Shape end.

(* iterative refinement loop of KKT::solve *)
Fixpoint refine_loop (fuel : nat) (k : KKT) (rhs : Vec) (rhs_norm : F) (sol err_corr : Vec) (error_norm : F) : res Vec :=
  match fuel with
  | O => Ok sol
  | Datatypes.S f =>
      if qleb error_norm (iterative_refinement_eps_abs S + iterative_refinement_eps_rel S * rhs_norm) then Ok sol
      else
        do corr <- solve_ldlt k err_corr ;;
        let ref_sol := vadd sol corr in
        let err2 := vsub rhs (lower_sym_mul (k_mat k) ref_sol) in
        let en2 := norm_inf err2 in
        (* improvement_rate = prev/error ; error = 0 means +inf in IEEE arithmetic: not < min_rate, so accept *)
        if qeqb en2 0 then refine_loop f k rhs rhs_norm ref_sol err2 en2
        else
          do rate <- qdiv error_norm en2 ;;
          if qltb rate (iterative_refinement_min_improvement_rate S) then
            (if qltb 1 rate then Ok ref_sol else Ok sol)
          else refine_loop f k rhs rhs_norm ref_sol err2 en2
  end.

Record Step := mkStep { st_x : Vec; st_y : Vec; st_z : Vec; st_z_lb : Vec; st_z_ub : Vec; st_s : Vec; st_s_lb : Vec; st_s_ub : Vec }.

(* packed lb/ub vectors have length n_lb / n_ub *)
Definition kkt_solve (d : Data) (k : KKT) (refine : bool)
    (rhs_x rhs_y rhs_z rhs_z_lb rhs_z_ub rhs_s rhs_s_lb rhs_s_ub : Vec) : res Step :=
  let n := d_n d in let nlb := d_nlb d in let nub := d_nub d in
  let s_lb := head nlb (k_s_lb k) in let s_ub := head nub (k_s_ub k) in
  let zli := head nlb (k_z_lb_inv k) in let zui := head nub (k_z_ub_inv k) in
  let lbs := head nlb (d_lb_scaling d) in let ubs := head nub (d_ub_scaling d) in
  do delta_inv <- qinv (k_delta k) ;;
  do w <- vinv (vaddc (k_delta k) (vmul (k_s k) (k_z_inv k))) ;;
  let rhs_z_bar := vmul (vsub rhs_z (vmul (k_z_inv k) rhs_s)) w in
  let r0 := vadd rhs_x (mat_vec n (d_GT d) rhs_z_bar) in
  let r1 := vadd r0 (vscale delta_inv (mat_vec n (d_AT d) rhs_y)) in
  do wlb <- vinv (vaddc (k_delta k) (vmul s_lb zli)) ;;
  do wub <- vinv (vaddc (k_delta k) (vmul s_ub zui)) ;;
  let tlb := vmul (vmul lbs (vsub rhs_z_lb (vmul zli rhs_s_lb))) wlb in
  let tub := vmul (vmul ubs (vsub rhs_z_ub (vmul zui rhs_s_ub))) wub in
  do r2 <- scatter_with Qcminus r1 (d_lb_idx d) tlb ;;
  do rhs <- scatter_with Qcplus r2 (d_ub_idx d) tub ;;
  do sol0 <- solve_ldlt k rhs ;;
  do sol <- (if refine && Z.ltb 0 (iterative_refinement_max_iter S) then
            let err := vsub rhs (lower_sym_mul (k_mat k) sol0) in
            refine_loop (Z.to_nat (iterative_refinement_max_iter S)) k rhs (norm_inf rhs) sol0 err (norm_inf err)
          else Ok sol0) ;;
  let dx := sol in
  let dy := vsub (vscale delta_inv (matT_vec (d_AT d) dx)) (vscale delta_inv rhs_y) in
  let dz := vsub (vmul (matT_vec (d_GT d) dx) w) rhs_z_bar in
  do xlb <- gather dx (d_lb_idx d) ;;
  do xub <- gather dx (d_ub_idx d) ;;
  let dz_lb := vmul (vadd (vsub (vneg (vmul lbs xlb)) rhs_z_lb) (vmul zli rhs_s_lb)) wlb in
  let dz_ub := vmul (vadd (vsub (vmul ubs xub) rhs_z_ub) (vmul zui rhs_s_ub)) wub in
  let ds := vmul (k_z_inv k) (vsub rhs_s (vmul (k_s k) dz)) in
  let ds_lb := vmul zli (vsub rhs_s_lb (vmul s_lb dz_lb)) in
  let ds_ub := vmul zui (vsub rhs_s_ub (vmul s_ub dz_ub)) in
  Ok {| st_x := dx; st_y := dy; st_z := dz; st_z_lb := dz_lb; st_z_ub := dz_ub; st_s := ds; st_s_lb := ds_lb; st_s_ub := ds_ub |}.

(* KKT::multiply : the full (un-eliminated) regularised Newton operator *)
Definition Psym_mul (d : Data) (x : Vec) : Vec :=
  (* P_utri * x + strictLower(P_utri^T) * x *)
  let n := d_n d in
  vadd (mat_vec n (d_P d) x)
       (map (fun i => fold_left (fun acc j => if Nat.ltb j i then acc + mentry (d_P d) j i * nth j x 0 else acc) (seq 0 n) 0) (seq 0 n)).

Definition kkt_multiply (d : Data) (k : KKT) (v : Step) : res Step :=
  let n := d_n d in let nlb := d_nlb d in let nub := d_nub d in
  let lbs := head nlb (d_lb_scaling d) in let ubs := head nub (d_ub_scaling d) in
  let r0 := vadd (vadd (Psym_mul d (st_x v)) (vscale (k_rho k) (st_x v)))
                 (vadd (mat_vec n (d_AT d) (st_y v)) (mat_vec n (d_GT d) (st_z v))) in
  do r1 <- scatter_with Qcminus r0 (d_lb_idx d) (vmul lbs (st_z_lb v)) ;;
  do rx <- scatter_with Qcplus r1 (d_ub_idx d) (vmul ubs (st_z_ub v)) ;;
  let ry := vsub (matT_vec (d_AT d) (st_x v)) (vscale (k_delta k) (st_y v)) in
  let rz := vadd (vsub (matT_vec (d_GT d) (st_x v)) (vscale (k_delta k) (st_z v))) (st_s v) in
  do xlb <- gather (st_x v) (d_lb_idx d) ;;
  do xub <- gather (st_x v) (d_ub_idx d) ;;
  let rzlb := vadd (vsub (vneg (vmul lbs xlb)) (vscale (k_delta k) (st_z_lb v))) (st_s_lb v) in
  let rzub := vadd (vsub (vmul ubs xub) (vscale (k_delta k) (st_z_ub v))) (st_s_ub v) in
  do z <- vinv (k_z_inv k) ;; do zlb <- vinv (head nlb (k_z_lb_inv k)) ;; do zub <- vinv (head nub (k_z_ub_inv k)) ;;
  let rs := vadd (vmul (k_s k) (st_z v)) (vmul z (st_s v)) in
  let rslb := vadd (vmul (head nlb (k_s_lb k)) (st_z_lb v)) (vmul zlb (st_s_lb v)) in
  let rsub := vadd (vmul (head nub (k_s_ub k)) (st_z_ub v)) (vmul zub (st_s_ub v)) in
  Ok {| st_x := rx; st_y := ry; st_z := rz; st_z_lb := rzlb; st_z_ub := rzub; st_s := rs; st_s_lb := rslb; st_s_ub := rsub |}.

End Solve.
