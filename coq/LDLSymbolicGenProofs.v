(* LDLSymbolicGenProofs.v -- C14 T1 for ALL sizes, part 1: the fill pattern, the elimination tree and the symbolic
   phase of sparse/ldlt.hpp (model LDLSparse.symbolic_i).

   The pattern of L is given by any boolean function lp satisfying the fill recurrence
       lp k i  =  A(i,k) stored  ||  exists c < i, lp i c && lp k c            (i < k < n)
   (LDLFillGenProofs.v shows that the function [fill] of LDLSparseProofs.v is such an lp).  For every square
   upper-triangular pattern (columns may be unsorted and may contain repeated row indices, no diagonal required) the
   symbolic phase returns Ok -- every index it touches is in range, every flag it reads was written before, the fuel
   of the model's walk is never exhausted -- and
       etree[i] = the first k > i with lp k i (None if there is none),  L_nnz[i] = #{k | i < k < n, lp k i},
       L_cols = prefix sums of L_nnz,  L_ind / L_vals are allocated with exactly L_cols[n] slots. *)
From PIQP Require Import Base CSC LDLSparse C14LemmasProofs PatternsProofs LDLSparseProofs.
Require Import ZifyBool.
Local Open Scope nat_scope.

(* ---------- small list facts ---------- *)
Lemma hd_filter_seq (f : nat -> bool) m : forall a p,
  hd_error (filter f (seq a m)) = Some p -> a <= p < a + m /\ f p = true /\ forall k, a <= k < p -> f k = false.
Proof.
  induction m; intros a p H; simpl in H; [discriminate|].
  destruct (f a) eqn:E.
  - simpl in H. inversion H; subst. split; [lia|]. split; auto. intros; lia.
  - destruct (IHm (S a) p H) as (H1 & H2 & H3). split; [lia|]. split; auto.
    intros k Hk. destruct (Nat.eq_dec k a); [subst; auto|apply H3; lia].
Qed.
Lemma hd_filter_seq_none (f : nat -> bool) m : forall a,
  hd_error (filter f (seq a m)) = None -> forall k, a <= k < a + m -> f k = false.
Proof.
  induction m; intros a H k Hk; [lia|]. simpl in H. destruct (f a) eqn:E; [discriminate|].
  destruct (Nat.eq_dec k a); [subst; auto|]. apply (IHm (S a)); auto. lia.
Qed.
Lemma hd_error_app {A} (l1 l2 : list A) : hd_error (l1 ++ l2) = match hd_error l1 with Some x => Some x | None => hd_error l2 end.
Proof. destruct l1; reflexivity. Qed.

Lemma get_init_ok fl i f : i < length fl -> nth i fl None = Some f -> get_init fl i = Ok f.
Proof. intros H E. unfold get_init. rewrite (get_nth fl i None) by auto. cbn [bind]. now rewrite E. Qed.

Lemma oeqb_true a k : oeqb a k = true <-> a = Some k.
Proof. destruct a; simpl; split; intros H; try discriminate. apply Nat.eqb_eq in H. congruence. inversion H. apply Nat.eqb_refl. Qed.

Lemma sym_walk_S fuel k i s : sym_walk (S fuel) k i s =
  (do fi <- get_init (s_flag s) i ;;
   if (fi =? k)%nat then Ok s else
   do e <- get (s_etree s) i ;;
   do et <- match e with None => upd (s_etree s) i (Some k) | Some _ => Ok (s_etree s) end ;;
   do nz <- incr (s_Lnnz s) i ;;
   do fl <- upd (s_flag s) i (Some k) ;;
   do e' <- get et i ;;
   match e' with
   | None => Err Index
   | Some i' => sym_walk fuel k i' (mksym et nz fl)
   end).
Proof. reflexivity. Qed.

Lemma incr_ok' w i : i < length w -> incr w i = Ok (lset w i (S (nth i w 0))).
Proof. intros H. unfold incr. rewrite (get_nth w i 0) by auto. cbn [bind]. now rewrite upd_lset. Qed.

Section LP.
Variable lp : nat -> nat -> bool.

(* column i of L restricted to rows below K; its head is the parent in the elimination tree of the leading K x K block *)
Definition colK (K i : nat) : list nat := filter (fun k => lp k i) (seq (S i) (K - S i)).
Definition parK (K i : nat) : option nat := hd_error (colK K i).
Definition cntL (K i : nat) : nat := length (colK K i).

Lemma colK_S K i : i < K -> colK (S K) i = colK K i ++ (if lp K i then [K] else []).
Proof.
  intros H. unfold colK. replace (S K - S i) with (S (K - S i)) by lia.
  rewrite seq_S, filter_app. replace (S i + (K - S i)) with K by lia. reflexivity.
Qed.
Lemma colK_nil K i : K <= S i -> colK K i = [].
Proof. intros H. unfold colK. replace (K - S i) with 0 by lia. reflexivity. Qed.
Lemma colK_in K i k : In k (colK K i) <-> i < k < K /\ lp k i = true.
Proof. unfold colK. rewrite filter_In, in_seq. split; intros [H1 H2]; split; auto; lia. Qed.
Lemma parK_some K i p : parK K i = Some p -> i < p < K /\ lp p i = true /\ forall k, i < k < p -> lp k i = false.
Proof.
  intros H. apply hd_filter_seq in H. destruct H as (H1 & H2 & H3). split; [lia|]. split; [auto|]. intros; apply H3; lia.
Qed.
Lemma parK_none K i : parK K i = None -> forall k, i < k < K -> lp k i = false.
Proof. intros H k Hk. apply (hd_filter_seq_none _ _ _ H). lia. Qed.
Lemma parK_S K i : i < K -> parK (S K) i = match parK K i with Some p => Some p | None => if lp K i then Some K else None end.
Proof. intros H. unfold parK. rewrite colK_S by auto. rewrite hd_error_app. destruct (lp K i); reflexivity. Qed.
Lemma cntL_S K i : i < K -> cntL (S K) i = cntL K i + (if lp K i then 1 else 0).
Proof. intros H. unfold cntL. rewrite colK_S by auto. rewrite app_length. destruct (lp K i); reflexivity. Qed.
Lemma cntL_le K K' i : K <= K' -> cntL K i <= cntL K' i.
Proof.
  intros H. induction H; auto. destruct (Nat.lt_ge_cases i m).
  - rewrite cntL_S by auto. destruct (lp m i); lia.
  - assert (K <= S i) by lia. unfold cntL. rewrite (colK_nil K) by lia. simpl. lia.
Qed.

Lemma colK_ext K K' i : K <= K' -> exists rest, colK K' i = colK K i ++ rest.
Proof.
  intros H. induction H. exists []. now rewrite app_nil_r.
  destruct IHle as (rest & E). destruct (Nat.lt_ge_cases i m).
  - rewrite colK_S by auto. rewrite E. rewrite <- app_assoc. eauto.
  - rewrite (colK_nil K) by lia. simpl. eauto.
Qed.
Lemma parK_mono K K' i p : K <= K' -> parK K i = Some p -> parK K' i = Some p.
Proof.
  intros H E. unfold parK in *. destruct (colK_ext K K' i H) as (rest & ->).
  destruct (colK K i); simpl in *; [discriminate|auto].
Qed.
Lemma nth_colK_ext K K' i u : K <= K' -> u < cntL K i -> nth u (colK K' i) 0 = nth u (colK K i) 0.
Proof. intros H Hu. destruct (colK_ext K K' i H) as (rest & ->). apply app_nth1. exact Hu. Qed.
Lemma nth_colK_bound K i u : u < cntL K i -> i < nth u (colK K i) 0 < K.
Proof.
  intros Hu. assert (Hin : In (nth u (colK K i) 0) (colK K i)) by (apply nth_In; exact Hu).
  apply colK_in in Hin. lia.
Qed.

End LP.

Section Pattern.
Set Default Proof Using "All".
Variable n : nat.
Variables Ap Ai : list nat.
Hypothesis HApl : length Ap = S n.
Hypothesis HApm : forall j, j < n -> nth j Ap 0 <= nth (S j) Ap 0.
Hypothesis HApN : forall j, j < n -> nth (S j) Ap 0 <= length Ai.
Hypothesis HAup : forall j p, j < n -> nth j Ap 0 <= p < nth (S j) Ap 0 -> nth p Ai 0 <= j.

Variable lp : nat -> nat -> bool.
Hypothesis lp_eq : forall k i, i < k -> k < n ->
  lp k i = has_entry Ap Ai i k || existsb (fun c => lp i c && lp k c) (seq 0 i).

Notation colK := (colK lp).
Notation parK := (parK lp).
Notation cntL := (cntL lp).

(* fill: two rows sharing a column below both *)
Lemma lp_fill k p c : c < p -> p < k -> k < n -> lp p c = true -> lp k c = true -> lp k p = true.
Proof.
  intros Hc Hp Hk H1 H2. rewrite lp_eq by lia. apply orb_true_iff. right.
  apply existsb_exists. exists c. split. apply in_seq; lia. now rewrite H1, H2.
Qed.

(* the parent of a node of row k is again in row k (or is k) *)
Lemma par_in_row K i : i < K -> K < n -> lp K i = true ->
  exists p, parK (S K) i = Some p /\ i < p <= K /\ (p < K -> lp K p = true).
Proof.
  intros Hi HK Hl. rewrite parK_S by auto. destruct (parK K i) as [p|] eqn:E.
  - apply parK_some in E. destruct E as (E1 & E2 & _). exists p. split; auto. split; [lia|].
    intros Hp. apply (lp_fill K p i); auto; lia.
  - rewrite Hl. exists K. split; auto. split; [lia|]. intros; lia.
Qed.

(* ================= one walk of the symbolic phase ================= *)
Definition mkd (fl : list (option nat)) (K j : nat) : bool := oeqb (nth j fl None) K.

Definition WInv (K cur : nat) (s : sym) : Prop :=
  length (s_etree s) = n /\ length (s_Lnnz s) = n /\ length (s_flag s) = n /\
  nth K (s_flag s) None = Some K /\ nth K (s_etree s) None = None /\ nth K (s_Lnnz s) 0 = 0 /\
  (forall j, j < K -> exists f, nth j (s_flag s) None = Some f /\ f <= K) /\
  (forall j, j < K -> mkd (s_flag s) K j = true -> lp K j = true) /\
  (forall j, j < K -> nth j (s_etree s) None = parK (if mkd (s_flag s) K j then S K else K) j) /\
  (forall j, j < K -> nth j (s_Lnnz s) 0 = cntL (if mkd (s_flag s) K j then S K else K) j) /\
  (forall j, j < K -> mkd (s_flag s) K j = true -> forall p, parK (S K) j = Some p -> p = K \/ p = cur \/ mkd (s_flag s) K p = true).

Lemma WInv_weaken K cur s : WInv K K s -> WInv K cur s.
Proof.
  intros (H1 & H2 & H3 & H4 & H5 & H6 & H7 & H8 & H9 & H10 & H11). unfold WInv. repeat (split; auto).
  intros j Hj Hm p Hp. destruct (H11 j Hj Hm p Hp) as [H|[H|H]]; auto.
Qed.

Lemma sym_walk_ok K (HK : K < n) fuel : forall i s,
  WInv K i s -> i <= K -> (i < K -> lp K i = true) -> K - i < fuel ->
  exists s', sym_walk fuel K i s = Ok s' /\ WInv K K s' /\ (i < K -> mkd (s_flag s') K i = true) /\
             (forall j, j < K -> mkd (s_flag s) K j = true -> mkd (s_flag s') K j = true).
Proof.
  induction fuel; intros i s HW Hi Hrow Hfuel; [lia|].
  destruct HW as (Le & Lz & Lf & FK & EK & ZK & Hinit & Hsound & Het & Hnz & Hcl).
  rewrite sym_walk_S.
  destruct (Nat.eq_dec i K) as [->|HiK].
  { (* reached k *)
    rewrite (get_init_ok _ _ K) by (auto; lia). cbn [bind]. rewrite Nat.eqb_refl.
    exists s. split; auto. split. { unfold WInv. auto 15. } split; [lia|auto]. }
  assert (HiK' : i < K) by lia. specialize (Hrow HiK').
  destruct (Hinit i HiK') as (f & Ef & Hf).
  rewrite (get_init_ok _ _ f) by (auto; lia). cbn [bind].
  destruct (Nat.eqb_spec f K) as [->|HfK].
  { (* already visited *)
    assert (Hm : mkd (s_flag s) K i = true) by (unfold mkd; rewrite Ef; simpl; apply Nat.eqb_refl).
    exists s. split; auto. split; [|split; auto].
    unfold WInv. repeat (split; auto). intros j Hj Hmj p Hp.
    destruct (Hcl j Hj Hmj p Hp) as [H|[H|H]]; auto. subst p. auto. }
  assert (Hm : mkd (s_flag s) K i = false).
  { unfold mkd. rewrite Ef. simpl. now apply Nat.eqb_neq. }
  (* the new etree, and the parent *)
  destruct (par_in_row K i HiK' HK Hrow) as (p & Ep & Hp & Hprow).
  pose proof (Het i HiK') as Hei. rewrite Hm in Hei.
  rewrite (get_nth (s_etree s) i None) by lia. cbn [bind].
  assert (Het' : exists et, match nth i (s_etree s) None with None => upd (s_etree s) i (Some K) | Some _ => Ok (s_etree s) end = Ok et /\
             length et = n /\ forall j, nth j et None = if j =? i then Some p else nth j (s_etree s) None).
  { rewrite parK_S in Ep by auto. rewrite Hei. destruct (parK K i) as [p0|] eqn:E0.
    - inversion Ep; subst p0. exists (s_etree s). split; auto. split; auto.
      intros j. destruct (Nat.eqb_spec j i); auto. subst j. rewrite Hei. auto.
    - rewrite Hrow in Ep. inversion Ep; subst p. rewrite upd_lset by lia. eexists; split; [reflexivity|].
      split; [now rewrite lset_length|]. intros j. rewrite nth_lset by lia. reflexivity. }
  destruct Het' as (et & Eet & Let & Hetn). rewrite Eet. cbn [bind].
  rewrite incr_ok' by lia. cbn [bind]. rewrite upd_lset by lia. cbn [bind].
  rewrite (get_nth et i None) by lia. cbn [bind]. rewrite Hetn, Nat.eqb_refl.
  set (s1 := mksym et (lset (s_Lnnz s) i (S (nth i (s_Lnnz s) 0))) (lset (s_flag s) i (Some K))).
  assert (Hmk1 : forall j, mkd (s_flag s1) K j = if j =? i then true else mkd (s_flag s) K j).
  { intros j. unfold mkd. simpl. rewrite nth_lset by lia. destruct (j =? i); auto. simpl. apply Nat.eqb_refl. }
  pose proof Hmk1 as Hmk1'. unfold s1 in Hmk1'. cbn [s_flag] in Hmk1'.
  assert (HW1 : WInv K p s1).
  { unfold WInv. simpl. rewrite !lset_length. split; auto. split; auto. split; auto.
    split. { rewrite nth_lset_other by lia. auto. }
    split. { rewrite Hetn. destruct (Nat.eqb_spec K i); [lia|auto]. }
    split. { rewrite nth_lset_other by lia. auto. }
    split. { intros j Hj. rewrite nth_lset by lia. destruct (Nat.eqb_spec j i). exists K; auto. apply Hinit; auto. }
    split. { intros j Hj. rewrite Hmk1'. destruct (Nat.eqb_spec j i); [subst; auto|apply Hsound; auto]. }
    split. { intros j Hj. rewrite Hmk1', Hetn. destruct (Nat.eqb_spec j i); [subst; auto|apply Het; auto]. }
    split. { intros j Hj. rewrite Hmk1', nth_lset by lia. destruct (Nat.eqb_spec j i).
             - subst j. rewrite (Hnz i HiK'), Hm. rewrite cntL_S, Hrow by auto. lia.
             - apply Hnz; auto. }
    intros j Hj Hmj q Hq. rewrite Hmk1' in Hmj. rewrite Hmk1'.
    destruct (Nat.eqb_spec j i) as [->|Hne].
    - rewrite Ep in Hq. inversion Hq; subst q. auto.
    - destruct (Hcl j Hj Hmj q Hq) as [H|[H|H]]; auto.
      + subst q. rewrite Nat.eqb_refl. auto.
      + destruct (q =? i); auto. }
  destruct (IHfuel p s1 HW1) as (s' & Es & HW' & Hp' & Hmono); try lia; auto.
  exists s'. split; auto. split; auto. split.
  - intros _. destruct (Nat.eq_dec p K) as [->|HpK].
    + (* the walk ends at k: i keeps its mark since marks are never removed *)
      apply Hmono; auto. rewrite Hmk1, Nat.eqb_refl. auto.
    + apply Hmono; auto. rewrite Hmk1, Nat.eqb_refl. auto.
  - intros j Hj Hmj. apply Hmono; auto. rewrite Hmk1. destruct (j =? i); auto.
Qed.

(* ================= completeness of the marks after all entries of column k ================= *)
Lemma marks_up K s : K < n -> WInv K K s ->
  forall d c j, j - c <= d -> c < j -> j < K -> mkd (s_flag s) K c = true -> lp j c = true -> mkd (s_flag s) K j = true.
Proof.
  intros HK HW. destruct HW as (_ & _ & _ & _ & _ & _ & _ & Hsound & _ & _ & Hcl).
  induction d; intros c j Hd Hc Hj Hm Hl; [lia|].
  assert (HlK : lp K c = true) by (apply Hsound; auto; lia).
  (* the parent of c is at most j *)
  destruct (parK (S K) c) as [p|] eqn:Ep.
  2:{ pose proof (parK_none lp _ _ Ep j ltac:(lia)). congruence. }
  pose proof (parK_some lp _ _ _ Ep) as (P1 & P2 & P3).
  assert (Hpj : p <= j). { destruct (Nat.le_gt_cases p j); auto. rewrite P3 in Hl by lia. discriminate. }
  destruct (Hcl c ltac:(lia) Hm p Ep) as [H|[H|H]]; try lia.
  destruct (Nat.eq_dec p j) as [->|Hne]; auto.
  apply (IHd p j); auto; try lia. apply (lp_fill j p c); auto; lia.
Qed.

Lemma marks_complete K s : K < n -> WInv K K s ->
  (forall q, nth K Ap 0 <= q < nth (S K) Ap 0 -> nth q Ai 0 < K -> mkd (s_flag s) K (nth q Ai 0) = true) ->
  forall j, j < K -> lp K j = true -> mkd (s_flag s) K j = true.
Proof.
  intros HK HW Hent j. induction j as [j IH] using lt_wf_ind. intros Hj Hl.
  rewrite lp_eq in Hl by lia. apply orb_true_iff in Hl. destruct Hl as [Hl|Hl].
  - unfold has_entry in Hl. apply existsb_exists in Hl. destruct Hl as (q & Hq & Eq). apply in_seq in Hq.
    apply Nat.eqb_eq in Eq. subst j. apply Hent; auto. lia.
  - apply existsb_exists in Hl. destruct Hl as (c & Hc & Hcc). apply in_seq in Hc. apply andb_true_iff in Hcc.
    destruct Hcc as [H1 H2]. apply (marks_up K s HK HW (j - c) c j); auto; try lia. apply IH; auto; lia.
Qed.

(* ================= one step of the symbolic phase ================= *)
Definition SymInv (K : nat) (s : sym) : Prop :=
  length (s_etree s) = n /\ length (s_Lnnz s) = n /\ length (s_flag s) = n /\
  (forall j, j < K -> exists f, nth j (s_flag s) None = Some f /\ f < K) /\
  (forall j, j < K -> nth j (s_etree s) None = parK K j) /\
  (forall j, j < K -> nth j (s_Lnnz s) 0 = cntL K j).

Lemma sym_step_ok K s : K < n -> SymInv K s -> exists s', sym_step n Ap Ai K s = Ok s' /\ SymInv (S K) s'.
Proof.
  intros HK (Le & Lz & Lf & Hfl & Het & Hnz). unfold sym_step.
  rewrite upd_lset by lia. cbn [bind]. rewrite upd_lset by lia. cbn [bind]. rewrite upd_lset by lia. cbn [bind].
  rewrite (get_nth Ap K 0) by lia. cbn [bind]. rewrite (get_nth Ap (S K) 0) by lia. cbn [bind].
  set (s0 := mksym (lset (s_etree s) K None) (lset (s_Lnnz s) K 0) (lset (s_flag s) K (Some K))).
  assert (Hm0 : forall j, j < K -> mkd (s_flag s0) K j = false).
  { intros j Hj. unfold mkd. simpl. rewrite nth_lset_other by lia. destruct (Hfl j Hj) as (f & -> & Hf). simpl. apply Nat.eqb_neq. lia. }
  assert (HW0 : WInv K K s0).
  { unfold WInv. simpl. rewrite !lset_length. rewrite !nth_lset_same by lia. repeat (split; auto).
    - intros j Hj. rewrite nth_lset_other by lia. destruct (Hfl j Hj) as (f & E & Hf). exists f. split; auto. lia.
    - intros j Hj Hm. fold (s_flag s0) in Hm. rewrite Hm0 in Hm by auto. discriminate.
    - intros j Hj. fold (s_flag s0). rewrite Hm0 by auto. rewrite nth_lset_other by lia. auto.
    - intros j Hj. fold (s_flag s0). rewrite Hm0 by auto. rewrite nth_lset_other by lia. auto.
    - intros j Hj Hm. fold (s_flag s0) in Hm. rewrite Hm0 in Hm by auto. discriminate. }
  pose proof (HApm K HK) as Hle. pose proof (HApN K HK) as HhiN.
  destruct (for_range_ind (fun q s1 => WInv K K s1 /\
               forall q', nth K Ap 0 <= q' < q -> nth q' Ai 0 < K -> mkd (s_flag s1) K (nth q' Ai 0) = true)
             (nth K Ap 0) (nth (S K) Ap 0) (fun p s => do i <- get Ai p ;; sym_walk (S n) K i s) s0)
    as (s' & E & HW' & Hent); auto.
  - split; auto. intros; lia.
  - intros q s1 Hq [HW1 Hent1]. rewrite (get_nth Ai q 0) by lia. cbn [bind].
    pose proof (HAup K q HK Hq) as HiK.
    destruct (sym_walk_ok K HK (S n) (nth q Ai 0) s1 (WInv_weaken K _ s1 HW1) HiK) as (s2 & E2 & HW2 & Hmi & Hmono); try lia.
    { intros Hlt. rewrite lp_eq by lia. apply orb_true_iff. left. unfold has_entry. apply existsb_exists.
      exists q. split. apply in_seq; lia. apply Nat.eqb_refl. }
    exists s2. split; auto. split; auto. intros q' Hq' Hlt.
    destruct (Nat.eq_dec q' q) as [->|Hne]; auto. apply Hmono; auto. apply Hent1; auto; lia.
  - exists s'. split; auto.
    pose proof (marks_complete K s' HK HW' Hent) as Hcomp.
    destruct HW' as (Le' & Lz' & Lf' & FK & EK & ZK & Hinit & Hsound & Het' & Hnz' & _).
    assert (Hiff : forall j, j < K -> mkd (s_flag s') K j = lp K j).
    { intros j Hj. destruct (lp K j) eqn:El. apply Hcomp; auto.
      destruct (mkd (s_flag s') K j) eqn:Em; auto. apply Hsound in Em; auto. congruence. }
    unfold SymInv. split; auto. split; auto. split; auto. split; [|split].
    + intros j Hj. destruct (Nat.eq_dec j K) as [->|Hne]. exists K; split; auto.
      destruct (Hinit j ltac:(lia)) as (f & Ef & Hf). exists f. split; auto. lia.
    + intros j Hj. destruct (Nat.eq_dec j K) as [->|Hne].
      * rewrite EK. unfold LDLSymbolicGenProofs.parK. now rewrite colK_nil by lia.
      * rewrite Het' by lia. rewrite Hiff by lia. destruct (lp K j) eqn:El; auto.
        rewrite parK_S by lia. rewrite El. destruct (parK K j); auto.
    + intros j Hj. destruct (Nat.eq_dec j K) as [->|Hne].
      * rewrite ZK. unfold LDLSymbolicGenProofs.cntL. now rewrite colK_nil by lia.
      * rewrite Hnz' by lia. rewrite Hiff by lia. destruct (lp K j) eqn:El; auto.
        rewrite cntL_S by lia. rewrite El. lia.
Qed.

(* ================= L_cols ================= *)
Lemma sym_cols_ok (Lnnz : list nat) : length Lnnz = n ->
  exists lc, sym_cols n Lnnz = Ok lc /\ length lc = S n /\ nth 0 lc 0 = 0 /\
    forall k, k < n -> nth (S k) lc 0 = nth k lc 0 + nth k Lnnz 0.
Proof.
  intros L. unfold sym_cols. rewrite upd_lset by (rewrite repeat_length; lia). cbn [bind].
  destruct (for_range_ind (fun k (lc : list nat) => length lc = S n /\ nth 0 lc 0 = 0 /\
               forall j, j < k -> nth (S j) lc 0 = nth j lc 0 + nth j Lnnz 0) 0 n
             (fun k lc => do a <- get lc k ;; do b <- get Lnnz k ;; upd lc (S k) (a + b)) (lset (repeat 0 (S n)) 0 0))
    as (lc & E & L1 & L2 & L3); try lia.
  - rewrite lset_length, repeat_length. split; auto. split. rewrite nth_lset_same; auto. rewrite repeat_length; lia. intros; lia.
  - intros k lc [_ Hk] (L1 & L2 & L3). rewrite (get_nth lc k 0) by lia. cbn [bind].
    rewrite (get_nth Lnnz k 0) by lia. cbn [bind]. rewrite upd_lset by lia.
    eexists; split; [reflexivity|]. split; [now rewrite lset_length|]. split. { rewrite nth_lset_other by lia. auto. }
    intros j Hj. rewrite !nth_lset by lia. destruct (Nat.eqb_spec (S j) (S k)) as [Ej|Nj].
    + inversion Ej; subst j. destruct (Nat.eqb_spec k (S k)); [lia|]. reflexivity.
    + destruct (Nat.eqb_spec j (S k)); [lia|]. apply L3. lia.
  - exists lc. auto.
Qed.

(* ================= the symbolic phase ================= *)
Theorem symbolic_i_spec :
  exists li, symbolic_i n Ap Ai = Ok li /\
    length (i_etree li) = n /\ length (i_Lnnz li) = n /\ length (i_flag li) = n /\ length (i_Lcols li) = S n /\
    (forall i, i < n -> nth i (i_etree li) None = parK n i) /\
    (forall i, i < n -> nth i (i_Lnnz li) 0 = cntL n i) /\
    nth 0 (i_Lcols li) 0 = 0 /\
    (forall i, i < n -> nth (S i) (i_Lcols li) 0 = nth i (i_Lcols li) 0 + cntL n i) /\
    i_Lind li = repeat 0 (nth n (i_Lcols li) 0) /\
    i_pattern li = repeat 0 n /\
    (forall i, i < n -> exists f, nth i (i_flag li) None = Some f).
Proof.
  unfold symbolic_i.
  destruct (for_range_ind SymInv 0 n (sym_step n Ap Ai) (mksym (repeat None n) (repeat 0 n) (repeat None n)))
    as (s & E & (Le & Lz & Lf & Hfl & Het & Hnz)); try lia.
  - unfold SymInv. simpl. rewrite !repeat_length. repeat split; auto; intros; lia.
  - intros K s [_ HK] HI. apply sym_step_ok; auto.
  - rewrite E. cbn [bind].
    destruct (sym_cols_ok (s_Lnnz s) Lz) as (lc & Ec & L1 & L2 & L3). rewrite Ec. cbn [bind].
    rewrite (get_nth lc n 0) by lia. cbn [bind]. eexists; split; [reflexivity|]. simpl.
    repeat (split; auto).
    + intros i Hi. rewrite L3 by auto. now rewrite Hnz.
    + intros i Hi. destruct (Hfl i Hi) as (f & Ef & _). eauto.
Qed.

End Pattern.
