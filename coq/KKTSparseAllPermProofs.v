(* KKTSparseAllPermProofs.v -- KKT_ALL_ELIMINATED under an arbitrary fill-reducing ordering (all_init .. (Some perm)).
   As for KKT_FULL (KKTSparseFullPermProofs.v) the permuted state simulates the identity-ordering state step by step: every in-place
   loop addresses PKPt through ordering.inv / PKi.  The facts about permute_sym this needs are the decidable hypothesis
   perm_addr_okb (KKTSparseFullPerm.v); the one that C14_permute_sym_spec does not provide for all inputs is the diagonal-last
   addressing (it needs sorted columns of the permuted matrix) -- hence the names ..._partial.  What the permuted matrix denotes is
   obtained from the all-n theorem permute_sym_get (C14_permute_sym_entries). *)
From PIQP Require Import Base CSC C14LemmasProofs CSCProofs TransposeProofs PermuteProofs PermuteGenProofs LinAlg KKTProofs
  KKTSparseFull KKTSparseFullProofs KKTSparseFullPerm KKTSparseFullPermProofs KKTSparseAll KKTSparseAllTrProofs KKTSparseAllProofs KKTSparseAllDataProofs.
Local Open Scope nat_scope.

(* ================================================================ generic simulation of the value loops *)
Section PSim.
Variables (pinv kpC a2c : list nat) (kpI : list nat) (N L : nat) (dpI : nat -> nat).
Local Notation ph := (fun q => nth q a2c 0).
Hypothesis Ha_len : length a2c = L.
Hypothesis Ha_lt : forall q, q < L -> ph q < L.
Hypothesis Ha_inj : forall q q', q < L -> q' < L -> ph q = ph q' -> q = q'.
Hypothesis HdI : forall col, col < N -> dpos (seq 0 N) kpI col = Ok (dpI col).
Hypothesis HdI_lt : forall col, col < N -> dpI col < L.
Hypothesis HdI_inj : forall c c', c < N -> c' < N -> dpI c = dpI c' -> c = c'.
Hypothesis HdP : forall col, col < N -> dpos pinv kpC col = Ok (ph (dpI col)).

Definition vrelA (kxI kxP : Vec) : Prop := length kxI = L /\ length kxP = L /\ forall q, q < L -> nth (ph q) kxP 0%Qc = nth q kxI 0%Qc.

Lemma dpP_lt' col : col < N -> ph (dpI col) < L. Proof. intros. apply Ha_lt. auto. Qed.
Lemma dpP_inj' c c' : c < N -> c' < N -> ph (dpI c) = ph (dpI c') -> c = c'.
Proof. intros Hc Hc' E. apply Ha_inj in E; auto. Qed.

Lemma vrelA_preserved (kxI kxI' kxP kxP' : Vec) cnt (posI : nat -> nat) :
  (forall x, x < cnt -> posI x < L) -> length kxI' = L -> length kxP' = L ->
  (forall x, x < cnt -> nth (ph (posI x)) kxP' 0%Qc = nth (posI x) kxI' 0%Qc) ->
  (forall q, (forall x, x < cnt -> posI x <> q) -> nth q kxI' 0%Qc = nth q kxI 0%Qc) ->
  (forall q, (forall x, x < cnt -> ph (posI x) <> q) -> nth q kxP' 0%Qc = nth q kxP 0%Qc) ->
  vrelA kxI kxP -> vrelA kxI' kxP'.
Proof.
  intros Hlt LI LP Hv HI HP (_ & _ & R). split; auto. split; auto. intros q Hq.
  destruct (dec_bounded posI cnt q) as [(x & Hx & <-)|Hno].
  - now apply Hv.
  - rewrite HI by auto. rewrite HP; [now apply R|]. intros x Hx E. apply Ha_inj in E; auto. now apply (Hno x).
Qed.

(* the accumulation through a map *)
Lemma sim_add_vals (m2k : list nat) (c : option F) (src : Vec) cnt (kxI kxP : Vec) :
  (forall k, k < cnt -> k < length m2k /\ nth k m2k 0 < L) -> cnt <= length src -> vrelA kxI kxP ->
  exists kxI' kxP', add_vals m2k (seq 0 L) c src cnt kxI = Ok kxI' /\ add_vals m2k a2c c src cnt kxP = Ok kxP' /\ vrelA kxI' kxP'.
Proof.
  intros Hm Ls (LI & LP & R).
  destruct (add_vals_ok m2k (seq 0 L) c src cnt kxI L (fun k => nth k m2k 0)) as (kxI' & EI & LI' & HI); auto.
  { intros k Hk. destruct (Hm k Hk) as [H1 H2]. rewrite seq_length. split; auto. split; auto. split; [now rewrite seq_nth|auto]. }
  destruct (add_vals_ok m2k a2c c src cnt kxP L (fun k => ph (nth k m2k 0))) as (kxP' & EP & LP' & HP); auto.
  { intros k Hk. destruct (Hm k Hk) as [H1 H2]. rewrite Ha_len. auto. }
  exists kxI', kxP'. split; auto. split; auto. split; auto. split; auto.
  intros q Hq. rewrite HP, HI, R by auto. f_equal. apply qsum_map_ext. intros k Hk. apply in_seq in Hk.
  destruct (Hm k ltac:(lia)) as [_ H2].
  destruct (Nat.eqb_spec (nth k m2k 0) q) as [->|Ne]; [now rewrite Nat.eqb_refl|].
  destruct (Nat.eqb_spec (ph (nth k m2k 0)) (ph q)) as [E|]; [|reflexivity]. apply Ha_inj in E; auto. contradiction.
Qed.

(* += rho on the diagonal *)
Lemma sim_diag_add n (rho : F) (kxI kxP : Vec) : n <= N -> vrelA kxI kxP ->
  exists kxI' kxP',
    for_range 0 n (fun col kx => do q <- dpos (seq 0 N) kpI col ;; do old <- get kx q ;; upd kx q (old + rho)%Qc) kxI = Ok kxI' /\
    for_range 0 n (fun col kx => do q <- dpos pinv kpC col ;; do old <- get kx q ;; upd kx q (old + rho)%Qc) kxP = Ok kxP' /\
    vrelA kxI' kxP'.
Proof.
  intros Hn HR. pose proof HR as (LI & LP & R).
  destruct (diag_add_ok (seq 0 N) kpI n L dpI rho kxI) as (kxI' & EI & LI' & HI1 & HI2); auto; try (intros; apply HdI || apply HdI_lt || apply HdI_inj; lia).
  destruct (diag_add_ok pinv kpC n L (fun col => ph (dpI col)) rho kxP) as (kxP' & EP & LP' & HP1 & HP2); auto;
    try (intros; apply HdP || apply dpP_lt' || apply dpP_inj'; lia).
  exists kxI', kxP'. split; auto. split; auto.
  apply (vrelA_preserved kxI kxI' kxP kxP' n dpI); auto.
  - intros; apply HdI_lt; lia.
  - intros x Hx. rewrite HP1, HI1 by auto. rewrite R by (apply HdI_lt; lia). reflexivity.
Qed.

(* one box loop *)
Lemma sim_box_loop n nb (idx : list nat) (sc zinv s : Vec) delta (kxI kxP : Vec) :
  n <= N -> nb <= length idx -> nb <= length sc -> nb <= length zinv -> nb <= length s ->
  (forall i, i < nb -> nth i idx 0 < n) -> (forall i, i < nb -> (nth i zinv 0 * nth i s 0 + delta)%Qc <> 0%Qc) -> vrelA kxI kxP ->
  exists kxI' kxP', box_scalings (seq 0 N) kpI nb idx sc zinv s delta kxI = Ok kxI' /\
                    box_scalings pinv kpC nb idx sc zinv s delta kxP = Ok kxP' /\ vrelA kxI' kxP'.
Proof.
  intros Hn B1 B2 B3 B4 Hi Hz HR. pose proof HR as (LI & LP & R).
  destruct (box_scalings_ok (seq 0 N) kpI N L dpI HdI HdI_lt HdI_inj n nb idx sc zinv s delta kxI) as (kxI' & EI & LI' & HI1 & HI2); auto.
  destruct (box_scalings_ok pinv kpC N L (fun col => ph (dpI col)) HdP dpP_lt' dpP_inj' n nb idx sc zinv s delta kxP) as (kxP' & EP & LP' & HP1 & HP2); auto.
  exists kxI', kxP'. split; auto. split; auto.
  apply (vrelA_preserved kxI kxI' kxP kxP' n dpI); auto.
  - intros; apply HdI_lt; lia.
  - intros x Hx. rewrite HP1, HI1 by lia. rewrite R by (apply HdI_lt; lia). reflexivity.
Qed.
End PSim.

(* ================================================================ the permuted state of KKT_ALL_ELIMINATED *)
Section APerm.
Variable d : sdata.
Hypothesis Hwf : wf_sdata d.
Local Notation n := (sd_n d). Local Notation p := (sd_p d). Local Notation m := (sd_m d).
Local Notation P := (sd_P d). Local Notation AT := (sd_AT d). Local Notation GT := (sd_GT d).
Hypothesis Hup : upper_only P = true.
Hypothesis Hsorted : sorted_colsb P = true.
Variables (pinv kpC kiC a2c : list nat).

(* kp: the state under the ordering; kid: the identity-ordering state.  Everything coincides except the ordering, the pattern of
   PKPt, PKi, and the values, which correspond through PKi *)
Definition aperm (L : nat) (kid kp : akkt) : Prop :=
  ak_sc kp = ak_sc kid /\ ak_pinv kp = pinv /\ ak_kp kp = kpC /\ ak_ki kp = kiC /\ ak_PKi kp = a2c /\
  ak_P2K kp = ak_P2K kid /\ ak_A2K kp = ak_A2K kid /\ ak_G2K kp = ak_G2K kid /\
  ak_A kp = ak_A kid /\ ak_G kp = ak_G kid /\ ak_ATA kp = ak_ATA kid /\ ak_GTG kp = ak_GTG kid /\ ak_tmp kp = ak_tmp kid /\
  vrelA a2c L (ak_kx kid) (ak_kx kp).

(* the addressing hypotheses for a given pair of caches (established from perm_addr_okb below) *)
Definition addr_all (A G : csc F) : Prop :=
  let L := coff (kcols_all d A G) n in
  length a2c = L /\ (forall q, q < L -> nth q a2c 0 < L) /\
  (forall q q', q < L -> q' < L -> nth q a2c 0 = nth q' a2c 0 -> q = q') /\
  (forall col, col < n -> dpos pinv kpC col = Ok (nth (dpA d A G col) a2c 0)).

Lemma ak_set_GTG_fields k0 kx0 G0 t0 :
  ak_A (ak_set_GTG k0 kx0 G0 t0) = ak_A k0 /\ ak_G (ak_set_GTG k0 kx0 G0 t0) = ak_G k0 /\
  ak_sc (ak_set_GTG k0 kx0 G0 t0) = ak_sc k0 /\ ak_ATA (ak_set_GTG k0 kx0 G0 t0) = ak_ATA k0 /\ ak_GTG (ak_set_GTG k0 kx0 G0 t0) = G0 /\
  ak_pinv (ak_set_GTG k0 kx0 G0 t0) = ak_pinv k0 /\ ak_PKi (ak_set_GTG k0 kx0 G0 t0) = ak_PKi k0 /\ ak_kp (ak_set_GTG k0 kx0 G0 t0) = ak_kp k0 /\
  ak_ki (ak_set_GTG k0 kx0 G0 t0) = ak_ki k0 /\ ak_P2K (ak_set_GTG k0 kx0 G0 t0) = ak_P2K k0 /\ ak_A2K (ak_set_GTG k0 kx0 G0 t0) = ak_A2K k0 /\
  ak_G2K (ak_set_GTG k0 kx0 G0 t0) = ak_G2K k0 /\ ak_tmp (ak_set_GTG k0 kx0 G0 t0) = t0 /\ ak_kx (ak_set_GTG k0 kx0 G0 t0) = kx0.
Proof. destruct k0. cbn. repeat split. Qed.

Theorem sim_all_refresh kid kp : all_static d kid -> all_scal_ok d (ak_sc kid) -> addr_all (ak_A kid) (ak_G kid) ->
  aperm (coff (kcols_all d (ak_A kid) (ak_G kid)) n) kid kp ->
  exists kid' kp', all_refresh d kid = Ok kid' /\ all_refresh d kp = Ok kp' /\
    all_form d (ak_sc kid) kid' /\ ak_A kid' = ak_A kid /\ ak_G kid' = ak_G kid /\
    aperm (coff (kcols_all d (ak_A kid) (ak_G kid)) n) kid' kp'.
Proof.
  intros Hst Hsc (Ha_len & Ha_lt & Ha_inj & HdP) HP. cbv zeta in *.
  destruct (all_refresh_form d Hwf Hup Hsorted kid Hst Hsc) as (kid0 & E0 & Hf0).
  destruct Hst as (ax & gx & CA & CG & EATA & EGTG & VA & Lgx & Epinv & Epki & Ekp & Eki & MP & MA & MG & Etmp & Lkx). cbv zeta in *.
  destruct HP as (Psc & Ppinv & Pkp & Pki & Ppki & Pp2k & Pa2k & Pg2k & PA & PG & PATA & PGTG & Ptmp & Pv).
  set (A := ak_A kid) in *. set (G := ak_G kid) in *. set (kcols := kcols_all d A G) in *. set (L := coff kcols n) in *.
  set (kpI := colptr (csc_of_cols n kcols (fun _ _ => 0%Qc))) in *.
  pose proof Hwf as (HwP & HrP & HcP & HwAT & HrAT & HcAT & HwGT & HrGT & HcGT).
  destruct Hsc as (Hsc1 & Hdnz & Hwnz). destruct Hsc1 as (S1 & S2 & B1 & B2 & B3 & B4 & B5 & B6 & B7 & B8 & I1 & I2 & Z1 & Z2).
  pose proof (LaxA d Hwf A ax VA) as Lax.
  assert (Hlea : forall j r, j < n -> In r (prod_col A AT j) -> r <= j) by (intros j r _ H; now apply prod_col_le in H).
  assert (Hleg : forall j r, j < n -> In r (prod_col G GT j) -> r <= j) by (intros j r _ H; now apply prod_col_le in H).
  assert (SP : src_ok n kcols P).
  { exact (srcP_ok d Hwf Hsorted (prod_col A AT) (prod_col G GT) (repeat 0%Qc (coff (prod_col A AT) n)) (repeat 0%Qc (coff (prod_col G GT) n)) Hlea Hleg (repeat_length _ _) (repeat_length _ _)). }
  assert (SA : src_ok n kcols (ATA_of d A ax)) by (exact (srcA_ok d _ _ ax gx (fun j _ => prod_col_inc A AT j) Hlea Hleg Lax Lgx)).
  assert (HmP : forall k, k < nnz P -> k < length (ak_P2K kid) /\ nth k (ak_P2K kid) 0 < L).
  { intros k Hk. split; [destruct MP as [-> _]; auto|]. apply (map_lt d A G P (ak_P2K kid) SP MP k Hk). }
  assert (HmA : forall k, k < nnz (ATA_of d A ax) -> k < length (ak_A2K kid) /\ nth k (ak_A2K kid) 0 < L).
  { intros k Hk. split; [destruct MA as [-> _]; auto|]. apply (map_lt d A G _ (ak_A2K kid) SA MA k Hk). }
  (* simulation step by step *)
  assert (R0 : vrelA a2c L (repeat 0%Qc L) (repeat 0%Qc L)).
  { split; [apply repeat_length|]. split; [apply repeat_length|]. intros q Hq. now rewrite !nth_repeat. }
  destruct (sim_add_vals a2c L Ha_len Ha_lt Ha_inj (ak_P2K kid) None (vals P) (nnz P) _ _ HmP ltac:(rewrite (vals_len P HwP); lia) R0) as (xI1 & xP1 & EI1 & EP1 & R1).
  destruct (sim_diag_add pinv kpC a2c kpI n L (dpA d A G) Ha_len Ha_lt Ha_inj (dpos_all d A G) (dpA_lt d A G) (dpA_inj d A G) HdP n (sc_rho (ak_sc kid)) xI1 xP1 (le_n _) R1)
    as (xI2 & xP2 & EI2 & EP2 & R2).
  destruct (sim_add_vals a2c L Ha_len Ha_lt Ha_inj (ak_A2K kid) (Some (1 / sc_delta (ak_sc kid))%Qc) ax (nnz (ATA_of d A ax)) xI2 xP2 HmA) as (xI3 & xP3 & EI3 & EP3 & R3); auto.
  { rewrite Lax. unfold nnz, ATA_of. cbn [csc_set_vals rowind]. rewrite (proj1 (ofcols_nnz n (prod_col A AT) (fun _ _ => 0%Qc))). lia. }
  assert (Hwt : wt_ok m (Some (sc_s (ak_sc kid), sc_z_inv (ak_sc kid), sc_delta (ak_sc kid)))) by (unfold wt_ok; unfold Vec, F in *; split; [lia|split; [lia|exact Hwnz]]).
  destruct (scatter_cache_ok n m GT G (Some (sc_s (ak_sc kid), sc_z_inv (ak_sc kid), sc_delta (ak_sc kid))) gx HwGT HrGT HcGT CG Hwt) as (gx' & E4 & V4).
  { transitivity (coff (prod_col G GT) n); [exact Lgx|]. symmetry. unfold nnz. rewrite (pp_eq G GT n HrGT). apply (ofcols_nnz n (prod_col G GT) (fun _ _ => 0%Qc)). }
  rewrite (pp_eq G GT n HrGT) in E4. fold (GTG_of d G gx) in E4. fold (GTG_of d G gx') in E4.
  pose proof (LgxG d Hwf G _ gx' V4) as Lgx'.
  assert (SG : src_ok n kcols (GTG_of d G gx')) by (exact (srcG_ok d _ _ ax gx' (fun j _ => prod_col_inc G GT j) Hlea Hleg Lax Lgx')).
  assert (MG' : map_ok n kcols (GTG_of d G gx') (ak_G2K kid)) by (apply (map_ok_pat d A G (GTG_of d G gx)); auto).
  assert (HmG : forall k, k < nnz (GTG_of d G gx') -> k < length (ak_G2K kid) /\ nth k (ak_G2K kid) 0 < L).
  { intros k Hk. split; [destruct MG' as [-> _]; auto|]. apply (map_lt d A G _ (ak_G2K kid) SG MG' k Hk). }
  destruct (sim_add_vals a2c L Ha_len Ha_lt Ha_inj (ak_G2K kid) None gx' (nnz (GTG_of d G gx')) xI3 xP3 HmG) as (xI4 & xP4 & EI4 & EP4 & R4); auto.
  { rewrite Lgx'. unfold nnz, GTG_of. cbn [csc_set_vals rowind]. rewrite (proj1 (ofcols_nnz n (prod_col G GT) (fun _ _ => 0%Qc))). lia. }
  destruct (sim_box_loop pinv kpC a2c kpI n L (dpA d A G) Ha_len Ha_lt Ha_inj (dpos_all d A G) (dpA_lt d A G) (dpA_inj d A G) HdP
              n (sd_nlb d) (sd_lbidx d) (sd_lbs d) (sc_z_lb_inv (ak_sc kid)) (sc_s_lb (ak_sc kid)) (sc_delta (ak_sc kid)) xI4 xP4) as (xI5 & xP5 & EI5 & EP5 & R5); auto.
  destruct (sim_box_loop pinv kpC a2c kpI n L (dpA d A G) Ha_len Ha_lt Ha_inj (dpos_all d A G) (dpA_lt d A G) (dpA_inj d A G) HdP
              n (sd_nub d) (sd_ubidx d) (sd_ubs d) (sc_z_ub_inv (ak_sc kid)) (sc_s_ub (ak_sc kid)) (sc_delta (ak_sc kid)) xI5 xP5) as (xI6 & xP6 & EI6 & EP6 & R6); auto.
  (* the two computations *)
  assert (CI : all_refresh d kid = Ok (ak_set_GTG kid xI6 (GTG_of d G gx') (repeat 0%Qc n))).
  { unfold all_refresh, all_cost_scalings. rewrite Lkx, Epki, Epinv, Ekp. fold L kpI.
    rewrite (for_cols_flat P _ HwP).
    change (for_range 0 (nnz P) (fun q kx => do q0 <- get (ak_P2K kid) q ;; do qq <- get (seq 0 L) q0 ;; do v <- get (vals P) q ;; do old <- get kx qq ;; upd kx qq (old + v)%Qc) (repeat 0%Qc L))
      with (add_vals (ak_P2K kid) (seq 0 L) None (vals P) (nnz P) (repeat 0%Qc L)).
    unfold Vec, F in *. rewrite EI1. cbn [bind]. rewrite EI2. cbn [bind].
    unfold all_equality_scalings. rewrite Epki, EATA. rewrite qdiv_nz by auto. cbn [bind]. change (vals (ATA_of d A ax)) with ax. fold L. unfold Vec, F in *. rewrite EI3. cbn [bind].
    unfold all_inequality_scaling. fold G. rewrite EGTG, Etmp, Epki. unfold Vec, F in *. rewrite E4. cbn [bind]. change (vals (GTG_of d G gx')) with gx'. fold L. unfold Vec, F in *. rewrite EI4. cbn [bind].
    unfold all_box_scalings. rewrite Epinv, Ekp. fold kpI. unfold Vec, F in *. rewrite EI5. cbn [bind]. unfold Vec, F in *. rewrite EI6. cbn [bind]. reflexivity. }
  assert (CP : all_refresh d kp = Ok (ak_set_GTG kp xP6 (GTG_of d G gx') (repeat 0%Qc n))).
  { unfold all_refresh, all_cost_scalings. destruct Pv as (_ & LkP & _). rewrite LkP, Ppki, Ppinv, Pkp, Pp2k, Psc.
    rewrite (for_cols_flat P _ HwP).
    change (for_range 0 (nnz P) (fun q kx => do q0 <- get (ak_P2K kid) q ;; do qq <- get a2c q0 ;; do v <- get (vals P) q ;; do old <- get kx qq ;; upd kx qq (old + v)%Qc) (repeat 0%Qc L))
      with (add_vals (ak_P2K kid) a2c None (vals P) (nnz P) (repeat 0%Qc L)).
    unfold Vec, F in *. rewrite EP1. cbn [bind]. rewrite EP2. cbn [bind].
    unfold all_equality_scalings. rewrite Ppki, Pa2k, PATA, Psc, EATA. rewrite qdiv_nz by auto. cbn [bind]. change (vals (ATA_of d A ax)) with ax. unfold Vec, F in *. rewrite EP3. cbn [bind].
    unfold all_inequality_scaling. rewrite PG, PGTG, Ptmp, Ppki, Pg2k, Psc. fold G. rewrite EGTG, Etmp. unfold Vec, F in *. rewrite E4. cbn [bind]. change (vals (GTG_of d G gx')) with gx'. unfold Vec, F in *. rewrite EP4. cbn [bind].
    unfold all_box_scalings. rewrite Ppinv, Pkp, Psc. unfold Vec, F in *. rewrite EP5. cbn [bind]. unfold Vec, F in *. rewrite EP6. cbn [bind]. reflexivity. }
  rewrite CI in E0. injection E0 as <-.
  eexists. eexists. split; [exact CI|]. split; [exact CP|]. split; [exact Hf0|].
  destruct (ak_set_GTG_fields kid xI6 (GTG_of d G gx') (repeat 0%Qc n)) as (F1 & F2 & F3 & F4 & F5 & F6 & F7 & F8 & F9 & F10 & F11 & F12 & F13 & F14).
  destruct (ak_set_GTG_fields kp xP6 (GTG_of d G gx') (repeat 0%Qc n)) as (Q1 & Q2 & Q3 & Q4 & Q5 & Q6 & Q7 & Q8 & Q9 & Q10 & Q11 & Q12 & Q13 & Q14).
  split; [exact F1|]. split; [exact F2|].
  unfold aperm. rewrite F1, F2, F3, F4, F5, F10, F11, F12, F13, F14, Q1, Q2, Q3, Q4, Q5, Q6, Q7, Q8, Q9, Q10, Q11, Q12, Q13, Q14.
  repeat (split; [assumption || reflexivity|]). exact R6.
Qed.
End APerm.

(* ================================================================ from the boolean check to the hypotheses (pattern of csc_of_cols) *)
Section ChkAll.
Variables (n : nat) (kcols : nat -> list nat).
Hypothesis Hpos : forall j, j < n -> 0 < length (kcols j).
Let Kp := colptr (csc_of_cols n kcols (fun _ _ => 0%Qc)).
Let Ki := rowind (csc_of_cols n kcols (fun _ _ => 0%Qc)).
Local Notation L := (coff kcols n).
Variables (pinv : list nat) (C : csc nat) (a2c : list nat).
Hypothesis Hok : perm_spec_okb n Kp Ki pinv C a2c = true.
Local Notation pv := (fun c => nth c pinv 0).
Local Notation cpC := (fun c => nth c (colptr C) 0).

Lemma Ki_len : length Ki = L. Proof. apply (ofcols_nnz n kcols (fun _ _ => 0%Qc)). Qed.
Lemma Kp_nth j : j <= n -> nth j Kp 0 = coff kcols j. Proof. intros. apply (ofcols_cp n kcols (fun _ _ => 0%Qc)); auto. Qed.

Lemma chk_all :
  (length pinv = n /\ (forall c, c < n -> pv c < n) /\ (forall c c', c < n -> c' < n -> pv c = pv c' -> c = c')) /\
  (nrows C = n /\ ncols C = n /\ wf_csc C = true /\ length (rowind C) = L) /\
  (length a2c = L /\ (forall q, q < L -> nth q a2c 0 < L) /\ (forall q q', q < L -> q' < L -> nth q a2c 0 = nth q' a2c 0 -> q = q')) /\
  (forall k, k < L -> nth (nth k a2c 0) (vals C) 0 = k) /\
  (forall col, col < n -> dpos pinv (colptr C) col = Ok (nth (coff kcols (S col) - 1) a2c 0)).
Proof.
  unfold perm_spec_okb in Hok. cbv zeta in Hok. rewrite !andb_true_iff in Hok.
  destruct Hok as (((((((((((B1 & B2) & B3) & B4) & B5) & B6) & B7) & B8) & B9) & B10) & B11) & B12).
  apply Nat.eqb_eq in B1, B4, B5, B7, B8. rewrite Ki_len in *.
  assert (P2 : forall c, c < n -> pv c < n) by (intros c Hc; apply Nat.ltb_lt; apply (forallb_nth (fun c => c <? n)); auto; lia).
  split; [|split; [|split; [|split]]].
  - split; [exact B1|]. split; [exact P2|]. intros c c' Hc Hc'. apply nodupb_inj; auto; lia.
  - auto.
  - split; [exact B8|]. split.
    + intros q Hq. apply Nat.ltb_lt. apply (forallb_nth (fun q => q <? L)); auto. lia.
    + intros q q' Hq Hq'. apply nodupb_inj; auto; lia.
  - intros k Hk. destruct (off_decomp (coff kcols) (fun j => length (kcols j)) n (fun c _ => eq_refl) k ltac:(cbn; lia)) as (j & t & Hj & Ht & ->).
    rewrite forallb_forall in B11. specialize (B11 j ltac:(apply in_seq; lia)). rewrite forallb_forall in B11.
    specialize (B11 (coff kcols j + t)). rewrite !Kp_nth in B11 by lia. cbn [coff] in B11.
    specialize (B11 ltac:(apply in_seq; lia)). rewrite !andb_true_iff in B11. destruct B11 as (_ & D4). now apply Nat.eqb_eq in D4.
  - intros col Hc. rewrite forallb_forall in B12. specialize (B12 col ltac:(apply in_seq; lia)). cbv zeta in B12.
    rewrite !andb_true_iff in B12. destruct B12 as ((D1 & D2) & _). apply Nat.ltb_lt in D1. apply Nat.eqb_eq in D2. rewrite Kp_nth in D2 by lia.
    unfold dpos. rewrite (get_nth pinv col 0) by lia. cbn [bind].
    rewrite (get_nth (colptr C) _ 0) by (rewrite (wf_cp_len C B6), B5; specialize (P2 col Hc); lia). cbn [bind].
    rewrite pred_chk_pos by lia. now rewrite D2.
Qed.
End ChkAll.

(* ================================================================ the permuted state as image of the identity-ordered one *)
(* kp is the image of kid under the ordering perm: the positions run of permute_sym on kid's pattern passes the boolean check
   perm_spec_okb (this is the content of perm_addr_okb), and kp carries pinv / the permuted pattern / the map a2c and the values of
   kid moved through a2c; scalings, the three maps, the cached transposes and products are identical *)
Definition all_perm_img (n : nat) (perm : list nat) (kid kp : akkt) : Prop :=
  exists o Cpos a2c, ordering_init perm = Ok o /\
    permute_sym (length (ak_ki kid)) (mkcsc n n (ak_kp kid) (ak_ki kid) (seq 0 (length (ak_ki kid)))) (oPinv o) = Ok (Cpos, a2c) /\
    perm_spec_okb n (ak_kp kid) (ak_ki kid) (oPinv o) Cpos a2c = true /\
    aperm (oPinv o) (colptr Cpos) (rowind Cpos) a2c (length (ak_ki kid)) kid kp.

Lemma perm_addr_okb_intro N Kp Ki perm o Cpos a2c : ordering_init perm = Ok o ->
  permute_sym (length Ki) (mkcsc N N Kp Ki (seq 0 (length Ki))) (oPinv o) = Ok (Cpos, a2c) ->
  perm_spec_okb N Kp Ki (oPinv o) Cpos a2c = true -> perm_addr_okb N Kp Ki perm = true.
Proof. intros E1 E2 H. unfold perm_addr_okb. cbv zeta. rewrite E1, E2. exact H. Qed.

Lemma all_refresh_pat d k k' : all_refresh d k = Ok k' ->
  ak_kp k' = ak_kp k /\ ak_ki k' = ak_ki k /\ ak_pinv k' = ak_pinv k /\ ak_PKi k' = ak_PKi k /\ ak_sc k' = ak_sc k.
Proof.
  unfold all_refresh. intros H. apply bind_ok in H as (kx1 & _ & H). apply bind_ok in H as (kx2 & _ & H).
  apply bind_ok in H as ([[kx3 GTG] tmp] & _ & H). apply bind_ok in H as (kx4 & _ & H). injection H as <-. destruct k. repeat split; reflexivity.
Qed.

Section ImgAll.
Variable d : sdata.
Hypothesis Hwf : wf_sdata d.
Local Notation n := (sd_n d).
Hypothesis Hup : upper_only (sd_P d) = true.
Hypothesis Hsorted : sorted_colsb (sd_P d) = true.

Lemma static_ki_len k : all_static d k -> length (ak_ki k) = coff (kcols_all d (ak_A k) (ak_G k)) n.
Proof.
  intros (ax & gx & _ & _ & _ & _ & _ & _ & _ & _ & _ & Eki & _). cbv zeta in *. rewrite Eki.
  apply (ofcols_nnz n (kcols_all d (ak_A k) (ak_G k)) (fun _ _ => 0%Qc)).
Qed.

Lemma img_addr k pinv Cpos a2c : all_static d k -> perm_spec_okb n (ak_kp k) (ak_ki k) pinv Cpos a2c = true ->
  addr_all d pinv (colptr Cpos) a2c (ak_A k) (ak_G k).
Proof.
  intros (ax & gx & _ & _ & _ & _ & _ & _ & _ & _ & Ekp & Eki & _) Hok. cbv zeta in *. rewrite Ekp, Eki in Hok.
  destruct (chk_all n (kcols_all d (ak_A k) (ak_G k)) pinv Cpos a2c Hok) as (_ & _ & (A1 & A2 & A3) & _ & HD).
  unfold addr_all. cbv zeta. split; [exact A1|]. split; [exact A2|]. split; [exact A3|]. intros col Hc. unfold dpA. now apply HD.
Qed.

Lemma static_pat k k' : all_static d k -> all_static d k' -> ak_A k' = ak_A k -> ak_G k' = ak_G k -> ak_kp k' = ak_kp k /\ ak_ki k' = ak_ki k.
Proof.
  intros (ax & gx & _ & _ & _ & _ & _ & _ & _ & _ & Ekp & Eki & _) (ax' & gx' & _ & _ & _ & _ & _ & _ & _ & _ & Ekp' & Eki' & _) EA EG.
  cbv zeta in *. rewrite EA, EG in *. split; congruence.
Qed.

Lemma aperm_set_sc pinv kpC kiC a2c L kid kp c : aperm pinv kpC kiC a2c L kid kp -> aperm pinv kpC kiC a2c L (ak_set_sc kid c) (ak_set_sc kp c).
Proof.
  intros H. destruct (ak_set_sc_fields kid c) as (F1 & F2 & F3 & F4 & F5 & F6 & F7 & F8 & F9 & F10 & F11 & F12 & F13 & F14).
  destruct (ak_set_sc_fields kp c) as (G1 & G2 & G3 & G4 & G5 & G6 & G7 & G8 & G9 & G10 & G11 & G12 & G13 & G14).
  unfold aperm in *. rewrite F1, F2, F3, F4, F5, F10, F11, F12, F13, F14, G1, G2, G3, G4, G5, G6, G7, G8, G9, G10, G11, G12, G13, G14.
  destruct H as (_ & H). split; [reflexivity|exact H].
Qed.

Lemma img_set_sc perm kid kp c : all_perm_img n perm kid kp -> all_perm_img n perm (ak_set_sc kid c) (ak_set_sc kp c).
Proof.
  intros (o & Cpos & a2c & Eo & Eperm & Hok & R). exists o, Cpos, a2c.
  destruct (ak_set_sc_fields kid c) as (_ & _ & _ & _ & _ & _ & _ & F8 & F9 & _). rewrite F8, F9.
  split; [exact Eo|]. split; [exact Eperm|]. split; [exact Hok|]. now apply aperm_set_sc.
Qed.

(* the four refresh calls on both states *)
Theorem img_refresh perm kid kp : all_static d kid -> all_scal_ok d (ak_sc kid) -> all_perm_img n perm kid kp ->
  exists kid' kp', all_refresh d kid = Ok kid' /\ all_refresh d kp = Ok kp' /\ all_form d (ak_sc kid) kid' /\
    ak_A kid' = ak_A kid /\ ak_G kid' = ak_G kid /\ all_perm_img n perm kid' kp'.
Proof.
  intros Hst Hsc (o & Cpos & a2c & Eo & Eperm & Hok & R).
  pose proof (img_addr kid _ _ _ Hst Hok) as Had. rewrite (static_ki_len kid Hst) in R.
  destruct (sim_all_refresh d Hwf Hup Hsorted (oPinv o) (colptr Cpos) (rowind Cpos) a2c kid kp Hst Hsc Had R) as (kid' & kp' & E1 & E2 & Hf & EA & EG & R').
  exists kid', kp'. split; [exact E1|]. split; [exact E2|]. split; [exact Hf|]. split; [exact EA|]. split; [exact EG|].
  destruct (all_refresh_pat d kid kid' E1) as (P1 & P2 & _).
  exists o, Cpos, a2c. rewrite P1, P2. split; [exact Eo|]. split; [exact Eperm|]. split; [exact Hok|]. now rewrite (static_ki_len kid Hst).
Qed.

(* (c), permuted: update_scalings on both states *)
Theorem all_perm_update_scalings_form perm kid kp rho delta s s_lb s_ub z z_lb z_ub zi zlbi zubi :
  all_static d kid -> all_perm_img n perm kid kp ->
  sd_nlb d <= length s_lb -> sd_nlb d <= length z_lb -> sd_nub d <= length s_ub -> sd_nub d <= length z_ub ->
  vinv z = Ok zi -> vinv (head (sd_nlb d) z_lb) = Ok zlbi -> vinv (head (sd_nub d) z_ub) = Ok zubi ->
  all_scal_ok d (new_scal d (ak_sc kid) rho delta s s_lb s_ub zi zlbi zubi) ->
  exists kid' kp', all_update_scalings d kid rho delta s s_lb s_ub z z_lb z_ub = Ok kid' /\
                   all_update_scalings d kp rho delta s s_lb s_ub z z_lb z_ub = Ok kp' /\
                   all_form d (new_scal d (ak_sc kid) rho delta s s_lb s_ub zi zlbi zubi) kid' /\
                   all_perm_img n perm kid' kp'.
Proof.
  intros Hst Himg L1 L2 L3 L4 E1 E2 E3 Hsc.
  assert (Esc : ak_sc kp = ak_sc kid) by (destruct Himg as (o & Cpos & a2c & _ & _ & _ & R); apply R).
  unfold all_update_scalings, chk_len. rewrite Esc.
  destruct (Nat.ltb_spec (length s_lb) (sd_nlb d)) as [?Hy|?Hn]; [lia|]. cbn [bind].
  destruct (Nat.ltb_spec (length z_lb) (sd_nlb d)) as [?Hy|?Hn]; [lia|]. cbn [bind].
  destruct (Nat.ltb_spec (length s_ub) (sd_nub d)) as [?Hy|?Hn]; [lia|]. cbn [bind].
  destruct (Nat.ltb_spec (length z_ub) (sd_nub d)) as [?Hy|?Hn]; [lia|]. cbn [bind].
  rewrite E1, E2, E3. cbn [bind]. cbv zeta. unfold all_apply_scalings.
  fold (new_scal d (ak_sc kid) rho delta s s_lb s_ub zi zlbi zubi).
  set (c' := new_scal d (ak_sc kid) rho delta s s_lb s_ub zi zlbi zubi) in *.
  destruct (ak_set_sc_fields kid c') as (_ & _ & F3 & _).
  destruct (img_refresh perm (ak_set_sc kid c') (ak_set_sc kp c')) as (kid' & kp' & R1 & R2 & Hf & _ & _ & Himg').
  - now apply all_static_set_sc.
  - now rewrite F3.
  - now apply img_set_sc.
  - exists kid', kp'. split; [exact R1|]. split; [exact R2|]. rewrite F3 in Hf. split; [exact Hf|exact Himg'].
Qed.
End ImgAll.

Section InitPerm.
Variable d : sdata.
Hypothesis Hwf : wf_sdata d.
Local Notation n := (sd_n d). Local Notation p := (sd_p d). Local Notation m := (sd_m d).
Local Notation P := (sd_P d). Local Notation AT := (sd_AT d). Local Notation GT := (sd_GT d).
Hypothesis Hup : upper_only P = true.
Hypothesis Hsorted : sorted_colsb P = true.

(* init under an ordering that passes the check: the permuted state is the image of the identity-ordered one *)
Theorem all_init_perm rho delta perm am : delta <> 0%Qc -> (1 + delta)%Qc <> 0%Qc -> scal_ok d (unit_scal d rho delta) ->
  all_create d rho delta = Ok am ->
  perm_addr_okb n (colptr (am_K am)) (rowind (am_K am)) perm = true ->
  exists kid kp, all_init d rho delta None = Ok kid /\ all_init d rho delta (Some perm) = Ok kp /\
                 all_form d (unit_scal d rho delta) kid /\ all_perm_img n perm kid kp /\
                 ak_kp kid = colptr (am_K am) /\ ak_ki kid = rowind (am_K am).
Proof.
  intros Hd Hd1 Hsc0 Eam Hchk.
  destruct (all_init_form d Hwf Hup Hsorted rho delta Hd Hd1 Hsc0) as (kid & Ekid & Hform).
  destruct Hsc0 as (S1 & S2 & B1 & B2 & B3 & B4 & B5 & B6 & B7 & B8 & I1 & I2 & Z1 & Z2).
  destruct (all_create_ok d Hwf Hsorted rho delta Hd Hd1) as (A & G & ax & gx & p2k & a2k & g2k & EC & CA & CG & VA & VG & MP & MA & MG).
  cbv zeta in *. set (gx' := map (fun v => (v * (1 / (1 + delta)))%Qc) gx) in *.
  rewrite EC in Eam. injection Eam as <-. cbn [am_K] in Hchk |- *.
  set (K := csc_of_cols n (kcols_all d A G) (kval_of d (prod_col A AT) (prod_col G GT) ax gx' rho (1 / delta)%Qc)) in *.
  assert (LKv : length (vals K) = coff (kcols_all d A G) n) by (unfold K; apply ofcols_nnz).
  assert (LKi : length (rowind K) = coff (kcols_all d A G) n) by (unfold K; apply ofcols_nnz).
  assert (EKp : colptr K = colptr (csc_of_cols n (kcols_all d A G) (fun _ _ => 0%Qc))) by reflexivity.
  assert (EKi : rowind K = rowind (csc_of_cols n (kcols_all d A G) (fun _ _ => 0%Qc))) by reflexivity.
  destruct (perm_addr_okb_inv _ _ _ _ Hchk) as (o & Cpos & a2c & Eo & Eperm & Hok).
  pose proof Hok as Hok'. rewrite EKp, EKi in Hok'.
  destruct (chk_all n (kcols_all d A G) (oPinv o) Cpos a2c Hok') as ((P1 & P2 & P3) & (C1 & C2 & C3 & C4) & (A1 & A2 & A3) & Hent & HD).
  (* the run on values, by naturality *)
  set (f := fun k => nth k (vals K) 0%Qc).
  assert (Eval : permute_sym 0%Qc K (oPinv o) = Ok (mapv f Cpos, a2c)).
  { pose proof (permute_sym_natural f (length (rowind K)) (mkcsc n n (colptr K) (rowind K) (seq 0 (length (rowind K)))) (oPinv o)) as Nat.
    rewrite Eperm in Nat. cbn [rmap fst snd] in Nat.
    replace (f (length (rowind K))) with (0%Qc : F) in Nat by (unfold f; rewrite nth_overflow; [reflexivity|unfold Vec, F in *; lia]).
    replace (mapv f (mkcsc n n (colptr K) (rowind K) (seq 0 (length (rowind K))))) with K in Nat; [exact Nat|].
    unfold mapv. cbn [nrows ncols colptr rowind vals]. unfold f. rewrite LKi, <- LKv. rewrite seq_map_nth.
    rewrite (csc_eta K) at 1. reflexivity. }
  (* initial relation *)
  assert (R0 : vrelA a2c (coff (kcols_all d A G) n) (vals K) (vals (mapv f Cpos))).
  { unfold vrelA, mapv. cbn [vals]. split; [exact LKv|]. split; [rewrite map_length, (wf_vals_len Cpos C3); exact C4|].
    intros q Hq.
    assert (Hlt : nth q a2c 0 < length (vals Cpos)) by (rewrite (wf_vals_len Cpos C3), C4; apply A2; auto).
    rewrite (nth_indep _ 0%Qc (f 0)) by (rewrite map_length; exact Hlt). rewrite map_nth. rewrite Hent by auto. reflexivity. }
  assert (HD' : forall col, col < n -> dpos (oPinv o) (colptr Cpos) col = Ok (nth (dpA d A G col) a2c 0)) by (intros col Hc; unfold dpA; now apply HD).
  destruct (sim_box_loop (oPinv o) (colptr Cpos) a2c (colptr K) n (coff (kcols_all d A G) n) (dpA d A G) A1 A2 A3
              (dpos_all d A G) (dpA_lt d A G) (dpA_inj d A G) HD'
              n (sd_nlb d) (sd_lbidx d) (sd_lbs d) (vconst (sd_nlb d) 1 ++ vconst (n - sd_nlb d) 0)%Qc (vconst (sd_nlb d) 1 ++ vconst (n - sd_nlb d) 0)%Qc delta
              (vals K) (vals (mapv f Cpos))) as (kxI1 & kxP1 & EI1 & EP1 & R1); auto.
  destruct (sim_box_loop (oPinv o) (colptr Cpos) a2c (colptr K) n (coff (kcols_all d A G) n) (dpA d A G) A1 A2 A3
              (dpos_all d A G) (dpA_lt d A G) (dpA_inj d A G) HD'
              n (sd_nub d) (sd_ubidx d) (sd_ubs d) (vconst (sd_nub d) 1 ++ vconst (n - sd_nub d) 0)%Qc (vconst (sd_nub d) 1 ++ vconst (n - sd_nub d) 0)%Qc delta
              kxI1 kxP1) as (kxI2 & kxP2 & EI2 & EP2 & R2); auto.
  (* both computations *)
  unfold all_init in Ekid |- *. rewrite EC in *. cbn [bind] in *. cbv zeta in *.
  cbn [am_K am_P2K am_A2K am_G2K am_A am_G am_ATA am_GTG am_tmp] in *. fold K in Ekid |- *.
  rewrite Eo. cbn [bind]. rewrite Eval. cbn [bind].
  unfold all_box_scalings in *. cbn [ak_pinv ak_kp ak_sc ak_kx unit_scal sc_z_lb_inv sc_s_lb sc_delta sc_z_ub_inv sc_s_ub] in *.
  unfold Vec, F in *. rewrite EI1 in Ekid. cbn [bind] in Ekid. unfold Vec, F in *. rewrite EI2 in Ekid. cbn [bind] in Ekid. injection Ekid as <-.
  rewrite EI1. cbn [bind]. unfold Vec, F in *. rewrite EI2. cbn [bind].
  cbn [mapv colptr rowind vals] in EP1 |- *. unfold Vec, F in *. rewrite EP1. cbn [bind]. unfold Vec, F in *. rewrite EP2. cbn [bind].
  eexists. eexists. split; [reflexivity|]. split; [reflexivity|]. split; [exact Hform|].
  split; [|split; reflexivity].
  exists o, Cpos, a2c. cbn [ak_set_kx ak_kp ak_ki]. split; [exact Eo|]. split; [exact Eperm|]. split; [exact Hok|].
  unfold aperm. cbn [ak_set_kx ak_sc ak_pinv ak_kp ak_ki ak_kx ak_PKi ak_P2K ak_A2K ak_G2K ak_A ak_G ak_ATA ak_GTG ak_tmp].
  repeat (split; [reflexivity|]). rewrite LKi. exact R2.
Qed.

(* the same with the check stated on the identity-ordered state *)
Corollary all_init_perm_of_id rho delta perm kid : delta <> 0%Qc -> (1 + delta)%Qc <> 0%Qc -> scal_ok d (unit_scal d rho delta) ->
  all_init d rho delta None = Ok kid ->
  perm_addr_okb n (ak_kp kid) (ak_ki kid) perm = true ->
  exists kp, all_init d rho delta (Some perm) = Ok kp /\ all_perm_img n perm kid kp.
Proof.
  intros Hd Hd1 Hsc0 Ekid Hchk.
  pose proof Ekid as E. unfold all_init in E. cbv zeta in E. apply bind_ok in E as (am & Eam & E). cbn [bind] in E.
  apply bind_ok in E as (kx & _ & E). injection E as E.
  assert (Ekp : ak_kp kid = colptr (am_K am)) by (rewrite <- E; reflexivity).
  assert (Eki : ak_ki kid = rowind (am_K am)) by (rewrite <- E; reflexivity).
  rewrite Ekp, Eki in Hchk.
  destruct (all_init_perm rho delta perm am Hd Hd1 Hsc0 Eam Hchk) as (kid' & kp & E1 & E2 & _ & Himg & _).
  rewrite Ekid in E1. injection E1 as <-. exists kp. split; [exact E2|exact Himg].
Qed.
End InitPerm.

Lemma chk_diag N Kp Ki pinv (C : csc nat) a2c : perm_spec_okb N Kp Ki pinv C a2c = true ->
  forall col, col < N -> nth (nth col pinv 0) (colptr C) 0 < nth (S (nth col pinv 0)) (colptr C) 0 /\
                         nth (nth (S (nth col pinv 0)) (colptr C) 0 - 1) (rowind C) 0 = nth col pinv 0.
Proof.
  intros Hok col Hc. unfold perm_spec_okb in Hok. cbv zeta in Hok. rewrite !andb_true_iff in Hok. destruct Hok as (_ & B12).
  rewrite forallb_forall in B12. specialize (B12 col ltac:(apply in_seq; lia)). cbv zeta in B12.
  rewrite !andb_true_iff in B12. destruct B12 as ((D1 & _) & D3). apply Nat.ltb_lt in D1. apply Nat.eqb_eq in D3. auto.
Qed.

Lemma inj_perm_wf (l : list nat) L : length l = L -> (forall q, q < L -> nth q l 0 < L) ->
  (forall q q', q < L -> q' < L -> nth q l 0 = nth q' l 0 -> q = q') -> perm_wf l.
Proof.
  intros E R I. split.
  - apply (NoDup_nth _ 0). intros a b Ha Hb. apply I; lia.
  - intros x Hx. apply (In_nth _ _ 0) in Hx as (k & Hk & <-). rewrite E in *. now apply R.
Qed.

(* the values of the image are determined by those of the identity-ordered state *)
Lemma vrelA_fun a2c L kxI kxP kxP' : length a2c = L -> (forall q, q < L -> nth q a2c 0 < L) ->
  (forall q q', q < L -> q' < L -> nth q a2c 0 = nth q' a2c 0 -> q = q') ->
  vrelA a2c L kxI kxP -> vrelA a2c L kxI kxP' -> kxP = kxP'.
Proof.
  intros A1 A2 A3 (L1 & L2 & R) (_ & L2' & R').
  apply (nth_ext _ _ (0%Qc : F) (0%Qc : F)); [congruence|]. intros r Hr. rewrite L2 in Hr.
  destruct (perm_wf_surj a2c r (inj_perm_wf a2c L A1 A2 A3) ltac:(lia)) as (q & Hq & <-). rewrite A1 in Hq.
  rewrite R, R' by auto. reflexivity.
Qed.

Section DenotesPerm.
Variable d : sdata.
Hypothesis Hwf : wf_sdata d.
Local Notation n := (sd_n d).
Hypothesis Hup : upper_only (sd_P d) = true.
Hypothesis Hsorted : sorted_colsb (sd_P d) = true.

(* what the image denotes: K_red(data, scalings) symmetrically permuted, upper triangle, diagonal last in each column.
   The entry clause comes from the all-n theorem about permute_sym (PermuteGenProofs.permute_sym_get) by naturality in the values *)
Theorem all_perm_form_denotes c perm kid kp : all_form d c kid -> all_perm_img n perm kid kp ->
  let Kp := mkcsc n n (ak_kp kp) (ak_ki kp) (ak_kx kp) in
  let pv := fun i => nth i (ak_pinv kp) 0 in
  wf_csc Kp = true /\ upper_only Kp = true /\ diag_is_last Kp /\
  length (ak_pinv kp) = n /\ (forall i, i < n -> pv i < n) /\ (forall i i', i < n -> i' < n -> pv i = pv i' -> i = i') /\
  forall i j, i <= j -> j < n ->
    csc_get Kp (Nat.min (pv i) (pv j)) (Nat.max (pv i) (pv j)) = a_Kred (sys_sparse d c) i j.
Proof.
  intros Hf (o & Cpos & a2c & Eo & Eperm & Hok & R). cbv zeta.
  pose proof Hf as (Hst & _ & _).
  destruct (all_form_denotes d Hwf Hup c kid Hf) as (WI & UI & _ & GI). cbv zeta in *.
  pose proof (static_ki_len d kid Hst) as LKi.
  pose proof Hst as (ax & gx & _ & _ & _ & _ & _ & _ & _ & _ & Ekp & Eki & _ & _ & _ & _ & Lkx). cbv zeta in *.
  pose proof Hok as Hok'. rewrite Ekp, Eki in Hok'.
  destruct (chk_all n (kcols_all d (ak_A kid) (ak_G kid)) (oPinv o) Cpos a2c Hok') as ((P1 & P2 & P3) & (C1 & C2 & C3 & C4) & (A1 & A2 & A3) & Hent & HD).
  destruct R as (_ & Epv & Ekp' & Eki' & _ & _ & _ & _ & _ & _ & _ & _ & _ & (LI & LP & RV)).
  rewrite LKi in *.
  set (L := coff (kcols_all d (ak_A kid) (ak_G kid)) n) in *.
  rewrite Epv, Ekp', Eki'.
  set (KI := mkcsc n n (ak_kp kid) (ak_ki kid) (ak_kx kid)) in *.
  destruct (permute_sym_get 0%Qc KI (oPinv o) WI eq_refl UI P1 P2 P3) as (C & a2c' & EC & Hpost & Hget).
  (* the run on values, by naturality *)
  set (f := fun k => nth k (ak_kx kid) 0%Qc).
  assert (Eval : permute_sym 0%Qc KI (oPinv o) = Ok (mapv f Cpos, a2c)).
  { pose proof (permute_sym_natural f L (mkcsc n n (ak_kp kid) (ak_ki kid) (seq 0 L)) (oPinv o)) as Nat.
    rewrite Eperm in Nat. cbn [rmap fst snd] in Nat.
    replace (f L) with (0%Qc : F) in Nat by (unfold f; rewrite nth_overflow; [reflexivity|unfold Vec, F in *; lia]).
    replace (mapv f (mkcsc n n (ak_kp kid) (ak_ki kid) (seq 0 L))) with KI in Nat; [exact Nat|].
    unfold mapv, KI. cbn [nrows ncols colptr rowind vals]. unfold f. rewrite <- LI. now rewrite seq_map_nth. }
  unfold Vec, F in *. rewrite Eval in EC. injection EC as <- <-.
  (* the stored values are those of the permuted matrix *)
  assert (EV : ak_kx kp = map f (vals Cpos)).
  { apply (nth_ext _ _ (0%Qc : F) (f 0)); [rewrite map_length, (wf_vals_len Cpos C3); etransitivity; [exact LP|symmetry; exact C4]|]. intros r Hr. assert (Hr2 : r < L) by (unfold Vec, F in *; lia). clear Hr.
    destruct (perm_wf_surj a2c r (inj_perm_wf a2c L A1 A2 A3) ltac:(lia)) as (q & Hq & <-). rewrite A1 in Hq.
    rewrite RV by auto. rewrite map_nth. rewrite Hent by auto. reflexivity. }
  assert (EM : mkcsc n n (colptr Cpos) (rowind Cpos) (ak_kx kp) = mapv f Cpos) by (unfold mapv; rewrite C1, C2, EV; reflexivity).
  unfold Vec, F in *. rewrite EM. destruct Hpost as (Q1 & Q2 & Q3 & Q4 & _). cbn [fst snd] in *.
  split; [exact Q3|]. split; [exact Q4|]. split.
  { intros j Hj. unfold mapv in Hj |- *. cbn [ncols] in Hj. unfold cp. cbn [colptr rowind]. rewrite C2 in Hj.
    destruct (perm_wf_surj (oPinv o) j (inj_perm_wf (oPinv o) n P1 P2 P3) ltac:(lia)) as (col & Hcol & <-). rewrite P1 in Hcol.
    exact (chk_diag _ _ _ _ _ _ Hok col Hcol). }
  split; [exact P1|]. split; [exact P2|]. split; [exact P3|].
  intros i j Hij Hj. rewrite (Hget i j Hij Hj). apply GI; auto.
Qed.
End DenotesPerm.

(* ================================================================ update_data on both states *)
Lemma aperm_branch_A pinv kpC kiC a2c L XT kid kp k1 : aperm pinv kpC kiC a2c L kid kp ->
  (do A <- transpose_no_alloc XT (ak_A kid) ;; do '(ATA, tmp) <- scatter_product A XT (ak_ATA kid) None (ak_tmp kid) ;; Ok (ak_set_A kid A ATA tmp)) = Ok k1 ->
  exists kp1, (do A <- transpose_no_alloc XT (ak_A kp) ;; do '(ATA, tmp) <- scatter_product A XT (ak_ATA kp) None (ak_tmp kp) ;; Ok (ak_set_A kp A ATA tmp)) = Ok kp1 /\
     aperm pinv kpC kiC a2c L k1 kp1 /\ ak_kp k1 = ak_kp kid /\ ak_ki k1 = ak_ki kid.
Proof.
  intros R E. pose proof R as (R1 & R2 & R3 & R4 & R5 & R6 & R7 & R8 & R9 & R10 & R11 & R12 & R13 & RV1 & RV2 & RV3).
  rewrite R9, R11, R13. apply bind_ok in E as (A & EA & E). rewrite EA. cbn [bind].
  apply bind_ok in E as ([ATA tmp] & ES & E). unfold Vec, F in *. rewrite ES. cbn [bind]. injection E as <-.
  eexists. split; [reflexivity|].
  destruct (ak_set_A_fields kid A ATA tmp) as (F1 & F2 & F3 & F4 & F5 & F6 & F7 & F8 & F9 & F10 & F11 & F12 & F13 & F14).
  destruct (ak_set_A_fields kp A ATA tmp) as (G1 & G2 & G3 & G4 & G5 & G6 & G7 & G8 & G9 & G10 & G11 & G12 & G13 & G14).
  split; [|split; assumption].
  unfold aperm, vrelA. unfold Vec, F in *. rewrite F1, F2, F3, F4, F5, F10, F11, F12, F13, F14, G1, G2, G3, G4, G5, G6, G7, G8, G9, G10, G11, G12, G13, G14.
  repeat split; try assumption.
Qed.

Lemma aperm_branch_G pinv kpC kiC a2c L XT kid kp k1 : aperm pinv kpC kiC a2c L kid kp ->
  (do G <- transpose_no_alloc XT (ak_G kid) ;; Ok (ak_set_G kid G)) = Ok k1 ->
  exists kp1, (do G <- transpose_no_alloc XT (ak_G kp) ;; Ok (ak_set_G kp G)) = Ok kp1 /\
     aperm pinv kpC kiC a2c L k1 kp1 /\ ak_kp k1 = ak_kp kid /\ ak_ki k1 = ak_ki kid.
Proof.
  intros R E. pose proof R as (R1 & R2 & R3 & R4 & R5 & R6 & R7 & R8 & R9 & R10 & R11 & R12 & R13 & RV1 & RV2 & RV3).
  rewrite R10. apply bind_ok in E as (G & EG & E). rewrite EG. cbn [bind]. injection E as <-.
  eexists. split; [reflexivity|].
  destruct (ak_set_G_fields kid G) as (F1 & F2 & F3 & F4 & F5 & F6 & F7 & F8 & F9 & F10 & F11 & F12 & F13 & F14).
  destruct (ak_set_G_fields kp G) as (G1 & G2 & G3 & G4 & G5 & G6 & G7 & G8 & G9 & G10 & G11 & G12 & G13 & G14).
  split; [|split; assumption].
  unfold aperm, vrelA. unfold Vec, F in *. rewrite F1, F2, F3, F4, F5, F10, F11, F12, F13, F14, G1, G2, G3, G4, G5, G6, G7, G8, G9, G10, G11, G12, G13, G14.
  repeat split; try assumption.
Qed.

(* (d), permuted: update_data on both states keeps the image relation; with a non-zero covering mask the identity-ordered one is in
   canonical form for the new data *)
Theorem all_perm_update_data_form d perm kid kp mask px ax gx lbs ubs :
  wf_sdata d -> upper_only (sd_P d) = true -> sorted_colsb (sd_P d) = true -> all_static d kid ->
  all_perm_img (sd_n d) perm kid kp ->
  length px = nnz (sd_P d) -> length ax = nnz (sd_AT d) -> length gx = nnz (sd_GT d) ->
  covers_all mask d px ax gx lbs ubs ->
  let d' := with_all d px ax gx lbs ubs in
  (mask <> 0 -> all_scal_ok d' (ak_sc kid)) ->
  exists kid' kp', all_update_data d' kid mask = Ok kid' /\ all_update_data d' kp mask = Ok kp' /\
                   all_static d' kid' /\ ak_sc kid' = ak_sc kid /\ cache_pat kid' kid /\
                   (mask <> 0 -> all_form d' (ak_sc kid) kid') /\
                   ak_kp kid' = ak_kp kid /\ ak_ki kid' = ak_ki kid /\ all_perm_img (sd_n d) perm kid' kp'.
Proof.
  intros Hwf Hup Hsorted Hst (o & Cpos & a2c & Eo & Eperm & Hok & R) Lp La Lg (C1 & C2 & C0) d' Hsc. unfold d', with_all in *.
  set (d0 := with_P d px lbs ubs). set (d1 := with_AT d0 ax). set (d2 := with_GT d1 gx).
  assert (Hwf0 : wf_sdata d0) by (apply wf_with_P; auto).
  assert (Hwf1 : wf_sdata d1) by (apply wf_with_AT; auto).
  assert (Hwf2 : wf_sdata d2) by (apply wf_with_GT; auto).
  unfold all_update_data.
  (* A *)
  assert (S1 : exists k1 kp1,
     (if Nat.testbit mask 1 then
             do A <- transpose_no_alloc (sd_AT d2) (ak_A kid) ;;
             do '(ATA, tmp) <- scatter_product A (sd_AT d2) (ak_ATA kid) None (ak_tmp kid) ;;
             Ok (ak_set_A kid A ATA tmp) else Ok kid) = Ok k1 /\
     (if Nat.testbit mask 1 then
             do A <- transpose_no_alloc (sd_AT d2) (ak_A kp) ;;
             do '(ATA, tmp) <- scatter_product A (sd_AT d2) (ak_ATA kp) None (ak_tmp kp) ;;
             Ok (ak_set_A kp A ATA tmp) else Ok kp) = Ok kp1 /\
     all_static d1 k1 /\ ak_sc k1 = ak_sc kid /\ cache_pat k1 kid /\
     aperm (oPinv o) (colptr Cpos) (rowind Cpos) a2c (length (ak_ki kid)) k1 kp1 /\ ak_kp k1 = ak_kp kid /\ ak_ki k1 = ak_ki kid).
  { destruct (Nat.testbit mask 1) eqn:Eb.
    - change (sd_AT d2) with (sd_AT (with_AT d0 ax)).
      destruct (data_A_static d0 ax kid Hwf0 (all_static_with_P d px lbs ubs kid Hst) La) as (k1 & E1 & St1 & Sc1 & _ & R1 & R2 & R3).
      destruct (aperm_branch_A _ _ _ _ _ (sd_AT (with_AT d0 ax)) kid kp k1 R E1) as (kp1 & EP1 & RP1 & K1 & K2).
      exists k1, kp1. split; [exact E1|]. split; [exact EP1|]. split; [exact St1|]. split; [exact Sc1|].
      split; [unfold cache_pat; rewrite R1, R2, R3; auto|]. auto.
    - exists kid, kp. split; [reflexivity|]. split; [reflexivity|]. split; [|split; [reflexivity|split; [apply cache_pat_refl|auto]]].
      unfold d1. rewrite (C1 eq_refl). change (sd_AT d) with (sd_AT d0). rewrite with_AT_id. apply all_static_with_P. exact Hst. }
  destruct S1 as (k1 & kp1 & E1 & EP1 & St1 & Sc1 & Cp1 & RP1 & K1p & K1i). rewrite E1, EP1. cbn [bind].
  (* G *)
  assert (S2 : exists k2 kp2,
     (if Nat.testbit mask 2 then do G <- transpose_no_alloc (sd_GT d2) (ak_G k1) ;; Ok (ak_set_G k1 G) else Ok k1) = Ok k2 /\
     (if Nat.testbit mask 2 then do G <- transpose_no_alloc (sd_GT d2) (ak_G kp1) ;; Ok (ak_set_G kp1 G) else Ok kp1) = Ok kp2 /\
     all_static d2 k2 /\ ak_sc k2 = ak_sc k1 /\ cache_pat k2 k1 /\
     aperm (oPinv o) (colptr Cpos) (rowind Cpos) a2c (length (ak_ki kid)) k2 kp2 /\ ak_kp k2 = ak_kp k1 /\ ak_ki k2 = ak_ki k1).
  { destruct (Nat.testbit mask 2) eqn:Eb.
    - change (sd_GT d2) with (sd_GT (with_GT d1 gx)).
      destruct (data_G_static d1 gx k1 Hwf1 St1 Lg) as (k2 & E2 & St2 & Sc2 & _ & R1 & R2 & R3).
      destruct (aperm_branch_G _ _ _ _ _ (sd_GT (with_GT d1 gx)) k1 kp1 k2 RP1 E2) as (kp2 & EP2 & RP2 & K1 & K2).
      exists k2, kp2. split; [exact E2|]. split; [exact EP2|]. split; [exact St2|]. split; [exact Sc2|].
      split; [unfold cache_pat; rewrite R1, R2, R3; auto|]. auto.
    - exists k1, kp1. split; [reflexivity|]. split; [reflexivity|]. split; [|split; [reflexivity|split; [apply cache_pat_refl|auto]]].
      unfold d2. rewrite (C2 eq_refl). change (sd_GT d) with (sd_GT d1). rewrite with_GT_id. exact St1. }
  destruct S2 as (k2 & kp2 & E2 & EP2 & St2 & Sc2 & Cp2 & RP2 & K2p & K2i). rewrite E2, EP2. cbn [bind].
  pose proof (cache_pat_trans _ _ _ Cp2 Cp1) as Cp.
  assert (Himg2 : all_perm_img (sd_n d2) perm k2 kp2).
  { exists o, Cpos, a2c. rewrite K2p, K2i, K1p, K1i. auto. }
  destruct (Nat.eqb_spec mask 0) as [E0|N0].
  - exists k2, kp2. split; [reflexivity|]. split; [reflexivity|]. split; [exact St2|]. split; [congruence|]. split; [exact Cp|].
    split; [intros; contradiction|]. split; [congruence|]. split; [congruence|]. exact Himg2.
  - destruct (img_refresh d2 Hwf2 Hup Hsorted perm k2 kp2 St2) as (k' & kp' & E & EP & Hf & EA & EG & Himg'); auto.
    { rewrite Sc2, Sc1. now apply Hsc. }
    exists k', kp'. split; [exact E|]. split; [exact EP|]. destruct Hf as (St' & Sc' & Hv).
    destruct (all_refresh_pat d2 k2 k' E) as (Q1 & Q2 & _).
    split; [exact St'|]. split; [congruence|].
    split; [unfold cache_pat in *; rewrite EA, EG; exact Cp|].
    split; [intros _; split; [exact St'|]; split; [congruence|]; rewrite <- Sc1, <- Sc2; exact Hv|].
    split; [congruence|]. split; [congruence|]. exact Himg'.
Qed.

(* two images of identity-ordered states with the same stored matrix coincide on everything the solver reads *)
Lemma img_fun d perm k kp k2 kp2 : all_static d k -> all_perm_img (sd_n d) perm k kp -> all_perm_img (sd_n d) perm k2 kp2 ->
  ak_kp k2 = ak_kp k -> ak_ki k2 = ak_ki k -> ak_kx k2 = ak_kx k ->
  ak_pinv kp2 = ak_pinv kp /\ ak_kp kp2 = ak_kp kp /\ ak_ki kp2 = ak_ki kp /\ ak_PKi kp2 = ak_PKi kp /\ ak_kx kp2 = ak_kx kp.
Proof.
  intros Hst (o & Cpos & a2c & Eo & Eperm & Hok & R) (o2 & Cpos2 & a2c2 & Eo2 & Eperm2 & Hok2 & R2) Ekp Eki Ekx.
  rewrite Eo in Eo2. injection Eo2 as <-. rewrite Ekp, Eki in *. rewrite Eperm in Eperm2. injection Eperm2 as <- <-.
  destruct (img_addr d k _ _ _ Hst Hok) as (A1 & A2 & A3 & _). rewrite (static_ki_len d k Hst) in *.
  destruct R as (_ & P1 & P2 & P3 & P4 & _ & _ & _ & _ & _ & _ & _ & _ & RV).
  destruct R2 as (_ & Q1 & Q2 & Q3 & Q4 & _ & _ & _ & _ & _ & _ & _ & _ & RV2).
  split; [congruence|]. split; [congruence|]. split; [congruence|]. split; [congruence|].
  rewrite Ekx in RV2. exact (vrelA_fun a2c _ (ak_kx k) _ _ A1 A2 A3 RV2 RV).
Qed.

(* what a new object with ordering perm given the scalings c reaches *)
Definition all_fresh_perm (d : sdata) (c : scal) (perm : list nat) : res akkt :=
  do k0 <- all_init d (sc_rho c) (sc_delta c) (Some perm) ;; all_apply_scalings d k0 c.

(* (d), T2 permuted: update_data with a non-zero covering mask on the permuted state leaves the ordering, pattern, map and values of a
   new permuted object on the new data with the same scalings *)
Theorem all_perm_update_data_eq_fresh d perm kid kp mask px ax gx lbs ubs :
  wf_sdata d -> upper_only (sd_P d) = true -> sorted_colsb (sd_P d) = true -> all_static d kid -> canon_caches d kid ->
  all_perm_img (sd_n d) perm kid kp ->
  length px = nnz (sd_P d) -> length ax = nnz (sd_AT d) -> length gx = nnz (sd_GT d) ->
  covers_all mask d px ax gx lbs ubs -> mask <> 0 ->
  let d' := with_all d px ax gx lbs ubs in
  let c := ak_sc kid in
  all_scal_ok d' c -> (1 + sc_delta c)%Qc <> 0%Qc -> scal_ok d' (unit_scal d' (sc_rho c) (sc_delta c)) ->
  exists kid' kp' kpf, all_update_data d' kid mask = Ok kid' /\ all_update_data d' kp mask = Ok kp' /\ all_fresh_perm d' c perm = Ok kpf /\
                all_form d' c kid' /\ all_perm_img (sd_n d) perm kid' kp' /\
                ak_pinv kp' = ak_pinv kpf /\ ak_kp kp' = ak_kp kpf /\ ak_ki kp' = ak_ki kpf /\ ak_PKi kp' = ak_PKi kpf /\ ak_kx kp' = ak_kx kpf.
Proof.
  intros Hwf Hup Hs Hst Hcan Himg Lp La Lg Hcov Hm d' c Hsc Hd1 Hu.
  destruct (all_update_data_eq_fresh d kid mask px ax gx lbs ubs Hwf Hup Hs Hst Hcan Lp La Lg Hcov Hm Hsc Hd1 Hu)
    as (kid' & kf & Eupd & Efr & Hf' & Hff & _ & Ekp & Eki & Ekx). fold d' c in Eupd, Efr, Hf', Hff.
  destruct (all_perm_update_data_form d perm kid kp mask px ax gx lbs ubs Hwf Hup Hs Hst Himg Lp La Lg Hcov (fun _ => Hsc))
    as (kid'' & kp' & E1 & E2 & St' & _ & _ & _ & Kp' & Ki' & Himg'). fold d' in E1, E2, St'.
  rewrite Eupd in E1. injection E1 as <-.
  assert (Hwf' : wf_sdata d') by (unfold d', with_all; apply wf_with_GT; [apply wf_with_AT; [apply wf_with_P|]|]; auto).
  pose proof Hsc as (_ & Hd & _).
  (* the fresh permuted object *)
  unfold all_fresh in Efr. apply bind_ok in Efr as (k0 & E0 & Eapp). unfold all_apply_scalings in Eapp.
  destruct (all_refresh_pat d' _ kf Eapp) as (T1 & T2 & _).
  destruct (ak_set_sc_fields k0 c) as (_ & _ & F3 & _ & _ & _ & _ & F8 & F9 & _). rewrite F8 in T1. rewrite F9 in T2.
  assert (Hchk : perm_addr_okb (sd_n d') (ak_kp k0) (ak_ki k0) perm = true).
  { destruct Himg' as (o & Cpos & a2c & Eo & Eperm & Hok & _). rewrite <- T1, <- T2, <- Ekp, <- Eki.
    exact (perm_addr_okb_intro _ _ _ _ o Cpos a2c Eo Eperm Hok). }
  destruct (all_init_perm_of_id d' Hwf' Hup Hs (sc_rho c) (sc_delta c) perm k0 Hd Hd1 Hu E0 Hchk) as (kp0 & EP0 & Himg0).
  destruct (all_init_static d' Hwf' Hs (sc_rho c) (sc_delta c) Hd Hd1 Hu) as (k0' & E0' & St0 & _).
  rewrite E0 in E0'. injection E0' as <-.
  destruct (img_refresh d' Hwf' Hup Hs perm (ak_set_sc k0 c) (ak_set_sc kp0 c)) as (kf' & kpf & R1 & R2 & _ & _ & _ & Himgf).
  { now apply all_static_set_sc. }
  { now rewrite F3. }
  { now apply img_set_sc. }
  rewrite Eapp in R1. injection R1 as <-.
  exists kid', kp', kpf. split; [exact Eupd|]. split; [exact E2|].
  split; [unfold all_fresh_perm; rewrite EP0; cbn [bind]; exact R2|].
  split; [exact Hf'|]. split; [exact Himg'|].
  destruct (img_fun d' perm kid' kp' kf kpf St' Himg' Himgf) as (X1 & X2 & X3 & X4 & X5); [congruence|congruence|congruence|].
  repeat split; congruence.
Qed.
