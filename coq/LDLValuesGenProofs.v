(* LDLValuesGenProofs.v -- C14 T1 for ALL sizes, part 3: the values.  If the numeric phase of sparse/ldlt.hpp (model
   LDLSparse.num_step / num_loop) meets no zero pivot then the stored factors satisfy the LDL^T equations
       L(k,i) * D(i) = A(i,k) - sum_{c<i} L(i,c) * L(k,c) * D(c)   (i < k)      D(k) = A(k,k) - sum_{i<k} L(k,i)^2 * D(i)
   for every well-formed square upper-triangular CSC input whose columns contain no repeated row index (columns may be
   unsorted, the diagonal need not be stored).  The proof follows the code: scatter of column k into y, the sparse
   triangular solve along the pattern stack (whose order is topological, LDLNumericGenProofs.v), and the frame
   conditions on the slots of L_ind / L_vals written earlier. *)
From PIQP Require Import Base CSC LDLSparse C14LemmasProofs PatternsProofs LDLSparseProofs LDLSymbolicGenProofs LDLNumericGenProofs.
Require Import ZifyBool.
Local Open Scope nat_scope.

(* ---------- scatter ---------- *)
Definition scat (Ai : list nat) (Ax : list F) (l : list nat) (y : list F) : list F :=
  fold_left (fun y p => lset y (nth p Ai 0) (nth p Ax 0%Qc)) l y.

Lemma scat_length Ai Ax l : forall y, length (scat Ai Ax l y) = length y.
Proof. induction l; intros y; simpl; auto. unfold scat in *. simpl. rewrite IHl. apply lset_length. Qed.

Lemma scat_spec Ai Ax lo m : forall (y : list F),
  (forall p, lo <= p < lo + m -> nth p Ai 0 < length y) ->
  (forall p1 p2, lo <= p1 < lo + m -> lo <= p2 < lo + m -> nth p1 Ai 0 = nth p2 Ai 0 -> p1 = p2) ->
  (forall r, nth r y 0%Qc = 0%Qc) ->
  forall r, nth r (scat Ai Ax (seq lo m) y) 0%Qc = qsum (map (fun p => if nth p Ai 0 =? r then nth p Ax 0%Qc else 0%Qc) (seq lo m)).
Proof.
  induction m; intros y Hr Hnd Hz r.
  - simpl. rewrite Hz. reflexivity.
  - rewrite seq_S. unfold scat. rewrite fold_left_app. simpl fold_left. fold (scat Ai Ax (seq lo m) y).
    rewrite map_app, qsum_app. simpl map.
    assert (IH := IHm y ltac:(intros; apply Hr; lia) ltac:(intros; apply Hnd; auto; lia) Hz).
    rewrite nth_lset by (rewrite scat_length; apply Hr; lia).
    destruct (Nat.eqb_spec r (nth (lo + m) Ai 0)) as [->|Hne].
    + rewrite Nat.eqb_refl. rewrite qsum_map_zero.
      * unfold qsum. simpl. fring.
      * intros p Hp. apply in_seq in Hp. destruct (Nat.eqb_spec (nth p Ai 0) (nth (lo + m) Ai 0)) as [E|]; auto.
        apply Hnd in E; lia.
    + destruct (Nat.eqb_spec (nth (lo + m) Ai 0) r); [congruence|]. rewrite IH. unfold qsum. simpl. fring.
Qed.

Section Values.
Set Default Proof Using "All".
Variable n : nat.
Variables Ap Ai : list nat.
Variable Ax : list F.
Hypothesis HApl : length Ap = S n.
Hypothesis HApm : forall j, j < n -> nth j Ap 0 <= nth (S j) Ap 0.
Hypothesis HApN : forall j, j < n -> nth (S j) Ap 0 <= length Ai.
Hypothesis HAup : forall j p, j < n -> nth j Ap 0 <= p < nth (S j) Ap 0 -> nth p Ai 0 <= j.
Hypothesis HAx : length Ax = length Ai.
Hypothesis HAnd : forall j p1 p2, j < n -> nth j Ap 0 <= p1 < nth (S j) Ap 0 -> nth j Ap 0 <= p2 < nth (S j) Ap 0 ->
  nth p1 Ai 0 = nth p2 Ai 0 -> p1 = p2.

Variable lp : nat -> nat -> bool.
Hypothesis lp_eq : forall k i, i < k -> k < n ->
  lp k i = has_entry Ap Ai i k || existsb (fun c => lp i c && lp k c) (seq 0 i).

Notation colK := (colK lp).
Notation parK := (parK lp).
Notation cntL := (cntL lp).

Variable etree : list (option nat).
Variable Lcols : list nat.
Hypothesis Hetl : length etree = n.
Hypothesis Het : forall i, i < n -> nth i etree None = parK n i.
Hypothesis HLcl : length Lcols = S n.
Hypothesis HLcS : forall i, i < n -> nth (S i) Lcols 0 = nth i Lcols 0 + cntL n i.

Notation tot := (nth n Lcols 0).

(* the entry A(i,k) of the input *)
Definition aent (i k : nat) : F :=
  qsum (map (fun p => if nth p Ai 0 =? i then nth p Ax 0%Qc else 0%Qc) (seq (nth k Ap 0) (nth (S k) Ap 0 - nth k Ap 0))).

Lemma aent_no_entry i k : k < n -> has_entry Ap Ai i k = false -> aent i k = 0%Qc.
Proof.
  intros Hk H. unfold aent. apply qsum_map_zero. intros p Hp.
  destruct (Nat.eqb_spec (nth p Ai 0) i); auto.
  assert (has_entry Ap Ai i k = true); [|congruence]. unfold has_entry. apply existsb_exists. exists p. split; auto. now apply Nat.eqb_eq.
Qed.

(* the part of column i of L stored so far, as a function of the row *)
Definition Lcur (Lnnz Lind : list nat) (Lvals : list F) (r i : nat) : F :=
  qsum (map (fun p => if nth p Lind 0 =? r then nth p Lvals 0%Qc else 0%Qc) (seq (nth i Lcols 0) (nth i Lnnz 0))).

Lemma Lcur_ext Lnnz Lind Lvals Lnnz' Lind' Lvals' r i :
  nth i Lnnz' 0 = nth i Lnnz 0 ->
  (forall u, u < nth i Lnnz 0 -> nth (nth i Lcols 0 + u) Lind' 0 = nth (nth i Lcols 0 + u) Lind 0 /\
                                 nth (nth i Lcols 0 + u) Lvals' 0%Qc = nth (nth i Lcols 0 + u) Lvals 0%Qc) ->
  Lcur Lnnz' Lind' Lvals' r i = Lcur Lnnz Lind Lvals r i.
Proof.
  intros E H. unfold Lcur. rewrite E. apply qsum_map_ext. intros p Hp. apply in_seq in Hp.
  destruct (H (p - nth i Lcols 0) ltac:(lia)) as [H1 H2]. replace (nth i Lcols 0 + (p - nth i Lcols 0)) with p in * by lia.
  change Qc with F in *. now rewrite H1, H2.
Qed.

(* a column whose stored rows are [rowsl] has no entry in other rows *)
Lemma Lcur_zero Lnnz Lind Lvals r i (rowsl : list nat) :
  nth i Lnnz 0 <= length rowsl ->
  (forall u, u < nth i Lnnz 0 -> nth (nth i Lcols 0 + u) Lind 0 = nth u rowsl 0) ->
  ~ In r rowsl -> Lcur Lnnz Lind Lvals r i = 0%Qc.
Proof.
  intros Hl H Hn. unfold Lcur. apply qsum_map_zero. intros p Hp. apply in_seq in Hp.
  destruct (Nat.eqb_spec (nth p Lind 0) r) as [E|]; auto. exfalso. apply Hn.
  replace p with (nth i Lcols 0 + (p - nth i Lcols 0)) in E by lia. rewrite H in E by lia. subst r. apply nth_In. lia.
Qed.

Lemma Lcols_le' i j : i <= j -> j <= n -> nth i Lcols 0 <= nth j Lcols 0.
Proof. intros Hij Hj. induction Hij; auto. specialize (IHHij ltac:(lia)). rewrite HLcS by lia. lia. Qed.

(* ---------- one entry with values: exactly the index run plus the scatter ---------- *)
Lemma num_entry_exact K p top flag pat top' flag' pat' (y : list F) :
  num_entry_i n Ai etree K p top flag pat = Ok (top', flag', pat') -> length flag = n -> length y = n ->
  num_entry n Ai Ax etree K p (top, flag, pat, y) = Ok (top', flag', pat', lset y (nth p Ai 0) (nth p Ax 0%Qc)) /\
  length flag' = n /\ nth p Ai 0 < n /\ p < length Ai.
Proof.
  intros H Hf Hy. unfold num_entry_i in H. unfold num_entry. cbv beta iota.
  bnv H as i. bnv H as w3. destruct w3 as [[len1 fl1] pat1]. bnv H as tp. destruct tp as [top1 pat2].
  inversion H; subst top1 fl1 pat2. clear H.
  cbn [bind]. apply get_ok_inv in E. destruct E as [Hp Ei]. specialize (Ei 0). subst i.
  rewrite (get_nth (A:=F) Ax p 0%Qc) by lia. cbn [bind].
  assert (Hi : nth p Ai 0 < n) by (rewrite <- Hf; eapply num_walk_lt; eauto).
  rewrite upd_lset by lia. cbn [bind]. rewrite E0. cbn [bind]. rewrite E1. cbn [bind].
  split; [reflexivity|]. split; [|split; auto]. erewrite num_walk_len; eauto.
Qed.

Lemma entries_exact K l : forall top flag pat top' flag' pat' (y : list F),
  foldM (fun (s : nat * list (option nat) * list nat) p => let '(top, fl, pat) := s in num_entry_i n Ai etree K p top fl pat) l (top, flag, pat)
    = Ok (top', flag', pat') -> length flag = n -> length y = n ->
  foldM (fun st p => num_entry n Ai Ax etree K p st) l (top, flag, pat, y) = Ok (top', flag', pat', scat Ai Ax l y) /\
  forall p, In p l -> nth p Ai 0 < n /\ p < length Ai.
Proof.
  induction l; intros top flag pat top' flag' pat' y H Hf Hy; simpl in H.
  - inversion H; subst. simpl. split; auto. intros p [].
  - bnv H as s1. destruct s1 as [[top1 fl1] pat1].
    destruct (num_entry_exact K a top flag pat top1 fl1 pat1 y E Hf Hy) as (E1 & Lf1 & Ha1 & Ha2).
    cbn [foldM]. rewrite E1. cbn [bind].
    destruct (IHl top1 fl1 pat1 top' flag' pat' (lset y (nth a Ai 0) (nth a Ax 0%Qc)) H Lf1) as (E2 & Hin).
    { now rewrite lset_length. }
    split; auto. intros p [<-|Hp]; auto.
Qed.

(* ---------- one elimination with values: exactly the index run plus explicit value updates ---------- *)
Lemma num_elim_exact K t li li' lv : K < n ->
  num_elim_i n Lcols K t li = Ok li' -> VS n li lv ->
  let i := nth t (i_pattern li) 0 in
  let yi := nth i (v_y lv) 0%Qc in
  let l := (yi / nth i (v_D lv) 0)%Qc in
  nth i (v_D lv) 0%Qc <> 0%Qc ->
  exists y', num_elim Lcols K t (li, lv) =
      Ok (li', mkldlv (lset (v_Lvals lv) (nth i Lcols 0 + nth i (i_Lnnz li) 0) l)
                      (lset (v_D lv) K (nth K (v_D lv) 0 - l * yi)%Qc) (v_Dinv lv) y') /\
    length y' = n /\
    forall r, r < n -> nth r y' 0%Qc = (nth r (lset (v_y lv) i 0%Qc) 0 - Lcur (i_Lnnz li) (i_Lind li) (v_Lvals lv) r i * yi)%Qc.
Proof.
  intros HK H (Hy & HD & HLv & Hfl) i yi l Hnz. unfold num_elim_i in H.
  bnv H as i0. apply get_ok_inv in E. destruct E as [Ht Ei]. specialize (Ei 0). fold i in Ei. subst i0.
  bnv H as c. bnv H as z. bnv H as u.
  destruct u. pose proof (check_loop_ok n Ai Ax HAx _ _ _ E1) as Hrows.
  destruct (Nat.ltb_spec i K) as [Hik|]; [|discriminate]. cbn [negb] in H.
  bnv H as lind'. bnv H as nz'. inversion H; subst li'. clear H.
  apply get_ok_inv in E. destruct E as [HiL Ec]. specialize (Ec 0). subst c.
  apply get_ok_inv in E0. destruct E0 as [HiZ Ez]. specialize (Ez 0). subst z.
  assert (Hin : i < n) by lia.
  unfold num_elim. rewrite (get_nth (i_pattern li) t 0) by auto. cbn [bind]. fold i.
  rewrite (get_nth (A:=F) (v_y lv) i 0%Qc) by lia. cbn [bind]. fold yi.
  rewrite upd_lset by lia. cbn [bind].
  rewrite (get_nth Lcols i 0) by lia. cbn [bind]. rewrite (get_nth (i_Lnnz li) i 0) by lia. cbn [bind].
  set (c := nth i Lcols 0) in *. set (z := nth i (i_Lnnz li) 0) in *.
  set (g := fun r p => if nth p (i_Lind li) 0 =? r then nth p (v_Lvals lv) 0%Qc else 0%Qc).
  destruct (for_range_ind (fun p (y : list F) => length y = n /\
       forall r, r < n -> nth r y 0%Qc = (nth r (lset (v_y lv) i 0%Qc) 0 - qsum (map (g r) (seq c (p - c))) * yi)%Qc) c (c + z)
     (fun p y => do r <- get (i_Lind li) p ;; do l <- get (v_Lvals lv) p ;; do yr <- get y r ;; upd y r (yr - l * yi)%Qc)
     (lset (v_y lv) i 0%Qc)) as (y' & Ey & Ly' & Hy'); try lia.
  - split. now rewrite lset_length. intros r Hr. rewrite Nat.sub_diag. simpl. unfold qsum; simpl. fring.
  - intros p y Hp [Ly Hyr]. destruct (Hrows p Hp) as [Hp1 Hp2].
    rewrite (get_nth (i_Lind li) p 0) by auto. cbn [bind].
    rewrite (get_nth (A:=F) (v_Lvals lv) p 0%Qc) by lia. cbn [bind].
    rewrite (get_nth (A:=F) y _ 0%Qc) by lia. cbn [bind]. rewrite upd_lset by lia.
    eexists; split; [reflexivity|]. split; [now rewrite lset_length|].
    intros r Hr. replace (S p - c) with (S (p - c)) by lia. rewrite qsum_map_seq_S. replace (c + (p - c)) with p by lia.
    rewrite nth_lset by lia. unfold g at 2.
    destruct (Nat.eqb_spec r (nth p (i_Lind li) 0)) as [->|Hne].
    + rewrite Nat.eqb_refl. rewrite Hyr by auto. fring.
    + destruct (Nat.eqb_spec (nth p (i_Lind li) 0) r); [congruence|]. rewrite Hyr by auto. fring.
  - change Qc with F in *. rewrite Ey. cbn [bind].
    rewrite (get_nth (A:=F) (v_D lv) i 0%Qc) by lia. cbn [bind].
    rewrite qdiv_ok by exact Hnz. cbn [bind].
    rewrite (get_nth (A:=F) (v_D lv) K 0%Qc) by lia. cbn [bind].
    rewrite upd_lset by lia. cbn [bind]. rewrite E2. cbn [bind].
    apply upd_ok_inv in E2. destruct E2 as [Hp2 ->].
    rewrite upd_lset by lia. cbn [bind]. rewrite E3. cbn [bind].
    exists y'. split; [reflexivity|]. split; auto.
    intros r Hr. rewrite Hy' by auto. replace (c + z - c) with z by lia. reflexivity.
Qed.

(* ---------- segments of different columns / slots are distinct ---------- *)
Lemma slot_neq i i' u u' : i < n -> i' < n -> u < cntL n i -> u' < cntL n i' -> (i <> i' \/ u <> u') ->
  nth i Lcols 0 + u <> nth i' Lcols 0 + u'.
Proof.
  intros Hi Hi' Hu Hu' Hd. destruct (Nat.lt_trichotomy i i') as [L|[E|L]].
  - assert (HS : nth (S i) Lcols 0 <= nth i' Lcols 0) by (apply Lcols_le'; lia). rewrite HLcS in HS by lia. lia.
  - subst i'. destruct Hd; [congruence|lia].
  - assert (HS : nth (S i') Lcols 0 <= nth i Lcols 0) by (apply Lcols_le'; lia). rewrite HLcS in HS by lia. lia.
Qed.

Lemma sum_n_delta_add m i (f g h : nat -> F) (l : F) : i < m ->
  sum_n m (fun c => f c * (g c + (if c =? i then l else 0)) * h c)%Qc = (sum_n m (fun c => f c * g c * h c) + f i * l * h i)%Qc.
Proof.
  intros Hi. rewrite (sum_n_ext m _ (fun c => f c * g c * h c + (if c =? i then f c * l * h c else 0))%Qc).
  - rewrite sum_n_add. f_equal. rewrite (sum_n_delta m i); auto. now rewrite Nat.eqb_refl.
    intros c Hc Hne. apply Nat.eqb_neq in Hne. now rewrite Hne.
  - intros c Hc. destruct (c =? i); fring.
Qed.

(* ================= the elimination loop of step K, with values ================= *)
Section Step.
Variables (K top : nat) (li0 : ldl_i) (lv0 : ldl_v).
Hypothesis HK : K < n.
Hypothesis HS : StackOK n lp K top (i_pattern li0).
Hypothesis Lz0 : length (i_Lnnz li0) = n.
Hypothesis Li0 : length (i_Lind li0) = tot.
Hypothesis Lfl0 : length (i_flag li0) = n.
Hypothesis Hnz0 : forall i, i < K -> nth i (i_Lnnz li0) 0 = cntL K i.
Hypothesis Hind0 : forall i u, i < K -> u < cntL K i -> nth (nth i Lcols 0 + u) (i_Lind li0) 0 = nth u (colK K i) 0.
Hypothesis Ly0 : length (v_y lv0) = n.
Hypothesis LD0 : length (v_D lv0) = n.
Hypothesis LV0 : length (v_Lvals lv0) = tot.
Hypothesis Hy0 : forall r, r < n -> nth r (v_y lv0) 0%Qc = if r =? K then 0%Qc else aent r K.
Hypothesis HDK0 : nth K (v_D lv0) 0%Qc = aent K K.
Hypothesis HDnz : forall i, i < K -> nth i (v_D lv0) 0%Qc <> 0%Qc.

Notation pat := (i_pattern li0).
Definition procb (t c : nat) : bool := existsb (fun t' => nth t' pat 0 =? c) (seq top (t - top)).
Definition Lrow0 (r c : nat) : F := Lcur (i_Lnnz li0) (i_Lind li0) (v_Lvals lv0) r c.
Definition D0 (c : nat) : F := nth c (v_D lv0) 0%Qc.
Definition Lnew (lv1 : ldl_v) (c : nat) : F := nth (nth c Lcols 0 + cntL K c) (v_Lvals lv1) 0%Qc.
Definition PL (t : nat) (lv1 : ldl_v) (c : nat) : F := if procb t c then Lnew lv1 c else 0%Qc.

Lemma procb_iff t c : procb t c = true <-> exists t', top <= t' < t /\ nth t' pat 0 = c.
Proof.
  unfold procb. rewrite existsb_exists. split.
  - intros (t' & Hin & E). apply in_seq in Hin. apply Nat.eqb_eq in E. exists t'. split; auto. lia.
  - intros (t' & Ht & E). exists t'. split. apply in_seq; lia. now apply Nat.eqb_eq.
Qed.
Lemma procb_S t c : top <= t -> procb (S t) c = procb t c || (nth t pat 0 =? c).
Proof.
  intros Ht. unfold procb. replace (S t - top) with (S (t - top)) by lia. rewrite seq_S, existsb_app. simpl.
  replace (top + (t - top)) with t by lia. now rewrite orb_false_r.
Qed.
Lemma procb_lp t c : procb t c = true -> t <= n -> c < K /\ lp K c = true.
Proof.
  intros H Ht. apply procb_iff in H. destruct H as (t' & Ht' & <-). destruct HS as (_ & _ & SP1 & _). apply SP1. lia.
Qed.
Lemma procb_n c : c < K -> procb n c = lp K c.
Proof.
  intros Hc. destruct (lp K c) eqn:El.
  - apply procb_iff. destruct HS as (_ & _ & _ & _ & SP3 & _). destruct (SP3 c Hc El) as (t & Ht & E). eauto.
  - destruct (procb n c) eqn:Ep; auto. apply procb_lp in Ep; auto. destruct Ep. congruence.
Qed.

(* rows stored in column c before step K *)
Lemma Lrow0_zero r c : c < K -> ~ (c < r < K /\ lp r c = true) -> Lrow0 r c = 0%Qc.
Proof.
  intros Hc Hn. unfold Lrow0. apply (Lcur_zero _ _ _ r c (colK K c)).
  - rewrite Hnz0 by auto. apply Nat.le_refl.
  - intros u Hu. rewrite Hnz0 in Hu by auto. apply Hind0; auto.
  - intros Hin. apply (colK_in lp) in Hin. tauto.
Qed.

(* a node processed before i is not a row of column i (topological order of the stack) *)
Lemma topo_zero t i r : top <= t < n -> nth t pat 0 = i -> procb t r = true -> Lrow0 r i = 0%Qc.
Proof.
  intros Ht Ei Hp. destruct HS as (_ & _ & SP1 & SP2 & _ & SP4). destruct (SP1 t Ht) as [Hi _]. rewrite Ei in Hi.
  apply Lrow0_zero; auto. intros [Hr Hl]. apply procb_iff in Hp. destruct Hp as (t' & Ht' & Er).
  assert (t < t'); [|lia]. apply SP4; [lia|lia|rewrite Ei, Er; auto|rewrite Ei, Er; lia].
Qed.

Definition VElim (t : nat) (st : ldl_i * ldl_v) : Prop :=
  let '(li1, lv1) := st in
  EInv n lp Lcols K top li0 t li1 /\
  length (v_y lv1) = n /\ length (v_D lv1) = n /\ length (v_Lvals lv1) = tot /\
  (forall i u, i < K -> u < cntL K i ->
     nth (nth i Lcols 0 + u) (v_Lvals lv1) 0%Qc = nth (nth i Lcols 0 + u) (v_Lvals lv0) 0%Qc) /\
  (forall i, i < n -> i <> K -> nth i (v_D lv1) 0%Qc = D0 i) /\
  (forall r, K <= r < n -> nth r (v_y lv1) 0%Qc = 0%Qc) /\
  (forall r, r < K -> nth r (v_y lv1) 0%Qc =
      if procb t r then 0%Qc else (aent r K - sum_n K (fun c => Lrow0 r c * PL t lv1 c * D0 c))%Qc) /\
  nth K (v_D lv1) 0%Qc = (aent K K - sum_n K (fun c => PL t lv1 c * PL t lv1 c * D0 c))%Qc /\
  (forall c, c < K -> procb t c = true ->
      (Lnew lv1 c * D0 c = aent c K - sum_n c (fun c' => Lrow0 c c' * PL t lv1 c' * D0 c'))%Qc).

Lemma velim_step t st : top <= t < n -> VElim t st -> exists st', num_elim Lcols K t st = Ok st' /\ VElim (S t) st'.
Proof.
  intros Ht. destruct st as [li1 lv1]. intros (HE & Ly1 & LD1 & LV1 & Hold & HD & Hyhi & Hylo & HDK & HE1).
  destruct (num_elim_step_ok n Ap Ai HApl HApm HApN HAup lp lp_eq etree Lcols Hetl Het HLcl HLcS K top li0 t li1 HK HS Ht HE)
    as (Ei & HE2 & HiK & Hli & Hzi & Hslot & Hnp).
  cbv zeta in Ei, HE2. set (i := nth t pat 0) in *.
  pose proof HE as (P1 & P2 & P3 & P4 & P5 & P6 & P7 & P8 & P9 & P10).
  assert (Hpi : procb t i = false).
  { destruct (procb t i) eqn:Ep; auto. exfalso. apply Hnp. now apply procb_iff. }
  assert (HDi : nth i (v_D lv1) 0%Qc = D0 i) by (apply HD; lia).
  assert (HVS : VS n li1 lv1). { unfold VS. rewrite P3, P6. auto. }
  assert (Ei' : nth t (i_pattern li1) 0 = i) by (rewrite P4; reflexivity).
  destruct (num_elim_exact K t li1 _ lv1 HK Ei HVS) as (y2 & E2 & Ly2 & Hy2).
  { rewrite Ei'. rewrite HDi. apply HDnz; auto. }
  rewrite Ei' in E2, Hy2. rewrite Hzi in E2.
  set (yi := nth i (v_y lv1) 0%Qc) in *. rewrite HDi in E2.
  set (l := (yi / D0 i)%Qc) in *.
  assert (Hl : (l * D0 i = yi)%Qc). { unfold l. field. apply HDnz; auto. }
  (* the column part read by the inner loop is the old column i *)
  assert (Hcol : forall r, Lcur (i_Lnnz li1) (i_Lind li1) (v_Lvals lv1) r i = Lrow0 r i).
  { intros r. unfold Lrow0. apply Lcur_ext. rewrite Hzi, Hnz0; auto.
    intros u Hu. rewrite Hnz0 in Hu by auto. split.
    - rewrite P10 by (auto; lia). rewrite Hind0 by auto. apply (nth_colK_ext lp); auto.
    - apply Hold; auto. }
  assert (Hyi : (yi = aent i K - sum_n K (fun c => Lrow0 i c * PL t lv1 c * D0 c))%Qc).
  { unfold yi. rewrite Hylo by auto. now rewrite Hpi. }
  eexists; split; [exact E2|].
  set (lv2 := mkldlv (lset (v_Lvals lv1) (nth i Lcols 0 + cntL K i) l) (lset (v_D lv1) K (nth K (v_D lv1) 0 - l * yi)%Qc) (v_Dinv lv1) y2).
  assert (HcntK : forall c, c < K -> lp K c = true -> cntL K c < cntL n c).
  { intros c Hc Hlc. pose proof (cntL_le lp (S K) n c ltac:(lia)) as H. rewrite (cntL_S lp) in H by auto. rewrite Hlc in H. lia. }
  assert (HcntK' : forall c, c < K -> cntL K c <= cntL n c) by (intros; apply cntL_le; lia).
  assert (HLnew : forall c, c < K -> lp K c = true -> Lnew lv2 c = if c =? i then l else Lnew lv1 c).
  { intros c Hc Hlc. unfold Lnew, lv2. cbn [v_Lvals]. rewrite nth_lset by lia.
    destruct (Nat.eqb_spec c i) as [->|Hne]. now rewrite Nat.eqb_refl.
    destruct (Nat.eqb_spec (nth c Lcols 0 + cntL K c) (nth i Lcols 0 + cntL K i)) as [E|]; auto.
    exfalso. revert E. apply slot_neq; auto; try lia. }
  assert (HPL : forall c, c < K -> PL (S t) lv2 c = (PL t lv1 c + (if c =? i then l else 0))%Qc).
  { intros c Hc. unfold PL. rewrite procb_S by lia. fold i.
    destruct (Nat.eqb_spec c i) as [->|Hne].
    - rewrite Hpi, Nat.eqb_refl. simpl. rewrite HLnew by auto. rewrite Nat.eqb_refl. fring.
    - destruct (Nat.eqb_spec i c); [congruence|]. rewrite orb_false_r. destruct (procb t c) eqn:Epc; [|fring].
      destruct (procb_lp t c Epc ltac:(lia)) as [_ Hlc]. rewrite HLnew by auto.
      destruct (Nat.eqb_spec c i); [congruence|]. fring. }
  unfold VElim. split; [exact HE2|]. unfold lv2 at 1 2 3. cbn [v_y v_D v_Lvals]. rewrite !lset_length.
  split; auto. split; auto. split; auto. split; [|split; [|split; [|split; [|split]]]].
  - (* old slots *)
    intros i' u Hi' Hu. unfold lv2. cbn [v_Lvals]. rewrite nth_lset_other; [apply Hold; auto|lia|].
    apply slot_neq; [lia|lia|pose proof (HcntK' i' Hi'); lia|apply HcntK; auto|].
    destruct (Nat.eq_dec i' i); [subst; right; lia|left; auto].
  - intros c Hc Hne. unfold lv2. cbn [v_D]. rewrite nth_lset_other by lia. apply HD; auto.
  - intros r Hr. unfold lv2. cbn [v_y]. rewrite Hy2 by lia. rewrite nth_lset_other by lia. rewrite Hyhi by auto.
    rewrite Hcol. rewrite Lrow0_zero by (auto; lia). fring.
  - intros r Hr. unfold lv2 at 1. cbn [v_y]. rewrite Hy2 by lia. rewrite Hcol. rewrite procb_S by lia. fold i.
    rewrite (sum_n_ext K _ (fun c => Lrow0 r c * (PL t lv1 c + (if c =? i then l else 0)) * D0 c)%Qc)
      by (intros c Hc; rewrite HPL by auto; reflexivity).
    rewrite sum_n_delta_add by auto.
    destruct (Nat.eq_dec r i) as [->|Hne].
    + rewrite Nat.eqb_refl, orb_true_r. rewrite nth_lset_same by lia. rewrite Lrow0_zero by (auto; lia). fring.
    + destruct (Nat.eqb_spec i r); [congruence|]. rewrite orb_false_r. rewrite nth_lset_other by lia.
      rewrite Hylo by auto. destruct (procb t r) eqn:Epr.
      * rewrite (topo_zero t i r) by auto. fring.
      * rewrite <- Hl. fring.
  - unfold lv2 at 1. cbn [v_D]. rewrite nth_lset_same by lia. rewrite HDK.
    rewrite (sum_n_ext K (fun c => PL (S t) lv2 c * PL (S t) lv2 c * D0 c)%Qc
                         (fun c => PL t lv1 c * PL t lv1 c * D0 c + (if c =? i then l * l * D0 i else 0))%Qc).
    2:{ intros c Hc. rewrite HPL by auto. destruct (Nat.eqb_spec c i) as [->|Hne]; [|fring].
        unfold PL at 1 2 3 4. rewrite Hpi. fring. }
    rewrite sum_n_add. rewrite (sum_n_delta K i (fun c => if c =? i then (l * l * D0 i)%Qc else 0%Qc)) by (auto; intros c Hc Hne; apply Nat.eqb_neq in Hne; now rewrite Hne).
    rewrite Nat.eqb_refl. rewrite <- Hl. fring.
  - intros c Hc Hpc. pose proof (procb_lp (S t) c Hpc ltac:(lia)) as [_ Hlc]. rewrite procb_S in Hpc by lia. fold i in Hpc. rewrite HLnew by auto.
    destruct (Nat.eqb_spec c i) as [->|Hne].
    + rewrite Hl, Hyi. f_equal.
      rewrite (sum_n_trunc K i) by (try lia; intros c' Hc'; rewrite Lrow0_zero by (auto; lia); fring).
      apply sum_n_ext. intros c' Hc'. rewrite HPL by lia. destruct (Nat.eqb_spec c' i); [lia|]. fring.
    + destruct (Nat.eqb_spec i c); [congruence|]. rewrite orb_false_r in Hpc. rewrite HE1 by auto. f_equal.
      apply sum_n_ext. intros c' Hc'. rewrite HPL by lia. destruct (Nat.eqb_spec c' i) as [->|]; [|fring].
      rewrite (topo_zero t i c) by auto. fring.
Qed.

Lemma aent_upper r k : k < n -> k < r -> aent r k = 0%Qc.
Proof.
  intros Hk Hr. unfold aent. apply qsum_map_zero. intros p Hp. apply in_seq in Hp.
  pose proof (HApm k Hk). pose proof (HAup k p Hk ltac:(lia)).
  destruct (Nat.eqb_spec (nth p Ai 0) r); auto. lia.
Qed.

Lemma PL_top lv1 c : PL top lv1 c = 0%Qc.
Proof. unfold PL, procb. rewrite Nat.sub_diag. reflexivity. Qed.

Lemma velim_loop :
  exists li1 lv1, for_range top n (num_elim Lcols K) (li0, lv0) = Ok (li1, lv1) /\ VElim n (li1, lv1).
Proof.
  destruct (num_elim_loop_ok n Ap Ai HApl HApm HApN HAup lp lp_eq etree Lcols Hetl Het HLcl HLcS K top li0 HK HS Lz0 Li0 Hnz0 Hind0)
    as (HE0 & _).
  assert (Htop : top <= n) by apply HS.
  destruct (for_range_ind VElim top n (num_elim Lcols K) (li0, lv0)) as ([li1 lv1] & E & HV); auto.
  - unfold VElim. split; auto. split; auto. split; auto. split; auto. split; auto. split; auto. split; [|split; [|split]].
    + intros r Hr. rewrite Hy0 by lia. destruct (Nat.eqb_spec r K); auto. apply aent_upper; lia.
    + intros r Hr. rewrite Hy0 by lia. destruct (Nat.eqb_spec r K); [lia|].
      unfold procb. rewrite Nat.sub_diag. simpl.
      rewrite sum_n_zero. fring. intros c Hc. rewrite PL_top. fring.
    + rewrite HDK0. rewrite sum_n_zero. fring. intros c Hc. rewrite PL_top. fring.
    + intros c Hc Hp. unfold procb in Hp. rewrite Nat.sub_diag in Hp. discriminate.
  - intros t st Ht HV. apply velim_step; auto.
  - eauto.
Qed.

(* the finished step *)
Lemma velim_final li1 lv1 : VElim n (li1, lv1) ->
  let Lc1 := Lcur (i_Lnnz li1) (i_Lind li1) (v_Lvals lv1) in
  (forall r c, r < K -> c < K -> Lc1 r c = Lrow0 r c) /\
  (forall r, r < n -> nth r (v_y lv1) 0%Qc = 0%Qc) /\
  (forall i, i < K -> (Lc1 K i * D0 i = aent i K - sum_n i (fun c => Lrow0 i c * Lc1 K c * D0 c))%Qc) /\
  nth K (v_D lv1) 0%Qc = (aent K K - sum_n K (fun i => Lc1 K i * Lc1 K i * D0 i))%Qc.
Proof.
  intros (HE & Ly1 & LD1 & LV1 & Hold & HD & Hyhi & Hylo & HDK & HE1) Lc1.
  destruct (EInv_final n Ap Ai HApl HApm HApN HAup lp lp_eq etree Lcols Hetl Het HLcl HLcS K top li0 li1 HK HS HE) as (Hnz1 & Hind1).
  (* column c after the step = column c before + the slot of row K *)
  assert (Hsplit : forall r c, c < K -> Lc1 r c = (Lrow0 r c + (if K =? r then PL n lv1 c else 0))%Qc).
  { intros r c Hc. unfold Lc1, Lcur. rewrite Hnz1 by auto.
    assert (Hsame : qsum (map (fun p => if nth p (i_Lind li1) 0 =? r then nth p (v_Lvals lv1) 0%Qc else 0%Qc)
                            (seq (nth c Lcols 0) (cntL K c))) = Lrow0 r c).
    { unfold Lrow0, Lcur. rewrite Hnz0 by auto. apply qsum_map_ext. intros p Hp. apply in_seq in Hp.
      replace p with (nth c Lcols 0 + (p - nth c Lcols 0)) by lia.
      assert (Hu : p - nth c Lcols 0 < cntL K c) by lia.
      assert (Hu' : p - nth c Lcols 0 < cntL (S K) c) by (pose proof (cntL_le lp K (S K) c ltac:(lia)); lia).
      rewrite Hind1 by auto. rewrite Hind0 by auto. rewrite (nth_colK_ext lp K (S K)) by (auto; lia).
      change Qc with F in *. rewrite Hold by auto. reflexivity. }
    rewrite (cntL_S lp) by auto. unfold PL. rewrite procb_n by auto. destruct (lp K c) eqn:El.
    - replace (cntL K c + 1) with (S (cntL K c)) by lia. rewrite qsum_map_seq_S. rewrite Hsame. f_equal.
      rewrite Hind1 by (auto; rewrite (cntL_S lp), El by auto; lia).
      rewrite (colK_S lp) by auto. rewrite El. rewrite app_nth2 by (unfold LDLSymbolicGenProofs.cntL; lia).
      unfold LDLSymbolicGenProofs.cntL. rewrite Nat.sub_diag. simpl nth. reflexivity.
    - rewrite Nat.add_0_r. rewrite Hsame. destruct (K =? r); fring. }
  assert (HK1 : forall c, c < K -> Lc1 K c = PL n lv1 c).
  { intros c Hc. rewrite Hsplit by auto. rewrite Nat.eqb_refl. rewrite Lrow0_zero by (auto; lia). fring. }
  (* a node outside row K: everything that could reach it vanishes *)
  assert (Hzero : forall r, r < K -> lp K r = false ->
            aent r K = 0%Qc /\ forall c, c < K -> (Lrow0 r c * PL n lv1 c = 0)%Qc).
  { intros r Hr Hl. pose proof Hl as Hl'. rewrite lp_eq in Hl' by lia. apply orb_false_iff in Hl'. destruct Hl' as [Hh _].
    split. apply aent_no_entry; auto.
    intros c Hc. unfold PL. rewrite procb_n by auto. destruct (lp K c) eqn:Elc; [|fring].
    rewrite Lrow0_zero; auto. fring. intros [Hcr Hlrc].
    assert (lp K r = true) by (apply (lp_fill n Ap Ai HApl HApm HApN HAup lp lp_eq K r c); auto; lia). congruence. }
  split; [|split; [|split]].
  - intros r c Hr Hc. rewrite Hsplit by auto. destruct (Nat.eqb_spec K r); [lia|]. fring.
  - intros r Hr. destruct (Nat.lt_ge_cases r K) as [Hlt|Hge]; [|apply Hyhi; lia].
    rewrite Hylo by auto. rewrite procb_n by auto. destruct (lp K r) eqn:El; auto.
    destruct (Hzero r Hlt El) as [Ha Hz]. rewrite Ha. rewrite sum_n_zero. fring.
    intros c Hc. rewrite Hz by auto. fring.
  - intros i Hi. rewrite HK1 by auto.
    rewrite (sum_n_ext i _ (fun c => Lrow0 i c * PL n lv1 c * D0 c)%Qc) by (intros c Hc; rewrite HK1 by lia; reflexivity).
    destruct (lp K i) eqn:El.
    + unfold PL at 1. rewrite procb_n, El by auto. apply HE1; auto. rewrite procb_n; auto.
    + unfold PL at 1. rewrite procb_n, El by auto. destruct (Hzero i Hi El) as [Ha Hz]. rewrite Ha.
      rewrite sum_n_zero. fring. intros c Hc. rewrite Hz by lia. fring.
  - rewrite HDK. f_equal. apply sum_n_ext. intros c Hc. rewrite HK1 by auto. reflexivity.
Qed.

End Step.

(* ================= the invariant of the numeric loop ================= *)
Definition Lc (li : ldl_i) (lv : ldl_v) : nat -> nat -> F := Lcur (i_Lnnz li) (i_Lind li) (v_Lvals lv).
Definition Dv (lv : ldl_v) (i : nat) : F := nth i (v_D lv) 0%Qc.

Definition VInv (K : nat) (st : ldl_i * ldl_v) : Prop :=
  let '(li, lv) := st in
  NumInv n lp Lcols K li /\ length (v_y lv) = n /\ length (v_D lv) = n /\ length (v_Lvals lv) = tot /\
  (forall r, r < n -> nth r (v_y lv) 0%Qc = 0%Qc) /\
  (forall i, i < K -> Dv lv i <> 0%Qc) /\
  (forall k i, k < K -> i < k -> (Lc li lv k i * Dv lv i = aent i k - sum_n i (fun c => Lc li lv i c * Lc li lv k c * Dv lv c))%Qc) /\
  (forall k, k < K -> (Dv lv k = aent k k - sum_n k (fun i => Lc li lv k i * Lc li lv k i * Dv lv i))%Qc).

Lemma num_step_val K li lv : K < n -> VInv K (li, lv) ->
  exists li' lv', num_step n Ap Ai Ax etree Lcols K (li, lv) = Ok (li', lv', qeqb (Dv lv' K) 0%Qc) /\
    (Dv lv' K <> 0%Qc -> VInv (S K) (li', lv')).
Proof.
  intros HK (HN & Ly & LD & LV & Hyz & Hnz & HE1 & HE2).
  destruct (num_pattern_ok n Ap Ai HApl HApm HApN HAup lp lp_eq etree Lcols Hetl Het HLcl HLcS K li HK HN)
    as (top & fl & pat & Ep & HS & Lfl & Hfl').
  pose proof HN as (Lz & Lf & Lp & Li & Hfl & Hnzi & Hind).
  (* expose the entries loop of the index run *)
  unfold num_pattern_i in Ep.
  rewrite upd_lset in Ep by lia. cbn [bind] in Ep. rewrite upd_lset in Ep by lia. cbn [bind] in Ep.
  rewrite (get_nth Ap K 0) in Ep by lia. cbn [bind] in Ep. rewrite (get_nth Ap (S K) 0) in Ep by lia. cbn [bind] in Ep.
  destruct (for_range (nth K Ap 0) (nth (S K) Ap 0) _ (n, lset (i_flag li) K (Some K), i_pattern li)) as [[[a b] c]|] eqn:EF;
    cbn [bind] in Ep; [|discriminate]. inversion Ep; subst a b c. clear Ep.
  unfold for_range in EF.
  set (y1 := lset (v_y lv) K 0%Qc).
  destruct (entries_exact K _ _ _ _ _ _ _ y1 EF) as (EV & Hrows).
  { rewrite lset_length. auto. } { unfold y1. rewrite lset_length. auto. }
  pose proof (HApm K HK) as Hle. pose proof (HApN K HK) as HhiN.
  set (ys := scat Ai Ax (seq (nth K Ap 0) (nth (S K) Ap 0 - nth K Ap 0)) y1) in *.
  assert (Lys : length ys = n) by (unfold ys; rewrite scat_length; unfold y1; rewrite lset_length; auto).
  assert (Hys : forall r, nth r ys 0%Qc = aent r K).
  { intros r. unfold ys. rewrite scat_spec; [reflexivity| | |].
    - intros p Hp. unfold y1. rewrite lset_length, Ly. apply Hrows. apply in_seq. lia.
    - intros p1 p2 H1 H2. apply (HAnd K); auto; lia.
    - intros r'. unfold y1. destruct (Nat.lt_ge_cases r' n).
      + rewrite nth_lset by lia. destruct (r' =? K); auto.
      + apply nth_overflow. rewrite lset_length. lia. }
  unfold num_step.
  rewrite upd_lset by lia. cbn [bind]. rewrite upd_lset by lia. cbn [bind]. rewrite upd_lset by lia. cbn [bind].
  rewrite (get_nth Ap K 0) by lia. cbn [bind]. rewrite (get_nth Ap (S K) 0) by lia. cbn [bind].
  unfold for_range at 1. fold y1. change Qc with F in *. rewrite EV. cbn [bind].
  rewrite (get_nth (A:=F) ys K 0%Qc) by lia. cbn [bind]. rewrite Hys.
  rewrite upd_lset by lia. cbn [bind]. rewrite upd_lset by lia. cbn [bind].
  set (li0 := mkldli (i_etree li) (i_Lcols li) (lset (i_Lnnz li) K 0) (i_Lind li) fl pat).
  set (lv0 := mkldlv (v_Lvals lv) (lset (v_D lv) K (aent K K)) (v_Dinv lv) (lset ys K 0%Qc)).
  assert (Lz0 : length (i_Lnnz li0) = n) by (simpl; now rewrite lset_length).
  assert (Hnz0 : forall i, i < K -> nth i (i_Lnnz li0) 0 = cntL K i).
  { intros i Hi. simpl. rewrite nth_lset_other by lia. auto. }
  assert (Ly0 : length (v_y lv0) = n) by (simpl; now rewrite lset_length).
  assert (LD0 : length (v_D lv0) = n) by (simpl; now rewrite lset_length).
  assert (Hy0 : forall r, r < n -> nth r (v_y lv0) 0%Qc = if r =? K then 0%Qc else aent r K).
  { intros r Hr. simpl. rewrite nth_lset by lia. destruct (r =? K); auto. }
  assert (HDK0 : nth K (v_D lv0) 0%Qc = aent K K) by (simpl; apply nth_lset_same; lia).
  assert (HDnz0 : forall i, i < K -> nth i (v_D lv0) 0%Qc <> 0%Qc).
  { intros i Hi. simpl. rewrite nth_lset_other by lia. apply Hnz; auto. }
  destruct (velim_loop K top li0 lv0 HK HS Lz0 Li Lfl Hnz0 Hind Ly0 LD0 LV Hy0 HDK0 HDnz0) as (li1 & lv1 & EL & HV).
  rewrite EL. cbn [bind].
  pose proof (velim_final K top li0 lv0 HK HS Lz0 Li Lfl Hnz0 Hind Ly0 LD0 LV Hy0 HDK0 HDnz0 li1 lv1 HV) as (F5 & F3 & F6 & F7).
  destruct HV as (HE & Ly1 & LD1 & LV1 & Hold & HD & _).
  rewrite (get_nth (A:=F) (v_D lv1) K 0%Qc) by lia. cbn [bind].
  exists li1, lv1. split; [reflexivity|]. intros HnzK.
  destruct (EInv_final n Ap Ai HApl HApm HApN HAup lp lp_eq etree Lcols Hetl Het HLcl HLcS K top li0 li1 HK HS HE) as (Hnz1 & Hind1).
  destruct HE as (P1 & P2 & P3 & P4 & P5 & P6 & P7 & _).
  (* old rows and pivots are untouched *)
  assert (HLc : forall r c, r < K -> c < K -> Lc li1 lv1 r c = Lc li lv r c).
  { intros r c Hr Hc. unfold Lc. rewrite F5 by auto. unfold Lrow0, li0, lv0. cbn [i_Lnnz i_Lind v_Lvals].
    apply Lcur_ext; auto. rewrite nth_lset_other by lia. reflexivity. }
  assert (HDv : forall i, i < K -> Dv lv1 i = Dv lv i).
  { intros i Hi. unfold Dv. rewrite HD by lia. unfold D0, lv0. cbn [v_D]. apply nth_lset_other; lia. }
  fold (Dv lv1 K) in HnzK |- *.
  assert (HD0 : forall i, i < K -> D0 lv0 i = Dv lv i).
  { intros i Hi. unfold D0, lv0. cbn [v_D]. apply nth_lset_other; lia. }
  unfold VInv. split; [|split; [|split; [|split; [|split; [|split; [|split]]]]]]; auto.
  - (* index invariant *)
    unfold NumInv. rewrite P3, P4. simpl. destruct HS as (_ & Lpat & _).
    split; auto. split; auto. split; auto. split; auto. split; auto. split.
    + intros i Hi. destruct (Nat.eq_dec i K) as [->|Hne].
      * rewrite P7. simpl. rewrite nth_lset_same by lia. unfold LDLSymbolicGenProofs.cntL. now rewrite colK_nil by lia.
      * apply Hnz1. lia.
    + intros i u Hi Hu. destruct (Nat.eq_dec i K) as [->|Hne].
      * unfold LDLSymbolicGenProofs.cntL in Hu. rewrite colK_nil in Hu by lia. simpl in Hu. lia.
      * apply Hind1; auto. lia.
  - intros i Hi. destruct (Nat.eq_dec i K) as [->|Hne]; auto. rewrite HDv by lia. apply Hnz. lia.
  - intros k i Hk Hi. destruct (Nat.eq_dec k K) as [->|Hne].
    + rewrite HDv by auto. pose proof (F6 i Hi) as G. cbv zeta in G. rewrite (HD0 i) in G by auto.
      unfold Lc. rewrite G. f_equal. apply sum_n_ext. intros c Hc.
      rewrite <- F5 by lia. rewrite HD0 by lia. rewrite <- HDv by lia. reflexivity.
    + rewrite HLc, HDv by lia. rewrite HE1 by lia. f_equal. apply sum_n_ext. intros c Hc.
      rewrite !HLc, HDv by lia. reflexivity.
  - intros k Hk. destruct (Nat.eq_dec k K) as [->|Hne].
    + unfold Dv at 1. rewrite F7. f_equal. apply sum_n_ext. intros c Hc.
      rewrite HD0 by lia. rewrite <- HDv by lia. reflexivity.
    + rewrite HDv by lia. rewrite HE2 by lia. f_equal. apply sum_n_ext. intros c Hc. rewrite !HLc, HDv by lia. reflexivity.
Qed.

Lemma num_loop_val len : forall k0 li lv, k0 + len = n -> VInv k0 (li, lv) ->
  exists r li2 lv2, num_loop n Ap Ai Ax etree Lcols (seq k0 len) (li, lv) = Ok (r, (li2, lv2)) /\
    (r = n -> VInv n (li2, lv2)).
Proof.
  induction len; intros k0 li lv Hlen HV; cbn [seq num_loop].
  - exists n, li, lv. split; auto. intros _. replace k0 with n in HV by lia. exact HV.
  - destruct (num_step_val k0 li lv ltac:(lia) HV) as (li' & lv' & Es & Hnext). rewrite Es. cbn [bind].
    destruct (qeqb (Dv lv' k0) 0%Qc) eqn:Ez.
    + exists k0, li', lv'. split; auto. intros; lia.
    + assert (Hnz : Dv lv' k0 <> 0%Qc). { intros E. rewrite E in Ez. discriminate. }
      apply (IHlen (S k0) li' lv'); auto. lia.
Qed.

End Values.
