(* KKTSparseRefineTotalProofs.v -- iterative refinement of the sparse KKT solve path (KKTSparseRefine.v), part 2:
   Part A  TOTALITY: under the addressing the assembly code establishes (PKPt well formed, square, every column stores its
           diagonal entry last, ordering.P a permutation with inverse ordering.inv) regularize_kkt / the regularisation
           parameter / regularize_and_factorize(refine) return Ok -- no index error, no division by zero;
   Part B  COMPOSITION with the exact LDL^T: when the regularised matrix is factorised without zero pivot the first
           candidate solves the REGULARISED system exactly, so its residual in the unregularised system is the diagonal
           perturbation applied to it; reg <= rho, delta makes it zero and the loop a no-op;
   Part C  TOTALITY of solve with refinement for the four modes, and the end-to-end corollaries for KKT_FULL.
   No axioms. *)
From PIQP Require Import Base CSC LDLSparse C14LemmasProofs PatternsProofs CSCProofs PermuteProofs LDLSparseProofs LDLSparseFinalProofs
  LDLSolveProofs LDLSparseValuesProofs LDLValuesFinalProofs PermuteGenProofs LDLSymbolicGenProofs LDLFillGenProofs LDLNumericGenProofs LDLGenFinalProofs LDLValuesGenProofs LinAlg
  KKTSparseFull KKTSparseFullProofs KKTSparseAll KKTSparseEq KKTSparseIneq KKTSparseSolve KKTSparseSolveProofs KKTSparseSolvePermProofs
  KKTSparseRefactorProofs KKTSparseRefine KKTSparseRefineProofs.
From Coq Require Import Lia.
Local Open Scope Qc_scope.
Local Set Warnings "-unused-intro-pattern".

(* ================================================================ Part A : totality of the regularisation *)
(* what init / update_scalings / update_data leave: the conclusions wf_csc, nrows, ncols, diag_is_last of the assembly theorems
   (C13_fresh_form_denotes, C13_all_form_denotes, C13_eq_form_denotes, C13_ineq_form_denotes and their permuted versions) and
   the ordering object of AMDOrdering::init (C14_ordering_init_spec) *)
Definition kkt_addr_ok (N : nat) (o : ordering) (K : csc F) : Prop :=
  wf_csc K = true /\ nrows K = N /\ ncols K = N /\ diag_is_last K /\ ord_ok N o.

Section Addr.
  Variables (N : nat) (o : ordering) (K : csc F).
  Hypothesis HA : kkt_addr_ok N o K.

  Lemma addr_kp_len : length (colptr K) = S N.
  Proof. destruct HA as (Hwf & _ & Hc & _). rewrite (wf_cp_len K Hwf). congruence. Qed.

  Lemma addr_dq c : (c < N)%nat ->
    (1 <= nth (S c) (colptr K) 0)%nat /\ (dq (colptr K) c < length (vals K))%nat /\ nth (dq (colptr K) c) (rowind K) 0%nat = c /\
    (nth c (colptr K) 0 <= dq (colptr K) c < nth (S c) (colptr K) 0)%nat.
  Proof.
    intros Hc. destruct HA as (Hwf & _ & Hnc & Hdl & _).
    destruct (Hdl c) as [H1 H2]; [lia|]. unfold cp in *.
    pose proof (wf_col_range K Hwf c ltac:(lia)) as [_ H3]. pose proof (wf_vals_len K Hwf) as H4.
    unfold dq. repeat split; first [lia | exact H2].
  Qed.

  Lemma addr_dq_inj a b : (a < N)%nat -> (b < N)%nat -> dq (colptr K) a = dq (colptr K) b -> a = b.
  Proof.
    intros Ha Hb E. destruct (addr_dq a Ha) as (_ & _ & Ra & _). destruct (addr_dq b Hb) as (_ & _ & Rb & _). congruence.
  Qed.

  Lemma addr_pinv_range a : (a < N)%nat -> (nth a (oPinv o) 0 < N)%nat.
  Proof. destruct HA as (_ & _ & _ & _ & (_ & _ & _ & Hr & _)). apply Hr. Qed.

  Lemma addr_pinv_inj a b : (a < N)%nat -> (b < N)%nat -> nth a (oPinv o) 0%nat = nth b (oPinv o) 0%nat -> a = b.
  Proof.
    intros Ha Hb E. destruct HA as (_ & _ & _ & _ & (_ & _ & _ & _ & Hi)).
    rewrite <- (Hi a Ha), <- (Hi b Hb), E. reflexivity.
  Qed.

  Lemma save_diag_total (kx kd0 : Vec) : length kx = length (vals K) -> length kd0 = N ->
    exists kd, save_diag (colptr K) N kx kd0 = Ok kd.
  Proof.
    intros Lx L0. unfold save_diag.
    destruct (for_range_ind (fun _ (s : Vec) => length s = N) 0 N
      (fun col kd => do e <- get (colptr K) (S col) ;; do q <- pred_chk e ;; do v <- get kx q ;; upd kd col v) kd0) as (kd & E & _).
    - lia.
    - exact L0.
    - intros i s Hi Ls. destruct (addr_dq i) as (H1 & H2 & _); [lia|]. pose proof addr_kp_len as Lk.
      rewrite (get_nth (colptr K) (S i) 0%nat) by lia. cbn [bind].
      destruct (nth (S i) (colptr K) 0%nat) as [|e] eqn:Ee; [lia|]. cbn [pred_chk bind].
      assert (Hq : (e < length kx)%nat). { unfold dq in H2. rewrite Ee in H2. nlia. }
      rewrite (get_nth kx e 0) by exact Hq. cbn [bind].
      rewrite upd_lset by lia. eexists. split; [reflexivity|]. rewrite lset_length. exact Ls.
    - exists kd. exact E.
  Qed.

  Lemma shift_diag_total lo hi sh neg (kx : Vec) : (hi <= N)%nat -> length kx = length (vals K) ->
    exists kx', shift_diag (oPinv o) (colptr K) lo hi sh neg kx = Ok kx' /\ length kx' = length (vals K).
  Proof.
    intros HhN Lx. unfold shift_diag.
    destruct (le_lt_dec lo hi) as [Hle|Hgt].
    2:{ rewrite for_range_empty by lia. eauto. }
    destruct (for_range_ind (fun _ (s : Vec) => length s = length (vals K)) lo hi
      (fun col kx0 => do q <- dpos (oPinv o) (colptr K) col ;; do old <- get kx0 q ;; upd kx0 q (if neg then old - sh else old + sh)) kx)
      as (kx' & E & L').
    - exact Hle.
    - exact Lx.
    - intros i s Hi Ls. pose proof addr_kp_len as Lk.
      assert (HiN : (i < N)%nat) by lia.
      pose proof (addr_pinv_range i HiN) as Hp.
      destruct (addr_dq _ Hp) as (H1 & H2 & _).
      assert (Lpi : length (oPinv o) = N) by (destruct HA as (_ & _ & _ & _ & (_ & _ & L & _)); exact L).
      unfold dpos. rewrite (get_nth (oPinv o) i 0%nat) by lia. cbn [bind].
      rewrite (get_nth (colptr K) (S (nth i (oPinv o) 0%nat)) 0%nat) by lia. cbn [bind].
      destruct (nth (S (nth i (oPinv o) 0%nat)) (colptr K) 0%nat) as [|e] eqn:Ee; [lia|]. cbn [pred_chk bind].
      assert (Hq : (e < length s)%nat). { unfold dq in H2. rewrite Ee in H2. nlia. }
      rewrite (get_nth s e 0) by exact Hq. cbn [bind].
      rewrite upd_lset by exact Hq. eexists. split; [reflexivity|]. rewrite lset_length. exact Ls.
    - exists kx'. split; [exact E | exact L'].
  Qed.

  (* ---- T : regularize_kkt returns Ok, and writes exactly the two shifts ---- *)
  Theorem regularize_total n rho delta reg (kd0 : Vec) : (n <= N)%nat -> length kd0 = N ->
    exists Kr kd, kkt_regularize n N (oPinv o) rho delta reg K kd0 = Ok (Kr, kd) /\
      nrows Kr = nrows K /\ ncols Kr = ncols K /\ colptr Kr = colptr K /\ rowind Kr = rowind K /\ length (vals Kr) = length (vals K) /\
      (forall col, (col < N)%nat ->
         nth (dq (colptr K) (nth col (oPinv o) 0%nat)) (vals Kr) 0 =
         nth (dq (colptr K) (nth col (oPinv o) 0%nat)) (vals K) 0 + (if (col <? n)%nat then qmax 0 (reg - rho) else - qmax 0 (reg - delta))) /\
      (forall j, (forall c, (c < N)%nat -> j <> dq (colptr K) c) -> nth j (vals Kr) 0 = nth j (vals K) 0).
  Proof.
    intros HnN L0.
    destruct (save_diag_total (vals K) kd0 eq_refl L0) as (kd & E1).
    destruct (shift_diag_total 0 n (qmax 0 (reg - rho)) false (vals K) HnN eq_refl) as (kx1 & E2 & L1).
    destruct (shift_diag_total n N (qmax 0 (reg - delta)) true kx1 (Nat.le_refl N) L1) as (kx2 & E3 & L2).
    assert (E : kkt_regularize n N (oPinv o) rho delta reg K kd0 = Ok (set_vals K kx2, kd)).
    { unfold kkt_regularize. rewrite E1. cbn [bind]. rewrite E2. cbn [bind]. rewrite E3. reflexivity. }
    exists (set_vals K kx2), kd. split; [exact E|].
    apply (regularize_values n N (oPinv o) rho delta reg K kd0 _ kd addr_kp_len HnN addr_pinv_range addr_pinv_inj addr_dq_inj E).
  Qed.
End Addr.

(* ---- the regularisation parameter ---- *)
Lemma max_ratio_total k (zinv s : Vec) mx : (k <= length zinv)%nat -> (k <= length s)%nat -> exists r, max_ratio k zinv s mx = Ok r.
Proof.
  intros L1 L2. unfold max_ratio.
  destruct (for_range_ind (fun _ (_ : F) => True) 0 k (fun i mx0 => do zi <- get zinv i ;; do si <- get s i ;; Ok (qmax mx0 (zi * si))) mx)
    as (r & E & _); [lia | exact I | | eauto].
  intros i a Hi _. rewrite (get_nth zinv i 0) by lia. cbn [bind]. rewrite (get_nth s i 0) by lia. cbn [bind]. eauto.
Qed.

Lemma static_diag_max_total d : wf_sdata d -> exists r, static_diag_max d = Ok r.
Proof.
  intros (Hwf & _ & Hnc & _). unfold static_diag_max.
  pose proof (wf_cp_len (sd_P d) Hwf) as Lk. pose proof (wf_vals_len (sd_P d) Hwf) as Lv.
  destruct (for_range_ind (fun _ (_ : F) => True) 0 (sd_n d)
    (fun col mx => do lo <- get (colptr (sd_P d)) col ;; do hi <- get (colptr (sd_P d)) (S col) ;;
       if (lo <? hi)%nat then do r <- get (rowind (sd_P d)) (hi - 1) ;;
                              if (r =? col)%nat then do v <- get (vals (sd_P d)) (hi - 1) ;; Ok (qmax mx v) else Ok mx
       else Ok mx) 0) as (r & E & _); [lia | exact I | | eauto].
  intros i a Hi _.
  pose proof (wf_col_range (sd_P d) Hwf i ltac:(lia)) as [_ H3].
  rewrite (get_nth (colptr (sd_P d)) i 0%nat) by lia. cbn [bind].
  rewrite (get_nth (colptr (sd_P d)) (S i) 0%nat) by lia. cbn [bind].
  destruct (Nat.ltb_spec (nth i (colptr (sd_P d)) 0%nat) (nth (S i) (colptr (sd_P d)) 0%nat)); [|eauto].
  rewrite (get_nth (rowind (sd_P d)) _ 0%nat) by lia. cbn [bind].
  destruct (_ =? i)%nat; [|eauto].
  rewrite (get_nth (vals (sd_P d)) _ 0) by nlia. cbn [bind]. eauto.
Qed.

Theorem kkt_reg_total rs d c : wf_sdata d -> solve_ok d c -> exists reg, kkt_reg rs d c = Ok reg.
Proof.
  intros Hwf (S1 & S2 & _ & _ & S5 & S6 & _ & _ & S9 & S10 & _). unfold kkt_reg.
  destruct (static_diag_max_total d Hwf) as (m0 & E0). rewrite E0. cbn [bind].
  destruct (max_ratio_total (sd_m d) (sc_z_inv c) (sc_s c) m0) as (m1 & E1); try nlia. rewrite E1. cbn [bind].
  destruct (max_ratio_total (sd_nlb d) (sc_z_lb_inv c) (sc_s_lb c) m1) as (m2 & E2); try nlia. rewrite E2. cbn [bind].
  destruct (max_ratio_total (sd_nub d) (sc_z_ub_inv c) (sc_s_ub c) m2) as (m3 & E3); try nlia. rewrite E3. cbn [bind].
  eauto.
Qed.

(* ---- the numeric phase of the LDL^T started from a reusable object returns Ok (the first half of
        KKTSparseRefactorProofs.refactor_solves, without the assumption that no zero pivot is met) ---- *)
Section NumericTotal.
Local Open Scope nat_scope.
Lemma numeric_total (A : csc F) (st0 : ldl_i * ldl_v) :
  wf_csc A = true -> ncols A = nrows A -> upper_only A = true -> nodup_cols A -> reusable A st0 ->
  exists r st, numeric A st0 = Ok (r, st).
Proof.
  intros Hwf Hsq Hup Hnd Hre. set (n := nrows A) in *.
  destruct Hre as (lis & Es & Eet & ELc & Lz0 & Lf0 & Lp0 & Li0 & Ly0 & LD0 & LV0 & Hy0).
  assert (P1 : length (colptr A) = S n) by (rewrite (wf_cp_len A Hwf); now rewrite Hsq).
  assert (P2 : forall j, j < n -> nth j (colptr A) 0 <= nth (S j) (colptr A) 0).
  { intros j Hj. apply (wf_col_range A Hwf j). now rewrite Hsq. }
  assert (P3 : forall j, j < n -> nth (S j) (colptr A) 0 <= length (rowind A)).
  { intros j Hj. apply (wf_col_range A Hwf j). now rewrite Hsq. }
  assert (P4 : forall j p, j < n -> nth j (colptr A) 0 <= p < nth (S j) (colptr A) 0 -> nth p (rowind A) 0 <= j).
  { intros j p Hj Hp. apply upper_only_le; auto. now rewrite Hsq. }
  set (lpA := lpf (has_entry (colptr A) (rowind A)) n) in *.
  assert (Plp : forall k i, i < k -> k < n ->
            lpA k i = has_entry (colptr A) (rowind A) i k || existsb (fun c => lpA i c && lpA k c) (seq 0 i)).
  { intros. now apply lpf_eq. }
  destruct (symbolic_i_spec n (colptr A) (rowind A) P1 P2 P3 P4 lpA Plp)
    as (lis' & Es' & S1 & S2 & S3 & S4 & S5 & S6 & S7 & S8 & S9 & S10 & S11).
  fold n in Es. rewrite Es in Es'. inversion Es'; subst lis'. clear Es'.
  assert (HAnd : forall j p1 p2, j < n -> nth j (colptr A) 0 <= p1 < nth (S j) (colptr A) 0 ->
            nth j (colptr A) 0 <= p2 < nth (S j) (colptr A) 0 -> nth p1 (rowind A) 0 = nth p2 (rowind A) 0 -> p1 = p2).
  { intros j p1 p2 Hj. apply Hnd. rewrite Hsq. exact Hj. }
  pose proof (wf_vals_len A Hwf) as HAx.
  assert (Ltot : length (i_Lind lis) = nth n (i_Lcols lis) 0) by (rewrite S9; apply repeat_length).
  destruct st0 as [li0 lv0]. cbn [fst snd] in *.
  assert (HV0 : VInv n (colptr A) (rowind A) (vals A) lpA (i_Lcols lis) 0 (li0, lv0)).
  { unfold VInv. split.
    { unfold NumInv. repeat (split; auto); try lia; intros; lia. }
    split; auto. split; auto. split; [lia|]. split; [exact Hy0|]. repeat split; intros; lia. }
  destruct (num_loop_val n (colptr A) (rowind A) (vals A) P1 P2 P3 P4 HAx HAnd lpA Plp (i_etree lis) (i_Lcols lis) S1 S5 S4 S8
              n 0 li0 lv0 eq_refl HV0) as (r & li2 & lv2 & EL & HVn).
  unfold numeric. cbn [fst]. fold n. rewrite Eet, ELc.
  change Qc with F in *. rewrite EL. cbn [bind].
  destruct (Nat.eqb_spec r n) as [->|Hne]; [|eauto].
  destruct (HVn eq_refl) as (_ & _ & LD & _ & _ & Hnz & _).
  destruct (mapM_qinv_ok (v_D lv2)) as (dinv & Ed & _).
  { intros i Hi. apply Hnz. lia. }
  rewrite Ed. cbn [bind]. eauto.
Qed.
End NumericTotal.

Lemma nodup_cols_pattern (A B : csc F) : ncols B = ncols A -> colptr B = colptr A -> rowind B = rowind A -> nodup_cols A -> nodup_cols B.
Proof. intros E1 E2 E3 H. unfold nodup_cols in *. rewrite E1, E2, E3. exact H. Qed.

Lemma mode_N_ge md d : (sd_n d <= mode_N md d)%nat.
Proof. destruct md; cbn [mode_N]; lia. Qed.

(* ---- T : regularize_and_factorize(refine) returns Ok, restores PKPt, and -- when it reports success -- the LDL^T object solves
        the matrix that was factorised (the regularised one for refine = true) and can be reused ---- *)
Theorem factorize_r_total rs refine md d c o K st :
  wf_sdata d -> solve_ok d c -> kkt_addr_ok (mode_N md d) o K -> upper_only K = true -> nodup_cols K -> reusable K st ->
  exists ok st' Kr,
    kkt_factorize_r rs refine md d c o K st = Ok (ok, st', K) /\
    (if refine then exists reg kd, kkt_reg rs d c = Ok reg /\
                     kkt_regularize (sd_n d) (mode_N md d) (oPinv o) (sc_rho c) (sc_delta c) reg K (repeat 0 (mode_N md d)) = Ok (Kr, kd)
     else Kr = K) /\
    (ok = true -> ldl_solves Kr st' /\ reusable K st').
Proof.
  intros Hwd Hso HA Hup Hnd Hre. pose proof HA as (Hwf & Hnr & Hnc & Hdl & Ho).
  assert (numeric_case : forall Kr, nrows Kr = nrows K -> ncols Kr = ncols K -> colptr Kr = colptr K -> rowind Kr = rowind K ->
            length (vals Kr) = length (vals K) ->
            exists r st', numeric Kr st = Ok (r, st') /\ ((r =? ncols Kr)%nat = true -> ldl_solves Kr st' /\ reusable K st')).
  { intros Kr E1 E2 E3 E4 E5.
    assert (Hwf' : wf_csc Kr = true).
    { destruct Kr as [a b cp0 ri vs]. cbn [nrows ncols colptr rowind vals] in *. subst.
      apply (wf_csc_pattern K vs Hwf). rewrite E5. apply (wf_vals_len K Hwf). }
    assert (Hsq' : ncols Kr = nrows Kr) by congruence.
    assert (Hup' : upper_only Kr = true) by (rewrite (upper_only_pattern Kr K E2 E3 E4); exact Hup).
    assert (Hnd' : nodup_cols Kr) by (apply (nodup_cols_pattern K Kr E2 E3 E4 Hnd)).
    assert (Hre' : reusable Kr st) by (apply (reusable_pattern K Kr st E1 E3 E4 Hre)).
    destruct (numeric_total Kr st Hwf' Hsq' Hup' Hnd' Hre') as (r & st' & En).
    exists r, st'. split; [exact En|]. intros Hr. apply Nat.eqb_eq in Hr.
    assert (En' : numeric Kr st = Ok (nrows Kr, st')) by (rewrite En; f_equal; f_equal; congruence).
    destruct (refactor_solves Kr st st' Hwf' Hsq' Hup' Hnd' Hre' En') as [Hs Hr2]. split; [exact Hs|].
    apply (reusable_pattern Kr K st'); congruence. }
  unfold kkt_factorize_r. destruct refine.
  - cbv zeta.
    destruct (kkt_reg_total rs d c Hwd Hso) as (reg & Ereg). rewrite Ereg. cbn [bind].
    destruct (regularize_total _ o K HA (sd_n d) (sc_rho c) (sc_delta c) reg (repeat 0 (mode_N md d)) (mode_N_ge md d) (repeat_length _ _))
      as (Kr & kd & Erg & E1 & E2 & E3 & E4 & E5 & _).
    rewrite Erg. cbn [bind].
    destruct (numeric_case Kr E1 E2 E3 E4 E5) as (r & st' & En & Hok). rewrite En. cbn [bind].
    rewrite (unregularize_restores _ _ _ _ _ _ _ _ _ _ (addr_kp_len _ o K HA) Erg). cbn [bind].
    exists (r =? ncols Kr)%nat, st', Kr. split; [reflexivity|]. split; [exists reg, kd; split; [reflexivity | exact Erg] | exact Hok].
  - unfold kkt_factorize.
    destruct (numeric_case K eq_refl eq_refl eq_refl eq_refl eq_refl) as (r & st' & En & Hok). rewrite En. cbn [bind].
    exists (r =? ncols K)%nat, st', K. split; [reflexivity|]. split; [reflexivity | exact Hok].
Qed.

(* ================================================================ Part B : composition with the exact factorisation *)
Lemma qsum_cons a l : qsum (a :: l) = a + qsum l.
Proof. reflexivity. Qed.

Lemma qsum_seq_single (g : nat -> F) : forall len lo p0, (lo <= p0 < lo + len)%nat ->
  (forall p, (lo <= p < lo + len)%nat -> p <> p0 -> g p = 0) -> qsum (map g (seq lo len)) = g p0.
Proof.
  induction len as [|len IH]; intros lo p0 Hp H0; [lia|].
  cbn [seq map]. rewrite qsum_cons.
  destruct (Nat.eq_dec p0 lo) as [->|Hne].
  - rewrite qsum_map_zero; [fring|]. intros p Hin. apply in_seq in Hin. apply H0; lia.
  - rewrite (H0 lo) by lia. rewrite (IH (S lo) p0) by (try lia; intros; apply H0; lia). fring.
Qed.

Section FirstResidual.
  Variables (N : nat) (o : ordering) (K Kr : csc F).
  Hypothesis HA : kkt_addr_ok N o K.
  (* Kr: same pattern, values changed at most at the diagonal positions (the frame conclusion of regularize_values) *)
  Hypothesis E1 : nrows Kr = nrows K.
  Hypothesis E2 : ncols Kr = ncols K.
  Hypothesis E3 : colptr Kr = colptr K.
  Hypothesis E4 : rowind Kr = rowind K.
  Hypothesis Hframe : forall j, (forall c, (c < N)%nat -> j <> dq (colptr K) c) -> nth j (vals Kr) 0 = nth j (vals K) 0.

  Let dlt (i : nat) : F := nth (dq (colptr K) i) (vals Kr) 0 - nth (dq (colptr K) i) (vals K) 0.

  Lemma cp_mono a b : (a <= b)%nat -> (b <= N)%nat -> (nth a (colptr K) 0 <= nth b (colptr K) 0)%nat.
  Proof.
    destruct HA as (Hwf & _ & Hnc & _). intros Hab. induction b as [|b IH]; intros Hb.
    - replace a with 0%nat by lia. lia.
    - destruct (Nat.eq_dec a (S b)) as [->|Hne]; [lia|].
      pose proof (wf_col_range K Hwf b ltac:(lia)) as [H1 _]. specialize (IH ltac:(lia) ltac:(lia)). lia.
  Qed.

  Lemma csc_get_reg i j : (i < N)%nat -> (j < N)%nat ->
    csc_get Kr i j = csc_get K i j + (if Nat.eqb i j then dlt i else 0).
  Proof.
    intros Hi Hj. unfold csc_get. rewrite E3, E4.
    set (lo := nth j (colptr K) 0%nat). set (hi := nth (S j) (colptr K) 0%nat).
    set (e := fun p => if (nth p (rowind K) 0 =? i)%nat then nth p (vals Kr) 0 - nth p (vals K) 0 else 0).
    rewrite (qsum_map_ext _ (fun p => (if (nth p (rowind K) 0 =? i)%nat then nth p (vals K) 0 else 0) + e p)).
    2:{ intros p _. unfold e. destruct (_ =? i)%nat; fring. }
    rewrite qsum_map_add. f_equal.
    (* the only position of the whole value array where e can be non-zero is dq i *)
    assert (He : forall p, p <> dq (colptr K) i -> e p = 0).
    { intros p Hp. unfold e. destruct (Nat.eqb_spec (nth p (rowind K) 0%nat) i) as [Er|]; [|reflexivity].
      destruct (hit_dec N (colptr K) (addr_kp_len N o K HA) p) as [(c & Hc & ->) | Hn].
      - destruct (addr_dq N o K HA c Hc) as (_ & _ & Rc & _). exfalso. apply Hp. congruence.
      - rewrite (Hframe p Hn). ring. }
    destruct (addr_dq N o K HA i Hi) as (_ & _ & Ri & Rng).
    destruct (Nat.eqb_spec i j) as [->|Hne].
    - fold lo hi in Rng. rewrite (qsum_seq_single e (hi - lo) lo (dq (colptr K) j)) by (try lia; intros; apply He; assumption).
      unfold e, dlt. rewrite Ri, Nat.eqb_refl. reflexivity.
    - apply qsum_map_zero. intros p Hin. apply in_seq in Hin. apply He. intros ->.
      (* dq i lies in column i, p in column j *)
      destruct (Nat.lt_ge_cases i j) as [Hlt|Hge].
      + pose proof (cp_mono (S i) j ltac:(lia) ltac:(lia)). unfold lo in Hin. lia.
      + pose proof (cp_mono (S j) i ltac:(lia) ltac:(lia)). unfold lo, hi in Hin. lia.
  Qed.

  Lemma sym_get_reg i j : (i < N)%nat -> (j < N)%nat ->
    sym_get Kr i j = sym_get K i j + (if Nat.eqb i j then dlt i else 0).
  Proof.
    intros Hi Hj. unfold sym_get. destruct (i <=? j)%nat.
    - apply csc_get_reg; assumption.
    - rewrite (csc_get_reg j i Hj Hi). rewrite (Nat.eqb_sym j i). destruct (Nat.eqb_spec i j) as [->|]; reflexivity.
  Qed.

  Lemma ksym_mv_nth (x : Vec) i : (i < N)%nat -> nth i (ksym_mv K x) 0 = sum N (fun j => sym_get K i j * nth j x 0).
  Proof.
    intros Hi. destruct HA as (_ & Hnr & Hnc & _). unfold ksym_mv. rewrite Hnr, Hnc.
    rewrite tabv_nth by exact Hi. rewrite fsum_sum. reflexivity.
  Qed.

  (* ---- T : the first candidate solves the regularised system exactly; its residual in the UNregularised system is the
          diagonal perturbation applied to it ---- *)
  Theorem first_residual_gen st (rhs : Vec) : ldl_solves Kr st -> length rhs = N ->
    exists x0, ldl_solve st rhs = Ok x0 /\ length x0 = N /\
      forall i, (i < N)%nat -> nth i (kresid K rhs x0) 0 = dlt i * nth i x0 0.
  Proof.
    intros Hs Lr. destruct HA as (_ & Hnr & _).
    destruct (Hs rhs) as (x0 & Ex & Lx & Hx); [congruence|].
    exists x0. split; [exact Ex|]. split; [congruence|].
    intros i Hi. unfold kresid. rewrite Lr. rewrite tabv_nth by exact Hi.
    rewrite <- (Hx i) by congruence. rewrite sum_n_sum. rewrite E1, Hnr. rewrite (ksym_mv_nth x0 i Hi).
    rewrite <- sum_sub.
    rewrite (sum_single N i); [| exact Hi |].
    - rewrite (sym_get_reg i i Hi Hi), Nat.eqb_refl. fring.
    - intros j Hj Hne. rewrite (sym_get_reg i j Hi Hj). destruct (Nat.eqb_spec i j); [congruence|]. fring.
  Qed.
End FirstResidual.

Lemma fold_qmax_abs_zero l : (forall x, In x l -> x = 0) -> fold_left (fun acc x => qmax acc (qabs x)) l 0 = 0.
Proof.
  induction l as [|a l IH]; intros H; [reflexivity|]. cbn [fold_left].
  rewrite (H a (or_introl eq_refl)). change (qmax 0 (qabs 0)) with (0 : F). apply IH. intros x Hx. apply H. right. exact Hx.
Qed.

Lemma norm_inf_zero (v : Vec) : (forall i, (i < length v)%nat -> nth i v 0 = 0) -> norm_inf v = 0.
Proof.
  intros H. unfold norm_inf. apply fold_qmax_abs_zero. intros x Hx. apply (In_nth _ _ 0) in Hx. destruct Hx as (i & Hi & <-). apply H. exact Hi.
Qed.

Lemma kresid_length K (rhs sol : Vec) : length (kresid K rhs sol) = length rhs.
Proof. unfold kresid. apply tabv_len. Qed.

(* ---- T (C13_refine_first_residual): with the regularisation as regularize_kkt writes it ---- *)
Theorem first_residual N o K n rho delta reg kd0 Kr kd st (rhs : Vec) :
  kkt_addr_ok N o K -> (n <= N)%nat ->
  kkt_regularize n N (oPinv o) rho delta reg K kd0 = Ok (Kr, kd) ->
  ldl_solves Kr st -> length rhs = N ->
  exists x0, ldl_solve st rhs = Ok x0 /\ length x0 = N /\
    forall i, (i < N)%nat ->
      nth i (kresid K rhs x0) 0 = (if (nth i (oP o) 0 <? n)%nat then qmax 0 (reg - rho) else - qmax 0 (reg - delta)) * nth i x0 0.
Proof.
  intros HA HnN Erg Hs Lr.
  destruct (regularize_values n N (oPinv o) rho delta reg K kd0 Kr kd (addr_kp_len N o K HA) HnN
              (addr_pinv_range N o K HA) (addr_pinv_inj N o K HA) (addr_dq_inj N o K HA) Erg) as (E1 & E2 & E3 & E4 & _ & Hv & Hf).
  destruct (first_residual_gen N o K Kr HA E1 E2 E3 E4 Hf st rhs Hs Lr) as (x0 & Ex & Lx & Hx).
  exists x0. split; [exact Ex|]. split; [exact Lx|]. intros i Hi. rewrite (Hx i Hi). f_equal.
  pose proof HA as (_ & _ & _ & _ & Ho).
  pose proof (ord_ok_PI N o Ho i Hi) as HPI.
  assert (HPr : (nth i (oP o) 0 < N)%nat).
  { destruct Ho as (Hw & LP & _). rewrite <- LP. apply perm_wf_range; [exact Hw | lia]. }
  specialize (Hv (nth i (oP o) 0%nat) HPr). rewrite HPI in Hv.
  unfold Vec, F in *. rewrite Hv. fring.
Qed.

(* ---- T (C13_refine_noop_when_reg_small): reg <= rho and reg <= delta: the first candidate has zero residual and the refined
        solve returns it, whatever the (non-negative) tolerance, max_iter and min_improvement_rate ---- *)
Theorem noop_when_reg_small rs refine N o K n rho delta reg kd0 Kr kd st (rhs : Vec) :
  kkt_addr_ok N o K -> (n <= N)%nat ->
  kkt_regularize n N (oPinv o) rho delta reg K kd0 = Ok (Kr, kd) ->
  reg <= rho -> reg <= delta ->
  ldl_solves Kr st -> length rhs = N ->
  0 <= rs_eps_abs rs + rs_eps_rel rs * norm_inf rhs ->
  exists x0, ldl_solve st rhs = Ok x0 /\ kres_norm K rhs x0 = 0 /\ refined_solve rs refine K st rhs = Ok x0.
Proof.
  intros HA HnN Erg Hr Hd Hs Lr Htol.
  destruct (first_residual N o K n rho delta reg kd0 Kr kd st rhs HA HnN Erg Hs Lr) as (x0 & Ex & Lx & Hx).
  assert (Z1 : qmax 0 (reg - rho) = 0).
  { apply qmax0_nonpos. unfold Qcminus. rewrite <- (Qcplus_opp_r rho). apply Qcplus_le_compat; [exact Hr | apply Qcle_refl]. }
  assert (Z2 : qmax 0 (reg - delta) = 0).
  { apply qmax0_nonpos. unfold Qcminus. rewrite <- (Qcplus_opp_r delta). apply Qcplus_le_compat; [exact Hd | apply Qcle_refl]. }
  assert (Hz : kres_norm K rhs x0 = 0).
  { unfold kres_norm. apply norm_inf_zero. intros i Hi. rewrite kresid_length, Lr in Hi. rewrite (Hx i Hi), Z1, Z2.
    destruct (_ <? n)%nat; fring. }
  exists x0. split; [exact Ex|]. split; [exact Hz|].
  destruct HA as (_ & Hnr & Hnc & _).
  apply refined_solve_exact_noop; try assumption; congruence.
Qed.

(* ================================================================ Part C : totality of solve, four modes *)
Lemma tab2_total n (a b : Vec) (h : F -> F -> F) : (n <= length a)%nat -> (n <= length b)%nat ->
  exists v, tab n (fun i => do x <- get a i ;; do y <- get b i ;; Ok (h x y)) = Ok v /\ length v = n.
Proof.
  intros La Lb. exists (map (fun i => h (nth i a 0) (nth i b 0)) (seq 0 n)). split; [|apply tabv_len].
  apply tab_intro. intros i Hi. rewrite (get_nth a i 0) by lia. cbn [bind]. rewrite (get_nth b i 0) by lia. reflexivity.
Qed.

Lemma tab3_total n (a b e : Vec) (h : F -> F -> F -> F) : (n <= length a)%nat -> (n <= length b)%nat -> (n <= length e)%nat ->
  exists v, tab n (fun i => do x <- get a i ;; do y <- get b i ;; do z <- get e i ;; Ok (h x y z)) = Ok v /\ length v = n.
Proof.
  intros La Lb Le. exists (map (fun i => h (nth i a 0) (nth i b 0) (nth i e 0)) (seq 0 n)). split; [|apply tabv_len].
  apply tab_intro. intros i Hi. rewrite (get_nth a i 0) by lia. cbn [bind]. rewrite (get_nth b i 0) by lia. cbn [bind].
  rewrite (get_nth e i 0) by lia. reflexivity.
Qed.

(* rewriting with an equation whose left-hand side occurs in the goal only up to the aliases F / Vec *)
Ltac rw_conv E :=
  match type of E with _ = ?rhs_ =>
    match goal with |- context [bind ?t _] => replace t with rhs_ by (symmetry; exact E) end end.

Definition delta_ok (md : kmode) (c : scal) : Prop :=
  match md with MEq | MAll => sc_delta c <> 0 | _ => True end.

Section SolveTotal.
  Variables (md : kmode) (d : sdata) (c : scal) (o : ordering) (r : step8).
  Hypothesis Hwd : wf_sdata d.
  Hypothesis Hso : solve_ok d c.
  Hypothesis Hro : rhs_ok d r.
  Hypothesis Ho : ord_ok (mode_N md d) o.
  Hypothesis Hdel : delta_ok md c.
  Local Notation n := (sd_n d). Local Notation p := (sd_p d). Local Notation m := (sd_m d).
  Local Notation N := (mode_N md d).

  Lemma rhs_perm_total : exists dinv zbar rhs rp,
    kkt_rhs_perm md d c o r = Ok (dinv, zbar, rhs, rp) /\ length zbar = m /\ length rhs = N /\ length rp = N.
  Proof.
    pose proof Hso as (S1 & S2 & _ & _ & _ & _ & _ & _ & _ & _ & _ & _ & Hm & _).
    pose proof Hro as (R1 & R2 & R3 & R4 & _).
    pose proof Hwd as (_ & _ & _ & _ & An & Ap & _ & Gn & Gm).
    unfold kkt_rhs_perm. cbv zeta. rewrite !chk_eq_ok by assumption. cbn [bind].
    destruct (tab3_total m (t_z r) (sc_z_inv c) (t_s r) (fun a zi b => a - zi * b)) as (zb & Ezb & Lzb); try nlia.
    cbv beta in Ezb. rw_conv Ezb. cbn [bind]. clear Ezb.
    assert (Hmid : exists dinv zbar rhs0,
      match md with
      | MFull => Ok (0, zb, t_x r ++ t_y r ++ zb)
      | MEq =>
        do dinv <- qdiv 1 (sc_delta c) ;;
        do hd <- tab n (fun i => do a <- get (t_x r) i ;; do b <- get (spmv (sd_AT d) (t_y r)) i ;; Ok (a + dinv * b)) ;;
        Ok (dinv, zb, hd ++ zb)
      | MIneq =>
        do zbar <- div_w m (sc_s c) (sc_z_inv c) (sc_delta c) zb ;;
        do hd <- tab n (fun i => do a <- get (t_x r) i ;; do b <- get (spmv (sd_GT d) zbar) i ;; Ok (a + b)) ;;
        Ok (0, zbar, hd ++ t_y r)
      | MAll =>
        do dinv <- qdiv 1 (sc_delta c) ;;
        do zbar <- div_w m (sc_s c) (sc_z_inv c) (sc_delta c) zb ;;
        do hd <- tab n (fun i => do a <- get (t_x r) i ;; do b <- get (spmv (sd_GT d) zbar) i ;;
                                 do e <- get (spmv (sd_AT d) (t_y r)) i ;; Ok (a + b + dinv * e)) ;;
        Ok (dinv, zbar, hd)
      end = Ok (dinv, zbar, rhs0) /\ length zbar = m /\ length rhs0 = N).
    { destruct md; cbn [mode_N delta_ok] in *.
      - exists 0, zb, (t_x r ++ t_y r ++ zb). split; [reflexivity|]. split; [exact Lzb|]. rewrite !app_length. nlia.
      - rewrite (qdiv_nz 1 (sc_delta c) Hdel). cbn [bind].
        pose proof (spmv_len (sd_AT d) (t_y r)) as L1.
        destruct (tab2_total n (t_x r) (spmv (sd_AT d) (t_y r)) (fun a b => a + 1 / sc_delta c * b)) as (hd & Eh & Lh); try nlia.
        cbv beta in Eh. rw_conv Eh. cbn [bind].
        eexists _, zb, _. split; [reflexivity|]. split; [exact Lzb|]. rewrite app_length. nlia.
      - destruct (div_w_spec m (sc_s c) (sc_z_inv c) (sc_delta c) zb) as (zbar & Ez & Lz & _); try nlia.
        { intros l Hl. apply (Hm l Hl). }
        rewrite Ez. cbn [bind].
        pose proof (spmv_len (sd_GT d) zbar) as L1.
        destruct (tab2_total n (t_x r) (spmv (sd_GT d) zbar) (fun a b => a + b)) as (hd & Eh & Lh); try nlia.
        cbv beta in Eh. rw_conv Eh. cbn [bind].
        eexists 0, zbar, _. split; [reflexivity|]. split; [exact Lz|]. rewrite app_length. nlia.
      - rewrite (qdiv_nz 1 (sc_delta c) Hdel). cbn [bind].
        destruct (div_w_spec m (sc_s c) (sc_z_inv c) (sc_delta c) zb) as (zbar & Ez & Lz & _); try nlia.
        { intros l Hl. apply (Hm l Hl). }
        rewrite Ez. cbn [bind].
        pose proof (spmv_len (sd_GT d) zbar) as L1. pose proof (spmv_len (sd_AT d) (t_y r)) as L2.
        destruct (tab3_total n (t_x r) (spmv (sd_GT d) zbar) (spmv (sd_AT d) (t_y r)) (fun a b e => a + b + 1 / sc_delta c * e))
          as (hd & Eh & Lh); try nlia.
        cbv beta in Eh. rw_conv Eh. cbn [bind].
        eexists _, zbar, hd. split; [reflexivity|]. split; [exact Lz | exact Lh]. }
    destruct Hmid as (dinv & zbar & rhs0 & Emid & Lz & L0). rewrite Emid. cbn [bind]. cbv beta iota.
    destruct (cond_box d c r Hso Hro rhs0 N L0 (mode_N_ge md d)) as (rhs1 & rhs2 & E1 & E2 & L2 & _).
    rewrite E1. cbn [bind]. rewrite E2. cbn [bind].
    destruct Ho as (Hw & LP & _).
    destruct (ord_perm_spec (0 : F) o (repeat 0 N) rhs2) as (rp & Erp & Lrp & _).
    { intros i Hi. apply perm_wf_range; auto. } { rewrite repeat_length; auto. } { nlia. }
    rw_conv Erp. cbn [bind].
    exists dinv, zbar, rhs2, rp. split; [reflexivity|]. split; [exact Lz|]. split; [exact L2 | nlia].
  Qed.

  Lemma recover_total dinv (zbar rhs sp : Vec) : length zbar = m -> length rhs = N -> length sp = N ->
    exists v, kkt_recover md d c o r dinv zbar rhs sp = Ok v /\ step_ok d v.
  Proof.
    intros Lz Lr Ls.
    pose proof Hso as (S1 & S2 & _ & _ & _ & _ & _ & _ & _ & _ & _ & _ & Hm & _).
    pose proof Hro as (R1 & R2 & R3 & R4 & _).
    pose proof Hwd as (_ & _ & _ & _ & An & Ap & _ & Gn & Gm).
    unfold kkt_recover. cbv zeta.
    destruct Ho as (Hw & LP & _).
    destruct (ord_permt_spec (0 : F) o rhs sp Hw) as (sol & Esol & Lsol & _); try nlia.
    rw_conv Esol. cbn [bind].
    set (dx := head n sol).
    assert (Ldx : length dx = n) by (apply head_length; pose proof (mode_N_ge md d); nlia).
    assert (Hmid : exists dy dz,
      match md with
      | MFull => Ok (segment n p sol, tail_from (n + p) sol)
      | MEq =>
        do dy <- tab p (fun l => do a <- get (spmtv (sd_AT d) dx) l ;; do b <- get (t_y r) l ;; Ok (dinv * a - dinv * b)) ;;
        Ok (dy, tail_from n sol)
      | MIneq =>
        do g <- div_w m (sc_s c) (sc_z_inv c) (sc_delta c) (spmtv (sd_GT d) dx) ;;
        do dz <- tab m (fun l => do a <- get g l ;; do b <- get zbar l ;; Ok (a - b)) ;;
        Ok (tail_from n sol, dz)
      | MAll =>
        do dy <- tab p (fun l => do a <- get (spmtv (sd_AT d) dx) l ;; do b <- get (t_y r) l ;; Ok (dinv * a - dinv * b)) ;;
        do g <- div_w m (sc_s c) (sc_z_inv c) (sc_delta c) (spmtv (sd_GT d) dx) ;;
        do dz <- tab m (fun l => do a <- get g l ;; do b <- get zbar l ;; Ok (a - b)) ;;
        Ok (dy, dz)
      end = Ok (dy, dz) /\ length dy = p /\ length dz = m).
    { pose proof (spmtv_len (sd_AT d) dx) as LA. pose proof (spmtv_len (sd_GT d) dx) as LG.
      destruct md; cbn [mode_N] in *.
      - eexists _, _. split; [reflexivity|]. split; [apply len_segment; nlia | rewrite len_tail_from; nlia].
      - destruct (tab2_total p (spmtv (sd_AT d) dx) (t_y r) (fun a b => dinv * a - dinv * b)) as (dy & Ey & Ly); try nlia.
        cbv beta in Ey. rw_conv Ey. cbn [bind]. eexists _, _. split; [reflexivity|]. split; [exact Ly | rewrite len_tail_from; nlia].
      - destruct (div_w_spec m (sc_s c) (sc_z_inv c) (sc_delta c) (spmtv (sd_GT d) dx)) as (g & Eg & Lg & _); try nlia.
        { intros l Hl. apply (Hm l Hl). }
        rewrite Eg. cbn [bind].
        destruct (tab2_total m g zbar (fun a b => a - b)) as (dz & Ez & Ldz); try nlia.
        cbv beta in Ez. rw_conv Ez. cbn [bind]. eexists _, _. split; [reflexivity|]. split; [rewrite len_tail_from; nlia | exact Ldz].
      - destruct (tab2_total p (spmtv (sd_AT d) dx) (t_y r) (fun a b => dinv * a - dinv * b)) as (dy & Ey & Ly); try nlia.
        cbv beta in Ey. rw_conv Ey. cbn [bind].
        destruct (div_w_spec m (sc_s c) (sc_z_inv c) (sc_delta c) (spmtv (sd_GT d) dx)) as (g & Eg & Lg & _); try nlia.
        { intros l Hl. apply (Hm l Hl). }
        rewrite Eg. cbn [bind].
        destruct (tab2_total m g zbar (fun a b => a - b)) as (dz & Ez & Ldz); try nlia.
        cbv beta in Ez. rw_conv Ez. cbn [bind]. eexists _, _. split; [reflexivity|]. split; [exact Ly | exact Ldz]. }
    destruct Hmid as (dy & dz & Emid & Ldy & Ldz). fold dx. rewrite Emid. cbn [bind]. cbv beta iota.
    destruct (recover d c r Hso Hro dx dz Ldx Ldz)
      as (dzlb & dzub & ds & dslb & dsub & F1 & F2 & F3 & F4 & F5 & G1 & G2 & G3 & G4 & G5 & _).
    rewrite F1. cbn [bind]. rewrite F2. cbn [bind]. rewrite F3. cbn [bind]. rewrite F4. cbn [bind]. rewrite F5. cbn [bind].
    eexists. split; [reflexivity|].
    unfold step_ok. cbn [t_x t_y t_z t_s t_zlb t_slb t_zub t_sub]. repeat split; assumption.
  Qed.

  (* ---- T : solve with any total linear solve returns Ok ---- *)
  Theorem solve_with_total (lin : Vec -> res Vec) :
    (forall rp : Vec, length rp = N -> exists sp, lin rp = Ok sp /\ length sp = N) ->
    exists v, kkt_solve_with lin md d c o r = Ok v /\ step_ok d v.
  Proof.
    intros Hlin. rewrite solve_with_split.
    destruct rhs_perm_total as (dinv & zbar & rhs & rp & E & Lz & Lr & Lp). rewrite E. cbn [bind].
    destruct (Hlin rp Lp) as (sp & Es & Ls). rewrite Es. cbn [bind].
    apply recover_total; assumption.
  Qed.
End SolveTotal.

(* ---- the refinement loop and the refined linear solve are total when the LDL^T object solves SOME N x N matrix ---- *)
Lemma vadd_length (a b : Vec) : length a = length b -> length (vadd a b) = length a.
Proof. intros H. unfold vadd, vmap2. rewrite map_length, combine_length. nlia. Qed.

Section LoopTotal.
  Variables (rs : rset) (K Kf : csc F) (st : ldl_i * ldl_v) (N : nat) (rhs : Vec).
  Hypothesis Hs : ldl_solves Kf st.
  Hypothesis HKf : nrows Kf = N.
  Hypothesis Lr : length rhs = N.

  Lemma refine_loop_total rhs_norm : forall fuel (sol ec : Vec) en, length sol = N -> length ec = N ->
    exists x, refine_loop rs K st rhs rhs_norm fuel sol ec en = Ok x /\ length x = N.
  Proof.
    induction fuel as [|fuel IH]; intros sol ec en Ls Le; cbn [refine_loop]; [eauto|].
    destruct (qleb en _); [eauto|].
    destruct (Hs ec) as (corr & Ec & Lc & _); [congruence|]. rewrite Ec. cbn [bind].
    assert (Lv : length (vadd sol corr) = N) by (rewrite vadd_length; congruence).
    assert (Lk : length (kresid K rhs (vadd sol corr)) = N) by (rewrite kresid_length; exact Lr).
    destruct (qeqb (norm_inf (kresid K rhs (vadd sol corr))) 0) eqn:Ez.
    - apply IH; assumption.
    - apply qeqb_neq in Ez. rewrite (qdiv_nz en _ Ez). cbn [bind].
      destruct (qltb _ (rs_min_rate rs)).
      + destruct (qltb 1 _); eauto.
      + apply IH; assumption.
  Qed.

  Theorem refined_solve_total refine : nrows K = N -> ncols K = N ->
    exists x, refined_solve rs refine K st rhs = Ok x /\ length x = N.
  Proof.
    intros Hnr Hnc. unfold refined_solve.
    destruct (Hs rhs) as (sol0 & E0 & L0 & _); [congruence|]. rewrite E0. cbn [bind].
    destruct (refine && _)%bool; [|exists sol0; split; [reflexivity | congruence]].
    unfold chk_eq. rewrite L0, HKf, Lr, Hnr, Hnc, Nat.eqb_refl. cbn [bind andb].
    apply refine_loop_total; [congruence | rewrite kresid_length; exact Lr].
  Qed.
End LoopTotal.

(* ---- T : KKT::solve(.., refine) returns Ok, for the four modes ---- *)
Theorem solve_r_total rs refine md d c o K Kf st r :
  wf_sdata d -> solve_ok d c -> rhs_ok d r -> ord_ok (mode_N md d) o -> delta_ok md c ->
  nrows K = mode_N md d -> ncols K = mode_N md d ->
  ldl_solves Kf st -> nrows Kf = mode_N md d ->
  exists v, kkt_solve_r rs refine md d c o K st r = Ok v /\ step_ok d v.
Proof.
  intros Hwd Hso Hro Ho Hdel Hnr Hnc Hs HKf. unfold kkt_solve_r.
  apply (solve_with_total md d c o r Hwd Hso Hro Ho Hdel). intros rp Lp.
  apply (refined_solve_total rs K Kf st (mode_N md d) rp Hs HKf Lp refine Hnr Hnc).
Qed.

(* ---- T (C13_refine_total): regularize_and_factorize(refine) and, after a reported success, solve(.., refine') return Ok ---- *)
Theorem refine_total rs refine md d c o K st r :
  wf_sdata d -> solve_ok d c -> rhs_ok d r -> delta_ok md c ->
  kkt_addr_ok (mode_N md d) o K -> upper_only K = true -> nodup_cols K -> reusable K st ->
  exists ok st',
    kkt_factorize_r rs refine md d c o K st = Ok (ok, st', K) /\
    (ok = true -> reusable K st' /\ forall refine', exists v, kkt_solve_r rs refine' md d c o K st' r = Ok v /\ step_ok d v).
Proof.
  intros Hwd Hso Hro Hdel HA Hup Hnd Hre.
  destruct (factorize_r_total rs refine md d c o K st Hwd Hso HA Hup Hnd Hre) as (ok & st' & Kr & Ef & HKr & Hok).
  exists ok, st'. split; [exact Ef|]. intros Eok. destruct (Hok Eok) as [Hs Hre']. split; [exact Hre'|].
  intros refine'. pose proof HA as (_ & Hnr & Hnc & _ & Ho).
  assert (HKf : nrows Kr = mode_N md d).
  { destruct refine.
    - destruct HKr as (reg & kd & _ & Erg).
      destruct (regularize_total _ o K HA (sd_n d) (sc_rho c) (sc_delta c) reg (repeat 0 (mode_N md d)) (mode_N_ge md d) (repeat_length _ _))
        as (Kr' & kd' & Erg' & E1 & _). rewrite Erg in Erg'. injection Erg' as <- _. congruence.
    - subst Kr. exact Hnr. }
  apply (solve_r_total rs refine' md d c o K Kr st' r Hwd Hso Hro Ho Hdel Hnr Hnc Hs HKf).
Qed.

(* ---- T (end to end, permuted-system statement): after regularize_and_factorize(true) reported success, solve(.., true)
        returns Ok v where v is the recovery of a permuted solution sol; the first candidate sol0 has the residual
        "diagonal perturbation x sol0"; sol is at least as good (valid settings), and within the tolerance when the loop ended
        by the tolerance test ---- *)
Theorem refine_end_to_end rs md d c o K st st' r :
  wf_sdata d -> solve_ok d c -> rhs_ok d r -> delta_ok md c ->
  kkt_addr_ok (mode_N md d) o K -> upper_only K = true -> nodup_cols K -> reusable K st ->
  kkt_factorize_r rs true md d c o K st = Ok (true, st', K) ->
  exists reg dinv zbar rhs rp sol0 sol v,
    kkt_reg rs d c = Ok reg /\
    kkt_rhs_perm md d c o r = Ok (dinv, zbar, rhs, rp) /\ length rp = mode_N md d /\
    ldl_solve st' rp = Ok sol0 /\
    (forall i, (i < mode_N md d)%nat ->
       nth i (kresid K rp sol0) 0 =
       (if (nth i (oP o) 0 <? sd_n d)%nat then qmax 0 (reg - sc_rho c) else - qmax 0 (reg - sc_delta c)) * nth i sol0 0) /\
    refined_solve rs true K st' rp = Ok sol /\
    kkt_recover md d c o r dinv zbar rhs sol = Ok v /\
    kkt_solve_r rs true md d c o K st' r = Ok v /\ step_ok d v /\
    (1 <= rs_min_rate rs -> kres_norm K rp sol <= kres_norm K rp sol0) /\
    ((0 < rs_max_iter rs)%Z ->
     refine_stop rs K st' rp (norm_inf rp) (Z.to_nat (rs_max_iter rs)) sol0 (kresid K rp sol0) (norm_inf (kresid K rp sol0)) = Ok StopTol ->
     kres_norm K rp sol <= rs_eps_abs rs + rs_eps_rel rs * norm_inf rp) /\
    (reg <= sc_rho c -> reg <= sc_delta c -> 0 <= rs_eps_abs rs + rs_eps_rel rs * norm_inf rp -> sol = sol0 /\ kres_norm K rp sol = 0).
Proof.
  intros Hwd Hso Hro Hdel HA Hup Hnd Hre Ef.
  destruct (factorize_r_total rs true md d c o K st Hwd Hso HA Hup Hnd Hre) as (ok & st2 & Kr & Ef' & (reg & kd & Ereg & Erg) & Hok).
  rewrite Ef in Ef'. injection Ef' as <- <-. destruct (Hok eq_refl) as [Hs _].
  pose proof HA as (_ & Hnr & Hnc & _ & Ho).
  assert (HKf : nrows Kr = mode_N md d).
  { destruct (regularize_total _ o K HA (sd_n d) (sc_rho c) (sc_delta c) reg (repeat 0 (mode_N md d)) (mode_N_ge md d) (repeat_length _ _))
      as (Kr' & kd' & Erg' & E1 & _). rewrite Erg in Erg'. injection Erg' as <- _. congruence. }
  destruct (solve_r_total rs true md d c o K Kr st' r Hwd Hso Hro Ho Hdel Hnr Hnc Hs HKf) as (v & Ev & Hv).
  destruct (kkt_solve_r_spec rs true md d c o K st' r v Ev) as (dinv & zbar & rhs & rp & sol0 & sol & E1 & E2 & E3 & E4 & Hmono).
  destruct (rhs_perm_total md d c o r Hwd Hso Hro Ho Hdel) as (dinv' & zbar' & rhs' & rp' & E1' & _ & _ & Lp).
  rewrite E1 in E1'. injection E1' as <- <- <- <-.
  destruct (first_residual _ o K (sd_n d) (sc_rho c) (sc_delta c) reg _ Kr kd st' rp HA (mode_N_ge md d) Erg Hs Lp) as (x0 & Ex & _ & Hx).
  rewrite E2 in Ex. injection Ex as <-.
  exists reg, dinv, zbar, rhs, rp, sol0, sol, v.
  split; [exact Ereg|]. split; [exact E1|]. split; [exact Lp|]. split; [exact E2|]. split; [exact Hx|]. split; [exact E3|].
  split; [exact E4|]. split; [exact Ev|]. split; [exact Hv|]. split; [exact Hmono|]. split.
  - intros Hpos Hstop. apply (refined_solve_tol rs K st' rp sol0 sol E2 E3 Hpos Hstop).
  - intros Hr Hd Htol.
    destruct (noop_when_reg_small rs true _ o K (sd_n d) (sc_rho c) (sc_delta c) reg _ Kr kd st' rp HA (mode_N_ge md d) Erg Hr Hd Hs Lp Htol)
      as (x0 & Ex & Hz & Er).
    rewrite E2 in Ex. injection Ex as <-. rewrite E3 in Er. injection Er as ->. split; [reflexivity | exact Hz].
Qed.
