(** C16 -- proofs about the C interface model of CAPI.v. *)
From Coq Require Import String List Arith Bool Lia.
From PIQP Require Import TablesDef TablesCheck CAPI.
Import ListNotations.
Open Scope nat_scope.
Open Scope list_scope.

(* ------------------------------------------------------------------------------------------------ *)
(** * list helpers *)
Section ListHelpers.
Variable A : Type.

Lemma nth_skipn_add : forall (l : list A) k j d, nth j (skipn k l) d = nth (k + j) l d.
Proof.
  induction l as [|a l IH]; intros k j d.
  - rewrite skipn_nil. generalize (k + j). intros n. destruct j, n; reflexivity.
  - destruct k; simpl; [reflexivity|apply IH].
Qed.

Lemma nth_firstn_lt : forall (l : list A) c j d, j < c -> nth j (firstn c l) d = nth j l d.
Proof.
  induction l as [|a l IH]; intros c j d H.
  - rewrite firstn_nil. reflexivity.
  - destruct c; [lia|]. destruct j; simpl; [reflexivity|apply IH; lia].
Qed.

Lemma skipn_skipn_add : forall (l : list A) a b, skipn a (skipn b l) = skipn (b + a) l.
Proof.
  induction l as [|x l IH]; intros a b.
  - now rewrite !skipn_nil.
  - destruct b; simpl; [reflexivity|apply IH].
Qed.

Lemma nth_map_seq : forall (B : Type) (f : nat -> B) s n j dflt, j < n -> nth j (map f (seq s n)) dflt = f (s + j).
Proof.
  intros B f s n. revert s. induction n as [|n IH]; intros s j dflt H; [lia|].
  simpl. destruct j.
  - now rewrite Nat.add_0_r.
  - rewrite IH by lia. f_equal. lia.
Qed.

Lemma nth_map_lt : forall (B : Type) (g : A -> B) (l : list A) i dx dy, i < length l -> nth i (map g l) dy = g (nth i l dx).
Proof.
  intros B g l. induction l as [|a l IH]; intros i dx dy H; simpl in *; [lia|].
  destruct i; [reflexivity|apply IH; lia].
Qed.

Lemma map_nth_seq_id : forall (l : list A) d, map (fun j => nth j l d) (seq 0 (length l)) = l.
Proof.
  intros l d. apply nth_ext with (d := d) (d' := d).
  - now rewrite map_length, seq_length.
  - intros k Hk. rewrite map_length, seq_length in Hk. now rewrite nth_map_seq.
Qed.

Lemma nth_concat_uniform : forall (rows : list (list A)) c i j d,
  Forall (fun r => length r = c) rows -> i < length rows -> j < c ->
  nth (i * c + j) (concat rows) d = nth j (nth i rows []) d.
Proof.
  induction rows as [|r rows IH]; intros c i j d HF Hi Hj; simpl in *; [lia|].
  inversion HF as [|? ? Hr HF']; subst.
  destruct i.
  - simpl. now rewrite app_nth1 by lia.
  - rewrite app_nth2 by (simpl; lia).
    replace (S i * length r + j - length r) with (i * length r + j) by (simpl; lia).
    apply IH; auto; lia.
Qed.

Lemma length_concat_uniform : forall (rows : list (list A)) c,
  Forall (fun r => length r = c) rows -> length (concat rows) = length rows * c.
Proof.
  induction rows as [|r rows IH]; intros c HF; simpl; [reflexivity|].
  inversion HF; subst. rewrite app_length, (IH (length r)); auto.
Qed.
End ListHelpers.

(* ------------------------------------------------------------------------------------------------ *)
(** * (a) row-major maps *)
Section RowMajorProofs.
Variable V : Type.
Variable d : V.

Lemma length_chunks : forall r c (data : list V), length (chunks r c data) = r.
Proof. induction r; intros; simpl; auto. Qed.

Lemma nth_chunks : forall r c (data : list V) i, i < r -> nth i (chunks r c data) [] = firstn c (skipn (i * c) data).
Proof.
  induction r as [|r IH]; intros c data i H; [lia|].
  destruct i; simpl; [reflexivity|].
  rewrite IH by lia. now rewrite skipn_skipn_add.
Qed.

Lemma chunk_length : forall r c (data : list V) i, r * c <= length data -> i < r -> length (nth i (chunks r c data) []) = c.
Proof.
  intros r c data i Hl Hi. rewrite nth_chunks by auto. rewrite firstn_length, skipn_length.
  assert (S i * c <= r * c) by (apply Nat.mul_le_mono_r; lia). simpl in *. lia.
Qed.

Lemma chunks_uniform : forall r c (data : list V), r * c <= length data -> Forall (fun row => length row = c) (chunks r c data).
Proof.
  intros r c data Hl. apply Forall_forall. intros row Hin.
  destruct (In_nth _ _ [] Hin) as [i [Hi Heq]]. rewrite length_chunks in Hi. subst row. now apply chunk_length.
Qed.

Lemma concat_chunks : forall r c (data : list V), length data = r * c -> concat (chunks r c data) = data.
Proof.
  induction r as [|r IH]; intros c data Hl; simpl in *.
  - destruct data; [reflexivity|discriminate].
  - rewrite IH; [apply firstn_skipn|]. rewrite skipn_length. lia.
Qed.

(** element (i,j) of the row-major map is data[i*c+j] -- any shape, no assumption on the array length *)
Theorem rowmajor_map_spec : forall r c (data : list V) i j, i < r -> j < c ->
  nth i (nth j (rowmajor_to_cols d r c data) []) d = nth (i * c + j) data d.
Proof.
  intros r c data i j Hi Hj. unfold rowmajor_to_cols, col_of.
  rewrite nth_map_seq by auto. simpl.
  rewrite nth_map_lt with (dx := []) by (now rewrite length_chunks).
  rewrite nth_chunks by auto. rewrite nth_firstn_lt by auto. apply nth_skipn_add.
Qed.

Theorem rowmajor_shape : forall r c (data : list V), mat_shape r c (rowmajor_to_cols d r c data).
Proof.
  intros r c data. split.
  - unfold rowmajor_to_cols. now rewrite map_length, seq_length.
  - apply Forall_forall. intros col Hin. unfold rowmajor_to_cols in Hin. apply in_map_iff in Hin.
    destruct Hin as [j [<- _]]. unfold col_of. now rewrite map_length, length_chunks.
Qed.

(** what setup stores as AT / GT: the columns of the transpose are the rows of the caller's array *)
Theorem rowmajor_transpose_is_rows : forall r c (data : list V), r * c <= length data ->
  transpose_cols d r (rowmajor_to_cols d r c data) = chunks r c data.
Proof.
  intros r c data Hl. unfold transpose_cols.
  apply nth_ext with (d := []) (d' := []).
  - now rewrite map_length, seq_length, length_chunks.
  - intros i Hi. rewrite map_length, seq_length in Hi. rewrite nth_map_seq by auto. simpl.
    unfold row_of, rowmajor_to_cols. rewrite map_map.
    transitivity (map (fun j => nth j (nth i (chunks r c data) []) d) (seq 0 c)).
    + apply map_ext. intros j. unfold col_of. rewrite nth_map_lt with (dx := []) by (now rewrite length_chunks). reflexivity.
    + rewrite <- (chunk_length r c data i Hl Hi) at 1. apply map_nth_seq_id.
Qed.

Theorem rowmajor_roundtrip : forall r c (data : list V), length data = r * c ->
  cols_to_rowmajor d r (rowmajor_to_cols d r c data) = data.
Proof.
  intros r c data Hl. unfold cols_to_rowmajor.
  change (map (row_of d (rowmajor_to_cols d r c data)) (seq 0 r)) with (transpose_cols d r (rowmajor_to_cols d r c data)).
  rewrite rowmajor_transpose_is_rows by lia. now apply concat_chunks.
Qed.

Lemma cols_to_rowmajor_rows_uniform : forall r (M : list (list V)),
  Forall (fun row => length row = length M) (map (row_of d M) (seq 0 r)).
Proof.
  intros r M. apply Forall_forall. intros row Hin. apply in_map_iff in Hin. destruct Hin as [i [<- _]].
  unfold row_of. now rewrite map_length.
Qed.

Lemma cols_to_rowmajor_nth : forall r c (M : list (list V)) i j, length M = c -> i < r -> j < c ->
  nth (i * c + j) (cols_to_rowmajor d r M) d = nth i (nth j M []) d.
Proof.
  intros r c M i j Hc Hi Hj. unfold cols_to_rowmajor.
  rewrite nth_concat_uniform with (c := c).
  - rewrite nth_map_seq by auto. simpl. unfold row_of. rewrite nth_map_lt with (dx := []) by lia. reflexivity.
  - rewrite <- Hc. apply cols_to_rowmajor_rows_uniform.
  - now rewrite map_length, seq_length.
  - auto.
Qed.

Theorem cols_to_rowmajor_length : forall r c (M : list (list V)), length M = c -> length (cols_to_rowmajor d r M) = r * c.
Proof.
  intros r c M Hc. unfold cols_to_rowmajor. rewrite length_concat_uniform with (c := c).
  - now rewrite map_length, seq_length.
  - rewrite <- Hc. apply cols_to_rowmajor_rows_uniform.
Qed.

(** every well-shaped column-list matrix is the row-major map of exactly one array of r*c elements *)
Theorem rowmajor_roundtrip_inv : forall r c (M : list (list V)), mat_shape r c M ->
  rowmajor_to_cols d r c (cols_to_rowmajor d r M) = M.
Proof.
  intros r c M [Hc HF].
  destruct (rowmajor_shape r c (cols_to_rowmajor d r M)) as [Hc' HF'].
  apply nth_ext with (d := []) (d' := []); [lia|].
  intros j Hj. rewrite Hc' in Hj.
  assert (L1 : length (nth j (rowmajor_to_cols d r c (cols_to_rowmajor d r M)) []) = r).
  { rewrite Forall_forall in HF'. apply HF'. apply nth_In. lia. }
  assert (L2 : length (nth j M []) = r).
  { rewrite Forall_forall in HF. apply HF. apply nth_In. lia. }
  apply nth_ext with (d := d) (d' := d); [lia|].
  intros i Hi. rewrite L1 in Hi.
  rewrite rowmajor_map_spec by auto. now apply cols_to_rowmajor_nth.
Qed.

Theorem rowmajor_roundtrip_inv_full : forall r c (M : list (list V)), mat_shape r c M ->
  rowmajor_to_cols d r c (cols_to_rowmajor d r M) = M /\ length (cols_to_rowmajor d r M) = r * c.
Proof. intros r c M H. split; [exact (rowmajor_roundtrip_inv r c M H)|exact (cols_to_rowmajor_length r c M (proj1 H))]. Qed.

Lemma nth_map_combine_seq : forall (B : Type) (f : nat * V -> B) (l : list V) s k dflt,
  k < length l -> nth k (map f (combine (seq s (length l)) l)) dflt = f (s + k, nth k l d).
Proof.
  intros B f l. induction l as [|a l IH]; intros s k dflt H; simpl in *; [lia|].
  destruct k.
  - now rewrite Nat.add_0_r.
  - rewrite IH by lia. do 2 f_equal. lia.
Qed.

Theorem utri_spec : forall z (cols : list (list V)) i j, j < length cols -> i < length (nth j cols []) ->
  nth i (nth j (utri z cols) []) d = if i <=? j then nth i (nth j cols []) d else z.
Proof.
  intros z cols i j Hj Hi. unfold utri.
  assert (E : forall (B : Type) (f : nat * list V -> B) (l : list (list V)) s k dflt,
             k < length l -> nth k (map f (combine (seq s (length l)) l)) dflt = f (s + k, nth k l [])).
  { intros B f l. induction l as [|a l IH]; intros s k dflt H; simpl in *; [lia|].
    destruct k; [now rewrite Nat.add_0_r|]. rewrite IH by lia. do 2 f_equal. lia. }
  rewrite E by auto. simpl.
  rewrite nth_map_combine_seq by auto. reflexivity.
Qed.
End RowMajorProofs.

(* ------------------------------------------------------------------------------------------------ *)
(** * (b) CSC maps *)
Section CSCProofs.
Variable V : Type.
Variable z : V.

Lemma incb_head : forall a l, incb (a :: l) = true -> Forall (lt a) l /\ incb l = true.
Proof.
  intros a l. revert a. induction l as [|b l IH]; intros a H; [split; auto|].
  simpl in H. apply andb_true_iff in H. destruct H as [Hab Hr]. apply Nat.ltb_lt in Hab.
  split; [|exact Hr]. constructor; [exact Hab|].
  destruct (IH b Hr) as [HF _]. eapply Forall_impl; [|exact HF]. intros; simpl in *; lia.
Qed.

Lemma incb_nodup : forall l, incb l = true -> NoDup l.
Proof.
  induction l as [|a l IH]; intros H; [constructor|].
  destruct (incb_head _ _ H) as [HF Hr]. constructor; [|auto].
  intro Hin. rewrite Forall_forall in HF. specialize (HF a Hin). lia.
Qed.

Lemma lookup_row_absent : forall i rows (vals : list V), ~ In i rows -> lookup_row z i rows vals = z.
Proof.
  induction rows as [|r rows IH]; intros vals H; simpl; [reflexivity|].
  destruct vals as [|v vals]; [reflexivity|].
  destruct (Nat.eqb_spec r i); [exfalso; apply H; left; auto|]. apply IH. intro; apply H; right; auto.
Qed.

Lemma lookup_row_nodup : forall rows (vals : list V) t, NoDup rows -> t < length rows ->
  lookup_row z (nth t rows 0) rows vals = nth t vals z.
Proof.
  induction rows as [|r rows IH]; intros vals t Hnd Ht; simpl in *; [lia|].
  inversion Hnd as [|? ? Hnin Hnd']; subst.
  destruct vals as [|v vals]; [destruct t; reflexivity|].
  destruct t.
  - now rewrite Nat.eqb_refl.
  - destruct (Nat.eqb_spec r (nth t rows 0)) as [E|E].
    + exfalso. apply Hnin. rewrite E. apply nth_In. lia.
    + simpl. apply IH; auto; lia.
Qed.

Lemma seg_nth : forall (A : Type) lo hi (l : list A) t dflt, t < hi - lo -> nth t (seg lo hi l) dflt = nth (lo + t) l dflt.
Proof. intros. unfold seg. rewrite nth_firstn_lt by auto. apply nth_skipn_add. Qed.

Lemma seg_length : forall (A : Type) lo hi (l : list A), hi <= length l -> length (seg lo hi l) = hi - lo.
Proof. intros. unfold seg. rewrite firstn_length, skipn_length. lia. Qed.

(** the facts packed into csc_wfb *)
Lemma csc_wf_facts : forall M : csc V, csc_wf M ->
  length (csc_p M) = S (csc_n M) /\ nth 0 (csc_p M) 0 = 0 /\ nth (csc_n M) (csc_p M) 0 = csc_nnz M /\
  csc_nnz M <= length (csc_i M) /\ csc_nnz M <= length (csc_x M) /\
  forall j, j < csc_n M ->
    nth j (csc_p M) 0 <= nth (S j) (csc_p M) 0 /\ nth (S j) (csc_p M) 0 <= csc_nnz M /\
    NoDup (csc_col_rows M j) /\ Forall (fun r => r < csc_m M) (csc_col_rows M j).
Proof.
  intros M H. unfold csc_wf, csc_wfb in H.
  repeat (apply andb_true_iff in H; destruct H as [H ?]).
  repeat match goal with
         | X : (_ =? _) = true |- _ => apply Nat.eqb_eq in X
         | X : (_ <=? _) = true |- _ => apply Nat.leb_le in X
         end.
  repeat split; auto.
  all: match goal with X : forallb _ _ = true |- _ => rewrite forallb_forall in X; specialize (X j) end.
  all: match goal with X : In _ _ -> _ |- _ => assert (Hin : In j (seq 0 (csc_n M))) by (apply in_seq; lia); specialize (X Hin) end.
  all: repeat match goal with X : _ && _ = true |- _ => apply andb_true_iff in X; destruct X end.
  - now apply Nat.leb_le.
  - now apply Nat.leb_le.
  - now apply incb_nodup.
  - apply Forall_forall. intros r Hr.
    match goal with X : forallb _ _ = true |- _ => rewrite forallb_forall in X; specialize (X r Hr) end. now apply Nat.ltb_lt.
Qed.

(** every stored entry k of column j is the element (i[k], j), with value x[k] *)
Theorem csc_get_entry : forall (M : csc V) j k, csc_wf M -> j < csc_n M ->
  nth j (csc_p M) 0 <= k < nth (S j) (csc_p M) 0 ->
  csc_get z M (nth k (csc_i M) 0) j = nth k (csc_x M) z /\ nth k (csc_i M) 0 < csc_m M.
Proof.
  intros M j k Hwf Hj Hk.
  destruct (csc_wf_facts M Hwf) as (_ & _ & _ & Hi & Hx & Hcol).
  destruct (Hcol j Hj) as (Hle & Hnnz & Hnd & Hrng).
  set (lo := nth j (csc_p M) 0) in *. set (hi := nth (S j) (csc_p M) 0) in *.
  assert (Hlen : length (csc_col_rows M j) = hi - lo) by (unfold csc_col_rows; apply seg_length; fold hi; lia).
  assert (Hrow : nth (k - lo) (csc_col_rows M j) 0 = nth k (csc_i M) 0).
  { unfold csc_col_rows. fold lo hi. rewrite seg_nth by lia. f_equal. lia. }
  split.
  - unfold csc_get. rewrite <- Hrow. rewrite lookup_row_nodup by (auto; lia).
    unfold csc_col_vals. fold lo hi. rewrite seg_nth by lia. f_equal. lia.
  - rewrite <- Hrow. rewrite Forall_forall in Hrng. apply Hrng. apply nth_In. lia.
Qed.

(** an element that is not stored is [z] *)
Theorem csc_get_absent : forall (M : csc V) i j, csc_wf M -> j < csc_n M ->
  (forall k, nth j (csc_p M) 0 <= k < nth (S j) (csc_p M) 0 -> nth k (csc_i M) 0 <> i) ->
  csc_get z M i j = z.
Proof.
  intros M i j Hwf Hj Hno.
  destruct (csc_wf_facts M Hwf) as (_ & _ & _ & Hi & _ & Hcol).
  destruct (Hcol j Hj) as (Hle & Hnnz & _ & _).
  unfold csc_get. apply lookup_row_absent. intro Hin.
  destruct (In_nth _ _ 0 Hin) as [t [Ht Heq]].
  set (lo := nth j (csc_p M) 0) in *. set (hi := nth (S j) (csc_p M) 0) in *.
  assert (Hlen : length (csc_col_rows M j) = hi - lo) by (unfold csc_col_rows; apply seg_length; fold hi; lia).
  unfold csc_col_rows in Heq. fold lo hi in Heq. rewrite seg_nth in Heq by lia.
  apply (Hno (lo + t)); [lia|exact Heq].
Qed.

Theorem csc_to_cols_spec : forall (M : csc V) i j, i < csc_m M -> j < csc_n M ->
  nth i (nth j (csc_to_cols z M) []) z = csc_get z M i j.
Proof.
  intros M i j Hi Hj. unfold csc_to_cols. rewrite nth_map_seq by auto. now rewrite nth_map_seq by auto.
Qed.

Theorem csc_to_cols_shape : forall M : csc V, mat_shape (csc_m M) (csc_n M) (csc_to_cols z M).
Proof.
  intros M. split.
  - unfold csc_to_cols. now rewrite map_length, seq_length.
  - apply Forall_forall. intros col Hin. unfold csc_to_cols in Hin. apply in_map_iff in Hin.
    destruct Hin as [j [<- _]]. now rewrite map_length, seq_length.
Qed.

(** ** the column-by-column encoding denotes the matrix it was made from *)
Variable isz : V -> bool.
Hypothesis isz_zero : forall v, isz v = true -> v = z.

Lemma lookup_entries_below : forall (col : list V) s t, t < s ->
  lookup_row z t (map fst (filter (fun e => negb (isz (snd e))) (combine (seq s (length col)) col)))
                 (map snd (filter (fun e => negb (isz (snd e))) (combine (seq s (length col)) col))) = z.
Proof.
  induction col as [|v col IH]; intros s t H; simpl; [reflexivity|].
  destruct (isz v); simpl.
  - apply IH. lia.
  - destruct (Nat.eqb_spec s t); [lia|]. apply IH. lia.
Qed.

Lemma lookup_entries : forall (col : list V) s i, i < length col ->
  lookup_row z (s + i) (map fst (filter (fun e => negb (isz (snd e))) (combine (seq s (length col)) col)))
                       (map snd (filter (fun e => negb (isz (snd e))) (combine (seq s (length col)) col))) = nth i col z.
Proof.
  induction col as [|v col IH]; intros s i H; simpl in *; [lia|].
  destruct i.
  - rewrite Nat.add_0_r. destruct (isz v) eqn:E; simpl.
    + rewrite lookup_entries_below by lia. symmetry. now apply isz_zero.
    + now rewrite Nat.eqb_refl.
  - replace (s + S i) with (S s + i) by lia. destruct (isz v); simpl.
    + exact (IH (S s) i ltac:(lia)).
    + destruct (Nat.eqb_spec s (S (s + i))); [lia|]. exact (IH (S s) i ltac:(lia)).
Qed.

Lemma starts_nth : forall (ls : list nat) acc j, j <= length ls ->
  nth j (starts acc ls) 0 = acc + fold_right plus 0 (firstn j ls).
Proof.
  induction ls as [|l ls IH]; intros acc j H; simpl in *.
  - destruct j; simpl; lia.
  - destruct j; simpl; [lia|]. rewrite IH by lia. lia.
Qed.

Lemma seg_concat : forall (A : Type) (ls : list (list A)) j, j < length ls ->
  seg (fold_right plus 0 (firstn j (map (@length _) ls))) (fold_right plus 0 (firstn (S j) (map (@length _) ls))) (concat ls) = nth j ls [].
Proof.
  intros A. induction ls as [|l ls IH]; intros j H; simpl in *; [lia|].
  destruct j; simpl.
  - unfold seg. simpl. rewrite Nat.sub_0_r. destruct ls as [|l2 ls].
    + simpl. rewrite Nat.add_0_r, app_nil_r. apply firstn_all.
    + simpl. replace (length l + 0) with (length l + 0) by reflexivity. rewrite Nat.add_0_r.
      rewrite firstn_app, Nat.sub_diag, firstn_all. simpl. now rewrite app_nil_r.
  - specialize (IH j ltac:(lia)). unfold seg in *. simpl in IH.
    rewrite skipn_app.
    assert (E1 : skipn (length l + fold_right plus 0 (firstn j (map (@length _) ls))) l = []) by (apply skipn_all2; lia).
    rewrite E1. simpl.
    replace (length l + fold_right plus 0 (firstn j (map (@length _) ls)) - length l) with (fold_right plus 0 (firstn j (map (@length _) ls))) by lia.
    match goal with |- firstn ?a _ = _ => match type of IH with firstn ?b _ = _ => replace a with b by lia end end.
    exact IH.
Qed.

Theorem csc_of_cols_get : forall m (cols : list (list V)) i j,
  j < length cols -> length (nth j cols []) = m -> i < m ->
  csc_get z (csc_of_cols isz m cols) i j = nth i (nth j cols []) z.
Proof.
  intros m cols i j Hj Hm Hi. unfold csc_get, csc_col_rows, csc_col_vals, csc_of_cols. simpl.
  set (ents := map (col_entries isz) cols).
  assert (Hlen : length ents = length cols) by (unfold ents; now rewrite map_length).
  rewrite !starts_nth by (rewrite map_length; lia). rewrite !Nat.add_0_l.
  rewrite !concat_map.
  assert (S1 : seg (fold_right plus 0 (firstn j (map (@length _) ents))) (fold_right plus 0 (firstn (S j) (map (@length _) ents)))
                   (concat (map (map fst) ents)) = map fst (nth j ents [])).
  { replace (map (@length _) ents) with (map (@length _) (map (map (@fst nat V)) ents)) by (rewrite map_map; apply map_ext; intros; now rewrite map_length).
    rewrite seg_concat by (rewrite map_length; lia).
    change (@nil nat) with (map (@fst nat V) []). now rewrite map_nth. }
  assert (S2 : seg (fold_right plus 0 (firstn j (map (@length _) ents))) (fold_right plus 0 (firstn (S j) (map (@length _) ents)))
                   (concat (map (map snd) ents)) = map snd (nth j ents [])).
  { replace (map (@length _) ents) with (map (@length _) (map (map (@snd nat V)) ents)) by (rewrite map_map; apply map_ext; intros; now rewrite map_length).
    rewrite seg_concat by (rewrite map_length; lia).
    change (@nil V) with (map (@snd nat V) []). now rewrite map_nth. }
  rewrite S1, S2.
  unfold ents. change (@nil (nat * V)) with (col_entries isz []). rewrite map_nth.
  unfold col_entries. rewrite <- (Nat.add_0_l i) at 1. apply lookup_entries. lia.
Qed.
End CSCProofs.

(* ------------------------------------------------------------------------------------------------ *)
(** * assignment lists *)
Section StoreProofs.
Variable X : Type.

Lemma assign_miss : forall ws key (val : wire -> X) dst f,
  (forall w, In w ws -> key w <> f) -> assign ws key val dst f = dst f.
Proof.
  induction ws as [|a ws IH]; intros key val dst f H; simpl; [reflexivity|].
  rewrite IH by (intros; apply H; right; auto).
  unfold supd. destruct (String.eqb_spec f (key a)) as [E|E]; [|reflexivity].
  exfalso. apply (H a); [left; reflexivity|auto].
Qed.

Lemma assign_hit : forall ws key (val : wire -> X) dst f v,
  (exists w, In w ws /\ key w = f) -> (forall w, In w ws -> key w = f -> val w = v) ->
  assign ws key val dst f = v.
Proof.
  induction ws as [|a ws IH]; intros key val dst f v [w [Hin Hk]] Hall; [destruct Hin|].
  simpl.
  destruct (existsb (fun w => String.eqb (key w) f) ws) eqn:E.
  - apply existsb_exists in E. destruct E as [w' [Hin' Hk']]. apply String.eqb_eq in Hk'.
    apply IH; [eauto|]. intros; apply Hall; auto. right; auto.
  - assert (Hno : forall w', In w' ws -> key w' <> f).
    { intros w' Hin' Hk'. assert (existsb (fun w => String.eqb (key w) f) ws = true); [|congruence].
      apply existsb_exists. exists w'. split; auto. now apply String.eqb_eq. }
    rewrite assign_miss by exact Hno.
    destruct Hin as [->|Hin]; [|exfalso; exact (Hno w Hin Hk)].
    unfold supd. rewrite Hk, String.eqb_refl. apply Hall; [left; reflexivity|exact Hk].
Qed.
End StoreProofs.

Lemma in_names_iff : forall f l, in_names f l = true <-> In f l.
Proof.
  intros f l. unfold in_names. rewrite existsb_exists. split.
  - intros [x [Hin E]]. apply String.eqb_eq in E. now subst.
  - intros H. exists f. split; auto. apply String.eqb_refl.
Qed.

Lemma in_names_false : forall f l, in_names f l = false <-> ~ In f l.
Proof.
  intros f l. rewrite <- in_names_iff. destruct (in_names f l).
  - split; [discriminate|intros H; exfalso; apply H; reflexivity].
  - split; [intros _ H; discriminate|reflexivity].
Qed.

Lemma wired_unique : forall core ws f, WiredDiag core ws -> In f core ->
  exists w, In w ws /\ w_ext w = f /\ w_core w = f /\
            forall w', In w' ws -> (w_ext w' = f \/ w_core w' = f) -> w' = w.
Proof.
  intros core ws f [H1 H2] Hf. destruct (H2 f Hf) as [w [[Hin [He Hc]] Hu]].
  exists w. repeat split; auto. intros w' Hin' Hor. symmetry. apply Hu.
  destruct (H1 w' Hin') as [E _]. destruct Hor; repeat split; auto; congruence.
Qed.

Lemma wired_outside : forall core ws f, WiredDiag core ws -> ~ In f core ->
  forall w, In w ws -> w_ext w <> f /\ w_core w <> f.
Proof.
  intros core ws f [H1 _] Hf w Hin. destruct (H1 w Hin) as [E Hc]. split; intro; apply Hf; congruence.
Qed.

Lemma conv_of_wired : forall ws f w, In w ws -> w_ext w = f ->
  (forall w', In w' ws -> w_ext w' = f -> w' = w) -> conv_of ws f = w_conv w.
Proof.
  intros ws f w Hin He Hu. unfold conv_of.
  destruct (find (fun w0 => String.eqb (w_ext w0) f) ws) as [w0|] eqn:E.
  - apply find_some in E. destruct E as [Hin0 E0]. apply String.eqb_eq in E0. now rewrite (Hu w0 Hin0 E0).
  - exfalso. pose proof (find_none _ _ E w Hin) as Hn. simpl in Hn. rewrite He, String.eqb_refl in Hn. discriminate.
Qed.

(** an assignment list that is like-named wired computes the like-named copy, whatever its order *)
Lemma assign_wired_ext : forall (X : Type) core ws (val : wire -> X) dst f, WiredDiag core ws -> In f core ->
  exists w, In w ws /\ w_ext w = f /\ w_core w = f /\ conv_of ws f = w_conv w /\ assign ws (@w_ext) val dst f = val w.
Proof.
  intros X core ws val dst f HW Hf. destruct (wired_unique core ws f HW Hf) as [w [Hin [He [Hc Hu]]]].
  exists w. repeat split; auto.
  - apply conv_of_wired; auto.
  - apply assign_hit; [eauto|]. intros w' Hin' He'. now rewrite (Hu w' Hin' (or_introl He')).
Qed.

Lemma assign_wired_core : forall (X : Type) core ws (val : wire -> X) dst f, WiredDiag core ws -> In f core ->
  exists w, In w ws /\ w_ext w = f /\ w_core w = f /\ conv_of ws f = w_conv w /\ assign ws (@w_core) val dst f = val w.
Proof.
  intros X core ws val dst f HW Hf. destruct (wired_unique core ws f HW Hf) as [w [Hin [He [Hc Hu]]]].
  exists w. repeat split; auto.
  - apply conv_of_wired; auto.
  - apply assign_hit; [eauto|]. intros w' Hin' Hc'. now rewrite (Hu w' Hin' (or_intror Hc')).
Qed.

(* ------------------------------------------------------------------------------------------------ *)
(** * (d) the C API is a projection of the C++ solver *)
Section CAPIProofs.
Variable V : Type.
Variable d : V.
Variable SV : Type.
Variable cast : string -> SV -> SV.
Variable T : Tables.
Variable DK SK : Type.
Variable x_default : env SV.
Variable d_new : DK.
Variable s_new : SK.
Variable d_setup : env SV * DK -> xsetup V (dmat V) -> env SV * DK.
Variable s_setup : env SV * SK -> xsetup V (smat V) -> env SV * SK.
Variable d_update : env SV * DK -> xupdate V (dmat V) -> env SV * DK.
Variable s_update : env SV * SK -> xupdate V (smat V) -> env SV * SK.
Variable d_solve : env SV * DK -> (env SV * DK) * SV.
Variable s_solve : env SV * SK -> (env SV * SK) * SV.
Variable d_result : DK -> xresult V SV.
Variable s_result : SK -> xresult V SV.

(** the facts about the regenerated tables (proved for gen_tables in Properties_C16T.v) *)
Hypothesis W_result : WiredDiag (vec_fields (core_result T)) (c_result_out T).
Hypothesis W_info : WiredDiag (names (core_info T)) (c_info_out T).
Hypothesis W_set_dense : WiredDiag (names (core_settings T)) (c_settings_in_dense T).
Hypothesis W_set_sparse : WiredDiag (names (core_settings T)) (c_settings_in_sparse T).
Hypothesis W_defaults : WiredDiag (names (core_settings T)) (c_settings_out T).

Notation cstep := (c_step d cast T x_default d_new s_new d_setup s_setup d_update s_update d_solve s_solve d_result s_result).
Notation crun := (c_run d cast T x_default d_new s_new d_setup s_setup d_update s_update d_solve s_solve d_result s_result).
Notation xstep := (x_step x_default d_new s_new d_setup s_setup d_update s_update d_solve s_solve d_result s_result).
Notation xrun_ := (x_run x_default d_new s_new d_setup s_setup d_update s_update d_solve s_solve d_result s_result).
Notation xres := (x_result d_result s_result).
Notation Proj := (@Projects V SV cast T DK SK).
Notation work := (cwork SV DK SK).

(** ** piqp_update_result *)
Theorem update_result_ptr : forall (r : xresult V SV) (w : work) f,
  (forall g, in_names g (result_vec_names T) = false -> w_ptr w g = None) ->
  w_ptr (c_update_result cast T r w) f = proj_ptr T f.
Proof.
  intros r w f Hprev. unfold c_update_result, proj_ptr. simpl.
  destruct (in_names f (result_vec_names T)) eqn:E.
  - apply in_names_iff in E.
    destruct (assign_wired_ext _ _ _ (fun x => Some (w_core x)) (w_ptr w) f W_result E) as [x [_ [_ [Hc [_ Ha]]]]].
    rewrite Ha. now rewrite Hc.
  - rewrite assign_miss; [now apply Hprev|].
    intros x Hin. apply in_names_false in E. exact (proj1 (wired_outside _ _ f W_result E x Hin)).
Qed.

Theorem update_result_info : forall (r : xresult V SV) (w : work) f,
  (forall g, in_names g (info_names T) = false -> w_info w g = None) ->
  w_info (c_update_result cast T r w) f = proj_info cast T r f.
Proof.
  intros r w f Hprev. unfold c_update_result, proj_info. simpl.
  destruct (in_names f (info_names T)) eqn:E.
  - apply in_names_iff in E.
    destruct (assign_wired_ext _ _ _ (fun x => Some (cast (w_conv x) (xr_info r (w_core x)))) (w_info w) f W_info E) as [x [_ [_ [Hc [Hcv Ha]]]]].
    rewrite Ha. now rewrite Hc, Hcv.
  - rewrite assign_miss; [now apply Hprev|].
    intros x Hin. apply in_names_false in E. exact (proj1 (wired_outside _ _ f W_info E x Hin)).
Qed.

(** ** piqp_update_settings / piqp_set_default_settings *)
Theorem update_settings_transfers : forall (cs : env SV) (s : xsolver SV DK SK) f,
  (In f (settings_names T) ->
     x_settings (c_update_settings cast T cs s) f = cast (conv_of (settings_wires T s) f) (cs f)) /\
  (~ In f (settings_names T) -> x_settings (c_update_settings cast T cs s) f = x_settings s f).
Proof.
  intros cs s f. destruct s as [[e k]|[e k]]; simpl; unfold set_all; split; intro Hf.
  - destruct (assign_wired_core _ _ _ (fun w => cast (w_conv w) (cs (w_ext w))) e f W_set_dense Hf) as [x [_ [He [_ [Hcv Ha]]]]].
    rewrite Ha. now rewrite He, Hcv.
  - apply assign_miss. intros x Hin. exact (proj2 (wired_outside _ _ f W_set_dense Hf x Hin)).
  - destruct (assign_wired_core _ _ _ (fun w => cast (w_conv w) (cs (w_ext w))) e f W_set_sparse Hf) as [x [_ [He [_ [Hcv Ha]]]]].
    rewrite Ha. now rewrite He, Hcv.
  - apply assign_miss. intros x Hin. exact (proj2 (wired_outside _ _ f W_set_sparse Hf x Hin)).
Qed.

Theorem set_default_settings_spec : forall (before : env SV) f,
  (In f (settings_names T) ->
     c_set_default_settings cast T x_default before f = cast (conv_of (c_settings_out T) f) (x_default f)) /\
  (~ In f (settings_names T) -> c_set_default_settings cast T x_default before f = before f).
Proof.
  intros before f. unfold c_set_default_settings. split; intro Hf.
  - destruct (assign_wired_ext _ _ _ (fun w => cast (w_conv w) (x_default (w_core w))) before f W_defaults Hf) as [x [_ [_ [Hc [Hcv Ha]]]]].
    rewrite Ha. now rewrite Hc, Hcv.
  - apply assign_miss. intros x Hin. exact (proj1 (wired_outside _ _ f W_defaults Hf x Hin)).
Qed.

(** ** simulation *)
Lemma x_run_app : forall a b r, xrun_ r (a ++ b) = ubind (xrun_ r a) (fun r' => xrun_ r' b).
Proof.
  induction a as [|c a IH]; intros b r; simpl; [reflexivity|].
  destruct (xstep r c); simpl; auto.
Qed.

Lemma c_run_app : forall a b st, crun st (a ++ b) = ubind (crun st a) (fun st' => crun st' b).
Proof.
  induction a as [|c a IH]; intros b st; simpl; [reflexivity|].
  destruct (cstep st c); simpl; auto.
Qed.

Lemma x_run_sets_D : forall ws (cs : env SV) e k sn rt,
  xrun_ (mkXRun (Some (XD SK (e, k))) sn rt) (sets_of V cast ws cs) =
  Some (mkXRun (Some (XD SK (set_all cast ws cs e, k))) sn rt).
Proof.
  induction ws as [|w ws IH]; intros cs e k sn rt; simpl; [reflexivity|].
  rewrite IH. reflexivity.
Qed.

Lemma x_run_sets_S : forall ws (cs : env SV) e k sn rt,
  xrun_ (mkXRun (Some (XS DK (e, k))) sn rt) (sets_of V cast ws cs) =
  Some (mkXRun (Some (XS DK (set_all cast ws cs e, k))) sn rt).
Proof.
  induction ws as [|w ws IH]; intros cs e k sn rt; simpl; [reflexivity|].
  rewrite IH. reflexivity.
Qed.

Definition Rel (xr : xrun V SV DK SK) (st : option work) : Prop :=
  match st with None => True | Some w => Proj xr w end.

Lemma proj_prev_ptr : forall xr (w : work), Proj xr w -> forall g, in_names g (result_vec_names T) = false -> w_ptr w g = None.
Proof. intros xr w (_ & Hp & _) g Hg. rewrite Hp. unfold proj_ptr. now rewrite Hg. Qed.

Lemma proj_prev_info : forall xr (w : work), Proj xr w -> forall g, in_names g (info_names T) = false -> w_info w g = None.
Proof. intros xr w (_ & _ & (r & _ & Hi) & _) g Hg. rewrite Hi. unfold proj_info. now rewrite Hg. Qed.

Lemma projects_after_refresh : forall (s : xsolver SV DK SK) (w0 : work) rt,
  (forall g, in_names g (result_vec_names T) = false -> w_ptr w0 g = None) ->
  (forall g, in_names g (info_names T) = false -> w_info w0 g = None) ->
  w_solver w0 = s ->
  let w1 := c_update_result cast T (xres s) w0 in
  Proj (mkXRun (Some s) (Some (xres s)) rt) (mkCWork (w_solver w1) (w_n w1) (w_p w1) (w_m w1) (w_ptr w1) (w_info w1) rt).
Proof.
  intros s w0 rt Hp Hi Hs w1. unfold Projects. simpl. repeat split.
  - now rewrite Hs.
  - intros f. apply (update_result_ptr (xres s) w0 f Hp).
  - exists (xres s). split; [reflexivity|]. intros f. apply (update_result_info (xres s) w0 f Hi).
Qed.

Lemma c_step_sim : forall st c st', cstep st c = Some st' ->
  exists xs, tr_step d cast T (sinfo_of st) c = Some (xs, sinfo_of st') /\
  forall xr, Rel xr st ->
    exists xr', xrun_ xr xs = Some xr' /\ Rel xr' st' /\
                (refreshing c = true -> xsnap xr' = option_map xres (xst xr')).
Proof.
  intros st c st' H. destruct c as [D so|D so|cs|P c A b G h lb ub_|P c A b G h lb ub_|].
  - (* piqp_setup_dense *)
    simpl in H. simpl. destruct (dense_setup_args d D) as [a|] eqn:Ea; simpl in *; [|discriminate].
    destruct so as [|cs]; simpl in H; injection H as <-; simpl.
    + eexists; split; [reflexivity|]. intros xr _. simpl.
      eexists; split; [reflexivity|]. split; [|reflexivity].
      apply (projects_after_refresh (XD SK (d_setup (x_default, d_new) a))
               (fresh_work (XD SK (d_setup (x_default, d_new) a)) (cd_n D) (cd_p D) (cd_m D)) None); auto.
    + eexists; split; [reflexivity|]. intros xr _. simpl.
      rewrite x_run_app. unfold tr_settings. rewrite x_run_sets_D. simpl.
      eexists; split; [reflexivity|]. split; [|reflexivity].
      apply (projects_after_refresh (XD SK (d_setup (set_all cast (c_settings_in_dense T) cs x_default, d_new) a))
               (fresh_work (XD SK (d_setup (set_all cast (c_settings_in_dense T) cs x_default, d_new) a)) (cd_n D) (cd_p D) (cd_m D)) None); auto.
  - (* piqp_setup_sparse *)
    simpl in H. simpl. destruct (sparse_setup_args D) as [a|] eqn:Ea; simpl in *; [|discriminate].
    destruct so as [|cs]; simpl in H; injection H as <-; simpl.
    + eexists; split; [reflexivity|]. intros xr _. simpl.
      eexists; split; [reflexivity|]. split; [|reflexivity].
      apply (projects_after_refresh (XS DK (s_setup (x_default, s_new) a))
               (fresh_work (XS DK (s_setup (x_default, s_new) a)) (cd_n D) (cd_p D) (cd_m D)) None); auto.
    + eexists; split; [reflexivity|]. intros xr _. simpl.
      rewrite x_run_app. unfold tr_settings. rewrite x_run_sets_S. simpl.
      eexists; split; [reflexivity|]. split; [|reflexivity].
      apply (projects_after_refresh (XS DK (s_setup (set_all cast (c_settings_in_sparse T) cs x_default, s_new) a))
               (fresh_work (XS DK (s_setup (set_all cast (c_settings_in_sparse T) cs x_default, s_new) a)) (cd_n D) (cd_p D) (cd_m D)) None); auto.
  - (* piqp_update_settings *)
    destruct st as [w|]; simpl in H; [|discriminate]. injection H as <-.
    destruct w as [s n p m ptr info rt]. simpl.
    destruct s as [[e k]|[e k]]; simpl; (eexists; split; [reflexivity|]);
      intros [xs sn xrt] (Hs & Hp & (r & Hr & Hi) & Hrt); simpl in *; subst; unfold tr_settings;
      [rewrite x_run_sets_D|rewrite x_run_sets_S]; (eexists; split; [reflexivity|]); (split; [|discriminate]);
      unfold Projects; simpl; repeat split; auto; exists r; auto.
  - (* piqp_update_dense *)
    destruct st as [w|]; simpl in H; [|discriminate].
    destruct w as [s n p m ptr info rt]. simpl in *.
    destruct s as [st|st]; [|discriminate].
    destruct (dense_update_args d n p m P c A b G h lb ub_) as [a|] eqn:Ea; simpl in *; [|discriminate].
    injection H as <-. simpl. eexists; split; [reflexivity|].
    intros [xs sn xrt] (Hs & Hp & (r & Hr & Hi) & Hrt); simpl in *; subst. simpl.
    eexists; split; [reflexivity|]. split; [|discriminate].
    unfold Projects; simpl; repeat split; auto; exists r; auto.
  - (* piqp_update_sparse *)
    destruct st as [w|]; simpl in H; [|discriminate].
    destruct w as [s n p m ptr info rt]. simpl in *.
    destruct s as [st|st]; [discriminate|].
    destruct (sparse_update_args n p m P c A b G h lb ub_) as [a|] eqn:Ea; simpl in *; [|discriminate].
    injection H as <-. simpl. eexists; split; [reflexivity|].
    intros [xs sn xrt] (Hs & Hp & (r & Hr & Hi) & Hrt); simpl in *; subst. simpl.
    eexists; split; [reflexivity|]. split; [|discriminate].
    unfold Projects; simpl; repeat split; auto; exists r; auto.
  - (* piqp_solve *)
    destruct st as [w|]; simpl in H; [|discriminate].
    destruct w as [s n p m ptr info rt].
    destruct s as [st|st]; simpl in *.
    + destruct (d_solve st) as [st2 v] eqn:Es. injection H as <-. simpl. eexists; split; [reflexivity|].
      intros [xs sn xrt] HP. pose proof (proj_prev_ptr _ _ HP) as Hpp. pose proof (proj_prev_info _ _ HP) as Hpi.
      destruct HP as (Hs & _). simpl in *. subst. simpl. rewrite Es. simpl.
      eexists; split; [reflexivity|]. split; [|reflexivity].
      apply (projects_after_refresh (XD SK st2) (mkCWork (XD SK st2) n p m ptr info rt) (Some v)); auto.
    + destruct (s_solve st) as [st2 v] eqn:Es. injection H as <-. simpl. eexists; split; [reflexivity|].
      intros [xs sn xrt] HP. pose proof (proj_prev_ptr _ _ HP) as Hpp. pose proof (proj_prev_info _ _ HP) as Hpi.
      destruct HP as (Hs & _). simpl in *. subst. simpl. rewrite Es. simpl.
      eexists; split; [reflexivity|]. split; [|reflexivity].
      apply (projects_after_refresh (XS DK st2) (mkCWork (XS DK st2) n p m ptr info rt) (Some v)); auto.
Qed.

Lemma c_run_sim : forall calls st st', crun st calls = Some st' -> forall xr, Rel xr st ->
  exists xcalls xr', translate d cast T (sinfo_of st) calls = Some xcalls /\ xrun_ xr xcalls = Some xr' /\ Rel xr' st'.
Proof.
  induction calls as [|c calls IH]; intros st st' H xr HR; simpl in *.
  - injection H as <-. exists [], xr. auto.
  - destruct (cstep st c) as [st1|] eqn:E1; simpl in H; [|discriminate].
    destruct (c_step_sim st c _ E1) as [xs [Ht Hx]].
    destruct (Hx xr HR) as [xr1 [Hr1 [HR1 _]]].
    destruct (IH st1 st' H xr1 HR1) as [xcalls [xr' [Ht' [Hr' HR']]]].
    exists (xs ++ xcalls), xr'. rewrite Ht. simpl. rewrite Ht'. simpl. split; [reflexivity|].
    split; [|exact HR']. rewrite x_run_app, Hr1. exact Hr'.
Qed.

(** running any sequence of C calls = running the corresponding C++ calls, followed by the projection *)
Theorem c_api_is_projection : forall calls (w : work), crun None calls = Some (Some w) ->
  exists xcalls xr, translate d cast T None calls = Some xcalls /\ xrun_ (xrun0 V SV DK SK) xcalls = Some xr /\ Proj xr w.
Proof.
  intros calls w H. destruct (c_run_sim calls None _ H (xrun0 V SV DK SK) I) as [xcalls [xr [Ht [Hr HP]]]].
  exists xcalls, xr. auto.
Qed.

(** the C run is defined (inside the C contract) exactly when the translation is, and then the C++ run is defined *)
Lemma tr_step_defined : forall (st : option work) c xs si, tr_step d cast T (sinfo_of st) c = Some (xs, si) ->
  exists st', cstep st c = Some st'.
Proof.
  intros st c xs si H. destruct c as [D so|D so|cs|P c A b G h lb ub_|P c A b G h lb ub_|]; simpl in *.
  - destruct (dense_setup_args d D); simpl in *; [|discriminate]. destruct so; simpl; eauto.
  - destruct (sparse_setup_args D); simpl in *; [|discriminate]. destruct so; simpl; eauto.
  - destruct st as [w|]; simpl in *; [eauto|discriminate].
  - destruct st as [w|]; simpl in *; [|discriminate]. destruct (w_solver w); [|discriminate].
    destruct (dense_update_args d (w_n w) (w_p w) (w_m w) P c A b G h lb ub_); simpl in *; [eauto|discriminate].
  - destruct st as [w|]; simpl in *; [|discriminate]. destruct (w_solver w); [discriminate|].
    destruct (sparse_update_args (w_n w) (w_p w) (w_m w) P c A b G h lb ub_); simpl in *; [eauto|discriminate].
  - destruct st as [w|]; simpl in *; [|discriminate].
    destruct (w_solver w) as [s|s]; [destruct (d_solve s)|destruct (s_solve s)]; eauto.
Qed.

Theorem c_run_defined_iff : forall calls (st : option work),
  (exists st', crun st calls = Some st') <-> (exists xcalls, translate d cast T (sinfo_of st) calls = Some xcalls).
Proof.
  induction calls as [|c calls IH]; intros st; simpl.
  - split; eauto.
  - split.
    + intros [st' H]. destruct (cstep st c) as [st1|] eqn:E1; simpl in H; [|discriminate].
      destruct (c_step_sim st c _ E1) as [xs [Ht _]]. rewrite Ht. simpl.
      destruct (proj1 (IH st1) (ex_intro _ st' H)) as [xcalls Hx]. rewrite Hx. simpl. eauto.
    + intros [xcalls H]. destruct (tr_step d cast T (sinfo_of st) c) as [[xs si]|] eqn:Et; simpl in H; [|discriminate].
      destruct (tr_step_defined st c _ _ Et) as [st1 E1]. rewrite E1. simpl.
      destruct (c_step_sim st c _ E1) as [xs' [Ht' _]]. rewrite Et in Ht'. injection Ht' as _ Hsi.
      apply IH. rewrite <- Hsi. destruct (translate d cast T si calls); simpl in H; [eauto|discriminate].
Qed.

(** ** result pointers are valid and current; the info copy is current after setup and after every solve *)
Theorem c_pointers_current : forall calls (w : work) f, crun None calls = Some (Some w) -> In f (result_vec_names T) ->
  w_ptr w f = Some f /\ c_read_vec d_result s_result w f = Some (xr_vec (xres (w_solver w)) f).
Proof.
  intros calls w f H Hf. destruct (c_api_is_projection calls w H) as [_ [xr [_ [_ (_ & Hp & _)]]]].
  assert (E : w_ptr w f = Some f).
  { rewrite Hp. unfold proj_ptr. apply in_names_iff in Hf. now rewrite Hf. }
  split; [exact E|]. unfold c_read_vec. now rewrite E.
Qed.

Theorem c_no_other_pointer : forall calls (w : work) f, crun None calls = Some (Some w) -> ~ In f (result_vec_names T) ->
  w_ptr w f = None.
Proof.
  intros calls w f H Hf. destruct (c_api_is_projection calls w H) as [_ [xr [_ [_ (_ & Hp & _)]]]].
  rewrite Hp. unfold proj_ptr. apply in_names_false in Hf. now rewrite Hf.
Qed.

Theorem c_info_current_after_refresh : forall calls c (w : work), crun None (calls ++ [c]) = Some (Some w) ->
  refreshing c = true -> forall f, w_info w f = proj_info cast T (xres (w_solver w)) f.
Proof.
  intros calls c w H Hc f. rewrite c_run_app in H.
  destruct (crun None calls) as [st1|] eqn:E1; simpl in H; [|discriminate].
  destruct (cstep st1 c) as [st2|] eqn:E2; simpl in H; [|discriminate]. injection H as ->.
  destruct (c_run_sim calls None _ E1 (xrun0 V SV DK SK) I) as [_ [xr1 [_ [_ HR1]]]].
  destruct (c_step_sim st1 c _ E2) as [xs [_ Hx]]. destruct (Hx xr1 HR1) as [xr2 [_ [HP Hsnap]]].
  specialize (Hsnap Hc). simpl in HP. destruct HP as (Hs & _ & (r & Hr & Hi) & _).
  rewrite Hs in Hsnap. simpl in Hsnap. rewrite Hr in Hsnap. injection Hsnap as ->. apply Hi.
Qed.

Theorem c_status_returned : forall calls (w : work), crun None (calls ++ [CSolve V SV]) = Some (Some w) ->
  exists xcalls xr v, translate d cast T None (calls ++ [CSolve V SV]) = Some xcalls /\
    xrun_ (xrun0 V SV DK SK) xcalls = Some xr /\ xret xr = Some v /\ w_ret w = Some v.
Proof.
  intros calls w H. rewrite c_run_app in H.
  destruct (crun None calls) as [st1|] eqn:E1; simpl in H; [|discriminate].
  destruct (c_run_sim calls None _ E1 (xrun0 V SV DK SK) I) as [xc1 [xr1 [Ht1 [Hr1 HR1]]]].
  destruct st1 as [w1|]; simpl in H; [|discriminate].
  assert (E2 : cstep (Some w1) (CSolve V SV) = Some (Some w)).
  { simpl. destruct (match w_solver w1 with XD _ s => let '(s', v) := d_solve s in (XD SK s', v) | XS _ s => let '(s', v) := s_solve s in (XS DK s', v) end) as [s' v].
    simpl in *. exact H. }
  assert (H' : crun None (calls ++ [CSolve V SV]) = Some (Some w)).
  { rewrite c_run_app, E1. simpl. exact H. }
  destruct (c_api_is_projection _ _ H') as [xcalls [xr [Ht [Hr HP]]]].
  destruct HP as (_ & _ & _ & Hret).
  assert (Hv : exists v, w_ret w = Some v).
  { clear - H. destruct (w_solver w1) as [s|s]; [destruct (d_solve s)|destruct (s_solve s)]; simpl in H; injection H as <-; simpl; eauto. }
  destruct Hv as [v Hv]. exists xcalls, xr, v. rewrite <- Hret. auto.
Qed.

(** ** with the frame property of update() (it writes only timing fields of Info), the non-timing info is current
    after EVERY call, although piqp_update_* do not call piqp_update_result *)
Section Frame.
Hypothesis frame_d : forall st a f, ~ In f timing_fields ->
  xr_info (d_result (snd (d_update st a))) f = xr_info (d_result (snd st)) f.
Hypothesis frame_s : forall st a f, ~ In f timing_fields ->
  xr_info (s_result (snd (s_update st a))) f = xr_info (s_result (snd st)) f.

Definition InfoInv (w : work) : Prop :=
  (forall g, in_names g (info_names T) = false -> w_info w g = None) /\
  (forall f, ~ In f timing_fields -> w_info w f = proj_info cast T (xres (w_solver w)) f).

Lemma proj_info_ext : forall (r r' : xresult V SV) f, xr_info r f = xr_info r' f -> proj_info cast T r f = proj_info cast T r' f.
Proof. intros r r' f E. unfold proj_info. now rewrite E. Qed.

Lemma info_inv_refresh : forall (w0 : work),
  (forall g, in_names g (info_names T) = false -> w_info w0 g = None) ->
  forall rt, let w1 := c_update_result cast T (xres (w_solver w0)) w0 in
  InfoInv (mkCWork (w_solver w1) (w_n w1) (w_p w1) (w_m w1) (w_ptr w1) (w_info w1) rt).
Proof.
  intros w0 H0 rt w1. subst w1. split; cbn [w_info w_solver].
  - intros g Hg. rewrite (update_result_info (xres (w_solver w0)) w0 g H0). unfold proj_info. now rewrite Hg.
  - intros f _. apply (update_result_info (xres (w_solver w0)) w0 f H0).
Qed.

Lemma c_step_info_inv : forall st c (w' : work), cstep st c = Some (Some w') ->
  match st with None => True | Some w => InfoInv w end -> InfoInv w'.
Proof.
  intros st c w' H Hinv. destruct c as [D so|D so|cs|P c A b G h lb ub_|P c A b G h lb ub_|].
  - simpl in H. destruct (dense_setup_args d D) as [a|]; simpl in H; [|discriminate].
    destruct so as [|cs]; simpl in H; injection H as <-.
    + apply (info_inv_refresh (fresh_work (XD SK (d_setup (x_default, d_new) a)) (cd_n D) (cd_p D) (cd_m D))); auto.
    + apply (info_inv_refresh (fresh_work (XD SK (d_setup (set_all cast (c_settings_in_dense T) cs x_default, d_new) a)) (cd_n D) (cd_p D) (cd_m D))); auto.
  - simpl in H. destruct (sparse_setup_args D) as [a|]; simpl in H; [|discriminate].
    destruct so as [|cs]; simpl in H; injection H as <-.
    + apply (info_inv_refresh (fresh_work (XS DK (s_setup (x_default, s_new) a)) (cd_n D) (cd_p D) (cd_m D))); auto.
    + apply (info_inv_refresh (fresh_work (XS DK (s_setup (set_all cast (c_settings_in_sparse T) cs x_default, s_new) a)) (cd_n D) (cd_p D) (cd_m D))); auto.
  - destruct st as [w|]; simpl in H; [|discriminate]. injection H as <-. destruct Hinv as [H1 H2].
    destruct w as [s n p m ptr info rt]. simpl in *.
    split; simpl; [exact H1|]. intros f Hf. rewrite (H2 f Hf). destruct s as [[e k]|[e k]]; reflexivity.
  - destruct st as [w|]; simpl in H; [|discriminate]. destruct Hinv as [H1 H2].
    destruct w as [s n p m ptr info rt]. simpl in *.
    destruct s as [s|s]; [|discriminate].
    destruct (dense_update_args d n p m P c A b G h lb ub_) as [a|]; simpl in H; [|discriminate].
    injection H as <-. split; simpl; [exact H1|]. intros f Hf. rewrite (H2 f Hf).
    apply proj_info_ext. simpl. symmetry. now apply frame_d.
  - destruct st as [w|]; simpl in H; [|discriminate]. destruct Hinv as [H1 H2].
    destruct w as [s n p m ptr info rt]. simpl in *.
    destruct s as [s|s]; [discriminate|].
    destruct (sparse_update_args n p m P c A b G h lb ub_) as [a|]; simpl in H; [|discriminate].
    injection H as <-. split; simpl; [exact H1|]. intros f Hf. rewrite (H2 f Hf).
    apply proj_info_ext. simpl. symmetry. now apply frame_s.
  - destruct st as [w|]; simpl in H; [|discriminate]. destruct Hinv as [H1 _].
    destruct w as [s n p m ptr info rt]. simpl in *.
    destruct s as [s|s]; [destruct (d_solve s) as [s2 v]|destruct (s_solve s) as [s2 v]]; injection H as <-.
    + apply (info_inv_refresh (mkCWork (XD SK s2) n p m ptr info rt)); auto.
    + apply (info_inv_refresh (mkCWork (XS DK s2) n p m ptr info rt)); auto.
Qed.

Lemma c_run_info_inv : forall calls st st', crun st calls = Some st' ->
  match st with None => True | Some w => InfoInv w end -> match st' with None => True | Some w => InfoInv w end.
Proof.
  induction calls as [|c calls IH]; intros st st' H Hinv; simpl in H.
  - injection H as <-. exact Hinv.
  - destruct (cstep st c) as [st1|] eqn:E1; simpl in H; [|discriminate].
    apply (IH st1 st' H). destruct st1 as [w1|]; [|exact I]. exact (c_step_info_inv st c _ E1 Hinv).
Qed.

Theorem c_info_current_always : forall calls (w : work), crun None calls = Some (Some w) ->
  forall f, ~ In f timing_fields -> w_info w f = proj_info cast T (xres (w_solver w)) f.
Proof.
  intros calls w H. exact (proj2 (c_run_info_inv calls None _ H I)).
Qed.
End Frame.
End CAPIProofs.

(* ------------------------------------------------------------------------------------------------ *)
(** * (c) optional arguments: which pointers are tested, and with which dimensions the maps are built *)
Section OptionalArgs.
Variable V : Type.
Variable d : V.

Theorem opt_of_ptr_spec : forall (A : Type), @opt_of_ptr A PNull = None /\ forall a : A, opt_of_ptr (PTo a) = Some a.
Proof. intros A. split; reflexivity. Qed.

Lemma opt_vec_map_inv : forall (p : cptr (list V)) len o, opt_vec_map p len = Some o ->
  (p = PNull /\ o = None) \/ (exists a, p = PTo a /\ len <= length a /\ o = Some (firstn len a)).
Proof.
  intros p len o H. destruct p as [|a]; simpl in H.
  - left. injection H as <-. auto.
  - right. unfold opt_vec_map, view_vec in H. simpl in H. destruct (Nat.leb_spec len (length a)); simpl in H; [|discriminate].
    injection H as <-. eauto.
Qed.

Lemma opt_mat_map_inv : forall (p : cptr (list V)) r c o, opt_mat_map d p r c = Some o ->
  (p = PNull /\ o = None) \/ (exists a, p = PTo a /\ r * c <= length a /\ o = Some (rowmajor_to_cols d r c a)).
Proof.
  intros p r c o H. destruct p as [|a]; simpl in H.
  - left. injection H as <-. auto.
  - right. unfold opt_mat_map, view_mat in H. simpl in H. destruct (Nat.leb_spec (r * c) (length a)); simpl in H; [|discriminate].
    injection H as <-. eauto.
Qed.

Ltac ub_inv H :=
  repeat match type of H with
         | ubind ?e _ = Some _ => let E := fresh "E" in destruct e eqn:E; simpl in H; [|discriminate]
         end.

(** piqp_setup_dense: P and c are mapped unconditionally (NULL is outside the contract); A, b, G, h, x_lb, x_ub are
    nullopt exactly when the pointer is NULL; P is n x n, A is p x n, G is m x n, all row-major *)
Theorem dense_setup_args_spec : forall (D : c_data V (list V)) a, dense_setup_args d D = Some a ->
  (exists Pa, cd_P D = PTo Pa /\ xs_P a = rowmajor_to_cols d (cd_n D) (cd_n D) Pa) /\
  (exists ca, cd_c D = PTo ca /\ xs_c a = firstn (cd_n D) ca) /\
  ((cd_A D = PNull /\ xs_A a = None) \/ (exists x, cd_A D = PTo x /\ xs_A a = Some (rowmajor_to_cols d (cd_p D) (cd_n D) x))) /\
  ((cd_b D = PNull /\ xs_b a = None) \/ (exists x, cd_b D = PTo x /\ xs_b a = Some (firstn (cd_p D) x))) /\
  ((cd_G D = PNull /\ xs_G a = None) \/ (exists x, cd_G D = PTo x /\ xs_G a = Some (rowmajor_to_cols d (cd_m D) (cd_n D) x))) /\
  ((cd_h D = PNull /\ xs_h a = None) \/ (exists x, cd_h D = PTo x /\ xs_h a = Some (firstn (cd_m D) x))) /\
  ((cd_lb D = PNull /\ xs_lb a = None) \/ (exists x, cd_lb D = PTo x /\ xs_lb a = Some (firstn (cd_n D) x))) /\
  ((cd_ub D = PNull /\ xs_ub a = None) \/ (exists x, cd_ub D = PTo x /\ xs_ub a = Some (firstn (cd_n D) x))).
Proof.
  intros D a H. unfold dense_setup_args in H. ub_inv H. injection H as <-. simpl.
  repeat split.
  - destruct (cd_P D) as [|Pa]; [discriminate|]. simpl in E. injection E as <-. exists Pa. split; auto.
    unfold view_mat in E0. destruct (cd_n D * cd_n D <=? length Pa); [|discriminate]. now injection E0 as <-.
  - destruct (cd_c D) as [|ca]; [discriminate|]. simpl in E1. injection E1 as <-. exists ca. split; auto.
    unfold view_vec in E2. destruct (cd_n D <=? length ca); [|discriminate]. now injection E2 as <-.
  - destruct (opt_mat_map_inv _ _ _ _ E3) as [[? ?]|[x [? [_ ?]]]]; [left|right]; eauto.
  - destruct (opt_vec_map_inv _ _ _ E4) as [[? ?]|[x [? [_ ?]]]]; [left|right]; eauto.
  - destruct (opt_mat_map_inv _ _ _ _ E5) as [[? ?]|[x [? [_ ?]]]]; [left|right]; eauto.
  - destruct (opt_vec_map_inv _ _ _ E6) as [[? ?]|[x [? [_ ?]]]]; [left|right]; eauto.
  - destruct (opt_vec_map_inv _ _ _ E7) as [[? ?]|[x [? [_ ?]]]]; [left|right]; eauto.
  - destruct (opt_vec_map_inv _ _ _ E8) as [[? ?]|[x [? [_ ?]]]]; [left|right]; eauto.
Qed.

(** piqp_update_dense: all eight pointers are optional; the dimensions are those recorded in solver_info at setup *)
Theorem dense_update_args_spec : forall n p m P c A b G h lb ub_ a, dense_update_args d n p m P c A b G h lb ub_ = Some a ->
  ((P = PNull /\ xu_P a = None) \/ (exists x, P = PTo x /\ xu_P a = Some (rowmajor_to_cols d n n x))) /\
  ((c = PNull /\ xu_c a = None) \/ (exists x, c = PTo x /\ xu_c a = Some (firstn n x))) /\
  ((A = PNull /\ xu_A a = None) \/ (exists x, A = PTo x /\ xu_A a = Some (rowmajor_to_cols d p n x))) /\
  ((b = PNull /\ xu_b a = None) \/ (exists x, b = PTo x /\ xu_b a = Some (firstn p x))) /\
  ((G = PNull /\ xu_G a = None) \/ (exists x, G = PTo x /\ xu_G a = Some (rowmajor_to_cols d m n x))) /\
  ((h = PNull /\ xu_h a = None) \/ (exists x, h = PTo x /\ xu_h a = Some (firstn m x))) /\
  ((lb = PNull /\ xu_lb a = None) \/ (exists x, lb = PTo x /\ xu_lb a = Some (firstn n x))) /\
  ((ub_ = PNull /\ xu_ub a = None) \/ (exists x, ub_ = PTo x /\ xu_ub a = Some (firstn n x))).
Proof.
  intros n p m P c A b G h lb ub_ a H. unfold dense_update_args in H. ub_inv H. injection H as <-. simpl.
  repeat split.
  - destruct (opt_mat_map_inv _ _ _ _ E) as [[? ?]|[x [? [_ ?]]]]; [left|right]; eauto.
  - destruct (opt_vec_map_inv _ _ _ E0) as [[? ?]|[x [? [_ ?]]]]; [left|right]; eauto.
  - destruct (opt_mat_map_inv _ _ _ _ E1) as [[? ?]|[x [? [_ ?]]]]; [left|right]; eauto.
  - destruct (opt_vec_map_inv _ _ _ E2) as [[? ?]|[x [? [_ ?]]]]; [left|right]; eauto.
  - destruct (opt_mat_map_inv _ _ _ _ E3) as [[? ?]|[x [? [_ ?]]]]; [left|right]; eauto.
  - destruct (opt_vec_map_inv _ _ _ E4) as [[? ?]|[x [? [_ ?]]]]; [left|right]; eauto.
  - destruct (opt_vec_map_inv _ _ _ E5) as [[? ?]|[x [? [_ ?]]]]; [left|right]; eauto.
  - destruct (opt_vec_map_inv _ _ _ E6) as [[? ?]|[x [? [_ ?]]]]; [left|right]; eauto.
Qed.

(** piqp_setup_sparse: the piqp_csc pointers themselves are tested; the matrices are passed as they are (their own m, n) *)
Theorem sparse_setup_args_spec : forall (D : c_data V (smat V)) a, sparse_setup_args D = Some a ->
  cd_P D = PTo (xs_P a) /\
  (exists ca, cd_c D = PTo ca /\ xs_c a = firstn (cd_n D) ca) /\
  xs_A a = opt_of_ptr (cd_A D) /\ xs_G a = opt_of_ptr (cd_G D) /\
  ((cd_b D = PNull /\ xs_b a = None) \/ (exists x, cd_b D = PTo x /\ xs_b a = Some (firstn (cd_p D) x))) /\
  ((cd_h D = PNull /\ xs_h a = None) \/ (exists x, cd_h D = PTo x /\ xs_h a = Some (firstn (cd_m D) x))) /\
  ((cd_lb D = PNull /\ xs_lb a = None) \/ (exists x, cd_lb D = PTo x /\ xs_lb a = Some (firstn (cd_n D) x))) /\
  ((cd_ub D = PNull /\ xs_ub a = None) \/ (exists x, cd_ub D = PTo x /\ xs_ub a = Some (firstn (cd_n D) x))).
Proof.
  intros D a H. unfold sparse_setup_args in H. ub_inv H. injection H as <-. simpl.
  repeat split.
  - destruct (cd_P D) as [|Pa]; [discriminate|]. simpl in E. now injection E as <-.
  - destruct (cd_c D) as [|ca]; [discriminate|]. simpl in E0. injection E0 as <-. exists ca. split; auto.
    unfold view_vec in E1. destruct (cd_n D <=? length ca); [|discriminate]. now injection E1 as <-.
  - destruct (opt_vec_map_inv _ _ _ E2) as [[? ?]|[x [? [_ ?]]]]; [left|right]; eauto.
  - destruct (opt_vec_map_inv _ _ _ E3) as [[? ?]|[x [? [_ ?]]]]; [left|right]; eauto.
  - destruct (opt_vec_map_inv _ _ _ E4) as [[? ?]|[x [? [_ ?]]]]; [left|right]; eauto.
  - destruct (opt_vec_map_inv _ _ _ E5) as [[? ?]|[x [? [_ ?]]]]; [left|right]; eauto.
Qed.
End OptionalArgs.

(* ------------------------------------------------------------------------------------------------ *)
(** * the statements over the bundled abstract solver *)
Section BundledProofs.
Variable V : Type.
Variable d : V.
Variable SV : Type.
Variable cast : string -> SV -> SV.
Variable T : Tables.
Variable S : cxx_solver V SV.
Hypothesis HW : tables_wired T.

Let W1 := proj1 HW.
Let W2 := proj1 (proj2 HW).
Let W3 := proj1 (proj2 (proj2 HW)).
Let W4 := proj1 (proj2 (proj2 (proj2 HW))).
Let W5 := proj2 (proj2 (proj2 (proj2 HW))).

Theorem b_update_result_is_projection : forall (r : xresult V SV) (w : Cwork S) f,
  (forall g, w_ptr w g = None) -> (forall g, w_info w g = None) ->
  w_ptr (c_update_result cast T r w) f = proj_ptr T f /\ w_info (c_update_result cast T r w) f = proj_info cast T r f.
Proof.
  intros r w f Hp Hi. split; [eapply update_result_ptr|eapply update_result_info]; eauto.
Qed.

Theorem b_update_settings_transfers : forall (cs : env SV) (s : xsolver SV (cx_DK S) (cx_SK S)) f,
  (In f (settings_names T) -> x_settings (c_update_settings cast T cs s) f = cast (conv_of (settings_wires T s) f) (cs f)) /\
  (~ In f (settings_names T) -> x_settings (c_update_settings cast T cs s) f = x_settings s f).
Proof. intros. eapply update_settings_transfers; eauto. Qed.

Theorem b_set_default_settings : forall (before : env SV) f,
  (In f (settings_names T) -> c_set_default_settings cast T (cx_default S) before f = cast (conv_of (c_settings_out T) f) (cx_default S f)) /\
  (~ In f (settings_names T) -> c_set_default_settings cast T (cx_default S) before f = before f).
Proof. intros. eapply set_default_settings_spec; eauto. Qed.

Theorem b_c_api_is_projection : forall calls (w : Cwork S), C_run d cast T S None calls = Some (Some w) ->
  exists xcalls xr, translate d cast T None calls = Some xcalls /\ X_run S (X_run0 S) xcalls = Some xr /\ Projects cast T xr w.
Proof. unfold C_run, X_run, X_run0. intros. eapply c_api_is_projection; eauto. Qed.

Theorem b_c_run_defined_iff : forall calls (st : option (Cwork S)),
  (exists st', C_run d cast T S st calls = Some st') <-> (exists xcalls, translate d cast T (sinfo_of st) calls = Some xcalls).
Proof. unfold C_run. intros. eapply c_run_defined_iff; eauto. Qed.

Theorem b_pointers_current : forall calls (w : Cwork S) f, C_run d cast T S None calls = Some (Some w) -> In f (result_vec_names T) ->
  w_ptr w f = Some f /\ C_read_vec S w f = Some (xr_vec (X_result S (w_solver w)) f).
Proof. unfold C_run, C_read_vec, X_result. intros. eapply c_pointers_current; eauto. Qed.

Theorem b_no_other_pointer : forall calls (w : Cwork S) f, C_run d cast T S None calls = Some (Some w) -> ~ In f (result_vec_names T) ->
  w_ptr w f = None.
Proof. unfold C_run. intros. eapply c_no_other_pointer; eauto. Qed.

Theorem b_info_current_after_refresh : forall calls c (w : Cwork S), C_run d cast T S None (calls ++ [c]) = Some (Some w) ->
  refreshing c = true -> forall f, w_info w f = proj_info cast T (X_result S (w_solver w)) f.
Proof. unfold C_run, X_result. intros. eapply c_info_current_after_refresh; eauto. Qed.

Theorem b_status_returned : forall calls (w : Cwork S), C_run d cast T S None (calls ++ [CSolve V SV]) = Some (Some w) ->
  exists xcalls xr v, translate d cast T None (calls ++ [CSolve V SV]) = Some xcalls /\
    X_run S (X_run0 S) xcalls = Some xr /\ xret xr = Some v /\ w_ret w = Some v.
Proof. unfold C_run, X_run, X_run0. intros. eapply c_status_returned; eauto. Qed.

Theorem b_info_current_always : update_frame S -> forall calls (w : Cwork S), C_run d cast T S None calls = Some (Some w) ->
  forall f, ~ In f timing_fields -> w_info w f = proj_info cast T (X_result S (w_solver w)) f.
Proof. intros [Fd Fs]. unfold C_run, X_result. intros. eapply c_info_current_always; eauto. Qed.
End BundledProofs.
