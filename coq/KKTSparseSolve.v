(* KKTSparseSolve.v -- the solve path of include/piqp/sparse/kkt.hpp:  KKT::regularize_and_factorize(false),
   KKT::solve(.., iterative_refinement = false) and KKT::multiply, for the four KKTModes, on top of the assembly
   records of KKTSparseFull.v (KKT_FULL), KKTSparseEq.v / KKTSparseIneq.v (KKT_EQ_ELIMINATED / KKT_INEQ_ELIMINATED),
   KKTSparseAll.v (KKT_ALL_ELIMINATED) and the sparse LDL^T of LDLSparse.v.

   Executable Gallina.  Every element access goes through get/upd (Err Index when out of range), every division through
   qdiv (Err DivZero), every block size is checked (Err Shape), so a run that returns Ok performed no out-of-range access
   and no division by zero.

   Modelling decisions (all visible to the correspondence stage tools/kktsolve_stage.py):
   * Eigen's products  M * v,  M.transpose() * v  and the two triangular products of P_utri in multiply are modelled by
     their mathematical value (spmv / spmtv / putri_mv below: sums of csc_get entries); Eigen's kernels are not PIQP
     code, and in exact arithmetic the order of summation is immaterial.  "delta_inv * data.AT * rhs_y" is
     delta_inv * (AT * rhs_y).
   * iterative refinement is NOT modelled: regularize_and_factorize(true) (regularize_kkt / unregularize_kkt around the
     factorisation) and the refinement loop of solve are left out; [kkt_factorize] and [kkt_solve] are the paths taken
     with iterative_refinement = false.
   * T delta_inv = T(1) / m_delta is evaluated by the code in every mode but used only when the equality block is
     eliminated; the model evaluates it (checked) only there.
   * the output blocks delta_z_lb, delta_z_ub, delta_s_lb, delta_s_ub (multiply: rhs_z_lb, ..) have length n in the
     solver; only head(n_lb) / head(n_ub) is written.  The model returns exactly these heads.
   * the work vectors rhs, rhs_perm, sol_perm are re-created here for every call (every slot is overwritten before it is
     read: ord_perm / ord_permt write all N slots when P is a permutation; the filler is 0).
   * the ordering object (P and P_inv) is carried next to the assembly state, which stores only P_inv. *)
From PIQP Require Import Base CSC LDLSparse KKTSparseFull KKTSparseAll KKTSparseEq KKTSparseIneq.
Local Open Scope Qc_scope.

Inductive kmode := MFull | MEq | MIneq | MAll.

(* kkt_size() *)
Definition mode_N (md : kmode) (d : sdata) : nat :=
  match md with
  | MFull => (sd_n d + sd_p d + sd_m d)%nat
  | MEq => (sd_n d + sd_m d)%nat
  | MIneq => (sd_n d + sd_p d)%nat
  | MAll => sd_n d
  end.

(* the eight blocks of a step / right-hand side *)
Record step8 := mkstep8 {
  t_x : Vec; t_y : Vec; t_z : Vec; t_zlb : Vec; t_zub : Vec; t_s : Vec; t_slb : Vec; t_sub : Vec
}.

(* ---------- elementwise expressions ---------- *)
Definition tab (n : nat) (f : nat -> res F) : res Vec := mapM f (seq 0 n).
Definition chk_eq {A} (n : nat) (v : list A) : res unit := if (length v =? n)%nat then Ok tt else Err Shape.

(* ---------- Eigen products, by value ---------- *)
Fixpoint fsum (n : nat) (f : nat -> F) : F := match n with O => 0 | S k => fsum k f + f k end.
(* M * v *)
Definition spmv (M : csc F) (v : Vec) : Vec :=
  map (fun i => fsum (ncols M) (fun l => csc_get M i l * nth l v 0)) (seq 0 (nrows M)).
(* M.transpose() * v *)
Definition spmtv (M : csc F) (v : Vec) : Vec :=
  map (fun l => fsum (nrows M) (fun i => csc_get M i l * nth i v 0)) (seq 0 (ncols M)).
(* P_utri * v + P_utri.transpose().triangularView<StrictlyLower>() * v *)
Definition putri_mv (P : csc F) (v : Vec) : Vec :=
  map (fun i => fsum (ncols P) (fun j => csc_get P i j * nth j v 0 + (if (j <? i)%nat then csc_get P j i * nth j v 0 else 0)))
      (seq 0 (nrows P)).

(* ---------- regularize_and_factorize(false) ---------- *)
(* isize n = ldlt.factorize_numeric_upper_triangular(PKPt); return n == PKPt.cols();  the LDL object keeps its index and
   work arrays from the symbolic phase of init and from earlier factorisations *)
Definition kkt_factorize (K : csc F) (st : ldl_i * ldl_v) : res (bool * (ldl_i * ldl_v)) :=
  do '(r, st') <- numeric K st ;; Ok ((r =? ncols K)%nat, st').

(* ldlt.factorize_symbolic_upper_triangular(PKPt) at the end of init *)
Definition kkt_symbolic (K : csc F) : res (ldl_i * ldl_v) := symbolic K.

(* ---------- solve ---------- *)
(* one of the two box loops that fold the bound rows into rhs; sgn = -1 (lower) / +1 (upper) *)
Definition fold_box (nb : nat) (idx : list nat) (sc rz rs zinv s : Vec) (delta : F) (neg : bool) (rhs : Vec) : res Vec :=
  for_range 0 nb (fun i rhs =>
    do col <- get idx i ;;
    do sci <- get sc i ;; do rzi <- get rz i ;; do zi <- get zinv i ;; do rsi <- get rs i ;; do si <- get s i ;;
    do t <- qdiv (sci * (rzi - zi * rsi)) (si * zi + delta) ;;
    do old <- get rhs col ;;
    upd rhs col (if neg then old - t else old + t)) rhs.

(* delta_z_lb / delta_z_ub *)
Definition rec_box (nb : nat) (idx : list nat) (sc rz rs zinv s : Vec) (delta : F) (neg : bool) (dx : Vec) : res Vec :=
  tab nb (fun i =>
    do col <- get idx i ;;
    do sci <- get sc i ;; do rzi <- get rz i ;; do zi <- get zinv i ;; do rsi <- get rs i ;; do si <- get s i ;;
    do dxi <- get dx col ;;
    do a <- qdiv ((if neg then - sci * dxi else sci * dxi) - rzi) zi ;;
    do b <- qdiv delta zi ;;
    qdiv (a + rsi) (si + b)).

(* delta_s = s * z_inv * (rhs_s / s - delta_z), on the first k entries *)
Definition rec_slack (k : nat) (s zinv rs dz : Vec) : res Vec :=
  tab k (fun i =>
    do si <- get s i ;; do zi <- get zinv i ;; do rsi <- get rs i ;; do dzi <- get dz i ;;
    do q <- qdiv rsi si ;;
    Ok (si * zi * (q - dzi))).

(* x.array() /= s.array() * z_inv.array() + delta *)
Definition div_w (m : nat) (s zinv : Vec) (delta : F) (x : Vec) : res Vec :=
  tab m (fun i => do xi <- get x i ;; do si <- get s i ;; do zi <- get zinv i ;; qdiv xi (si * zi + delta)).

Definition kkt_solve (md : kmode) (d : sdata) (c : scal) (o : ordering) (st : ldl_i * ldl_v) (r : step8) : res step8 :=
  let n := sd_n d in let p := sd_p d in let m := sd_m d in
  let N := mode_N md d in
  let delta := sc_delta c in
  do _ <- chk_eq n (t_x r) ;; do _ <- chk_eq p (t_y r) ;; do _ <- chk_eq m (t_z r) ;; do _ <- chk_eq m (t_s r) ;;
  do _ <- chk_eq m (sc_s c) ;; do _ <- chk_eq m (sc_z_inv c) ;;
  (* rhs_z_bar = rhs_z - z_inv * rhs_s *)
  do zbar <- tab m (fun i => do a <- get (t_z r) i ;; do zi <- get (sc_z_inv c) i ;; do b <- get (t_s r) i ;; Ok (a - zi * b)) ;;
  do '(dinv, zbar, rhs) <-
    match md with
    | MFull => Ok (0, zbar, t_x r ++ t_y r ++ zbar)
    | MEq =>
      do dinv <- qdiv 1 delta ;;
      do hd <- tab n (fun i => do a <- get (t_x r) i ;; do b <- get (spmv (sd_AT d) (t_y r)) i ;; Ok (a + dinv * b)) ;;
      Ok (dinv, zbar, hd ++ zbar)
    | MIneq =>
      do zbar <- div_w m (sc_s c) (sc_z_inv c) delta zbar ;;
      do hd <- tab n (fun i => do a <- get (t_x r) i ;; do b <- get (spmv (sd_GT d) zbar) i ;; Ok (a + b)) ;;
      Ok (0, zbar, hd ++ t_y r)
    | MAll =>
      do dinv <- qdiv 1 delta ;;
      do zbar <- div_w m (sc_s c) (sc_z_inv c) delta zbar ;;
      do hd <- tab n (fun i => do a <- get (t_x r) i ;; do b <- get (spmv (sd_GT d) zbar) i ;;
                               do e <- get (spmv (sd_AT d) (t_y r)) i ;; Ok (a + b + dinv * e)) ;;
      Ok (dinv, zbar, hd)
    end ;;
  do rhs <- fold_box (sd_nlb d) (sd_lbidx d) (sd_lbs d) (t_zlb r) (t_slb r) (sc_z_lb_inv c) (sc_s_lb c) delta true rhs ;;
  do rhs <- fold_box (sd_nub d) (sd_ubidx d) (sd_ubs d) (t_zub r) (t_sub r) (sc_z_ub_inv c) (sc_s_ub c) delta false rhs ;;
  (* ordering.perm(rhs_perm, rhs); sol_perm = rhs_perm; ldlt.solve_inplace(sol_perm); ordering.permt(rhs, sol_perm) *)
  do rhs_perm <- ord_perm o (repeat 0 N) rhs ;;
  do sol_perm <- ldl_solve st rhs_perm ;;
  do sol <- ord_permt o rhs sol_perm ;;
  let dx := head n sol in
  do '(dy, dz) <-
    match md with
    | MFull => Ok (segment n p sol, tail_from (n + p) sol)
    | MEq =>
      do dy <- tab p (fun l => do a <- get (spmtv (sd_AT d) dx) l ;; do b <- get (t_y r) l ;; Ok (dinv * a - dinv * b)) ;;
      Ok (dy, tail_from n sol)
    | MIneq =>
      do g <- div_w m (sc_s c) (sc_z_inv c) delta (spmtv (sd_GT d) dx) ;;
      do dz <- tab m (fun l => do a <- get g l ;; do b <- get zbar l ;; Ok (a - b)) ;;
      Ok (tail_from n sol, dz)
    | MAll =>
      do dy <- tab p (fun l => do a <- get (spmtv (sd_AT d) dx) l ;; do b <- get (t_y r) l ;; Ok (dinv * a - dinv * b)) ;;
      do g <- div_w m (sc_s c) (sc_z_inv c) delta (spmtv (sd_GT d) dx) ;;
      do dz <- tab m (fun l => do a <- get g l ;; do b <- get zbar l ;; Ok (a - b)) ;;
      Ok (dy, dz)
    end ;;
  do dzlb <- rec_box (sd_nlb d) (sd_lbidx d) (sd_lbs d) (t_zlb r) (t_slb r) (sc_z_lb_inv c) (sc_s_lb c) delta true dx ;;
  do dzub <- rec_box (sd_nub d) (sd_ubidx d) (sd_ubs d) (t_zub r) (t_sub r) (sc_z_ub_inv c) (sc_s_ub c) delta false dx ;;
  do ds <- rec_slack m (sc_s c) (sc_z_inv c) (t_s r) dz ;;
  do dslb <- rec_slack (sd_nlb d) (sc_s_lb c) (sc_z_lb_inv c) (t_slb r) dzlb ;;
  do dsub <- rec_slack (sd_nub d) (sc_s_ub c) (sc_z_ub_inv c) (t_sub r) dzub ;;
  Ok (mkstep8 dx dy dz dzlb dzub ds dslb dsub).

(* ---------- multiply (the same text for every Mode) ---------- *)
Definition mul_box_x (nb : nat) (idx : list nat) (sc dzb : Vec) (neg : bool) (rx : Vec) : res Vec :=
  for_range 0 nb (fun i rx =>
    do col <- get idx i ;; do sci <- get sc i ;; do zi <- get dzb i ;;
    do old <- get rx col ;;
    upd rx col (if neg then old - sci * zi else old + sci * zi)) rx.

(* rhs_z_lb(i) = -+ scaling(i) * delta_x(idx(i));  head -= delta * delta_z_b;  head += delta_s_b *)
Definition mul_box_z (nb : nat) (idx : list nat) (sc : Vec) (delta : F) (dx dzb dsb : Vec) (neg : bool) : res Vec :=
  tab nb (fun i =>
    do col <- get idx i ;; do sci <- get sc i ;; do dxi <- get dx col ;; do zi <- get dzb i ;; do si <- get dsb i ;;
    Ok ((if neg then - sci * dxi else sci * dxi) - delta * zi + si)).

(* s * delta_z + z_inv.cwiseInverse() * delta_s, on the first k entries *)
Definition mul_slack (k : nat) (s zinv dz ds : Vec) : res Vec :=
  tab k (fun i =>
    do si <- get s i ;; do zi <- get zinv i ;; do dzi <- get dz i ;; do dsi <- get ds i ;;
    do zz <- qdiv 1 zi ;;
    Ok (si * dzi + zz * dsi)).

Definition kkt_multiply (d : sdata) (c : scal) (v : step8) : res step8 :=
  let n := sd_n d in let p := sd_p d in let m := sd_m d in
  let delta := sc_delta c in
  do _ <- chk_eq n (t_x v) ;; do _ <- chk_eq p (t_y v) ;; do _ <- chk_eq m (t_z v) ;; do _ <- chk_eq m (t_s v) ;;
  do _ <- chk_eq m (sc_s c) ;; do _ <- chk_eq m (sc_z_inv c) ;;
  do rx <- tab n (fun i =>
      do a <- get (putri_mv (sd_P d) (t_x v)) i ;; do xi <- get (t_x v) i ;;
      do b <- get (spmv (sd_AT d) (t_y v)) i ;; do e <- get (spmv (sd_GT d) (t_z v)) i ;;
      Ok (a + sc_rho c * xi + (b + e))) ;;
  do rx <- mul_box_x (sd_nlb d) (sd_lbidx d) (sd_lbs d) (t_zlb v) true rx ;;
  do rx <- mul_box_x (sd_nub d) (sd_ubidx d) (sd_ubs d) (t_zub v) false rx ;;
  do ry <- tab p (fun l => do a <- get (spmtv (sd_AT d) (t_x v)) l ;; do yl <- get (t_y v) l ;; Ok (a - delta * yl)) ;;
  do rz <- tab m (fun l => do a <- get (spmtv (sd_GT d) (t_x v)) l ;; do zl <- get (t_z v) l ;; do sl <- get (t_s v) l ;;
                           Ok (a - delta * zl + sl)) ;;
  do rzlb <- mul_box_z (sd_nlb d) (sd_lbidx d) (sd_lbs d) delta (t_x v) (t_zlb v) (t_slb v) true ;;
  do rzub <- mul_box_z (sd_nub d) (sd_ubidx d) (sd_ubs d) delta (t_x v) (t_zub v) (t_sub v) false ;;
  do rs <- mul_slack m (sc_s c) (sc_z_inv c) (t_z v) (t_s v) ;;
  do rslb <- mul_slack (sd_nlb d) (sc_s_lb c) (sc_z_lb_inv c) (t_zlb v) (t_slb v) ;;
  do rsub <- mul_slack (sd_nub d) (sc_s_ub c) (sc_z_ub_inv c) (t_zub v) (t_sub v) ;;
  Ok (mkstep8 rx ry rz rzlb rzub rs rslb rsub).

(* ---------- the four instantiations on the assembly records ---------- *)
(* the part of the object the solve path reads besides the data *)
Record sview := mksview { sv_sc : scal; sv_K : csc F }.
Definition full_view (d : sdata) (k : skkt) : sview := mksview (scal_of k) (fk_PKPt d k).
Definition eq_view (d : sdata) (k : ekkt) : sview := mksview (ek_sc k) (eq_PKPt d k).
Definition ineq_view (d : sdata) (k : ekkt) : sview := mksview (ek_sc k) (ineq_PKPt d k).
Definition all_view (d : sdata) (k : akkt) : sview := mksview (ak_sc k) (mkcsc (sd_n d) (sd_n d) (ak_kp k) (ak_ki k) (ak_kx k)).

Definition full_factorize d k st := kkt_factorize (sv_K (full_view d k)) st.
Definition full_solve d k o st r := kkt_solve MFull d (sv_sc (full_view d k)) o st r.
Definition full_multiply d k v := kkt_multiply d (sv_sc (full_view d k)) v.
Definition eq_factorize d k st := kkt_factorize (sv_K (eq_view d k)) st.
Definition eq_solve d k o st r := kkt_solve MEq d (sv_sc (eq_view d k)) o st r.
Definition eq_multiply d k v := kkt_multiply d (sv_sc (eq_view d k)) v.
Definition ineq_factorize d k st := kkt_factorize (sv_K (ineq_view d k)) st.
Definition ineq_solve d k o st r := kkt_solve MIneq d (sv_sc (ineq_view d k)) o st r.
Definition ineq_multiply d k v := kkt_multiply d (sv_sc (ineq_view d k)) v.
Definition all_factorize d k st := kkt_factorize (sv_K (all_view d k)) st.
Definition all_solve d k o st r := kkt_solve MAll d (sv_sc (all_view d k)) o st r.
Definition all_multiply d k v := kkt_multiply d (sv_sc (all_view d k)) v.
