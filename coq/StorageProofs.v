(* StorageProofs.v -- C10: only the upper triangle of P is read by setup() and update() (dense model). *)
From PIQP Require Import Base Data Bounds PrecondDense KKTDense IPM API.
From Coq Require Import List Lia.
Import ListNotations.
Local Open Scope nat_scope.

(* two column-major matrices agree on the upper triangle (i <= j) and have the same shape *)
Definition same_shape (P Q : Mat) : Prop :=
  length P = length Q /\ forall j, j < length P -> length (nth j P []) = length (nth j Q []).
Definition same_upper (P Q : Mat) : Prop :=
  same_shape P Q /\ forall i j, j < length P -> i < length (nth j P []) -> i <= j -> nth i (nth j P []) 0%Qc = nth i (nth j Q []) 0%Qc.

Lemma map_combine_seq_ext {A B} (f g : nat * A -> B) (l l' : list A) (s : nat) (d : A) :
  length l = length l' ->
  (forall k, k < length l -> f (s + k, nth k l d) = g (s + k, nth k l' d)) ->
  map f (combine (seq s (length l)) l) = map g (combine (seq s (length l')) l').
Proof.
  revert l' s. induction l as [|a l IH]; intros l' s Hlen H.
  - destruct l'; [reflexivity|discriminate].
  - destruct l' as [|a' l']; [discriminate|]. cbn [length seq combine map]. f_equal.
    + specialize (H 0). cbn in H. rewrite Nat.add_0_r in H. apply H. lia.
    + apply IH; [cbn in Hlen; lia|]. intros k Hk. specialize (H (S k)). cbn [nth length] in H.
      replace (S s + k) with (s + S k) by lia. apply H. lia.
Qed.

Lemma upper_tri_ext (P Q : Mat) : same_upper P Q -> upper_tri P = upper_tri Q.
Proof.
  intros [[Hl Hc] Hu]. unfold upper_tri.
  apply (map_combine_seq_ext _ _ P Q 0 []); [exact Hl|].
  intros j Hj. cbn [fst snd Nat.add].
  apply (map_combine_seq_ext _ _ (nth j P []) (nth j Q []) 0 0%Qc); [apply Hc; exact Hj|].
  intros i Hi. cbn [fst snd Nat.add].
  destruct (Nat.leb i j) eqn:E; [|reflexivity].
  apply Nat.leb_le in E. apply Hu; assumption.
Qed.

Definition with_P (B : Blocks) (P : Mat) : Blocks :=
  {| b_P := Some P; b_c := b_c B; b_A := b_A B; b_b := b_b B; b_G := b_G B; b_h := b_h B; b_lb := b_lb B; b_ub := b_ub B |}.

Lemma setup_reads_upper_only K ident spc junk S n p m B P Q :
  same_upper P Q -> setup K ident spc junk S n p m (with_P B P) = setup K ident spc junk S n p m (with_P B Q).
Proof. intros H. unfold setup, with_P. cbn [b_P b_c b_A b_b b_G b_h b_lb b_ub]. rewrite (upper_tri_ext P Q H). reflexivity. Qed.

Lemma update_reads_upper_only K spc sv B P Q reuse :
  same_upper P Q -> update K spc sv (with_P B P) reuse = update K spc sv (with_P B Q) reuse.
Proof. intros H. unfold update, with_P. cbn [b_P b_c b_A b_b b_G b_h b_lb b_ub]. rewrite (upper_tri_ext P Q H). reflexivity. Qed.
