(* EventsProofs.v -- C05: soundness of the decision procedure [checks_first] (T1), the loop-unrolling lemma,
   and the history corollary (T4).  Stdlib only, no axioms. *)
From Coq Require Import String List Bool Arith Lia.
From PIQP Require Import Events.
Import ListNotations.

(* ---------------------------------------------------------------- list facts *)
Lemma has_mut_app : forall a b, has_mut (a ++ b) = has_mut a || has_mut b.
Proof. intros; unfold has_mut; apply existsb_app. Qed.

Lemma has_guard_app : forall a b, has_guard (a ++ b) = has_guard a || has_guard b.
Proof. intros; unfold has_guard; apply existsb_app. Qed.

Lemma has_mut_skipn : forall k l, has_mut l = false -> has_mut (skipn k l) = false.
Proof.
  induction k; intros l H; simpl; auto.
  destruct l as [|e r]; auto. simpl in H. apply orb_false_iff in H. destruct H. apply IHk; auto.
Qed.

Definition guard_clean (e : event) : bool :=
  match e with Guard _ _ _ _ _ gm => isnil gm | _ => true end.
Definition guards_clean (l : list event) : bool := forallb guard_clean l.

Definition guard_reports (e : event) : bool :=
  match e with Guard _ _ _ _ reps _ => nonempty reps | _ => true end.
Definition guards_report (l : list event) : bool := forallb guard_reports l.

Lemma no_guard_clean : forall l, has_guard l = false -> guards_clean l = true /\ guards_report l = true.
Proof.
  induction l as [|e r IH]; simpl; intros H; auto.
  apply orb_false_iff in H. destruct H as [H1 H2]. destruct (IH H2) as [A B].
  destruct e; simpl in *; try discriminate; rewrite ?A, ?B; auto.
Qed.

Lemma no_guard_checks_first : forall l, has_guard l = false -> checks_first l = true.
Proof.
  induction l as [|e r IH]; simpl; intros H; auto.
  apply orb_false_iff in H. destruct H as [H1 H2].
  destruct e; simpl in *; try discriminate; auto. rewrite H2; auto.
Qed.

Lemma checks_first_clean : forall l, checks_first l = true -> guards_clean l = true /\ guards_report l = true.
Proof.
  induction l as [|e r IH]; simpl; intros H; auto.
  destruct e as [id a c ret reps gm | w | w]; simpl in *.
  - apply andb_true_iff in H. destruct H as [H1 H2]. destruct (IH H2) as [A B].
    apply andb_true_iff in H1. destruct H1 as [H1 _]. apply andb_true_iff in H1. destruct H1 as [Hg Hr].
    rewrite Hg, Hr, A, B. auto.
  - apply negb_true_iff in H. apply no_guard_clean; auto.
  - auto.
Qed.

(* ---------------------------------------------------------------- the interpreter *)
Section RunFacts.
  Variable St : Type.
  Variable apply : string -> St -> St.
  Notation run := (run St apply).
  Notation exec_all := (exec_all St apply).
  Notation run_call := (run_call St apply).

  (* nothing that is still to be executed changes state => state is preserved *)
  Lemma run_no_mut : forall l o i s rj lg sk,
      guards_clean l = true -> has_mut (skipn sk l) = false -> state (run o l i s rj lg sk) = s.
  Proof.
    induction l as [|e r IH]; intros o i s rj lg sk Hc Hm; simpl; auto.
    simpl in Hc. apply andb_true_iff in Hc. destruct Hc as [Hce Hcr].
    destruct sk as [|sk'].
    - simpl in Hm. apply orb_false_iff in Hm. destruct Hm as [Hme Hmr].
      destruct (active o s i); [| apply IH; auto].
      destruct e as [id a c ret reps gm | w | w]; simpl in *; try discriminate.
      + destruct (rejects o s i); [| apply IH; auto].
        destruct gm; try discriminate.
        destruct ret as [k|]; simpl; auto.
        apply IH; auto. apply has_mut_skipn; auto.
      + apply IH; auto.
    - simpl in Hm. apply IH; auto.
  Qed.

  (* without guards no call is rejected and nothing is logged *)
  Lemma run_no_guard : forall l o i s rj lg sk,
      has_guard l = false -> rejected (run o l i s rj lg sk) = rj /\ log (run o l i s rj lg sk) = lg.
  Proof.
    induction l as [|e r IH]; intros o i s rj lg sk H; simpl; auto.
    simpl in H. apply orb_false_iff in H. destruct H as [He Hr].
    destruct sk; [| apply IH; auto].
    destruct (active o s i); [| apply IH; auto].
    destruct e; simpl in *; try discriminate; apply IH; auto.
  Qed.

  (* once rejected, always rejected *)
  Lemma run_rejected_mono : forall l o i s lg sk, rejected (run o l i s true lg sk) = true.
  Proof.
    induction l as [|e r IH]; intros; simpl; auto.
    destruct sk; auto. destruct (active o s i); auto.
    destruct e as [id a c ret reps gm | w | w]; auto.
    destruct (rejects o s i); auto. destruct ret; auto.
  Qed.

  (* a rejected call has reported *)
  Lemma run_log_nonempty : forall l o i s rj lg sk,
      guards_report l = true -> (rj = true -> lg <> []) ->
      rejected (run o l i s rj lg sk) = true -> log (run o l i s rj lg sk) <> [].
  Proof.
    induction l as [|e r IH]; intros o i s rj lg sk Hg Hinv; simpl; auto.
    simpl in Hg. apply andb_true_iff in Hg. destruct Hg as [Hge Hgr].
    destruct sk; [| apply IH; auto].
    destruct (active o s i); [| apply IH; auto].
    destruct e as [id a c ret reps gm | w | w]; try (apply IH; auto).
    destruct (rejects o s i); [| apply IH; auto].
    assert (Hne : lg ++ reps <> []).
    { simpl in Hge. destruct reps; try discriminate. intro E. apply app_eq_nil in E. destruct E; discriminate. }
    destruct ret; simpl; auto.
  Qed.

  (* T1, core: guards first => a rejected call leaves the state as it was *)
  Lemma checks_first_run : forall l o i s lg,
      checks_first l = true -> rejected (run o l i s false lg 0) = true -> state (run o l i s false lg 0) = s.
  Proof.
    induction l as [|e r IH]; intros o i s lg Hc Hr; simpl in *; auto.
    destruct (active o s i); [| apply IH; auto; destruct e; simpl in Hc; auto;
                                 [ apply andb_true_iff in Hc; tauto
                                 | apply negb_true_iff in Hc; apply no_guard_checks_first; auto ] ].
    destruct e as [id a c ret reps gm | w | w].
    - apply andb_true_iff in Hc. destruct Hc as [Hw Hcr].
      destruct (rejects o s i); [| apply IH; auto].
      unfold guard_wf in Hw. apply andb_true_iff in Hw. destruct Hw as [Hw Hret].
      apply andb_true_iff in Hw. destruct Hw as [Hgm _]. destruct gm; try discriminate.
      destruct ret as [k|]; simpl; auto.
      apply run_no_mut.
      + apply checks_first_clean; auto.
      + apply negb_true_iff in Hret; auto.
    - apply negb_true_iff in Hc.
      destruct (run_no_guard r o (S i) (apply w s) false lg 0 Hc) as [E _]. rewrite E in Hr. discriminate.
    - apply IH; auto.
  Qed.

  (* a call in which no guard fired ran every active mutation, in order *)
  Lemma accepted_run : forall l o i s lg,
      rejected (run o l i s false lg 0) = false ->
      state (run o l i s false lg 0) = exec_all o l i s /\ log (run o l i s false lg 0) = lg.
  Proof.
    induction l as [|e r IH]; intros o i s lg Hr; simpl in *; auto.
    destruct (active o s i); [| apply IH; auto].
    destruct e as [id a c ret reps gm | w | w]; try (apply IH; auto).
    destruct (rejects o s i); [| apply IH; auto].
    destruct ret; simpl in Hr; try discriminate.
    rewrite run_rejected_mono in Hr. discriminate.
  Qed.

  Lemma all_accept_run : forall l o i s rj lg,
      (forall s' j, rejects o s' j = false) ->
      run o l i s rj lg 0 = {| state := exec_all o l i s; rejected := rj; log := lg |}.
  Proof.
    induction l as [|e r IH]; intros o i s rj lg H; simpl; auto.
    destruct (active o s i); [| apply IH; auto].
    destruct e as [id a c ret reps gm | w | w]; try (apply IH; auto).
    rewrite H. apply IH; auto.
  Qed.

  (* T1 *)
  Theorem checks_first_sound : forall (l : list event) (o : oracle St) (s : St),
      checks_first l = true ->
      (rejected (run_call o l s) = true -> state (run_call o l s) = s /\ log (run_call o l s) <> []) /\
      (rejected (run_call o l s) = false -> state (run_call o l s) = exec_all o l 0 s /\ log (run_call o l s) = []) /\
      ((forall s' j, rejects o s' j = false) -> rejected (run_call o l s) = false).
  Proof.
    intros l o s Hc. unfold Events.run_call. repeat split.
    - apply checks_first_run; auto.
    - apply run_log_nonempty; auto. apply checks_first_clean; auto. discriminate.
    - apply accepted_run; auto.
    - apply accepted_run; auto.
    - intros H. rewrite all_accept_run; auto.
  Qed.

  (* ---------------------------------------------------------------- histories (T4) *)
  Variable Obs : Type.
  Variable observe : St -> Obs.
  Notation run_history := (run_history St apply Obs observe).
  Notation do_call := (do_call St apply Obs observe).

  Lemma run_history_cons : forall c t s,
      run_history (c :: t) s =
      let (s1, r1) := do_call c s in let (s2, rs) := run_history t s1 in (s2, r1 :: rs).
  Proof. reflexivity. Qed.

  Lemma run_history_app : forall h1 h2 s,
      run_history (h1 ++ h2) s =
      (fst (run_history h2 (fst (run_history h1 s))), snd (run_history h1 s) ++ snd (run_history h2 (fst (run_history h1 s)))).
  Proof.
    induction h1 as [|c t IH]; intros h2 s.
    - simpl. destruct (run_history h2 s); auto.
    - rewrite <- app_comm_cons, !run_history_cons.
      destruct (do_call c s) as [s1 r1]. rewrite IH.
      destruct (run_history t s1) as [s2 rs]. simpl. auto.
  Qed.

  (* T4: a rejected call anywhere in a history is invisible to everything that follows: the final state and the
     results (rejection flag, log, observation) of all later calls are those of the history without it; the
     rejected call itself observes the state the previous call left *)
  Theorem rejected_then_valid_same : forall (h1 : list (call St)) (c : call St) (h2 : list (call St)) (s : St),
      checks_first (c_events St c) = true ->
      rejected (run_call (c_oracle St c) (c_events St c) (fst (run_history h1 s))) = true ->
      fst (run_history (h1 ++ c :: h2) s) = fst (run_history (h1 ++ h2) s) /\
      exists rc,
        snd (run_history (h1 ++ c :: h2) s) = snd (run_history h1 s) ++ rc :: snd (run_history h2 (fst (run_history h1 s))) /\
        snd (run_history (h1 ++ h2) s) = snd (run_history h1 s) ++ snd (run_history h2 (fst (run_history h1 s))) /\
        r_rejected Obs rc = true /\ r_log Obs rc <> [] /\ r_obs Obs rc = observe (fst (run_history h1 s)).
  Proof.
    intros h1 c h2 s Hc Hr.
    destruct (checks_first_sound (c_events St c) (c_oracle St c) (fst (run_history h1 s)) Hc) as [H1 _].
    destruct (H1 Hr) as [Hs Hl].
    rewrite !run_history_app. simpl.
    unfold Events.do_call. fold (run_call (c_oracle St c) (c_events St c) (fst (run_history h1 s))).
    rewrite Hs.
    destruct (run_history h2 (fst (run_history h1 s))) as [s2 rs] eqn:E2. simpl.
    split; auto.
    eexists. split; [reflexivity|]. simpl. repeat split; auto.
  Qed.
End RunFacts.

(* ---------------------------------------------------------------- Prop-level reading of checks_first *)
(* every guard precedes every mutation, and every guard is a clean rejection *)
Definition guards_first (l : list event) : Prop :=
  forall l1 e l2, l = l1 ++ e :: l2 ->
                  (is_mut e = true -> has_guard l2 = false) /\ guard_wf e l2 = true.

Lemma checks_first_iff : forall l, checks_first l = true <-> guards_first l.
Proof.
  induction l as [|e r IH]; split.
  - intros _ l1 e l2 H. destruct l1; discriminate.
  - auto.
  - intros Hc l1 e' l2 H. destruct l1 as [|x l1]; simpl in H; inversion H; subst.
    + destruct e' as [id a c ret reps gm | w | w]; simpl in *.
      * apply andb_true_iff in Hc. split; [discriminate | tauto].
      * split; auto. intros _. apply negb_true_iff; auto.
      * split; auto. discriminate.
    + assert (Hr : checks_first (l1 ++ e' :: l2) = true).
      { destruct x; simpl in Hc; auto.
        - apply andb_true_iff in Hc; tauto.
        - apply negb_true_iff in Hc. apply no_guard_checks_first; auto. }
      apply IH in Hr. apply (Hr l1 e' l2); auto.
  - intros Hg.
    assert (Hr : checks_first r = true).
    { apply IH. intros l1 e' l2 H. apply (Hg (e :: l1) e' l2). simpl. rewrite H. auto. }
    destruct (Hg [] e r eq_refl) as [Hm Hw].
    destruct e as [id a c ret reps gm | w | w]; simpl in *; auto.
    + rewrite Hw, Hr. auto.
    + rewrite Hm; auto.
Qed.

(* ---------------------------------------------------------------- loops: two iterations are enough *)
Lemma checks_first_app : forall l1 l2,
    flat l1 = true ->
    checks_first (l1 ++ l2) = checks_first l1 && checks_first l2 && (negb (has_mut l1) || negb (has_guard l2)).
Proof.
  induction l1 as [|e r IH]; intros l2 Hf; simpl.
  - destruct (checks_first l2); auto.
  - simpl in Hf. apply andb_true_iff in Hf. destruct Hf as [Hfe Hfr].
    destruct e as [id a c ret reps gm | w | w]; simpl.
    + destruct ret; try discriminate. rewrite IH; auto. simpl.
      destruct (isnil gm && nonempty reps && true), (checks_first r), (checks_first l2), (has_mut r), (has_guard l2); auto.
    + rewrite has_guard_app.
      destruct (has_guard l2) eqn:G2.
      * rewrite orb_true_r. simpl. rewrite !andb_false_r. auto.
      * rewrite (no_guard_checks_first l2 G2). rewrite orb_false_r. simpl. rewrite !andb_true_r. auto.
    + apply IH; auto.
Qed.

Lemma flat_app : forall a b, flat (a ++ b) = flat a && flat b.
Proof. intros; unfold flat; apply forallb_app. Qed.

Lemma flat_rep : forall k b, flat b = true -> flat (rep k b) = true.
Proof. induction k; intros; simpl; auto. rewrite flat_app, H, IHk; auto. Qed.

Lemma has_guard_rep : forall k b, has_guard b = false -> has_guard (rep k b) = false.
Proof. induction k; intros; simpl; auto. rewrite has_guard_app, H, IHk; auto. Qed.

Lemma has_mut_rep : forall k b, has_mut (rep k b) = true -> has_mut b = true.
Proof.
  induction k; intros b H; simpl in H; try discriminate.
  rewrite has_mut_app in H. apply orb_true_iff in H. destruct H; auto.
Qed.

Lemma has_guard_rep_inv : forall k b, has_guard (rep k b) = true -> has_guard b = true.
Proof.
  induction k; intros b H; simpl in H; try discriminate.
  rewrite has_guard_app in H. apply orb_true_iff in H. destruct H; auto.
Qed.

Lemma checks_first_rep : forall k b post,
    flat b = true -> checks_first (b ++ b ++ post) = true -> checks_first (rep k b ++ post) = true.
Proof.
  intros k b post Hf H.
  rewrite checks_first_app in H; auto.
  apply andb_true_iff in H. destruct H as [H H3]. apply andb_true_iff in H. destruct H as [Hb Hbp].
  rewrite checks_first_app in Hbp; auto.
  apply andb_true_iff in Hbp. destruct Hbp as [Hbp H4]. apply andb_true_iff in Hbp. destruct Hbp as [_ Hp].
  rewrite has_guard_app in H3.
  induction k; simpl; auto.
  rewrite <- app_assoc. rewrite checks_first_app; auto.
  rewrite Hb, IHk. simpl.
  destruct (has_mut b) eqn:M; auto. simpl in *.
  apply negb_true_iff in H3. apply orb_false_iff in H3. destruct H3 as [G1 G2].
  rewrite has_guard_app, (has_guard_rep k b G1), G2. auto.
Qed.

Lemma unroll_cons : forall k s t, unroll k (s :: t) = unroll_seg k s ++ unroll k t.
Proof. reflexivity. Qed.

Lemma flat_unroll_seg : forall k s, flat (unroll_seg 1 s) = true -> flat (unroll_seg k s) = true.
Proof.
  intros k [l | h b]; simpl; auto. rewrite app_nil_r. apply flat_rep.
Qed.

Lemma has_guard_unroll : forall k segs, has_guard (unroll k segs) = true -> has_guard (unroll 2 segs) = true.
Proof.
  induction segs as [|s t IH]; intros H; auto.
  rewrite unroll_cons, has_guard_app in *. apply orb_true_iff in H. apply orb_true_iff. destruct H as [H|H]; auto.
  left. destruct s as [l | h b]; simpl in *; auto.
  apply has_guard_rep_inv in H. rewrite has_guard_app, H. auto.
Qed.

Lemma has_mut_unroll_seg : forall k s, has_mut (unroll_seg k s) = true -> has_mut (unroll_seg 2 s) = true.
Proof.
  intros k [l | h b]; simpl; auto. intros H. apply has_mut_rep in H. rewrite has_mut_app, H. auto.
Qed.

Lemma checks_first_unroll_flat : forall segs k,
    flat (unroll 1 segs) = true -> checks_first (unroll 2 segs) = true -> checks_first (unroll k segs) = true.
Proof.
  induction segs as [|s t IH]; intros k Hf H; auto.
  rewrite unroll_cons in *. rewrite flat_app in Hf. apply andb_true_iff in Hf. destruct Hf as [Hfs Hft].
  rewrite checks_first_app in H by (apply flat_unroll_seg; auto).
  apply andb_true_iff in H. destruct H as [H H3]. apply andb_true_iff in H. destruct H as [Hs Ht].
  rewrite checks_first_app by (apply flat_unroll_seg; auto).
  rewrite (IH k Hft Ht).
  assert (Hsk : checks_first (unroll_seg k s) = true).
  { destruct s as [l | h b]; simpl in *; auto.
    rewrite app_nil_r in Hfs.
    rewrite <- (app_nil_r (rep k b)). apply checks_first_rep; auto. }
  rewrite Hsk. simpl.
  destruct (has_mut (unroll_seg k s)) eqn:M; auto. simpl.
  rewrite (has_mut_unroll_seg k s M) in H3. simpl in H3.
  destruct (has_guard (unroll k t)) eqn:G; auto.
  rewrite (has_guard_unroll k t G) in H3. discriminate.
Qed.

Lemma unroll_no_loops : forall segs k k', existsb is_loop segs = false -> unroll k segs = unroll k' segs.
Proof.
  induction segs as [|s t IH]; intros k k' H; auto.
  simpl in H. apply orb_false_iff in H. destruct H as [Hs Ht].
  rewrite !unroll_cons, (IH k k' Ht). destruct s; simpl in *; try discriminate; auto.
Qed.

(* the order property decided on the 2-fold unrolling holds for every number of iterations of every loop *)
Theorem checks_first_unroll : forall segs k,
    loops_ok segs = true -> checks_first (unroll 2 segs) = true -> checks_first (unroll k segs) = true.
Proof.
  intros segs k Hl H. unfold loops_ok in Hl. apply orb_true_iff in Hl. destruct Hl as [Hl | Hl].
  - apply negb_true_iff in Hl. rewrite (unroll_no_loops segs k 2); auto.
  - apply checks_first_unroll_flat; auto.
Qed.

(* ---------------------------------------------------------------- the statement used for the generated lists *)
Definition call_checks_first (segs : list segment) : bool := loops_ok segs && checks_first (unroll 2 segs).

Theorem rejected_call_unchanged :
  forall (segs : list segment), call_checks_first segs = true ->
  forall (St : Type) (apply : string -> St -> St) (k : nat) (o : oracle St) (s : St),
    (rejected (run_call St apply o (unroll k segs) s) = true ->
       state (run_call St apply o (unroll k segs) s) = s /\ log (run_call St apply o (unroll k segs) s) <> []) /\
    (rejected (run_call St apply o (unroll k segs) s) = false ->
       state (run_call St apply o (unroll k segs) s) = exec_all St apply o (unroll k segs) 0 s).
Proof.
  intros segs H St apply k o s. unfold call_checks_first in H. apply andb_true_iff in H. destruct H as [Hl Hc].
  pose proof (checks_first_unroll segs k Hl Hc) as Hk.
  destruct (checks_first_sound St apply (unroll k segs) o s Hk) as [A [B _]].
  split; auto. intros R. apply B; auto.
Qed.

(* ---------------------------------------------------------------- before setup() *)
Definition harmless_before_setup (e : event) : Prop := exists w, e = Pure w /\ mentions_state w = false.

(* reading of the decision procedure: the list is  pre ++ [set-up guard leaving the call] ++ rest  and pre only
   contains Pure statements that do not mention solver state *)
Lemma setup_checked_first_spec : forall l,
    setup_checked_first l = true ->
    exists pre id cond reps gm rest,
      l = pre ++ Guard id "setup" cond None reps gm :: rest /\ Forall harmless_before_setup pre.
Proof.
  induction l as [|e r IH]; simpl; intros H; try discriminate.
  destruct e as [id a c ret reps gm | w | w]; try discriminate.
  - destruct ret; try discriminate. apply String.eqb_eq in H. subst a.
    exists [], id, c, reps, gm, r. split; auto.
  - apply andb_true_iff in H. destruct H as [Hw Hr]. apply negb_true_iff in Hw.
    destruct (IH Hr) as (pre & id & c & reps & gm & rest & E & F).
    exists (Pure w :: pre), id, c, reps, gm, rest. split.
    + simpl. rewrite E. reflexivity.
    + constructor; [exists w; split; [reflexivity | exact Hw] | exact F].
Qed.

