(* ResidLemmas.v -- helper library for ResidProofs.v:
   order facts on Qc for the boolean comparisons of Base.v, finite sums [sum n f], tabulated vectors
   [tab n f] and denotation lemmas turning every vector operation of Base.v into a [tab]. *)
From PIQP Require Import Base.
From Coq Require Import Lqa.
Local Open Scope Qc_scope.

Lemma Qc_eq_sub (a b : Qc) : a + - b = 0 -> a = b.
Proof. intros H. rewrite <- (Qcplus_0_r b), <- H. ring. Qed.
(* [ring]/[field] look up the structure by the inferred type of the left-hand side, which may be the alias [F] *)
Ltac fring := unfold F in *; apply Qc_eq_sub; ring.
Ltac ffield := unfold F in *; apply Qc_eq_sub; field.

(* ------------------------------------------------------------------ *)
(* Qc order                                                            *)
(* ------------------------------------------------------------------ *)
Lemma this_plus (a b : Qc) : (this (a + b) == this a + this b)%Q.
Proof. change (this (a + b)) with (Qred (this a + this b)). apply Qred_correct. Qed.
Lemma this_mult (a b : Qc) : (this (a * b) == this a * this b)%Q.
Proof. change (this (a * b)) with (Qred (this a * this b)). apply Qred_correct. Qed.
Lemma this_opp (a : Qc) : (this (- a) == - this a)%Q.
Proof. change (this (- a)) with (Qred (- this a)). apply Qred_correct. Qed.
Lemma this_0 : (this 0 == 0)%Q.
Proof. reflexivity. Qed.
Lemma this_1 : (this 1 == 1)%Q.
Proof. reflexivity. Qed.

Lemma qltb_lt a b : qltb a b = true <-> a < b.
Proof.
  unfold qltb, Qclt. rewrite negb_true_iff. split.
  - intros H. apply Qnot_le_lt. intro Hle. apply Qle_bool_iff in Hle. congruence.
  - intros H. destruct (Qle_bool (this b) (this a)) eqn:E; auto.
    apply Qle_bool_iff in E. exfalso. exact (Qlt_not_le _ _ H E).
Qed.
Lemma qltb_ge a b : qltb a b = false <-> b <= a.
Proof.
  unfold qltb, Qcle. rewrite negb_false_iff. apply Qle_bool_iff.
Qed.

Lemma Qcopp_lt_compat' p q : p < q -> - q < - p.
Proof. unfold Qclt. rewrite !this_opp. intros; lra. Qed.
Lemma Qcle_0_opp a : a <= 0 -> 0 <= - a.
Proof. unfold Qcle. rewrite this_opp, this_0. intros; lra. Qed.
Lemma Qclt_0_opp a : a < 0 -> 0 < - a.
Proof. unfold Qclt. rewrite this_opp, this_0. intros; lra. Qed.

Lemma qmax_l a b : a <= qmax a b.
Proof. unfold qmax. destruct (qltb a b) eqn:E. apply Qclt_le_weak, qltb_lt, E. apply Qcle_refl. Qed.
Lemma qmax_r a b : b <= qmax a b.
Proof. unfold qmax. destruct (qltb a b) eqn:E. apply Qcle_refl. apply qltb_ge, E. Qed.
Lemma qmax_cases a b : qmax a b = a \/ qmax a b = b.
Proof. unfold qmax. destruct (qltb a b); auto. Qed.
Lemma qmax_lt a b t : qmax a b < t <-> a < t /\ b < t.
Proof.
  split.
  - intros H; split; (eapply Qcle_lt_trans; [|apply H]); [apply qmax_l | apply qmax_r].
  - intros [Ha Hb]. destruct (qmax_cases a b) as [-> | ->]; auto.
Qed.
Lemma qmax_le a b t : qmax a b <= t <-> a <= t /\ b <= t.
Proof.
  split.
  - intros H; split; (eapply Qcle_trans; [|apply H]); [apply qmax_l | apply qmax_r].
  - intros [Ha Hb]. destruct (qmax_cases a b) as [-> | ->]; auto.
Qed.

Lemma qabs_cases a : (0 <= a /\ qabs a = a) \/ (a < 0 /\ qabs a = - a).
Proof. unfold qabs. destruct (qltb a 0) eqn:E; [right | left]; split; auto. apply qltb_lt, E. apply qltb_ge, E. Qed.
Lemma qabs_nonneg a : 0 <= qabs a.
Proof. destruct (qabs_cases a) as [[H ->] | [H ->]]; auto. apply Qclt_le_weak, Qclt_0_opp, H. Qed.
Lemma qabs_lt a t : qabs a < t <-> - t < a /\ a < t.
Proof.
  destruct (qabs_cases a) as [[H ->] | [H ->]]; revert H; unfold Qclt, Qcle; rewrite ?this_opp, ?this_0; intros; split; intros; try split; try tauto; lra.
Qed.
Lemma qabs_le a t : qabs a <= t <-> - t <= a /\ a <= t.
Proof.
  destruct (qabs_cases a) as [[H ->] | [H ->]]; revert H; unfold Qclt, Qcle; rewrite ?this_opp, ?this_0; intros; split; intros; try split; try tauto; lra.
Qed.
Lemma qabs_opp a : qabs (- a) = qabs a.
Proof.
  apply Qcle_antisym; apply qabs_le.
  - pose proof (proj1 (qabs_le a (qabs a)) (Qcle_refl _)) as [H1 H2].
    revert H1 H2. unfold Qcle. rewrite ?this_opp. intros; split; lra.
  - pose proof (proj1 (qabs_le (- a) (qabs (- a))) (Qcle_refl _)) as [H1 H2].
    revert H1 H2. unfold Qcle. rewrite ?this_opp. intros; split; lra.
Qed.
Lemma qabs_self_le a : a <= qabs a /\ - a <= qabs a.
Proof.
  pose proof (proj1 (qabs_le a (qabs a)) (Qcle_refl _)) as [H1 H2]. split; auto.
  revert H1. unfold Qcle. rewrite ?this_opp. intros; lra.
Qed.

Lemma Qcmult_pos_pos a b : 0 < a -> 0 < b -> 0 < a * b.
Proof. unfold Qclt. rewrite this_mult, this_0. intros. apply Qmult_lt_0_compat; auto. Qed.
Lemma Qcmult_pos_nonneg a b : 0 < a -> (0 <= a * b <-> 0 <= b).
Proof.
  intros Ha. split; intros H.
  - apply (Qcmult_lt_0_le_reg_r _ _ a Ha). rewrite Qcmult_0_l, Qcmult_comm. exact H.
  - rewrite (Qcmult_comm a b). pose proof (Qcmult_le_compat_r 0 b a H (Qclt_le_weak _ _ Ha)) as X.
    rewrite Qcmult_0_l in X. exact X.
Qed.
Lemma Qcmult_pos_pos_iff a b : 0 < a -> (0 < a * b <-> 0 < b).
Proof.
  intros Ha. split; intros H.
  - apply Qcnot_le_lt. intro Hb. apply (Qclt_not_le _ _ H).
    rewrite (Qcmult_comm a b). pose proof (Qcmult_le_compat_r b 0 a Hb (Qclt_le_weak _ _ Ha)) as X.
    rewrite Qcmult_0_l in X. exact X.
  - apply Qcmult_pos_pos; auto.
Qed.
Lemma Qc_inv_pos a b : 0 < a -> a * b = 1 -> 0 < b.
Proof.
  intros Ha Hab. apply (Qcmult_pos_pos_iff a b Ha). rewrite Hab. reflexivity.
Qed.
Lemma Qc_prod1_neq0 a b : a * b = 1 -> a <> 0.
Proof. intros H E. rewrite E, Qcmult_0_l in H. discriminate. Qed.
Lemma Qc_prod1_inv a b : a * b = 1 -> b = / a.
Proof. intros H. pose proof (Qc_prod1_neq0 _ _ H). rewrite <- (Qcmult_1_l (/ a)), <- H. ffield. auto. Qed.

Lemma qabs_mult_pos c a : 0 <= c -> qabs (c * a) = c * qabs a.
Proof.
  intros Hc. destruct (Qcle_lt_or_eq _ _ Hc) as [Hc' | <-].
  2:{ rewrite !Qcmult_0_l. destruct (qabs_cases 0) as [[_ ->]|[_ ->]]; reflexivity. }
  destruct (qabs_cases a) as [[H ->] | [H ->]].
  - destruct (qabs_cases (c * a)) as [[H' ->] | [H' ->]]; auto.
    exfalso. apply (Qclt_not_le _ _ H'). apply Qcmult_pos_nonneg; auto.
  - destruct (qabs_cases (c * a)) as [[H' ->] | [H' ->]]; [|fring].
    exfalso. apply (Qclt_not_le _ _ H). apply (Qcmult_pos_nonneg c a Hc'); auto.
Qed.

(* ------------------------------------------------------------------ *)
(* finite sums                                                          *)
(* ------------------------------------------------------------------ *)
Fixpoint sum (n : nat) (f : nat -> F) : F :=
  match n with O => 0 | S k => sum k f + f k end.

Lemma sum_ext n f g : (forall i, (i < n)%nat -> f i = g i) -> sum n f = sum n g.
Proof. induction n; simpl; intros H; auto. rewrite IHn, H; auto. Qed.
Lemma sum_scale n c f : c * sum n f = sum n (fun i => c * f i).
Proof. induction n; simpl. fring. rewrite <- IHn. fring. Qed.
Lemma sum_scale_r n c f : sum n f * c = sum n (fun i => f i * c).
Proof. induction n; simpl. fring. rewrite <- IHn. fring. Qed.
Lemma sum_add n f g : sum n f + sum n g = sum n (fun i => f i + g i).
Proof. induction n; simpl. fring. rewrite <- IHn. fring. Qed.
Lemma sum_opp n f : - sum n f = sum n (fun i => - f i).
Proof. induction n; simpl. fring. rewrite <- IHn. fring. Qed.
Lemma sum_zero n : sum n (fun _ => 0) = 0.
Proof. induction n; simpl; auto. rewrite IHn. fring. Qed.
Lemma sum_shift n f : sum (S n) f = f O + sum n (fun k => f (S k)).
Proof. induction n. simpl; fring. change (sum (S (S n)) f) with (sum (S n) f + f (S n)). rewrite IHn. simpl. fring. Qed.

(* ------------------------------------------------------------------ *)
(* tabulated vectors                                                    *)
(* ------------------------------------------------------------------ *)
Definition tab (n : nat) (f : nat -> F) : Vec := map f (seq 0 n).
Definition el (v : Vec) (i : nat) : F := nth i v 0.

Lemma tab_length n f : length (tab n f) = n.
Proof. unfold tab. rewrite map_length, seq_length. auto. Qed.
Lemma nth_tab n f i : (i < n)%nat -> nth i (tab n f) 0 = f i.
Proof.
  intros H. unfold tab. rewrite (nth_indep _ 0 (f O)) by (rewrite map_length, seq_length; auto).
  rewrite map_nth, seq_nth; auto.
Qed.
Lemma el_tab n f i : (i < n)%nat -> el (tab n f) i = f i.
Proof. apply nth_tab. Qed.
Lemma tab_ext n f g : (forall i, (i < n)%nat -> f i = g i) -> tab n f = tab n g.
Proof. intros H. unfold tab. apply map_ext_in. intros i Hi. apply in_seq in Hi. apply H. lia. Qed.
Lemma list_eq_tab (v : Vec) n f : length v = n -> (forall i, (i < n)%nat -> nth i v 0 = f i) -> v = tab n f.
Proof.
  intros L H. subst n. apply (nth_ext _ _ 0 0). rewrite tab_length; auto.
  intros i Hi. rewrite nth_tab by exact Hi. apply H. exact Hi.
Qed.
Lemma vec_tab (v : Vec) : v = tab (length v) (el v).
Proof. apply list_eq_tab; auto. Qed.
Lemma vec_tab' (v : Vec) n : length v = n -> v = tab n (el v).
Proof. intros <-. apply vec_tab. Qed.
Lemma tab_S n f : tab (S n) f = f O :: tab n (fun i => f (S i)).
Proof. unfold tab. simpl. f_equal. rewrite <- seq_shift, map_map. auto. Qed.
Lemma tab_S_r n f : tab (S n) f = tab n f ++ [f n].
Proof. unfold tab. rewrite seq_S, map_app. auto. Qed.
Lemma tab_0 f : tab 0 f = [].
Proof. reflexivity. Qed.
Lemma repeat_tab n k : repeat k n = tab n (fun _ => k).
Proof. induction n; auto. rewrite tab_S. simpl. f_equal. auto. Qed.
Lemma tab_in n f a : In a (tab n f) <-> exists i, (i < n)%nat /\ a = f i.
Proof.
  unfold tab. rewrite in_map_iff. split.
  - intros [i [E Hi]]. apply in_seq in Hi. exists i. split; auto; lia.
  - intros [i [Hi E]]. exists i. split; auto. apply in_seq. lia.
Qed.

Lemma map_nth_seq {A B} (l : list A) (dflt : A) (g : A -> B) :
  map g l = map (fun k => g (nth k l dflt)) (seq 0 (length l)).
Proof.
  induction l using rev_ind; auto.
  rewrite app_length; simpl. rewrite Nat.add_1_r, seq_S, !map_app; simpl.
  rewrite app_nth2, Nat.sub_diag by lia. simpl. f_equal.
  rewrite IHl. apply map_ext_in. intros k Hk. apply in_seq in Hk. rewrite app_nth1 by lia. auto.
Qed.

Lemma vmap2_tab op n f g : vmap2 op (tab n f) (tab n g) = tab n (fun i => op (f i) (g i)).
Proof.
  revert f g. induction n; intros; auto.
  rewrite !tab_S. unfold vmap2 in *. simpl. f_equal. apply IHn.
Qed.
Lemma vadd_tab n f g : vadd (tab n f) (tab n g) = tab n (fun i => f i + g i).
Proof. apply vmap2_tab. Qed.
Lemma vsub_tab n f g : vsub (tab n f) (tab n g) = tab n (fun i => f i - g i).
Proof. apply vmap2_tab. Qed.
Lemma vmul_tab n f g : vmul (tab n f) (tab n g) = tab n (fun i => f i * g i).
Proof. apply vmap2_tab. Qed.
Lemma vscale_tab n k f : vscale k (tab n f) = tab n (fun i => k * f i).
Proof. unfold vscale, tab. rewrite map_map. auto. Qed.
Lemma vneg_tab n f : vneg (tab n f) = tab n (fun i => - f i).
Proof. unfold vneg, tab. rewrite map_map. auto. Qed.

Lemma fold_plus_acc (l : Vec) a : fold_left Qcplus l a = a + fold_left Qcplus l 0.
Proof.
  revert a. induction l; intros; simpl. fring.
  rewrite IHl, (IHl (0 + a)). fring.
Qed.
Lemma vsum_tab n f : vsum (tab n f) = sum n f.
Proof.
  induction n; auto. rewrite tab_S_r. unfold vsum in *. rewrite fold_left_app. unfold F in *. rewrite IHn. reflexivity.
Qed.
Lemma dot_tab n f g : dot (tab n f) (tab n g) = sum n (fun i => f i * g i).
Proof. unfold dot. rewrite vmul_tab, vsum_tab. auto. Qed.

(* head / segment / tail *)
Lemma nth_firstn_lt {A} (l : list A) k i d : (i < k)%nat -> nth i (firstn k l) d = nth i l d.
Proof. revert k i. induction l; intros [|k] [|i] H; simpl; auto; try lia. apply IHl. lia. Qed.
Lemma nth_skipn_add {A} (l : list A) s i d : nth i (skipn s l) d = nth (s + i) l d.
Proof. revert l. induction s; intros [|a l]; simpl; auto. destruct i; auto. Qed.
Lemma head_tab k (v : Vec) : (k <= length v)%nat -> head k v = tab k (el v).
Proof.
  intros H. apply list_eq_tab. unfold head. rewrite firstn_length. lia.
  intros i Hi. unfold head. apply nth_firstn_lt; auto.
Qed.
Lemma segment_tab s k (v : Vec) : (s + k <= length v)%nat -> segment s k v = tab k (fun i => el v (s + i)).
Proof.
  intros H. apply list_eq_tab. unfold segment. rewrite firstn_length, skipn_length. lia.
  intros i Hi. unfold segment. rewrite nth_firstn_lt by auto. apply nth_skipn_add.
Qed.
Lemma tail_from_tab s k (v : Vec) : length v = (s + k)%nat -> tail_from s v = tab k (fun i => el v (s + i)).
Proof.
  intros H. apply list_eq_tab. unfold tail_from. rewrite skipn_length. lia.
  intros i Hi. unfold tail_from. apply nth_skipn_add.
Qed.

(* ------------------------------------------------------------------ *)
(* matrices                                                             *)
(* ------------------------------------------------------------------ *)
Definition mat_shape (r c : nat) (M : Mat) : Prop := length M = c /\ Forall (fun col => length col = r) M.

Lemma vaxpy_tab r a k (c : Vec) : length c = r -> vadd (tab r a) (vscale k c) = tab r (fun i => a i + k * el c i).
Proof.
  intros H. pattern c at 1. rewrite (vec_tab' c r H). rewrite vscale_tab, vadd_tab. reflexivity.
Qed.
Lemma mat_vec_acc r (M : Mat) : forall (xs : Vec) a,
  Forall (fun col => length col = r) M -> length xs = length M ->
  fold_left (fun acc cx => vadd acc (vscale (snd cx) (fst cx))) (combine M xs) (tab r a)
  = tab r (fun i => a i + sum (length M) (fun j => mentry M i j * el xs j)).
Proof.
  induction M as [|c0 M IH]; intros xs a HF HL.
  - simpl. apply tab_ext. intros; fring.
  - destruct xs as [|x0 xs]; [discriminate|]. inversion HF as [|? ? Hc HF']; subst. simpl in HL.
    cbn [combine fold_left fst snd].
    rewrite vaxpy_tab by reflexivity. rewrite IH by (auto; lia).
    apply tab_ext. intros i Hi. cbn [length]. rewrite sum_shift. unfold mentry, el. cbn [nth]. fring.
Qed.
Lemma mat_vec_tab r c (M : Mat) (xs : Vec) : mat_shape r c M -> length xs = c ->
  mat_vec r M xs = tab r (fun i => sum c (fun j => mentry M i j * el xs j)).
Proof.
  intros [HL HF] Hx. unfold mat_vec, vconst. rewrite repeat_tab, mat_vec_acc by (auto; lia).
  subst c. apply tab_ext. intros; fring.
Qed.
Lemma matT_vec_tab r c (M : Mat) (xs : Vec) : mat_shape r c M -> length xs = r ->
  matT_vec M xs = tab c (fun k => sum r (fun i => mentry M i k * el xs i)).
Proof.
  intros [HL HF] Hx. unfold matT_vec. rewrite (map_nth_seq M [] (fun col => dot col xs)), HL.
  apply map_ext_in. intros k Hk. apply in_seq in Hk.
  assert (Hc : length (nth k M []) = r).
  { rewrite Forall_forall in HF. apply HF. apply nth_In. lia. }
  rewrite (vec_tab' (nth k M []) r Hc), (vec_tab' xs r Hx), dot_tab.
  apply sum_ext. intros i Hi. rewrite !el_tab by auto. reflexivity.
Qed.

Lemma fold_cond_sum (c : nat -> bool) (g : nat -> F) n a :
  fold_left (fun acc j => if c j then acc + g j else acc) (seq 0 n) a = a + sum n (fun j => if c j then g j else 0).
Proof.
  induction n. simpl; fring.
  rewrite seq_S, fold_left_app, IHn. simpl. destruct (c n); fring.
Qed.

(* ------------------------------------------------------------------ *)
(* get / upd / gather / scatter                                         *)
(* ------------------------------------------------------------------ *)
Lemma get_ok (v : Vec) i : (i < length v)%nat -> get v i = Ok (el v i).
Proof.
  intros H. unfold get, el. destruct (nth_error v i) eqn:E.
  - rewrite (nth_error_nth _ _ _ E). auto.
  - apply nth_error_None in E. lia.
Qed.
Lemma upd_ok (v : Vec) : forall i a, (i < length v)%nat ->
  exists v', upd v i a = Ok v' /\ length v' = length v /\ forall j, el v' j = if Nat.eqb j i then a else el v j.
Proof.
  induction v as [|b v IH]; intros i a H; simpl in H; [lia|].
  destruct i.
  - exists (a :: v). simpl. repeat split; auto. intros [|j]; auto.
  - destruct (IH i a ltac:(lia)) as [v' [E [L N]]]. exists (b :: v'). simpl. rewrite E. simpl.
    repeat split; auto. intros [|j]; auto. apply N.
Qed.

Lemma gather_tab (v : Vec) (idx : list nat) : Forall (fun i => (i < length v)%nat) idx ->
  gather v idx = Ok (tab (length idx) (fun k => el v (nth k idx O))).
Proof.
  induction idx as [|i idx IH]; intros H; auto.
  inversion H; subst. unfold gather in *. simpl. rewrite get_ok by auto. simpl. rewrite IH by auto. simpl.
  rewrite tab_S. reflexivity.
Qed.

Lemma scatter_tab (g : F -> F) (f : F -> F -> F) (Hf : forall a b, f a b = a + g b) n :
  forall (idx : list nat) (w : Vec) a,
  Forall (fun i => (i < n)%nat) idx -> (length idx <= length w)%nat ->
  scatter_with f (tab n a) idx w
  = Ok (tab n (fun i => a i + sum (length idx) (fun k => if Nat.eqb (nth k idx O) i then g (el w k) else 0))).
Proof.
  induction idx as [|i0 idx IH]; intros w a HF HL.
  - simpl. f_equal. apply tab_ext. intros; fring.
  - destruct w as [|x0 w]; [simpl in HL; lia|]. inversion HF; subst. simpl in HL.
    cbn [length]. 
    assert (Hr : forall i, sum (S (length idx)) (fun k => if Nat.eqb (nth k (i0 :: idx) O) i then g (el (x0 :: w) k) else 0)
                 = (if Nat.eqb i0 i then g x0 else 0) + sum (length idx) (fun k => if Nat.eqb (nth k idx O) i then g (el w k) else 0)).
    { intros i. rewrite sum_shift. reflexivity. }
    rewrite (tab_ext n _ _ (fun i _ => f_equal (Qcplus (a i)) (Hr i))). clear Hr.
    cbn [scatter_with]. rewrite get_ok by (rewrite tab_length; auto). cbn [bind].
    destruct (upd_ok (tab n a) i0 (f (el (tab n a) i0) x0)) as [v' [E [L N]]]. rewrite tab_length; auto.
    rewrite E. cbn [bind].
    assert (Hv' : v' = tab n (fun i => if Nat.eqb i i0 then a i0 + g x0 else a i)).
    { apply list_eq_tab. rewrite L, tab_length; auto. intros i Hi. fold (el v' i). rewrite N.
      rewrite Hf, !el_tab by auto. reflexivity. }
    rewrite Hv', IH by (auto; lia). f_equal. apply tab_ext. intros i Hi.
    rewrite (Nat.eqb_sym i i0). destruct (Nat.eqb_spec i0 i); subst; fring.
Qed.

(* ------------------------------------------------------------------ *)
(* the max-norm                                                         *)
(* ------------------------------------------------------------------ *)
Lemma norm_acc_spec (l : Vec) : forall a,
  let r := fold_left (fun acc x => qmax acc (qabs x)) l a in
  a <= r /\ (forall x, In x l -> qabs x <= r) /\ (r = a \/ exists x, In x l /\ r = qabs x).
Proof.
  induction l as [|y l IH]; intros a; simpl.
  - repeat split. apply Qcle_refl. intros x []. auto.
  - destruct (IH (qmax a (qabs y))) as [H1 [H2 H3]]. repeat split.
    + eapply Qcle_trans; [apply qmax_l | apply H1].
    + intros x [<- | Hx]. eapply Qcle_trans; [apply qmax_r | apply H1]. apply H2; auto.
    + destruct H3 as [H3 | [x [Hx H3]]].
      * destruct (qmax_cases a (qabs y)) as [E | E]; [left; rewrite H3; exact E|].
        right. exists y. split; [left; reflexivity | rewrite H3; exact E].
      * right. exists x. split; [right; exact Hx | exact H3].
Qed.
Lemma norm_inf_nonneg v : 0 <= norm_inf v.
Proof. apply (norm_acc_spec v 0). Qed.
Lemma norm_inf_ge v x : In x v -> qabs x <= norm_inf v.
Proof. apply (norm_acc_spec v 0). Qed.
Lemma norm_inf_attained v : v <> [] -> exists x, In x v /\ norm_inf v = qabs x.
Proof.
  intros Hv. destruct (norm_acc_spec v 0) as [_ [H2 [H3 | H3]]]; auto.
  destruct v as [|y v]; [congruence|]. exists y. split. left; auto.
  apply Qcle_antisym. unfold norm_inf. rewrite H3. apply qabs_nonneg. apply H2. left; auto.
Qed.
Lemma norm_inf_nil : norm_inf [] = 0.
Proof. reflexivity. Qed.
Lemma norm_inf_lt v t : norm_inf v < t <-> 0 < t /\ forall x, In x v -> qabs x < t.
Proof.
  split.
  - intros H. split. eapply Qcle_lt_trans; [apply norm_inf_nonneg | apply H].
    intros x Hx. eapply Qcle_lt_trans; [apply norm_inf_ge, Hx | apply H].
  - intros [Ht H]. destruct v as [|y v]. exact Ht.
    destruct (norm_inf_attained (y :: v)) as [x [Hx ->]]. discriminate. auto.
Qed.
Lemma norm_inf_le v t : norm_inf v <= t <-> 0 <= t /\ forall x, In x v -> qabs x <= t.
Proof.
  split.
  - intros H. split. eapply Qcle_trans; [apply norm_inf_nonneg | apply H].
    intros x Hx. eapply Qcle_trans; [apply norm_inf_ge, Hx | apply H].
  - intros [Ht H]. destruct v as [|y v]. exact Ht.
    destruct (norm_inf_attained (y :: v)) as [x [Hx ->]]. discriminate. auto.
Qed.
Lemma norm_inf_tab_lt n f t : norm_inf (tab n f) < t <-> 0 < t /\ forall i, (i < n)%nat -> qabs (f i) < t.
Proof.
  rewrite norm_inf_lt. split; intros [Ht H]; split; auto.
  - intros i Hi. apply H. apply tab_in. eauto.
  - intros x Hx. apply tab_in in Hx. destruct Hx as [i [Hi ->]]. auto.
Qed.
Lemma norm_inf_ext_abs (v w : Vec) : map qabs v = map qabs w -> norm_inf v = norm_inf w.
Proof.
  unfold norm_inf. generalize 0. revert w. induction v as [|a v IH]; intros [|b w] q H; try discriminate; auto.
  simpl in *. injection H as H1 H2. rewrite H1. apply IH; auto.
Qed.
Lemma norm_inf_tab_opp n f : norm_inf (tab n (fun i => - f i)) = norm_inf (tab n f).
Proof.
  apply norm_inf_ext_abs. unfold tab. rewrite !map_map. apply map_ext. intros. apply qabs_opp.
Qed.
