(* JunkDeltaProofs.v -- C07: the one place where never-written slots ARE read.
   DenseSolver::update -> KKT::update_data -> update_kkt loops over the NEW n_lb / n_ub; when the bound pattern has
   grown, the slots between the old and the new prefix of m_s_lb / m_z_lb_inv (m_s_ub / m_z_ub_inv) have never been
   written.  The matrix built from them is discarded (the next solve() rebuilds it after update_scalings), so the only
   way the junk can become observable is through the division  sc^2 / (zinv * s + delta)  itself.
   Here: the precise relation between the box arrays of two runs (common prefix, then junk-junk pairs), kept by every
   operation; and with delta > 0 the division cannot fail on a junk-junk pair, so update() succeeds in both runs or
   fails in both runs with the same error. *)
From PIQP Require Import Base Data Bounds PrecondDense KKTDense IPM API InteriorProofs IPMControlProofs PrecondProofs
                         JunkProofs JunkShapeProofs JunkAPIProofs JunkWFProofs JunkFrameProofs.
From Coq Require Import Lia.
From RecordUpdate Require Import RecordSet.
Import RecordSetNotations.
Local Open Scope Qc_scope.

(* a pair (s, zinv) of box arrays in two runs: a common written part, then t slots holding the junk of each run *)
Definition box_rel (j1 j2 : F) (s1 zi1 s2 zi2 : Vec) : Prop :=
  exists (cs cz : Vec) (t : nat), length cs = length cz /\
    s1 = cs ++ repeat j1 t /\ zi1 = cz ++ repeat j1 t /\ s2 = cs ++ repeat j2 t /\ zi2 = cz ++ repeat j2 t.

Definition KR (j1 j2 : F) (k1 k2 : KKT) : Prop :=
  box_rel j1 j2 (k_s_lb k1) (k_z_lb_inv k1) (k_s_lb k2) (k_z_lb_inv k2) /\
  box_rel j1 j2 (k_s_ub k1) (k_z_ub_inv k1) (k_s_ub k2) (k_z_ub_inv k2).

Lemma skipn_repeat {A} (x : A) t k : skipn k (repeat x t) = repeat x (t - k).
Proof.
  revert k. induction t as [|t IH]; intros k; [rewrite skipn_nil; reflexivity|].
  destruct k as [|k]; [reflexivity|]. cbn. apply IH.
Qed.

Lemma box_rel_lengths j1 j2 s1 zi1 s2 zi2 :
  box_rel j1 j2 s1 zi1 s2 zi2 -> length zi1 = length s1 /\ length s2 = length s1 /\ length zi2 = length s1.
Proof.
  intros (cs & cz & t & L & -> & -> & -> & ->). rewrite !app_length, !repeat_length. lia.
Qed.

(* the relation after both runs have overwritten (at most) the first n slots with the same values *)
Lemma box_rel_after j1 j2 n (s1 zi1 s2 zi2 s1' zi1' s2' zi2' : Vec) :
  box_rel j1 j2 s1 zi1 s2 zi2 -> (n <= length s1)%nat ->
  length s1' = length s1 /\ skipn n s1' = skipn n s1 ->
  length zi1' = length zi1 /\ skipn n zi1' = skipn n zi1 ->
  length s2' = length s2 /\ skipn n s2' = skipn n s2 ->
  length zi2' = length zi2 /\ skipn n zi2' = skipn n zi2 ->
  firstn n s1' = firstn n s2' -> firstn n zi1' = firstn n zi2' ->
  box_rel j1 j2 s1' zi1' s2' zi2'.
Proof.
  intros H Hn [L1 T1] [L2 T2] [L3 T3] [L4 T4] F1 F2.
  destruct (box_rel_lengths _ _ _ _ _ _ H) as (M2 & M3 & M4).
  destruct H as (cs & cz & t & L & -> & -> & -> & ->).
  exists (firstn n s1' ++ skipn n cs), (firstn n zi1' ++ skipn n cz), (t - (n - length cs))%nat.
  assert (E : forall (j : F) (c : Vec), skipn n (c ++ repeat j t) = skipn n c ++ repeat j (t - (n - length c)))
    by (intros; rewrite skipn_app, skipn_repeat; reflexivity).
  rewrite E in T1, T2, T3, T4.
  split.
  - rewrite !app_length, !firstn_length, !skipn_length. lia.
  - rewrite <- !app_assoc.
    split; [rewrite <- T1; symmetry; apply firstn_skipn|].
    split; [rewrite L, <- T2; symmetry; apply firstn_skipn|].
    split; [rewrite F1, <- T3; symmetry; apply firstn_skipn|].
    rewrite L, F2, <- T4; symmetry; apply firstn_skipn.
Qed.

(* ---- kkt_init ---- *)
Lemma kkt_init_KR d rho delta j1 j2 k1 k2 :
  kkt_init d rho delta j1 = Ok k1 -> kkt_init d rho delta j2 = Ok k2 -> KR j1 j2 k1 k2.
Proof.
  unfold kkt_init. intros E1 E2. apply update_kkt_fields in E1, E2.
  destruct E1 as (_ & _ & A1 & A2 & A3 & A4 & _). destruct E2 as (_ & _ & B1 & B2 & B3 & B4 & _).
  unfold KR. rewrite A1, A2, A3, A4, B1, B2, B3, B4. cbn. unfold vconst.
  split; eexists _, _, _; (split; [reflexivity|]); repeat split.
Qed.

Lemma kkt_init_lengths d rho delta j k :
  kkt_init d rho delta j = Ok k -> (d_nlb d <= d_n d)%nat -> (d_nub d <= d_n d)%nat ->
  length (k_s_lb k) = d_n d /\ length (k_z_lb_inv k) = d_n d /\ length (k_s_ub k) = d_n d /\ length (k_z_ub_inv k) = d_n d.
Proof.
  unfold kkt_init. intros E H1 H2. apply update_kkt_fields in E.
  destruct E as (_ & _ & A1 & A2 & A3 & A4 & _). rewrite A1, A2, A3, A4. cbn. unfold vconst.
  rewrite !app_length, !repeat_length. lia.
Qed.

(* ---- the division in box_diag on the box arrays of the two runs ---- *)
Section Status.
Variable delta : F.
Hypothesis Hdelta : 0 < delta.

Let f := fun t : F * F * F => qdiv (fst (fst t) * fst (fst t)) (snd (fst t) * snd t + delta).

Lemma junk_den_nonzero (j : F) : j * j + delta <> 0.
Proof. apply not_eq_sym, Qclt_not_eq. qnra. Qed.

Lemma mapM_junk_ok (j : F) : forall (sc : Vec) t,
  exists r, mapM f (combine (combine sc (repeat j t)) (repeat j t)) = Ok r /\ length r = Nat.min (length sc) t.
Proof.
  induction sc as [|x sc IH]; intros t; [exists []; split; reflexivity|].
  destruct t as [|t]; [exists []; split; reflexivity|].
  cbn [repeat combine mapM]. unfold f at 1. cbn [fst snd].
  rewrite (InteriorProofs.qdiv_ok _ _ (junk_den_nonzero j)). cbn [bind].
  destruct (IH t) as (r & -> & L). cbn [bind]. eexists; split; [reflexivity|]. cbn. rewrite L. reflexivity.
Qed.

Lemma mapM_box_status j1 j2 t : forall (cs cz sc : Vec), length cs = length cz ->
  RR (fun a b => length a = length b)
     (mapM f (combine (combine sc (cz ++ repeat j1 t)) (cs ++ repeat j1 t)))
     (mapM f (combine (combine sc (cz ++ repeat j2 t)) (cs ++ repeat j2 t))).
Proof.
  induction cs as [|a cs IH]; intros [|b cz] sc L; try discriminate L.
  - cbn [app]. destruct (mapM_junk_ok j1 sc t) as (r1 & -> & L1). destruct (mapM_junk_ok j2 sc t) as (r2 & -> & L2).
    cbn. congruence.
  - destruct sc as [|x sc]; [reflexivity|]. cbn [app combine mapM].
    destruct (f (x, b, a)) as [v|e]; cbn [bind]; [|reflexivity].
    specialize (IH cz sc ltac:(cbn in L; lia)).
    destruct (mapM f (combine (combine sc (cz ++ repeat j1 t)) (cs ++ repeat j1 t))) as [r1|e1];
      destruct (mapM f (combine (combine sc (cz ++ repeat j2 t)) (cs ++ repeat j2 t))) as [r2|e2];
      cbn in IH |- *; try contradiction; auto.
Qed.

Lemma get_status {A} (v1 v2 : list A) i : length v1 = length v2 ->
  (exists a b, get v1 i = Ok a /\ get v2 i = Ok b /\ (i < length v1)%nat) \/ (get v1 i = Err Index /\ get v2 i = Err Index).
Proof.
  intros L. unfold get. destruct (nth_error v1 i) as [a|] eqn:E1; destruct (nth_error v2 i) as [b|] eqn:E2.
  - left. exists a, b. repeat split. apply nth_error_Some. congruence.
  - exfalso. apply nth_error_None in E2. assert (nth_error v1 i <> None) by congruence. apply nth_error_Some in H. lia.
  - exfalso. apply nth_error_None in E1. assert (nth_error v2 i <> None) by congruence. apply nth_error_Some in H. lia.
  - right. split; reflexivity.
Qed.

Lemma scatter_with_status {A B} (g : A -> B -> A) idx : forall (v1 v2 : list A) (w1 w2 : list B),
  length v1 = length v2 -> length w1 = length w2 ->
  RR (fun a b => length a = length b) (scatter_with g v1 idx w1) (scatter_with g v2 idx w2).
Proof.
  induction idx as [|i it IH]; intros v1 v2 w1 w2 Lv Lw; [destruct w1, w2; cbn; exact Lv|].
  destruct w1 as [|x1 w1], w2 as [|x2 w2]; try discriminate Lw; [reflexivity|].
  cbn [scatter_with].
  destruct (get_status v1 v2 i Lv) as [(a & b & -> & -> & Hi)|[-> ->]]; [|reflexivity]. cbn [bind].
  destruct (PrecondProofs.upd_ok v1 i (g a x1) Hi) as (v1' & -> & L1).
  destruct (PrecondProofs.upd_ok v2 i (g b x2) ltac:(lia)) as (v2' & -> & L2). cbn [bind].
  apply IH; [congruence|cbn in Lw; lia].
Qed.

Lemma box_diag_status j1 j2 (diag1 diag2 : Vec) idx (sc s1 zi1 s2 zi2 : Vec) :
  box_rel j1 j2 s1 zi1 s2 zi2 -> length diag1 = length diag2 ->
  RR (fun a b => length a = length b) (box_diag delta diag1 idx sc zi1 s1) (box_diag delta diag2 idx sc zi2 s2).
Proof.
  intros (cs & cz & t & L & -> & -> & -> & ->) Ld. unfold box_diag.
  eapply RR_bind; [exact (mapM_box_status j1 j2 t cs cz sc L)|].
  intros r1 r2 Lr. apply scatter_with_status; assumption.
Qed.

End Status.

Lemma update_kkt_status d j1 j2 k1 k2 :
  kkt_pend k1 k2 -> KR j1 j2 k1 k2 -> 0 < k_delta k1 ->
  RR (fun _ _ => True) (update_kkt d k1) (update_kkt d k2).
Proof.
  intros (H1 & H2 & H3 & H4 & H5 & H6 & _) [Rlb Rub] Hd. unfold update_kkt.
  rewrite <- H1, <- H2, <- H3, <- H4, <- H5.
  repeat rr_step.
  eapply RR_bind.
  { apply (box_diag_status (k_delta k1) Hd j1 j2); [exact Rlb|reflexivity]. }
  intros bd1 bd2 Lb.
  eapply RR_bind.
  { apply (box_diag_status (k_delta k1) Hd j1 j2); [exact Rub|exact Lb]. }
  intros bd1' bd2' _. cbn. exact I.
Qed.

Lemma kkt_update_data_status d j1 j2 k1 k2 oP oA oG :
  kkt_pend k1 k2 -> KR j1 j2 k1 k2 -> 0 < k_delta k1 ->
  RR (fun _ _ => True) (kkt_update_data d k1 oP oA oG) (kkt_update_data d k2 oP oA oG).
Proof.
  intros Hp HR Hd. unfold kkt_update_data. destruct (oP || oA || oG); [|destruct (oA && _)%bool; cbn; exact I].
  destruct (oA && Nat.ltb 0 (d_p d))%bool; [|apply (update_kkt_status d j1 j2); assumption].
  apply (update_kkt_status d j1 j2); [|exact HR|exact Hd].
  destruct Hp as (H1 & H2 & H3 & H4 & H5 & H6 & B1 & B2 & B3 & B4). unfold kkt_pend. cbn. repeat split; assumption.
Qed.

Lemma kkt_update_data_arrays d k oP oA oG k' :
  kkt_update_data d k oP oA oG = Ok k' ->
  k_s_lb k' = k_s_lb k /\ k_z_lb_inv k' = k_z_lb_inv k /\ k_s_ub k' = k_s_ub k /\ k_z_ub_inv k' = k_z_ub_inv k /\
  k_delta k' = k_delta k.
Proof.
  unfold kkt_update_data. intros E.
  destruct (oP || oA || oG).
  - apply update_kkt_fields in E. destruct E as (_ & _ & A1 & A2 & A3 & A4 & _ & A5).
    rewrite A1, A2, A3, A4, A5. destruct (oA && _)%bool; cbn; auto.
  - injection E as <-. destruct (oA && _)%bool; cbn; auto.
Qed.

(* ================================================================================================ *)
(* the agreement of two solver objects, with the precise description of the junk in the box arrays *)
Definition klen (n : nat) (k : KKT) : Prop :=
  length (k_s_lb k) = n /\ length (k_z_lb_inv k) = n /\ length (k_s_ub k) = n /\ length (k_z_ub_inv k) = n.

Definition sv_agreeJ (j1 j2 : F) (a b : Solver) : Prop :=
  sv_agree a b /\ KR j1 j2 (sv_kkt a) (sv_kkt b) /\ klen (d_n (sv_data a)) (sv_kkt a).

Lemma sv_agreeJ_agree j1 j2 a b : sv_agreeJ j1 j2 a b -> sv_agree a b.
Proof. intros H; apply H. Qed.

Section StepsJ.
Variable K : Consts.
Variable sq : bool.          (* sparse_pc of API.v *)
Hypothesis SK : sane_consts K.

Theorem setup_agreeJ ident j1 j2 S n p m B :
  setup_blocks_ok n p m B ->
  RR (sv_agreeJ j1 j2) (setup K ident sq j1 S n p m B) (setup K ident sq j2 S n p m B).
Proof.
  intros HB. pose proof (setup_junk_indep K ident sq j1 j2 S n p m B) as H.
  destruct (setup K ident sq j1 S n p m B) as [a|] eqn:Ea; destruct (setup K ident sq j2 S n p m B) as [b|] eqn:Eb;
    cbn in H |- *; try contradiction; [|exact H].
  split; [apply sv_agree_strong_agree; exact H|].
  destruct (setup_wf K ident sq j1 S n p m B a SK HB Ea) as ((W & _) & _).
  pose proof (wf_nlb_le _ W) as N1. pose proof (wf_nub_le _ W) as N2.
  destruct H as [(_ & Ed & _) _].
  unfold setup in Ea, Eb. destruct (b_P B); [|discriminate]. destruct (b_c B); [|discriminate]. cbv zeta in Ea, Eb.
  repeat match type of Ea with context [match ?x with pair _ _ => _ end] => destruct x end.
  destruct (scale_data K _ _ _ _ _ _) as [[pc d]|]; cbn [bind] in Ea, Eb; [|discriminate].
  destruct (kkt_init d _ _ j1) as [k1|] eqn:E1; cbn [bind] in Ea; [|discriminate].
  destruct (kkt_init d _ _ j2) as [k2|] eqn:E2; cbn [bind] in Eb; [|discriminate].
  injection Ea as <-. injection Eb as <-. cbn in *.
  split; [eapply kkt_init_KR; eauto|]. apply (kkt_init_lengths _ _ _ _ _ E1 N1 N2).
Qed.

Theorem solve_agreeJ cp_bits fault j1 j2 n p m a b :
  sv_agreeJ j1 j2 a b -> WFd n p m a ->
  RR (fun x y => sv_agreeJ j1 j2 (fst x) (fst y) /\ snd x = snd y)
     (solve K j1 cp_bits fault a) (solve K j2 cp_bits fault b).
Proof.
  intros (HA & [Rlb Rub] & Hl) (HW & _).
  pose proof (solve_junk_indep K cp_bits fault j1 j2 a b HA (WFsv_SolveShape _ HW)) as H.
  destruct (solve K j1 cp_bits fault a) as [[a' s1]|] eqn:Ea; destruct (solve K j2 cp_bits fault b) as [[b' s2]|] eqn:Eb;
    cbn in H |- *; try contradiction; [|exact H].
  destruct H as [Hs Es]. cbn [fst snd] in Hs, Es. split; [|exact Es].
  split; [apply sv_agree_strong_agree; exact Hs|].
  destruct HW as (W & _). pose proof (wf_nlb_le _ W) as N1. pose proof (wf_nub_le _ W) as N2.
  destruct Hl as (L1 & L2 & L3 & L4).
  destruct (box_rel_lengths _ _ _ _ _ _ Rlb) as (M1 & M2 & M3). destruct (box_rel_lengths _ _ _ _ _ _ Rub) as (M4 & M5 & M6).
  pose proof HA as [(_ & Ed & _) _].
  assert (Ga : box_len_ge (d_nlb (sv_data a)) (d_nub (sv_data a)) (sv_kkt a)) by (unfold box_len_ge; unfold Vec, F in *; lia).
  assert (Gb : box_len_ge (d_nlb (sv_data b)) (d_nub (sv_data b)) (sv_kkt b)) by (unfold box_len_ge; rewrite <- Ed; unfold Vec, F in *; lia).
  destruct (solve_tail_kept K j1 cp_bits fault a a' s1 Ga Ea) as (Ta1 & Ta2 & Ta3 & Ta4).
  destruct (solve_tail_kept K j2 cp_bits fault b b' s2 Gb Eb) as (Tb1 & Tb2 & Tb3 & Tb4).
  rewrite <- Ed in Tb1, Tb2, Tb3, Tb4.
  destruct Hs as [(_ & Ed' & _) [(_ & _ & _ & _ & _ & _ & [_ F1] & [_ F2] & [_ F3] & [_ F4]) _]].
  assert (Eda : sv_data a' = sv_data a).
  { revert Ea. cbv delta [solve]. cbv beta zeta. intros Ea.
    repeat match type of Ea with
           | bind ?e _ = _ => destruct e as [?v|]; cbn [bind] in Ea; [|discriminate]
           | (let '(_, _) := ?p in _) = _ => destruct p
           | (if ?c then _ else _) = _ => destruct c
           end; injection Ea as <- _; reflexivity. }
  rewrite Eda in F1, F2, F3, F4.
  split; [split|].
  - apply (box_rel_after j1 j2 (d_nlb (sv_data a)) _ _ _ _ _ _ _ _ Rlb ltac:(unfold Vec, F in *; lia) Ta1 Ta2 Tb1 Tb2 F1 F2).
  - apply (box_rel_after j1 j2 (d_nub (sv_data a)) _ _ _ _ _ _ _ _ Rub ltac:(unfold Vec, F in *; lia) Ta3 Ta4 Tb3 Tb4 F3 F4).
  - rewrite Eda. unfold klen. destruct Ta1, Ta2, Ta3, Ta4. repeat split; congruence.
Qed.

Theorem update_agreeJ j1 j2 n p m a b B reuse :
  sv_agreeJ j1 j2 a b -> WFd n p m a -> update_blocks_ok n p m B -> 0 < k_delta (sv_kkt a) ->
  RR (sv_agreeJ j1 j2) (update K sq a B reuse) (update K sq b B reuse).
Proof.
  intros (HA & HR & Hl) HW HB Hd.
  pose proof (update_junk_indep_cond K sq a b B reuse HA
                (fun pc d _ => kkt_update_data_status d j1 j2 _ _ _ _ _ (sv_agree_pend _ _ HA) HR Hd)) as H.
  destruct (update K sq a B reuse) as [a'|] eqn:Ea; destruct (update K sq b B reuse) as [b'|] eqn:Eb;
    cbn in H |- *; try contradiction; [|exact H].
  split; [exact H|].
  destruct (update_wf K sq n p m a B reuse a' SK HW HB Ea) as (_ & Hn' & _). destruct HW as (_ & Hn & _).
  rewrite update_split in Ea, Eb.
  destruct (update_data K sq a B reuse) as [[pc1 d1]|]; cbn [bind] in Ea; [|discriminate].
  destruct (update_data K sq b B reuse) as [[pc2 d2]|]; cbn [bind] in Eb; [|discriminate].
  destruct (kkt_update_data d1 (sv_kkt a) _ _ _) as [k1|] eqn:E1; cbn [bind] in Ea; [|discriminate].
  destruct (kkt_update_data d2 (sv_kkt b) _ _ _) as [k2|] eqn:E2; cbn [bind] in Eb; [|discriminate].
  apply kkt_update_data_arrays in E1, E2.
  destruct E1 as (A1 & A2 & A3 & A4 & _). destruct E2 as (B1 & B2 & B3 & B4 & _).
  injection Ea as <-. injection Eb as <-. cbn in Hn' |- *.
  unfold KR, klen. rewrite A1, A2, A3, A4, B1, B2, B3, B4, Hn', <- Hn. split; [exact HR|exact Hl].
Qed.

End StepsJ.
