(* Base.v -- scalars, error monad, vectors and dense matrices of the executable model (L1).
   Stdlib only.  No proofs here beyond trivial computation helpers. *)
From Coq Require Export List ZArith QArith Qcanon Bool Lia.
Export ListNotations.
Local Open Scope Qc_scope.

Definition F := Qc.

(* ---------- error monad ---------- *)
Inductive err := DivZero | Index | Fuel | Shape.
Inductive res (A : Type) : Type := Ok (a : A) | Err (e : err).
Arguments Ok {A} a.
Arguments Err {A} e.

Definition bind {A B} (x : res A) (f : A -> res B) : res B :=
  match x with Ok a => f a | Err e => Err e end.
Notation "'do' x <- e ;; f" := (bind e (fun x => f)) (at level 200, x name, e at level 100, f at level 200).
Notation "'do' ' p <- e ;; f" := (bind e (fun p => f)) (at level 200, p pattern, e at level 100, f at level 200).

Fixpoint mapM {A B} (f : A -> res B) (l : list A) : res (list B) :=
  match l with
  | [] => Ok []
  | a :: t => do b <- f a ;; do r <- mapM f t ;; Ok (b :: r)
  end.

Fixpoint foldM {A S} (f : S -> A -> res S) (l : list A) (s : S) : res S :=
  match l with
  | [] => Ok s
  | a :: t => do s' <- f s a ;; foldM f t s'
  end.

(* ---------- scalars ---------- *)
Definition q0 : F := 0.
Definition q1 : F := 1.
Definition qleb (a b : F) : bool := Qle_bool (this a) (this b).
Definition qltb (a b : F) : bool := negb (Qle_bool (this b) (this a)).
Definition qeqb (a b : F) : bool := Qeq_bool (this a) (this b).
Definition qmax (a b : F) : F := if qltb a b then b else a.   (* std::max(a,b) = (a<b)?b:a *)
Definition qmin (a b : F) : F := if qltb b a then b else a.   (* std::min(a,b) = (b<a)?b:a *)
Definition qabs (a : F) : F := if qltb a 0 then - a else a.
Definition qdiv (a b : F) : res F := if qeqb b 0 then Err DivZero else Ok (a / b).
Definition qinv (b : F) : res F := qdiv 1 b.
Definition qofZ (z : Z) : F := Q2Qc (inject_Z z).
Definition qofnat (n : nat) : F := qofZ (Z.of_nat n).
Definition qmk (n : Z) (d : positive) : F := Q2Qc (n # d).

(* power-of-two square root: 2^floor(log4 x) for x>0, 0 for x=0; Err for x<0
   (the xrat scalar of the harness implements the same function) *)
Definition pow2Z (k : Z) : F :=
  match k with
  | Z0 => 1
  | Zpos p => qofZ (Z.pow 2 (Zpos p))
  | Zneg p => Q2Qc (1 # (Pos.pow 2 p))
  end.
Definition floor_log2 (x : F) : Z :=   (* for x > 0 *)
  let n := Qnum (this x) in let d := Zpos (Qden (this x)) in
  let e2 := (Z.log2 n + 1 - (Z.log2 d + 1))%Z in
  let l := if (0 <=? e2)%Z then (d * 2 ^ e2)%Z else d in
  let r := if (0 <=? e2)%Z then n else (n * 2 ^ (- e2))%Z in
  if (l >? r)%Z then (e2 - 1)%Z else e2.
Definition sqrtF (x : F) : res F :=
  if qeqb x 0 then Ok 0
  else if qltb x 0 then Err DivZero
  else Ok (pow2Z (Z.div (floor_log2 x) 2)).

(* checkpoint rounding (hook H2): truncation towards -infinity to [k] significant bits, a function of the value only.
   k = 0 switches it off.  The xrat scalar of the harness implements the same function. *)
Definition round_cp (k : Z) (q : F) : F :=
  if (k <=? 0)%Z then q else
  let n := Qnum (this q) in let d := Zpos (Qden (this q)) in
  if (n =? 0)%Z then q else
  let e := (k - (Z.log2 (Z.abs n) - Z.log2 d))%Z in
  let r := if (0 <=? e)%Z then Z.div (Z.shiftl n e) d else Z.div n (Z.shiftl d (- e)) in
  qofZ r * pow2Z (- e).

(* ---------- vectors ---------- *)
Definition Vec := list F.

Definition get {A} (v : list A) (i : nat) : res A :=
  match nth_error v i with Some x => Ok x | None => Err Index end.
Fixpoint upd {A} (v : list A) (i : nat) (x : A) : res (list A) :=
  match v, i with
  | [], _ => Err Index
  | _ :: t, O => Ok (x :: t)
  | a :: t, S k => do r <- upd t k x ;; Ok (a :: r)
  end.

Definition vmap2 (f : F -> F -> F) (a b : Vec) : Vec := map (fun p => f (fst p) (snd p)) (combine a b).
Definition vadd := vmap2 Qcplus.
Definition vsub := vmap2 Qcminus.
Definition vmul := vmap2 Qcmult.
Definition vscale (k : F) (a : Vec) : Vec := map (Qcmult k) a.
Definition vneg (a : Vec) : Vec := map Qcopp a.
Definition vaddc (k : F) (a : Vec) : Vec := map (fun x => x + k) a.
Definition vconst (n : nat) (k : F) : Vec := repeat k n.
Definition vsum (a : Vec) : F := fold_left Qcplus a 0.
Definition dot (a b : Vec) : F := vsum (vmul a b).
Definition norm_inf (a : Vec) : F := fold_left (fun acc x => qmax acc (qabs x)) a 0.
Definition vmin (a : Vec) : res F :=
  match a with [] => Err Index | x :: t => Ok (fold_left qmin t x) end.
Definition vmax (a : Vec) : res F :=
  match a with [] => Err Index | x :: t => Ok (fold_left qmax t x) end.
Definition vdiv (a b : Vec) : res Vec := mapM (fun p => qdiv (fst p) (snd p)) (combine a b).
Definition vinv (a : Vec) : res Vec := mapM qinv a.
Definition head {A} (k : nat) (v : list A) : list A := firstn k v.
Definition tail_from {A} (k : nat) (v : list A) : list A := skipn k v.
Definition segment {A} (s k : nat) (v : list A) : list A := firstn k (skipn s v).
(* overwrite the first [length w] entries of v by w *)
Definition set_head {A} (w v : list A) : list A := w ++ skipn (length w) v.
(* overwrite v[s .. s+|w|) *)
Definition set_segment {A} (s : nat) (w v : list A) : list A := firstn s v ++ w ++ skipn (s + length w) v.

(* gather v[idx[i]] *)
Definition gather {A} (v : list A) (idx : list nat) : res (list A) := mapM (get v) idx.
(* for i: v[idx[i]] := f v[idx[i]] w[i] *)
Fixpoint scatter_with {A B} (f : A -> B -> A) (v : list A) (idx : list nat) (w : list B) : res (list A) :=
  match idx, w with
  | i :: it, x :: wt => do a <- get v i ;; do v' <- upd v i (f a x) ;; scatter_with f v' it wt
  | [], _ => Ok v
  | _ :: _, [] => Err Shape
  end.

(* ---------- dense matrices: column-major list of columns ---------- *)
Definition Mat := list Vec.
Definition mat_cols (M : Mat) := length M.
Definition mzero (r c : nat) : Mat := repeat (vconst r 0) c.
Definition mget (M : Mat) (i j : nat) : res F := do col <- get M j ;; get col i.
(* M * x, with [r] rows *)
Definition mat_vec (r : nat) (M : Mat) (x : Vec) : Vec :=
  fold_left (fun acc cx => vadd acc (vscale (snd cx) (fst cx))) (combine M x) (vconst r 0).
(* M^T * x *)
Definition matT_vec (M : Mat) (x : Vec) : Vec := map (fun col => dot col x) M.
Definition mscale (k : F) (M : Mat) : Mat := map (vscale k) M.
(* diag(dr) * M * diag(dc) *)
Definition mscale_rc (dr dc : Vec) (M : Mat) : Mat :=
  map (fun cd => vscale (snd cd) (vmul dr (fst cd))) (combine M dc).
Definition mtranspose (r : nat) (M : Mat) : Mat :=
  map (fun i => map (fun col => nth i col 0) M) (seq 0 r).
Definition mrow (M : Mat) (i : nat) : Vec := map (fun col => nth i col 0) M.
(* build an r x c matrix from an entry function *)
Definition mbuild (r c : nat) (f : nat -> nat -> F) : Mat :=
  map (fun j => map (fun i => f i j) (seq 0 r)) (seq 0 c).
Definition mentry (M : Mat) (i j : nat) : F := nth i (nth j M []) 0.

(* extended reals at the API boundary *)
Inductive ext := Fin (q : F) | PInf | NInf.
