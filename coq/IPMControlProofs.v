(* IPMControlProofs.v -- control-flow properties of the interior-point loop model (IPM.v):
   termination / fuel sufficiency, status and iteration bounds, the factorisation retry protocol,
   "a failed pass does not move the iterate", factorisation-call accounting.
   Everything holds for all problem data, all failure oracles [fault], all checkpoint functions [cp]. *)
From PIQP Require Import Base Data Bounds PrecondDense KKTDense IPM API.
From PIQP.gen Require Import Consts.
From Coq Require Import Lia.
From RecordUpdate Require Import RecordSet.
Import RecordSetNotations.
Local Open Scope Qc_scope.

(* ================================================================================================ *)
(* Part 0: "never runs out of fuel" for every sub-computation of a pass                               *)
(* ================================================================================================ *)

Definition NF {A} (r : res A) : Prop := r <> Err Fuel.

Lemma NF_ok {A} (a : A) : NF (Ok a).
Proof. discriminate. Qed.
Lemma NF_divzero {A} : NF (@Err A DivZero). Proof. discriminate. Qed.
Lemma NF_index {A} : NF (@Err A Index). Proof. discriminate. Qed.
Lemma NF_shape {A} : NF (@Err A Shape). Proof. discriminate. Qed.
Lemma NF_bind {A B} (e : res A) (f : A -> res B) :
  NF e -> (forall a, e = Ok a -> NF (f a)) -> NF (bind e f).
Proof.
  intros He Hf. destruct e as [a|er]; cbn [bind].
  - apply Hf; reflexivity.
  - intro H; apply He; injection H as ->; reflexivity.
Qed.
Lemma NF_let {A B} (v : A) (b : A -> res B) : (forall y, NF (b y)) -> NF (let x := v in b x).
Proof. intros H; exact (H v). Qed.
#[global] Hint Resolve NF_ok NF_divzero NF_index NF_shape : nf.

(* structural stepping through monadic code; [let]s are turned into opaque local names *)
Ltac nf_step :=
  cbv beta;
  lazymatch goal with
  | |- NF (Ok _) => apply NF_ok
  | |- NF (Err DivZero) => apply NF_divzero
  | |- NF (Err Index) => apply NF_index
  | |- NF (Err Shape) => apply NF_shape
  | |- NF (bind _ _) => apply NF_bind; [ | intros ? _ ]
  | |- NF (let x := ?v in @?b x) =>
      let y := fresh x in refine (NF_let v b _); intros y; cbv beta
  | |- NF (if ?c then _ else _) => destruct c
  | |- NF (match ?p with pair _ _ => _ end) => destruct p
  | |- NF (match ?p with Some _ => _ | None => _ end) => destruct p
  end.
Ltac nf := cbv beta; repeat (first [ solve [ eauto with nf ] | nf_step ]).

Lemma NF_mapM {A B} (f : A -> res B) l : (forall a, NF (f a)) -> NF (mapM f l).
Proof. intros Hf. induction l as [|a t IH]; cbn [mapM]; nf. Qed.
Lemma NF_foldM {A T} (f : T -> A -> res T) l : (forall t a, NF (f t a)) -> forall t0, NF (foldM f l t0).
Proof. intros Hf. induction l as [|a t IH]; intros t0; cbn [foldM]; nf. Qed.
Lemma NF_qdiv a b : NF (qdiv a b).
Proof. cbv delta [qdiv]; nf. Qed.
Lemma NF_qinv b : NF (qinv b).
Proof. apply NF_qdiv. Qed.
#[global] Hint Extern 1 (NF (qdiv _ _)) => apply NF_qdiv : nf.
#[global] Hint Extern 1 (NF (qinv _)) => apply NF_qinv : nf.
Lemma NF_get {A} (v : list A) i : NF (get v i).
Proof. unfold get. destruct (nth_error v i); nf. Qed.
#[global] Hint Extern 1 (NF (get _ _)) => apply NF_get : nf.
Lemma NF_upd {A} (v : list A) i a : NF (upd v i a).
Proof. revert i; induction v as [|h t IH]; intros [|i]; cbn [upd]; nf. Qed.
#[global] Hint Extern 1 (NF (upd _ _ _)) => apply NF_upd : nf.
Lemma NF_vinv v : NF (vinv v).
Proof. apply NF_mapM; intros; nf. Qed.
Lemma NF_vdiv a b : NF (vdiv a b).
Proof. apply NF_mapM; intros; nf. Qed.
Lemma NF_gather {A} (v : list A) idx : NF (gather v idx).
Proof. apply NF_mapM; intros; nf. Qed.
Lemma NF_scatter_with {A B} (f : A -> B -> A) idx : forall v w, NF (scatter_with f v idx w).
Proof. induction idx as [|i t IH]; intros v [|b w]; cbn [scatter_with]; nf. Qed.
#[global] Hint Extern 1 (NF (vinv _)) => apply NF_vinv : nf.
#[global] Hint Extern 1 (NF (vdiv _ _)) => apply NF_vdiv : nf.
#[global] Hint Extern 1 (NF (gather _ _)) => apply NF_gather : nf.
#[global] Hint Extern 1 (NF (scatter_with _ _ _ _)) => apply NF_scatter_with : nf.

(* --- KKTDense --- *)
Lemma NF_ldl_row Ls : forall Ai D Dall li, NF (ldl_row Ai Ls D Dall li).
Proof. induction Ls as [|Lj Lr IH]; intros Ai [|dj Dt] Dall li; destruct Ai; cbn [ldl_row]; nf. Qed.
#[global] Hint Extern 1 (NF (ldl_row _ _ _ _ _)) => apply NF_ldl_row : nf.
Lemma NF_ldl_rows rows : forall Ls D, NF (ldl_rows rows Ls D).
Proof. induction rows as [|Ai rt IH]; intros Ls D; cbn [ldl_rows]; nf. Qed.
Lemma NF_llt_compute rows : NF (llt_compute rows).
Proof. apply NF_ldl_rows. Qed.
Lemma NF_llt_solve f b : NF (llt_solve f b).
Proof. cbv delta [llt_solve]; nf. Qed.
#[global] Hint Extern 1 (NF (llt_compute _)) => apply NF_llt_compute : nf.
#[global] Hint Extern 1 (NF (llt_solve _ _)) => apply NF_llt_solve : nf.
Lemma NF_solve_ldlt k b : NF (solve_ldlt k b).
Proof. cbv delta [solve_ldlt]; nf. Qed.
#[global] Hint Extern 1 (NF (solve_ldlt _ _)) => apply NF_solve_ldlt : nf.
Lemma NF_box_diag delta diag idx sc zinv s0 : NF (box_diag delta diag idx sc zinv s0).
Proof. cbv delta [box_diag]; nf. apply NF_mapM; intros; nf. Qed.
#[global] Hint Extern 1 (NF (box_diag _ _ _ _ _ _)) => apply NF_box_diag : nf.
Lemma NF_update_kkt d k : NF (update_kkt d k).
Proof. cbv delta [update_kkt]; nf. Qed.
#[global] Hint Extern 1 (NF (update_kkt _ _)) => apply NF_update_kkt : nf.
Lemma NF_kkt_update_scalings d k rho delta a1 a2 a3 a4 a5 a6 :
  NF (kkt_update_scalings d k rho delta a1 a2 a3 a4 a5 a6).
Proof. cbv delta [kkt_update_scalings]; nf. Qed.
Lemma NF_regularize_and_factorize S d k r flt : NF (regularize_and_factorize S d k r flt).
Proof. cbv delta [regularize_and_factorize]; nf. Qed.
Lemma NF_refine_loop S fuel : forall k rhs rn sol ec en, NF (refine_loop S fuel k rhs rn sol ec en).
Proof. induction fuel as [|f IH]; intros; cbn [refine_loop]; nf. Qed.
#[global] Hint Extern 1 (NF (kkt_update_scalings _ _ _ _ _ _ _ _ _ _)) => apply NF_kkt_update_scalings : nf.
#[global] Hint Extern 1 (NF (regularize_and_factorize _ _ _ _ _)) => apply NF_regularize_and_factorize : nf.
#[global] Hint Extern 1 (NF (refine_loop _ _ _ _ _ _ _ _)) => apply NF_refine_loop : nf.
Lemma NF_kkt_solve S d k r a1 a2 a3 a4 a5 a6 a7 a8 : NF (kkt_solve S d k r a1 a2 a3 a4 a5 a6 a7 a8).
Proof. cbv delta [kkt_solve]; nf. Qed.
#[global] Hint Extern 1 (NF (kkt_solve _ _ _ _ _ _ _ _ _ _ _ _)) => apply NF_kkt_solve : nf.

(* --- IPM --- *)
Lemma NF_update_nr_residuals d pc K it inf : NF (update_nr_residuals d pc K it inf).
Proof. cbv delta [update_nr_residuals]; nf. Qed.
Lemma NF_mu_of d it : NF (mu_of d it).
Proof. cbv delta [mu_of]; nf. Qed.
Lemma NF_do_update_scalings d st : NF (do_update_scalings d st).
Proof. cbv delta [do_update_scalings]; nf. Qed.
Lemma NF_do_factorize S d fault st : NF (do_factorize S d fault st).
Proof. cbv delta [do_factorize]; nf. Qed.
Lemma NF_ratio_min a v dv : NF (ratio_min a v dv).
Proof. unfold ratio_min. apply NF_foldM. intros; nf. Qed.
#[global] Hint Extern 1 (NF (update_nr_residuals _ _ _ _ _)) => apply NF_update_nr_residuals : nf.
#[global] Hint Extern 1 (NF (mu_of _ _)) => apply NF_mu_of : nf.
#[global] Hint Extern 1 (NF (do_update_scalings _ _)) => apply NF_do_update_scalings : nf.
#[global] Hint Extern 1 (NF (do_factorize _ _ _ _)) => apply NF_do_factorize : nf.
#[global] Hint Extern 1 (NF (ratio_min _ _ _)) => apply NF_ratio_min : nf.
Lemma NF_step_lengths it stp : NF (step_lengths it stp).
Proof. cbv delta [step_lengths]; nf. Qed.
#[global] Hint Extern 1 (NF (step_lengths _ _)) => apply NF_step_lengths : nf.

Lemma NF_loop_pass K S d pc fault cp st : NF (loop_pass K S d pc fault cp st).
Proof. cbv delta [loop_pass]; nf. Qed.
Lemma NF_initial_point K S d cp st : NF (initial_point K S d cp st).
Proof. cbv delta [initial_point]; nf. Qed.

(* ================================================================================================ *)
(* Part 1: splitting a pass into phases                                                              *)
(* ================================================================================================ *)

Lemma let_intro {A B} (v : A) (b : A -> B) (P : B -> Prop) :
  (forall y, y = v -> P (b y)) -> P (let x := v in b x).
Proof. intros H; exact (H v eq_refl). Qed.

(* symbolic execution of monadic code in a goal [e = r -> Q]; [let]s become variables with equations *)
Ltac exec_step :=
  lazymatch goal with
  | |- (let x := ?v in @?b x) = ?r -> ?Q =>
      let y := fresh x in let Hy := fresh "D" in
      refine (let_intro v b (fun e => e = r -> Q) _); intros y Hy; cbv beta
  | |- bind ?e ?f = ?r -> ?Q =>
      let a := fresh "a" in let er := fresh "er" in let E := fresh "E" in
      destruct e as [a|er] eqn:E;
      [ lazymatch goal with |- bind (Ok ?a') ?f' = ?r' -> ?Q' => change (f' a' = r' -> Q'); cbv beta end
      | intros; discriminate ]
  | |- (if ?c then _ else _) = _ -> _ => let C := fresh "C" in destruct c eqn:C
  | |- (match ?p with pair _ _ => _ end) = _ -> _ => destruct p
  end.
Ltac exec := cbv beta; repeat exec_step.

Section Ctl.
Variable K : Consts.
Variable S : Settings.
Variable d : Data.
Variable pc : Precond.
Variable fault : nat -> bool.
Variable cp : F -> F.

(* ---- helper definitions used in the statements ---- *)

(* boundary control of one dual block: shift by epsilon iff the block is non-empty and its minimum is < epsilon *)
Definition below_eps (v : Vec) : bool :=
  match v with [] => false | h :: t => qltb (fold_left qmin t h) (k_eps K) end.
Definition bshift (v : Vec) : Vec := if below_eps v then vaddc (k_eps K) v else v.
Definition shift_it (it : Iterate) : Iterate :=
  it <| z := bshift (z it) |> <| z_lb := bshift (z_lb it) |> <| z_ub := bshift (z_ub it) |>.

(* the "regularisation fine-tuning switch" condition, evaluated on the info at the start of the pass *)
Definition finetune_fires (inf : Info) : bool :=
  ((reg_finetune_primal_update_threshold S <? i_no_primal_update inf)%Z && qeqb (i_rho inf) (i_reg_limit inf)
     && negb (qeqb (i_reg_limit inf) (reg_finetune_lower_limit S))) ||
  ((reg_finetune_dual_update_threshold S <? i_no_dual_update inf)%Z && qeqb (i_delta inf) (i_reg_limit inf)
     && negb (qeqb (i_reg_limit inf) (reg_finetune_lower_limit S))).
Definition reg_limit_at_factor (inf : Info) : F :=
  if finetune_fires inf then reg_finetune_lower_limit S else i_reg_limit inf.

(* ---- the three phases (verbatim pieces of IPM.loop_pass) ---- *)

Definition pre_pass (st : St)
    (k : Iterate -> Vec -> Vec -> Vec -> Vec -> Vec -> St -> res Outcome) : res Outcome :=
  let inf0 := st_inf st in
  do '(res0, inf0a) <- (if (i_iter inf0 =? 0)%Z then update_nr_residuals d pc K (st_it st) inf0 else Ok (st_res st, inf0)) ;;
  let inf1 := inf0a <| i_primal_inf := primal_inf_nr pc res0 |> <| i_dual_inf := dual_inf_nr pc res0 |> in
  let st1 := st <| st_res := res0 |> <| st_inf := inf1 |> in
  if qltb (i_primal_inf inf1) (thresh S (i_primal_rel_inf inf1)) &&
     qltb (i_dual_inf inf1) (thresh S (i_dual_rel_inf inf1)) &&
     (negb (check_duality_gap S) || qltb (i_duality_gap inf1) (eps_duality_gap_abs S + eps_duality_gap_rel S * i_duality_gap_rel inf1))
  then Ok (Stop (st1 <| st_inf := inf1 <| i_status := SOLVED |> |>))
  else
  let it := st_it st1 in
  let rx := vsub (rx_nr res0) (vscale (i_rho inf1) (vsub (x it) (zeta it))) in
  let ry := vsub (ry_nr res0) (vscale (i_delta inf1) (vsub (lambda it) (y it))) in
  let rz := vsub (rz_nr res0) (vscale (i_delta inf1) (vsub (nu it) (z it))) in
  let rz_lb := vsub (rz_lb_nr res0) (vscale (i_delta inf1) (vsub (nu_lb it) (z_lb it))) in
  let rz_ub := vsub (rz_ub_nr res0) (vscale (i_delta inf1) (vsub (nu_ub it) (z_ub it))) in
  if (zmin (k_infeas_cnt K) (reg_finetune_dual_update_threshold S) <? i_no_dual_update inf1)%Z &&
     qltb (k_prox_big K) (primal_prox_inf pc it) &&
     qltb (primal_inf_of pc ry rz rz_lb rz_ub) (thresh S (i_primal_rel_inf inf1))
  then Ok (Stop (st1 <| st_inf := inf1 <| i_status := PRIMAL_INFEASIBLE |> |>))
  else
  if (zmin (k_infeas_cnt K) (reg_finetune_primal_update_threshold S) <? i_no_primal_update inf1)%Z &&
     qltb (k_prox_big K) (dual_prox_inf pc it) &&
     qltb (norm_inf (unscale_dual_res pc rx)) (thresh S (i_dual_rel_inf inf1))
  then Ok (Stop (st1 <| st_inf := inf1 <| i_status := DUAL_INFEASIBLE |> |>))
  else
  let inf2 := inf1 <| i_iter := (i_iter inf1 + 1)%Z |> in
  let lt_eps (v : Vec) := match v with [] => false | h :: t => qltb (fold_left qmin t h) (k_eps K) end in
  let sh_z := lt_eps (z it) in let sh_lb := lt_eps (z_lb it) in let sh_ub := lt_eps (z_ub it) in
  let it3 := it <| z := if sh_z then vaddc (k_eps K) (z it) else z it |>
                <| z_lb := if sh_lb then vaddc (k_eps K) (z_lb it) else z_lb it |>
                <| z_ub := if sh_ub then vaddc (k_eps K) (z_ub it) else z_ub it |> in
  do inf3 <- (if sh_z || sh_lb || sh_ub then do mu <- mu_of d it3 ;; Ok (inf2 <| i_mu := mu |>) else Ok inf2) ;;
  let inf4 :=
    if ((reg_finetune_primal_update_threshold S <? i_no_primal_update inf3)%Z && qeqb (i_rho inf3) (i_reg_limit inf3)
        && negb (qeqb (i_reg_limit inf3) (reg_finetune_lower_limit S))) ||
       ((reg_finetune_dual_update_threshold S <? i_no_dual_update inf3)%Z && qeqb (i_delta inf3) (i_reg_limit inf3)
        && negb (qeqb (i_reg_limit inf3) (reg_finetune_lower_limit S)))
    then inf3 <| i_reg_limit := reg_finetune_lower_limit S |> <| i_no_primal_update := 0%Z |> <| i_no_dual_update := 0%Z |>
    else inf3 in
  do st4 <- do_update_scalings d (st1 <| st_it := it3 |> <| st_inf := inf4 |>) ;;
  k it3 rx ry rz rz_lb rz_ub st4.

(* what the pass does after a FAILED factorisation *)
Definition fail_branch (st5 : St) : res Outcome :=
    if negb (st_refine st5) then Ok (Continue (st5 <| st_refine := true |>))
    else if (i_factor_retires (st_inf st5) <? max_factor_retires S)%Z then
      let inf5 := bump_reg K S (st_inf st5) in
      Ok (Continue (st5 <| st_inf := inf5 <| i_iter := (i_iter inf5 - 1)%Z |> |>))
    else Ok (Stop (st5 <| st_inf := (st_inf st5) <| i_status := NUMERICS |> |>)).

(* what the pass does after a SUCCESSFUL factorisation *)
Definition succ_branch (it3 : Iterate) (rx ry rz rz_lb rz_ub : Vec) (st5 : St) : res Outcome :=
  let inf6 := (st_inf st5) <| i_factor_retires := 0%Z |> in
  let kk := st_kkt st5 in
  if Nat.ltb 0 (nineq d) then
    let rs := vneg (vmul (s it3) (z it3)) in
    let rs_lb := vneg (vmul (s_lb it3) (z_lb it3)) in
    let rs_ub := vneg (vmul (s_ub it3) (z_ub it3)) in
    do p <- kkt_solve S d kk (st_refine st5) rx ry rz rz_lb rz_ub rs rs_lb rs_ub ;;
    do '(a_s0, a_z0) <- step_lengths it3 p ;;
    let a_s := a_s0 * tau S in let a_z := a_z0 * tau S in
    let sig0 := dot (vadd (s it3) (vscale a_s (st_s p))) (vadd (z it3) (vscale a_z (st_z p)))
              + dot (vadd (s_lb it3) (vscale a_s (st_s_lb p))) (vadd (z_lb it3) (vscale a_z (st_z_lb p)))
              + dot (vadd (s_ub it3) (vscale a_s (st_s_ub p))) (vadd (z_ub it3) (vscale a_z (st_z_ub p))) in
    do sig1 <- qdiv sig0 (i_mu inf6 * qofnat (nineq d)) ;;
    let sig2 := qmax 0 (qmin 1 sig1) in
    let sigma := sig2 * sig2 * sig2 in
    let sm := sigma * i_mu inf6 in
    let rs' := vaddc sm (vsub rs (vmul (st_s p) (st_z p))) in
    let rs_lb' := vaddc sm (vsub rs_lb (vmul (st_s_lb p) (st_z_lb p))) in
    let rs_ub' := vaddc sm (vsub rs_ub (vmul (st_s_ub p) (st_z_ub p))) in
    do c <- kkt_solve S d kk (st_refine st5) rx ry rz rz_lb rz_ub rs' rs_lb' rs_ub' ;;
    do '(b_s0, b_z0) <- step_lengths it3 c ;;
    let ps := b_s0 * tau S in let ds_ := b_z0 * tau S in
    let it4 := cp_iterate cp (it3 <| x := vadd (x it3) (vscale ps (st_x c)) |> <| y := vadd (y it3) (vscale ds_ (st_y c)) |>
                   <| z := vadd (z it3) (vscale ds_ (st_z c)) |> <| z_lb := vadd (z_lb it3) (vscale ds_ (st_z_lb c)) |>
                   <| z_ub := vadd (z_ub it3) (vscale ds_ (st_z_ub c)) |>
                   <| s := vadd (s it3) (vscale ps (st_s c)) |> <| s_lb := vadd (s_lb it3) (vscale ps (st_s_lb c)) |>
                   <| s_ub := vadd (s_ub it3) (vscale ps (st_s_ub c)) |>) in
    let mu_prev := i_mu inf6 in
    do mu <- mu_of d it4 ;;
    do rate0 <- qdiv (mu_prev - mu) mu_prev ;;
    let mu_rate := qmax 0 rate0 in
    let inf7 := inf6 <| i_sigma := sigma |> <| i_primal_step := ps |> <| i_dual_step := ds_ |> <| i_mu := mu |> in
    do '(res1, inf8) <- update_nr_residuals d pc K it4 inf7 ;;
    let good_d := qltb (dual_inf_nr pc res1) (k_improve K * i_dual_inf inf8)
                  || (qeqb (i_rho inf8) (reg_finetune_lower_limit S) && qltb (dual_prox_inf pc it4) (k_prox_small K)) in
    let it5 := if good_d then it4 <| zeta := x it4 |> else it4 in
    let inf9 := if good_d then inf8 <| i_rho := qmax (i_reg_limit inf8) ((1 - mu_rate) * i_rho inf8) |>
                else inf8 <| i_no_primal_update := (i_no_primal_update inf8 + 1)%Z |>
                          <| i_rho := qmax (i_reg_limit inf8) ((1 - k_mu_damp K * mu_rate) * i_rho inf8) |> in
    let good_p := qltb (primal_inf_nr pc res1) (k_improve K * i_primal_inf inf9)
                  || (qeqb (i_delta inf9) (reg_finetune_lower_limit S) && qltb (primal_prox_inf pc it5) (k_prox_small K)) in
    let it6 := if good_p then it5 <| lambda := y it5 |> <| nu := z it5 |> <| nu_lb := z_lb it5 |> <| nu_ub := z_ub it5 |> else it5 in
    let inf10 := if good_p then inf9 <| i_delta := qmax (i_reg_limit inf9) ((1 - mu_rate) * i_delta inf9) |>
                 else inf9 <| i_no_dual_update := (i_no_dual_update inf9 + 1)%Z |>
                           <| i_delta := qmax (i_reg_limit inf9) ((1 - k_mu_damp K * mu_rate) * i_delta inf9) |> in
    Ok (Continue (st5 <| st_it := it6 |> <| st_inf := inf10 <| i_rho := cp (i_rho inf10) |> <| i_delta := cp (i_delta inf10) |> |> <| st_res := res1 |>))
  else
    do c <- kkt_solve S d kk (st_refine st5) rx ry rz rz_lb rz_ub (vconst (d_m d) 0) (vconst (d_nlb d) 0) (vconst (d_nub d) 0) ;;
    let it4 := cp_iterate cp (it3 <| x := vadd (x it3) (st_x c) |> <| y := vadd (y it3) (st_y c) |>) in
    let inf7 := inf6 <| i_primal_step := 1 |> <| i_dual_step := 1 |> in
    do '(res1, inf8) <- update_nr_residuals d pc K it4 inf7 ;;
    let good_d := qltb (dual_inf_nr pc res1) (k_improve K * i_dual_inf inf8) in
    let it5 := if good_d then it4 <| zeta := x it4 |> else it4 in
    let inf9 := if good_d then inf8 <| i_rho := qmax (i_reg_limit inf8) (k_noineq_good K * i_rho inf8) |>
                else inf8 <| i_no_primal_update := (i_no_primal_update inf8 + 1)%Z |>
                          <| i_rho := qmax (i_reg_limit inf8) (k_noineq_bad K * i_rho inf8) |> in
    let good_p := qltb (primal_inf_nr pc res1) (k_improve K * i_primal_inf inf9) in
    let it6 := if good_p then it5 <| lambda := y it5 |> else it5 in
    let inf10 := if good_p then inf9 <| i_delta := qmax (i_reg_limit inf9) (k_noineq_good K * i_delta inf9) |>
                 else inf9 <| i_no_dual_update := (i_no_dual_update inf9 + 1)%Z |>
                           <| i_delta := qmax (i_reg_limit inf9) (k_noineq_bad K * i_delta inf9) |> in
    Ok (Continue (st5 <| st_it := it6 |> <| st_inf := inf10 <| i_rho := cp (i_rho inf10) |> <| i_delta := cp (i_delta inf10) |> |> <| st_res := res1 |>)).

(* the model's pass IS the composition of the three phases (definitional equality) *)
Lemma loop_pass_split (st : St) :
  loop_pass K S d pc fault cp st =
  pre_pass st (fun it3 rx ry rz rz_lb rz_ub st4 =>
    do '(st5, ok) <- do_factorize S d fault st4 ;;
    if negb ok then fail_branch st5 else succ_branch it3 rx ry rz rz_lb rz_ub st5).
Proof. reflexivity. Qed.

End Ctl.

(* ================================================================================================ *)
(* Part 2: what each phase does to the control-relevant fields                                       *)
(* ================================================================================================ *)
Lemma Ok_inj {A} (a b : A) : Ok a = Ok b -> a = b.
Proof. intros H; injection H; auto. Qed.

Section Spec.
Variable K : Consts.
Variable S : Settings.
Variable d : Data.
Variable pc : Precond.
Variable fault : nat -> bool.
Variable cp : F -> F.

(* the Info fields that update_nr_residuals and the step bookkeeping never touch *)
Definition keeps (a b : Info) : Prop :=
  i_status b = i_status a /\ i_iter b = i_iter a /\ i_rho b = i_rho a /\ i_delta b = i_delta a /\
  i_factor_retires b = i_factor_retires a /\ i_reg_limit b = i_reg_limit a /\
  i_no_primal_update b = i_no_primal_update a /\ i_no_dual_update b = i_no_dual_update a.

Lemma keeps_refl a : keeps a a.
Proof. repeat split. Qed.

Lemma keeps_trans a b c : keeps a b -> keeps b c -> keeps a c.
Proof.
  intros (a1&a2&a3&a4&a5&a6&a7&a8) (b1&b2&b3&b4&b5&b6&b7&b8).
  repeat split; etransitivity; eassumption.
Qed.

Lemma update_nr_keeps it inf r inf' :
  update_nr_residuals d pc K it inf = Ok (r, inf') -> keeps inf inf'.
Proof.
  cbv delta [update_nr_residuals]. exec.
  intros H; injection H as _ <-. repeat split.
Qed.

Lemma do_update_scalings_spec st st' :
  do_update_scalings d st = Ok st' -> exists k, st' = st <| st_kkt := k |>.
Proof.
  cbv delta [do_update_scalings]. exec. intros H; apply Ok_inj in H; subst st'. eexists; reflexivity.
Qed.

Lemma do_factorize_spec st st' ok :
  do_factorize S d fault st = Ok (st', ok) ->
  exists k, regularize_and_factorize S d (st_kkt st) (st_refine st) (fault (st_calls st)) = Ok (k, ok) /\
            st' = st <| st_kkt := k |> <| st_calls := Datatypes.S (st_calls st) |>.
Proof.
  cbv delta [do_factorize]. exec. intros H; apply Ok_inj in H; injection H as <- <-.
  eexists; split; reflexivity.
Qed.

Lemma stage1_keeps st r i :
  (if (i_iter (st_inf st) =? 0)%Z then update_nr_residuals d pc K (st_it st) (st_inf st)
   else Ok (st_res st, st_inf st)) = Ok (r, i) -> keeps (st_inf st) i.
Proof.
  destruct (i_iter (st_inf st) =? 0)%Z.
  - apply update_nr_keeps.
  - intros H; apply Ok_inj in H; injection H as _ <-. apply keeps_refl.
Qed.

Lemma finetune_fires_ext a b :
  i_rho b = i_rho a -> i_delta b = i_delta a -> i_reg_limit b = i_reg_limit a ->
  i_no_primal_update b = i_no_primal_update a -> i_no_dual_update b = i_no_dual_update a ->
  finetune_fires S b = finetune_fires S a.
Proof. intros a3 a4 a6 a7 a8. unfold finetune_fires. rewrite a3, a4, a6, a7, a8. reflexivity. Qed.

(* outcome of the phases before the factorisation *)
Definition early (st st' : St) : Prop :=
  st_it st' = st_it st /\ st_refine st' = st_refine st /\ st_calls st' = st_calls st /\ st_kkt st' = st_kkt st /\
  (i_status (st_inf st') = SOLVED \/ i_status (st_inf st') = PRIMAL_INFEASIBLE \/
   i_status (st_inf st') = DUAL_INFEASIBLE) /\
  i_iter (st_inf st') = i_iter (st_inf st) /\ i_factor_retires (st_inf st') = i_factor_retires (st_inf st) /\
  i_rho (st_inf st') = i_rho (st_inf st) /\ i_delta (st_inf st') = i_delta (st_inf st) /\
  i_reg_limit (st_inf st') = i_reg_limit (st_inf st).

Definition prepared (st st4 : St) : Prop :=
  st_it st4 = shift_it K (st_it st) /\ st_refine st4 = st_refine st /\ st_calls st4 = st_calls st /\
  i_status (st_inf st4) = i_status (st_inf st) /\ i_iter (st_inf st4) = (i_iter (st_inf st) + 1)%Z /\
  i_factor_retires (st_inf st4) = i_factor_retires (st_inf st) /\
  i_rho (st_inf st4) = i_rho (st_inf st) /\ i_delta (st_inf st4) = i_delta (st_inf st) /\
  i_reg_limit (st_inf st4) = reg_limit_at_factor S (st_inf st).

Ltac fld := solve [ reflexivity | (etransitivity; [ | eassumption ]; reflexivity) ].

Lemma pre_pass_spec st k o :
  pre_pass K S d pc st k = Ok o ->
  (exists st', o = Stop st' /\ early st st') \/
  (exists rx ry rz rzl rzu st4, prepared st st4 /\ k (shift_it K (st_it st)) rx ry rz rzl rzu st4 = Ok o).
Proof.
  cbv delta [pre_pass]. exec. all: subst inf0.
  all: match goal with E : _ = Ok (_, _) |- _ => pose proof (stage1_keeps _ _ _ E) as Hk end.
  1-3: intros H; apply Ok_inj in H; subst o; left; eexists; split; [reflexivity|];
       destruct Hk as (a1&a2&a3&a4&a5&a6&a7&a8); subst; unfold early; repeat split; try fld; auto.
  intros H. right. exists rx, ry, rz, rz_lb, rz_ub, a0.
  destruct Hk as (a1&a2&a3&a4&a5&a6&a7&a8).
  destruct (do_update_scalings_spec _ _ E1) as [kk ->].
  assert (Ha : a = inf2 \/ exists mu, a = inf2 <| i_mu := mu |>).
  { destruct (sh_z || sh_lb || sh_ub);
      [ destruct (mu_of d it3) as [mu|]; cbn [bind] in E0; [|discriminate]; right; exists mu | left ];
      apply Ok_inj in E0; auto. }
  assert (Hff : finetune_fires S a = finetune_fires S (st_inf st)).
  { apply finetune_fires_ext; destruct Ha as [-> | [mu ->]]; subst inf2 inf1; fld. }
  assert (Hit : it3 = shift_it K (st_it st)) by (subst; reflexivity).
  rewrite <- Hit. split; [|exact H].
  unfold prepared, reg_limit_at_factor. rewrite <- Hff, <- Hit.
  assert (Hrl : i_reg_limit inf4 = if finetune_fires S a then reg_finetune_lower_limit S else i_reg_limit (st_inf st)).
  { rewrite D14. unfold finetune_fires.
    match goal with |- context[if ?c then _ else _] => destruct c end;
      [ reflexivity | destruct Ha as [-> | [mu ->]]; subst inf2 inf1; fld ]. }
  assert (H4 : i_status inf4 = i_status a /\ i_iter inf4 = i_iter a /\
               i_factor_retires inf4 = i_factor_retires a /\ i_rho inf4 = i_rho a /\ i_delta inf4 = i_delta a).
  { rewrite D14. match goal with |- context[if ?c then _ else _] => destruct c end; repeat split. }
  destruct H4 as (h1&h2&h3&h4&h5).
  assert (H2 : i_status a = i_status inf2 /\ i_iter a = i_iter inf2 /\
               i_factor_retires a = i_factor_retires inf2 /\ i_rho a = i_rho inf2 /\ i_delta a = i_delta inf2)
    by (destruct Ha as [-> | [mu ->]]; repeat split).
  destruct H2 as (g1&g2&g3&g4&g5).
  repeat split.
  - subst st1; reflexivity.
  - subst st1; reflexivity.
  - transitivity (i_status inf4); [subst st1; reflexivity|]. rewrite h1, g1. subst inf2 inf1. fld.
  - transitivity (i_iter inf4); [subst st1; reflexivity|]. rewrite h2, g2, <- a2. subst inf2 inf1. reflexivity.
  - transitivity (i_factor_retires inf4); [subst st1; reflexivity|]. rewrite h3, g3. subst inf2 inf1. fld.
  - transitivity (i_rho inf4); [subst st1; reflexivity|]. rewrite h4, g4. subst inf2 inf1. fld.
  - transitivity (i_delta inf4); [subst st1; reflexivity|]. rewrite h5, g5. subst inf2 inf1. fld.
  - transitivity (i_reg_limit inf4); [subst st1; reflexivity|]. exact Hrl.
Qed.

Lemma fail_branch_spec st5 o :
  fail_branch K S st5 = Ok o ->
  (st_refine st5 = false /\ o = Continue (st5 <| st_refine := true |>)) \/
  (st_refine st5 = true /\ (i_factor_retires (st_inf st5) < max_factor_retires S)%Z /\
   o = Continue (st5 <| st_inf := (bump_reg K S (st_inf st5)) <| i_iter := (i_iter (st_inf st5) - 1)%Z |> |>)) \/
  (st_refine st5 = true /\ (max_factor_retires S <= i_factor_retires (st_inf st5))%Z /\
   o = Stop (st5 <| st_inf := (st_inf st5) <| i_status := NUMERICS |> |>)).
Proof.
  cbv delta [fail_branch]. exec; intros H; apply Ok_inj in H; subst o.
  - left. destruct (st_refine st5); [discriminate|]. split; reflexivity.
  - right; left. destruct (st_refine st5); [|discriminate]. apply Z.ltb_lt in C0. subst inf5. repeat split; assumption.
  - right; right. destruct (st_refine st5); [|discriminate]. apply Z.ltb_ge in C0. repeat split; assumption.
Qed.

Lemma succ_branch_spec it3 rx ry rz rzl rzu st5 o :
  succ_branch K S d pc cp it3 rx ry rz rzl rzu st5 = Ok o ->
  exists st', o = Continue st' /\ st_refine st' = st_refine st5 /\ st_calls st' = st_calls st5 /\
              st_kkt st' = st_kkt st5 /\
              i_status (st_inf st') = i_status (st_inf st5) /\ i_iter (st_inf st') = i_iter (st_inf st5) /\
              i_factor_retires (st_inf st') = 0%Z.
Proof.
  cbv delta [succ_branch]. exec.
  all: intros H; apply Ok_inj in H; subst o; eexists; split; [reflexivity|].
  all: match goal with E : update_nr_residuals _ _ _ _ _ = Ok (_, ?i8) |- _ =>
         pose proof (update_nr_keeps _ _ _ _ E) as (hk1&hk2&_&_&hk5&_);
         assert (H9 : i_status inf9 = i_status i8 /\ i_iter inf9 = i_iter i8 /\
                      i_factor_retires inf9 = i_factor_retires i8)
           by (subst inf9; destruct good_d; repeat split); destruct H9 as (b1&b2&b5) end.
  all: assert (H10 : i_status inf10 = i_status inf9 /\ i_iter inf10 = i_iter inf9 /\
                     i_factor_retires inf10 = i_factor_retires inf9)
         by (subst inf10; destruct good_p; repeat split); destruct H10 as (c1&c2&c5).
  all: repeat split.
  all: lazymatch goal with
       | |- i_status _ = _ => transitivity (i_status inf10); [reflexivity|]; rewrite c1, b1, hk1
       | |- i_iter _ = _ => transitivity (i_iter inf10); [reflexivity|]; rewrite c2, b2, hk2
       | |- i_factor_retires _ = _ => transitivity (i_factor_retires inf10); [reflexivity|]; rewrite c5, b5, hk5
       end; subst inf7 inf6; reflexivity.
Qed.
End Spec.

(* ================================================================================================ *)
(* Part 3: the pass as a whole                                                                        *)
(* ================================================================================================ *)
Section Pass.
Variable K : Consts.
Variable S : Settings.
Variable d : Data.
Variable pc : Precond.
Variable fault : nat -> bool.
Variable cp : F -> F.

Notation LP := (loop_pass K S d pc fault cp).
Notation R := (max_factor_retires S).

(* the state handed to the continuation after a successful factorisation *)
Definition pass_success (st5 : St) (o : Outcome) : Prop :=
  exists st', o = Continue st' /\ st_refine st' = st_refine st5 /\ st_calls st' = st_calls st5 /\
              st_kkt st' = st_kkt st5 /\
              i_status (st_inf st') = i_status (st_inf st5) /\ i_iter (st_inf st') = i_iter (st_inf st5) /\
              i_factor_retires (st_inf st') = 0%Z.

(* the three possible reactions to a failed factorisation *)
Definition pass_failure (st5 : St) (o : Outcome) : Prop :=
  (st_refine st5 = false /\ o = Continue (st5 <| st_refine := true |>)) \/
  (st_refine st5 = true /\ (i_factor_retires (st_inf st5) < R)%Z /\
   o = Continue (st5 <| st_inf := (bump_reg K S (st_inf st5)) <| i_iter := (i_iter (st_inf st5) - 1)%Z |> |>)) \/
  (st_refine st5 = true /\ (R <= i_factor_retires (st_inf st5))%Z /\
   o = Stop (st5 <| st_inf := (st_inf st5) <| i_status := NUMERICS |> |>)).

Lemma loop_pass_cases st o :
  LP st = Ok o ->
  (exists st', o = Stop st' /\ early st st') \/
  (exists st4 kk ok,
     prepared K S st st4 /\
     regularize_and_factorize S d (st_kkt st4) (st_refine st4) (fault (st_calls st4)) = Ok (kk, ok) /\
     let st5 := st4 <| st_kkt := kk |> <| st_calls := Datatypes.S (st_calls st4) |> in
     if ok then pass_success st5 o else pass_failure st5 o).
Proof.
  rewrite loop_pass_split. intros H. apply pre_pass_spec in H.
  destruct H as [H | (rx & ry & rz & rzl & rzu & st4 & Hp & H)]; [left; exact H | right].
  revert H. exec; intros H.
  all: destruct (do_factorize_spec _ _ _ _ _ _ E) as (kk & Hf & ->).
  all: exists st4, kk, b; split; [exact Hp|]; split; [exact Hf|].
  all: destruct b; try discriminate; cbv zeta.
  - apply fail_branch_spec in H. exact H.
  - apply succ_branch_spec in H. exact H.
Qed.

End Pass.

(* ================================================================================================ *)
(* Part 4: the retry protocol and the iterate on failed passes, stated relative to the input state    *)
(* ================================================================================================ *)
Section Protocol.
Variable K : Consts.
Variable S : Settings.
Variable d : Data.
Variable pc : Precond.
Variable fault : nat -> bool.
Variable cp : F -> F.

Notation LP := (loop_pass K S d pc fault cp).
Notation R := (max_factor_retires S).

(* stop before the factorisation: nothing but the status and the residual/info bookkeeping changes *)
Definition early_stop (st st' : St) : Prop := early st st'.

(* successful factorisation: the step is taken, iter+1, consecutive-retry counter reset *)
Definition success_step (st st' : St) : Prop :=
  st_refine st' = st_refine st /\ i_status (st_inf st') = i_status (st_inf st) /\
  i_iter (st_inf st') = (i_iter (st_inf st) + 1)%Z /\ i_factor_retires (st_inf st') = 0%Z.

(* first failure with refinement off: switch refinement on, keep the regularisation *)
Definition refine_on_step (st st' : St) : Prop :=
  st_it st' = shift_it K (st_it st) /\
  st_refine st' = true /\ i_status (st_inf st') = i_status (st_inf st) /\
  i_iter (st_inf st') = (i_iter (st_inf st) + 1)%Z /\
  i_factor_retires (st_inf st') = i_factor_retires (st_inf st) /\
  i_rho (st_inf st') = i_rho (st_inf st) /\ i_delta (st_inf st') = i_delta (st_inf st) /\
  i_reg_limit (st_inf st') = reg_limit_at_factor S (st_inf st).

(* failure with refinement on and retries left: bump the regularisation, iter restored, retries+1 *)
Definition retry_step (st st' : St) : Prop :=
  st_it st' = shift_it K (st_it st) /\
  st_refine st' = true /\ i_status (st_inf st') = i_status (st_inf st) /\
  i_iter (st_inf st') = i_iter (st_inf st) /\
  i_factor_retires (st_inf st') = (i_factor_retires (st_inf st) + 1)%Z /\
  i_rho (st_inf st') = i_rho (st_inf st) * k_retry_mul K /\
  i_delta (st_inf st') = i_delta (st_inf st) * k_retry_mul K /\
  i_reg_limit (st_inf st') = qmin (k_reglim_mul K * reg_limit_at_factor S (st_inf st)) (eps_abs S).

(* failure with refinement on and no retries left *)
Definition numerics_stop (st st' : St) : Prop :=
  st_it st' = shift_it K (st_it st) /\
  st_refine st' = true /\ i_status (st_inf st') = NUMERICS /\
  i_iter (st_inf st') = (i_iter (st_inf st) + 1)%Z /\
  i_factor_retires (st_inf st') = i_factor_retires (st_inf st) /\
  i_rho (st_inf st') = i_rho (st_inf st) /\ i_delta (st_inf st') = i_delta (st_inf st).

(* "the pass started in [st] reaches regularize_and_factorize, which returns [ok] and leaves the KKT object [kk]" *)
Definition pass_factorisation (st : St) (kk : KKT) (ok : bool) : Prop :=
  exists st4, prepared K S st st4 /\
    regularize_and_factorize S d (st_kkt st4) (st_refine st) (fault (st_calls st)) = Ok (kk, ok).

Theorem loop_pass_protocol st o :
  LP st = Ok o ->
  (exists st', o = Stop st' /\ early_stop st st') \/
  (exists kk ok st',
     pass_factorisation st kk ok /\ st_calls st' = Datatypes.S (st_calls st) /\ st_kkt st' = kk /\
     (ok = true -> o = Continue st' /\ success_step st st') /\
     (ok = false -> st_refine st = false -> o = Continue st' /\ refine_on_step st st') /\
     (ok = false -> st_refine st = true -> (i_factor_retires (st_inf st) < R)%Z ->
        o = Continue st' /\ retry_step st st') /\
     (ok = false -> st_refine st = true -> (R <= i_factor_retires (st_inf st))%Z ->
        o = Stop st' /\ numerics_stop st st')).
Proof.
  intros H. apply loop_pass_cases in H.
  destruct H as [H | (st4 & kk & ok & Hp & Hf & H)]; [left; exact H | right].
  pose proof Hp as (p1&p2&p3&p4&p5&p6&p7&p8&p9).
  assert (Hpf : pass_factorisation st kk ok).
  { exists st4. split; [exact Hp|]. rewrite <- p2, <- p3. exact Hf. }
  cbv zeta in H. destruct ok.
  - destruct H as (st' & -> & s1 & s2 & s3 & s4 & s5 & s6).
    exists kk, true, st'. split; [exact Hpf|].
    split; [rewrite s2, <- p3; reflexivity|]. split; [rewrite s3; reflexivity|].
    split; [intros _|repeat split; discriminate].
    split; [reflexivity|]. unfold success_step.
    rewrite s1, s4, s5, s6. repeat split; assumption.
  - set (st5 := st4 <| st_kkt := kk |> <| st_calls := Datatypes.S (st_calls st4) |>) in *.
    assert (Hc : forall st', st_calls st' = st_calls st5 -> st_calls st' = Datatypes.S (st_calls st))
      by (intros st' ->; subst st5; cbn; rewrite p3; reflexivity).
    destruct H as [(f1 & ->) | [(f1 & f2 & ->) | (f1 & f2 & ->)]];
      change (st_refine st4 = false) in f1 || change (st_refine st4 = true) in f1;
      try change (i_factor_retires (st_inf st4) < R)%Z in f2;
      try change (R <= i_factor_retires (st_inf st4))%Z in f2;
      rewrite p2 in f1; try rewrite p6 in f2.
    + exists kk, false, (st5 <| st_refine := true |>).
      split; [exact Hpf|]. split; [apply Hc; reflexivity|]. split; [reflexivity|].
      split; [discriminate|]. split; [|split; intros; (congruence || lia)].
      intros _ _. split; [reflexivity|]. unfold refine_on_step. subst st5. cbn. repeat split; (assumption || congruence).
    + exists kk, false, (st5 <| st_inf := (bump_reg K S (st_inf st5)) <| i_iter := (i_iter (st_inf st5) - 1)%Z |> |>).
      split; [exact Hpf|]. split; [apply Hc; reflexivity|]. split; [reflexivity|].
      split; [discriminate|]. split; [intros; congruence|]. split; [|intros; lia].
      intros _ _ _. split; [reflexivity|]. unfold retry_step. subst st5. cbn.
      rewrite p1, p4, p5, p6, p7, p8, p9. repeat split; try lia; congruence.
    + exists kk, false, (st5 <| st_inf := (st_inf st5) <| i_status := NUMERICS |> |>).
      split; [exact Hpf|]. split; [apply Hc; reflexivity|]. split; [reflexivity|].
      split; [discriminate|]. split; [intros; congruence|]. split; [intros; lia|].
      intros _ _ _. split; [reflexivity|]. unfold numerics_stop. subst st5. cbn. repeat split; (assumption || congruence).
Qed.


(* ---- T4: the iterate after a pass ---- *)
Lemma shift_it_fields it :
  x (shift_it K it) = x it /\ y (shift_it K it) = y it /\ s (shift_it K it) = s it /\
  s_lb (shift_it K it) = s_lb it /\ s_ub (shift_it K it) = s_ub it /\ zeta (shift_it K it) = zeta it /\
  lambda (shift_it K it) = lambda it /\ nu (shift_it K it) = nu it /\ nu_lb (shift_it K it) = nu_lb it /\
  nu_ub (shift_it K it) = nu_ub it /\
  z (shift_it K it) = bshift K (z it) /\ z_lb (shift_it K it) = bshift K (z_lb it) /\
  z_ub (shift_it K it) = bshift K (z_ub it).
Proof. repeat split. Qed.

(* a pass that does not end in a successful factorisation leaves the iterate alone (up to the boundary shift) *)
Theorem failed_pass_iterate st o :
  LP st = Ok o ->
  (exists st', o = Stop st' /\ st_it st' = st_it st /\
               (i_status (st_inf st') = SOLVED \/ i_status (st_inf st') = PRIMAL_INFEASIBLE \/
                i_status (st_inf st') = DUAL_INFEASIBLE)) \/
  (exists kk st', pass_factorisation st kk false /\ (o = Continue st' \/ o = Stop st') /\
                  st_it st' = shift_it K (st_it st)) \/
  (exists kk st', pass_factorisation st kk true /\ o = Continue st').
Proof.
  intros H. apply loop_pass_protocol in H.
  destruct H as [(st' & -> & He) | (kk & ok & st' & Hpf & _ & _ & Hs & H1 & H2 & H3)].
  - left. exists st'. destruct He as (e1&_&_&_&e5&_). auto.
  - right. destruct ok.
    + right. exists kk, st'. destruct (Hs eq_refl) as [-> _]. auto.
    + left. exists kk, st'. split; [exact Hpf|].
      destruct (st_refine st) eqn:Er.
      * destruct (Z.lt_ge_cases (i_factor_retires (st_inf st)) R) as [Hlt|Hge].
        -- destruct (H2 eq_refl eq_refl Hlt) as [-> (q&_)]. auto.
        -- destruct (H3 eq_refl eq_refl Hge) as [-> (q&_)]. auto.
      * destruct (H1 eq_refl eq_refl) as [-> (q&_)]. auto.
Qed.

(* ---- NUMERICS is produced only by a failed factorisation with refinement on and no retries left ---- *)
Theorem numerics_only st o :
  LP st = Ok o ->
  match o with
  | Continue st' => i_status (st_inf st') = i_status (st_inf st)
  | Stop st' =>
      i_status (st_inf st') = NUMERICS ->
      st_refine st = true /\ (R <= i_factor_retires (st_inf st))%Z /\
      (exists kk, pass_factorisation st kk false) /\ numerics_stop st st'
  end.
Proof.
  intros H. apply loop_pass_protocol in H.
  destruct H as [(st' & -> & He) | (kk & ok & st' & Hpf & _ & _ & Hs & H1 & H2 & H3)].
  - destruct He as (_&_&_&_&[e|[e|e]]&_); intros Hn; rewrite Hn in e; discriminate.
  - destruct ok.
    + destruct (Hs eq_refl) as [-> (_&q&_)]. exact q.
    + destruct (st_refine st) eqn:Er.
      * destruct (Z.lt_ge_cases (i_factor_retires (st_inf st)) R) as [Hlt|Hge].
        -- destruct (H2 eq_refl eq_refl Hlt) as [-> (_&_&q&_)]. exact q.
        -- destruct (H3 eq_refl eq_refl Hge) as [-> q]. intros _. split; [reflexivity|]. split; [exact Hge|]. split; [eauto|exact q].
      * destruct (H1 eq_refl eq_refl) as [-> (_&_&q&_)]. exact q.
Qed.

(* ---- control summary of a pass, used for the loop-level theorems ---- *)
Lemma pass_ctl st o :
  LP st = Ok o ->
  match o with
  | Stop st' =>
      ((i_status (st_inf st') = SOLVED \/ i_status (st_inf st') = PRIMAL_INFEASIBLE \/
        i_status (st_inf st') = DUAL_INFEASIBLE) /\
       i_iter (st_inf st') = i_iter (st_inf st) /\
       i_factor_retires (st_inf st') = i_factor_retires (st_inf st) /\
       st_calls st' = st_calls st /\ st_refine st' = st_refine st) \/
      (i_status (st_inf st') = NUMERICS /\ i_iter (st_inf st') = (i_iter (st_inf st) + 1)%Z /\
       i_factor_retires (st_inf st') = i_factor_retires (st_inf st) /\
       (R <= i_factor_retires (st_inf st))%Z /\
       st_calls st' = Datatypes.S (st_calls st) /\ st_refine st' = true)
  | Continue st' =>
      i_status (st_inf st') = i_status (st_inf st) /\ st_calls st' = Datatypes.S (st_calls st) /\
      ((i_iter (st_inf st') = (i_iter (st_inf st) + 1)%Z /\ i_factor_retires (st_inf st') = 0%Z /\
        st_refine st' = st_refine st) \/
       (i_iter (st_inf st') = (i_iter (st_inf st) + 1)%Z /\
        i_factor_retires (st_inf st') = i_factor_retires (st_inf st) /\
        st_refine st = false /\ st_refine st' = true) \/
       (i_iter (st_inf st') = i_iter (st_inf st) /\
        i_factor_retires (st_inf st') = (i_factor_retires (st_inf st) + 1)%Z /\
        (i_factor_retires (st_inf st) < R)%Z /\ st_refine st = true /\ st_refine st' = true))
  end.
Proof.
  intros H. apply loop_pass_protocol in H.
  destruct H as [(st' & -> & He) | (kk & ok & st' & Hpf & Hc & _ & Hs & H1 & H2 & H3)].
  - left. destruct He as (_&e2&e3&_&e5&e6&e7&_). auto.
  - destruct ok.
    + destruct (Hs eq_refl) as [-> (q1&q2&q3&q4)]. auto 10.
    + destruct (st_refine st) eqn:Er.
      * destruct (Z.lt_ge_cases (i_factor_retires (st_inf st)) R) as [Hlt|Hge].
        -- destruct (H2 eq_refl eq_refl Hlt) as [-> (_&q2&q3&q4&q5&_)]. auto 10.
        -- destruct (H3 eq_refl eq_refl Hge) as [-> (_&q2&q3&q4&q5&_)]. right. auto 10.
      * destruct (H1 eq_refl eq_refl) as [-> (_&q2&q3&q4&q5&_)]. auto 10.
Qed.

End Protocol.

(* ================================================================================================ *)
(* Part 5: the main loop: termination, status, bounds, call accounting                                *)
(* ================================================================================================ *)
Section Loop.
Variable K : Consts.
Variable S : Settings.
Variable d : Data.
Variable pc : Precond.
Variable fault : nat -> bool.
Variable cp : F -> F.

Notation LP := (loop_pass K S d pc fault cp).
Notation ML := (main_loop K S d pc fault cp).
Notation M := (max_iter S).
Notation R := (max_factor_retires S).

Definition Inv (st : St) : Prop :=
  (0 <= i_iter (st_inf st) <= M)%Z /\ (0 <= i_factor_retires (st_inf st) <= R)%Z.

(* the termination measure *)
Definition Phi (st : St) : Z :=
  ((M - i_iter (st_inf st)) * (R + 1) + (R - i_factor_retires (st_inf st)))%Z.

Lemma Phi_nonneg st : Inv st -> (0 <= Phi st)%Z.
Proof. unfold Inv, Phi. nia. Qed.

Lemma Phi_pos st : Inv st -> (i_iter (st_inf st) < M)%Z -> (1 <= Phi st)%Z.
Proof. unfold Inv, Phi. nia. Qed.

Lemma Phi_lt_loop_fuel st : Inv st -> (Phi st < Z.of_nat (loop_fuel S))%Z.
Proof.
  unfold Inv, Phi, loop_fuel. intros [[? ?] [? ?]].
  rewrite Z2Nat.id by nia. nia.
Qed.

Lemma main_loop_S f st :
  ML (Datatypes.S f) st =
  if (i_iter (st_inf st) <? M)%Z then
    do o <- LP st ;; match o with Continue st' => ML f st' | Stop st' => Ok st' end
  else Ok (st <| st_inf := (st_inf st) <| i_status := MAX_ITER_REACHED |> |>).
Proof. reflexivity. Qed.

(* every [Continue] strictly decreases Phi, keeps the invariant and costs exactly one factorisation call *)
Lemma pass_continue st st' :
  Inv st -> (i_iter (st_inf st) < M)%Z -> LP st = Ok (Continue st') ->
  Inv st' /\ (Phi st' < Phi st)%Z /\ st_calls st' = Datatypes.S (st_calls st) /\
  i_status (st_inf st') = i_status (st_inf st).
Proof.
  intros [[i1 i2] [r1 r2]] Hlt H. apply pass_ctl in H. destruct H as (Hs & Hc & H).
  unfold Inv, Phi.
  destruct H as [(e1&e2&_) | [(e1&e2&_) | (e1&e2&e3&_)]]; rewrite e1, e2; repeat split; try assumption; nia.
Qed.

Lemma pass_stop st st' :
  Inv st -> (i_iter (st_inf st) < M)%Z -> LP st = Ok (Stop st') ->
  Inv st' /\
  ((i_status (st_inf st') = SOLVED \/ i_status (st_inf st') = PRIMAL_INFEASIBLE \/
    i_status (st_inf st') = DUAL_INFEASIBLE) /\ (i_iter (st_inf st') < M)%Z /\ st_calls st' = st_calls st
   \/
   i_status (st_inf st') = NUMERICS /\ st_refine st' = true /\ i_factor_retires (st_inf st') = R /\
   st_calls st' = Datatypes.S (st_calls st)).
Proof.
  intros [[i1 i2] [r1 r2]] Hlt H. apply pass_ctl in H. unfold Inv.
  destruct H as [(Hs&e1&e2&e3&_) | (Hs&e1&e2&e3&e4&e5)]; rewrite e1, e2.
  - split; [lia|]. left. repeat split; (assumption || lia).
  - split; [lia|]. right. repeat split; (assumption || lia).
Qed.

(* T1: fuel sufficiency *)
Theorem main_loop_fuel_enough f : forall st,
  Inv st -> (Phi st < Z.of_nat f)%Z -> ML f st <> Err Fuel.
Proof.
  induction f as [|f IH]; intros st HI Hf.
  - pose proof (Phi_nonneg st HI). cbn in Hf. lia.
  - rewrite main_loop_S. destruct (i_iter (st_inf st) <? M)%Z eqn:Hlt; [|discriminate].
    apply Z.ltb_lt in Hlt.
    destruct (LP st) as [[st'|st']|e] eqn:E; cbn [bind].
    + destruct (pass_continue st st' HI Hlt E) as (HI' & Hd & _). apply IH; [exact HI'|lia].
    + discriminate.
    + intros H; injection H as ->. exact (NF_loop_pass K S d pc fault cp st E).
Qed.

Theorem main_loop_terminates st : Inv st -> ML (loop_fuel S) st <> Err Fuel.
Proof. intros HI. apply main_loop_fuel_enough; [exact HI | apply Phi_lt_loop_fuel; exact HI]. Qed.

(* T2 + T5 (+ the loop-level part of T3) *)
Definition final_ok (st st' : St) : Prop :=
  Inv st' /\
  (i_status (st_inf st') = SOLVED \/ i_status (st_inf st') = MAX_ITER_REACHED \/
   i_status (st_inf st') = PRIMAL_INFEASIBLE \/ i_status (st_inf st') = DUAL_INFEASIBLE \/
   i_status (st_inf st') = NUMERICS) /\
  (i_status (st_inf st') = MAX_ITER_REACHED -> i_iter (st_inf st') = M) /\
  (i_status (st_inf st') = SOLVED \/ i_status (st_inf st') = PRIMAL_INFEASIBLE \/
   i_status (st_inf st') = DUAL_INFEASIBLE -> (i_iter (st_inf st') < M)%Z) /\
  (i_status (st_inf st') = NUMERICS -> st_refine st' = true /\ i_factor_retires (st_inf st') = R) /\
  (st_calls st <= st_calls st')%nat /\
  (Z.of_nat (st_calls st') <= Z.of_nat (st_calls st) + Phi st)%Z.

Theorem main_loop_result f : forall st st',
  Inv st -> ML f st = Ok st' -> final_ok st st' /\ (st_calls st' <= st_calls st + f)%nat.
Proof.
  induction f as [|f IH]; intros st st' HI H; [discriminate|].
  rewrite main_loop_S in H. destruct (i_iter (st_inf st) <? M)%Z eqn:Hlt.
  - apply Z.ltb_lt in Hlt.
    destruct (LP st) as [[st1|st1]|e] eqn:E; cbn [bind] in H; [| |discriminate].
    + destruct (pass_continue st st1 HI Hlt E) as (HI1 & Hd & Hc & _).
      destruct (IH st1 st' HI1 H) as ((g1&g2&g3&g4&g5&g6&g7) & g8).
      split; [|lia]. split; [exact g1|]. split; [exact g2|]. split; [exact g3|]. split; [exact g4|].
      split; [exact g5|]. split; lia.
    + apply Ok_inj in H; subst st1.
      pose proof (Phi_pos st HI Hlt) as Hp.
      destruct (pass_stop st st' HI Hlt E) as (HI' & [(Hs&Hi&Hc) | (Hs&Hr&Hq&Hc)]).
      * split; [|lia]. split; [exact HI'|].
        split; [destruct Hs as [e|[e|e]]; auto|].
        split; [intros e; destruct Hs as [e'|[e'|e']]; rewrite e' in e; discriminate|].
        split; [intros _; exact Hi|].
        split; [intros e; destruct Hs as [e'|[e'|e']]; rewrite e' in e; discriminate|].
        split; lia.
      * split; [|lia]. split; [exact HI'|].
        split; [auto 10|].
        split; [intros e; rewrite Hs in e; discriminate|].
        split; [intros [e|[e|e]]; rewrite Hs in e; discriminate|].
        split; [intros _; auto|].
        split; lia.
  - apply Z.ltb_ge in Hlt. apply Ok_inj in H; subst st'.
    pose proof (Phi_nonneg st HI) as Hp. pose proof HI as [[i1 i2] [r1 r2]].
    split; [|cbn; lia]. split; [exact HI|].
    split; [right; left; reflexivity|].
    split; [intros _; cbn; lia|].
    split; [intros [e|[e|e]]; discriminate|].
    split; [intros e; discriminate|].
    cbn. split; lia.
Qed.

End Loop.

(* ================================================================================================ *)
(* Part 6: the initial factorisation retry loop                                                       *)
(* ================================================================================================ *)
Section Init.
Variable K : Consts.
Variable S : Settings.
Variable d : Data.
Variable fault : nat -> bool.

Notation IF := (init_factor K S d fault).
Notation R := (max_factor_retires S).

Lemma init_factor_S f st :
  IF (Datatypes.S f) st =
  do '(st1, ok) <- do_factorize S d fault st ;;
  if ok then Ok (st1, true)
  else if negb (st_refine st1) then IF f (st1 <| st_refine := true |>)
  else if (i_factor_retires (st_inf st1) <? R)%Z then
    do st2 <- do_update_scalings d (st1 <| st_inf := bump_reg K S (st_inf st1) |>) ;;
    IF f st2
  else Ok (st1 <| st_inf := (st_inf st1) <| i_status := NUMERICS |> |>, false).
Proof. reflexivity. Qed.

(* one unrolling of the loop, in terms of regularize_and_factorize (T3 for the initial loop) *)
Theorem init_factor_protocol f st r :
  IF (Datatypes.S f) st = Ok r ->
  exists kk ok,
    regularize_and_factorize S d (st_kkt st) (st_refine st) (fault (st_calls st)) = Ok (kk, ok) /\
    let st1 := st <| st_kkt := kk |> <| st_calls := Datatypes.S (st_calls st) |> in
    (ok = true -> r = (st1, true)) /\
    (ok = false -> st_refine st = false -> IF f (st1 <| st_refine := true |>) = Ok r) /\
    (ok = false -> st_refine st = true -> (i_factor_retires (st_inf st) < R)%Z ->
       exists k2, kkt_update_scalings d kk (i_rho (st_inf st) * k_retry_mul K) (i_delta (st_inf st) * k_retry_mul K)
                    (s (st_it st)) (s_lb (st_it st)) (s_ub (st_it st)) (z (st_it st)) (z_lb (st_it st)) (z_ub (st_it st)) = Ok k2 /\
                  IF f (st1 <| st_inf := bump_reg K S (st_inf st) |> <| st_kkt := k2 |>) = Ok r) /\
    (ok = false -> st_refine st = true -> (R <= i_factor_retires (st_inf st))%Z ->
       r = (st1 <| st_inf := (st_inf st) <| i_status := NUMERICS |> |>, false)).
Proof.
  rewrite init_factor_S. exec; intros H.
  all: subst b.
  all: destruct (do_factorize_spec _ _ _ _ _ _ E) as (kk & Hf & ->); eexists kk, _; (split; [exact Hf|]); cbv zeta.
  - apply Ok_inj in H. subst r. repeat split; intros; congruence.
  - change (negb (st_refine st) = true) in C0. apply negb_true_iff in C0.
    split; [discriminate|]. split; [intros; exact H|]. split; intros; congruence.
  - change (negb (st_refine st) = false) in C0. apply negb_false_iff in C0.
    change (i_factor_retires (st_inf st) <? R = true)%Z in C1. apply Z.ltb_lt in C1.
    split; [discriminate|]. split; [intros; congruence|]. split; [|intros; lia].
    intros _ _ _. revert E0. cbv delta [do_update_scalings]. exec. intros Hq. apply Ok_inj in Hq. subst a.
    eexists. split; [eassumption|]. exact H.
  - change (negb (st_refine st) = false) in C0. apply negb_false_iff in C0.
    change (i_factor_retires (st_inf st) <? R = false)%Z in C1. apply Z.ltb_ge in C1.
    apply Ok_inj in H. subst r.
    split; [discriminate|]. split; [intros; congruence|]. split; [intros; lia|]. reflexivity.
Qed.


(* termination measure of the initial loop *)
Definition Psi (st : St) : Z :=
  ((R - i_factor_retires (st_inf st)) + (if st_refine st then 0 else 1))%Z.

Theorem init_factor_fuel_enough f : forall st,
  (i_factor_retires (st_inf st) <= R)%Z -> (Psi st < Z.of_nat f)%Z -> IF f st <> Err Fuel.
Proof.
  induction f as [|f IH]; intros st Hr Hf.
  - unfold Psi in Hf. destruct (st_refine st); cbn in Hf; lia.
  - rewrite init_factor_S.
    destruct (do_factorize S d fault st) as [[st1 ok]|e] eqn:E; cbn [bind].
    2: { intros H; injection H as ->. exact (NF_do_factorize _ _ _ _ E). }
    destruct (do_factorize_spec _ _ _ _ _ _ E) as (kk & _ & ->).
    destruct ok; [discriminate|].
    change (st_refine (st <| st_kkt := kk |> <| st_calls := Datatypes.S (st_calls st) |>)) with (st_refine st).
    change (st_inf (st <| st_kkt := kk |> <| st_calls := Datatypes.S (st_calls st) |>)) with (st_inf st).
    unfold Psi in Hf.
    destruct (st_refine st) eqn:Er; cbn [negb].
    + destruct (i_factor_retires (st_inf st) <? R)%Z eqn:C; [|discriminate].
      apply Z.ltb_lt in C.
      match goal with |- bind ?e _ <> _ => destruct e as [st2|e2] eqn:E2 end; cbn [bind].
      2: { intros H; injection H as ->. exact (NF_do_update_scalings _ _ E2). }
      destruct (do_update_scalings_spec _ _ _ E2) as (k2 & ->).
      apply IH; unfold Psi; cbn; rewrite ?Er; cbn; lia.
    + apply IH; unfold Psi; cbn; lia.
Qed.

Theorem init_factor_terminates st :
  (0 <= i_factor_retires (st_inf st) <= R)%Z -> IF (init_fuel S) st <> Err Fuel.
Proof.
  intros [H0 H1]. apply init_factor_fuel_enough; [exact H1|].
  unfold Psi, init_fuel. rewrite Z2Nat.id by lia. destruct (st_refine st); lia.
Qed.


(* what the initial loop as a whole does *)
Definition init_result (st st' : St) (ok : bool) : Prop :=
  st_it st' = st_it st /\ i_iter (st_inf st') = i_iter (st_inf st) /\
  (i_factor_retires (st_inf st) <= i_factor_retires (st_inf st'))%Z /\
  ((i_factor_retires (st_inf st) <= R)%Z -> (i_factor_retires (st_inf st') <= R)%Z) /\
  (st_refine st = true -> st_refine st' = true) /\
  (ok = true -> i_status (st_inf st') = i_status (st_inf st)) /\
  (ok = false -> i_status (st_inf st') = NUMERICS /\ st_refine st' = true /\
                 (R <= i_factor_retires (st_inf st'))%Z) /\
  (* exact number of factorisation calls: 1 + #retries + 1 if refinement had to be switched on *)
  Z.of_nat (st_calls st') =
    (Z.of_nat (st_calls st) + 1 + (i_factor_retires (st_inf st') - i_factor_retires (st_inf st)) +
     (if st_refine st then 0 else if st_refine st' then 1 else 0))%Z /\
  (* the regularisation has been multiplied by k_retry_mul once per retry *)
  i_rho (st_inf st') =
    i_rho (st_inf st) * Qcpower (k_retry_mul K) (Z.to_nat (i_factor_retires (st_inf st') - i_factor_retires (st_inf st))) /\
  i_delta (st_inf st') =
    i_delta (st_inf st) * Qcpower (k_retry_mul K) (Z.to_nat (i_factor_retires (st_inf st') - i_factor_retires (st_inf st))).

Lemma Qcpower_S (q : Qc) n : Qcpower q (Datatypes.S n) = q * Qcpower q n.
Proof. reflexivity. Qed.

Theorem init_factor_result f : forall st st' ok,
  IF f st = Ok (st', ok) -> init_result st st' ok.
Proof.
  induction f as [|f IH]; intros st st' ok H; [discriminate|].
  apply init_factor_protocol in H. destruct H as (kk & ok1 & _ & H). cbv zeta in H.
  destruct H as (H1 & H2 & H3 & H4).
  destruct ok1.
  - specialize (H1 eq_refl). injection H1 as -> ->. unfold init_result. cbn -[Z.add Z.sub Z.of_nat Z.to_nat Qcpower Qcmult].
    replace (i_factor_retires (st_inf st) - i_factor_retires (st_inf st))%Z with 0%Z by lia.
    cbn. rewrite !Qcmult_1_r.
    split; [reflexivity|]. split; [reflexivity|]. split; [lia|]. split; [auto|]. split; [auto|].
    split; [reflexivity|]. split; [discriminate|]. split; [destruct (st_refine st); lia|]. split; reflexivity.
  - destruct (st_refine st) eqn:Er.
    + destruct (Z.lt_ge_cases (i_factor_retires (st_inf st)) R) as [Hlt|Hge].
      * destruct (H3 eq_refl eq_refl Hlt) as (k2 & _ & Hrec). apply IH in Hrec.
        destruct Hrec as (g1&g2&g3&g4&g5&g6&g7&g8&g9&g10). cbn -[Z.add Z.sub Z.of_nat Z.to_nat Qcpower Qcmult] in g1, g2, g3, g4, g5, g6, g8, g9, g10.
        rewrite Er in g8.
        assert (Hn : Z.to_nat (i_factor_retires (st_inf st') - i_factor_retires (st_inf st)) =
                     Datatypes.S (Z.to_nat (i_factor_retires (st_inf st') - (i_factor_retires (st_inf st) + 1))))
          by lia.
        unfold init_result. rewrite Hn, Qcpower_S, g9, g10, Er.
        split; [exact g1|]. split; [exact g2|]. split; [lia|]. split; [intros; apply g4; lia|].
        split; [intros _; apply g5; exact Er|]. split; [exact g6|]. split; [exact g7|].
        split; [lia|]. split; symmetry; apply Qcmult_assoc.
      * specialize (H4 eq_refl eq_refl Hge). injection H4 as -> ->. unfold init_result. cbn -[Z.add Z.sub Z.of_nat Z.to_nat Qcpower Qcmult].
        replace (i_factor_retires (st_inf st) - i_factor_retires (st_inf st))%Z with 0%Z by lia.
        cbn. rewrite !Qcmult_1_r, Er.
        split; [reflexivity|]. split; [reflexivity|]. split; [lia|]. split; [auto|]. split; [auto|].
        split; [discriminate|]. split; [intros _; repeat split; lia|]. split; [lia|]. split; reflexivity.
    + specialize (H2 eq_refl eq_refl). apply IH in H2.
      destruct H2 as (g1&g2&g3&g4&g5&g6&g7&g8&g9&g10). cbn -[Z.add Z.sub Z.of_nat Z.to_nat Qcpower Qcmult] in g1, g2, g3, g4, g5, g6, g8, g9, g10.
      specialize (g5 eq_refl).
      unfold init_result. rewrite Er, g5, g9, g10.
      split; [exact g1|]. split; [exact g2|]. split; [exact g3|]. split; [exact g4|].
      split; [discriminate|]. split; [exact g6|].
      split; [intros e; destruct (g7 e) as (q1&q2&q3); auto|]. split; [lia|]. split; reflexivity.
Qed.

End Init.

(* ================================================================================================ *)
(* Part 7: factorisation-call accounting at the call site; settings; the solve() entry point          *)
(* ================================================================================================ *)

(* T5: one call of do_factorize consumes exactly one oracle index, namely [st_calls st], and
   nothing else of the oracle is looked at *)
Theorem do_factorize_calls S d fault st st' ok :
  do_factorize S d fault st = Ok (st', ok) ->
  st_calls st' = Datatypes.S (st_calls st) /\
  st_it st' = st_it st /\ st_inf st' = st_inf st /\ st_refine st' = st_refine st /\ st_res st' = st_res st.
Proof.
  intros H. destruct (do_factorize_spec _ _ _ _ _ _ H) as (k & _ & ->). repeat split.
Qed.

Theorem do_factorize_oracle_local S d fault fault' st :
  fault' (st_calls st) = fault (st_calls st) ->
  do_factorize S d fault' st = do_factorize S d fault st.
Proof. intros H. cbv delta [do_factorize]. cbv beta. rewrite H. reflexivity. Qed.

(* a forced failure (hook H1) never touches the KKT object *)
Lemma forced_failure S d k r : regularize_and_factorize S d k r true = Ok (k, false).
Proof. reflexivity. Qed.

Lemma verify_settings_bounds S :
  verify_settings S = true -> (0 < max_iter S)%Z /\ (0 < max_factor_retires S)%Z.
Proof.
  unfold verify_settings. intros H.
  repeat (apply andb_prop in H; destruct H as [H ?]).
  split; apply Z.ltb_lt; assumption.
Qed.

(* the entry state of the main loop used by solve(): iter = 0, factor_retires = 0 *)
Lemma Inv_start S st :
  verify_settings S = true -> i_iter (st_inf st) = 0%Z -> i_factor_retires (st_inf st) = 0%Z -> Inv S st.
Proof.
  intros H e1 e2. destruct (verify_settings_bounds S H). unfold Inv. rewrite e1, e2. lia.
Qed.

(* ---- solve(): with settings accepted by verify_settings the model never runs out of fuel ---- *)
Lemma NF_swap {A} (v : list A) i j : NF (swap v i j).
Proof. cbv delta [swap]; nf. Qed.
#[global] Hint Extern 1 (NF (swap _ _ _)) => apply NF_swap : nf.
Lemma NF_swap_loop {A} ridx : forall (v : list A) i, NF (swap_loop v i ridx).
Proof. induction ridx as [|j t IH]; intros v [|i]; cbn [swap_loop]; nf. Qed.
#[global] Hint Extern 1 (NF (swap_loop _ _ _)) => apply NF_swap_loop : nf.
Lemma NF_restore_one {A} (dflt : A) n v idx : NF (restore_one dflt n v idx).
Proof. cbv delta [restore_one]; nf. Qed.
#[global] Hint Extern 1 (NF (restore_one _ _ _ _)) => apply NF_restore_one : nf.
Lemma NF_unscale_and_restore junk sv it : NF (unscale_and_restore junk sv it).
Proof. cbv delta [unscale_and_restore]; nf. Qed.

Lemma initial_point_ctl K S d cp st st' :
  initial_point K S d cp st = Ok st' ->
  i_iter (st_inf st') = i_iter (st_inf st) /\ i_factor_retires (st_inf st') = i_factor_retires (st_inf st) /\
  i_status (st_inf st') = i_status (st_inf st) /\ st_calls st' = st_calls st /\ st_refine st' = st_refine st.
Proof.
  cbv delta [initial_point]. exec. intros H. apply Ok_inj in H. subst st'.
  match goal with E0 : _ = Ok (_, ?inf1) |- _ =>
    assert (Hi : i_iter inf1 = i_iter (st_inf st) /\ i_factor_retires inf1 = i_factor_retires (st_inf st) /\
                 i_status inf1 = i_status (st_inf st))
      by (revert E0; exec; intros H; apply Ok_inj in H; injection H as _ <-; repeat split) end.
  destruct Hi as (h1&h2&h3). cbn. auto.
Qed.

Theorem solve_never_out_of_fuel K junk cp_bits fault sv :
  verify_settings (sv_set sv) = true -> solve K junk cp_bits fault sv <> Err Fuel.
Proof.
  intros Hv. destruct (verify_settings_bounds _ Hv) as [HM HR].
  change (NF (solve K junk cp_bits fault sv)). cbv delta [solve]. cbv beta.
  repeat lazymatch goal with
  | |- NF (let x := ?v in @?b x) =>
      let y := fresh x in let Hy := fresh "D" in
      refine (let_intro v b (fun e => NF e) _); intros y Hy; cbv beta
  end.
  apply NF_bind; [destruct (sv_kkt_init_state sv); nf|]. intros st1 H1.
  assert (Hinf1 : st_inf st1 = inf0).
  { destruct (sv_kkt_init_state sv).
    - apply Ok_inj in H1. subst st1 st0. reflexivity.
    - apply do_update_scalings_spec in H1. destruct H1 as (k & ->). subst st0. reflexivity. }
  assert (Hi0 : i_iter inf0 = 0%Z /\ i_factor_retires inf0 = 0%Z) by (subst inf0; split; reflexivity).
  destruct Hi0 as [Hit0 Hfr0].
  apply NF_bind.
  { subst S. apply init_factor_terminates. rewrite Hinf1, Hfr0. lia. }
  intros [st2 ok] H2. apply init_factor_result in H2. destruct H2 as (_ & Hit2 & _).
  rewrite Hinf1, Hit0 in Hit2.
  lazymatch goal with |- NF (let x := ?v in @?b x) =>
    refine (let_intro v b (fun e => NF e) _); intros fin Hfin; cbv beta end.
  destruct ok; cbn [negb]; cbv iota.
  - apply NF_bind; [apply NF_initial_point|]. intros st3 H3.
    apply initial_point_ctl in H3. destruct H3 as (h1&h2&_).
    apply NF_bind.
    + subst S. apply main_loop_terminates. apply Inv_start; [exact Hv| |].
      * rewrite h1. exact Hit2.
      * rewrite h2. reflexivity.
    + intros st4 _. subst fin. cbv beta. apply NF_bind; [apply NF_unscale_and_restore|]. intros; apply NF_ok.
  - subst fin. cbv beta. apply NF_bind; [apply NF_unscale_and_restore|]. intros; apply NF_ok.
Qed.

(* solve(): status, iteration and retry bounds, total number of factorisation calls *)
Theorem solve_result K junk cp_bits fault sv sv' stt :
  verify_settings (sv_set sv) = true ->
  solve K junk cp_bits fault sv = Ok (sv', stt) ->
  let M := max_iter (sv_set sv) in let R := max_factor_retires (sv_set sv) in
  i_status (sv_info sv') = stt /\
  (stt = SOLVED \/ stt = MAX_ITER_REACHED \/ stt = PRIMAL_INFEASIBLE \/ stt = DUAL_INFEASIBLE \/ stt = NUMERICS) /\
  (0 <= i_iter (sv_info sv') <= M)%Z /\
  (0 <= i_factor_retires (sv_info sv') <= R)%Z /\
  (stt = MAX_ITER_REACHED -> i_iter (sv_info sv') = M) /\
  (stt = NUMERICS -> sv_refine sv' = true /\ i_factor_retires (sv_info sv') = R) /\
  (Z.of_nat (sv_calls sv) <= Z.of_nat (sv_calls sv') <= Z.of_nat (sv_calls sv) + (R + 2) + (M * (R + 1) + R))%Z.
Proof.
  intros Hv. destruct (verify_settings_bounds _ Hv) as [HM HR].
  cbv delta [solve]. exec.
  all: intros H.
  all: assert (Hinf1 : st_inf a = inf0 /\ st_calls a = sv_calls sv /\ st_refine a = sv_refine sv)
    by (destruct (sv_kkt_init_state sv);
        [ apply Ok_inj in E; subst a st0; repeat split
        | apply do_update_scalings_spec in E; destruct E as (k & ->); subst st0; repeat split ]);
    destruct Hinf1 as (Hinf1 & Hc1 & Hr1).
  all: assert (Hi0 : i_iter inf0 = 0%Z /\ i_factor_retires inf0 = 0%Z) by (subst inf0; split; reflexivity);
    destruct Hi0 as [Hit0 Hfr0].
  all: apply init_factor_result in E0; destruct E0 as (_ & g2 & g3 & g4 & _ & _ & g7 & g8 & _);
    rewrite Hinf1 in g2, g3, g4, g8; rewrite Hit0 in g2; rewrite Hfr0 in g3, g4, g8; rewrite Hc1 in g8;
    subst S; specialize (g4 ltac:(lia)).
  - (* initial factorisation gave up *)
    destruct b; [discriminate|]. destruct (g7 eq_refl) as (q1&q2&q3).
    subst fin. revert H. exec. intros H. apply Ok_inj in H. injection H as <- <-. cbn.
    rewrite q1, g2.
    split; [reflexivity|]. split; [auto 10|]. split; [lia|]. split; [lia|].
    split; [discriminate|]. split; [intros _; split; [exact q2|lia]|].
    repeat match goal with H : context[if ?c then _ else _] |- _ => destruct c end; nia.
  - (* main loop *)
    destruct b; [|discriminate].
    apply initial_point_ctl in E1. destruct E1 as (h1&h2&_&h4&_). cbn in h1, h2, h4.
    assert (HI : Inv (sv_set sv) a0) by (apply Inv_start; [exact Hv|rewrite h1; exact g2|exact h2]).
    apply main_loop_result in E2; [|exact HI].
    destruct E2 as ((m1&m2&m3&m4&m5&m6&m7)&_). destruct m1 as [m1a m1b].
    unfold Phi in m7. rewrite h1, h2, g2 in m7. rewrite h4 in m6, m7.
    subst fin. revert H. exec. intros H. apply Ok_inj in H. injection H as <- <-. cbn.
    split; [reflexivity|]. split; [exact m2|]. split; [exact m1a|]. split; [exact m1b|].
    split; [exact m3|]. split; [exact m5|].
    repeat match goal with H : context[if ?c then _ else _] |- _ => destruct c end; nia.
Qed.

(* ================================================================================================ *)
(* Part 8: corollaries used in the property file                                                     *)
(* ================================================================================================ *)
Section Corollaries.
Variable K : Consts.
Variable S : Settings.
Variable d : Data.
Variable pc : Precond.
Variable fault : nat -> bool.
Variable cp : F -> F.
Notation LP := (loop_pass K S d pc fault cp).
Notation ML := (main_loop K S d pc fault cp).
Notation R := (max_factor_retires S).

(* hook H1 forces the failure of call number [st_calls st]: the pass either stops before the factorisation
   or follows the failure protocol *)
Theorem forced_failure_pass st o :
  fault (st_calls st) = true -> LP st = Ok o ->
  (exists st', o = Stop st' /\ early_stop st st') \/
  (exists st', st_calls st' = Datatypes.S (st_calls st) /\
     ((st_refine st = false /\ o = Continue st' /\ refine_on_step K S st st') \/
      (st_refine st = true /\ (i_factor_retires (st_inf st) < R)%Z /\ o = Continue st' /\ retry_step K S st st') \/
      (st_refine st = true /\ (R <= i_factor_retires (st_inf st))%Z /\ o = Stop st' /\ numerics_stop K st st'))).
Proof.
  intros Hfl H. apply loop_pass_protocol in H.
  destruct H as [H | (kk & ok & st' & (st4 & _ & Hf) & Hc & _ & _ & H1 & H2 & H3)]; [left; exact H | right].
  rewrite Hfl in Hf. change (Ok (st_kkt st4, false) = Ok (kk, ok)) in Hf. injection Hf as _ <-.
  exists st'. split; [exact Hc|].
  destruct (st_refine st) eqn:Er.
  - destruct (Z.lt_ge_cases (i_factor_retires (st_inf st)) R) as [Hlt|Hge].
    + right; left. destruct (H2 eq_refl eq_refl Hlt). auto.
    + right; right. destruct (H3 eq_refl eq_refl Hge). auto.
  - left. destruct (H1 eq_refl eq_refl). auto.
Qed.

(* T3, clause "reg_limit = min(k_reglim_mul * reg_limit, eps_abs)": true as stated only if the fine-tuning switch
   of the same pass did not fire; in general the factor applies to the switched limit *)
Theorem retry_reg_limit_as_stated st st' :
  retry_step K S st st' -> finetune_fires S (st_inf st) = false ->
  i_reg_limit (st_inf st') = qmin (k_reglim_mul K * i_reg_limit (st_inf st)) (eps_abs S).
Proof.
  intros (_&_&_&_&_&_&_&H) Hff. rewrite H. unfold reg_limit_at_factor. rewrite Hff. reflexivity.
Qed.

(* number of factorisation calls of the main loop: never more than the fuel, whatever the state *)
Theorem main_loop_calls_le_fuel f : forall st st',
  ML f st = Ok st' -> (st_calls st <= st_calls st' <= st_calls st + f)%nat.
Proof.
  induction f as [|f IH]; intros st st' H; [discriminate|].
  rewrite main_loop_S in H. destruct (i_iter (st_inf st) <? max_iter S)%Z.
  - destruct (LP st) as [[st1|st1]|e] eqn:E; cbn [bind] in H; [| |discriminate].
    + apply pass_ctl in E. destruct E as (_ & Hc & _). apply IH in H. lia.
    + apply Ok_inj in H; subst st1. apply pass_ctl in E.
      destruct E as [(_&_&_&Hc&_) | (_&_&_&_&Hc&_)]; lia.
  - apply Ok_inj in H; subst st'. cbn. lia.
Qed.

End Corollaries.

(* ================================================================================================ *)
(* Part 9: a concrete instance (for the non-vacuity examples)                                         *)
(* ================================================================================================ *)
(* min 0.5 x^2 + x  (n = 1, no constraints), identity preconditioner, default settings *)
Definition demo_blocks : Blocks :=
  {| b_P := Some [[1]]; b_c := Some [1]; b_A := None; b_b := None; b_G := None; b_h := None;
     b_lb := None; b_ub := None |}.
Definition demo_setup (S : Settings) : res Solver := setup consts true false 0 S 1 0 0 demo_blocks.

(* (status, iter, factor_retires, factorisation calls, refinement flag) after solve() *)
Definition demo_solve (S : Settings) (fault : nat -> bool) : option (Status * Z * Z * nat * bool) :=
  match demo_setup S with
  | Ok sv =>
      match solve consts 0 0 fault sv with
      | Ok (sv', stt) => Some (stt, i_iter (sv_info sv'), i_factor_retires (sv_info sv'), sv_calls sv', sv_refine sv')
      | Err _ => None
      end
  | Err _ => None
  end.

Definition with_max_iter (S : Settings) (m : Z) : Settings :=
  {| rho_init := rho_init S; delta_init := delta_init S; eps_abs := eps_abs S; eps_rel := eps_rel S;
     check_duality_gap := check_duality_gap S; eps_duality_gap_abs := eps_duality_gap_abs S;
     eps_duality_gap_rel := eps_duality_gap_rel S; reg_lower_limit := reg_lower_limit S;
     reg_finetune_lower_limit := reg_finetune_lower_limit S;
     reg_finetune_primal_update_threshold := reg_finetune_primal_update_threshold S;
     reg_finetune_dual_update_threshold := reg_finetune_dual_update_threshold S;
     max_iter := m; max_factor_retires := max_factor_retires S;
     preconditioner_scale_cost := preconditioner_scale_cost S; preconditioner_iter := preconditioner_iter S;
     tau := tau S; iterative_refinement_always_enabled := iterative_refinement_always_enabled S;
     iterative_refinement_eps_abs := iterative_refinement_eps_abs S;
     iterative_refinement_eps_rel := iterative_refinement_eps_rel S;
     iterative_refinement_max_iter := iterative_refinement_max_iter S;
     iterative_refinement_min_improvement_rate := iterative_refinement_min_improvement_rate S;
     iterative_refinement_static_regularization_eps := iterative_refinement_static_regularization_eps S;
     iterative_refinement_static_regularization_rel := iterative_refinement_static_regularization_rel S |}.

(* a main-loop entry state of the demo problem: x = 0, iter = 0, no retries so far *)
Definition demo_info : Info :=
  {| i_status := UNSOLVED; i_iter := 0; i_rho := rho_init default_settings; i_delta := delta_init default_settings;
     i_mu := 0; i_sigma := 0; i_primal_step := 0; i_dual_step := 0; i_primal_inf := 0; i_primal_rel_inf := 0;
     i_dual_inf := 0; i_dual_rel_inf := 0; i_primal_obj := 0; i_dual_obj := 0; i_duality_gap := 0;
     i_duality_gap_rel := 0; i_factor_retires := 0; i_reg_limit := reg_lower_limit default_settings;
     i_no_primal_update := 0; i_no_dual_update := 0 |}.
Definition demo_state (refine : bool) (inf : Info) : option (Data * Precond * St) :=
  match demo_setup default_settings with
  | Ok sv =>
      Some (sv_data sv, sv_pc sv,
            {| st_it := {| x := [0]; y := []; z := []; z_lb := []; z_ub := []; s := []; s_lb := []; s_ub := [];
                           zeta := [0]; lambda := []; nu := []; nu_lb := []; nu_ub := [] |};
               st_inf := inf; st_kkt := sv_kkt sv; st_refine := refine;
               st_res := {| rx_nr := []; ry_nr := []; rz_nr := []; rz_lb_nr := []; rz_ub_nr := [] |};
               st_calls := 0 |})
  | Err _ => None
  end.
(* one pass from the demo state; the result is summarised by decidable data:
   (is_Continue, status, iter, factor_retires, calls, refine,
    rho' == rho, rho' == rho * k_retry_mul, reg_limit' == min(k_reglim_mul * reg_limit, eps_abs)) *)
Definition demo_pass (refine : bool) (inf : Info) (fault : nat -> bool)
  : option (bool * Status * Z * Z * nat * bool * bool * bool * bool) :=
  match demo_state refine inf with
  | Some (d, pc, st) =>
      let sm (c : bool) (st' : St) :=
        Some (c, i_status (st_inf st'), i_iter (st_inf st'), i_factor_retires (st_inf st'),
              st_calls st', st_refine st',
              qeqb (i_rho (st_inf st')) (i_rho inf),
              qeqb (i_rho (st_inf st')) (i_rho inf * k_retry_mul consts),
              qeqb (i_reg_limit (st_inf st')) (qmin (k_reglim_mul consts * i_reg_limit inf) (eps_abs default_settings))) in
      match loop_pass consts default_settings d pc fault (fun q => q) st with
      | Ok (Continue st') => sm true st'
      | Ok (Stop st') => sm false st'
      | Err _ => None
      end
  | None => None
  end.
(* the same info with the fine-tuning switch armed: no_primal_update above its threshold and rho = reg_limit *)
Definition demo_info_finetune : Info :=
  demo_info <| i_no_primal_update := 8%Z |> <| i_reg_limit := i_rho demo_info |>.
