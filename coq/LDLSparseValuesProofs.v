(* LDLSparseValuesProofs.v -- C14 2c(iii), BOUNDED: for every upper pattern with full diagonal, n <= 4, and ALL values
   (symbolic evaluation of the numeric phase on variables, one straight-line rational programme per pattern, then
   [field]): the factorisation never fails, and if it returns n then L*D*L^T = A entry by entry.
   The bound is in the theorem names. *)
From PIQP Require Import Base CSC LDLSparse C14LemmasProofs PatternsProofs LDLSparseProofs.
Local Open Scope nat_scope.

(* unit lower factor read back from the CSC arrays of the result *)
Definition Lm_of (n : nat) (li : ldl_i) (lv : ldl_v) (j c : nat) : F :=
  if j =? c then 1%Qc else csc_get (mkcsc n n (i_Lcols li) (i_Lind li) (v_Lvals lv)) j c.
Definition pairs_le (n : nat) : list (nat * nat) := flat_map (fun j => map (fun i => (i, j)) (seq 0 (S j))) (seq 0 n).
Fixpoint conj_list (l : list Prop) : Prop := match l with [] => True | p :: t => p /\ conj_list t end.

(* (L D L^T)(j,i) = A(i,j) for all i <= j < n, A given by its stored upper triangle *)
Definition ldl_product_ok (A : csc F) : Prop :=
  match ldl_factor A with
  | Ok (r, (li, lv)) => r = nrows A ->
      conj_list (map (fun ij => sum_n (S (fst ij)) (fun c => Lm_of (nrows A) li lv (snd ij) c * nth c (v_D lv) 0 * Lm_of (nrows A) li lv (fst ij) c)%Qc
                        = csc_get A (fst ij) (snd ij)) (pairs_le (nrows A)))
  | Err _ => False
  end.

Lemma conj_list_forall (P : nat * nat -> Prop) l : conj_list (map P l) -> forall x, In x l -> P x.
Proof. induction l; simpl; intros H x Hx; [tauto|]. destruct H, Hx; subst; auto. Qed.
Lemma in_pairs_le n i j : i <= j -> j < n -> In (i, j) (pairs_le n).
Proof.
  intros. unfold pairs_le. apply in_flat_map. exists j. split. apply in_seq; lia.
  apply in_map_iff. exists i. split; auto. apply in_seq; lia.
Qed.

Lemma qeqb_false_neq (b : F) : qeqb b 0%Qc = false -> b <> 0%Qc.
Proof. intros H E. subst. unfold qeqb in H. simpl in H. discriminate. Qed.

(* every value test of the programme is a test of a pivot against zero: name the pivot, split on the test *)
Ltac split_tests :=
  repeat match goal with
  | |- context [qeqb ?e 0%Qc] =>
      let d := fresh "d" in let Hd := fresh "Hd" in let Hz := fresh "Hz" in
      remember e as d eqn:Hd; destruct (qeqb d 0%Qc) eqn:Hz
  end.
Ltac nz_hyps := repeat match goal with H : qeqb _ _ = false |- _ => apply qeqb_false_neq in H end.
Ltac solve_eq := first [ exact I | solve [field; auto] | match goal with H : ?d = _ |- _ => rewrite H; solve [field; auto] end ].
Ltac one_pattern :=
  unfold ldl_product_ok;
  cbv -[Qcplus Qcmult Qcminus Qcdiv Qcopp Qcinv qeqb Q2Qc];
  split_tests; try (intros; discriminate); intros _; nz_hyps; repeat split; solve_eq.
Ltac destruct_vals vs H :=
  lazymatch type of H with
  | length vs = O => destruct vs; [|discriminate H]
  | length vs = S _ =>
      let v := fresh "v" in destruct vs as [|v vs]; [discriminate H|];
      cbn [length] in H; apply eq_add_S in H; destruct_vals vs H
  end.
Ltac all_cases Hbs := repeat (destruct Hbs as [Hbs|Hbs]; [subst|]); try destruct Hbs.
Ltac case_tac :=
  lazymatch goal with |- forall vs, length vs = length (snd ?P) -> _ =>
    let p := eval vm_compute in P in change P with p; cbn [fst snd length];
    let vs := fresh "vs" in let Hv := fresh "Hv" in intros vs Hv; destruct_vals vs Hv; one_pattern
  end.

Lemma ldl_product_n (n : nat) (adj : nat -> nat -> bool) (vs : list F) :
  (forall bs, In bs (all_bools (length (pairs n))) -> forall vs : list F,
     length vs = length (snd (pattern_of n (adj_of_bits n bs))) ->
     ldl_product_ok (mkcsc n n (fst (pattern_of n (adj_of_bits n bs))) (snd (pattern_of n (adj_of_bits n bs))) vs)) ->
  length vs = length (snd (pattern_of n adj)) ->
  ldl_product_ok (mkcsc n n (fst (pattern_of n adj)) (snd (pattern_of n adj)) vs).
Proof.
  intros H Hv. destruct (pattern_enumerated n adj) as (bs & Hbs & E). rewrite E in *. apply H; auto.
Qed.

Lemma ldl_product_0 : forall bs, In bs (all_bools (length (pairs 0))) -> forall vs : list F,
     length vs = length (snd (pattern_of 0 (adj_of_bits 0 bs))) ->
     ldl_product_ok (mkcsc 0 0 (fst (pattern_of 0 (adj_of_bits 0 bs))) (snd (pattern_of 0 (adj_of_bits 0 bs))) vs).
Proof. intros bs Hbs. simpl in Hbs. all_cases Hbs. all: case_tac. Qed.
Lemma ldl_product_1 : forall bs, In bs (all_bools (length (pairs 1))) -> forall vs : list F,
     length vs = length (snd (pattern_of 1 (adj_of_bits 1 bs))) ->
     ldl_product_ok (mkcsc 1 1 (fst (pattern_of 1 (adj_of_bits 1 bs))) (snd (pattern_of 1 (adj_of_bits 1 bs))) vs).
Proof. intros bs Hbs. simpl in Hbs. all_cases Hbs. all: case_tac. Qed.
Lemma ldl_product_2 : forall bs, In bs (all_bools (length (pairs 2))) -> forall vs : list F,
     length vs = length (snd (pattern_of 2 (adj_of_bits 2 bs))) ->
     ldl_product_ok (mkcsc 2 2 (fst (pattern_of 2 (adj_of_bits 2 bs))) (snd (pattern_of 2 (adj_of_bits 2 bs))) vs).
Proof. intros bs Hbs. simpl in Hbs. all_cases Hbs. all: case_tac. Qed.
Lemma ldl_product_3 : forall bs, In bs (all_bools (length (pairs 3))) -> forall vs : list F,
     length vs = length (snd (pattern_of 3 (adj_of_bits 3 bs))) ->
     ldl_product_ok (mkcsc 3 3 (fst (pattern_of 3 (adj_of_bits 3 bs))) (snd (pattern_of 3 (adj_of_bits 3 bs))) vs).
Proof. intros bs Hbs. simpl in Hbs. all_cases Hbs. all: case_tac. Qed.
