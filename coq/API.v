(* API.v -- the dense solver object as a state machine: setup_impl, DenseSolver::update, solve() *)
From PIQP Require Import Base Data Bounds PrecondDense KKTDense IPM.
From RecordUpdate Require Import RecordSet.
Import RecordSetNotations.
Local Open Scope Qc_scope.

(* user-level problem blocks; matrices are given dense, column-major, as the caller stores them *)
Record Blocks := mkBlocks {
  b_P : option Mat;      (* n x n, full storage (only the upper triangle is read) *)
  b_c : option Vec;
  b_A : option Mat;      (* p x n, column-major: n columns of length p *)
  b_b : option Vec;
  b_G : option Mat;      (* m x n *)
  b_h : option (list ext);
  b_lb : option (list ext);
  b_ub : option (list ext)
}.

(* result vectors in user space; slacks of absent bounds are +inf *)
Record ResultOut := mkOut {
  o_x : Vec; o_y : Vec; o_z : Vec; o_z_lb : Vec; o_z_ub : Vec;
  o_s : Vec; o_s_lb : list ext; o_s_ub : list ext;
  o_zeta : Vec; o_lambda : Vec; o_nu : Vec; o_nu_lb : Vec; o_nu_ub : Vec
}.

Record Solver := mkSolver {
  sv_set : Settings;
  sv_data : Data;
  sv_pc : Precond;
  sv_kkt : KKT;
  sv_kkt_init_state : bool;
  sv_setup_done : bool;
  sv_refine : bool;
  sv_info : Info;
  sv_out : ResultOut;             (* result vectors as left by the last solve() (zero after setup) *)
  sv_calls : nat                  (* factorisation calls consumed from the fault plan *)
}.
#[export] Instance etaSolver : Settable _ := settable! mkSolver
  <sv_set; sv_data; sv_pc; sv_kkt; sv_kkt_init_state; sv_setup_done; sv_refine; sv_info; sv_out; sv_calls>.

Section API.
Variable K : Consts.
Variable ident : bool.          (* IdentityPreconditioner instead of Ruiz *)
Variable sparse_pc : bool.      (* the Ruiz preconditioner is the one of sparse/preconditioner.hpp ([sparse_quirk] of PrecondDense.v) *)
Variable junk : F.              (* content of never-written scalar memory that the code may read *)
Variable cp_bits : Z.           (* hook H2: significant bits kept at checkpoints; 0 = off *)

Definition upper_tri (P : Mat) : Mat :=
  map (fun jc => map (fun ie => if Nat.leb (fst ie) (fst jc) then snd ie else 0) (combine (seq 0 (length (snd jc))) (snd jc)))
      (combine (seq 0 (length P)) P).

Definition nrows (M : Mat) : nat := match M with [] => 0 | c :: _ => length c end.

Definition empty_info (S : Settings) : Info :=
  {| i_status := UNSOLVED; i_iter := 0; i_rho := rho_init S; i_delta := delta_init S; i_mu := 0; i_sigma := 0;
     i_primal_step := 0; i_dual_step := 0; i_primal_inf := 0; i_primal_rel_inf := 0; i_dual_inf := 0;
     i_dual_rel_inf := 0; i_primal_obj := 0; i_dual_obj := 0; i_duality_gap := 0; i_duality_gap_rel := 0;
     i_factor_retires := 0; i_reg_limit := reg_lower_limit S; i_no_primal_update := 0; i_no_dual_update := 0 |}.

Definition zero_out (n p m : nat) : ResultOut :=
  {| o_x := vconst n 0; o_y := vconst p 0; o_z := vconst m 0; o_z_lb := vconst n 0; o_z_ub := vconst n 0;
     o_s := vconst m 0; o_s_lb := repeat (Fin 0) n; o_s_ub := repeat (Fin 0) n;
     o_zeta := vconst n 0; o_lambda := vconst p 0; o_nu := vconst m 0; o_nu_lb := vconst n 0; o_nu_ub := vconst n 0 |}.

(* setup_impl.  A is p x n given as n columns of length p; AT is stored as p columns of length n. *)
Definition setup (S : Settings) (n p m : nat) (B : Blocks) : res Solver :=
  match b_P B, b_c B with
  | Some P, Some c =>
    let A := match b_A B with Some A => A | None => repeat [] n end in
    let G := match b_G B with Some G => G | None => repeat [] n end in
    let AT := mtranspose p A in
    let GT0 := mtranspose m G in
    let '(GT, h) := match b_h B with Some h => disable_inf (k_inf K) GT0 h | None => (GT0, []) end in
    let '(lbn, lbi) := match b_lb B with Some l => pack_lb (k_inf K) 0 l | None => ([], []) end in
    let '(ubv, ubi) := match b_ub B with Some l => pack_ub (k_inf K) 0 l | None => ([], []) end in
    let d0 := {| d_n := n; d_p := p; d_m := m; d_P := upper_tri P; d_AT := AT; d_GT := GT;
                 d_c := c; d_b := match b_b B with Some b => b | None => [] end; d_h := h;
                 d_lb_idx := lbi; d_ub_idx := ubi; d_lb_scaling := vconst n 1; d_ub_scaling := vconst n 1;
                 d_lb_n := lbn; d_ub := ubv |} in
    let pc0 := precond_init ident d0 in
    do '(pc, d) <- scale_data K sparse_pc pc0 d0 false (preconditioner_scale_cost S) (preconditioner_iter S) ;;
    do k <- kkt_init d (rho_init S) (delta_init S) junk ;;
    Ok {| sv_set := S; sv_data := d; sv_pc := pc; sv_kkt := k; sv_kkt_init_state := true; sv_setup_done := true;
          sv_refine := iterative_refinement_always_enabled S; sv_info := empty_info S; sv_out := zero_out n p m; sv_calls := 0 |}
  | _, _ => Err Shape
  end.

(* DenseSolver::update for dimension-correct arguments (rejected calls are the subject of Events.v) *)
Definition update (sv : Solver) (B : Blocks) (reuse : bool) : res Solver :=
  let S := sv_set sv in
  do d0 <- unscale_data (sv_pc sv) (sv_data sv) ;;
  let n := d_n d0 in
  let d1 := match b_P B with Some P => (d0 <| d_P := upper_tri P |>) | None => d0 end in
  let d2 := match b_A B with Some A => (d1 <| d_AT := mtranspose (d_p d0) A |>) | None => d1 end in
  let d3 := match b_G B with Some G => (d2 <| d_GT := mtranspose (d_m d0) G |>) | None => d2 end in
  let d4 := match b_c B with Some c => (d3 <| d_c := c |>) | None => d3 end in
  let d5 := match b_b B with Some b => (d4 <| d_b := b |>) | None => d4 end in
  let d6 := match b_h B with
            | Some h => let '(GT, hv) := disable_inf (k_inf K) (d_GT d5) h in (d5 <| d_GT := GT |> <| d_h := hv |>)
            | None => d5 end in
  let d7 := match b_lb B with
            | Some l => let '(v, ix) := pack_lb (k_inf K) 0 l in (d6 <| d_lb_n := v |> <| d_lb_idx := ix |>)
            | None => d6 end in
  let d8 := match b_ub B with
            | Some l => let '(v, ix) := pack_ub (k_inf K) 0 l in (d7 <| d_ub := v |> <| d_ub_idx := ix |>)
            | None => d7 end in
  do '(pc, d) <- scale_data K sparse_pc (sv_pc sv) d8 reuse (preconditioner_scale_cost S) (preconditioner_iter S) ;;
  let oP := match b_P B with Some _ => true | None => false end in
  let oA := match b_A B with Some _ => true | None => false end in
  let oG := match b_G B with Some _ => true | None => false end in
  (* reuse = false: the new preconditioner rescales every matrix, all KKT blocks are refreshed *)
  do k <- kkt_update_data d (sv_kkt sv) (oP || negb reuse) (oA || negb reuse) (oG || negb reuse) ;;
  Ok (sv <| sv_data := d |> <| sv_pc := pc |> <| sv_kkt := k |> <| sv_kkt_init_state := false |>).

Definition ext_of (v : Vec) : list ext := map Fin v.

(* the result arrays as solve_impl sees them on entry: they still hold the (user-space, re-indexed) output of the
   previous solve; s and z are reset to 1 right away, x, y and the proximal centres are overwritten by the initial
   point -- unless the initial factorisation gives up (NUMERICS), in which case they are returned as they are
   (unscaled and re-indexed once more by solve()). *)
Definition entry_iterate (d : Data) (o : ResultOut) : Iterate :=
  {| x := o_x o; y := o_y o; z := vconst (d_m d) 1;
     z_lb := vconst (d_nlb d) 1; z_ub := vconst (d_nub d) 1;
     s := vconst (d_m d) 1; s_lb := vconst (d_nlb d) 1; s_ub := vconst (d_nub d) 1;
     zeta := o_zeta o; lambda := o_lambda o; nu := o_nu o;
     nu_lb := head (d_nlb d) (o_nu_lb o); nu_ub := head (d_nub d) (o_nu_ub o) |}.

Definition unscale_and_restore (sv : Solver) (it : Iterate) : res ResultOut :=
  let d := sv_data sv in let pc := sv_pc sv in let n := d_n d in
  let pad (v : Vec) := v ++ vconst (n - length v) junk in
  do zlb <- restore_one 0 n (pad (unscale_dual_lb pc (z_lb it))) (d_lb_idx d) ;;
  do zub <- restore_one 0 n (pad (unscale_dual_ub pc (z_ub it))) (d_ub_idx d) ;;
  do slb <- restore_one PInf n (ext_of (pad (unscale_slack_lb pc (s_lb it)))) (d_lb_idx d) ;;
  do sub <- restore_one PInf n (ext_of (pad (unscale_slack_ub pc (s_ub it)))) (d_ub_idx d) ;;
  do nulb <- restore_one 0 n (pad (unscale_dual_lb pc (nu_lb it))) (d_lb_idx d) ;;
  do nuub <- restore_one 0 n (pad (unscale_dual_ub pc (nu_ub it))) (d_ub_idx d) ;;
  Ok {| o_x := unscale_primal pc (x it); o_y := unscale_dual_eq pc (y it); o_z := unscale_dual_ineq pc (z it);
        o_z_lb := zlb; o_z_ub := zub; o_s := unscale_slack_ineq pc (s it); o_s_lb := slb; o_s_ub := sub;
        o_zeta := unscale_primal pc (zeta it); o_lambda := unscale_dual_eq pc (lambda it); o_nu := unscale_dual_ineq pc (nu it);
        o_nu_lb := nulb; o_nu_ub := nuub |}.


(* solve() for a set-up solver with settings accepted by verify_settings *)
Definition solve (fault : nat -> bool) (sv : Solver) : res (Solver * Status) :=
  let S := sv_set sv in let d := sv_data sv in let pc := sv_pc sv in
  let inf0 := (sv_info sv) <| i_status := UNSOLVED |> <| i_iter := 0%Z |> <| i_reg_limit := reg_lower_limit S |>
                <| i_factor_retires := 0%Z |> <| i_no_primal_update := 0%Z |> <| i_no_dual_update := 0%Z |>
                <| i_mu := 0 |> <| i_sigma := 0 |> <| i_primal_step := 0 |> <| i_dual_step := 0 |>
                <| i_rho := rho_init S |> <| i_delta := delta_init S |> in
  let it0 := entry_iterate d (sv_out sv) in
  let st0 := {| st_it := it0; st_inf := inf0; st_kkt := sv_kkt sv; st_refine := sv_refine sv;
                st_res := {| rx_nr := []; ry_nr := []; rz_nr := []; rz_lb_nr := []; rz_ub_nr := [] |};
                st_calls := sv_calls sv |} in
  let it1 := it0 in
  do st1 <- (if sv_kkt_init_state sv then Ok (st0 <| st_it := it1 |>)
          else do_update_scalings d (st0 <| st_it := it1 |>)) ;;
  do '(st2, ok) <- init_factor K S d fault (init_fuel S) st1 ;;
  let fin (st : St) (it : Iterate) :=
    do out <- unscale_and_restore sv it ;;
    Ok (sv <| sv_kkt := st_kkt st |> <| sv_kkt_init_state := false |> <| sv_refine := st_refine st |>
           <| sv_info := st_inf st |> <| sv_out := out |> <| sv_calls := st_calls st |>, i_status (st_inf st)) in
  if negb ok then fin st2 (st_it st2)
  else
    do st3 <- initial_point K S d (round_cp cp_bits) (st2 <| st_inf := (st_inf st2) <| i_factor_retires := 0%Z |> |>) ;;
    do st4 <- main_loop K S d pc fault (round_cp cp_bits) (loop_fuel S) st3 ;;
    fin st4 (st_it st4).

End API.
