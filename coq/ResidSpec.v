(* ResidSpec.v -- specification vocabulary for ResidProofs.v (definitions only):
   the user's QP as entry functions, the diagonal change of variables relating it to the scaled [Data],
   well-formedness predicates, the unscaled point, and the TRUE residuals / objectives of the user's problem
   written with finite sums, independent of any code of the solver. *)
From PIQP Require Import Base Data PrecondDense KKTDense IPM ResidLemmas.
From RecordUpdate Require Import RecordSet.
Import RecordSetNotations.
Local Open Scope Qc_scope.

(* ---------------- the user's problem -----------------
   min 1/2 x'Px + c'x   s.t.  Ax = b,  Gx <= h,  lb <= x <= ub  (bounds only on listed indices)
   u_P is read on its upper triangle only (i <= j); the symmetric matrix is [Pfull]. *)
Record UserQP := mkUser {
  u_P : nat -> nat -> F;
  u_c : nat -> F;
  u_A : nat -> nat -> F;      (* u_A k i : row k < p, column i < n *)
  u_b : nat -> F;
  u_G : nat -> nat -> F;      (* u_G k i : row k < m, column i < n *)
  u_h : nat -> F;
  u_lb : nat -> F;            (* indexed by the variable *)
  u_ub : nat -> F
}.
Definition Pfull (U : UserQP) (i j : nat) : F := if Nat.leb i j then u_P U i j else u_P U j i.

(* ---------------- scalings reported by the preconditioner:  delta = [dx ; dy ; dz] ----------------- *)
Definition sdx (pc : Precond) (i : nat) : F := el (pc_delta pc) i.
Definition sdy (pc : Precond) (k : nat) : F := el (pc_delta pc) (pc_n pc + k).
Definition sdz (pc : Precond) (k : nat) : F := el (pc_delta pc) (pc_n pc + pc_p pc + k).
Definition sdxi (pc : Precond) (i : nat) : F := el (pc_delta_inv pc) i.
Definition sdyi (pc : Precond) (k : nat) : F := el (pc_delta_inv pc) (pc_n pc + k).
Definition sdzi (pc : Precond) (k : nat) : F := el (pc_delta_inv pc) (pc_n pc + pc_p pc + k).
Definition sdlb (pc : Precond) (k : nat) : F := el (pc_delta_lb pc) k.
Definition sdub (pc : Precond) (k : nat) : F := el (pc_delta_ub pc) k.
Definition sdlbi (pc : Precond) (k : nat) : F := el (pc_delta_lb_inv pc) k.
Definition sdubi (pc : Precond) (k : nat) : F := el (pc_delta_ub_inv pc) k.

(* ---------------- shapes ----------------- *)
Record data_shape (d : Data) : Prop := {
  ds_P : mat_shape (d_n d) (d_n d) (d_P d);
  ds_AT : mat_shape (d_n d) (d_p d) (d_AT d);
  ds_GT : mat_shape (d_n d) (d_m d) (d_GT d);
  ds_c : length (d_c d) = d_n d;
  ds_b : length (d_b d) = d_p d;
  ds_h : length (d_h d) = d_m d;
  ds_lbi : Forall (fun i => (i < d_n d)%nat) (d_lb_idx d);
  ds_ubi : Forall (fun i => (i < d_n d)%nat) (d_ub_idx d);
  ds_lbs : (d_nlb d <= length (d_lb_scaling d))%nat;
  ds_ubs : (d_nub d <= length (d_ub_scaling d))%nat;
  ds_lbn : length (d_lb_n d) = d_nlb d;
  ds_ub : length (d_ub d) = d_nub d
}.

Record pc_shape (pc : Precond) (d : Data) : Prop := {
  ps_n : pc_n pc = d_n d;
  ps_p : pc_p pc = d_p d;
  ps_nlb : pc_nlb pc = d_nlb d;
  ps_nub : pc_nub pc = d_nub d;
  ps_delta : length (pc_delta pc) = (d_n d + d_p d + d_m d)%nat;
  ps_delta_inv : length (pc_delta_inv pc) = (d_n d + d_p d + d_m d)%nat;
  ps_lb : (d_nlb d <= length (pc_delta_lb pc))%nat;
  ps_lbi : (d_nlb d <= length (pc_delta_lb_inv pc))%nat;
  ps_ub : (d_nub d <= length (pc_delta_ub pc))%nat;
  ps_ubi : (d_nub d <= length (pc_delta_ub_inv pc))%nat
}.

(* the stored inverses are inverses *)
Record pc_inverse (pc : Precond) (d : Data) : Prop := {
  pi_c : pc_c pc * pc_c_inv pc = 1;
  pi_delta : forall i, (i < d_n d + d_p d + d_m d)%nat -> el (pc_delta pc) i * el (pc_delta_inv pc) i = 1;
  pi_lb : forall k, (k < d_nlb d)%nat -> sdlb pc k * sdlbi pc k = 1;
  pi_ub : forall k, (k < d_nub d)%nat -> sdub pc k * sdubi pc k = 1
}.

(* all scalings are positive *)
Record pc_positive (pc : Precond) (d : Data) : Prop := {
  pp_c : 0 < pc_c pc;
  pp_delta : forall i, (i < d_n d + d_p d + d_m d)%nat -> 0 < el (pc_delta pc) i;
  pp_lb : forall k, (k < d_nlb d)%nat -> 0 < sdlb pc k;
  pp_ub : forall k, (k < d_nub d)%nat -> 0 < sdub pc k
}.

(* the strict lower triangle of the stored P is zero (API.upper_tri establishes it, scale_P_utri keeps it) *)
Definition lower_zero (n : nat) (P : Mat) : Prop :=
  forall i j, (j < i)%nat -> (i < n)%nat -> mentry P i j = 0.

(* the scaled data is the diagonal change of variables of the user's data *)
Record is_scaled_of (pc : Precond) (d : Data) (U : UserQP) : Prop := {
  sc_P : forall i j, (i <= j)%nat -> (j < d_n d)%nat ->
         mentry (d_P d) i j = pc_c pc * sdx pc i * sdx pc j * u_P U i j;
  sc_c : forall i, (i < d_n d)%nat -> el (d_c d) i = pc_c pc * sdx pc i * u_c U i;
  sc_AT : forall i k, (i < d_n d)%nat -> (k < d_p d)%nat -> mentry (d_AT d) i k = sdx pc i * sdy pc k * u_A U k i;
  sc_GT : forall i k, (i < d_n d)%nat -> (k < d_m d)%nat -> mentry (d_GT d) i k = sdx pc i * sdz pc k * u_G U k i;
  sc_b : forall k, (k < d_p d)%nat -> el (d_b d) k = sdy pc k * u_b U k;
  sc_h : forall k, (k < d_m d)%nat -> el (d_h d) k = sdz pc k * u_h U k;
  sc_lbs : forall k, (k < d_nlb d)%nat -> el (d_lb_scaling d) k = sdlb pc k * sdx pc (nth k (d_lb_idx d) O);
  sc_ubs : forall k, (k < d_nub d)%nat -> el (d_ub_scaling d) k = sdub pc k * sdx pc (nth k (d_ub_idx d) O);
  sc_lbn : forall k, (k < d_nlb d)%nat -> el (d_lb_n d) k = sdlb pc k * - u_lb U (nth k (d_lb_idx d) O);
  sc_ubv : forall k, (k < d_nub d)%nat -> el (d_ub d) k = sdub pc k * u_ub U (nth k (d_ub_idx d) O)
}.

Record it_shape (d : Data) (it : Iterate) : Prop := {
  is_x : length (x it) = d_n d;
  is_y : length (y it) = d_p d;
  is_z : length (z it) = d_m d;
  is_zlb : length (z_lb it) = d_nlb d;
  is_zub : length (z_ub it) = d_nub d;
  is_s : length (s it) = d_m d;
  is_slb : length (s_lb it) = d_nlb d;
  is_sub : length (s_ub it) = d_nub d
}.

(* ---------------- the unscaled point (exactly what unscale_results computes, packed box vectors) --------------- *)
Record UPoint := mkUP {
  p_x : Vec; p_y : Vec; p_z : Vec; p_zlb : Vec; p_zub : Vec; p_s : Vec; p_slb : Vec; p_sub : Vec
}.
Definition unscale_point (pc : Precond) (it : Iterate) : UPoint :=
  {| p_x := unscale_primal pc (x it);
     p_y := unscale_dual_eq pc (y it);
     p_z := unscale_dual_ineq pc (z it);
     p_zlb := unscale_dual_lb pc (z_lb it);
     p_zub := unscale_dual_ub pc (z_ub it);
     p_s := unscale_slack_ineq pc (s it);
     p_slb := unscale_slack_lb pc (s_lb it);
     p_sub := unscale_slack_ub pc (s_ub it) |}.

(* ---------------- true residuals and objectives of the user's problem at a point ----------------
   The point is given by entry functions (instantiate with [el (p_x X)] ...). *)
Section TrueResiduals.
Variable U : UserQP.
Variables n p m : nat.
Variables lbi ubi : list nat.
Variables xu yu zu zlbu zubu su slbu subu : nat -> F.

Definition t_Px (i : nat) : F := sum n (fun j => Pfull U i j * xu j).
Definition t_ATy (i : nat) : F := sum p (fun k => u_A U k i * yu k).
Definition t_GTz (i : nat) : F := sum m (fun k => u_G U k i * zu k).
Definition t_Elb (i : nat) : F := sum (length lbi) (fun k => if Nat.eqb (nth k lbi O) i then zlbu k else 0).
Definition t_Eub (i : nat) : F := sum (length ubi) (fun k => if Nat.eqb (nth k ubi O) i then zubu k else 0).
(* A'y + G'z - E_lb' z_lb + E_ub' z_ub *)
Definition t_lin (i : nat) : F := t_ATy i + t_GTz i - t_Elb i + t_Eub i.
(* stationarity: Px + c + A'y + G'z - E_lb' z_lb + E_ub' z_ub *)
Definition t_stat (i : nat) : F := t_Px i + u_c U i + t_lin i.

Definition t_Ax (k : nat) : F := sum n (fun i => u_A U k i * xu i).
Definition t_Gx (k : nat) : F := sum n (fun i => u_G U k i * xu i).
Definition t_req (k : nat) : F := u_b U k - t_Ax k.                      (* b - Ax *)
Definition t_rineq (k : nat) : F := u_h U k - t_Gx k - su k.             (* h - Gx - s *)
Definition t_xlb (k : nat) : F := xu (nth k lbi O).
Definition t_xub (k : nat) : F := xu (nth k ubi O).
Definition t_lbv (k : nat) : F := u_lb U (nth k lbi O).
Definition t_ubv (k : nat) : F := u_ub U (nth k ubi O).
Definition t_rlb (k : nat) : F := t_xlb k - t_lbv k - slbu k.            (* x - lb - s_lb *)
Definition t_rub (k : nat) : F := t_ubv k - t_xub k - subu k.            (* ub - x - s_ub *)

Definition t_xPx : F := sum n (fun i => xu i * t_Px i).
Definition t_cx : F := sum n (fun i => u_c U i * xu i).
Definition t_by : F := sum p (fun k => u_b U k * yu k).
Definition t_hz : F := sum m (fun k => u_h U k * zu k).
Definition t_lbz : F := sum (length lbi) (fun k => t_lbv k * zlbu k).
Definition t_ubz : F := sum (length ubi) (fun k => t_ubv k * zubu k).
Definition t_pobj (half : F) : F := half * t_xPx + t_cx.
Definition t_dobj (half : F) : F := - half * t_xPx - t_by - t_hz + t_lbz - t_ubz.

(* max-norms *)
Definition fnorm (k : nat) (f : nat -> F) : F := norm_inf (tab k f).
Definition t_primal_inf : F :=
  qmax (qmax (qmax (fnorm p t_req) (fnorm m t_rineq)) (fnorm (length lbi) t_rlb)) (fnorm (length ubi) t_rub).
Definition t_dual_inf : F := fnorm n t_stat.
(* the relative scales, in the order the code accumulates them *)
Definition t_primal_rel : F :=
  qmax (qmax (qmax (qmax (qmax (qmax (qmax (qmax (qmax (qmax
    (fnorm p t_Ax) (fnorm p (u_b U))) (fnorm m t_Gx)) (fnorm m (u_h U))) (fnorm m su))
    (fnorm (length lbi) t_xlb)) (fnorm (length lbi) t_lbv)) (fnorm (length lbi) slbu))
    (fnorm (length ubi) t_xub)) (fnorm (length ubi) t_ubv)) (fnorm (length ubi) subu).
Definition t_dual_rel : F := qmax (qmax (fnorm n t_Px) (fnorm n (u_c U))) (fnorm n t_lin).
Definition t_gap_rel : F :=
  qmax (qmax (qmax (qmax (qmax (qabs t_xPx) (qabs t_cx)) (qabs t_by)) (qabs t_hz)) (qabs t_lbz)) (qabs t_ubz).
End TrueResiduals.

(* the same quantities at an unscaled point given by vectors *)
Section AtPoint.
Variable U : UserQP.
Variable d : Data.
Variable X : UPoint.
Definition X_stat := t_stat U (d_n d) (d_p d) (d_m d) (d_lb_idx d) (d_ub_idx d) (el (p_x X)) (el (p_y X)) (el (p_z X)) (el (p_zlb X)) (el (p_zub X)).
Definition X_req := t_req U (d_n d) (el (p_x X)).
Definition X_rineq := t_rineq U (d_n d) (el (p_x X)) (el (p_s X)).
Definition X_rlb := t_rlb U (d_lb_idx d) (el (p_x X)) (el (p_slb X)).
Definition X_rub := t_rub U (d_ub_idx d) (el (p_x X)) (el (p_sub X)).
Definition X_pobj (half : F) := t_pobj U (d_n d) (el (p_x X)) half.
Definition X_dobj (half : F) := t_dobj U (d_n d) (d_p d) (d_m d) (d_lb_idx d) (d_ub_idx d) (el (p_x X)) (el (p_y X)) (el (p_z X)) (el (p_zlb X)) (el (p_zub X)) half.
Definition X_primal_inf := t_primal_inf U (d_n d) (d_p d) (d_m d) (d_lb_idx d) (d_ub_idx d) (el (p_x X)) (el (p_s X)) (el (p_slb X)) (el (p_sub X)).
Definition X_dual_inf := t_dual_inf U (d_n d) (d_p d) (d_m d) (d_lb_idx d) (d_ub_idx d) (el (p_x X)) (el (p_y X)) (el (p_z X)) (el (p_zlb X)) (el (p_zub X)).
Definition X_primal_rel := t_primal_rel U (d_n d) (d_p d) (d_m d) (d_lb_idx d) (d_ub_idx d) (el (p_x X)) (el (p_s X)) (el (p_slb X)) (el (p_sub X)).
Definition X_dual_rel := t_dual_rel U (d_n d) (d_p d) (d_m d) (d_lb_idx d) (d_ub_idx d) (el (p_x X)) (el (p_y X)) (el (p_z X)) (el (p_zlb X)) (el (p_zub X)).
Definition X_gap_rel := t_gap_rel U (d_n d) (d_p d) (d_m d) (d_lb_idx d) (d_ub_idx d) (el (p_x X)) (el (p_y X)) (el (p_z X)) (el (p_zlb X)) (el (p_zub X)).
End AtPoint.


(* what update_nr_residuals / primal_inf_nr / dual_inf_nr are claimed to compute (theorem nr_residuals_are_true_residuals) *)
Record nr_true (U : UserQP) (d : Data) (pc : Precond) (half : F) (it : Iterate) (res : Resid) (inf' : Info) : Prop := {
  nt_rx : unscale_dual_res pc (rx_nr res) = tab (d_n d) (fun i => - X_stat U d (unscale_point pc it) i);
  nt_ry : unscale_primal_res_eq pc (ry_nr res) = tab (d_p d) (X_req U d (unscale_point pc it));
  nt_rz : unscale_primal_res_ineq pc (rz_nr res) = tab (d_m d) (X_rineq U d (unscale_point pc it));
  nt_rlb : unscale_primal_res_lb pc (rz_lb_nr res) = tab (d_nlb d) (X_rlb U d (unscale_point pc it));
  nt_rub : unscale_primal_res_ub pc (rz_ub_nr res) = tab (d_nub d) (X_rub U d (unscale_point pc it));
  nt_pobj : i_primal_obj inf' = X_pobj U d (unscale_point pc it) half;
  nt_dobj : i_dual_obj inf' = X_dobj U d (unscale_point pc it) half;
  nt_gap : i_duality_gap inf' = qabs (X_pobj U d (unscale_point pc it) half - X_dobj U d (unscale_point pc it) half);
  nt_gap_rel : i_duality_gap_rel inf' = X_gap_rel U d (unscale_point pc it);
  nt_prel : i_primal_rel_inf inf' = X_primal_rel U d (unscale_point pc it);
  nt_drel : i_dual_rel_inf inf' = X_dual_rel U d (unscale_point pc it);
  nt_pinf : primal_inf_nr pc res = X_primal_inf U d (unscale_point pc it);
  nt_dinf : dual_inf_nr pc res = X_dual_inf U d (unscale_point pc it)
}.

(* the SOLVED test of loop_pass, as a function of the info record *)
Definition solved_test (S : Settings) (inf : Info) : bool :=
  qltb (i_primal_inf inf) (thresh S (i_primal_rel_inf inf)) &&
  qltb (i_dual_inf inf) (thresh S (i_dual_rel_inf inf)) &&
  (negb (check_duality_gap S) || qltb (i_duality_gap inf) (eps_duality_gap_abs S + eps_duality_gap_rel S * i_duality_gap_rel inf)).

(* entrywise: a and b have the same sign *)
Definition same_sign (N : nat) (a b : nat -> F) : Prop :=
  forall k, (k < N)%nat -> (0 <= a k <-> 0 <= b k) /\ (0 < a k <-> 0 < b k).

(* the optimality certificate on the USER's problem at the unscaled point X (norm form) *)
Record certificate (U : UserQP) (d : Data) (S : Settings) (half : F) (X : UPoint) : Prop := {
  cert_primal : X_primal_inf U d X < eps_abs S + eps_rel S * X_primal_rel U d X;
  cert_dual : X_dual_inf U d X < eps_abs S + eps_rel S * X_dual_rel U d X;
  cert_gap : check_duality_gap S = true ->
             qabs (X_pobj U d X half - X_dobj U d X half) < eps_duality_gap_abs S + eps_duality_gap_rel S * X_gap_rel U d X
}.
(* ... and entry by entry *)
Record certificate_entrywise (U : UserQP) (d : Data) (S : Settings) (half : F) (X : UPoint) : Prop := {
  ce_eq : forall k, (k < d_p d)%nat -> qabs (X_req U d X k) < eps_abs S + eps_rel S * X_primal_rel U d X;
  ce_ineq : forall k, (k < d_m d)%nat -> qabs (X_rineq U d X k) < eps_abs S + eps_rel S * X_primal_rel U d X;
  ce_lb : forall k, (k < d_nlb d)%nat -> qabs (X_rlb U d X k) < eps_abs S + eps_rel S * X_primal_rel U d X;
  ce_ub : forall k, (k < d_nub d)%nat -> qabs (X_rub U d X k) < eps_abs S + eps_rel S * X_primal_rel U d X;
  ce_stat : forall i, (i < d_n d)%nat -> qabs (X_stat U d X i) < eps_abs S + eps_rel S * X_dual_rel U d X;
  ce_gap : check_duality_gap S = true ->
           qabs (X_pobj U d X half - X_dobj U d X half) < eps_duality_gap_abs S + eps_duality_gap_rel S * X_gap_rel U d X
}.

(* the six info fields written by update_nr_residuals *)
Definition same6 (a b : Info) : Prop :=
  i_primal_rel_inf a = i_primal_rel_inf b /\ i_dual_rel_inf a = i_dual_rel_inf b /\
  i_primal_obj a = i_primal_obj b /\ i_dual_obj a = i_dual_obj b /\
  i_duality_gap a = i_duality_gap b /\ i_duality_gap_rel a = i_duality_gap_rel b.
(* the eight iterate fields read by update_nr_residuals *)
Definition same8 (a b : Iterate) : Prop :=
  x a = x b /\ y a = y b /\ z a = z b /\ z_lb a = z_lb b /\ z_ub a = z_ub b /\ s a = s b /\ s_lb a = s_lb b /\ s_ub a = s_ub b.
(* [res] and the six fields of [inf] are what update_nr_residuals computes from [it] *)
Definition nr_consistent (d : Data) (pc : Precond) (K : Consts) (it : Iterate) (res : Resid) (inf : Info) : Prop :=
  exists it0 inf0 inf1, update_nr_residuals d pc K it0 inf0 = Ok (res, inf1) /\ same8 it0 it /\ same6 inf1 inf.
(* info as completed at the top of a pass *)
Definition top_info (pc : Precond) (res : Resid) (inf : Info) : Info :=
  inf <| i_primal_inf := primal_inf_nr pc res |> <| i_dual_inf := dual_inf_nr pc res |>.

(* the diagnostics stored in an info record are the true quantities of the user's problem at the unscaled iterate *)
Record diagnostics_true (U : UserQP) (d : Data) (pc : Precond) (half : F) (it : Iterate) (inf : Info) : Prop := {
  dg_pobj : i_primal_obj inf = X_pobj U d (unscale_point pc it) half;
  dg_dobj : i_dual_obj inf = X_dobj U d (unscale_point pc it) half;
  dg_gap : i_duality_gap inf = qabs (X_pobj U d (unscale_point pc it) half - X_dobj U d (unscale_point pc it) half);
  dg_gap_rel : i_duality_gap_rel inf = X_gap_rel U d (unscale_point pc it);
  dg_prel : i_primal_rel_inf inf = X_primal_rel U d (unscale_point pc it);
  dg_drel : i_dual_rel_inf inf = X_dual_rel U d (unscale_point pc it);
  dg_pinf : i_primal_inf inf = X_primal_inf U d (unscale_point pc it);
  dg_dinf : i_dual_inf inf = X_dual_inf U d (unscale_point pc it)
}.

(* all hypotheses on the scaled data / preconditioner pair, bundled *)
Record scaled_problem (U : UserQP) (d : Data) (pc : Precond) : Prop := {
  sp_ds : data_shape d;
  sp_ps : pc_shape pc d;
  sp_pi : pc_inverse pc d;
  sp_pp : pc_positive pc d;
  sp_sc : is_scaled_of pc d U;
  sp_lz : lower_zero (d_n d) (d_P d)
}.

(* invariant at the top of every pass of IPM.main_loop: the residuals are about to be recomputed (iter = 0),
   or they are the residuals of the current iterate, or the SOLVED test is already known to fail on them
   (reached only after a failed factorisation that follows a boundary shift: nothing was recomputed) *)
Definition pass_inv (K : Consts) (S : Settings) (d : Data) (pc : Precond) (st : St) : Prop :=
  i_iter (st_inf st) = 0%Z \/
  nr_consistent d pc K (st_it st) (st_res st) (st_inf st) \/
  solved_test S (top_info pc (st_res st) (st_inf st)) = false.
