(* PermAddrKKTProofs.v -- the permuted KKT assembly theorems without the hypothesis perm_addr_okb: the check is a theorem
   (PermAddrProofs.perm_addr_ok) for the matrices built by create_kkt_matrix (KKT_FULL) and all_create (KKT_ALL_ELIMINATED),
   which are well formed, upper triangular and diagonal-last, and for every permutation of the right length. *)
From PIQP Require Import Base CSC C14LemmasProofs CSCProofs LinAlg KKTProofs KKTSparseFull KKTSparseFullProofs KKTSparseFullPerm
  KKTSparseFullPermProofs KKTSparseAll KKTSparseAllTrProofs KKTSparseAllProofs KKTSparseAllDataProofs KKTSparseAllPermProofs
  PermuteSortedProofs PermAddrProofs.
Local Open Scope nat_scope.

(* ---------- KKT_FULL ---------- *)
Theorem init_full_perm (d : sdata) : wf_sdata d -> upper_only (sd_P d) = true ->
  forall (rho delta : F) (perm : list nat),
  scal_ok d (unit_scal d rho delta) -> perm_wf perm -> length perm = sd_n d + sd_p d + sd_m d ->
  exists kid kp, init d rho delta None = Ok kid /\ init d rho delta (Some perm) = Ok kp /\
                 fresh_form d (unit_scal d rho delta) kid /\ perm_img d perm kid kp.
Proof.
  intros Hwf Hup rho delta perm Hs HP HL.
  destruct (create_kkt_full_wf_thm d Hwf rho delta) as (km & E & H). cbv zeta in H.
  destruct H as (Rn & Rc & HwfK & Hdl & HupK & _).
  apply (init_full_perm_partial d Hwf rho delta perm km Hs E).
  rewrite <- Rn. apply perm_addr_ok; auto; congruence.
Qed.

Theorem init_full_perm_denotes (d : sdata) : wf_sdata d -> upper_only (sd_P d) = true ->
  forall (rho delta : F) (perm : list nat),
  scal_ok d (unit_scal d rho delta) -> perm_wf perm -> length perm = sd_n d + sd_p d + sd_m d ->
  exists kp, init d rho delta (Some perm) = Ok kp /\
    let N := sd_n d + sd_p d + sd_m d in
    let pv := fun i => nth i (fk_pinv kp) 0 in
    wf_csc (fk_PKPt d kp) = true /\ diag_is_last (fk_PKPt d kp) /\
    (forall i, i < N -> pv i < N) /\ (forall i i', i < N -> i' < N -> pv i = pv i' -> i = i') /\
    forall i j, i <= j -> j < N ->
      csc_get (fk_PKPt d kp) (Nat.min (pv i) (pv j)) (Nat.max (pv i) (pv j)) = Kfull (sys_sparse d (unit_scal d rho delta)) i j.
Proof.
  intros Hwf Hup rho delta perm Hs HP HL.
  destruct (init_full_perm d Hwf Hup rho delta perm Hs HP HL) as (kid & kp & _ & E & Hf & Himg).
  exists kp. split; auto. exact (perm_img_denotes_partial d (unit_scal d rho delta) perm kid kp Hwf Hup Hf Himg).
Qed.

(* ---------- KKT_ALL_ELIMINATED ---------- *)
Theorem all_init_perm_total (d : sdata) : wf_sdata d -> upper_only (sd_P d) = true -> sorted_colsb (sd_P d) = true ->
  forall (rho delta : F) (perm : list nat),
  delta <> 0%Qc -> (1 + delta)%Qc <> 0%Qc -> scal_ok d (unit_scal d rho delta) ->
  perm_wf perm -> length perm = sd_n d ->
  exists kid kp, all_init d rho delta None = Ok kid /\ all_init d rho delta (Some perm) = Ok kp /\
                 all_form d (unit_scal d rho delta) kid /\ all_perm_img (sd_n d) perm kid kp.
Proof.
  intros Hwf Hup Hso rho delta perm Hd1 Hd2 Hs HP HL.
  destruct (all_create_thm d Hwf Hup Hso rho delta Hd1 Hd2) as (am & E & H). cbv zeta in H.
  destruct H as (Rn & Rc & HwfK & HupK & Hdl & _).
  destruct (all_init_perm d Hwf Hup Hso rho delta perm am Hd1 Hd2 Hs E) as (kid & kp & E1 & E2 & Hf & Himg & _).
  { rewrite <- Rn. apply perm_addr_ok; auto; congruence. }
  exists kid, kp. auto.
Qed.

Theorem all_init_perm_denotes (d : sdata) : wf_sdata d -> upper_only (sd_P d) = true -> sorted_colsb (sd_P d) = true ->
  forall (rho delta : F) (perm : list nat),
  delta <> 0%Qc -> (1 + delta)%Qc <> 0%Qc -> scal_ok d (unit_scal d rho delta) ->
  perm_wf perm -> length perm = sd_n d ->
  exists kp, all_init d rho delta (Some perm) = Ok kp /\
    let Kp := mkcsc (sd_n d) (sd_n d) (ak_kp kp) (ak_ki kp) (ak_kx kp) in
    let pv := fun i => nth i (ak_pinv kp) 0 in
    wf_csc Kp = true /\ upper_only Kp = true /\ diag_is_last Kp /\
    length (ak_pinv kp) = sd_n d /\ (forall i, i < sd_n d -> pv i < sd_n d) /\
    (forall i i', i < sd_n d -> i' < sd_n d -> pv i = pv i' -> i = i') /\
    forall i j, i <= j -> j < sd_n d ->
      csc_get Kp (Nat.min (pv i) (pv j)) (Nat.max (pv i) (pv j)) = a_Kred (sys_sparse d (unit_scal d rho delta)) i j.
Proof.
  intros Hwf Hup Hso rho delta perm Hd1 Hd2 Hs HP HL.
  destruct (all_init_perm_total d Hwf Hup Hso rho delta perm Hd1 Hd2 Hs HP HL) as (kid & kp & _ & E & Hf & Himg).
  exists kp. split; auto. exact (all_perm_form_denotes d Hwf Hup Hso (unit_scal d rho delta) perm kid kp Hf Himg).
Qed.
