(* MatIO.v -- executable Gallina model of the .mat codec of PIQP (property C20).

   Source followed line by line:
     include/piqp/utils/eigen_matio.hpp   MatioFile::write_mat_impl (dense, sparse), MatioFile::read_mat,
                                          matrix_from_var (dense, sparse; the real, non-complex overloads)
     include/piqp/utils/io_utils.hpp      save_dense_model / save_sparse_model / load_dense_model / load_sparse_model
     include/piqp/{dense,sparse}/model.hpp   the Model structs and their constructors
   The tables of the last two (variable names, local variables, constructor wiring) and the order in which the
   two dimensions are put into / taken out of `dims` are NOT written here: they are regenerated from the sources
   by tools/gen_matio.py into gen/MatioFields.v on every run.

   Values.  A `double` is an opaque 64-bit pattern: the codec is parametric in the type V of values and never
   inspects one (no arithmetic, no comparison), so every statement below is about bit-for-bit equality.
   `junk` stands for the content of memory that the code would read outside the initialised part of a buffer;
   no result depends on it for well-formed inputs.

   libmatio (Mat_VarCreate / Mat_VarWrite / Mat_VarRead / Mat_VarDelete) is the trusted oracle: a file is an
   association list name -> MatVar, where MatVar is the content of matvar_t / mat_sparse_t that the code hands to
   Mat_VarCreate and gets back from Mat_VarRead.  harness/drv_matio.cpp checks that contract on every run
   (it reads the written file back with plain libmatio calls and the check compares with `encode_*`).

   Definitions only; proofs are in MatIOProofs.v. *)
From Coq Require Import String.
From Coq Require Import ZArith List Bool Lia.
From PIQP.gen Require Import MatioFields.
Import ListNotations.
Open Scope Z_scope.

(* ------------------------------------------------------------------ integer conversions of the C++ code *)
(* static_cast<mat_uint32_t>(x) for x an int / Eigen::Index; Eigen's .cast<mat_uint32_t>() on Matrix<int> *)
Definition cast_u32 (z : Z) : Z := z mod 2 ^ 32.
(* internal::convert_index<int>(Index) (a plain truncating conversion; its range assertion is eigen_internal_assert) *)
Definition cast_i32 (z : Z) : Z := (z + 2 ^ 31) mod 2 ^ 32 - 2 ^ 31.
(* static_cast<size_t>(Index) *)
Definition cast_size_t (z : Z) : Z := z mod 2 ^ 64.
(* static_cast<Index>(size_t), Index = std::ptrdiff_t *)
Definition cast_index (z : Z) : Z := (z + 2 ^ 63) mod 2 ^ 64 - 2 ^ 63.
(* the bound below which int -> uint32 -> Index -> int is exact *)
Definition index_bound : Z := 2 ^ 31.

(* `for (p = s; p < e; ++p)` *)
Definition zrange (s e : Z) : list nat := seq (Z.to_nat s) (Z.to_nat (e - s)).

(* running sizes: outer[j] = number of entries inserted before column j, outer[cols] = total (startVec / finalize) *)
Fixpoint prefix_sums (s : Z) (l : list Z) : list Z :=
  match l with
  | [] => [s]
  | n :: t => s :: prefix_sums (s + n) t
  end.

Definition sel_dim (rows cols : Z) (d : dimsel) : Z := match d with DRows => rows | DCols => cols end.

Inductive mclass := C_DOUBLE | C_SPARSE.            (* MAT_C_DOUBLE, MAT_C_SPARSE *)
Inductive mtype := T_DOUBLE | T_OTHER.              (* MAT_T_DOUBLE, any other MAT_T_* *)

Section Codec.
Variable V : Type.
Variable junk : V.

(* ------------------------------------------------------------------ matvar_t / mat_sparse_t *)
Inductive MatData :=
| MDense (d : list V)                                                   (* var->data : double[rows*cols] *)
| MSparse (nzmax : Z) (ir : list Z) (nir : Z) (jc : list Z) (njc : Z) (ndata : Z) (d : list V).   (* mat_sparse_t *)

Record MatVar := {
  mv_rank : Z; mv_class : mclass; mv_dtype : mtype; mv_complex : bool;
  mv_dims : list Z;                                                     (* size_t dims[rank] *)
  mv_data : MatData }.

(* ------------------------------------------------------------------ Eigen objects *)
(* Eigen::Matrix<double,Dynamic,Dynamic> (column-major storage): rows, cols, buffer *)
Record DenseMat := { d_rows : Z; d_cols : Z; d_data : list V }.

(* Eigen::SparseMatrix<double,ColMajor,int>: outerIndexPtr (cols+1), innerNonZeroPtr (None = compressed mode),
   innerIndexPtr, valuePtr.  Also used for Eigen::Map<SparseMatrix<double,ColMajor,uint32_t>> over jc/ir/data. *)
Record SpMat := { sp_rows : Z; sp_cols : Z; sp_outer : list Z; sp_innz : option (list Z); sp_inner : list Z; sp_vals : list V }.

(* dense assignment between two column-major plain objects of `n` coefficients: linear traversal dst[k] = src[k] *)
Definition linear_copy (n : Z) (src : list V) : list V :=
  map (fun k => nth k src junk) (seq 0 (Z.to_nat n)).

(* ------------------------------------------------------------------ write_mat_impl(DenseBase) *)
Definition encode_dense (m : DenseMat) : MatVar :=
  let rows := cast_size_t (d_rows m) in                                  (* size_t rows = static_cast<size_t>(matrix.rows()) *)
  let cols := cast_size_t (d_cols m) in
  let dims := map (sel_dim rows cols) wr_dense_dims in                   (* size_t dims[2] = {rows, cols}  (regenerated) *)
  let dst_re := linear_copy (d_rows m * d_cols m) (d_data m) in          (* dst_re.resize(..); dst_re = matrix.real().cast<double>() *)
  {| mv_rank := 2; mv_class := C_DOUBLE; mv_dtype := T_DOUBLE; mv_complex := false;   (* Mat_VarCreate(name,cid,tid,2,dims,data,0) *)
     mv_dims := dims; mv_data := MDense dst_re |}.

(* Vec<T> = Matrix<double,Dynamic,1>: rows() = size(), cols() = 1 *)
Definition encode_vec (v : list V) : MatVar :=
  encode_dense {| d_rows := Z.of_nat (length v); d_cols := 1; d_data := v |}.

(* ------------------------------------------------------------------ read_mat: rank, complex flag, data_type dispatch *)
Definition read_checks (v : MatVar) : bool :=
  (mv_rank v =? 2) && negb (mv_complex v) && (match mv_dtype v with T_DOUBLE => true | T_OTHER => false end).
  (* the other data_types convert values arithmetically; save_* never produces them: outside this model (None) *)

(* ------------------------------------------------------------------ matrix_from_var(PlainObjectBase) *)
Definition decode_dense (v : MatVar) : option DenseMat :=
  if read_checks v then
    match mv_data v with
    | MDense dat =>
        let rows := cast_index (nth rd_dense_rows_dim (mv_dims v) 0) in         (* Index rows = static_cast<Index>(var->dims[0]) (regenerated) *)
        let cols := cast_index (nth rd_dense_cols_dim (mv_dims v) 0) in
        Some {| d_rows := rows; d_cols := cols; d_data := linear_copy (rows * cols) dat |}   (* matrix = Map(data,rows,cols).cast<double>() *)
    | MSparse _ _ _ _ _ _ _ => None     (* var->data is a mat_sparse_t, the code would reinterpret it as double[]: undefined *)
    end
  else None.

(* destination Vec<T>: the assignment resizes to (rows, cols); Matrix<T,Dynamic,1>::resize asserts cols == 1 *)
Definition decode_vec (v : MatVar) : option (list V) :=
  match decode_dense v with
  | Some m => if d_cols m =? 1 then Some (d_data m) else None
  | None => None
  end.

(* ------------------------------------------------------------------ Eigen sparse = sparse (assign_sparse_to_sparse) *)
(* InnerIterator of column j: p runs from outer[j] to outer[j+1] (compressed) or outer[j]+innerNonZeros[j] *)
Definition col_end (m : SpMat) (j : nat) : Z :=
  match sp_innz m with
  | None => nth (S j) (sp_outer m) 0
  | Some nz => nth j (sp_outer m) 0 + nth j nz 0
  end.

(* `for (it(src,j); it; ++it) dst.insertBackByOuterInner(j, it.index()) = it.value();`
   it.index() is widened to Index and stored through convert_index<int> (= conv) *)
Definition copy_col (conv : Z -> Z) (m : SpMat) (j : nat) : list (Z * V) :=
  map (fun p => (conv (nth p (sp_inner m) 0), nth p (sp_vals m) junk)) (zrange (nth j (sp_outer m) 0) (col_end m j)).

(* `for (j = 0; j < src.cols(); ++j) { dst.startVec(j); <copy_col> } dst.finalize();`  -- the result is compressed;
   its outer array holds the running sizes, kept in `int` (map cast_i32: + is compatible with wrapping) *)
Definition copy_compress (conv : Z -> Z) (m : SpMat) : SpMat :=
  let cols := map (copy_col conv m) (seq 0 (Z.to_nat (sp_cols m))) in
  {| sp_rows := sp_rows m; sp_cols := sp_cols m;
     sp_outer := map cast_i32 (prefix_sums 0 (map (fun c => Z.of_nat (length c)) cols));
     sp_innz := None;
     sp_inner := map fst (concat cols);
     sp_vals := map snd (concat cols) |}.

(* SparseMatrix::nonZeros() in compressed mode: outer[outerSize] - outer[0] *)
Definition nonzeros (m : SpMat) : Z := nth (Z.to_nat (sp_cols m)) (sp_outer m) 0 - nth 0 (sp_outer m) 0.

(* ------------------------------------------------------------------ write_mat_impl(SparseMatrixBase) *)
Definition encode_sparse (m : SpMat) : MatVar :=
  let rows := cast_size_t (sp_rows m) in
  let cols := cast_size_t (sp_cols m) in
  let dims := map (sel_dim rows cols) wr_sparse_dims in                  (* size_t dims[2] = {rows, cols}  (regenerated) *)
  let dst := copy_compress cast_i32 m in                                 (* SparseMatrix<double,ColMajor,int> dst(..); dst = matrix; *)
                                                                         (* dst.makeCompressed(): dst is already compressed *)
  let nz := cast_u32 (nonzeros dst) in                                   (* mat_uint32_t nz = static_cast<mat_uint32_t>(dst.nonZeros()) *)
  let dst_ir := map cast_u32 (firstn (Z.to_nat (nonzeros dst)) (sp_inner dst)) in          (* Map<Matrix<int>>(innerIndexPtr, nonZeros).cast<uint32>() *)
  let dst_jc := map cast_u32 (firstn (Z.to_nat (sp_cols dst + 1)) (sp_outer dst)) in       (* Map<Matrix<int>>(outerIndexPtr, outerSize+1).cast<uint32>() *)
  let njc := cast_u32 (sp_cols dst + 1) in                               (* static_cast<mat_uint32_t>(dst.outerSize() + 1) *)
  let dst_re_val := linear_copy (nonzeros dst) (sp_vals dst) in          (* Map<Matrix<double>>(valuePtr, nonZeros).real().cast<double>() *)
  {| mv_rank := 2; mv_class := C_SPARSE; mv_dtype := T_DOUBLE; mv_complex := false;
     mv_dims := dims;
     mv_data := MSparse nz dst_ir nz dst_jc njc nz dst_re_val |}.        (* nzmax = nir = ndata = nz *)

(* ------------------------------------------------------------------ matrix_from_var(SparseMatrixBase) *)
Definition decode_sparse (v : MatVar) : option SpMat :=
  if read_checks v then
    match mv_data v with
    | MSparse nzmax ir nir jc njc ndata dat =>
        let rows := cast_index (nth rd_sparse_rows_dim (mv_dims v) 0) in
        let cols := cast_index (nth rd_sparse_cols_dim (mv_dims v) 0) in
        if negb (nir =? ndata) || negb (njc =? nth rd_sparse_njc_dim (mv_dims v) 0 + 1)      (* "wrong sparse format" *)
        then None
        else
          (* Map<SparseMatrix<double,ColMajor,uint32_t>> map(rows, cols, ndata, jc, ir, data); matrix = map.cast<double>(); *)
          Some (copy_compress cast_i32 {| sp_rows := rows; sp_cols := cols; sp_outer := jc; sp_innz := None; sp_inner := ir; sp_vals := dat |})
    | MDense _ => None                  (* var->data is double[], the code would reinterpret it as mat_sparse_t: undefined *)
    end
  else None.

(* ------------------------------------------------------------------ the file (libmatio oracle) *)
Definition File := list (string * MatVar).

Definition file_delete (n : string) (f : File) : File :=                 (* Mat_VarDelete *)
  filter (fun e => negb (String.eqb (fst e) n)) f.
Definition file_write (n : string) (v : MatVar) (f : File) : File :=     (* MatioFile::write_mat: Mat_VarDelete; Mat_VarWrite (appends) *)
  file_delete n f ++ [(n, v)].
Fixpoint file_read (n : string) (f : File) : option MatVar :=            (* Mat_VarRead: first variable of that name *)
  match f with
  | [] => None
  | (k, v) :: t => if String.eqb k n then Some v else file_read n t
  end.

(* ------------------------------------------------------------------ models *)
Inductive Val := VDense (m : DenseMat) | VVec (v : list V) | VSparse (m : SpMat).

(* dense::Model<T> / sparse::Model<T,I>: the eight public members (kinds per struct: gen dense_members / sparse_members) *)
Record Model := { m_P : Val; m_A : Val; m_G : Val; m_c : Val; m_b : Val; m_h : Val; m_x_lb : Val; m_x_ub : Val }.

Definition get_member (name : string) (m : Model) : option Val :=
  if String.eqb name "P"%string then Some (m_P m) else if String.eqb name "A"%string then Some (m_A m) else
  if String.eqb name "G"%string then Some (m_G m) else if String.eqb name "c"%string then Some (m_c m) else
  if String.eqb name "b"%string then Some (m_b m) else if String.eqb name "h"%string then Some (m_h m) else
  if String.eqb name "x_lb"%string then Some (m_x_lb m) else if String.eqb name "x_ub"%string then Some (m_x_ub m) else None.

(* overload resolution of write_mat_impl on the static type of the member *)
Definition encode_val (x : Val) : MatVar :=
  match x with VDense m => encode_dense m | VVec v => encode_vec v | VSparse m => encode_sparse m end.

(* overload resolution of matrix_from_var on the static type of the destination *)
Definition decode_val (k : kind) (v : MatVar) : option Val :=
  match k with
  | KDense => option_map VDense (decode_dense v)
  | KVec => option_map VVec (decode_vec v)
  | KSparse => option_map VSparse (decode_sparse v)
  end.

(* save_*_model: `file.write_mat("NAME", model.MEMBER);` in statement order *)
Definition save_model (stmts : list (string * string)) (m : Model) (f : File) : option File :=
  fold_left (fun acc s => match acc with
                          | Some f => match get_member (snd s) m with
                                      | Some x => Some (file_write (fst s) (encode_val x) f)
                                      | None => None end
                          | None => None end) stmts (Some f).

End Codec.

Arguments MDense {V}. Arguments MSparse {V}.
Arguments VDense {V}. Arguments VVec {V}. Arguments VSparse {V}.
Arguments Build_MatVar {V}. Arguments mv_rank {V}. Arguments mv_class {V}. Arguments mv_dtype {V}.
Arguments mv_complex {V}. Arguments mv_dims {V}. Arguments mv_data {V}.
Arguments Build_DenseMat {V}. Arguments d_rows {V}. Arguments d_cols {V}. Arguments d_data {V}.
Arguments Build_SpMat {V}. Arguments sp_rows {V}. Arguments sp_cols {V}. Arguments sp_outer {V}.
Arguments sp_innz {V}. Arguments sp_inner {V}. Arguments sp_vals {V}.
Arguments Build_Model {V}. Arguments m_P {V}. Arguments m_A {V}. Arguments m_G {V}. Arguments m_c {V}.
Arguments m_b {V}. Arguments m_h {V}. Arguments m_x_lb {V}. Arguments m_x_ub {V}.
Arguments linear_copy {V}. Arguments encode_dense {V}. Arguments encode_vec {V}. Arguments read_checks {V}.
Arguments decode_dense {V}. Arguments decode_vec {V}. Arguments col_end {V}. Arguments copy_col {V}.
Arguments copy_compress {V}. Arguments nonzeros {V}. Arguments encode_sparse {V}. Arguments decode_sparse {V}.
Arguments file_delete {V}. Arguments file_write {V}. Arguments file_read {V}. Arguments get_member {V}.
Arguments encode_val {V}. Arguments decode_val {V}. Arguments save_model {V}.

(* ------------------------------------------------------------------ load_*_model: where does a variable of the file end up? *)
Fixpoint assoc {A} (k : string) (l : list (string * A)) : option A :=
  match l with
  | [] => None
  | (k', a) :: t => if String.eqb k' k then Some a else assoc k t
  end.

Fixpoint index_of (k : string) (l : list string) : option nat :=
  match l with
  | [] => None
  | h :: t => if String.eqb h k then Some 0%nat else option_map S (index_of k t)
  end.

Record load_role := { lr_name : string; lr_kind : kind; lr_member : string }.

(* `file.read_mat("NAME", LOCAL);` reads into a local of declared kind; `Model model(ARGS)` passes LOCAL as the i-th
   argument, i.e. to the i-th constructor parameter PARAM, and the constructor initialises exactly one member from PARAM *)
Definition resolve_role (locals : list (string * kind)) (ctor_args : list string) (ctor_params : list (string * kind))
           (inits : list (string * string)) (s : string * string) : option load_role :=
  match assoc (snd s) locals, index_of (snd s) ctor_args with
  | Some k, Some i =>
      match nth_error ctor_params i with
      | Some (param, pk) =>
          match filter (fun mi => String.eqb (snd mi) param) inits with
          | [(member, _)] => if kind_eqb k pk then Some {| lr_name := fst s; lr_kind := k; lr_member := member |} else None
          | _ => None
          end
      | None => None
      end
  | _, _ => None
  end.

Fixpoint sequence {A} (l : list (option A)) : option (list A) :=
  match l with
  | [] => Some []
  | None :: _ => None
  | Some a :: t => option_map (cons a) (sequence t)
  end.

Definition resolve_roles locals ctor_args ctor_params inits (stmts : list (string * string)) : option (list load_role) :=
  if Nat.eqb (length ctor_args) (length ctor_params)
  then sequence (map (resolve_role locals ctor_args ctor_params inits) stmts) else None.

Definition dense_load_roles : option (list load_role) :=
  resolve_roles load_dense_locals load_dense_ctor_args dense_ctor_params dense_ctor_inits load_dense_stmts.
Definition sparse_load_roles : option (list load_role) :=
  resolve_roles load_sparse_locals load_sparse_ctor_args sparse_ctor_params sparse_ctor_inits load_sparse_stmts.

Section Load.
Variable V : Type.
Variable junk : V.

(* the value that member `member` of the returned model receives *)
Definition load_member (roles : list load_role) (f : File V) (member : string) : option (Val V) :=
  match filter (fun r => String.eqb (lr_member r) member) roles with
  | [r] => match file_read (lr_name r) f with
           | Some v => decode_val junk (lr_kind r) v
           | None => None            (* read_mat fails, the local stays empty: reported as failure *)
           end
  | _ => None
  end.

Definition load_model (roles : option (list load_role)) (f : File V) : option (Model V) :=
  match roles with
  | None => None
  | Some roles =>
    match load_member roles f "P"%string, load_member roles f "A"%string, load_member roles f "G"%string, load_member roles f "c"%string,
          load_member roles f "b"%string, load_member roles f "h"%string, load_member roles f "x_lb"%string, load_member roles f "x_ub"%string with
    | Some p, Some a, Some g, Some c, Some b, Some h, Some xl, Some xu =>
        Some {| m_P := p; m_A := a; m_G := g; m_c := c; m_b := b; m_h := h; m_x_lb := xl; m_x_ub := xu |}
    | _, _, _, _, _, _, _, _ => None
    end
  end.

Definition save_dense_model := save_model junk save_dense_stmts.
Definition save_sparse_model := save_model junk save_sparse_stmts.
Definition load_dense_model := load_model dense_load_roles.
Definition load_sparse_model := load_model sparse_load_roles.

(* ------------------------------------------------------------------ well-formedness (boolean) *)
Definition size_ok (z : Z) : bool := (0 <=? z) && (z <? 2 ^ 63).

Definition wf_dense (m : DenseMat V) : bool :=
  size_ok (d_rows m) && size_ok (d_cols m) && (Z.of_nat (length (d_data m)) =? d_rows m * d_cols m).

Definition wf_vec (v : list V) : bool := size_ok (Z.of_nat (length v)).

(* s0 <= s1 <= ... *)
Fixpoint chainb (a : Z) (l : list Z) : bool :=
  match l with
  | [] => true
  | b :: t => (a <=? b) && chainb b t
  end.

Fixpoint lastz (a : Z) (l : list Z) : Z :=
  match l with
  | [] => a
  | b :: t => lastz b t
  end.

Definition idx_ok (z : Z) : bool := (0 <=? z) && (z <? index_bound).

(* a compressed CSC matrix with int indices: what the codec needs.  Explicit zeros, empty columns, nnz = 0, 0 rows,
   0 columns are all allowed; the inner indices of a column need NOT be sorted for the codec (but see wf_eigen). *)
Definition wf_csc (m : SpMat V) : bool :=
  idx_ok (sp_rows m) && idx_ok (sp_cols m)
  && (match sp_innz m with None => true | Some _ => false end)
  && (Z.of_nat (length (sp_outer m)) =? sp_cols m + 1)
  && (match sp_outer m with
      | a :: t => (a =? 0) && chainb a t && (lastz a t =? Z.of_nat (length (sp_inner m)))   (* outer[0] = 0 <= ... <= outer[cols] = nnz *)
      | [] => false end)
  && (Z.of_nat (length (sp_inner m)) =? Z.of_nat (length (sp_vals m)))
  && (Z.of_nat (length (sp_inner m)) <? index_bound)
  && forallb idx_ok (sp_inner m).

(* any (possibly un-compressed) matrix: its compressed image is well-formed *)
Definition wf_spmat (m : SpMat V) : bool := wf_csc (copy_compress junk cast_i32 m).

(* Eigen's class invariant in addition: row indices inside the matrix and strictly increasing in every column
   (insertBackByOuterInner asserts this when assertions are enabled) *)
Fixpoint strictb (l : list Z) : bool :=
  match l with
  | a :: (b :: _) as t => (a <? b) && strictb t
  | _ => true
  end.
Definition col_inner (m : SpMat V) (j : nat) : list Z :=
  map (fun p => nth p (sp_inner m) 0) (zrange (nth j (sp_outer m) 0) (nth (S j) (sp_outer m) 0)).
Definition wf_eigen (m : SpMat V) : bool :=
  wf_csc m && forallb (fun i => i <? sp_rows m) (sp_inner m)
  && forallb (fun j => strictb (col_inner m j)) (seq 0 (Z.to_nat (sp_cols m))).

Definition wf_val (x : Val V) : bool :=
  match x with VDense m => wf_dense m | VVec v => wf_vec v | VSparse m => wf_csc m end.

Definition kind_of (x : Val V) : kind := match x with VDense _ => KDense | VVec _ => KVec | VSparse _ => KSparse end.

(* the members have the kinds of the struct declaration (regenerated) and each is well-formed *)
Definition wf_model (members : list (string * kind)) (m : Model V) : bool :=
  forallb (fun mk => match get_member (fst mk) m with
                     | Some x => kind_eqb (kind_of x) (snd mk) && wf_val x
                     | None => false end) members
  && Nat.eqb (length members) 8.

(* the compressed image of every sparse member: what "the same matrices" means for un-compressed storage *)
Definition compress_val (x : Val V) : Val V :=
  match x with VSparse m => VSparse (copy_compress junk cast_i32 m) | _ => x end.
Definition compress_model (m : Model V) : Model V :=
  {| m_P := compress_val (m_P m); m_A := compress_val (m_A m); m_G := compress_val (m_G m);
     m_c := m_c m; m_b := m_b m; m_h := m_h m; m_x_lb := m_x_lb m; m_x_ub := m_x_ub m |}.

(* as wf_model, but the sparse members may be stored un-compressed *)
Definition wf_val_any (x : Val V) : bool :=
  match x with VDense m => wf_dense m | VVec v => wf_vec v | VSparse m => wf_spmat m end.
Definition wf_model_any (members : list (string * kind)) (m : Model V) : bool :=
  forallb (fun mk => match get_member (fst mk) m with
                     | Some x => kind_eqb (kind_of x) (snd mk) && wf_val_any x
                     | None => false end) members
  && Nat.eqb (length members) 8.

End Load.

(* ------------------------------------------------------------------ flat serialisation (for the correspondence check, V = Z) *)
Definition class_code (c : mclass) : Z := match c with C_DOUBLE => 6 | C_SPARSE => 5 end.   (* enum matio_classes *)
Definition dtype_code (t : mtype) : Z := match t with T_DOUBLE => 9 | T_OTHER => -1 end.     (* enum matio_types *)
Definition ser_matvar (v : MatVar Z) : list Z :=
  [mv_rank v; class_code (mv_class v); dtype_code (mv_dtype v); if mv_complex v then 1 else 0; Z.of_nat (length (mv_dims v))]
  ++ mv_dims v ++
  match mv_data v with
  | MDense d => [0; Z.of_nat (length d)] ++ d
  | MSparse nzmax ir nir jc njc ndata d =>
      [1; nzmax; nir; njc; ndata; Z.of_nat (length ir)] ++ ir ++ [Z.of_nat (length jc)] ++ jc ++ [Z.of_nat (length d)] ++ d
  end.

Definition list_eqb (l1 l2 : list Z) : bool := Nat.eqb (length l1) (length l2) && forallb (fun p => fst p =? snd p) (combine l1 l2).
Definition dense_eqb (a b : DenseMat Z) : bool :=
  (d_rows a =? d_rows b) && (d_cols a =? d_cols b) && list_eqb (d_data a) (d_data b).
Definition spmat_eqb (a b : SpMat Z) : bool :=
  (sp_rows a =? sp_rows b) && (sp_cols a =? sp_cols b) && list_eqb (sp_outer a) (sp_outer b)
  && (match sp_innz a, sp_innz b with None, None => true | Some x, Some y => list_eqb x y | _, _ => false end)
  && list_eqb (sp_inner a) (sp_inner b) && list_eqb (sp_vals a) (sp_vals b).
Definition val_eqb (a b : Val Z) : bool :=
  match a, b with
  | VDense x, VDense y => dense_eqb x y
  | VVec x, VVec y => list_eqb x y
  | VSparse x, VSparse y => spmat_eqb x y
  | _, _ => false
  end.
Definition model_eqb (a b : Model Z) : bool :=
  val_eqb (m_P a) (m_P b) && val_eqb (m_A a) (m_A b) && val_eqb (m_G a) (m_G b) && val_eqb (m_c a) (m_c b)
  && val_eqb (m_b a) (m_b b) && val_eqb (m_h a) (m_h b) && val_eqb (m_x_lb a) (m_x_lb b) && val_eqb (m_x_ub a) (m_x_ub b).

