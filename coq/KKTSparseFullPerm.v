(* KKTSparseFullPerm.v -- the decidable hypothesis of the permuted-ordering theorems of KKTSparseFullPermProofs.v.
   permute_sparse_symmetric_matrix is proved in general only up to naturality (PermuteProofs.v: it moves values, its index part is a
   function of the pattern) and completely for n <= 4; the facts the KKT_FULL update loops rely on -- the returned map PKi is a
   bijection onto the stored entries of PKPt that sends the entry (r, c) of the KKT matrix into row min(inv r, inv c) of column
   max(inv r, inv c), and the LAST stored entry of every column of PKPt is its diagonal -- are therefore checked on the run of
   permute_sym on POSITIONS (values play no role).  Executable: the model driver evaluates it on every tested ordering. *)
From PIQP Require Import Base CSC.
Local Open Scope nat_scope.

Definition nodupb (l : list nat) : bool :=
  forallb (fun i => forallb (fun j => negb (nth i l 0 =? nth j l 0)) (seq 0 i)) (seq 0 (length l)).

(* [Kp], [Ki]: outer and inner index of the N x N KKT matrix; [pinv]: ordering.inv; [C], [a2c]: result of permute_sym on positions *)
Definition perm_spec_okb (N : nat) (Kp Ki pinv : list nat) (C : csc nat) (a2c : list nat) : bool :=
  let nz := length Ki in
  (* ordering.inv is a permutation of 0..N-1 *)
  (length pinv =? N) && forallb (fun c => c <? N) pinv && nodupb pinv &&
  (* the permuted matrix is a compressed N x N matrix with as many entries; the map is a bijection onto its entries *)
  (nrows C =? N) && (ncols C =? N) && wf_csc C &&
  (length (rowind C) =? nz) && (length a2c =? nz) && forallb (fun q => q <? nz) a2c && nodupb a2c &&
  (* entry k = (i, j) of the KKT matrix goes to row min(inv i, inv j) of column max(inv i, inv j) and carries the value of k *)
  forallb (fun j => forallb (fun k =>
      let i := nth k Ki 0 in
      let i2 := nth i pinv 0 in let j2 := nth j pinv 0 in
      let q := nth k a2c 0 in
      (nth q (rowind C) 0 =? Nat.min i2 j2) &&
      (nth (Nat.max i2 j2) (colptr C) 0 <=? q) && (q <? nth (S (Nat.max i2 j2)) (colptr C) 0) &&
      (nth q (vals C) 0 =? k))
    (seq (nth j Kp 0) (nth (S j) Kp 0 - nth j Kp 0))) (seq 0 N) &&
  (* diagonal-last addressing: the last entry of column inv(col) of the permuted matrix is the image of the last entry of
     column col of the KKT matrix, and it is a diagonal entry *)
  forallb (fun col => let c := nth col pinv 0 in
                      (nth c (colptr C) 0 <? nth (S c) (colptr C) 0) &&
                      (nth (nth (S col) Kp 0 - 1) a2c 0 =? nth (S c) (colptr C) 0 - 1) &&
                      (nth (nth (S c) (colptr C) 0 - 1) (rowind C) 0 =? c)) (seq 0 N).

Definition perm_addr_okb (N : nat) (Kp Ki : list nat) (perm : list nat) : bool :=
  let nz := length Ki in
  match ordering_init perm with
  | Ok o =>
    match permute_sym nz (mkcsc N N Kp Ki (seq 0 nz)) (oPinv o) with
    | Ok (C, a2c) => perm_spec_okb N Kp Ki (oPinv o) C a2c
    | Err _ => false
    end
  | Err _ => false
  end.
