(* UpdateFreshProofs.v -- C04-T5: update(ALL eight blocks, reuse_preconditioner = false) is observationally a fresh setup().

   Assembles UpdateFreshRuizProofs (the fresh Ruiz branch forgets the old preconditioner), UpdateFreshDataProofs (data,
   preconditioner and A'A after the update = those of setup) and UpdateFreshSolveProofs (the first solve() of the two
   objects runs identically; [later_eq] is preserved by every later call).

   The solver object [sv] is any state satisfying the end-to-end invariant [e2e_inv] (EndToEndProofs: established by
   every accepted setup(), preserved by every accepted update() and every solve()); the corollary
   [update_all_noreuse_eq_fresh_history] instantiates it for  setup ; (update | solve)*. *)
From PIQP Require Import Base Data Bounds PrecondDense KKTDense IPM API.
From PIQP Require Import LinAlg LLTProofs PrecondProofs BoundsProofs Shapes ShapesProofs.
From PIQP Require Import ResidLemmas ResidSpec ResidProofs ResidLoopProofs EndToEndProofs.
From PIQP Require InteriorProofs JunkProofs JunkAPIProofs JunkWFProofs.
From PIQP Require Import UpdateFreshRuizProofs UpdateFreshDataProofs UpdateFreshSolveProofs SolveCallsShiftProofs.
From RecordUpdate Require Import RecordSet.
Import RecordSetNotations.
From Coq Require Import Lia.
Local Open Scope Qc_scope.

Local Notation pinv := PrecondProofs.pc_inverse.
Local Notation RR := JunkProofs.RR.

(* ================================================================== *)
(** * 1. from the field-by-field comparison to the hypotheses of first_solve_eq *)
(* ================================================================== *)
Lemma wf_solver_shapes sv : wf_solver sv ->
  InteriorProofs.DataShape (sv_data sv) /\ JunkAPIProofs.PcBox (sv_data sv) (sv_pc sv) /\
  JunkAPIProofs.OutShape (sv_data sv) (sv_out sv) /\
  (d_nlb (sv_data sv) <= d_n (sv_data sv))%nat /\ (d_nub (sv_data sv) <= d_n (sv_data sv))%nat.
Proof.
  intros [Wd [WL (En & Ep & Em)] Nlb Nub Wk Wo].
  pose proof (wf_nlb_le _ Wd) as Hl. pose proof (wf_nub_le _ Wd) as Hu.
  split; [apply JunkWFProofs.wf_data_shape; exact Wd|].
  destruct WL as [L1 L2 L3 L4 L5 L6 _ _]. destruct Wo as [_ _ _ _ _ _ _ _ _ _ O11 O12 O13].
  split; [unfold JunkAPIProofs.PcBox; repeat split; lia|].
  split; [unfold JunkAPIProofs.OutShape; repeat split; lia|]. auto.
Qed.

Lemma fresh_state_pair K junk sv sv1 sv2 : fresh_state K junk sv sv1 sv2 -> fresh_pair junk sv1 sv2.
Proof.
  intros [Es Ed Ep Edn EA I1 I2 Hk2 W1 W2 _ _ _ _ _ _ _ _].
  destruct (wf_solver_shapes sv1 W1) as (HD & HP & HO & Hl & Hu).
  destruct W1 as [_ _ _ _ [_ K2 K3 _ K5 K6 _ _ _] _].
  constructor; auto. repeat split; assumption.
Qed.

(* ================================================================== *)
(** * 2. the theorem                                                    *)
(* ================================================================== *)
Section Main.
Variable K : Consts.
Variable ident : bool.
Variable spc : bool.
Variable junk : F.
Hypothesis SK : sane_consts K.
(* the threshold of the Ruiz loop guard (1e-3 in the source); only the sparse preconditioner needs it *)
Hypothesis Heps : spc = true -> k_ruiz_eps K < 1.

Theorem update_all_noreuse_eq_fresh U sv B sv1 sv2 :
  e2e_inv U sv -> pc_ident (sv_pc sv) = ident -> sv_setup_done sv = true ->
  all_some B -> blocks_ok (d_n (sv_data sv)) (d_p (sv_data sv)) (d_m (sv_data sv)) B ->
  update K spc sv B false = Ok sv1 ->
  setup K ident spc junk (sv_set sv) (d_n (sv_data sv)) (d_p (sv_data sv)) (d_m (sv_data sv)) B = Ok sv2 ->
  (* (a) the stored problem, the preconditioner and the settings are EQUAL, field by field *)
  sv_data sv1 = sv_data sv2 /\ sv_pc sv1 = sv_pc sv2 /\ sv_set sv1 = sv_set sv2 /\
  (* (b) of the KKT object only A'A survives into the next solve(), and it is equal *)
  k_ATA (sv_kkt sv1) = k_ATA (sv_kkt sv2) /\
  sv_kkt_init_state sv1 = false /\ sv_kkt_init_state sv2 = true /\
  (* (c) the NEXT solve: same error, or same status and observationally equal solver objects (in particular the
         same sv_out and sv_info), for every fault oracle and every checkpoint rounding *)
  forall (fault : nat -> bool) (cp_bits : Z),
    sv_refine sv1 = sv_refine sv2 -> sv_calls sv1 = sv_calls sv2 ->
    ((sv_out sv1 = sv_out sv2 /\ carry_info (sv_info sv1) = carry_info (sv_info sv2)) \/
     ((0 < max_iter (sv_set sv2))%Z /\ ~ init_gives_up K fault sv2)) ->
    RR solve_rel0 (solve K junk cp_bits fault sv1) (solve K junk cp_bits fault sv2).
Proof.
  intros Inv Hid Hdone HB BO Hu Hs.
  pose proof (update_all_noreuse_state K ident spc junk U sv B sv1 sv2 SK Heps Inv Hid Hdone HB BO Hu Hs) as FS.
  pose proof (fresh_state_pair K junk sv sv1 sv2 FS) as FP.
  destruct FS as [Es Ed Ep Edn EA I1 I2 Hk2 W1 W2 _ _ _ _ _ _ _ _].
  do 6 (split; [assumption|]).
  intros fault cp_bits Hr Hc Hcarry. apply first_solve_eq; assumption.
Qed.

(* what [solve_rel0] gives: equal status, equal outputs, equal info, and [later_eq] for all later calls *)
Corollary update_all_noreuse_next_solve U sv B sv1 sv2 fault cp_bits sv1' st1 sv2' st2 :
  e2e_inv U sv -> pc_ident (sv_pc sv) = ident -> sv_setup_done sv = true ->
  all_some B -> blocks_ok (d_n (sv_data sv)) (d_p (sv_data sv)) (d_m (sv_data sv)) B ->
  update K spc sv B false = Ok sv1 ->
  setup K ident spc junk (sv_set sv) (d_n (sv_data sv)) (d_p (sv_data sv)) (d_m (sv_data sv)) B = Ok sv2 ->
  sv_refine sv1 = sv_refine sv2 -> sv_calls sv1 = sv_calls sv2 ->
  ((sv_out sv1 = sv_out sv2 /\ carry_info (sv_info sv1) = carry_info (sv_info sv2)) \/
   ((0 < max_iter (sv_set sv2))%Z /\ ~ init_gives_up K fault sv2)) ->
  solve K junk cp_bits fault sv1 = Ok (sv1', st1) -> solve K junk cp_bits fault sv2 = Ok (sv2', st2) ->
  st1 = st2 /\ sv_out sv1' = sv_out sv2' /\ sv_info sv1' = sv_info sv2' /\ later_eq sv1' sv2'.
Proof.
  intros Inv Hid Hdone HB BO Hu Hs Hr Hc Hcarry E1 E2.
  destruct (update_all_noreuse_eq_fresh U sv B sv1 sv2 Inv Hid Hdone HB BO Hu Hs) as (_ & _ & _ & _ & _ & _ & H).
  specialize (H fault cp_bits Hr Hc Hcarry). rewrite E1, E2 in H. destruct H as [HL Est]. cbn in HL, Est.
  destruct (later_eq_obs _ _ HL) as (_ & _ & _ & Ei & Eo & _). auto.
Qed.

(* a status other than NUMERICS certifies that the initial factorisation did not give up *)
Corollary update_all_noreuse_next_solve_not_numerics U sv B sv1 sv2 fault cp_bits sv1' st1 sv2' st2 :
  e2e_inv U sv -> pc_ident (sv_pc sv) = ident -> sv_setup_done sv = true ->
  all_some B -> blocks_ok (d_n (sv_data sv)) (d_p (sv_data sv)) (d_m (sv_data sv)) B ->
  update K spc sv B false = Ok sv1 ->
  setup K ident spc junk (sv_set sv) (d_n (sv_data sv)) (d_p (sv_data sv)) (d_m (sv_data sv)) B = Ok sv2 ->
  sv_refine sv1 = sv_refine sv2 -> sv_calls sv1 = sv_calls sv2 ->
  (0 < max_iter (sv_set sv2))%Z -> st2 <> NUMERICS ->
  solve K junk cp_bits fault sv1 = Ok (sv1', st1) -> solve K junk cp_bits fault sv2 = Ok (sv2', st2) ->
  st1 = st2 /\ sv_out sv1' = sv_out sv2' /\ sv_info sv1' = sv_info sv2' /\ later_eq sv1' sv2'.
Proof.
  intros Inv Hid Hdone HB BO Hu Hs Hr Hc Hm Hn E1 E2.
  eapply update_all_noreuse_next_solve; eauto. right. split; [exact Hm|].
  intros G. apply Hn. eapply init_gives_up_numerics; eauto.
Qed.

End Main.

(* ================================================================== *)
(** * 3. histories                                                      *)
(* ================================================================== *)
Lemma scale_data_ident K sq pc d reuse sc it pc' d' :
  scale_data K sq pc d reuse sc it = Ok (pc', d') -> pc_ident pc' = pc_ident pc.
Proof.
  unfold scale_data. destruct (pc_ident pc) eqn:E.
  - intros [= <- _]. cbn. exact E.
  - intros H. rewrite (ruiz_scale_ident _ _ _ _ _ _ _ _ _ H). exact E.
Qed.

Lemma setup_kind K ident spc junk S n p m B sv :
  setup K ident spc junk S n p m B = Ok sv -> pc_ident (sv_pc sv) = ident /\ sv_setup_done sv = true.
Proof.
  unfold setup. destruct (b_P B); [|discriminate]. destruct (b_c B); [|discriminate].
  repeat match goal with |- context [let '(_, _) := ?e in _] => destruct e end.
  destruct (scale_data _ _ _ _ _ _ _) as [[pc d]|] eqn:E; cbn [bind]; [|discriminate].
  destruct (kkt_init _ _ _ _); cbn [bind]; [|discriminate]. intros [= <-]. cbn.
  apply scale_data_ident in E. cbn in E. auto.
Qed.

Lemma update_kind K spc sv B reuse sv' :
  update K spc sv B reuse = Ok sv' -> pc_ident (sv_pc sv') = pc_ident (sv_pc sv) /\ sv_setup_done sv' = sv_setup_done sv.
Proof.
  rewrite update_unfold. destruct (unscale_data _ _); cbn [bind]; [|discriminate].
  destruct (scale_data _ _ _ _ _ _ _) as [[pc d]|] eqn:E; cbn [bind]; [|discriminate].
  cbv zeta. destruct (kkt_update_data _ _ _ _ _); cbn [bind]; [|discriminate]. intros [= <-]. cbn.
  apply scale_data_ident in E. auto.
Qed.

Lemma solve_kind K junk cp_bits fault sv sv' stt :
  solve K junk cp_bits fault sv = Ok (sv', stt) -> sv_pc sv' = sv_pc sv /\ sv_setup_done sv' = sv_setup_done sv.
Proof.
  rewrite solve_unfold.
  destruct (if sv_kkt_init_state sv then _ else _) as [st1|]; cbn [bind]; [|discriminate].
  unfold solve_rest. destruct (solve_init K fault sv st1) as [[st2 ok]|]; cbn [bind]; [|discriminate].
  assert (Fin : forall st it, solve_fin junk sv st it = Ok (sv', stt) -> sv_pc sv' = sv_pc sv /\ sv_setup_done sv' = sv_setup_done sv).
  { intros st it H. unfold solve_fin in H. destruct (unscale_and_restore junk sv it); cbn [bind] in H; [|discriminate].
    injection H as <- _. cbn. auto. }
  destruct ok; cbn [negb]; cbv iota.
  - destruct (initial_point _ _ _ _ _) as [st3|]; cbn [bind]; [|discriminate].
    destruct (main_loop _ _ _ _ _ _ _ _) as [st4|]; cbn [bind]; [|discriminate]. apply Fin.
  - apply Fin.
Qed.

Lemma run_sops_kind K spc junk cp_bits : forall h sv1 sv,
  run_sops K spc junk cp_bits sv1 h = Ok sv ->
  pc_ident (sv_pc sv) = pc_ident (sv_pc sv1) /\ sv_setup_done sv = sv_setup_done sv1.
Proof.
  induction h as [|o t IH]; intros sv1 sv H; cbn [run_sops] in H.
  - injection H as <-. auto.
  - destruct (sop_step K spc junk cp_bits sv1 o) as [sv2|] eqn:Es; cbn [bind] in H; [|discriminate].
    destruct (IH _ _ H) as [A1 A2]. rewrite A1, A2. destruct o as [Bu reuse|fl]; cbn [sop_step] in Es.
    + apply update_kind in Es. exact Es.
    + destruct (solve K junk cp_bits fl sv1) as [[sv3 stt]|] eqn:Ess; cbn [bind] in Es; [|discriminate].
      injection Es as <-. destruct (solve_kind K junk cp_bits fl sv1 sv3 stt Ess) as [B1 B2]. rewrite B1, B2. auto.
Qed.

(* ================================================================== *)
(** * 4. the call counter: any two counters, oracles that agree from there on *)
(* ================================================================== *)
(* [sv_calls] only indexes the fault oracle of hook H1.  After solves in the history the counter of the updated object
   differs from the counter (0) of the fresh one; the comparison is then between oracles that announce the same faults
   from the respective counters on:  f1 (sv_calls sv1 + k) = f2 (sv_calls sv2 + k)  (e.g. both "never fail"). *)

(* observational equality up to the value of the call counters *)
Definition later_eq_mod (a b : Solver) : Prop := later_eq (set_calls (sv_calls b) a) b.

Definition solve_rel_mod (c1 c2 : nat) (u v : Solver * Status) : Prop :=
  snd u = snd v /\ later_eq_mod (fst u) (fst v) /\
  exists n, sv_calls (fst u) = (c1 + n)%nat /\ sv_calls (fst v) = (c2 + n)%nat.

Lemma later_eq_mod_obs a b : later_eq_mod a b ->
  sv_set a = sv_set b /\ sv_data a = sv_data b /\ sv_pc a = sv_pc b /\ sv_info a = sv_info b /\ sv_out a = sv_out b /\
  sv_refine a = sv_refine b /\ k_ATA (sv_kkt a) = k_ATA (sv_kkt b).
Proof. intros H. destruct (later_eq_obs _ _ H) as (A1 & A2 & A3 & A4 & A5 & A6 & _ & A8). cbn in *. auto 10. Qed.

Lemma RR_compose {A B C} (R1 : A -> B -> Prop) (R2 : B -> C -> Prop) (R : A -> C -> Prop) x y z :
  (forall a b c, R1 a b -> R2 b c -> R a c) -> RR R1 x y -> RR R2 y z -> RR R x z.
Proof. intros H. destruct x, y, z; cbn; try contradiction; try congruence. intros; eapply H; eauto. Qed.

Lemma shift_then_later c1 c2 (u w v : Solver * Status) :
  (snd u = snd w /\ sv_shift c1 c2 (fst u) (fst w)) -> solve_rel0 w v -> sv_calls (fst v) = sv_calls (fst w) ->
  solve_rel_mod c1 c2 u v.
Proof.
  intros [E1 (n & Hn & Hw)] [HL E2] Ec. split; [congruence|].
  assert (Ew : sv_calls (fst w) = (c2 + n)%nat) by (rewrite Hw; reflexivity).
  split; [|exists n; split; [exact Hn|congruence]].
  unfold later_eq_mod. rewrite Ec, Ew, <- Hw. exact HL.
Qed.

Lemma later_eq_calls a b : later_eq a b -> sv_calls b = sv_calls a.
Proof. intros ((_ & _ & _ & _ & _ & _ & _ & _ & O9) & _). auto. Qed.

Section AnyCalls.
Variable K : Consts.
Variable junk : F.
Variable cp_bits : Z.
Variables f1 f2 : nat -> bool.

Lemma fresh_pair_set_calls c sv1 sv2 : fresh_pair junk sv1 sv2 -> fresh_pair junk (set_calls c sv1) sv2.
Proof. intros []. constructor; assumption. Qed.

Theorem first_solve_eq_any_calls sv1 sv2 :
  fresh_pair junk sv1 sv2 -> sv_refine sv1 = sv_refine sv2 ->
  (forall k, f1 (sv_calls sv1 + k)%nat = f2 (sv_calls sv2 + k)%nat) ->
  ((sv_out sv1 = sv_out sv2 /\ carry_info (sv_info sv1) = carry_info (sv_info sv2)) \/
   ((0 < max_iter (sv_set sv2))%Z /\ ~ init_gives_up K f2 sv2)) ->
  RR (solve_rel_mod (sv_calls sv1) (sv_calls sv2)) (solve K junk cp_bits f1 sv1) (solve K junk cp_bits f2 sv2).
Proof.
  intros FP Hr Hf Hcarry.
  pose proof (solve_calls_shift K junk cp_bits f1 f2 sv1 (sv_calls sv2) Hf) as H1.
  pose proof (first_solve_eq K junk cp_bits f2 (set_calls (sv_calls sv2) sv1) sv2
                (fresh_pair_set_calls _ _ _ FP) Hr eq_refl Hcarry) as H2.
  eapply RR_compose; [|exact H1|exact H2].
  intros u w v Hs HL. apply (shift_then_later _ _ u w v Hs HL). apply later_eq_calls, HL.
Qed.

Theorem later_eq_mod_solve a b :
  later_eq_mod a b -> JunkAPIProofs.SolveShape a ->
  (forall k, f1 (sv_calls a + k)%nat = f2 (sv_calls b + k)%nat) ->
  RR (solve_rel_mod (sv_calls a) (sv_calls b)) (solve K junk cp_bits f1 a) (solve K junk cp_bits f2 b).
Proof.
  intros HL HS Hf.
  pose proof (solve_calls_shift K junk cp_bits f1 f2 a (sv_calls b) Hf) as H1.
  pose proof (later_eq_solve K junk cp_bits f2 (set_calls (sv_calls b) a) b HL HS) as H2.
  eapply RR_compose; [|exact H1|exact H2].
  intros u w v Hs HL'. apply (shift_then_later _ _ u w v Hs HL'). apply later_eq_calls, HL'.
Qed.

End AnyCalls.

Lemma update_set_calls K sq c a B reuse :
  update K sq (set_calls c a) B reuse = rmap (set_calls c) (update K sq a B reuse).
Proof.
  rewrite !JunkAPIProofs.update_split.
  change (JunkAPIProofs.update_data K sq (set_calls c a) B reuse) with (JunkAPIProofs.update_data K sq a B reuse).
  destruct (JunkAPIProofs.update_data K sq a B reuse) as [[pc d]|]; cbn [bind rmap]; [|reflexivity].
  change (sv_kkt (set_calls c a)) with (sv_kkt a).
  destruct (kkt_update_data d (sv_kkt a) _ _ _) as [k|]; cbn [bind rmap]; [|reflexivity].
  destruct a; reflexivity.
Qed.

Lemma update_calls K sq a B reuse a' : update K sq a B reuse = Ok a' -> sv_calls a' = sv_calls a.
Proof.
  rewrite JunkAPIProofs.update_split.
  destruct (JunkAPIProofs.update_data K sq a B reuse) as [[pc d]|]; cbn [bind]; [|discriminate].
  destruct (kkt_update_data d (sv_kkt a) _ _ _) as [k|]; cbn [bind]; [|discriminate].
  intros [= <-]. reflexivity.
Qed.

Theorem later_eq_mod_update_ok K sq a b B reuse a' b' :
  later_eq_mod a b -> update K sq a B reuse = Ok a' -> update K sq b B reuse = Ok b' -> later_eq_mod a' b'.
Proof.
  intros HL Ea Eb. unfold later_eq_mod. rewrite (update_calls _ _ _ _ _ _ Eb).
  eapply (later_eq_update_ok K sq (set_calls (sv_calls b) a) b B reuse); [exact HL| |exact Eb].
  rewrite update_set_calls, Ea. reflexivity.
Qed.

Section MainAnyCalls.
Variable K : Consts.
Variable ident : bool.
Variable spc : bool.
Variable junk : F.
Hypothesis SK : sane_consts K.
Hypothesis Heps : spc = true -> k_ruiz_eps K < 1.

(* the general form of clause (c) of update_all_noreuse_eq_fresh: solves may have happened before the update *)
Theorem update_all_noreuse_eq_fresh_any_calls U sv B sv1 sv2 :
  e2e_inv U sv -> pc_ident (sv_pc sv) = ident -> sv_setup_done sv = true ->
  all_some B -> blocks_ok (d_n (sv_data sv)) (d_p (sv_data sv)) (d_m (sv_data sv)) B ->
  update K spc sv B false = Ok sv1 ->
  setup K ident spc junk (sv_set sv) (d_n (sv_data sv)) (d_p (sv_data sv)) (d_m (sv_data sv)) B = Ok sv2 ->
  forall (f1 f2 : nat -> bool) (cp_bits : Z),
    sv_refine sv1 = sv_refine sv2 ->
    (forall k, f1 (sv_calls sv1 + k)%nat = f2 (sv_calls sv2 + k)%nat) ->
    ((sv_out sv1 = sv_out sv2 /\ carry_info (sv_info sv1) = carry_info (sv_info sv2)) \/
     ((0 < max_iter (sv_set sv2))%Z /\ ~ init_gives_up K f2 sv2)) ->
    RR (solve_rel_mod (sv_calls sv1) (sv_calls sv2)) (solve K junk cp_bits f1 sv1) (solve K junk cp_bits f2 sv2).
Proof.
  intros Inv Hid Hdone HB BO Hu Hs f1 f2 cp_bits Hr Hf Hcarry.
  pose proof (update_all_noreuse_state K ident spc junk U sv B sv1 sv2 SK Heps Inv Hid Hdone HB BO Hu Hs) as FS.
  apply first_solve_eq_any_calls; try assumption. eapply fresh_state_pair; eauto.
Qed.

End MainAnyCalls.

(* ================================================================== *)
(** * 5. the theorem for  setup ; (update | solve)* ; update(all, reuse = false)  *)
(* ================================================================== *)
Theorem update_all_noreuse_eq_fresh_history K ident spc junk cp_bits0 S n p m B0 sv0 h sv B sv1 sv2 :
  sane_consts K -> (spc = true -> k_ruiz_eps K < 1) ->
  (* any accepted history *)
  setup_blocks_ok n p m B0 -> setup K ident spc junk S n p m B0 = Ok sv0 ->
  Forall (sop_ok n p m) h -> run_sops K spc junk cp_bits0 sv0 h = Ok sv ->
  (* update with all blocks, no reuse / fresh setup with the same settings *)
  all_some B -> blocks_ok n p m B ->
  update K spc sv B false = Ok sv1 -> setup K ident spc junk S n p m B = Ok sv2 ->
  sv_data sv1 = sv_data sv2 /\ sv_pc sv1 = sv_pc sv2 /\ sv_set sv1 = sv_set sv2 /\
  k_ATA (sv_kkt sv1) = k_ATA (sv_kkt sv2) /\
  forall (f1 f2 : nat -> bool) (cp_bits : Z),
    sv_refine sv1 = sv_refine sv2 ->
    (forall k, f1 (sv_calls sv1 + k)%nat = f2 (sv_calls sv2 + k)%nat) ->
    ((sv_out sv1 = sv_out sv2 /\ carry_info (sv_info sv1) = carry_info (sv_info sv2)) \/
     ((0 < max_iter S)%Z /\ ~ init_gives_up K f2 sv2)) ->
    RR (solve_rel_mod (sv_calls sv1) (sv_calls sv2)) (solve K junk cp_bits f1 sv1) (solve K junk cp_bits f2 sv2).
Proof.
  intros SK He BO0 E0 Fh Eh HB BO Hu Hs.
  destruct (setup_establishes_scaled_problem_proof K ident spc junk S n p m B0 sv0 SK BO0 E0) as (Inv0 & Dn & Dp & Dm & _).
  destruct (history_invariant K spc junk cp_bits0 n p m SK h _ sv0 sv Inv0 Dn Dp Dm Fh Eh) as (Inv & En & Ep & Em & _).
  destruct (setup_kind _ _ _ _ _ _ _ _ _ _ E0) as [K1 K2].
  destruct (run_sops_kind _ _ _ _ _ _ _ Eh) as [K3 K4].
  assert (ES : sv_set sv = S) by (rewrite (run_sops_set _ _ _ _ _ _ _ Eh); apply (setup_set _ _ _ _ _ _ _ _ _ _ E0)).
  rewrite <- En, <- Ep, <- Em, <- ES in Hs. rewrite <- En, <- Ep, <- Em in BO.
  assert (Hid : pc_ident (sv_pc sv) = ident) by congruence.
  assert (Hdone : sv_setup_done sv = true) by congruence.
  destruct (update_all_noreuse_eq_fresh K ident spc junk SK He _ sv B sv1 sv2 Inv Hid Hdone HB BO Hu Hs)
    as (A1 & A2 & A3 & A4 & _ & _ & _).
  do 4 (split; [assumption|]).
  assert (ES2 : sv_set sv2 = S) by (rewrite <- A3; rewrite (update_set _ _ _ _ _ _ Hu); exact ES).
  intros f1 f2 cp_bits Hr Hf Hcarry.
  apply (update_all_noreuse_eq_fresh_any_calls K ident spc junk SK He _ sv B sv1 sv2 Inv Hid Hdone HB BO Hu Hs); try assumption.
  rewrite ES2. exact Hcarry.
Qed.
